(* Decidable checks over the regenerated structural facts (Gen/Facts_gen.v), re-proved by
   vm_compute on every run: the hypotheses of the general theorems of CtrProofsConc.v
   (no shared write) and CtrProofsDataflow.v (self-initialising summaries) for /repo as it is.

   Everything here is computed from whatever the translator printed; a new write site, field,
   caller or map iteration changes a computed value and breaks the corresponding proof. *)
From Coq Require Import String List Bool Arith Lia.
Import ListNotations.
From V Require Import Contract.CtrDataflow Contract.CtrProofsDataflow Gen.Facts_gen.
Open Scope string_scope.
Open Scope list_scope.

Definition is_nil {X} (l : list X) : bool := match l with [] => true | _ => false end.
Definition eqb2 (a b : string * string) : bool := String.eqb (fst a) (fst b) && String.eqb (snd a) (snd b).
Definition mem2 (x : string * string) (l : list (string * string)) : bool := existsb (eqb2 x) l.

(* ==================================================================================== *)
(* A. package-level variables (C18 static obligation, first half)                        *)
(* ==================================================================================== *)

(* Why a write site outside init is accepted.  Every entry was inspected in the source. *)
Inductive why : Type :=
| ReadOnlyAddress                               (* kind must be addr_ro (translator: pointer only loaded through) *)
| NotReachableFromCodecs (callers : list (string * string)).
    (* the function must not be reachable from any method of a codec / parameter /
       jpeg2000.Encoder / jpeg2000.Decoder type (writer_entry_reach = []) and every reference
       to it in the module must come from the listed (package, function) pairs *)

Definition allow_list : list (string * string * string * string * why) :=
  [ (* vlc_decoder.go buildLookupTables and vlc_tables.go InitVLCTables: `entry := &VLCTbl0[j]`
       inside `for j := range VLCTbl0`; entry is only used as entry.CQ / .Cwd / .CwdLen / .Rho /
       .UOff / .E1 / .EK on right-hand sides.  The source table is never stored to. *)
    ("jpeg2000/htj2k", "VLCTbl0", "(*VLCDecoder).buildLookupTables", "addr_ro", ReadOnlyAddress);
    ("jpeg2000/htj2k", "VLCTbl1", "(*VLCDecoder).buildLookupTables", "addr_ro", ReadOnlyAddress);
    ("jpeg2000/htj2k", "VLCTbl0", "InitVLCTables", "addr_ro", ReadOnlyAddress);
    ("jpeg2000/htj2k", "VLCTbl1", "InitVLCTables", "addr_ro", ReadOnlyAddress);
    (* vlc_tables.go: exported InitVLCTables() fills VLCLookupTable0/1 from the constant source
       tables.  Its only caller in the module is that file's init(); no codec path reaches it.
       (An application calling it by hand while codecs run would race; not a library path.) *)
    ("jpeg2000/htj2k", "VLCLookupTable0", "InitVLCTables", "elem",
       NotReachableFromCodecs [("jpeg2000/htj2k", "init")]);
    ("jpeg2000/htj2k", "VLCLookupTable1", "InitVLCTables", "elem",
       NotReachableFromCodecs [("jpeg2000/htj2k", "init")]);
    (* vlc_generator.go: exported GenerateVLCTables() fills VLCDecodeTbl0/1; called from two
       init() functions and from NewVLCDecoderOptimized under the guard
       `VLCDecodeTbl0[0].CwdLen == 0 && VLCTbl0[0].CwdLen != 0` ("generate if not yet
       generated").  NewVLCDecoderOptimized has no caller in the module (the codecs use
       NewVLCDecoder), so no Encode/Decode reaches it; the suite additionally checks that
       the tables are bit-identical before and after a workload. *)
    ("jpeg2000/htj2k", "VLCDecodeTbl0", "GenerateVLCTables", "elem",
       NotReachableFromCodecs [("jpeg2000/htj2k", "init"); ("jpeg2000/htj2k", "NewVLCDecoderOptimized")]);
    ("jpeg2000/htj2k", "VLCDecodeTbl1", "GenerateVLCTables", "elem",
       NotReachableFromCodecs [("jpeg2000/htj2k", "init"); ("jpeg2000/htj2k", "NewVLCDecoderOptimized")]) ].

(* reference-typed package variables handed to a callee: inspected, all read-only *)
Definition escape_allow : list (string * string * string) :=
  [ (* errors.Is(err, ErrInsufficientData): comparison *)
    ("jpeg2000/htj2k", "ErrInsufficientData", "(*HTBlockDecoder).DecodeBlock");
    (* validateTable(name, VLCTbl0, VLCDecodeTbl0): ranges over the slice, compares fields *)
    ("jpeg2000/htj2k", "VLCTbl0", "ValidateVLCTables");
    ("jpeg2000/htj2k", "VLCTbl1", "ValidateVLCTables") ].

Definition is_init_name (f : string) : bool :=
  String.eqb f "init" || String.eqb f "<pkg-level initializer>".

Definition callers_of (p f : string) : list (string * string) :=
  flat_map (fun x => match x with (p', f', cp, cf) =>
              if String.eqb p p' && String.eqb f f' then [(cp, cf)] else [] end) writer_callers.
Definition entry_reach_of (p f : string) : list string :=
  flat_map (fun x => match x with (p', f', es) =>
              if String.eqb p p' && String.eqb f f' then es else [] end) writer_entry_reach.

Definition allow_holds (p v f k : string) (y : why) : bool :=
  match y with
  | ReadOnlyAddress => String.eqb k "addr_ro"
  | NotReachableFromCodecs cs =>
      is_nil (entry_reach_of p f) && forallb (fun c => mem2 c cs) (callers_of p f)
  end.

Definition pkg_write_ok (w : string * string * string * string) : bool :=
  let '(p, v, f, k) := w in
  is_init_name f || mem2 (p, f) init_only_funcs ||
  existsb (fun a => match a with (p', v', f', k', y) =>
             String.eqb p p' && String.eqb v v' && String.eqb f f' && String.eqb k k'
             && allow_holds p v f k y end) allow_list.

Definition escape_ok (e : string * string * string) : bool :=
  let '(p, v, f) := e in
  is_init_name f || mem2 (p, f) init_only_funcs ||
  existsb (fun a => match a with (p', v', f') =>
             String.eqb p p' && String.eqb v v' && String.eqb f f' end) escape_allow.

(* References INTO a package-level variable that leave it (a pointer / slice / map value read
   from the variable, or the address of part of it, copied somewhere).  A copy into a local
   variable is harmless by itself: stores through the local are in pkg_var_writes as
   elem-via-alias (and must pass pkg_write_ok like any other write); every further hop of the
   reference (into a field, returned, passed on, into a literal) must be init-only or inspected.
   Seeded example this closes: a decoder that takes `q := defaultQuantizers[bits]`, keeps it in
   `dec.quantizer` and later assigns `dec.quantizer.T1` — shared state written through a field. *)
Definition ref_allow : list (string * string * string * string) :=
  [ (* uvlc_decoder.go DecodePair: `table = UVLCTbl0[:]` / `UVLCTbl1[:]`, then
       d.decodeUVLCEntry(table, mode), which only indexes table on right-hand sides *)
    ("jpeg2000/htj2k", "UVLCTbl0", "(*UVLCDecoder).DecodePair", "via-local:passed");
    ("jpeg2000/htj2k", "UVLCTbl1", "(*UVLCDecoder).DecodePair", "via-local:passed") ].
Definition ref_ok (e : string * string * string * string) : bool :=
  let '(p, v, f, how) := e in
  String.eqb how "to-local" || is_init_name f || mem2 (p, f) init_only_funcs ||
  existsb (fun a => match a with (p', v', f', h') =>
             String.eqb p p' && String.eqb v v' && String.eqb f f' && String.eqb how h' end) ref_allow.

Definition pkg_level_ok : bool :=
  forallb pkg_write_ok pkg_var_writes && is_nil pkg_ext_writes && forallb escape_ok pkg_var_escapes
  && forallb ref_ok pkg_var_refs.

(* the extractor sees every write only if these are absent; time / math/rand would make
   outputs depend on timing *)
Definition bad_imports : list string := ["unsafe"; "reflect"; "C"; "time"; "math/rand"].
Definition imports_ok : bool := forallb (fun pi => negb (mem (snd pi) bad_imports)) facts_imports.

(* map iteration, goroutines, select: inspected sites *)
Definition nondet_allow : list (string * string * string) :=
  [ (* parser.go: copies part.COC / part.QCC into existing.COC / .QCC key by key; the result
       is the same map whatever the order (only WHICH mismatch is reported first can vary) *)
    ("jpeg2000/codestream", "mergeCOCSection", "range-over-map");
    ("jpeg2000/codestream", "mergeQCCSection", "range-over-map");
    (* collects the keys and sort.Ints them before use *)
    ("jpeg2000/t2", "(*PacketDecoder).precinctIndicesForResolution", "range-over-map");
    ("jpeg2000/t2", "(*PacketEncoder).sortedPrecincts", "range-over-map");
    ("jpeg2000/t2", "sortedPositions", "range-over-map");
    (* per key: sorts that key's entries and stores them under the same key *)
    ("jpeg2000/t2", "(*PacketDecoder).storePrecinctBands", "range-over-map");
    ("jpeg2000/t2", "(*TileDecoder).buildPrecinctOrder", "range-over-map");
    (* resets every precinct's trees and flags: order irrelevant *)
    ("jpeg2000/t2", "(*PacketEncoder).ResetState", "range-over-map") ].
Definition nondet_ok : bool :=
  forallb (fun s => existsb (fun a => match s, a with (p, f, k), (p', f', k') =>
             String.eqb p p' && String.eqb f f' && String.eqb k k' end) nondet_allow) nondet_sites.

(* ==================================================================================== *)
(* B. codec receivers (C18 static obligation, second half; also C10: a codec object has   *)
(*    no mutable state, so call histories on it are maps)                                 *)
(* ==================================================================================== *)
Definition write_kinds : list string := ["W"; "U"; "A"; "S"].
Definition has_kind (ks : list string) (evs : list ev) : bool :=
  existsb (fun e => mem (fst (fst e)) ks) evs.

Definition codec_receiver_violations : list (string * string * string) :=
  flat_map (fun x => match x with (p, t, c, m, evs) =>
     if String.eqb c "codec" && has_kind write_kinds evs then [(p, t, m)] else [] end) method_events.
(* a reference-typed field of a codec object handed to callers by some method: shared with
   every caller, so it must be something nobody writes.  Allowed: transferSyntax (pointer to the
   go-dicom package constant; TransferSyntax() returns it, Encode compares it).
   Seeded example this closes: a `defaults` parameters object kept in the codec, returned by
   GetDefaultParameters() and used by Encode(nil). *)
Definition returned_field_allow : list string := ["transferSyntax"].
Definition codec_returned_fields : list (string * string * string * string) :=
  flat_map (fun x => match x with (p, t, c, m, evs) =>
     if String.eqb c "codec"
     then map (fun f => (p, t, m, f)) (filter (fun f => negb (mem f returned_field_allow)) (ev_names "T" evs))
     else [] end) method_events.

Definition codec_receiver_ok : bool := is_nil codec_receiver_violations && is_nil codec_returned_fields.

Definition codec_types : list (string * string) :=
  flat_map (fun x => match x with (p, t, c) => if String.eqb c "codec" then [(p, t)] else [] end) tracked_types.

(* ==================================================================================== *)
(* C. parameter objects (DESIGN C18: written only by Validate/setters, and Validate only   *)
(*    under a guard, so that an already-valid shared object is never written)             *)
(* ==================================================================================== *)

(* (1) codec methods never store a field of an object that may be the caller's *)
Definition codec_shared_stores : list (string * string * string) :=
  flat_map (fun x => match x with (p, t, c, m, evs) =>
     if String.eqb c "codec" then map (fun n => (p, m, n)) (ev_names "FS" evs) else [] end) method_events.
(* (2) helpers that store through a parameter are only ever handed objects created by their caller *)
Definition param_store_violations : list (string * string * string * string) :=
  flat_map (fun s => match s with (p, key, _) =>
     filter (fun q => match q with (p', key', kind, _) =>
        String.eqb p p' && String.eqb key key' && negb (String.eqb kind "P") end) param_passes end) param_stores.
(* (3) the only methods invoked on a possibly shared parameter object *)
Definition last_segment_ok (n : string) : bool :=
  (* n = "Type.Validate" / "Type.GetParameter" / "Type.GetParameter#i" *)
  existsb (fun suffix => existsb (fun k => String.eqb (substring k (String.length suffix) n) suffix)
                                 (seq 0 (String.length n)))
          [".Validate"; ".GetParameter"].
Definition codec_shared_calls_bad : list (string * string * string) :=
  flat_map (fun x => match x with (p, t, c, m, evs) =>
     if String.eqb c "codec"
     then map (fun n => (p, m, n))
              (filter (fun n => negb (last_segment_ok n)) (ev_names "MS" evs ++ ev_names "MP" evs))
     else [] end) method_events.
(* (3b) through the codec . Parameters interface the caller's object is asked GetParameter only,
   except for inspected write-backs that sit under an "already holds this value => no write"
   test: the SetParameter event must be directly preceded (region starts aside) by a
   GetParameter event one nesting level up, and the (package, method) must be listed here.
   jpegls/nearlossless Decode (after the repair of finding F24):
       if current, ok := parameters.GetParameter("near").(int); !ok || current != near {
           parameters.SetParameter("near", near) }
   Documented limit: with ONE shared parameters object and streams whose NEAR differs from the
   value in the object the write still happens (and then races); with streams coded with those
   parameters — what a Transcoder does — it never does. *)
Definition iface_set_allow : list (string * string) := [("jpegls/nearlossless", "Decode")].

Fixpoint set_guarded (prev : option ev) (evs : list ev) : bool :=
  match evs with
  | [] => true
  | e :: r =>
      let '(k, n, d) := e in
      if String.eqb k "B" then set_guarded prev r
      else if String.eqb k "I" && negb (String.eqb n "iface.GetParameter") then
        (String.eqb n "iface.SetParameter" &&
         match prev with
         | Some (k', n', d') => String.eqb k' "I" && String.eqb n' "iface.GetParameter" && Nat.eqb (S d') d
         | None => false
         end) && set_guarded (Some e) r
      else set_guarded (Some e) r
  end.

Definition codec_iface_calls_bad : list (string * string * string) :=
  flat_map (fun x => match x with (p, t, c, m, evs) =>
     if String.eqb c "codec"
     then map (fun n => (p, m, n))
              (filter (fun n => negb (String.eqb n "iface.GetParameter")
                                && negb (mem2 (p, m) iface_set_allow && set_guarded None evs))
                      (ev_names "I" evs))
     else [] end) method_events.
(* (4) GetParameter of every parameter type writes nothing *)
Definition getparameter_writes : list (string * string) :=
  flat_map (fun x => match x with (p, t, c, m, evs) =>
     if String.eqb c "params" && String.eqb m "GetParameter" && has_kind write_kinds evs then [(p, t)] else [] end)
     method_events.
(* (5) every write in Validate sits under a condition (depth >= 1) *)
Definition unguarded (evs : list ev) : list string :=
  map (fun e => snd (fst e))
      (filter (fun e => mem (fst (fst e)) ["W"; "U"; "A"] && Nat.eqb (snd e) 0) evs).
Definition validate_unguarded_writes : list (string * string * string) :=
  flat_map (fun x => match x with (p, t, c, m, evs) =>
     if String.eqb c "params" && String.eqb m "Validate" then map (fun f => (p, t, f)) (unguarded evs) else [] end)
     method_events.

Definition params_ok : bool :=
  is_nil codec_shared_stores && is_nil param_store_violations && is_nil codec_shared_calls_bad
  && is_nil codec_iface_calls_bad && is_nil getparameter_writes && is_nil validate_unguarded_writes.

(* ==================================================================================== *)
(* The C18 obligation in full, and what holds of it on the unchanged repository          *)
(* ==================================================================================== *)
Definition facts_ok_full : bool :=
  pkg_level_ok && imports_ok && nondet_ok && codec_receiver_ok && params_ok.
Definition facts_ok_statement : Prop := facts_ok_full = true.

Lemma pkg_level_ok_true : pkg_level_ok = true.
Proof. vm_compute. reflexivity. Qed.
Lemma imports_ok_true : imports_ok = true.
Proof. vm_compute. reflexivity. Qed.
Lemma nondet_ok_true : nondet_ok = true.
Proof. vm_compute. reflexivity. Qed.
Lemma codec_receiver_ok_true : codec_receiver_ok = true.
Proof. vm_compute. reflexivity. Qed.
Lemma params_ok_true : params_ok = true.
Proof. vm_compute. reflexivity. Qed.

(* The C18 static obligation, in full, for /repo as it is now. *)
Theorem facts_ok : facts_ok_statement.
Proof. unfold facts_ok_statement. vm_compute. reflexivity. Qed.

(* the part the property text itself names: "no function other than init writes a
   package-level variable, and no Codec method writes a receiver field" *)
Theorem facts_static_obligation : pkg_level_ok = true /\ codec_receiver_ok = true.
Proof. split; [apply pkg_level_ok_true|apply codec_receiver_ok_true]. Qed.

(* the parameter-object part, item by item *)
Theorem facts_params_obligation :
  codec_shared_stores = [] /\ param_store_violations = [] /\ codec_shared_calls_bad = [] /\
  codec_iface_calls_bad = [] /\ getparameter_writes = [] /\ validate_unguarded_writes = [].
Proof. repeat split; vm_compute; reflexivity. Qed.

(* the guarded write-back really is what the allow-list entry describes *)
Definition nearlossless_decode_events : list (list ev) :=
  flat_map (fun x => match x with (p, t, c, m, evs) =>
     if String.eqb p "jpegls/nearlossless" && String.eqb c "codec" && String.eqb m "Decode" then [evs] else [] end)
     method_events.
Lemma nearlossless_writeback_guarded :
  length nearlossless_decode_events = 1%nat /\
  forallb (fun evs => mem "iface.SetParameter" (ev_names "I" evs) && set_guarded None evs)
          nearlossless_decode_events = true.
Proof. split; vm_compute; reflexivity. Qed.

(* HISTORICAL WITNESSES (both found by this check and by the race detector, both repaired):
   F23  Validate of htj2k . Parameters assigned BlockWidth and BlockHeight unconditionally
        (`p.BlockWidth = nearestPowerOf2(p.BlockWidth)`): validate_unguarded_writes was
        [(jpeg2000/htj2k, Parameters_go, BlockWidth); (.., BlockHeight)]; race report
        jpeg2000/htj2k/parameters.go:128/:137 against :122/:131 with one shared default object.
   F24  Decode of jpegls/nearlossless called parameters.SetParameter("near", near) for every
        frame on the caller's object: codec_iface_calls_bad was
        [(jpegls/nearlossless, Decode, iface.SetParameter)]; race report
        jpegls/nearlossless/parameters.go:51 (write/write) and :62 (Validate read). *)

(* sanity: the scan covered the whole library *)
Lemma facts_scope :
  (20 <= length facts_packages)%nat /\ length codec_types = 10%nat /\ (100 <= facts_num_files)%nat.
Proof. vm_compute. repeat split; lia. Qed.

(* ==================================================================================== *)
(* D. facts_cover: jpeg2000.Decoder and jpeg2000.Encoder against the hand summaries (C10)  *)
(* ==================================================================================== *)
Definition table (p ty : string) : mtable :=
  flat_map (fun x => match x with (pk, t, _, m, evs) =>
     if String.eqb pk p && String.eqb t ty then [(m, evs)] else [] end) method_events.

Definition closure_of (p ty m : string)
  : list string * list string * list string * list string :=
  match filter (fun x => match x with (pk, t, mm, _, _, _, _) =>
           String.eqb pk p && String.eqb t ty && String.eqb mm m end) method_closure with
  | (_, _, _, w, r, a, c) :: _ => (w, r, a, c)
  | [] => (["<no-such-method>"], ["<no-such-method>"], [], [])
  end.
Definition cl_written (x : list string * list string * list string * list string) := fst (fst (fst x)).
Definition cl_read (x : list string * list string * list string * list string) := snd (fst (fst x)).
Definition cl_appended (x : list string * list string * list string * list string) := snd (fst x).
Definition cl_reached (x : list string * list string * list string * list string) := snd x.

Definition events_of (t : mtable) (m : string) : list ev :=
  match mlookup m t with Some e => e | None => [("R", "<no-such-method>", O)] end.

Definition steps_mentioned (ss : list dstep) : list field :=
  flat_map (fun s => step_target s :: step_reads s) ss.

(* one phase = a method called directly by the entry point (or the entry point's own
   statements): everything the facts say it writes / appends / reads (transitively) occurs
   in the steps of the summary that carry its name.  wmap / rmap translate Go field names into
   the abstract fields of the summary (identity except for the Decoder's ROI pair). *)
Definition idmap (f : field) : list field := [f].

Definition cover_phase (p ty : string) (cfg ignore_w : list field) (wmap rmap : field -> list field)
    (out_phase : string) (c : call) (m : string) : bool :=
  let cl := closure_of p ty m in
  let ss := steps_of_src m (c_steps c) in
  (* the phase that produces the returned value also reads what the summary's output reads *)
  let cfg := if String.eqb m out_phase then cfg ++ c_out_reads c else cfg in
  subset (flat_map wmap (filter (fun f => negb (mem f ignore_w)) (cl_written cl))) (summary_written ss)
  && subset (flat_map wmap (cl_appended cl)) (summary_appended ss)
  && (if is_nil ss then subset (flat_map rmap (cl_read cl)) (summary_mentioned c ++ cfg)
      else subset (flat_map rmap (cl_read cl)) (steps_mentioned ss ++ cfg)).

(* the entry point's own (direct) events *)
Definition cover_direct (t : mtable) (cfg : list field) (wmap rmap : field -> list field) (c : call) (m : string) : bool :=
  let evs := events_of t m in
  let ss := steps_of_src m (c_steps c) in
  subset (flat_map wmap (ev_names "W" evs ++ ev_names "U" evs ++ ev_names "A" evs)) (summary_written ss)
  && subset (flat_map wmap (ev_names "A" evs)) (summary_appended ss)
  && subset (flat_map rmap (ev_names "R" evs ++ ev_names "G" evs)) (summary_mentioned c ++ cfg).

Definition facts_cover_call (p ty : string) (cfg ignore_w : list field) (wmap rmap : field -> list field)
    (c : call) (entry out_phase : string) : bool :=
  let t := table p ty in
  let phases := ev_names "C" (events_of t entry) in
  cover_direct t cfg wmap rmap c entry
  && forallb (cover_phase p ty cfg ignore_w wmap rmap out_phase c) phases
  (* every step of the summary is attributed to the entry point or one of its phases *)
  && forallb (fun s => mem (step_src s) (entry :: phases)) (c_steps c)
  (* every field the facts say is read-before-write or appended appears in the summary *)
  && subset (flat_map rmap (rbw_of t entry)) (summary_mentioned c ++ cfg)
  && subset (flat_map wmap (cl_appended (closure_of p ty entry))) (summary_appended (c_steps c))
  && subset (flat_map wmap (filter (fun f => negb (mem f ignore_w)) (cl_written (closure_of p ty entry))))
            (summary_written (c_steps c)).

(* ---------------- Decoder ---------------- *)
Definition dec_tab : mtable := table "jpeg2000" "Decoder".

(* roiConfig and roiFromStream are assigned together wherever a phase of Decode assigns either:
   every W roiConfig is directly followed by W roiFromStream at the same depth (this is what
   lets the summary treat the pair as user part + stream part) *)
Fixpoint roi_pair_ok (evs : list ev) : bool :=
  match evs with
  | [] => true
  | (k, n, d) :: r =>
      (if String.eqb k "W" && String.eqb n "roiConfig"
       then match r with
            | (k', n', d') :: _ => String.eqb k' "W" && String.eqb n' "roiFromStream" && Nat.eqb d d'
            | [] => false
            end
       else true)
      && roi_pair_ok r
  end.
Definition roi_pair_writers : list string :=
  flat_map (fun me => if mem "roiConfig" (ev_names "W" (snd me)) || mem "roiFromStream" (ev_names "W" (snd me))
                      then [fst me] else []) dec_tab.

Definition decoder_facts_cover : bool :=
  facts_cover_call "jpeg2000" "Decoder" decoder_cfg [] decoder_wmap decoder_rmap decoder_decode "Decode" ""
  (* GetPixelData writes nothing and reads what the summary's output reads *)
  && is_nil (cl_written (closure_of "jpeg2000" "Decoder" "GetPixelData"))
  && subset (cl_read (closure_of "jpeg2000" "Decoder" "GetPixelData")) (c_out_reads decoder_decode)
  (* every other method that writes a field is one of the listed setters, writing exactly that *)
  && forallb (fun me =>
        let m := fst me in
        let w := flat_map decoder_setter_map (cl_written (closure_of "jpeg2000" "Decoder" m)) in
        is_nil w || String.eqb m "Decode"
        || mem m (cl_reached (closure_of "jpeg2000" "Decoder" "Decode"))
        || existsb (fun sc => String.eqb (c_name sc) m && subset w (summary_written (c_steps sc))
                              && subset (summary_written (c_steps sc)) w) decoder_setters)
      dec_tab
  (* the ROI pair *)
  && list_eqb roi_pair_writers ["Decode"; "SetROIConfig"; "extractROIFromCOM"]
  && forallb (fun me => roi_pair_ok (snd me)) dec_tab.

Theorem decoder_facts_cover_true : decoder_facts_cover = true.
Proof. vm_compute. reflexivity. Qed.

(* What the analysis of the regenerated events still finds read before it is written in
   Decode: the configuration (roi, blockDecoderFactory, the user's roiConfig with its flag
   roiFromStream) and roiShifts/roiSrgn, which it cannot see are always rewritten
   (captureROIShifts starts with a nil guard that is never taken after a successful parse).
   mctInverse, mctOffsets, bindings, roiMasks are gone from this list since the repair. *)
Definition uniq (l : list string) : list string := fold_left (fun acc x => add_new x acc) l [].
Lemma decoder_rbw_now :
  rbw_of dec_tab "Decode" = ["roiFromStream"; "roiConfig"; "roi"; "roiShifts"; "roiSrgn"; "blockDecoderFactory"]
  /\ uniq (summary_rbw [] (c_steps decoder_decode)) = ["roiConfig"; "roi"; "blockDecoderFactory"]
  /\ subset (summary_rbw [] (c_steps decoder_decode)) decoder_cfg = true
  /\ cl_appended (closure_of "jpeg2000" "Decoder" "Decode") = ["bindings"].
Proof. repeat split; vm_compute; reflexivity. Qed.

(* The computed verdict: jpeg2000.Decoder.Decode is self-initialising ... *)
Theorem decoder_self_initialising :
  self_initialising decoder_cfg decoder_decode = true
  /\ compatible decoder_cfg decoder_decode decoder_decode = true
  /\ memo_list (c_steps decoder_decode) = [].
Proof. repeat split; vm_compute; reflexivity. Qed.

(* ... hence, for EVERY interpretation of the opaque stages and EVERY history of Decode calls on
   one Decoder, a Decode returns what it returns on a Decoder configured alike and never used. *)
Theorem decoder_history_independent :
  forall (D A : Type) app app0 appendD (r0 : rec D) (h : list (call * A)) (a : A),
    Forall (fun ca => In (fst ca) [decoder_decode]) h ->
    snd (exec_call D A app app0 appendD a (run_history D A app app0 appendD h r0) decoder_decode)
    = snd (exec_call D A app app0 appendD a r0 decoder_decode).
Proof.
  intros D A app app0 appendD r0 h a Hh.
  apply (history_independent D A app app0 appendD decoder_cfg decoder_decode [decoder_decode] r0).
  - apply (proj1 decoder_self_initialising).
  - cbn [forallb]. rewrite (proj1 (proj2 decoder_self_initialising)). reflexivity.
  - intros f Hf. vm_compute in Hf. contradiction.
  - assumption.
Qed.

(* also across setter calls: the result is determined by the argument and the current
   configuration (roi, roiConfig, blockDecoderFactory, resilient, strict) *)
Theorem decoder_config_determines_output :
  forall (D A : Type) app app0 appendD (r r' : rec D) (a : A),
    agree D decoder_cfg r r' ->
    snd (exec_call D A app app0 appendD a r decoder_decode)
    = snd (exec_call D A app app0 appendD a r' decoder_decode).
Proof.
  intros D A app app0 appendD r r' a Hag.
  apply (config_determines_output D A app app0 appendD decoder_cfg decoder_decode);
    [apply (proj1 decoder_self_initialising)|apply (proj2 (proj2 decoder_self_initialising))|exact Hag].
Qed.

(* HISTORICAL WITNESS F21 (repaired).  Before the repair Decode cleared nothing: bindings was
   appended to, mctInverse / mctOffsets / roiMasks and a roiConfig parsed from a COM segment
   survived.  Go history: Encode a 16x16 RGB image with MCTMatrix/InverseMCTMatrix (stream with
   MCT, MCC, MCO markers), Decode it, then Decode a plain RCT stream on the same Decoder: 540 of
   768 bytes differed from a fresh Decoder's output (a grey second stream panicked; the same MCT
   stream twice applied the matrix twice).  The model of that Decoder, kept in CtrDataflow.v, is
   rejected by the criterion and really depends on its history: *)
Definition val0 (v : option nat) : nat := match v with Some n => n | None => O end.
Definition dec_app (g : string) (a : bool * bool) (vs : list (option nat)) : nat :=
  if String.eqb g "mcc.bindings" then (if fst a then 1 else 0)%nat
  else if String.eqb g "mct.inverse_or_keep" then
         (if snd a then 5 else val0 (nth 2 vs None))%nat          (* keep the old matrix *)
  else if String.eqb g "inverse_mct" then
         (val0 (nth 0 vs None) + 10 * val0 (nth 1 vs None) + 100 * val0 (nth 2 vs None))%nat
  else if String.eqb g "inverse_dc_shift" then val0 (nth 0 vs None)
  else if String.eqb g "GetPixelData" then val0 (nth 0 vs None)
  else O.
Definition dec_app0 (g : string) (vs : list (option nat)) : nat := O.
Definition dec_append (old : option nat) (new : nat) : nat := (val0 old + new)%nat.
Definition dec_out (c : call) (h : list (call * (bool * bool))) (a : bool * bool) : nat :=
  snd (exec_call nat (bool * bool) dec_app dec_app0 dec_append a
         (run_history nat (bool * bool) dec_app dec_app0 dec_append h (fresh nat)) c).

Lemma unrepaired_decoder_history_dependent :
  self_initialising decoder_cfg_unrepaired decoder_decode_unrepaired = false
  /\ dec_out decoder_decode_unrepaired [(decoder_decode_unrepaired, (true, false))] (false, false)
       <> dec_out decoder_decode_unrepaired [] (false, false)
  /\ dec_out decoder_decode_unrepaired [(decoder_decode_unrepaired, (false, true))] (false, false)
       <> dec_out decoder_decode_unrepaired [] (false, false)
  (* the same interpretation and histories on the repaired summary: no difference *)
  /\ dec_out decoder_decode [(decoder_decode, (true, false))] (false, false) = dec_out decoder_decode [] (false, false)
  /\ dec_out decoder_decode [(decoder_decode, (false, true))] (false, false) = dec_out decoder_decode [] (false, false).
Proof. split; [vm_compute; reflexivity|]. repeat split; vm_compute; try discriminate; reflexivity. Qed.

(* ---------------- Encoder ---------------- *)
Definition enc_tab : mtable := table "jpeg2000" "Encoder".

(* e.params.NumLayers = 1 in applyRateDistortionGlobal: the only store through the params
   pointer.  It is under `if e.params.NumLayers <= 0`, which cannot hold there: Encode starts
   with validateParams, which rejects NumLayers < 1.  (The suite checks dynamically that the
   EncodeParams object is unchanged by Encode.) *)
Definition encoder_params_writers : list (string * list nat) :=
  flat_map (fun me => let ds := map (fun e => snd e)
                                    (filter (fun e => mem (fst (fst e)) ["W"; "U"; "A"] && String.eqb (snd (fst e)) "params") (snd me)) in
                      if is_nil ds then [] else [(fst me, ds)]) enc_tab.

(* The quantisation group: the four value fields are written by quantizationInfo only and read
   by quantizationInfo only, there only inside the region that follows the read of qcdReady;
   qcdReady itself is written by Encode / EncodeComponents (cleared) and quantizationInfo (set). *)
Definition qcd_values : list field := ["qcdStyle"; "qcdGuard"; "qcdExpn"; "qcdSteps"].
Definition methods_with (kinds : list string) (fields : list field) : list string :=
  flat_map (fun me => if existsb (fun e => mem (fst (fst e)) kinds && mem (snd (fst e)) fields) (snd me)
                      then [fst me] else []) enc_tab.
Fixpoint qcd_reads_guarded (seen_flag : bool) (evs : list ev) : bool :=
  match evs with
  | [] => true
  | (k, n, d) :: r =>
      if String.eqb k "R" && String.eqb n "qcdReady" && Nat.eqb d 0 then qcd_reads_guarded true r
      else if String.eqb k "R" && mem n qcd_values then seen_flag && Nat.leb 1 d && qcd_reads_guarded seen_flag r
      else qcd_reads_guarded seen_flag r
  end.

Definition encoder_facts_cover : bool :=
  facts_cover_call "jpeg2000" "Encoder" encoder_cfg ["params"] idmap idmap encoder_encode "Encode" "buildCodestream"
  (* the analysis of the regenerated events: nothing but the configuration and the four guarded
     value fields is read before it is written, in Encode and in EncodeComponents *)
  && subset (rbw_of enc_tab "Encode") (encoder_cfg ++ qcd_values)
  && subset (rbw_of enc_tab "EncodeComponents") (encoder_cfg ++ qcd_values)
  && subset (cl_read (closure_of "jpeg2000" "Encoder" "quantizationInfo")) (encoder_cfg ++ qcd_group)
  && subset (cl_written (closure_of "jpeg2000" "Encoder" "quantizationInfo")) qcd_group
  && list_eqb (methods_with ["W"; "U"; "A"] qcd_values) ["quantizationInfo"]
  && list_eqb (methods_with ["R"; "G"; "U"; "A"] qcd_values) ["quantizationInfo"]
  && qcd_reads_guarded false (events_of enc_tab "quantizationInfo")
  && list_eqb (methods_with ["W"; "U"; "A"] ["qcdReady"]) ["Encode"; "EncodeComponents"; "quantizationInfo"]
  (* the flag is cleared unconditionally (depth 0) in both entry points *)
  && forallb (fun m => existsb (fun e => String.eqb (fst (fst e)) "W" && String.eqb (snd (fst e)) "qcdReady" && Nat.eqb (snd e) 0)
                               (events_of enc_tab m)) ["Encode"; "EncodeComponents"]
  && subset (map fst encoder_params_writers) ["applyRateDistortionGlobal"]
  && forallb (fun w => forallb (fun d => Nat.leb 1 d) (snd w)) encoder_params_writers.

Theorem encoder_facts_cover_true : encoder_facts_cover = true.
Proof. vm_compute. reflexivity. Qed.

Lemma encoder_rbw_now :
  rbw_of enc_tab "Encode" = ["params"; "qcdStyle"; "qcdGuard"; "qcdExpn"; "qcdSteps"].
Proof. vm_compute. reflexivity. Qed.

Theorem encoder_self_initialising :
  self_initialising encoder_cfg encoder_encode = true
  /\ compatible encoder_cfg encoder_encode encoder_encode = true
  /\ memo_list (c_steps encoder_encode) = [].
Proof. repeat split; vm_compute; reflexivity. Qed.

(* C10 for one jpeg2000.Encoder object reused over frames and calls: for every interpretation
   of the opaque stages, every history of Encode calls, the output is that of a new encoder. *)
Theorem encoder_history_independent :
  forall (D A : Type) app app0 appendD (r0 : rec D) (h : list (call * A)) (a : A),
    Forall (fun ca => In (fst ca) [encoder_encode]) h ->
    snd (exec_call D A app app0 appendD a (run_history D A app app0 appendD h r0) encoder_encode)
    = snd (exec_call D A app app0 appendD a r0 encoder_encode).
Proof.
  intros D A app app0 appendD r0 h a Hh.
  apply (history_independent D A app app0 appendD encoder_cfg encoder_encode [encoder_encode] r0).
  - apply (proj1 encoder_self_initialising).
  - cbn [forallb]. rewrite (proj1 (proj2 encoder_self_initialising)). reflexivity.
  - intros f Hf. vm_compute in Hf. contradiction.
  - assumption.
Qed.

(* Since the repair of F25 also when the caller changes the EncodeParams between calls: after
   ANY history (Encode calls, parameter changes, in any order) Encode returns what a new
   encoder holding the current parameters returns. *)
Theorem encoder_params_determine_output :
  forall (D A : Type) app app0 appendD (r0 : rec D) (h : list (call * A)) (a : A),
    Forall (fun ca => In (fst ca) [encoder_encode; encoder_set_params]) h ->
    let r := run_history D A app app0 appendD h r0 in
    snd (exec_call D A app app0 appendD a r encoder_encode)
    = snd (exec_call D A app app0 appendD a (rupd D (fresh D) "params" (r "params")) encoder_encode).
Proof.
  intros D A app app0 appendD r0 h a Hh r.
  apply (config_determines_output D A app app0 appendD encoder_cfg encoder_encode);
    [apply (proj1 encoder_self_initialising)|apply (proj2 (proj2 encoder_self_initialising))|].
  intros f [<-|[]]. unfold rupd. rewrite String.eqb_refl. reflexivity.
Qed.

(* HISTORICAL WITNESS F25 (repaired).  Before the repair quantizationInfo() computed the tables
   once per object and nothing cleared qcdReady: changing BitDepth, NumLevels or Lossless through
   the retained *EncodeParams between two Encode calls gave a codestream different from a new
   encoder's (186 vs 189, 255 vs 252, 369 vs 385 bytes in the suite's three cases).  In the
   model this is the SMemo step; a parameter change is not `compatible` with it and the cache
   computed for the old parameters survives: *)
Definition enc_app (g : string) (a : nat) (vs : list (option nat)) : nat :=
  if String.eqb g "new_params" then a
  else if String.eqb g "codestream" then (100 * val0 (nth 0 vs None) + val0 (nth 3 vs None))%nat
  else O.
Definition enc_app0 (g : string) (vs : list (option nat)) : nat :=
  if String.eqb g "quant.steps" then val0 (nth 0 vs None) else O.
Definition enc_out_unrepaired (params0 : nat) (h : list (call * nat)) (a : nat) : nat :=
  snd (exec_call nat nat enc_app enc_app0 dec_append a
         (run_history nat nat enc_app enc_app0 dec_append h
            (rupd nat (fresh nat) "params" (Some params0))) encoder_encode_unrepaired).

Lemma unrepaired_encoder_stale_cache :
  self_initialising encoder_cfg encoder_encode_unrepaired = true
  /\ compatible encoder_cfg encoder_encode_unrepaired encoder_set_params = false
  /\ enc_out_unrepaired 1 [(encoder_encode_unrepaired, 7); (encoder_set_params, 2)] 7
       <> enc_out_unrepaired 2 [] 7.
Proof. split; [vm_compute; reflexivity|]. split; [vm_compute; reflexivity|]. vm_compute. discriminate. Qed.

(* The two halves of facts_cover in one statement. *)
Theorem facts_cover : decoder_facts_cover = true /\ encoder_facts_cover = true.
Proof. split; [apply decoder_facts_cover_true|apply encoder_facts_cover_true]. Qed.
