(* Field-dataflow language for C10 (history independence of one coder object).

   NOT an EXTRACT file on purpose: field and method names are Coq strings, and
   `Recursive Extraction Library` would emit a module String.ml that shadows OCaml's Stdlib
   String in the shared glue (conv.ml / driver.ml).  The C10 suites need no extracted model.
   Definitions only; proofs are in CtrProofsDataflow.v and CtrProofsFacts.v.

   A method call on an object is summarised as a list of steps over its fields
       f := g(args, fields read)          SAssign
       f := append(f, g(args, fields))    SAppend
       reset f                            SReset   (f := zero value)
       if f unset { f := g(fields) }      SMemo    (lazily computed cache; g sees no argument)
   followed by the value returned: out(args, fields read).  A CONDITIONAL write of f is written
   as an SAssign that also reads f (the old value survives on the other branch).
   Every step carries the name of the Go method it abstracts (for facts_cover). *)
From Coq Require Import String List Bool Arith.
Import ListNotations.
Open Scope string_scope.
Open Scope list_scope.

Definition field := string.

Inductive dstep : Type :=
| SAssign (src : string) (f : field) (g : string) (reads : list field)
| SAppend (src : string) (f : field) (g : string) (reads : list field)
| SReset (src : string) (f : field)
| SMemo (src : string) (f : field) (g : string) (reads : list field).

Record call : Type := mkCall {
  c_name : string;
  c_steps : list dstep;
  c_out : string;               (* name of the function computing the returned value *)
  c_out_reads : list field      (* fields it reads (after the steps) *)
}.

Definition step_target (s : dstep) : field :=
  match s with SAssign _ f _ _ | SAppend _ f _ _ | SReset _ f | SMemo _ f _ _ => f end.
Definition step_src (s : dstep) : string :=
  match s with SAssign m _ _ _ | SAppend m _ _ _ | SReset m _ | SMemo m _ _ _ => m end.
Definition step_reads (s : dstep) : list field :=
  match s with
  | SAssign _ _ _ rs | SMemo _ _ _ rs => rs
  | SAppend _ f _ rs => f :: rs
  | SReset _ _ => []
  end.
Definition is_append (s : dstep) : bool := match s with SAppend _ _ _ _ => true | _ => false end.

Definition mem (x : string) (l : list string) : bool := existsb (String.eqb x) l.
Definition subset (a b : list string) : bool := forallb (fun x => mem x b) a.
Definition inter (a b : list string) : list string := filter (fun x => mem x b) a.

(* ------------------------------------------------------------------------------------ *)
(* Semantics: any value domain D, any argument type A, any interpretation of the opaque
   functions.  A record maps every field name to an optional value (None = zero value of a
   fresh object). *)
Section Semantics.
  Variables (D A : Type).
  Variable app : string -> A -> list (option D) -> D.     (* g(args, field values) *)
  Variable app0 : string -> list (option D) -> D.         (* argument-free g for SMemo *)
  Variable appendD : option D -> D -> D.                  (* append(old, new) *)

  Definition rec : Type := field -> option D.
  Definition fresh : rec := fun _ => None.
  Definition rupd (r : rec) (f : field) (v : option D) : rec :=
    fun x => if String.eqb x f then v else r x.

  Definition exec_step (a : A) (r : rec) (s : dstep) : rec :=
    match s with
    | SAssign _ f g rs => rupd r f (Some (app g a (map r rs)))
    | SAppend _ f g rs => rupd r f (Some (appendD (r f) (app g a (map r rs))))
    | SReset _ f => rupd r f None
    | SMemo _ f g rs => match r f with
                        | Some _ => r
                        | None => rupd r f (Some (app0 g (map r rs)))
                        end
    end.

  Definition exec_steps (a : A) (r : rec) (ss : list dstep) : rec := fold_left (exec_step a) ss r.

  Definition exec_call (a : A) (r : rec) (c : call) : rec * D :=
    let r' := exec_steps a r (c_steps c) in
    (r', app (c_out c) a (map r' (c_out_reads c))).

  (* a history: calls (each with its argument) made on the object one after the other *)
  Definition run_history (h : list (call * A)) (r : rec) : rec :=
    fold_left (fun r ca => fst (exec_call (snd ca) r (fst ca))) h r.
End Semantics.

(* ------------------------------------------------------------------------------------ *)
(* The decidable predicate.  cfg = configuration fields: set at construction / by setters,
   never written by the calls considered.  A call is self-initialising when every field it
   reads is a configuration field or was written earlier IN THE SAME CALL (dominated), there is
   no append-to-self without a preceding write/reset in the same call, and its caches (SMemo)
   depend on configuration fields only. *)
Definition memo := (field * string * list field)%type.
Definition memo_of (s : dstep) : list memo :=
  match s with SMemo _ f g rs => [(f, g, rs)] | _ => [] end.
Definition memo_list (ss : list dstep) : list memo := flat_map memo_of ss.
Definition memo_fields (ss : list dstep) : list field := map (fun m => fst (fst m)) (memo_list ss).

Fixpoint list_eqb (a b : list string) : bool :=
  match a, b with
  | [], [] => true
  | x :: a', y :: b' => String.eqb x y && list_eqb a' b'
  | _, _ => false
  end.
Definition memo_eqb (m1 m2 : memo) : bool :=
  String.eqb (fst (fst m1)) (fst (fst m2)) && String.eqb (snd (fst m1)) (snd (fst m2))
  && list_eqb (snd m1) (snd m2).

(* caches are well formed: they read configuration only, are not configuration themselves,
   and a field is cached by one function only *)
Definition memo_wf (cfg : list field) (ml : list memo) : bool :=
  forallb (fun m => subset (snd m) cfg && negb (mem (fst (fst m)) cfg)
                    && forallb (fun m' => if String.eqb (fst (fst m')) (fst (fst m))
                                          then memo_eqb m' m else true) ml) ml.

(* known = fields definitely written so far in this call *)
Definition si_step (cfg mfs known : list field) (s : dstep) : option (list field) :=
  match s with
  | SAssign _ f _ rs =>
      if subset rs (cfg ++ known) && negb (mem f cfg) && negb (mem f mfs) then Some (f :: known) else None
  | SAppend _ f _ rs =>
      if subset (f :: rs) (cfg ++ known) && negb (mem f cfg) && negb (mem f mfs) then Some known else None
  | SReset _ f =>
      if negb (mem f cfg) && negb (mem f mfs) then Some (f :: known) else None
  | SMemo _ f _ _ => Some (f :: known)
  end.

Fixpoint si_steps (cfg mfs known : list field) (ss : list dstep) : option (list field) :=
  match ss with
  | [] => Some known
  | s :: r => match si_step cfg mfs known s with
              | Some k => si_steps cfg mfs k r
              | None => None
              end
  end.

Definition self_initialising (cfg : list field) (c : call) : bool :=
  memo_wf cfg (memo_list (c_steps c)) &&
  match si_steps cfg (memo_fields (c_steps c)) [] (c_steps c) with
  | Some known => subset (c_out_reads c) (cfg ++ known)
  | None => false
  end.

(* another method m of the same object may appear in histories of c when it leaves the
   configuration alone and touches c's caches only by the very same cache step *)
Definition compatible (cfg : list field) (c m : call) : bool :=
  forallb (fun s => negb (mem (step_target s) cfg) &&
                    (if mem (step_target s) (memo_fields (c_steps c))
                     then match memo_of s with
                          | [x] => existsb (memo_eqb x) (memo_list (c_steps c))
                          | _ => false
                          end
                     else true)) (c_steps m).

(* what the summary itself says survives from earlier calls: fields read (or appended to)
   before being written in the call *)
Fixpoint summary_rbw (known : list field) (ss : list dstep) : list field :=
  match ss with
  | [] => []
  | s :: r =>
      filter (fun f => negb (mem f known)) (match s with SMemo _ f _ rs => f :: rs | _ => step_reads s end)
      ++ summary_rbw (step_target s :: known) r
  end.

Definition summary_written (ss : list dstep) : list field := map step_target ss.
Definition summary_appended (ss : list dstep) : list field := map step_target (filter is_append ss).
Definition summary_mentioned (c : call) : list field :=
  flat_map (fun s => step_target s :: step_reads s) (c_steps c) ++ c_out_reads c.
Definition steps_of_src (m : string) (ss : list dstep) : list dstep :=
  filter (fun s => String.eqb (step_src s) m) ss.

(* ------------------------------------------------------------------------------------ *)
(* Hand-written summary of jpeg2000.Decoder: Decode followed by GetPixelData (what every
   codec does with it), read from /repo/jpeg2000/decoder.go AFTER the repair of finding F21
   (Decode now clears mctInverse, mctOffsets, bindings, roiMasks and a stream-derived ROI
   configuration right after parsing).  The src tag is the method called directly from Decode
   in which the write happens (callees folded in).

   Representation: the Go pair (roiConfig, roiFromStream) is modelled as two abstract fields,
       roiConfig  = what the user stored with SetROIConfig   (Go: roiConfig when !roiFromStream)
       streamROI  = what extractROIFromCOM parsed             (Go: roiConfig when  roiFromStream)
   `if d.roiFromStream { d.roiConfig, d.roiFromStream = nil, false }` is `reset streamROI`;
   extractROIFromCOM leaves a non-empty user configuration alone and otherwise sets the stream
   part; resolveROI uses whichever is present.  (An empty user configuration counts as none,
   as every use in decoder.go is guarded by IsEmpty.)  CtrProofsFacts.v checks on the
   regenerated events that roiConfig and roiFromStream are always assigned together inside
   Decode's phases, which is what makes the pair representable this way. *)
Definition decoder_cfg : list field := ["blockDecoderFactory"; "roi"; "resilient"; "strict"; "roiConfig"].

Definition decoder_decode : call := mkCall "Decode;GetPixelData"
  [ SAssign "Decode" "cs" "codestream.Parse" [];
    SReset "Decode" "mctInverse"; SReset "Decode" "mctOffsets"; SReset "Decode" "bindings";
    SReset "Decode" "roiMasks"; SReset "Decode" "streamROI";
    SAssign "extractImageParameters" "width" "siz.width" ["cs"];
    SAssign "extractImageParameters" "height" "siz.height" ["cs"];
    SAssign "extractImageParameters" "components" "siz.csiz" ["cs"];
    SAssign "extractImageParameters" "bitDepth" "siz.depth" ["cs"; "components"];
    SAssign "extractImageParameters" "isSigned" "siz.signed" ["cs"; "components"];
    SAssign "captureROIShifts" "roiShifts" "rgn.shifts" ["cs"; "components"];
    SAssign "captureROIShifts" "roiSrgn" "rgn.styles" ["cs"; "components"];
    (* set when a JP2ROI COM segment is present and the user gave no configuration *)
    SAssign "extractROIFromCOM" "streamROI" "com.roi_or_keep" ["cs"; "roiConfig"; "streamROI"];
    (* set from MCT segments without MCC, or a JP2MCT COM; otherwise the (reset) value stays *)
    SAssign "extractMCTFromMarkers" "mctInverse" "mct.inverse_or_keep" ["cs"; "components"; "mctInverse"; "mctOffsets"];
    SAssign "extractMCTFromMarkers" "mctOffsets" "mct.offsets_or_keep" ["cs"; "components"; "mctOffsets"];
    (* d.bindings = append(d.bindings, b) for every MCC stage whose component ids are all
       < d.components (range check added by cf93e3d), onto the list reset above *)
    SAppend "extractBindings" "bindings" "mcc.bindings" ["cs"; "components"];
    SReset "resolveROI" "RoiRects";
    SAssign "resolveROI" "roiShifts" "roi.shifts_or_keep" ["roiConfig"; "streamROI"; "roi"; "width"; "height"; "components"; "roiShifts"];
    SAssign "resolveROI" "RoiRects" "roi.rects_or_keep" ["roiConfig"; "streamROI"; "roi"; "width"; "height"; "components"; "RoiRects"];
    SAssign "resolveROI" "roiMasks" "roi.masks_or_keep" ["roiConfig"; "streamROI"; "roi"; "width"; "height"; "components"; "roiMasks"];
    SAssign "resolveROI" "roiSrgn" "roi.styles_or_keep" ["roiConfig"; "streamROI"; "roi"; "components"; "roiSrgn"];
    SAssign "decodeTiles" "data" "tiles.decode"
      ["cs"; "components"; "roiShifts"; "roiSrgn"; "RoiRects"; "roiMasks"; "blockDecoderFactory"];
    SAssign "decodeTiles" "data" "inverse_mct"
      ["data"; "bindings"; "mctInverse"; "mctOffsets"; "cs"; "components"; "width"; "height"];
    SAssign "decodeTiles" "data" "inverse_dc_shift" ["data"; "components"; "bitDepth"; "isSigned"]
  ]
  "GetPixelData" ["data"; "width"; "height"; "components"; "bitDepth"; "isSigned"].

(* the setters, as calls that may be interleaved in a history (they change the configuration) *)
Definition decoder_setters : list call :=
  [ mkCall "SetROI" [SAssign "SetROI" "roi" "arg" []] "void" [];
    mkCall "SetROIConfig" [SAssign "SetROIConfig" "roiConfig" "arg" [];
                           SReset "SetROIConfig" "streamROI"] "void" [];
    mkCall "SetBlockDecoderFactory" [SAssign "SetBlockDecoderFactory" "blockDecoderFactory" "arg" []] "void" [];
    mkCall "SetResilient" [SAssign "SetResilient" "resilient" "arg" []] "void" [];
    mkCall "SetStrict" [SAssign "SetStrict" "strict" "arg" [];
                        SAssign "SetStrict" "resilient" "arg_or_keep" ["resilient"]] "void" [] ].

(* Go field name -> abstract field names, for comparing the regenerated facts with the summary *)
Definition decoder_wmap (f : field) : list field :=
  if String.eqb f "roiConfig" then ["streamROI"]            (* inside Decode only the stream part is assigned *)
  else if String.eqb f "roiFromStream" then ["streamROI"] else [f].
Definition decoder_rmap (f : field) : list field :=
  if String.eqb f "roiConfig" then ["roiConfig"; "streamROI"]
  else if String.eqb f "roiFromStream" then ["streamROI"] else [f].
Definition decoder_setter_map (f : field) : list field :=
  if String.eqb f "roiFromStream" then ["streamROI"] else [f].

(* HISTORICAL (finding F21, repaired in /repo by "fix: jpeg2000.Decoder carries MCT bindings ..."):
   the Decoder as it was — nothing cleared at the top of Decode, the ROI parsed from one stream
   kept for the next.  Kept as a model-only example of a summary the criterion rejects. *)
Definition decoder_cfg_unrepaired : list field := ["blockDecoderFactory"; "roi"; "resilient"; "strict"].
Definition decoder_decode_unrepaired : call := mkCall "Decode;GetPixelData (before the repair)"
  [ SAssign "Decode" "cs" "codestream.Parse" [];
    SAssign "extractImageParameters" "width" "siz.width" ["cs"];
    SAssign "extractImageParameters" "height" "siz.height" ["cs"];
    SAssign "extractImageParameters" "components" "siz.csiz" ["cs"];
    SAssign "extractImageParameters" "bitDepth" "siz.depth" ["cs"; "components"];
    SAssign "extractImageParameters" "isSigned" "siz.signed" ["cs"; "components"];
    SAssign "captureROIShifts" "roiShifts" "rgn.shifts" ["cs"; "components"];
    SAssign "captureROIShifts" "roiSrgn" "rgn.styles" ["cs"; "components"];
    SAssign "extractROIFromCOM" "roiConfig" "com.roi_or_keep" ["cs"; "roiConfig"];
    SAssign "extractMCTFromMarkers" "mctInverse" "mct.inverse_or_keep" ["cs"; "components"; "mctInverse"; "mctOffsets"];
    SAssign "extractMCTFromMarkers" "mctOffsets" "mct.offsets_or_keep" ["cs"; "components"; "mctOffsets"];
    SAppend "extractBindings" "bindings" "mcc.bindings" ["cs"];
    SReset "resolveROI" "RoiRects";
    SAssign "resolveROI" "roiShifts" "roi.shifts_or_keep" ["roiConfig"; "roi"; "width"; "height"; "components"; "roiShifts"];
    SAssign "resolveROI" "RoiRects" "roi.rects_or_keep" ["roiConfig"; "roi"; "width"; "height"; "components"; "RoiRects"];
    SAssign "resolveROI" "roiMasks" "roi.masks_or_keep" ["roiConfig"; "roi"; "width"; "height"; "components"; "roiMasks"];
    SAssign "resolveROI" "roiSrgn" "roi.styles_or_keep" ["roiConfig"; "roi"; "components"; "roiSrgn"];
    SAssign "decodeTiles" "data" "tiles.decode"
      ["cs"; "components"; "roiShifts"; "roiSrgn"; "RoiRects"; "roiMasks"; "blockDecoderFactory"];
    SAssign "decodeTiles" "data" "inverse_mct"
      ["data"; "bindings"; "mctInverse"; "mctOffsets"; "cs"; "components"; "width"; "height"];
    SAssign "decodeTiles" "data" "inverse_dc_shift" ["data"; "components"; "bitDepth"; "isSigned"]
  ]
  "GetPixelData" ["data"; "width"; "height"; "components"; "bitDepth"; "isSigned"].

(* ------------------------------------------------------------------------------------ *)
(* Hand-written summary of jpeg2000.Encoder.Encode, read from /repo/jpeg2000/encoder.go AFTER
   the repair of finding F25 (Encode and EncodeComponents set qcdReady = false, so the
   quantisation tables are recomputed from the current parameters on every call).
   params (a pointer to EncodeParams) is the configuration: set by NewEncoder, read everywhere.

   quantizationInfo() is `if e.qcdReady { return the four stored values }` else compute them
   from params, store them, set qcdReady.  The four value fields are read nowhere else and only
   under that flag (checked on the regenerated events in CtrProofsFacts.v), so clearing the
   flag invalidates all five: the reset below names them all. *)
Definition encoder_cfg : list field := ["params"].
Definition qcd_group : list field := ["qcdReady"; "qcdStyle"; "qcdGuard"; "qcdExpn"; "qcdSteps"].

Definition encoder_encode : call := mkCall "Encode"
  [ (* validateParams reads params only *)
    SAssign "convertPixelData" "data" "pixels_to_components" ["params"];
    SAssign "applyDCLevelShift" "data" "dc_shift" ["data"; "params"];
    SReset "Encode" "irreversibleMCTData";
    SReset "Encode" "qcdReady"; SReset "Encode" "qcdStyle"; SReset "Encode" "qcdGuard";
    SReset "Encode" "qcdExpn"; SReset "Encode" "qcdSteps";
    SAssign "applyMCTBindings" "data" "mct_bindings_or_keep" ["data"; "params"];
    SAssign "applyCustomMCT" "data" "custom_mct_or_keep" ["data"; "params"];
    SAssign "Encode" "data" "rct_or_keep" ["data"; "params"];
    SAssign "Encode" "irreversibleMCTData" "ict_or_keep" ["data"; "params"; "irreversibleMCTData"];
    (* buildCodestream *)
    SReset "buildCodestream" "roiShifts"; SReset "buildCodestream" "RoiRects";
    SReset "buildCodestream" "roiStyles"; SReset "buildCodestream" "roiMasks";
    SAssign "buildCodestream" "roiShifts" "roi.shifts_or_keep" ["params"; "roiShifts"];
    SAssign "buildCodestream" "RoiRects" "roi.rects_or_keep" ["params"; "RoiRects"];
    SAssign "buildCodestream" "roiStyles" "roi.styles_or_keep" ["params"; "roiStyles"];
    SAssign "buildCodestream" "roiMasks" "roi.masks_or_keep" ["params"; "roiMasks"];
    (* first quantizationInfo() of the call computes, the later ones of the same call read back *)
    SAssign "buildCodestream" "qcdReady" "quant.ready" ["params"; "qcdReady"];
    SAssign "buildCodestream" "qcdStyle" "quant.style" ["params"; "qcdReady"; "qcdStyle"];
    SAssign "buildCodestream" "qcdGuard" "quant.guard" ["params"; "qcdReady"; "qcdGuard"];
    SAssign "buildCodestream" "qcdExpn" "quant.expn" ["params"; "qcdReady"; "qcdExpn"];
    SAssign "buildCodestream" "qcdSteps" "quant.steps" ["params"; "qcdReady"; "qcdSteps"];
    SAssign "buildCodestream" "openJPEGMainHeaderBytes" "main_header_len"
      ["params"; "roiShifts"; "RoiRects"; "roiStyles"; "roiMasks"; "qcdReady"; "qcdStyle"; "qcdGuard"; "qcdExpn"; "qcdSteps"];
    SAssign "buildCodestream" "openJPEGNumTiles" "num_tiles" ["params"]
  ]
  "codestream"
  ["params"; "data"; "irreversibleMCTData"; "roiShifts"; "RoiRects"; "roiStyles"; "roiMasks";
   "qcdReady"; "qcdStyle"; "qcdGuard"; "qcdExpn"; "qcdSteps"; "openJPEGMainHeaderBytes"; "openJPEGNumTiles"].

(* a caller changing the EncodeParams the encoder holds a pointer to, between two calls *)
Definition encoder_set_params : call :=
  mkCall "*params = ..." [SAssign "caller" "params" "new_params" []] "void" [].

(* HISTORICAL (finding F25): the encoder before the repair, the quantisation tables computed once
   per object (SMemo) and never invalidated.  Model-only example for the SMemo step and for the
   hypothesis "the configuration is not written during the history". *)
Definition encoder_encode_unrepaired : call := mkCall "Encode (before the repair)"
  [ SAssign "convertPixelData" "data" "pixels_to_components" ["params"];
    SAssign "applyDCLevelShift" "data" "dc_shift" ["data"; "params"];
    SReset "Encode" "irreversibleMCTData";
    SAssign "Encode" "data" "mct_or_keep" ["data"; "params"];
    SMemo "buildCodestream" "qcdReady" "quant.ready" ["params"];
    SMemo "buildCodestream" "qcdSteps" "quant.steps" ["params"]
  ]
  "codestream" ["params"; "data"; "qcdReady"; "qcdSteps"].

(* ------------------------------------------------------------------------------------ *)
(* Analysis of the regenerated event lists (Gen/Facts_gen.v: method_events), executable.
   An event is (kind, name, depth); see the legend in Facts_gen.v. *)
Definition ev := (string * string * nat)%type.
Definition mtable := list (string * list ev).

Fixpoint mlookup (m : string) (t : mtable) : option (list ev) :=
  match t with
  | [] => None
  | (n, e) :: r => if String.eqb n m then Some e else mlookup m r
  end.

Definition da_names (da : list (string * nat)) : list string := map fst da.
Definition prune_le (d : nat) (da : list (string * nat)) := filter (fun p => Nat.leb (snd p) d) da.
Definition prune_lt (d : nat) (da : list (string * nat)) := filter (fun p => Nat.ltb (snd p) d) da.

Definition add_new (x : string) (l : list string) : list string := if mem x l then l else l ++ [x].
Definition union (a b : list string) : list string := fold_left (fun acc x => add_new x acc) b a.

(* Read-before-write analysis of one method given summaries of its callees.
   da: fields definitely assigned (whole-field `recv.f = e`) on the path so far, each with the
   nesting depth it was assigned at; an entry dies when its region ends (an event at a smaller
   depth, or a region start B at its depth).  Result: fields read/updated/appended while not
   definitely assigned, and the fields definitely assigned at every non-error return.
   Error returns (E) are left out of the second component: every caller in the analysed
   types propagates the error and abandons the call.
   A callee contributes its own read-before-write set minus what the caller has definitely
   assigned at the call, and its definitely-assigned set. *)
Definition msummary := list (string * (list string * list string)).

Fixpoint slookup (m : string) (t : msummary) : list string * list string :=
  match t with
  | [] => ([("<unknown-method:" ++ m ++ ">")%string], [])
  | (n, e) :: r => if String.eqb n m then e else slookup m r
  end.

Definition analyse1 (sm : msummary) (evs : list ev) : list string * list string :=
  let step (st : list (string * nat) * list string * option (list string)) (e : ev) :=
    let '(da, rbw, exits) := st in
    let '(k, n, d) := e in
    let da := prune_le d da in
    if String.eqb k "B" then (prune_lt d da, rbw, exits)
    else if String.eqb k "W" then ((n, d) :: da, rbw, exits)
    else if String.eqb k "R" || String.eqb k "G" || String.eqb k "U" || String.eqb k "A" then
      (da, (if mem n (da_names da) then rbw else add_new n rbw), exits)
    else if String.eqb k "C" then
      let '(r', o') := slookup n sm in
      (map (fun f => (f, d)) o' ++ da,
       union rbw (filter (fun f => negb (mem f (da_names da))) r'), exits)
    else if String.eqb k "X" then
      (da, rbw, Some (match exits with None => da_names da | Some x => inter x (da_names da) end))
    else (da, rbw, exits) in
  let '(_, rbw, exits) := fold_left step evs ([], [], None) in
  (rbw, match exits with Some x => x | None => [] end).

(* k rounds of simultaneous re-analysis: exact for call depth < k; deeper chains (and
   recursion) leave the marker "<out-of-fuel>" in the result. *)
Fixpoint analyse_all (k : nat) (t : mtable) : msummary :=
  match k with
  | O => map (fun me => (fst me, (["<out-of-fuel>"], []))) t
  | S k' => let sm := analyse_all k' t in map (fun me => (fst me, analyse1 sm (snd me))) t
  end.

Definition rbw_of (t : mtable) (m : string) : list string := fst (slookup m (analyse_all 30 t)).
Definition da_out_of (t : mtable) (m : string) : list string := snd (slookup m (analyse_all 30 t)).

(* direct (non-transitive) events of one kind *)
Definition ev_names (k : string) (evs : list ev) : list string :=
  map (fun e => snd (fst e)) (filter (fun e => String.eqb (fst (fst e)) k) evs).
Definition ev_min_depth (k : string) (evs : list ev) : list nat :=
  map (fun e => snd e) (filter (fun e => String.eqb (fst (fst e)) k) evs).
