(* EXTRACT *)
(* The per-frame loops of Codec.Encode / Codec.Decode in the ten codec packages (C10).

   Every codec.go has the same skeleton:
       frameCount := old.FrameCount();  [if frameCount == 0 { return error }]
       for i := 0; i < frameCount; i++ {
           frame, err := old.GetFrame(i)            -- error => return
           [if len(frame) == 0 { return error }]
           out, err := <per-frame function>(frame)  -- error => return
           new.AddFrame(out)                        -- appends to whatever new already holds
       }
   and comes in two shapes, confirmed by reading all ten files:

   shape A (fresh coder per frame; the per-frame function is a pure function of the frame,
            the FrameInfo and the validated parameters, all loop invariants):
       rle (encodeFrame/decodeFrame with a new rleEncoder/rleDecoder each), jpeg/baseline,
       jpeg/extended, jpeg/lossless, jpeg/lossless14sv1, jpegls/lossless, jpegls/nearlossless
       (package functions Encode/Decode), jpeg2000/lossy Encode (encodeFrameOnce makes a
       jpeg2000.NewEncoder per frame), and EVERY Decode of the three JPEG 2000 packages
       (jpeg2000.NewDecoder() inside the loop).
   shape B (one jpeg2000.Encoder created before the loop and reused for all frames):
       jpeg2000/lossless Encode (encodeLosslessAllFrames: .90, .92) and jpeg2000/htj2k Encode
       (.201, .202, .203).

   The per-frame function is a Section variable: its own correctness is C01-C07; here it is
   arbitrary.  An empty frame, a GetFrame error and a coder error are all `None`.
   rle is the one codec without the frameCount == 0 check (flag empty_is_error). *)
From V Require Import Common.Base.

Section Frames.
  Variables (F O : Type).            (* input frame, output frame *)

  (* ---- shape A ---- *)
  Variable enc1 : F -> option O.

  Definition stepA (st : list O * bool) (f : F) : list O * bool :=
    let '(out, ok) := st in
    if ok then match enc1 f with
               | Some o => (out ++ [o], true)
               | None => (out, false)
               end
    else (out, false).

  (* dst0: frames already present in the destination PixelData (AddFrame appends) *)
  Definition framesA (empty_is_error : bool) (dst0 : list O) (fs : list F) : list O * bool :=
    match fs with
    | [] => (dst0, negb empty_is_error)
    | _ => fold_left stepA fs (dst0, true)
    end.

  (* ---- shape B: coder object with state S threaded through the frames ---- *)
  Variable S : Type.
  Variable encS : S -> F -> option O * S.

  Definition stepB (st : S * list O * bool) (f : F) : S * list O * bool :=
    let '(s, out, ok) := st in
    if ok then let '(r, s') := encS s f in
               match r with
               | Some o => (s', out ++ [o], true)
               | None => (s', out, false)
               end
    else (s, out, false).

  Definition framesB (empty_is_error : bool) (s0 : S) (dst0 : list O) (fs : list F) : list O * bool :=
    match fs with
    | [] => (dst0, negb empty_is_error)
    | _ => let '(_, out, ok) := fold_left stepB fs (s0, dst0, true) in (out, ok)
    end.

  (* final coder state, for histories of several Encode calls on one object *)
  Definition stateB (s0 : S) (fs : list F) : S :=
    fst (fst (fold_left stepB fs (s0, [], true))).
End Frames.

(* A call history on ONE codec instance: the codec structs hold only immutable configuration
   (no method assigns a receiver field: facts_ok), so a history of calls is a map over calls. *)
Definition history_outputs {C R : Type} (call : C -> R) (h : list C) : list R := map call h.

(* Size of a decoded frame: Rows x Columns x SamplesPerPixel x ceil(BitsAllocated/8);
   the RLE decoder allocates that many bytes rounded up to even. *)
Definition bytes_per_sample (bits_allocated : Z) : Z := (bits_allocated + 7) / 8.
Definition decoded_len (rows cols spp bits_allocated : Z) : Z :=
  rows * cols * spp * bytes_per_sample bits_allocated.
Definition rle_decoded_len (rows cols spp bits_allocated : Z) : Z :=
  let n := decoded_len rows cols spp bits_allocated in n + n mod 2.
(* rle.go computes bytesAllocated as (BitsAllocated-1)/8+1 in uint16 arithmetic *)
Definition rle_bytes_allocated (bits_allocated : Z) : Z := wrapU 16 (bits_allocated - 1) / 8 + 1.
