(* C10 — codec contract over histories. Property theorems only (Props format).
   To be included from Props/C10.v by the integrator (same content, `exact` proofs only). *)
From Coq Require Import String List Bool Arith.
Import ListNotations.
From V Require Import Common.Base Contract.CtrFrames Contract.CtrProofsFrames
  Contract.CtrDataflow Contract.CtrProofsDataflow Contract.CtrProofsFacts.

(* n input frames give exactly n output frames, output i = f(frame i), for both loop shapes
   found in the ten codec.go files (fresh coder per frame; one jpeg2000.Encoder reused), any n. *)
Theorem C10_one_to_one_in_order : forall (F O S : Type) (enc1 : F -> option O)
    (encS : S -> F -> option O * S) (Inv : S -> Prop),
  (forall s f, Inv s -> fst (encS s f) = enc1 f /\ Inv (snd (encS s f))) ->
  forall e s0 dst0 fs out, Inv s0 ->
    (framesA F O enc1 e dst0 fs = (out, true) \/ framesB F O S encS e s0 dst0 fs = (out, true)) ->
    exists outs, out = dst0 ++ outs /\ length outs = length fs /\
      forall i f, nth_error fs i = Some f ->
        exists o, nth_error outs i = Some o /\ enc1 f = Some o.
Proof. exact one_to_one_in_order. Qed.
Print Assumptions C10_one_to_one_in_order.

Example C10_one_to_one_nonvacuous :
  let enc1 := fun n : nat => if Nat.eqb n 9 then None else Some (n + 100)%nat in
  let encS := fun (s n : nat) => (enc1 n, S s) in
  (forall s f, True -> fst (encS s f) = enc1 f /\ True) /\
  framesB nat nat nat encS true O [] [1; 2; 3]%nat = ([101; 102; 103]%nat, true) /\
  framesA nat nat enc1 true [] [1; 9; 3]%nat = ([101]%nat, false).
Proof. cbv zeta. repeat split. Qed.

(* on an error the destination holds exactly the outputs of the frames before the failing one *)
Theorem C10_failure_is_a_prefix : forall (F O : Type) (enc1 : F -> option O) e dst0 fs out, fs <> [] ->
  framesA F O enc1 e dst0 fs = (out, false) ->
  exists outs, out = dst0 ++ outs /\ (length outs < length fs)%nat /\
    map Some outs = firstn (length outs) (map enc1 fs) /\
    exists f, nth_error fs (length outs) = Some f /\ enc1 f = None.
Proof. exact failure_is_a_prefix. Qed.
Print Assumptions C10_failure_is_a_prefix.

(* two sequences that agree at position i give the same output at position i (permutations,
   sub-sequences, repeats are instances) *)
Theorem C10_same_frame_same_output : forall (F O : Type) (enc1 : F -> option O) e fs fs' out out' i,
  framesA F O enc1 e [] fs = (out, true) -> framesA F O enc1 e [] fs' = (out', true) ->
  nth_error fs i = nth_error fs' i -> nth_error out i = nth_error out' i.
Proof. exact same_frame_same_output. Qed.
Print Assumptions C10_same_frame_same_output.

(* a call history on one codec object (no method assigns a receiver field: C18_facts) *)
Theorem C10_codec_history_independent : forall (C R : Type) (call : C -> R) (before after : list C) (c : C),
  nth_error (history_outputs call (before ++ c :: after)) (length before) = Some (call c).
Proof. exact codec_history_independent. Qed.
Print Assumptions C10_codec_history_independent.

(* History independence of one coder object, for every summary with
   self_initialising summary = true, every interpretation of the opaque stages, every history. *)
Theorem C10_history_independent : forall (D A : Type) app app0 appendD
    (cfg : list field) (c : call) (ms : list call) (r0 : rec D),
  self_initialising cfg c = true ->
  forallb (compatible cfg c) ms = true ->
  (forall f, In f (memo_fields (c_steps c)) -> r0 f = None) ->
  forall (h : list (call * A)) (a : A),
    Forall (fun ca => In (fst ca) ms) h ->
    snd (exec_call D A app app0 appendD a (run_history D A app app0 appendD h r0) c)
    = snd (exec_call D A app app0 appendD a r0 c).
Proof. exact history_independent. Qed.
Print Assumptions C10_history_independent.

Theorem C10_frame_independent : forall (D A : Type) app app0 appendD
    (cfg : list field) (c : call) (ms : list call) (r0 : rec D),
  self_initialising cfg c = true ->
  forallb (compatible cfg c) ms = true ->
  (forall f, In f (memo_fields (c_steps c)) -> r0 f = None) ->
  exists F : A -> D,
    forall (h : list (call * A)) (a : A),
      Forall (fun ca => In (fst ca) ms) h ->
      snd (exec_call D A app app0 appendD a (run_history D A app app0 appendD h r0) c) = F a.
Proof. exact frame_independent. Qed.
Print Assumptions C10_frame_independent.

(* the hypotheses are met by the summary of jpeg2000.Encoder.Encode *)
Example C10_history_independent_nonvacuous :
  self_initialising encoder_cfg encoder_encode = true /\
  forallb (compatible encoder_cfg encoder_encode) [encoder_encode] = true /\
  (forall f, In f (memo_fields (c_steps encoder_encode)) -> fresh nat f = None) /\
  Forall (fun ca : call * nat => In (fst ca) [encoder_encode]) [(encoder_encode, 3%nat); (encoder_encode, 4%nat)].
Proof.
  split; [vm_compute; reflexivity|]. split; [vm_compute; reflexivity|].
  split; [reflexivity|]. repeat constructor.
Qed.

(* the link between the two models: a self-initialising summary gives the invariant that makes
   the reused-encoder loop equal to the fresh-encoder loop *)
Theorem C10_reused_object : forall (D A : Type) app app0 appendD (cfg : list field) (c : call) (r0 : rec D),
  self_initialising cfg c = true ->
  compatible cfg c c = true ->
  (forall f, In f (memo_fields (c_steps c)) -> r0 f = None) ->
  forall (s : rec D) (a : A),
    hinv D app0 cfg (memo_list (c_steps c)) r0 s ->
    snd (exec_call D A app app0 appendD a s c) = snd (exec_call D A app app0 appendD a r0 c) /\
    hinv D app0 cfg (memo_list (c_steps c)) r0 (fst (exec_call D A app app0 appendD a s c)).
Proof. exact reused_object_inv_step. Qed.
Print Assumptions C10_reused_object.

(* jpeg2000.Encoder: the regenerated facts are covered by the hand summary, the summary is
   self-initialising (computed), hence history independent for every interpretation *)
Theorem C10_facts_cover : decoder_facts_cover = true /\ encoder_facts_cover = true.
Proof. exact facts_cover. Qed.
Print Assumptions C10_facts_cover.

Theorem C10_encoder_history_independent :
  forall (D A : Type) app app0 appendD (r0 : rec D),
    (forall f, In f qcd_fields -> r0 f = None) ->
    forall (h : list (call * A)) (a : A),
      Forall (fun ca => In (fst ca) [encoder_encode]) h ->
      snd (exec_call D A app app0 appendD a (run_history D A app app0 appendD h r0) encoder_encode)
      = snd (exec_call D A app app0 appendD a r0 encoder_encode).
Proof. exact encoder_history_independent. Qed.
Print Assumptions C10_encoder_history_independent.

(* ... as long as the parameters the encoder was created with are left alone (FINDING, low
   severity: the quantisation cache is never invalidated) *)
Theorem C10_encoder_params_change_refuted :
  enc_out 1 [(encoder_encode, 7%nat); (encoder_set_params, 2%nat)] 7 <> enc_out 2 [] 7.
Proof. exact encoder_params_change_refuted. Qed.
Print Assumptions C10_encoder_params_change_refuted.

(* jpeg2000.Decoder (FINDING): the summary is not self-initialising and the dependence on the
   history is real: decode a stream with MCC/MCT bindings (or legacy MCT), then a plain one. *)
Theorem C10_decoder_not_self_initialising : self_initialising decoder_cfg decoder_decode = false.
Proof. exact decoder_not_self_initialising. Qed.
Print Assumptions C10_decoder_not_self_initialising.

Theorem C10_decoder_history_refuted :
  dec_out [(decoder_decode, (true, false))] (false, false) <> dec_out [] (false, false)
  /\ dec_out [(decoder_decode, (false, true))] (false, false) <> dec_out [] (false, false).
Proof. exact C10_decoder_history_refuted. Qed.
Print Assumptions C10_decoder_history_refuted.

(* the suggested repair restores the property in the model *)
Theorem C10_decoder_fixed_history_independent :
  forall (D A : Type) app app0 appendD (r0 : rec D) (h : list (call * A)) (a : A),
    Forall (fun ca => In (fst ca) [decoder_decode_fixed]) h ->
    snd (exec_call D A app app0 appendD a (run_history D A app app0 appendD h r0) decoder_decode_fixed)
    = snd (exec_call D A app app0 appendD a r0 decoder_decode_fixed).
Proof. exact decoder_fixed_history_independent. Qed.
Print Assumptions C10_decoder_fixed_history_independent.

(* lossless syntaxes: frame-wise inverse coders give the source sequence back *)
Theorem C10_sequence_roundtrip : forall (F O : Type) (enc1 : F -> option O) (dec1 : O -> option F),
  (forall f o, enc1 f = Some o -> dec1 o = Some f) ->
  forall e e' fs outs, fs <> [] ->
    framesA F O enc1 e [] fs = (outs, true) ->
    framesA O F dec1 e' [] outs = (fs, true).
Proof. exact sequence_roundtrip. Qed.
Print Assumptions C10_sequence_roundtrip.

Example C10_sequence_roundtrip_nonvacuous :
  let enc1 := fun n : nat => Some (n + 5)%nat in
  let dec1 := fun m : nat => Some (m - 5)%nat in
  (forall f o, enc1 f = Some o -> dec1 o = Some f) /\
  framesA nat nat enc1 true [] [4; 0; 4]%nat = ([9; 5; 9]%nat, true).
Proof.
  cbv zeta. split; [|reflexivity]. intros f o H. inversion H. f_equal. lia.
Qed.

(* decoded frame size: Rows x Columns x SamplesPerPixel x ceil(BitsAllocated/8), RLE rounded to even *)
Theorem C10_output_size :
  (forall r c s b, (rle_decoded_len r c s b) mod 2 = 0) /\
  (forall r c s b, decoded_len r c s b <= rle_decoded_len r c s b <= decoded_len r c s b + 1) /\
  (forall b, 1 <= b <= 65536 -> rle_bytes_allocated b = bytes_per_sample b).
Proof. exact (conj rle_decoded_len_even (conj rle_decoded_len_bounds rle_bytes_allocated_ok)). Qed.
Print Assumptions C10_output_size.
