// runner.go: parent side. Cases are executed in child processes (one per worker, restarted
// on crash or timeout); the parent enforces the per-case watchdog.
package parsers

import (
	"bufio"
	"bytes"
	"fmt"
	"io"
	"os"
	"os/exec"
	"strconv"
	"strings"
	"sync"
	"time"
)

// Case is one (entry point, input) pair.
type Case struct {
	Entry  string
	Data   []byte
	FI     *FI
	Budget uint64 // heap budget handed to the child watchdog (0 = none)
	Cost   int64  // estimated decode cost in ms (valid-decode time of the seed on its home entry point)
	Seed   string // name of the seed stream it derives from
	Mut    string // mutator class
	Fam    string // family of the seed stream
}

// Res is what came back.
type Res struct {
	Status string // ok | err | panic | timeout | crash
	Ms     int64
	Peak   uint64 // peak heap growth during the case (sampled)
	Alloc  uint64 // bytes allocated during the case
	Detail string // ok: result info; err: message; panic: class|site|loc|msg; crash: class|site|loc|msg
	CPUus  int64  // CPU time (user+system, microseconds) the child process spent on this case; for a
	// watchdog timeout: the CPU time consumed until the kill, read from /proc/<pid>/stat (10 ms ticks)
	Over string // "site|loc" where the decoder was when the heap watchdog first saw the budget exceeded
}

func (r Res) panicParts() (class, site, loc, msg string) {
	p := strings.SplitN(r.Detail, "|", 4)
	for len(p) < 4 {
		p = append(p, "")
	}
	return p[0], p[1], p[2], p[3]
}

type runCfg struct {
	Workers int
	Timeout time.Duration
	ASLimit uint64               // RLIMIT_AS for children (0 = none)
	NoHeap  bool                 // the peak heap is not needed (C08): children run with GOMAXPROCS=1 and a slow sampler
	Skip    func(c *Case) string // consulted right before a case is handed to a child (global brake); nil = never
	// CPUNeed (isolated confirmations): when the wall watchdog fires and the case has not yet consumed this
	// much CPU time (µs), it is left running — until it has, or until WallCap of wall time has passed
	CPUNeed func(c *Case) int64
	WallCap time.Duration
	Note    func(c *Case, r *Res) // told every result as it arrives (feeds the brake); nil = none
}

type child struct {
	cmd    *exec.Cmd
	in     io.WriteCloser
	out    *bufio.Reader
	stderr *tailBuf
	lines  chan string
}

type tailBuf struct {
	mu sync.Mutex
	b  []byte
}

func (t *tailBuf) Write(p []byte) (int, error) {
	t.mu.Lock()
	defer t.mu.Unlock()
	t.b = append(t.b, p...)
	if len(t.b) > 1<<16 {
		// keep head (fatal error line + first goroutine) — that is where the site is
		t.b = t.b[:1<<16]
	}
	return len(p), nil
}
func (t *tailBuf) String() string { t.mu.Lock(); defer t.mu.Unlock(); return string(t.b) }

var selfExe = func() string {
	p, err := os.Executable()
	if err != nil {
		return os.Args[0]
	}
	return p
}()

func startChild(cfg runCfg) (*child, error) {
	cmd := exec.Command(selfExe, childFlag)
	if cfg.NoHeap {
		cmd.Env = append(os.Environ(), "GOMAXPROCS=1", "GOTRACEBACK=single", "PARSERS_SAMPLE_US=200000")
	} else {
		cmd.Env = append(os.Environ(), "GOMAXPROCS=2", "GOTRACEBACK=single", "PARSERS_SAMPLE_US=2000")
	}
	if cfg.ASLimit > 0 {
		cmd.Env = append(cmd.Env, "PARSERS_AS_LIMIT="+strconv.FormatUint(cfg.ASLimit, 10))
	}
	in, err := cmd.StdinPipe()
	if err != nil {
		return nil, err
	}
	out, err := cmd.StdoutPipe()
	if err != nil {
		return nil, err
	}
	tb := &tailBuf{}
	cmd.Stderr = tb
	if err := cmd.Start(); err != nil {
		return nil, err
	}
	c := &child{cmd: cmd, in: in, out: bufio.NewReaderSize(out, 1<<16), stderr: tb, lines: make(chan string, 64)}
	go func() {
		for {
			l, err := c.out.ReadString('\n')
			if l != "" {
				c.lines <- strings.TrimRight(l, "\n")
			}
			if err != nil {
				close(c.lines)
				return
			}
		}
	}()
	return c, nil
}

func (c *child) kill() {
	if c == nil {
		return
	}
	_ = c.in.Close()
	if c.cmd.Process != nil {
		_ = c.cmd.Process.Kill()
	}
	_ = c.cmd.Wait()
}

// childPool keeps children alive between chunks (process start is expensive on a loaded machine).
type childPool struct {
	mu     sync.Mutex
	idle   []*child
	noHeap bool // kind of the idle children
}

var pool childPool

func (p *childPool) get(cfg runCfg) (*child, error) {
	p.mu.Lock()
	if p.noHeap != cfg.NoHeap { // kind changed: retire the idle children of the other kind
		old := p.idle
		p.idle, p.noHeap = nil, cfg.NoHeap
		p.mu.Unlock()
		for _, ch := range old {
			ch.kill()
		}
		p.mu.Lock()
	}
	if n := len(p.idle); n > 0 {
		ch := p.idle[n-1]
		p.idle = p.idle[:n-1]
		p.mu.Unlock()
		return ch, nil
	}
	p.mu.Unlock()
	return startChild(cfg)
}
func (p *childPool) put(ch *child, cfg runCfg) {
	p.mu.Lock()
	if p.noHeap == cfg.NoHeap {
		p.idle = append(p.idle, ch)
		p.mu.Unlock()
		return
	}
	p.mu.Unlock()
	ch.kill()
}

// ClosePool terminates the idle children.
func ClosePool() {
	pool.mu.Lock()
	cs := pool.idle
	pool.idle = nil
	pool.mu.Unlock()
	for _, ch := range cs {
		ch.kill()
	}
}

// runChunk runs cases[lo:hi) on one child (restarting as needed), filling res. At most `window`
// cases are in flight, so that cfg.Skip sees the results of the cases just before.
func runChunk(cfg runCfg, cases []Case, res []Res, lo, hi int) {
	const window = 6
	next := lo // next case to hand out
	for next < hi {
		ch, err := pool.get(cfg)
		if err != nil {
			for ; next < hi; next++ {
				res[next] = Res{Status: "crash", Detail: "harness|startChild|-|" + err.Error()}
			}
			return
		}
		feed := make(chan int, window)
		go func() {
			w := bufio.NewWriterSize(ch.in, 1<<16)
			for k := range feed {
				c := &cases[k]
				fmt.Fprintf(w, "%d %s %s %s %d\n", k, c.Entry, hexs(c.Data), c.FI.String(), c.Budget)
				if w.Flush() != nil {
					for range feed {
					}
					return
				}
			}
		}()
		var pending []int
		lastCPU := max(0, procCPUms(ch.cmd.Process.Pid)) // child CPU (ms) when the previous result arrived
		restart := false
		head := -1
		var headStart time.Time
		var ext time.Duration
		for !restart && (next < hi || len(pending) > 0) {
			for len(pending) < window && next < hi {
				if cfg.Skip != nil {
					if why := cfg.Skip(&cases[next]); why != "" {
						res[next] = Res{Status: "skipped", Detail: why}
						next++
						continue
					}
				}
				feed <- next
				pending = append(pending, next)
				next++
			}
			if len(pending) == 0 {
				break
			}
			i := pending[0]
			if i != head {
				head, headStart, ext = i, time.Now(), 0
			}
			timer := time.NewTimer(time.Until(headStart.Add(cfg.Timeout + 500*time.Millisecond + ext))) // + process start / pipe slack
			select {
			case l, ok := <-ch.lines:
				timer.Stop()
				if !ok { // child died while case i was outstanding
					_ = ch.cmd.Wait()
					res[i] = crashRes(ch.stderr.String(), ch.cmd.ProcessState.String())
					if cfg.Note != nil {
						cfg.Note(&cases[i], &res[i])
					}
					restart = true
					break
				}
				f := strings.SplitN(l, "\t", 7)
				if len(f) < 7 {
					continue
				}
				id, _ := strconv.Atoi(f[0])
				if id != i {
					continue
				}
				ms, _ := strconv.ParseInt(f[2], 10, 64)
				pk, _ := strconv.ParseUint(f[3], 10, 64)
				al, _ := strconv.ParseUint(f[4], 10, 64)
				cpu, _ := strconv.ParseInt(f[5], 10, 64)
				det, over := f[6], ""
				if k := strings.Index(det, "\x1fover="); k >= 0 {
					det, over = det[:k], det[k+6:]
				}
				res[i] = Res{Status: f[1], Ms: ms, Peak: pk, Alloc: al, CPUus: cpu, Detail: det, Over: over}
				if cfg.Note != nil {
					cfg.Note(&cases[i], &res[i])
				}
				pending = pending[1:]
				lastCPU = max(0, procCPUms(ch.cmd.Process.Pid))
			case <-timer.C:
				used := max(0, procCPUms(ch.cmd.Process.Pid)-lastCPU) * 1000
				if cfg.CPUNeed != nil && used < cfg.CPUNeed(&cases[i]) && time.Since(headStart) < cfg.WallCap {
					ext += 500 * time.Millisecond // not yet conclusive: the decoder has not had its CPU budget
					continue
				}
				res[i] = Res{Status: "timeout", Ms: time.Since(headStart).Milliseconds(), CPUus: used, Detail: "no result within the watchdog"}
				if cfg.Note != nil {
					cfg.Note(&cases[i], &res[i])
				}
				restart = true
			}
		}
		close(feed)
		if restart {
			ch.kill()
			// the cases handed out after the failed one go to the next child
			if len(pending) > 0 {
				next = pending[0] + 1
				for _, k := range pending[1:] {
					res[k] = Res{}
				}
			}
		} else {
			pool.put(ch, cfg)
		}
	}
}

// procCPUms: user+system CPU time consumed so far by a process, in ms (USER_HZ = 100); -1 if unknown.
func procCPUms(pid int) int64 {
	b, err := os.ReadFile(fmt.Sprintf("/proc/%d/stat", pid))
	if err != nil {
		return -1
	}
	s := string(b)
	k := strings.LastIndex(s, ")")
	if k < 0 {
		return -1
	}
	f := strings.Fields(s[k+1:])
	if len(f) < 13 {
		return -1
	}
	ut, _ := strconv.ParseInt(f[11], 10, 64)
	st, _ := strconv.ParseInt(f[12], 10, 64)
	return (ut + st) * 10
}

// crashRes turns the stderr of a dead child into a result.
func crashRes(stderr, state string) Res {
	lines := strings.Split(stderr, "\n")
	msg := ""
	for _, l := range lines {
		if strings.HasPrefix(l, "fatal error:") || strings.HasPrefix(l, "panic:") || strings.HasPrefix(l, "runtime:") && msg == "" {
			msg = l
			if strings.HasPrefix(l, "fatal error:") || strings.HasPrefix(l, "panic:") {
				break
			}
		}
	}
	if msg == "" {
		msg = "child exited: " + state
	}
	site, loc := "unknown", "unknown"
	// first library frame of the first goroutine trace
	for i := 0; i+1 < len(lines); i++ {
		if (strings.Contains(lines[i], "go-dicom-codecs/") || strings.Contains(lines[i], "cocosip/go-dicom/")) && frameFileRe.MatchString(lines[i+1]) {
			site, loc = panicSite([]byte(lines[i] + "\n" + lines[i+1] + "\n"))
			break
		}
	}
	return Res{Status: "crash", Detail: classify(msg) + "|" + site + "|" + loc + "|" + sanitize(clipStr(msg, 200))}
}

// RunCases executes all cases on cfg.Workers children and returns results in order.
func RunCases(cfg runCfg, cases []Case) []Res {
	res := make([]Res, len(cases))
	if len(cases) == 0 {
		return res
	}
	chunk := len(cases)/(cfg.Workers*8) + 1
	if chunk > 500 {
		chunk = 500
	}
	type span struct{ lo, hi int }
	ch := make(chan span)
	var wg sync.WaitGroup
	for w := 0; w < cfg.Workers; w++ {
		wg.Add(1)
		go func() {
			defer wg.Done()
			for s := range ch {
				runChunk(cfg, cases, res, s.lo, s.hi)
			}
		}()
	}
	for lo := 0; lo < len(cases); lo += chunk {
		hi := lo + chunk
		if hi > len(cases) {
			hi = len(cases)
		}
		ch <- span{lo, hi}
	}
	close(ch)
	wg.Wait()
	return res
}

var _ = bytes.Equal
