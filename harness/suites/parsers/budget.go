// budget.go: the C09 oracle — calibrated, load-independent budgets.
//
// TIME is the CPU time (user+system, getrusage in the child around the one case, with the
// collection of the case's garbage and the kernel's page zeroing included) — not wall time.
// The 10 s wall watchdog remains only as the kill switch: in a C09 run it does not even fire before
// the case has had its CPU budget (or 30 s of wall time), and a kill counts only when the isolated
// re-run burnt the CPU budget again (CPU time of the killed child from /proc/<pid>/stat).
// MEMORY is the sampled peak heap growth during the case.
//
//	cpu_budget(S, len)  = a  + b*S  + c*len      (microseconds)
//	heap_budget(S, len) = m0 + m1*S + m2*len     (bytes)
//
// S = width*height*components of the first frame header (0 when none is declared; codec[RLE]: of
// the FrameInfo), len = input length. Tile / precinct / layer / resolution COUNTS are deliberately
// not part of S: work spent on declared counts must be paid for by data that is there (len).
// One coefficient set per decoder group (the entry points of a group share the decoder).
//
// Calibration, 2026-09-23, clean tree (git archive of HEAD cf93e3d), budgets off:
// the thorough-tier corpus + mutants (1 080 092 executed cases, 16 children in parallel), then
// every case with > 50 ms CPU or > 4 MiB peak (11 661, then 18 340 with the duplicates of their
// classes) measured again with little contention (2 children, and 4 children on the idle machine,
// watchdog 120 s). CPU time measured with 16 children in parallel is inflated up to 17x by
// contention in the kernel's page allocator even on an otherwise idle machine (a case of 72 ms
// measured 1237 ms), so the envelope below is the low-contention one; the parallel run only
// screens, and every candidate is decided by the isolated re-run. Peak heap is taken over all runs.
//
// Upper envelope, worst clean case per S-decade (CPU ms / peak KiB); "none" = nothing declared:
//
//	group   none     1e0     1e1      1e2      1e3       1e4          1e5        1e6
//	dct     3/2503   1/86    6/131    1/214    0/111     0/559        13/2071    53/8286
//	jpegll  0/202    0/79    5/129    3/262    0/171     11/1188      5/6912     643/32819
//	jls     1/102    3/217   0/292    3/316    1/128     2/1248       45/7744    1035/32867
//	rle     0/15     0/22    0/126    0/200    0/15      0/256        0/1728     6/16399
//	j2k     3/172    0/231   12/2735  78/3659  181/17851 2112/174087  107/32102  12088/610379
//	(j2k 1e4: Csiz 16384 on 2x2, len 49-51 KiB; j2k 1e6: 12088 ms at S = 2^22 and 10636 ms at S = 3*2^20)
//
// worst per entry point (all at S ~ 2^22 unless noted): baseline 48 ms/4626 KiB, extended 42/8200,
// codec[.50] 13/4623, codec[.51] 53/8286, lossless 643/32795, lossless14sv1 263/32791,
// codec[.57] 551/32819, codec[.70] 398/32792, jpegls/lossless 965/32843, jpegls/nearlossless
// 524/32867, codec[.80] 590/32846, codec[.81] 1035/32823, codec[RLE] 6/16399, jpeg2000.Decoder
// 10547/610379, +HT 9219/604122, codec[.90] 7747/565059, [.91] 5453/528496, [.92] 2039/239772,
// [.93] 55/40353, [.201] 11120/563153, [.202] 321/125385, [.203] 12088/567426 (the 1x1-precinct
// 2048x2048 tile: 4 M precincts), and at S = 65536 with Csiz 16384: 2112 ms / 174087 KiB.
//
// Coefficients: >= 5x the envelope in CPU and >= 3x in memory in every bucket. a = 1 s (the worst
// clean case below S = 10^4 is 181 ms; 1 s also keeps the contention noise of the parallel screening
// run, up to 0.56 s on trivial cases, below the candidate threshold), m0 = 16 MiB (worst clean
// small-S case 3659 KiB).
//
//	group   a      b µs/sample  c µs/byte   m0      m1 B/sample  m2 B/byte   at S=2^22, len=1 KiB
//	dct     1 s    0.1          5           16 MiB  6            64          1.4 s    40 MiB
//	jpegll  1 s    0.75         5           16 MiB  24           64          4.2 s   112 MiB
//	jls     1 s    1.25         5           16 MiB  24           64          6.2 s   112 MiB
//	rle     1 s    0.1          5           16 MiB  10           64          1.4 s    56 MiB
//	j2k     1 s    17           170         16 MiB  450          9600        72 s    1.8 GiB
//
// (j2k: b from 10636 ms at S = 3*2^20 and 12088 ms at S = 2^22; c and m2 from the Csiz-16384 streams — 3 header bytes per
// component buy 130 µs and 10 KiB of per-component state; m1 from 610379 KiB at S = 2^22.)
//
// Not in the envelope because it is a violation on the clean tree itself (reported as a finding):
// work.po0.layers1000-levels8-bigimage.filler — LRCP, 1000 layers, 2048x2048, 2 KiB of filler:
// > 13 s CPU, then fatal out of memory under RLIMIT_AS 3 GiB in t2.parsePacketHeaderMulti.
package parsers

import (
	"fmt"
	"os"
	"strings"
	"sync"
)

// coef: the budget coefficients of one decoder family.
type coef struct {
	cpuA, cpuB, cpuC float64 // µs, µs per declared sample, µs per input byte
	memM0            uint64  // bytes
	memM1, memM2     float64 // bytes per declared sample, bytes per input byte
}

const (
	grpDCT    = "dct"
	grpJPEGLL = "jpegll"
)

var budgets = map[string]coef{
	grpDCT:    {1e6, 0.1, 5, 16 << 20, 6, 64},
	grpJPEGLL: {1e6, 0.75, 5, 16 << 20, 24, 64},
	famJLS:    {1e6, 1.25, 5, 16 << 20, 24, 64},
	famRLE:    {1e6, 0.1, 5, 16 << 20, 10, 64},
	famJ2K:    {1e6, 17, 170, 16 << 20, 450, 9600},
}

// calibNote goes into the Rule text of C09.
const calibNote = "Budgets (calibrated 2026-09-23 on the clean tree, thorough corpus, 1.08 M cases; heavy cases re-measured with little contention): " +
	"cpu_budget = a + b*S + c*len, heap_budget = m0 + m1*S + m2*len with a = 1 s, m0 = 16 MiB and per decoder group (b µs/sample, c µs/byte, m1 B/sample, m2 B/byte): " +
	"dct [baseline, extended, .50, .51] (0.1, 5, 6, 64); jpegll [lossless, lossless14sv1, .57, .70] (0.75, 5, 24, 64); jls (1.25, 5, 24, 64); rle (0.1, 5, 10, 64); " +
	"j2k (17, 170, 450, 9600). Measured clean envelope (worst CPU ms / peak KiB): S < 10^4: dct 6/2503, jpegll 5/262, jls 3/316, rle 0/200, j2k 181/17851; " +
	"S ~ 2^22: dct 53/8286, jpegll 643/32819, jls 1035/32867, rle 6/16399, j2k 12088/610379 (1x1 precincts on a 2048x2048 tile; 10636 ms at S = 3*2^20); j2k at S = 65536 with Csiz 16384 (len 50 KiB): 2112/174087. " +
	"Headroom >= 5x CPU and >= 3x memory in every S-decade. "

func groupOf(entry string) string {
	switch entry {
	case "baseline.Decode", "extended.Decode", "codec[.50].Decode", "codec[.51].Decode":
		return grpDCT
	}
	if e := entryByName[entry]; e != nil {
		if e.Fam == famJPEG {
			return grpJPEGLL
		}
		return e.Fam
	}
	return famJ2K
}

func coefOf(entry string) coef { return budgets[groupOf(entry)] }

func cpuBudgetUs(c *Case, s uint64) int64 {
	k := coefOf(c.Entry)
	return int64(k.cpuA + k.cpuB*float64(s) + k.cpuC*float64(len(c.Data)))
}

func heapBudget(c *Case, s uint64) uint64 {
	k := coefOf(c.Entry)
	return k.memM0 + uint64(k.memM1*float64(s)+k.memM2*float64(len(c.Data)))
}

var noBudget = os.Getenv("PARSERS_NOBUDGET") != "" // calibration runs: only the kill switches are active

// c09 violation kinds
const (
	kTimeout = "timeout"
	kCPU     = "cpu-budget"
	kHeap    = "heap-budget"
	kOOM     = "fatal-oom"
	kStack   = "fatal-stack-overflow"
)

// c09Kinds: the C09 oracle on one result: which budgets the case exceeded (nil = property holds).
func c09Kinds(c *Case, r *Res, s uint64) []string {
	var ks []string
	switch r.Status {
	case "timeout":
		return []string{kTimeout}
	case "crash":
		class, _, _, _ := r.panicParts()
		if class == "out-of-memory" {
			return []string{kOOM}
		}
		if class == "stack-overflow" {
			return []string{kStack}
		}
		return nil
	case "skipped", "":
		return nil
	}
	if noBudget {
		return nil
	}
	if r.CPUus > cpuBudgetUs(c, s) {
		ks = append(ks, kCPU)
	}
	if r.Peak > heapBudget(c, s) {
		ks = append(ks, kHeap)
	}
	return ks
}

func overParts(r *Res) (site, loc string) {
	site, loc = "unknown", "unknown"
	if p := strings.SplitN(r.Over, "|", 2); len(p) == 2 {
		site, loc = p[0], p[1]
	}
	return
}

// c09SigOf: signature and description of one violation kind.
func c09SigOf(c *Case, r *Res, s uint64, kind string) (sig, what string) {
	n := len(c.Data)
	switch kind {
	case kTimeout:
		return c.Entry + ":timeout", fmt.Sprintf("no result within %v wall time, %d ms CPU consumed at the kill (cpu budget %d ms) on a %d-byte input declaring S=%d",
			watchdog, r.CPUus/1000, cpuBudgetUs(c, s)/1000, n, s)
	case kCPU:
		return c.Entry + ":cpu-budget", fmt.Sprintf("%d ms CPU > cpu_budget(S=%d, len=%d) = %d ms (result: %s after %d ms wall)",
			r.CPUus/1000, s, n, cpuBudgetUs(c, s)/1000, r.Status, r.Ms)
	case kHeap:
		site, loc := overParts(r)
		return c.Entry + ":heap-budget:" + site, fmt.Sprintf("peak heap growth %d KiB > heap_budget(S=%d, len=%d) = %d KiB; allocating at %s",
			r.Peak>>10, s, n, heapBudget(c, s)>>10, loc)
	case kOOM:
		_, site, loc, msg := r.panicParts()
		return c.Entry + ":mem:fatal-oom:" + site, fmt.Sprintf("fatal out of memory under RLIMIT_AS=%d MiB (%s at %s), input %d bytes declaring S=%d", asLimit>>20, msg, loc, n, s)
	case kStack:
		_, site, loc, msg := r.panicParts()
		return c.Entry + ":mem:fatal-stack-overflow:" + site, "stack overflow: " + msg + " at " + loc
	}
	return "", ""
}

// confirmKey: candidates are confirmed per entry point and kind (heap: and allocation site).
func confirmKey(c *Case, r *Res, kind string) string {
	switch kind {
	case kTimeout, kCPU:
		return c.Entry + "|time"
	case kHeap:
		site, _ := overParts(r)
		return c.Entry + "|heap|" + site
	}
	return c.Entry + "|" + kind
}

// confirmed: does the isolated re-run r2 reproduce a violation of this kind? Returns the kind to report.
func confirmedKind(c *Case, r2 *Res, s uint64, kind string) string {
	switch kind {
	case kTimeout, kCPU:
		if r2.Status == "timeout" {
			// the isolated child was left running until it had consumed the CPU budget (runCfg.CPUNeed);
			// killed earlier (wall cap on an overloaded machine) = inconclusive, never reported
			if r2.CPUus >= cpuBudgetUs(c, s) {
				return kTimeout
			}
			return ""
		}
		if r2.Status != "crash" && r2.Status != "skipped" && r2.CPUus > cpuBudgetUs(c, s) {
			return kCPU
		}
	case kHeap:
		if r2.Status != "crash" && r2.Status != "timeout" && r2.Peak > heapBudget(c, s) {
			return kHeap
		}
	}
	return ""
}

// ---------------------------------------------------------------------------------------
// the brake: a hanging decoder must not cost 10 s per case for thousands of cases

const (
	rawCap      = 6 // slow results (watchdog kill or > 2 s CPU) of one entry point before it is paused until confirmation
	brakeSigs   = 6 // confirmed budget/timeout signatures before the entry points having them are stopped for good
	c08TotalCap = 12
)

type brake struct {
	mu        sync.Mutex
	raw       map[string]int    // entry -> slow results since the last reset
	total     map[string]int    // entry -> slow results in the whole run
	blocked   map[string]string // entry -> reason (for the rest of the run)
	confirmed map[string]string // confirmed budget/timeout signature -> entry
	skipped   map[string]int    // entry -> cases not run
}

func newBrake() *brake {
	return &brake{raw: map[string]int{}, total: map[string]int{}, blocked: map[string]string{}, confirmed: map[string]string{}, skipped: map[string]int{}}
}

// skip: "" = run the case; "paused" = not now (the entry point waits for the confirmations at the end
// of the wave; the case is deferred to the next wave); "blocked" = not in this run.
func (b *brake) skip(c *Case) string {
	b.mu.Lock()
	defer b.mu.Unlock()
	if b.blocked[c.Entry] != "" {
		b.skipped[c.Entry]++
		return "blocked"
	}
	if b.raw[c.Entry] >= rawCap {
		return "paused"
	}
	return ""
}

// note: a slow result = a watchdog kill, or a case over its CPU budget that cost more than a second.
func (b *brake) note(c *Case, r *Res) {
	slow := r.Status == "timeout"
	if !slow && !noBudget && r.CPUus > 1_000_000 {
		s, _ := inDomain(c)
		slow = r.CPUus > cpuBudgetUs(c, s)
	}
	if slow {
		b.mu.Lock()
		b.raw[c.Entry]++
		b.total[c.Entry]++
		b.mu.Unlock()
	}
}

func (b *brake) drop(c *Case) {
	b.mu.Lock()
	b.skipped[c.Entry]++
	if b.blocked[c.Entry] == "" {
		b.blocked[c.Entry] = "paused in every wave"
	}
	b.mu.Unlock()
}

// confirm records a confirmed time/heap signature.
func (b *brake) confirm(sig, entry string) {
	b.mu.Lock()
	b.confirmed[sig] = entry
	b.mu.Unlock()
}

// waveEnd: after the confirmations of a wave. Entry points that were paused and have a confirmed
// time signature stay stopped; paused entry points without one (the machine was busy) resume.
func (b *brake) waveEnd(confirming bool) {
	b.mu.Lock()
	defer b.mu.Unlock()
	timeSig := map[string]bool{}
	for sig, e := range b.confirmed {
		if strings.HasSuffix(sig, ":timeout") || strings.HasSuffix(sig, ":cpu-budget") {
			timeSig[e] = true
		}
	}
	for e, n := range b.raw {
		if n < rawCap {
			continue
		}
		switch {
		case confirming && timeSig[e]:
			b.blocked[e] = "confirmed timeout / cpu-budget signature and repeated slow cases"
		case !confirming && b.total[e] >= c08TotalCap:
			b.blocked[e] = fmt.Sprintf("%d watchdog timeouts", b.total[e])
		default:
			b.raw[e] = 0
		}
	}
	if len(b.confirmed) >= brakeSigs {
		for _, e := range b.confirmed {
			if b.blocked[e] == "" {
				b.blocked[e] = fmt.Sprintf("global brake: %d distinct confirmed budget/timeout signatures", len(b.confirmed))
			}
		}
	}
}

func (b *brake) summary() (string, int) {
	b.mu.Lock()
	defer b.mu.Unlock()
	var parts []string
	n := 0
	for _, e := range Entries {
		if k := b.skipped[e.Name]; k > 0 {
			n += k
			parts = append(parts, fmt.Sprintf("%s: %d cases not run (%s)", e.Name, k, b.blocked[e.Name]))
		}
	}
	return strings.Join(parts, "; "), n
}

// ---------------------------------------------------------------------------------------
// calibration record: PARSERS_RECORD=<file> appends one line per executed case

var recMu sync.Mutex
var heavy []Case // record mode: the cases worth a second, low-contention measurement

// remeasureHeavy: record mode — run the heavy cases again on few children (PARSERS_ISO_WORKERS,
// default 2) and record them in <file>.iso: the cost of a case with little contention.
func remeasureHeavy() {
	path := os.Getenv("PARSERS_RECORD")
	if path == "" || len(heavy) == 0 || os.Getenv("PARSERS_ONLY") != "" {
		return
	}
	w := 2
	if v := os.Getenv("PARSERS_ISO_WORKERS"); v != "" {
		fmt.Sscan(v, &w)
	}
	cs := heavy
	heavy = nil
	res := RunCases(runCfg{Workers: w, Timeout: watchdog, ASLimit: asLimit}, cs)
	os.Setenv("PARSERS_RECORD", path+".iso")
	recordCalib(cs, res)
	os.Setenv("PARSERS_RECORD", path)
	heavy = nil
}

func recordCalib(batch []Case, res []Res) {
	path := os.Getenv("PARSERS_RECORD")
	if path == "" {
		return
	}
	recMu.Lock()
	defer recMu.Unlock()
	f, err := os.OpenFile(path, os.O_APPEND|os.O_CREATE|os.O_WRONLY, 0o644)
	if err != nil {
		return
	}
	defer f.Close()
	var sb strings.Builder
	for i := range batch {
		s, _ := inDomain(&batch[i])
		if res[i].Status == "skipped" {
			continue
		}
		if res[i].CPUus > 50_000 || res[i].Peak > 4<<20 || res[i].Status == "timeout" {
			heavy = append(heavy, batch[i])
		}
		fmt.Fprintf(&sb, "%s\t%d\t%d\t%d\t%d\t%d\t%s\t%d\t%s\t%s\n", batch[i].Entry, s, len(batch[i].Data), res[i].CPUus, res[i].Peak, res[i].Alloc, res[i].Status, res[i].Ms, batch[i].Mut, batch[i].Seed)
	}
	f.WriteString(sb.String())
}
