// suite.go: C08 / C09 suites — case generation, execution in child processes, oracles,
// de-duplication by signature, shrinking, reporting.
package parsers

import (
	"encoding/json"
	"fmt"
	"hash/fnv"
	"os"
	"sort"
	"strconv"
	"strings"
	"time"

	. "verif/harness/vhlib"
)

// Register adds this area's suites.
func Register(s Suites) {
	s.Add("C08", runC08)
	s.Add("C09", runC09)
}

// watchdog: wall-clock kill switch per case (PARSERS_WATCHDOG_S: calibration aid only)
var watchdog = func() time.Duration {
	if v, err := strconv.Atoi(os.Getenv("PARSERS_WATCHDOG_S")); err == nil && v > 0 {
		return time.Duration(v) * time.Second
	}
	return 10 * time.Second
}()

const (
	asLimit    = 3 << 30 // RLIMIT_AS of every child (kill switch)
	maxDomainS = 1 << 22
)

// inDomain: the C09 domain — input <= 64 KiB whose first frame header declares S <= 2^22 or nothing.
func inDomain(c *Case) (s uint64, ok bool) {
	if len(c.Data) > maxInput {
		return 0, false
	}
	s, found := DeclaredS(c)
	if !found {
		return 0, true
	}
	return s, s <= maxDomainS
}

type planCfg struct {
	thorough     bool
	forC09       bool
	byteValPer   int // sampled (position,value) pairs per seed for the header byte x value sweep (thorough: all)
	havocPer     int
	randomPerFam int
	splices      int
	rleFI        int
	denseTrunc   int
}

func h64(b []byte) uint64 { h := fnv.New64a(); h.Write(b); return h.Sum64() }

// plan builds the case list.
func plan(c *Ctx, seeds []*Seed, pc planCfg) []Case {
	rng := c.Rng.Fork()
	var cases []Case
	rot := 0
	emit := func(s *Seed, m mutant, targets int, fi *FI) {
		if len(m.data) > maxInput {
			m.data = m.data[:maxInput]
		}
		// targets: 1 = home[0]; 2 = home[0] and home[1]; 3 = all homes; 0 = one rotating home
		var names []string
		switch {
		case targets == 0:
			names = []string{s.Home[rot%len(s.Home)]}
			rot++
		case targets >= 3:
			names = s.Home
		default:
			names = s.Home[:min(targets, len(s.Home))]
		}
		// the cost estimate follows what the MUTATED stream declares (a corrupted dimension field
		// can turn a 40-byte stream into seconds of page zeroing)
		cst := s.CostMs
		if s.Fam != famRLE {
			if dd := SniffAny(m.data); dd.Found {
				n := int64(satMul3(dd.W, dd.H, dd.C))
				if s.Fam == famJ2K {
					cst = max(cst, 2+n/400)
				} else {
					cst = max(cst, n/20000)
				}
			}
		}
		for _, n := range names {
			e := entryByName[n]
			var f *FI
			if e.Codec {
				if fi != nil {
					f = fi
				} else {
					ff := s.FI
					f = &ff
				}
			}
			cases = append(cases, Case{Entry: n, Data: m.data, FI: f, Seed: s.Name, Mut: m.mut, Fam: s.Fam, Cost: cst})
		}
	}
	classSeen := map[string]int{}
	quickSeen := map[string]int{}
	hdrSeen := map[string]int{}
	bySeedFam := map[string][]*Seed{}
	for _, s := range seeds {
		bySeedFam[s.Fam] = append(bySeedFam[s.Fam], s)
	}
	// E. every seed unmodified to its homes, and to every entry point of the table (cross-feed)
	for _, s := range seeds {
		emit(s, mutant{s.Data, "valid"}, 3, nil)
		if s.Small || pc.thorough {
			for _, e := range Entries {
				var f *FI
				if e.Codec {
					ff := s.FI
					f = &ff
				}
				cases = append(cases, Case{Entry: e.Name, Data: s.Data, FI: f, Seed: s.Name, Mut: "crossfeed", Fam: s.Fam, Cost: s.CostMs})
			}
		}
	}
	for si, s := range seeds {
		// cost-aware thinning: seeds whose valid decode is slow get fewer mutants (div >= 1)
		div := 1
		switch {
		case s.CostMs >= 200:
			div = 40
		case s.CostMs >= 40:
			div = 12
		case s.CostMs >= 8:
			div = 4
		}
		if pc.thorough {
			div = (div + 3) / 4
		}
		// quick tier: only the first two streams of every (codec, components) class get the dense
		// sweeps (truncation at every offset, header byte x value, havoc); the other geometries of
		// the class get every offset of the header and a sample
		qcls := s.Name
		if i := strings.Index(qcls, "-"); i > 0 {
			qcls = qcls[:i]
		}
		qcls += fmt.Sprintf("/%d", s.FI.SPP)
		quickSeen[qcls]++
		rep := pc.thorough || quickSeen[qcls] <= 2
		if !rep {
			div = max(div, 6)
		}
		// A1. truncation at every offset of the small streams (header + a sample for large ones)
		dense := pc.denseTrunc
		if !s.Small {
			dense = min(dense, s.HdrLen+48)
		}
		tr := truncations(s.Data, dense, 24, rng)
		if div > 1 { // keep every offset of the header, thin the rest
			var keep []mutant
			for i, m := range tr {
				if len(m.data) <= s.HdrLen+2 || (i+si)%div == 0 {
					keep = append(keep, m)
				}
			}
			tr = keep
		}
		for i, m := range tr {
			if pc.thorough || i%2 == 0 || len(m.data) <= s.HdrLen+2 {
				emit(s, m, 2, nil)
			} else {
				emit(s, m, 1, nil)
			}
			if pc.thorough {
				emit(s, m, 0, nil)
			}
		}
		// A2. every header byte x every value
		hl := min(s.HdrLen, 300, len(s.Data))
		// thorough: EVERY header byte x EVERY value for the first stream of each (codec, components)
		// class; the other geometries of the class get a large sample (memory: cases are materialised)
		hcls := s.Name
		if i := strings.Index(hcls, "-"); i > 0 {
			hcls = hcls[:i]
		}
		hcls += fmt.Sprintf("/%d", s.FI.SPP)
		hdrSeen[hcls]++
		if pc.thorough && !pc.forC09 && hdrSeen[hcls] == 1 {
			for p := 0; p < hl; p++ {
				for v := 0; v < 256; v++ {
					if int(s.Data[p]) == v {
						continue
					}
					d := clone(s.Data)
					d[p] = byte(v)
					emit(s, mutant{d, "hdrbyte"}, 1, nil)
				}
			}
		} else {
			for k := 0; k < pc.byteValPer/div+1 && hl > 0; k++ {
				p, v := rng.Intn(hl), rng.Intn(256)
				if k%3 == 0 {
					v = byteEdge[rng.Intn(len(byteEdge))]
				}
				d := clone(s.Data)
				d[p] = byte(v)
				emit(s, mutant{d, "hdrbyte"}, 1, nil)
			}
		}
		// A3. field-targeted corruption
		var fm []mutant
		switch s.Fam {
		case famJPEG, famJLS:
			fm = fieldMutantsJPEG(s.Data, rng)
		case famJ2K:
			fm = fieldMutantsJ2K(s.Data, rng)
		case famRLE:
			fm = fieldMutantsRLE(s.Data, rng)
		}
		if !rep {
			// mutants that end in a fatal out-of-memory abort cost a child restart each: class
			// representatives only
			var keep []mutant
			for _, m := range fm {
				if m.mut != "struct.foreign-sof" && m.mut != "field.dims65535" {
					keep = append(keep, m)
				}
			}
			fm = keep
		}
		if !pc.thorough {
			// quick tier: the first two seeds of every (codec, components) class keep all field
			// mutants, the other geometries of the class a sixth (a twelfth for C09)
			cls := s.Name
			if i := strings.Index(cls, "-"); i > 0 {
				cls = cls[:i]
			}
			cls += fmt.Sprintf("/%d", s.FI.SPP)
			classSeen[cls]++
			every := 1
			if classSeen[cls] > 2 {
				every = 6
			}
			if pc.forC09 {
				every *= 2
			}
			if every > 1 {
				var keep []mutant
				for i, m := range fm {
					if (i+si)%every == 0 {
						keep = append(keep, m)
					}
				}
				fm = keep
			}
		}
		if div > 2 {
			// slow streams: keep a fraction of the field mutants
			var keep []mutant
			for i, m := range fm {
				if (i+si)%(div/2) == 0 {
					keep = append(keep, m)
				}
			}
			fm = keep
		}
		for i, m := range fm {
			emit(s, m, 1, nil)
			if pc.thorough && (div == 1 || i%div == 0) || !pc.thorough && (i+si)%(3*div) == 0 {
				emit(s, m, 0, nil)
			}
		}
		// A3b. paired / cross-referencing fields of JPEG 2000 marker segments (tiny streams: all Part 2
		// seeds and the class representatives in the quick tier, every small stream in the thorough tier)
		if !pc.forC09 && s.Fam == famJ2K && s.Small && (rep || strings.HasPrefix(s.Name, "xmct-")) {
			for i, m := range pairedMutantsJ2K(s.Data, rng) {
				emit(s, m, 1, nil)
				if pc.thorough || strings.HasPrefix(s.Name, "xmct-") && i%2 == si%2 {
					emit(s, m, 0, nil)
				}
			}
		}
		// A4. havoc
		for k := 0; k < pc.havocPer/div+1; k++ {
			emit(s, havoc(s.Data, rng, s.HdrLen), 0, nil)
		}
		// F. codec level: valid stream with mismatching / degenerate frame descriptions
		for _, hn := range s.Home {
			if !entryByName[hn].Codec {
				continue
			}
			for _, f := range mismatchFIs(s.FI, rng) {
				f := f
				cases = append(cases, Case{Entry: hn, Data: s.Data, FI: &f, Seed: s.Name, Mut: "fi-mismatch", Fam: s.Fam, Cost: s.CostMs})
			}
			break
		}
	}
	// B. random strings after a valid SOI / SOC prefix -> every entry point of the family, some to all
	for _, fam := range []string{famJPEG, famJLS, famJ2K} {
		es := entriesOf(fam, -1)
		if fam == famJLS {
			es = append(es, entriesOf(famJPEG, 0)...)
		}
		for k := 0; k < pc.randomPerFam; k++ {
			m := randomAfterPrefix(fam, rng)
			e := es[k%len(es)]
			var f *FI
			if e.Codec {
				ff := fiFor(rng.Pick(1, 4, 16), rng.Pick(1, 4, 16), rng.Pick(1, 3), rng.Pick(8, 12, 16), false)
				f = &ff
			}
			cases = append(cases, Case{Entry: e.Name, Data: m.data, FI: f, Seed: "-", Mut: m.mut, Fam: fam})
		}
	}
	// C. splices of two valid streams (same family mostly)
	for k := 0; k < pc.splices; k++ {
		a := seeds[rng.Intn(len(seeds))]
		var b *Seed
		if rng.Intn(4) > 0 {
			l := bySeedFam[a.Fam]
			b = l[rng.Intn(len(l))]
		} else {
			b = seeds[rng.Intn(len(seeds))]
		}
		emit(a, splice(a.Data, b.Data, a.HdrLen, b.HdrLen, rng), 0, nil)
	}
	// D. RLE with arbitrary FrameInfo (zeros, huge values, wrap of BitsAllocated-1) on valid,
	// corrupted and random data
	rleSeeds := bySeedFam[famRLE]
	for k := 0; k < pc.rleFI; k++ {
		var data []byte
		switch {
		case len(rleSeeds) > 0 && k%3 != 2:
			s := rleSeeds[rng.Intn(len(rleSeeds))]
			data = s.Data
			if k%3 == 1 {
				data = havoc(data, rng, 64).data
			}
		default:
			data = make([]byte, rng.Pick(1, 4, 63, 64, 65, 80, 200))
			for i := range data {
				data[i] = byte(rng.Pick(0, 1, 2, 3, 64, 0xFF, rng.Intn(256)))
			}
		}
		f := arbitraryFI(rng, k)
		cases = append(cases, Case{Entry: "codec[RLE].Decode", Data: data, FI: &f, Seed: "-", Mut: "rle-frameinfo", Fam: famRLE})
	}
	return cases
}

var fiEdge16 = []int{0, 1, 2, 3, 7, 8, 9, 15, 16, 17, 24, 31, 32, 33, 64, 255, 256, 4096, 32767, 32768, 65534, 65535}

func arbitraryFI(rng *Rand, k int) FI {
	pick := func() uint16 {
		if rng.Intn(4) == 0 {
			return uint16(rng.Intn(65536))
		}
		return uint16(fiEdge16[rng.Intn(len(fiEdge16))])
	}
	f := FI{W: pick(), H: pick(), BA: pick(), BS: pick(), HB: pick(), SPP: pick(), PR: uint16(rng.Pick(0, 1, 2, 65535)), PC: uint16(rng.Pick(0, 1, 2, 65535)), Frames: 1}
	switch k % 8 {
	case 0: // the known extreme
		f.W, f.H, f.SPP, f.BA = 65535, 65535, 65535, 0
	case 1: // small image, wrapped BitsAllocated
		f.W, f.H, f.SPP, f.BA = uint16(rng.Pick(1, 4, 16)), uint16(rng.Pick(1, 4, 16)), uint16(rng.Pick(1, 3)), 0
	case 2: // plausible
		f.W, f.H, f.SPP, f.BA = uint16(rng.Pick(1, 4, 16, 17)), uint16(rng.Pick(1, 3, 16, 9)), uint16(rng.Pick(1, 3)), uint16(rng.Pick(8, 16))
	case 3: // zero sized
		f.W, f.H = uint16(rng.Pick(0, 1)), uint16(rng.Pick(0, 1))
		f.SPP, f.BA = uint16(rng.Pick(0, 1, 3)), uint16(rng.Pick(0, 8, 16))
	case 4: // many segments
		f.W, f.H, f.SPP, f.BA = 1, 1, uint16(rng.Pick(4, 5, 15, 16, 255)), uint16(rng.Pick(8, 16, 32, 64, 128))
	}
	f.NilParams = rng.Intn(4) == 0
	return f
}

// mismatchFIs: frame descriptions that do not match the stream.
func mismatchFIs(fi FI, rng *Rand) []FI {
	var out []FI
	a := fi
	a.W++
	out = append(out, a)
	a = fi
	a.SPP = uint16(rng.Pick(0, 1, 3, 4, 65535))
	out = append(out, a)
	a = fi
	a.BA, a.BS, a.HB = uint16(rng.Pick(0, 1, 8, 16, 32, 65535)), uint16(rng.Pick(0, 1, 8, 12, 16, 33)), uint16(rng.Pick(0, 7, 15, 65535))
	out = append(out, a)
	out = append(out, FI{Frames: 1})                             // all zero
	out = append(out, FI{Nil: true, Frames: 1})                  // nil FrameInfo
	out = append(out, FI{Nil: true, Frames: 1, NilParams: true}) // nil FrameInfo, nil parameters
	a = fi
	a.NilParams = true
	out = append(out, a)
	a = fi
	a.Frames = 0
	out = append(out, a)
	a = fi
	a.Frames = 2
	a.PR, a.PC = 1, 1
	out = append(out, a)
	a = arbitraryFI(rng, 5)
	out = append(out, a)
	return out
}

// ---------------------------------------------------------------------------------------

type sigHit struct {
	sig   string
	c     Case
	r     Res
	count int
}

type runState struct {
	brake        *brake
	doneKeys     map[string]bool // confirmation keys already confirmed (no further isolated re-runs for them)
	confirmSpent time.Duration
	hits         map[string]*sigHit
	timeouts     map[string]int // per entry|mut: timeouts so far (to stop paying 10 s per case of a hanging class)
	nTimeout     int
}

func caseInput(c *Case, r *Res) map[string]interface{} {
	m := map[string]interface{}{"entry": c.Entry, "hex": hexs(c.Data), "fi": c.FI.String(), "len": len(c.Data), "seed": c.Seed, "mutator": c.Mut}
	if r != nil {
		m["status"] = r.Status
		m["detail"] = clipStr(r.Detail, 300)
		m["ms"] = r.Ms
		m["peak_heap"] = r.Peak
	}
	return m
}

// c08Sig: the C08 oracle on one result. "" = property holds on this case.
func c08Sig(c *Case, r *Res) (sig, what, note string) {
	switch r.Status {
	case "panic":
		class, site, loc, msg := r.panicParts()
		return c.Entry + ":panic:" + class + ":" + site, "Go panic: " + msg + " at " + loc, ""
	case "crash":
		class, site, loc, msg := r.panicParts()
		if class == "out-of-memory" {
			if _, ok := inDomain(c); !ok {
				return "", "", "oom-on-huge-declared-image" // legitimately huge declared image under the harness address-space limit
			}
		}
		return c.Entry + ":panic:fatal-" + class + ":" + site, "process aborted: " + msg + " at " + loc, ""
	case "timeout":
		return "", "", "timeout(reported-by-C09)"
	}
	return "", "", ""
}

// thin keeps the estimated total decode time of the expensive cases (>= 3 ms) within
// budgetMs by dropping a random subset of them; at least 3 cases of every
// (entry point, mutator) pair survive. The case list must already be shuffled.
func thin(cs []Case, budgetMs int64, rng *Rand) (kept []Case, dropped int) {
	var total int64
	for i := range cs {
		if cs[i].Cost >= 2 {
			total += cs[i].Cost
		}
	}
	if total <= budgetMs {
		return cs, 0
	}
	p := float64(budgetMs) / float64(total)
	seen := map[string]int{}
	for i := range cs {
		if cs[i].Cost >= 2 && cs[i].Mut != "valid" && !strings.HasPrefix(cs[i].Mut, "pair.") && !strings.HasPrefix(cs[i].Mut, "work.") { // valid corpus streams and the paired-field mutants are never dropped
			k := cs[i].Entry + "|" + cs[i].Mut
			seen[k]++
			minKeep := 3
			if cs[i].Cost >= 1000 {
				minKeep = 1 // very expensive cases (seconds each): one per (entry point, mutator)
			}
			if seen[k] > minKeep && float64(rng.U64()>>11)/float64(1<<53) > p {
				dropped++
				continue
			}
		}
		kept = append(kept, cs[i])
	}
	return kept, dropped
}

func shuffle(cs []Case, rng *Rand) {
	for i := len(cs) - 1; i > 0; i-- {
		j := rng.Intn(i + 1)
		cs[i], cs[j] = cs[j], cs[i]
	}
}

// execute runs the cases in waves (so that classes that keep timing out are abandoned
// after a few 10 s penalties) and feeds each result to `on`.
func execute(c *Ctx, cases []Case, st *runState, confirm bool, on func(cs *Case, r *Res, kinds []string)) {
	if st.brake == nil {
		st.brake = newBrake()
	}
	cfg := runCfg{Workers: c.Work, Timeout: watchdog, ASLimit: asLimit, NoHeap: !confirm, Skip: st.brake.skip, Note: st.brake.note}
	if confirm {
		// C09: the wall watchdog alone does not kill a case that has not had its CPU budget yet (busy machine);
		// three watchdog periods of wall time are the limit
		cfg.CPUNeed = func(c *Case) int64 { s, _ := inDomain(c); return cpuBudgetUs(c, s) }
		cfg.WallCap = 3 * watchdog
	}
	if os.Getenv("PARSERS_VERBOSE") != "" {
		cnt := map[string]int{}
		for i := range cases {
			cnt[cases[i].Mut]++
			cnt["fam."+cases[i].Fam]++
		}
		fmt.Fprintf(os.Stderr, "[parsers] plan: %d cases %v\n", len(cases), cnt)
	}
	if v := os.Getenv("PARSERS_MUTPREFIX"); v != "" { // development aid
		var keep []Case
		for i := range cases {
			if strings.HasPrefix(cases[i].Mut, v) {
				keep = append(keep, cases[i])
			}
		}
		cases = keep
	}
	if v := os.Getenv("PARSERS_ONLY"); v != "" { // calibration aid: only the cases listed in a record file (entry, S, len, mutator, seed)
		want := map[string]bool{}
		if b, err := os.ReadFile(v); err == nil {
			for _, l := range strings.Split(string(b), "\n") {
				f := strings.Split(l, "\t")
				if len(f) >= 10 {
					want[f[0]+"|"+f[1]+"|"+f[2]+"|"+f[8]+"|"+f[9]] = true
				}
			}
		}
		var keep []Case
		for i := range cases {
			s, _ := inDomain(&cases[i])
			if want[fmt.Sprintf("%s|%d|%d|%s|%s", cases[i].Entry, s, len(cases[i].Data), cases[i].Mut, cases[i].Seed)] {
				keep = append(keep, cases[i])
			}
		}
		cases = keep
		if w, err := strconv.Atoi(os.Getenv("PARSERS_ISO_WORKERS")); err == nil && w > 0 {
			cfg.Workers = w
		}
	}
	if v := os.Getenv("PARSERS_FAM"); v != "" { // development aid
		var keep []Case
		for i := range cases {
			if cases[i].Fam == v {
				keep = append(keep, cases[i])
			}
		}
		cases = keep
	}
	if v := os.Getenv("PARSERS_MAXCASES"); v != "" { // development aid
		var n int
		fmt.Sscan(v, &n)
		if n > 0 && n < len(cases) {
			cases = cases[:n]
		}
	}
	waves := 5
	per := len(cases)/waves + 1
	var deferred []Case // paused by the brake in the previous wave
	extra := 0
	for lo := 0; lo < len(cases) || len(deferred) > 0; lo += per {
		hi := min(lo+per, len(cases))
		if lo >= len(cases) {
			lo, hi = len(cases), len(cases)
			extra++
			if extra > 3 {
				for i := range deferred {
					st.brake.drop(&deferred[i])
					c.R.Case("", false, "skipped.brake")
				}
				break
			}
		}
		batch := deferred
		deferred = nil
		for i := lo; i < hi; i++ {
			k := cases[i].Entry + "|" + cases[i].Mut + "|" + cases[i].Seed
			if st.timeouts[k] >= 1 || st.timeouts[cases[i].Entry+"|"+cases[i].Mut] >= 2 || st.timeouts[cases[i].Fam+"|"+cases[i].Mut] >= 5 {
				c.R.Case("", false, "skipped.after-repeated-timeouts")
				continue
			}
			batch = append(batch, cases[i])
		}
		res := RunCases(cfg, batch)
		recordCalib(batch, res)
		kinds := make([][]string, len(batch))
		var again []int
		if confirm {
			again = confirmWave(c, st, batch, res, kinds)
		}
		st.brake.waveEnd(confirm)
		if os.Getenv("PARSERS_VERBOSE") != "" {
			fmt.Fprintf(os.Stderr, "[parsers] wave %d..%d of %d done, %d timeouts re-run, %d signatures so far\n", lo, hi, len(cases), len(again), len(st.hits))
		}
		if lf := os.Getenv("PARSERS_LOG"); lf != "" {
			if f, err := os.OpenFile(lf, os.O_APPEND|os.O_CREATE|os.O_WRONLY, 0o644); err == nil {
				for i := range batch {
					if os.Getenv("PARSERS_LOGALL") != "" || res[i].Status != "ok" && res[i].Status != "err" || res[i].Ms > 1000 || res[i].Peak > 256<<20 {
						fmt.Fprintf(f, "%s\t%d ms\t%d MiB\t%s\t%s\t%s\t%s\t%s\t%s\n", res[i].Status, res[i].Ms, res[i].Peak>>20, batch[i].Entry, batch[i].Mut, batch[i].Seed, clipStr(res[i].Detail, 200), batch[i].FI.String(), clipStr(hexs(batch[i].Data), 400))
					}
				}
				f.Close()
			}
		}
		for i := range batch {
			if res[i].Status == "timeout" {
				st.timeouts[batch[i].Entry+"|"+batch[i].Mut+"|"+batch[i].Seed]++
				st.timeouts[batch[i].Entry+"|"+batch[i].Mut]++
				st.timeouts[batch[i].Fam+"|"+batch[i].Mut]++
				st.nTimeout++
			}
			if res[i].Status == "skipped" {
				if res[i].Detail == "paused" {
					deferred = append(deferred, batch[i])
				} else {
					c.R.Case("", false, "skipped.brake")
				}
				continue
			}
			on(&batch[i], &res[i], kinds[i])
		}
	}
}

// isolatedCfg: one child; a case is not given up before it had its CPU budget (or 180 s of wall time).
func isolatedCfg() runCfg {
	return runCfg{Workers: 1, Timeout: watchdog, ASLimit: asLimit, WallCap: 180 * time.Second,
		CPUNeed: func(c *Case) int64 { s, _ := inDomain(c); return cpuBudgetUs(c, s) }}
}

// confirmWave: every budget / watchdog candidate of the wave must reproduce IN ISOLATION (one child,
// nothing else of this run active, CPU-time based) before it counts. Per confirmation key (entry
// point and kind; heap: and allocation site) the smallest candidate is re-run, a second one when the
// first did not reproduce. kinds[i] receives the confirmed kinds; the result of a confirmed case
// is replaced by the isolated one. Returns the indices re-run.
func confirmWave(c *Ctx, st *runState, batch []Case, res []Res, kinds [][]string) []int {
	type cand struct {
		i         int
		kind, key string
	}
	var cands []cand
	for i := range batch {
		s, _ := inDomain(&batch[i])
		for _, k := range c09Kinds(&batch[i], &res[i], s) {
			if k == kOOM || k == kStack { // the address-space limit is per process: deterministic, no re-run needed
				kinds[i] = append(kinds[i], k)
				continue
			}
			cands = append(cands, cand{i, k, confirmKey(&batch[i], &res[i], k)})
		}
	}
	if len(cands) == 0 {
		return nil
	}
	// cheapest confirmation first: smallest CPU budget, then shortest input
	bud := func(i int) int64 { s, _ := inDomain(&batch[i]); return cpuBudgetUs(&batch[i], s) }
	sort.SliceStable(cands, func(a, b int) bool {
		ba, bb := bud(cands[a].i), bud(cands[b].i)
		if ba != bb {
			return ba < bb
		}
		return len(batch[cands[a].i].Data) < len(batch[cands[b].i].Data)
	})
	limit := 240 * time.Second
	if c.Thor {
		limit = 1200 * time.Second
	}
	tried := map[string]int{}
	isolated := map[int]*Res{}
	var rerun []int
	for round := 0; round < 2; round++ {
		var pick []cand
		for _, cd := range cands {
			if st.doneKeys[cd.key] || tried[cd.key] != round {
				continue
			}
			if st.confirmSpent > limit {
				c.R.Case("", false, "budget.candidate-not-rerun.confirmation-time-exhausted")
				continue
			}
			tried[cd.key] = round + 1
			pick = append(pick, cd)
		}
		var cs2 []Case
		var idx []int
		for _, cd := range pick {
			if isolated[cd.i] == nil {
				isolated[cd.i] = &Res{}
				cs2 = append(cs2, batch[cd.i])
				idx = append(idx, cd.i)
			}
		}
		t0 := time.Now()
		r2 := RunCases(isolatedCfg(), cs2)
		st.confirmSpent += time.Since(t0)
		for k, i := range idx {
			*isolated[i] = r2[k]
			rerun = append(rerun, i)
		}
		for _, cd := range pick {
			s, _ := inDomain(&batch[cd.i])
			r := isolated[cd.i]
			if r.Status == "" {
				continue
			}
			k2 := confirmedKind(&batch[cd.i], r, s, cd.kind)
			if k2 == "" && r.Status == "crash" { // the isolated run, left running longer, ended in a fatal error of the runtime
				for _, k := range c09Kinds(&batch[cd.i], r, s) {
					k2 = k
				}
			}
			if k2 != "" {
				st.doneKeys[cd.key] = true
				kinds[cd.i] = append(kinds[cd.i], k2)
				if r.Over == "" {
					r.Over = res[cd.i].Over
				}
				sig, _ := c09SigOf(&batch[cd.i], r, s, k2)
				st.brake.confirm(sig, batch[cd.i].Entry)
			} else {
				c.R.Case("", false, "budget.candidate-not-reproduced-in-isolation."+cd.kind)
				if os.Getenv("PARSERS_VERBOSE") != "" {
					fmt.Fprintf(os.Stderr, "[parsers] not reproduced: %s %s %s S=%d len=%d wave: %s cpu=%dus peak=%d  isolated: %s cpu=%dus peak=%d\n", cd.kind, batch[cd.i].Entry, batch[cd.i].Mut, s, len(batch[cd.i].Data),
						res[cd.i].Status, res[cd.i].CPUus, res[cd.i].Peak, r.Status, r.CPUus, r.Peak)
				}
			}
		}
	}
	for i, r := range isolated {
		if len(kinds[i]) > 0 && r.Status != "" {
			res[i] = *r
		}
	}
	return rerun
}

func (st *runState) hit(sig string, cs *Case, r *Res) {
	h := st.hits[sig]
	if h == nil {
		st.hits[sig] = &sigHit{sig: sig, c: *cs, r: *r, count: 1}
		return
	}
	h.count++
	if len(cs.Data) < len(h.c.Data) {
		h.c, h.r = *cs, *r
	}
}

// shrink: truncate / zero bytes while the same signature persists. sigOf evaluates one result.
func shrink(c *Ctx, h *sigHit, sigOf func(cs *Case, r *Res) string, budgetRuns int) {
	cfg := runCfg{Workers: c.Work, Timeout: watchdog, ASLimit: asLimit}
	slow := h.r.Status == "timeout" || h.r.Ms > 2000
	if slow {
		budgetRuns = min(budgetRuns, 2*c.Work)
	}
	runs := 0
	tryAll := func(cands [][]byte) int { // returns index of the first (smallest-first ordering by caller) candidate that keeps the signature
		cs := make([]Case, len(cands))
		for i, d := range cands {
			cs[i] = h.c
			cs[i].Data = d
		}
		res := RunCases(cfg, cs)
		runs += len(cs)
		for i := range cs {
			if sigOf(&cs[i], &res[i]) == h.sig {
				h.r = res[i]
				return i
			}
		}
		return -1
	}
	// 1. shortest prefix that keeps the signature
	for runs < budgetRuns {
		n := len(h.c.Data)
		if n == 0 {
			break
		}
		var cands [][]byte
		if n <= 4*c.Work || slow {
			step := 1
			if slow {
				step = max(1, n/c.Work)
			}
			for l := 0; l < n; l += step {
				cands = append(cands, clone(h.c.Data[:l]))
			}
		} else {
			for k := 0; k < 4*c.Work; k++ {
				cands = append(cands, clone(h.c.Data[:n*k/(4*c.Work)]))
			}
		}
		i := tryAll(cands)
		if i < 0 {
			break
		}
		done := len(cands[i]) >= n-1 || n <= 4*c.Work
		h.c.Data = cands[i]
		if done {
			break
		}
	}
	// 2. remove interior chunks (whole segments often are irrelevant)
	for chunk := len(h.c.Data) / 2; chunk >= 1 && runs < budgetRuns && !slow; chunk /= 2 {
		for {
			var cands [][]byte
			for off := 0; off+chunk <= len(h.c.Data) && len(cands) < 8*c.Work; off += chunk {
				cands = append(cands, append(clone(h.c.Data[:off]), h.c.Data[off+chunk:]...))
			}
			if len(cands) == 0 || runs >= budgetRuns {
				break
			}
			i := tryAll(cands)
			if i < 0 {
				break
			}
			h.c.Data = cands[i]
		}
	}
	// 3. zero bytes
	if !slow && len(h.c.Data) <= 512 {
		var idx []int
		var cands [][]byte
		for i, v := range h.c.Data {
			if v != 0 {
				d := clone(h.c.Data)
				d[i] = 0
				cands = append(cands, d)
				idx = append(idx, i)
			}
		}
		if len(cands) > 0 && runs+len(cands) <= budgetRuns+512 {
			cs := make([]Case, len(cands))
			for i, d := range cands {
				cs[i] = h.c
				cs[i].Data = d
			}
			res := RunCases(cfg, cs)
			cur := clone(h.c.Data)
			for i := range cs {
				if sigOf(&cs[i], &res[i]) == h.sig {
					cur[idx[i]] = 0
				}
			}
			// zeroing is not independent: verify the combination, else keep the original
			v := h.c
			v.Data = cur
			r := RunCases(cfg, []Case{v})
			if sigOf(&v, &r[0]) == h.sig {
				h.c.Data, h.r = cur, r[0]
			}
		}
	}
}

func sortedHits(st *runState) []*sigHit {
	var hs []*sigHit
	for _, h := range st.hits {
		hs = append(hs, h)
	}
	sort.Slice(hs, func(i, j int) bool { return hs[i].sig < hs[j].sig })
	return hs
}

// rootOf strips the entry point from a signature: the defect class + site.
func rootOf(sig string) string {
	if i := strings.Index(sig, ":panic:"); i >= 0 {
		return sig[i+1:]
	}
	if i := strings.Index(sig, ":mem:"); i >= 0 {
		return sig[i+1:]
	}
	if i := strings.Index(sig, ":timeout"); i >= 0 {
		return sig // timeouts have no site: keep per entry point
	}
	return sig
}

// writeFindings appends a digest of this run's distinct failures to .work/parsers-<prop>-last.md
func writeFindings(prop, tier string, hs []*sigHit, whatOf map[string]string) {
	type root struct {
		entries []string
		best    *sigHit
	}
	roots := map[string]*root{}
	for _, h := range hs {
		k := rootOf(h.sig)
		r := roots[k]
		if r == nil {
			r = &root{}
			roots[k] = r
		}
		r.entries = append(r.entries, h.c.Entry)
		if r.best == nil || len(h.c.Data) < len(r.best.c.Data) {
			r.best = h
		}
	}
	var keys []string
	for k := range roots {
		keys = append(keys, k)
	}
	sort.Strings(keys)
	var sb strings.Builder
	fmt.Fprintf(&sb, "# %s (%s tier): %d distinct signatures, %d distinct roots (class:site)\n\n", prop, tier, len(hs), len(keys))
	for _, k := range keys {
		r := roots[k]
		sort.Strings(r.entries)
		fmt.Fprintf(&sb, "## %s\n- entry points: %s\n- what: %s\n- minimal input (%d bytes) for %s fi=%s:\n  `%s`\n\n", k, strings.Join(r.entries, ", "),
			whatOf[r.best.sig], len(r.best.c.Data), r.best.c.Entry, r.best.c.FI.String(), hexs(r.best.c.Data))
	}
	_ = os.MkdirAll("/verif/.work", 0o755)
	_ = os.WriteFile(fmt.Sprintf("/verif/.work/parsers-%s-%s-last.md", prop, tier), []byte(sb.String()), 0o644)
}

func loadReplay(path, prop string) []Case {
	b, err := os.ReadFile(path)
	if err != nil {
		return nil
	}
	var doc struct {
		Failures []struct {
			Suite string                 `json:"suite"`
			Input map[string]interface{} `json:"input"`
		} `json:"failures"`
	}
	if json.Unmarshal(b, &doc) != nil {
		return nil
	}
	var out []Case
	for _, f := range doc.Failures {
		e, _ := f.Input["entry"].(string)
		hx, _ := f.Input["hex"].(string)
		fi, _ := f.Input["fi"].(string)
		if entryByName[e] == nil {
			continue
		}
		out = append(out, Case{Entry: e, Data: unhex(hx), FI: parseFI(fi), Seed: "replay", Mut: "replay", Fam: entryByName[e].Fam})
	}
	return out
}

var (
	costByClass = map[string][2]int64{}
)

func dumpCost() {
	if os.Getenv("PARSERS_VERBOSE") == "" {
		return
	}
	type kv struct {
		k string
		v [2]int64
	}
	var l []kv
	for k, v := range costByClass {
		l = append(l, kv{k, v})
	}
	sort.Slice(l, func(i, j int) bool { return l[i].v[0] > l[j].v[0] })
	for i, e := range l {
		if i < 70 {
			fmt.Fprintf(os.Stderr, "[parsers] cost %-50s %8d ms over %7d cases\n", e.k, e.v[0], e.v[1])
		}
	}
	costByClass = map[string][2]int64{}
}

func record(c *Ctx, cs *Case, r *Res) {
	k := cs.Fam + " " + cs.Mut + " " + r.Status
	v := costByClass[k]
	v[0] += r.Ms
	v[1]++
	costByClass[k] = v
	nontrivial := len(cs.Data) >= 2 && cs.Mut != "valid"
	c.R.Case(fmt.Sprintf("%s|%x|%s", cs.Entry, h64(cs.Data), cs.FI.String()), nontrivial,
		"mut."+cs.Mut, "entry."+cs.Entry, "status."+r.Status, "fam."+cs.Fam)
}

func entryTableNote() string {
	var names []string
	for _, e := range Entries {
		names = append(names, e.Name)
	}
	return fmt.Sprintf("%d entry points: %s", len(Entries), strings.Join(names, "; "))
}

func runC08(c *Ctx) {
	t0 := time.Now()
	c.R.Rule = "C08: every entry point of the table (6 package Decode functions, jpeg2000.Decoder with and without the HT block decoder, " +
		"Decode of the 14 registered codecs) on: valid streams from the library's encoders and /repo/test-data, truncation at every offset, " +
		"header byte x value, field-targeted corruption, structural edits, havoc mutation, random strings after SOI/SOC, splices, " +
		"mismatching and arbitrary FrameInfo (RLE: arbitrary incl. zeros and 65535). Runs in child processes under recover(); " +
		"failure = Go panic or fatal abort (out-of-memory abort counts only when the declared S <= 2^22 or nothing is declared). " +
		"non-trivial = a mutated input of >= 2 bytes"
	have, missing := RegisteredCodecs()
	c.R.Note("entry table: %s", entryTableNote())
	c.R.Note("registered codecs: %v missing: %v", have, missing)
	if len(missing) > 0 {
		c.R.Fail("oracle", "c08", "registry:missing-codec", fmt.Sprintf("codecs not registered: %v", missing), nil)
	}
	st := &runState{hits: map[string]*sigHit{}, timeouts: map[string]int{}, doneKeys: map[string]bool{}}
	whatOf := map[string]string{}
	notes := map[string]int{}
	home0 := map[string]string{}
	on := func(cs *Case, r *Res, _ []string) {
		record(c, cs, r)
		c.R.Oracle("c08." + cs.Entry)
		if cs.Mut == "valid" && home0[cs.Seed] == cs.Entry && r.Status != "ok" {
			notes["valid-corpus-stream-not-decoded:"+cs.Seed+":"+r.Status]++
		}
		sig, what, note := c08Sig(cs, r)
		if note != "" {
			notes[note]++
		}
		if sig != "" {
			st.hit(sig, cs, r)
			whatOf[sig] = what
		}
	}
	var cases []Case
	if c.Replay != "" {
		cases = loadReplay(c.Replay, "C08")
		c.R.Note("replay of %d recorded inputs from %s", len(cases), c.Replay)
	} else {
		seeds, ns := BuildCorpus(c.Rng.Fork(), c.Thor)
		for _, s := range seeds {
			home0[s.Name] = s.Home[0]
		}
		if os.Getenv("PARSERS_VERBOSE") != "" {
			fmt.Fprintf(os.Stderr, "[parsers] corpus built: %d seeds, %.1fs\n", len(seeds), time.Since(t0).Seconds())
		}
		for _, n := range ns {
			c.R.Note("%s", n)
		}
		slow := 0
		for _, s := range seeds {
			if s.CostMs >= 40 {
				slow++
			}
		}
		c.R.Note("seed corpus: %d valid streams (%d with an estimated decode cost >= 40 ms get thinned mutation sets)", len(seeds), slow)
		pc := planCfg{thorough: c.Thor, byteValPer: 60, havocPer: 30, randomPerFam: 1500, splices: 1200, rleFI: 1500, denseTrunc: 600}
		if c.Thor {
			pc.byteValPer, pc.havocPer, pc.randomPerFam, pc.splices, pc.rleFI, pc.denseTrunc = 1500, 600, 60000, 60000, 40000, 3000
		}
		runCorr(c, seeds)
		if os.Getenv("PARSERS_ONLYCORR") != "" { // development aid
			return
		}
		cases = plan(c, seeds, pc)
		shuffle(cases, c.Rng.Fork())
		budget := int64(16) * 15_000 // ms of estimated decode time: quick tier
		if c.Thor {
			budget = int64(16) * 600_000
		}
		var dropped int
		cases, dropped = thin(cases, budget, c.Rng.Fork())
		c.R.Note("C08 plan: %d cases (%d expensive cases dropped to fit the tier's time budget)", len(cases), dropped)
		for i := 0; i < 4 && i < len(seeds); i++ {
			s := seeds[(i*37)%len(seeds)]
			c.R.Sample(map[string]interface{}{"suite": "c08", "seed": s.Name, "len": len(s.Data), "hdr_len": s.HdrLen, "hex_prefix": hexs(s.Data[:min(48, len(s.Data))])})
		}
	}
	execute(c, cases, st, false, on)
	dumpCost()
	if os.Getenv("PARSERS_VERBOSE") != "" {
		fmt.Fprintf(os.Stderr, "[parsers] search done %.1fs\n", time.Since(t0).Seconds())
	}
	hs := sortedHits(st)
	// shrink one representative per root (class:site), then re-use nothing else: every signature keeps its own smallest input
	doneRoot := map[string]bool{}
	for _, h := range hs {
		k := rootOf(h.sig)
		budget := 16
		if !doneRoot[k] {
			budget = 160
			doneRoot[k] = true
		}
		if c.Thor {
			budget *= 3
		}
		shrink(c, h, func(cs *Case, r *Res) string { s, _, _ := c08Sig(cs, r); return s }, budget)
	}
	for _, h := range hs {
		c.R.Fail("oracle", "c08", h.sig, fmt.Sprintf("%s (%d cases with this signature)", whatOf[h.sig], h.count), caseInput(&h.c, &h.r))
	}
	for k, v := range notes {
		c.R.Note("%s: %d cases", k, v)
	}
	writeFindings("C08", c.Tier, hs, whatOf)
	if bs, n := st.brake.summary(); n > 0 {
		c.R.Note("C08 brake: %s", bs)
	}
	c.R.Note("C08 search: %d cases, %d timeouts, %d distinct failure signatures, %.1fs", len(cases), st.nTimeout, len(hs), time.Since(t0).Seconds())
}

// inflations: C09-specific mutants — declared sizes near the top of the domain with little data.
func inflations(s *Seed) []mutant {
	var out []mutant
	b := s.Data
	switch s.Fam {
	case famJPEG, famJLS:
		segs, _ := jpegSegments(b)
		for _, sg := range segs {
			if !isSOFMarker(sg.marker) || sg.plen < 6 {
				continue
			}
			nf := int(b[sg.payload+5])
			if nf == 0 {
				nf = 1
			}
			for _, wh := range [][2]int{{2048, 2048 / nf}, {65535, 64 / nf}, {64 / nf, 65535}, {1, 65535}, {65535, 1}, {1182, 1182}, {4096, 1024 / nf}} {
				if wh[0]*wh[1]*nf > maxDomainS || wh[0] <= 0 || wh[1] <= 0 {
					continue
				}
				c := clone(b)
				c[sg.payload+1], c[sg.payload+2] = byte(wh[1]>>8), byte(wh[1])
				c[sg.payload+3], c[sg.payload+4] = byte(wh[0]>>8), byte(wh[0])
				out = append(out, mutant{c, "inflate.dims"})
			}
			break
		}
	case famJ2K:
		segs, _ := j2kSegments(b)
		for _, sg := range segs {
			if sg.marker != 0x51 || sg.plen < 36 {
				continue
			}
			p := sg.payload
			cs := int(b[p+34])<<8 | int(b[p+35])
			if cs == 0 {
				cs = 1
			}
			put32 := func(c []byte, off int, v int) {
				c[off], c[off+1], c[off+2], c[off+3] = byte(v>>24), byte(v>>16), byte(v>>8), byte(v)
			}
			for _, wh := range [][2]int{{2048, 2048 / cs}, {1 << 20, 4 / min(cs, 4)}, {4 / min(cs, 4), 1 << 20}, {1182, 1182}, {65536, 64 / min(cs, 64)}} {
				if wh[0]*wh[1]*cs > maxDomainS || wh[0] <= 0 || wh[1] <= 0 {
					continue
				}
				for _, tile := range []int{0, 1, 2, 64} { // 0: one tile = image; else tile size
					c := clone(b)
					put32(c, p+2, wh[0])
					put32(c, p+6, wh[1])
					put32(c, p+10, 0)
					put32(c, p+14, 0)
					if tile == 0 {
						put32(c, p+18, wh[0])
						put32(c, p+22, wh[1])
					} else {
						put32(c, p+18, tile)
						put32(c, p+22, tile)
					}
					put32(c, p+26, 0)
					put32(c, p+30, 0)
					out = append(out, mutant{c, fmt.Sprintf("inflate.dims.tile%d", tile)})
				}
			}
			// many components on a small image: rewrite SIZ with Csiz = 16384 on 16x16
			for _, n := range []int{257, 1024, 16384} {
				side := 16
				for side*side*n > maxDomainS {
					side /= 2
				}
				seg := append([]byte{0xFF, 0x51, byte((38 + 3*n) >> 8), byte(38 + 3*n)}, b[p:p+34]...)
				put32(seg, 4+2, side)
				put32(seg, 4+6, side)
				put32(seg, 4+10, 0)
				put32(seg, 4+14, 0)
				put32(seg, 4+18, side)
				put32(seg, 4+22, side)
				put32(seg, 4+26, 0)
				put32(seg, 4+30, 0)
				seg = append(seg, byte(n>>8), byte(n))
				for k := 0; k < n; k++ {
					seg = append(seg, 7, 1, 1)
				}
				if 38+3*n <= 0xFFFF {
					c := append(append(clone(b[:sg.off]), seg...), b[sg.payload+sg.plen:]...)
					if len(c) <= maxInput {
						out = append(out, mutant{c, "inflate.csiz"})
					}
				}
			}
			break
		}
		// coding parameters that multiply work: layers 65535, levels 32, 1x1 precincts, tiny code blocks
		for _, sg := range segs {
			if sg.marker != 0x52 || sg.plen < 10 {
				continue
			}
			p := sg.payload
			c := clone(b)
			c[p+2], c[p+3] = 0xFF, 0xFF
			out = append(out, mutant{c, "inflate.layers"})
			c = clone(b)
			c[p+5] = 32
			out = append(out, mutant{c, "inflate.levels"})
			// explicit precincts of 1x1 at every resolution
			nl := int(b[p+5])
			seg := append([]byte{0xFF, 0x52, 0, byte(12 + nl + 1)}, b[p:p+10]...)
			seg[4] |= 1
			for k := 0; k <= nl; k++ {
				seg = append(seg, 0x00)
			}
			out = append(out, mutant{append(append(clone(b[:sg.off]), seg...), b[sg.payload+sg.plen:]...), "inflate.precinct1x1"})
			break
		}
	}
	return out
}

func runC09(c *Ctx) {
	t0 := time.Now()
	c.R.Rule = "C09: inputs <= 64 KiB whose first frame header (SOF/SIZ found by the independent walker; for codec[RLE] the FrameInfo) declares " +
		"S = w*h*comps <= 2^22 or nothing: each Decode call runs in a child process; violation = CPU time of the case (user+system, collection of its garbage included) " +
		"> cpu_budget(S, len), sampled peak heap growth > heap_budget(S, len), or fatal out-of-memory " +
		fmt.Sprintf("under RLIMIT_AS=%d MiB. ", asLimit>>20) +
		"Wall time is not judged: the 10 s watchdog is a kill switch that waits until the case has had its CPU budget (at most 30 s), and every candidate " +
		"(over budget, or killed) must reproduce in an isolated re-run on one child, judged by CPU time, before it is reported (signatures <entry>:cpu-budget, " +
		"<entry>:timeout = killed after the CPU budget was used up, <entry>:heap-budget:<site>, <entry>:mem:fatal-oom:<site>). " +
		"Brake: an entry point with 6 slow results is paused until the confirmations at the end of the wave, and stopped for the rest of the run when a time " +
		"signature of it is confirmed; with 6 distinct confirmed signatures all entry points having one are stopped. " + calibNote +
		"Cases: valid streams, truncations, field-targeted corruption, declared-size inflation up to S = 2^22, work multipliers " +
		"(layers 65535, levels 32, 1x1 precincts/tiles, Csiz 16384), havoc, random after SOI/SOC, arbitrary RLE FrameInfo. " +
		"non-trivial = a mutated input of >= 2 bytes inside the domain"
	c.R.Note("entry table: %s", entryTableNote())
	st := &runState{hits: map[string]*sigHit{}, timeouts: map[string]int{}, doneKeys: map[string]bool{}}
	whatOf := map[string]string{}
	var maxPeak uint64
	var maxMs int64
	var maxPeakAt, maxMsAt string
	var maxCPU int64
	var maxCPUAt string
	on := func(cs *Case, r *Res, kinds []string) {
		s, _ := inDomain(cs)
		record(c, cs, r)
		c.R.Oracle("c09." + cs.Entry)
		if r.Peak > maxPeak {
			maxPeak, maxPeakAt = r.Peak, cs.Entry+" "+cs.Mut+" "+cs.Seed
		}
		if r.Ms > maxMs && r.Status != "timeout" {
			maxMs, maxMsAt = r.Ms, cs.Entry+" "+cs.Mut+" "+cs.Seed
		}
		if r.CPUus > maxCPU && r.Status != "timeout" {
			maxCPU, maxCPUAt = r.CPUus, cs.Entry+" "+cs.Mut+" "+cs.Seed
		}
		for _, k := range kinds { // confirmed in isolation (execute / confirmWave)
			sig, what := c09SigOf(cs, r, s, k)
			st.hit(sig, cs, r)
			whatOf[sig] = what
		}
	}
	var cases []Case
	if c.Replay != "" {
		cases = loadReplay(c.Replay, "C09")
		c.R.Note("replay of %d recorded inputs from %s", len(cases), c.Replay)
	} else {
		seeds, _ := BuildCorpus(c.Rng.Fork(), c.Thor)
		pc := planCfg{thorough: c.Thor, forC09: true, byteValPer: 15, havocPer: 8, randomPerFam: 1500, splices: 800, rleFI: 1500, denseTrunc: 100}
		if c.Thor {
			pc.byteValPer, pc.havocPer, pc.randomPerFam, pc.splices, pc.rleFI, pc.denseTrunc = 600, 400, 20000, 20000, 20000, 1500
		}
		all := plan(c, seeds, pc)
		rng := c.Rng.Fork()
		rot := 0
		inflSeen := map[string]int{}
		for _, s := range seeds {
			icls := s.Name
			if i := strings.Index(icls, "-"); i > 0 {
				icls = icls[:i]
			}
			icls += fmt.Sprintf("/%d", s.FI.SPP)
			inflSeen[icls]++
			if !c.Thor && inflSeen[icls] > 2 {
				continue // quick tier: the first two streams of every (codec, components) class
			}
			for _, m := range inflations(s) {
				// the inflated header with the whole body, with a short body, and with no body
				bodies := [][]byte{m.data}
				if s.HdrLen < len(m.data) {
					d := SniffAny(m.data)
					_ = d
					hl := min(len(m.data), s.HdrLen+(len(m.data)-len(s.Data)))
					if hl > 0 && hl <= len(m.data) {
						bodies = append(bodies, clone(m.data[:hl]), clone(m.data[:min(len(m.data), hl+8)]))
						// body of 0xFF00.. / zeros / random of 4 KiB: keeps entropy decoders busy
						for _, fill := range []int{0, 1, 2} {
							bb := clone(m.data[:hl])
							for k := 0; k < 4096; k++ {
								switch fill {
								case 0:
									bb = append(bb, 0)
								case 1:
									bb = append(bb, byte(rng.Intn(255)))
								default:
									bb = append(bb, 0x55)
								}
							}
							bodies = append(bodies, bb)
						}
					}
				}
				for bi, d := range bodies {
					for hi, hn := range s.Home {
						if hi > 0 && (rot+bi+hi)%2 == 0 && !c.Thor {
							continue
						}
						e := entryByName[hn]
						var f *FI
						if e.Codec {
							ff := s.FI
							f = &ff
						}
						cst := s.CostMs
						if dd := SniffAny(d); dd.Found { // cost follows the INFLATED declaration
							n := int64(satMul3(dd.W, dd.H, dd.C))
							if s.Fam == famJ2K {
								cst = max(cst, 2+n/400)
							} else {
								cst = max(cst, 1+n/20000)
							}
						}
						all = append(all, Case{Entry: hn, Data: d, FI: f, Seed: s.Name, Mut: m.mut, Fam: s.Fam, Cost: cst})
					}
					rot++
				}
			}
		}
		// declared counts far larger than the data (work.go): systematic over the progression orders
		workSeen := map[string]int{}
		wrot := 0
		for _, s := range seeds {
			cls := s.Name
			if i := strings.Index(cls, "-"); i > 0 {
				cls = cls[:i]
			}
			cls += fmt.Sprintf("/%d", s.FI.SPP)
			var ms []mutant
			switch {
			case workSeedOK(s):
				workSeen[cls]++
				if workSeen[cls] <= 2 || c.Thor {
					ms = workMutantsJ2K(s, c.Thor, workSeen[cls] == 1 && s.FI.SPP == 1)
				}
				if workSeen[cls] == 1 && s.FI.SPP == 1 {
					ms = append(ms, workPacketMutants(s, c.Thor)...)
				}
			case (s.Fam == famJPEG || s.Fam == famJLS) && s.Small && !strings.HasPrefix(s.Name, "x"):
				workSeen[cls]++
				if workSeen[cls] <= 1 || c.Thor && workSeen[cls] <= 4 {
					ms = workMutantsScan(s, c.Thor)
				}
			}
			for _, m := range ms {
				names := []string{s.Home[0]}
				if len(s.Home) > 1 {
					names = append(names, s.Home[1+wrot%(len(s.Home)-1)])
					wrot++
				}
				for _, hn := range names {
					e := entryByName[hn]
					var f *FI
					if e.Codec {
						ff := s.FI
						f = &ff
					}
					all = append(all, Case{Entry: hn, Data: m.data, FI: f, Seed: s.Name, Mut: m.mut, Fam: s.Fam, Cost: 1})
				}
			}
		}
		// RLE: frame descriptions at the top of the domain
		for k := 0; k < 200; k++ {
			f := FI{W: uint16(rng.Pick(2048, 1024, 4096, 65535, 1)), SPP: uint16(rng.Pick(1, 3, 4)), BA: uint16(rng.Pick(0, 8, 16, 32, 65535)), Frames: 1, PC: uint16(rng.Intn(2))}
			f.H = uint16(min(65535, maxDomainS/(int(f.W)*int(f.SPP))))
			data := make([]byte, 64+rng.Intn(64))
			data[0] = byte(rng.Pick(1, 2, 3, 4, 6, 15))
			for i := 1; i < 16; i++ {
				data[4*i] = byte(rng.Pick(0, 64, 65, 70))
			}
			all = append(all, Case{Entry: "codec[RLE].Decode", Data: data, FI: &f, Seed: "-", Mut: "inflate.rle-frameinfo", Fam: famRLE})
		}
		outside := 0
		for i := range all {
			s, ok := inDomain(&all[i])
			if !ok {
				outside++
				continue
			}
			all[i].Budget = heapBudget(&all[i], s)
			cases = append(cases, all[i])
		}
		shuffle(cases, c.Rng.Fork())
		budget := int64(16) * 35_000
		if c.Thor {
			budget = int64(16) * 500_000
		}
		var dropped int
		cases, dropped = thin(cases, budget, c.Rng.Fork())
		c.R.Note("C09: %d generated cases, %d outside the domain (declared S > 2^22) dropped, %d expensive cases dropped to fit the tier's time budget", len(all), outside, dropped)
	}
	for i := range cases {
		if cases[i].Budget == 0 {
			s, _ := inDomain(&cases[i])
			cases[i].Budget = heapBudget(&cases[i], s)
		}
	}
	execute(c, cases, st, true, on)
	remeasureHeavy()
	dumpCost()
	hs := sortedHits(st)
	for _, h := range hs {
		if !strings.Contains(h.sig, ":heap-budget:") && !strings.Contains(h.sig, ":mem:") {
			continue // time signatures are reported exactly as confirmed in isolation (CPU time under parallel load is not comparable)
		}
		// memory signatures: shorten the input in parallel, then require the shortened input to reproduce in isolation
		orig, origR := h.c, h.r
		shrink(c, h, func(cs *Case, r *Res) string {
			s, ok := inDomain(cs)
			if !ok {
				return ""
			}
			for _, k := range c09Kinds(cs, r, s) {
				if k == kHeap || k == kOOM || k == kStack {
					if sg, _ := c09SigOf(cs, r, s, k); sg == h.sig {
						return sg
					}
				}
			}
			return ""
		}, 64)
		if len(h.c.Data) < len(orig.Data) {
			s, _ := inDomain(&h.c)
			h.c.Budget = heapBudget(&h.c, s)
			r2 := RunCases(isolatedCfg(), []Case{h.c})
			ok := false
			for _, k := range c09Kinds(&h.c, &r2[0], s) {
				if sg, what := c09SigOf(&h.c, &r2[0], s, k); sg == h.sig {
					ok, h.r = true, r2[0]
					whatOf[h.sig] = what
				}
			}
			if !ok {
				h.c, h.r = orig, origR
			}
		}
	}
	for _, h := range hs {
		c.R.Fail("oracle", "c09", h.sig, fmt.Sprintf("%s (%d cases with this signature)", whatOf[h.sig], h.count), caseInput(&h.c, &h.r))
	}
	writeFindings("C09", c.Tier, hs, whatOf)
	if bs, n := st.brake.summary(); n > 0 {
		c.R.Note("C09 brake: %s", bs)
	}
	c.R.Note("C09 search: %d cases in the domain, %d watchdog kills (before confirmation), %d distinct failure signatures, max peak heap growth %d KiB (%s), most CPU time of a completed case %d ms (%s), slowest completed case %d ms wall (%s), %.0f s spent on isolated confirmations, %.1fs",
		len(cases), st.nTimeout, len(hs), maxPeak>>10, maxPeakAt, maxCPU/1000, maxCPUAt, maxMs, maxMsAt, st.confirmSpent.Seconds(), time.Since(t0).Seconds())
}
