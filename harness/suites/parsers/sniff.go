// sniff.go: an independent, deliberately tiny walker over the marker syntax that finds the
// FIRST frame header of a stream (JPEG SOFn / JPEG-LS SOF55 / JPEG 2000 SIZ) and returns
// the declared sample count S = width*height*components. It never looks at anything but
// marker codes, segment lengths and the frame header fields. The same walk is modelled in
// coq/Parsers (prs_declared) and compared case by case in the correspondence run.
package parsers

// Declared describes what the first frame header says. Found=false: the stream declares nothing.
type Declared struct {
	Found   bool
	Kind    string // "sof" | "siz"
	W, H, C uint64
	Prec    int
	HdrEnd  int // offset just after the last header byte (after the SOS segment / SOD marker), 0 if unknown
}

func (d Declared) S() uint64 {
	if !d.Found {
		return 0
	}
	return d.W * d.H * d.C
}

func isSOFMarker(m byte) bool {
	return (m >= 0xC0 && m <= 0xCF && m != 0xC4 && m != 0xC8 && m != 0xCC) || m == 0xF7
}

// SniffJPEG is the Go twin of frame_declared (coq/Parsers/PrsOutcome.v): the first frame header
// of ANY kind (SOF0-3, 5-7, 9-11, 13-15, SOF55) met by a marker loop that skips other segments
// by their length and stops at SOS, EOI or when no marker can be read.
func SniffJPEG(b []byte) Declared {
	var d Declared
	readMarker := func(i int) (m byte, next int, ok bool) {
		if i >= len(b) || b[i] != 0xFF {
			return 0, 0, false
		}
		i++
		for i < len(b) && b[i] == 0xFF {
			i++
		}
		if i >= len(b) || b[i] == 0x00 {
			return 0, 0, false
		}
		return b[i], i + 1, true
	}
	m, i, ok := readMarker(0)
	if !ok || m != 0xD8 {
		return d
	}
	for {
		m, j, ok := readMarker(i)
		if !ok {
			return d
		}
		r := b[j:]
		segLen := func() int { // payload length by the length field alone (negative counts as 0)
			n := int(r[0])<<8 | int(r[1]) - 2
			if n < 0 {
				n = 0
			}
			return n
		}
		switch {
		case isSOFMarker(m):
			if len(r) < 2 {
				return d
			}
			p := r[2:]
			if n := segLen(); n < len(p) {
				p = p[:n]
			}
			if len(p) < 6 {
				return d
			}
			d.Found, d.Kind, d.Prec = true, "sof", int(p[0])
			d.H, d.W, d.C = uint64(p[1])<<8|uint64(p[2]), uint64(p[3])<<8|uint64(p[4]), uint64(p[5])
			return d
		case m == 0xDA || m == 0xD9:
			return d
		case m == 0xD8 || (m >= 0xD0 && m <= 0xD7): // no length
			i = j
		default:
			if len(r) < 2 {
				return d
			}
			n := segLen()
			if n > len(r)-2 {
				n = len(r) - 2
			}
			i = j + 2 + n
		}
	}
}

func be32(b []byte) uint64 {
	return uint64(b[0])<<24 | uint64(b[1])<<16 | uint64(b[2])<<8 | uint64(b[3])
}

// SniffJ2K reads SOC + SIZ of a 15444-1 codestream.
func SniffJ2K(b []byte) Declared {
	var d Declared
	if len(b) < 4 || b[0] != 0xFF || b[1] != 0x4F || b[2] != 0xFF || b[3] != 0x51 {
		return d
	}
	// Lsiz(2) Rsiz(2) Xsiz Ysiz XOsiz YOsiz XTsiz YTsiz XTOsiz YTOsiz (8*4) Csiz(2)
	if len(b) < 4+38 {
		return d
	}
	p := b[4:]
	xs, ys, xo, yo := be32(p[4:]), be32(p[8:]), be32(p[12:]), be32(p[16:])
	cs := uint64(p[36])<<8 | uint64(p[37])
	d.Found, d.Kind = true, "siz"
	// the decoder computes uint32(Xsiz - XOsiz); declare the same wrapped difference
	d.W, d.H, d.C = (xs-xo)&0xFFFFFFFF, (ys-yo)&0xFFFFFFFF, cs
	if len(b) >= 4+38+3 {
		d.Prec = int(p[38]&0x7F) + 1
	}
	// header end: first SOD marker found by walking segments
	i := 2
	for i+4 <= len(b) {
		if b[i] != 0xFF {
			break
		}
		m := b[i+1]
		if m == 0x93 {
			d.HdrEnd = i + 2
			break
		}
		if m == 0xD9 {
			break
		}
		l := int(b[i+2])<<8 | int(b[i+3])
		if l < 2 {
			break
		}
		i += 2 + l
	}
	return d
}

// SniffAny picks the walker by the first two bytes.
func SniffAny(b []byte) Declared {
	if len(b) >= 2 && b[0] == 0xFF && b[1] == 0x4F {
		return SniffJ2K(b)
	}
	return SniffJPEG(b)
}

// satMul3 multiplies with saturation (S can be up to 2^32*2^32*2^14).
func satMul3(a, b, c uint64) uint64 {
	const lim = uint64(1) << 62
	if a == 0 || b == 0 || c == 0 {
		return 0
	}
	if a > lim/b {
		return lim
	}
	ab := a * b
	if ab > lim/c {
		return lim
	}
	return ab * c
}

// DeclaredS is the saturating declared sample count of a case: for codec[RLE] the frame
// description plays the role of the header (the RLE stream itself declares no size).
func DeclaredS(c *Case) (s uint64, found bool) {
	if c.Entry == "codec[RLE].Decode" {
		if c.FI == nil || c.FI.Nil {
			return 0, false
		}
		return satMul3(uint64(c.FI.W), uint64(c.FI.H), uint64(c.FI.SPP)), true
	}
	d := SniffAny(c.Data)
	if !d.Found {
		return 0, false
	}
	return satMul3(d.W, d.H, d.C), true
}
