// corpus.go: seed corpus — valid streams produced at run time by the library's own encoders
// on small images of every codec / geometry class, plus the third-party fixtures under
// /repo/test-data (whole if <= 64 KiB, else a 64 KiB prefix).
package parsers

import (
	"fmt"
	"os"
	"path/filepath"
	"sort"
	"strings"

	dcodec "github.com/cocosip/go-dicom/pkg/imaging/codec"

	helpers "github.com/cocosip/go-dicom-codecs/codec"
	"github.com/cocosip/go-dicom-codecs/jpeg/baseline"
	"github.com/cocosip/go-dicom-codecs/jpeg/extended"
	jlossless "github.com/cocosip/go-dicom-codecs/jpeg/lossless"
	"github.com/cocosip/go-dicom-codecs/jpeg/lossless14sv1"
	"github.com/cocosip/go-dicom-codecs/jpeg2000"
	"github.com/cocosip/go-dicom-codecs/jpeg2000/htj2k"
	lslossless "github.com/cocosip/go-dicom-codecs/jpegls/lossless"
	lsnear "github.com/cocosip/go-dicom-codecs/jpegls/nearlossless"

	. "verif/harness/vhlib"
)

// Seed is one valid stream.
type Seed struct {
	Name   string
	Fam    string
	Home   []string // entry points this stream is meant for (package level first)
	Data   []byte
	FI     FI  // a frame description that matches the stream
	HdrLen int // bytes up to and including the last header byte before entropy-coded data
	Small  bool
	CostMs int64 // estimated decode cost (see estimateCost)
}

// estimateCost: a deterministic (timing independent) estimate of the decode cost in ms,
// from the family and the declared number of samples. Only used to thin the mutation sets
// of expensive streams so that a tier fits its time budget.
func estimateCost(s *Seed) int64 {
	n := int64(s.FI.W) * int64(s.FI.H) * int64(max(1, int(s.FI.SPP)))
	switch s.Fam {
	case famJ2K:
		return 2 + n/400
	default:
		return n / 20000
	}
}

const maxInput = 64 << 10

func makePixels(rng *Rand, w, h, comps, bits int, style int) []byte {
	n := w * h * comps
	bps := 1
	if bits > 8 {
		bps = 2
	}
	out := make([]byte, n*bps)
	mask := (1 << uint(bits)) - 1
	for i := 0; i < n; i++ {
		var v int
		switch style % 4 {
		case 0: // smooth gradient + small noise
			px := i / comps
			v = ((px%w)*mask/(w+1) + (px/w)*mask/(2*h+1) + rng.Intn(4)) & mask
		case 1: // noise
			v = int(rng.U64()) & mask
		case 2: // extremes
			v = rng.Pick(0, mask, mask/2, mask/2+1)
		default: // flat (long runs)
			v = (mask / 3) & mask
		}
		if bps == 1 {
			out[i] = byte(v)
		} else {
			out[2*i] = byte(v)
			out[2*i+1] = byte(v >> 8)
		}
	}
	return out
}

type geom struct{ w, h int }

var geoms = []geom{{1, 1}, {2, 2}, {3, 5}, {8, 8}, {9, 7}, {16, 16}, {17, 9}}

func fiFor(w, h, comps, bits int, signed bool) FI {
	ba := 8
	if bits > 8 {
		ba = 16
	}
	f := FI{W: uint16(w), H: uint16(h), BA: uint16(ba), BS: uint16(bits), HB: uint16(bits - 1), SPP: uint16(comps), Frames: 1}
	if signed {
		f.PR = 1
	}
	if comps == 3 {
		f.Photo = "RGB"
	} else {
		f.Photo = "MONOCHROME2"
	}
	return f
}

// BuildCorpus generates the seeds. thorough adds more geometry x parameter combinations.
func BuildCorpus(rng *Rand, thorough bool) (seeds []*Seed, notes []string) {
	add := func(name, fam string, home []string, data []byte, fi FI) {
		if len(data) == 0 {
			return
		}
		s := &Seed{Name: name, Fam: fam, Home: home, Data: data, FI: fi, Small: len(data) <= 1500}
		switch fam {
		case famJPEG, famJLS:
			s.HdrLen = hdrEndJPEG(data)
		case famJ2K:
			s.HdrLen = SniffJ2K(data).HdrEnd
		case famRLE:
			s.HdrLen = 64
		}
		if s.HdrLen <= 0 || s.HdrLen > len(data) {
			s.HdrLen = min(len(data), 64)
		}
		s.CostMs = estimateCost(s)
		seeds = append(seeds, s)
	}
	try := func(what string, f func() ([]byte, error)) []byte {
		var out []byte
		var err error
		p, msg := Safely(func() { out, err = f() })
		if p {
			notes = append(notes, "encoder panic while building corpus: "+what+": "+msg)
			return nil
		}
		if err != nil {
			return nil
		}
		return out
	}
	style := 0
	for gi, g := range geoms {
		for _, comps := range []int{1, 3} {
			style++
			// ---- JPEG baseline (8 bit)
			pix8 := makePixels(rng, g.w, g.h, comps, 8, style)
			for _, q := range []int{90, 25} {
				if q == 25 && !thorough && gi%3 != 0 {
					continue
				}
				d := try("baseline", func() ([]byte, error) { return baseline.Encode(pix8, g.w, g.h, comps, q) })
				add(fmt.Sprintf("baseline-%dx%dx%d-q%d", g.w, g.h, comps, q), famJPEG,
					[]string{"baseline.Decode", "codec[.50].Decode", "extended.Decode", "codec[.51].Decode"}, d, fiFor(g.w, g.h, comps, 8, false))
			}
			// ---- JPEG extended (8 and 12 bit)
			for _, bits := range []int{8, 12} {
				px := makePixels(rng, g.w, g.h, comps, bits, style+1)
				d := try("extended", func() ([]byte, error) { return extended.Encode(px, g.w, g.h, comps, bits, 85) })
				add(fmt.Sprintf("extended-%dx%dx%d-b%d", g.w, g.h, comps, bits), famJPEG,
					[]string{"extended.Decode", "codec[.51].Decode", "baseline.Decode"}, d, fiFor(g.w, g.h, comps, bits, false))
			}
			// ---- JPEG lossless (process 14, predictors 1..7) and SV1
			for bi, bits := range []int{8, 12, 16, 2, 15} {
				if !thorough && bi >= 3 && gi%2 == 1 {
					continue
				}
				px := makePixels(rng, g.w, g.h, comps, bits, style+bi)
				pred := 1 + (gi+bi+comps)%7
				d := try("lossless", func() ([]byte, error) { return jlossless.Encode(px, g.w, g.h, comps, bits, pred) })
				add(fmt.Sprintf("lossless-%dx%dx%d-b%d-p%d", g.w, g.h, comps, bits, pred), famJPEG,
					[]string{"lossless.Decode", "codec[.57].Decode", "lossless14sv1.Decode"}, d, fiFor(g.w, g.h, comps, bits, false))
				if bi < 3 || thorough {
					d = try("sv1", func() ([]byte, error) { return lossless14sv1.Encode(px, g.w, g.h, comps, bits) })
					add(fmt.Sprintf("sv1-%dx%dx%d-b%d", g.w, g.h, comps, bits), famJPEG,
						[]string{"lossless14sv1.Decode", "codec[.70].Decode", "lossless.Decode"}, d, fiFor(g.w, g.h, comps, bits, false))
				}
			}
			// ---- JPEG-LS lossless / near-lossless
			for bi, bits := range []int{8, 12, 16, 2} {
				if !thorough && bi == 3 && gi%2 == 1 {
					continue
				}
				px := makePixels(rng, g.w, g.h, comps, bits, style+bi+2)
				d := try("jls", func() ([]byte, error) { return lslossless.Encode(px, g.w, g.h, comps, bits) })
				add(fmt.Sprintf("jls-%dx%dx%d-b%d", g.w, g.h, comps, bits), famJLS,
					[]string{"jpegls/lossless.Decode", "codec[.80].Decode", "jpegls/nearlossless.Decode"}, d, fiFor(g.w, g.h, comps, bits, false))
				if bi < 3 {
					near := 1 + (gi+bi)%3
					d = try("jlsnear", func() ([]byte, error) { return lsnear.Encode(px, g.w, g.h, comps, bits, near) })
					add(fmt.Sprintf("jlsnear-%dx%dx%d-b%d-n%d", g.w, g.h, comps, bits, near), famJLS,
						[]string{"jpegls/nearlossless.Decode", "codec[.81].Decode", "jpegls/lossless.Decode"}, d, fiFor(g.w, g.h, comps, bits, false))
				}
			}
			// ---- JPEG 2000 (plain and HT), several coding parameter classes
			j2kHome := []string{"jpeg2000.Decoder.Decode", "codec[.90].Decode", "codec[.91].Decode", "jpeg2000.Decoder.Decode+HT"}
			htHome := []string{"jpeg2000.Decoder.Decode+HT", "codec[.201].Decode", "codec[.203].Decode", "jpeg2000.Decoder.Decode"}
			variant := 0
			for bi, bits := range []int{8, 12, 16} {
				for _, lossless := range []bool{true, false} {
					variant++
					if !thorough && (variant+gi)%3 != 0 {
						continue
					}
					signed := (variant+gi)%4 == 0
					px := makePixels(rng, g.w, g.h, comps, bits, style+bi)
					p := jpeg2000.DefaultEncodeParams(g.w, g.h, comps, bits, signed)
					p.Lossless = lossless
					p.NumLevels = []int{0, 1, 2, 5}[(variant+gi)%4]
					for (1<<uint(p.NumLevels)) > g.w || (1<<uint(p.NumLevels)) > g.h {
						p.NumLevels--
					}
					if p.NumLevels < 0 {
						p.NumLevels = 0
					}
					p.ProgressionOrder = uint8((variant + gi) % 5)
					if (variant+gi)%5 == 1 {
						p.NumLayers = 3
					}
					if (variant+gi)%4 == 2 && g.w >= 8 {
						p.TileWidth, p.TileHeight = 8, 8
					}
					if (variant+gi)%6 == 3 {
						p.PrecinctWidth, p.PrecinctHeight = 128, 128
					}
					if (variant+gi)%7 == 4 {
						p.CodeBlockWidth, p.CodeBlockHeight = 4, 4
					}
					d := try("j2k", func() ([]byte, error) { return jpeg2000.NewEncoder(p).Encode(px) })
					add(fmt.Sprintf("j2k-%dx%dx%d-b%d-%s-L%d-po%d-ly%d-t%d", g.w, g.h, comps, bits, map[bool]string{true: "rev", false: "irr"}[lossless],
						p.NumLevels, p.ProgressionOrder, p.NumLayers, p.TileWidth), famJ2K, j2kHome, d, fiFor(g.w, g.h, comps, bits, signed))
					// HT variant
					if variant%2 == 0 || thorough {
						q := *p
						q.HTJ2KMode = true
						q.ProgressionOrder = 2
						q.NumLayers = 1
						q.BlockEncoderFactory = func(w, h int) jpeg2000.BlockEncoder { return htj2k.NewHTEncoder(w, h) }
						d = try("htj2k", func() ([]byte, error) { return jpeg2000.NewEncoder(&q).Encode(px) })
						add(fmt.Sprintf("htj2k-%dx%dx%d-b%d-%s-L%d-t%d", g.w, g.h, comps, bits, map[bool]string{true: "rev", false: "irr"}[lossless],
							q.NumLevels, q.TileWidth), famJ2K, htHome, d, fiFor(g.w, g.h, comps, bits, signed))
					}
				}
			}
		}
	}
	// ---- extreme geometry, tiny stream: constant / near-constant images with one very long side.
	// They compress to a few dozen bytes, decode fast, stay inside the C09 domain (S <= 2^22) and
	// drive the decoders into states no small image reaches (e.g. JPEG-LS run index saturation
	// after 31 completed run segments needs a line of >= 32768 samples).
	flat := func(w, h, comps, bits int, near bool) []byte {
		bps := 1
		if bits > 8 {
			bps = 2
		}
		out := make([]byte, w*h*comps*bps)
		v := 0 // constant 0 is coded as pure run mode from the first sample (a 65535x2 image is 32 bytes)
		for i := 0; i < w*h*comps; i++ {
			x := v
			if near && (i == 7 || i == w*comps+3 || i%16001 == 16000) {
				x = v + 1 + i%3 // a few interruptions of the runs
			}
			if bps == 1 {
				out[i] = byte(x)
			} else {
				out[2*i], out[2*i+1] = byte(x), byte(x>>8)
			}
		}
		return out
	}
	for gi, g := range []geom{{32768, 2}, {40000, 3}, {65535, 2}, {65535, 1}, {1, 65535}} {
		for _, comps := range []int{1, 3} {
			for ni, nearConst := range []bool{false, true} {
				bits := 8
				if (gi+comps+ni)%4 == 0 {
					bits = 16
				}
				px := flat(g.w, g.h, comps, bits, nearConst)
				tag := fmt.Sprintf("%dx%dx%d-b%d-%s", g.w, g.h, comps, bits, map[bool]string{false: "const", true: "nearconst"}[nearConst])
				d := try("xjls", func() ([]byte, error) { return lslossless.Encode(px, g.w, g.h, comps, bits) })
				add("xjls-"+tag, famJLS, []string{"jpegls/lossless.Decode", "codec[.80].Decode", "jpegls/nearlossless.Decode", "codec[.81].Decode"}, d, fiFor(g.w, g.h, comps, bits, false))
				for _, near := range []int{0, 2} {
					d = try("xjlsnear", func() ([]byte, error) { return lsnear.Encode(px, g.w, g.h, comps, bits, near) })
					add(fmt.Sprintf("xjlsnear-%s-n%d", tag, near), famJLS, []string{"jpegls/nearlossless.Decode", "codec[.81].Decode", "jpegls/lossless.Decode"}, d, fiFor(g.w, g.h, comps, bits, false))
				}
			}
		}
	}
	// the same class as literal streams (output of the clean library encoders, 65535x2 constant 0):
	// they exercise the decoders even when the encoder of the tree under test is broken
	for _, fx := range []struct {
		name  string
		comps int
		home  string
		hx    string
	}{
		{"xfixjls-65535x2x1-const", 1, "jpegls/lossless.Decode", "ffd8fff7000b080002ffff01011100ffda0008010100000000ff7fff7ff0ffd9"},
		{"xfixjlsnear-65535x2x1-const-n2", 1, "jpegls/nearlossless.Decode", "ffd8fff7000b080002ffff01011100ffda0008010100020000ff7fff7ff0ffd9"},
		{"xfixjls-65535x2x3-const", 3, "jpegls/lossless.Decode", "ffd8fff70011080002ffff03011100021100031100ffda000c03010002000300000200ff7fff7ff0ffd9"},
		{"xfixjlsnear-65535x2x3-const-n2", 3, "jpegls/nearlossless.Decode", "ffd8fff70011080002ffff03011100021100031100ffda000c03010002000300020200ff7fff7ff0ffd9"},
	} {
		other := "jpegls/nearlossless.Decode"
		cdc, cdc2 := "codec[.80].Decode", "codec[.81].Decode"
		if fx.home == other {
			other, cdc, cdc2 = "jpegls/lossless.Decode", "codec[.81].Decode", "codec[.80].Decode"
		}
		add(fx.name, famJLS, []string{fx.home, cdc, other, cdc2}, unhex(fx.hx), fiFor(65535, 2, fx.comps, 8, false))
	}
	for _, g := range []geom{{65535, 1}, {1, 65535}} {
		px := flat(g.w, g.h, 1, 8, false)
		d := try("xlossless", func() ([]byte, error) { return jlossless.Encode(px, g.w, g.h, 1, 8, 1) })
		add(fmt.Sprintf("xlossless-%dx%dx1-b8-const", g.w, g.h), famJPEG, []string{"lossless.Decode", "codec[.57].Decode", "lossless14sv1.Decode"}, d, fiFor(g.w, g.h, 1, 8, false))
		d = try("xsv1", func() ([]byte, error) { return lossless14sv1.Encode(px, g.w, g.h, 1, 8) })
		add(fmt.Sprintf("xsv1-%dx%dx1-b8-const", g.w, g.h), famJPEG, []string{"lossless14sv1.Decode", "codec[.70].Decode", "lossless.Decode"}, d, fiFor(g.w, g.h, 1, 8, false))
		// RLE through its codec
		if c, ok := dcodec.GetGlobalRegistry().GetCodec(tsTable[0].ts()); ok {
			fi := fiFor(g.w, g.h, 1, 8, false)
			var out []byte
			p, msg := Safely(func() {
				src := helpers.NewTestPixelData(fi.frameInfo())
				_ = src.AddFrame(px)
				dst := helpers.NewTestPixelData(fi.frameInfo())
				if err := c.Encode(src, dst, c.GetDefaultParameters()); err == nil && dst.FrameCount() > 0 {
					out, _ = dst.GetFrame(0)
				}
			})
			if p {
				notes = append(notes, "encoder panic while building corpus: codec RLE extreme: "+msg)
			}
			add(fmt.Sprintf("xrle-%dx%dx1-b8-const", g.w, g.h), famRLE, []string{"codec[RLE].Decode"}, out, fi)
		}
	}
	{
		px := flat(65535, 8, 1, 8, false)
		d := try("xbaseline", func() ([]byte, error) { return baseline.Encode(px, 65535, 8, 1, 90) })
		add("xbaseline-65535x8x1-const", famJPEG, []string{"baseline.Decode", "codec[.50].Decode", "extended.Decode"}, d, fiFor(65535, 8, 1, 8, false))
	}
	for _, g := range []geom{{4096, 1}, {1, 4096}} {
		px := flat(g.w, g.h, 1, 8, false)
		p := jpeg2000.DefaultEncodeParams(g.w, g.h, 1, 8, false)
		p.NumLevels = 0
		d := try("xj2k", func() ([]byte, error) { return jpeg2000.NewEncoder(p).Encode(px) })
		add(fmt.Sprintf("xj2k-%dx%dx1-b8-rev-L0", g.w, g.h), famJ2K, []string{"jpeg2000.Decoder.Decode", "codec[.90].Decode", "jpeg2000.Decoder.Decode+HT"}, d, fiFor(g.w, g.h, 1, 8, false))
		q := *p
		q.HTJ2KMode, q.ProgressionOrder = true, 2
		q.BlockEncoderFactory = func(w, h int) jpeg2000.BlockEncoder { return htj2k.NewHTEncoder(w, h) }
		d = try("xhtj2k", func() ([]byte, error) { return jpeg2000.NewEncoder(&q).Encode(px) })
		add(fmt.Sprintf("xhtj2k-%dx%dx1-b8-rev-L0", g.w, g.h), famJ2K, []string{"jpeg2000.Decoder.Decode+HT", "codec[.201].Decode", "jpeg2000.Decoder.Decode"}, d, fiFor(g.w, g.h, 1, 8, false))
	}
	// ---- JPEG 2000 Part 2 multi-component streams (MCT / MCC / MCO marker segments)
	identity := func(n int) [][]float64 {
		m := make([][]float64, n)
		for i := range m {
			m[i] = make([]float64, n)
			m[i][i] = 1
		}
		return m
	}
	p2Home := []string{"jpeg2000.Decoder.Decode", "codec[.92].Decode", "codec[.93].Decode", "jpeg2000.Decoder.Decode+HT"}
	for gi, g := range []geom{{8, 8}, {5, 3}} {
		for _, comps := range []int{2, 3, 4} {
			ids := make([]uint16, comps)
			offs := make([]int32, comps)
			for i := range ids {
				ids[i], offs[i] = uint16(i), int32(i+1)
			}
			px := makePixels(rng, g.w, g.h, comps, 8, gi+comps)
			// lower-triangular integer matrix and its inverse (reversible)
			tri, triInv := identity(comps), identity(comps)
			tri[1][0], triInv[1][0] = 1, -1
			type variant struct {
				name string
				set  func(p *jpeg2000.EncodeParams)
			}
			vs := []variant{
				{"revint-off", func(p *jpeg2000.EncodeParams) {
					p.MCTBindings = []jpeg2000.MCTBindingParams{{ComponentIDs: ids, Matrix: tri, Inverse: triInv, Offsets: offs, ElementType: 0, MCOPrecision: 1}}
				}},
				{"float", func(p *jpeg2000.EncodeParams) {
					p.Lossless = false
					p.MCTBindings = []jpeg2000.MCTBindingParams{{ComponentIDs: ids, Matrix: identity(comps), ElementType: 1}}
				}},
				{"offsets-only", func(p *jpeg2000.EncodeParams) {
					p.MCTBindings = []jpeg2000.MCTBindingParams{{ComponentIDs: ids, Matrix: identity(comps), Offsets: offs}}
				}},
				{"legacy-matrix", func(p *jpeg2000.EncodeParams) {
					p.MCTMatrix, p.InverseMCTMatrix, p.MCTOffsets, p.MCTReversible, p.MCTMatrixElementType = tri, triInv, offs, true, 0
				}},
			}
			if comps == 4 {
				vs = append(vs, variant{"two-collections-mco", func(p *jpeg2000.EncodeParams) {
					p.MCTBindings = []jpeg2000.MCTBindingParams{
						{ComponentIDs: []uint16{0, 1}, Matrix: identity(2), Offsets: []int32{1, 2}},
						{ComponentIDs: []uint16{2, 3}, Matrix: identity(2), Offsets: []int32{3, 4}},
					}
					p.MCORecordOrder = []uint8{6, 3}
				}})
			}
			for _, v := range vs {
				p := jpeg2000.DefaultEncodeParams(g.w, g.h, comps, 8, false)
				p.NumLevels = 1
				v.set(p)
				d := try("part2", func() ([]byte, error) { return jpeg2000.NewEncoder(p).Encode(px) })
				add(fmt.Sprintf("xmct-%dx%dx%d-%s", g.w, g.h, comps, v.name), famJ2K, p2Home, d, fiFor(g.w, g.h, comps, 8, false))
			}
		}
	}
	// the .92 / .93 registry codecs with Part 2 parameters
	for _, short := range []string{".92", ".93"} {
		for ti, t := range tsTable {
			if t.short != short {
				continue
			}
			c, ok := dcodec.GetGlobalRegistry().GetCodec(tsTable[ti].ts())
			if !ok {
				continue
			}
			fi := fiFor(8, 8, 3, 8, false)
			px := makePixels(rng, 8, 8, 3, 8, 1)
			var out []byte
			pn, msg := Safely(func() {
				params := c.GetDefaultParameters()
				params.SetParameter("mctBindings", []jpeg2000.MCTBindingParams{{ComponentIDs: []uint16{0, 1, 2}, Matrix: identity(3), Offsets: []int32{1, 2, 3}}})
				src := helpers.NewTestPixelData(fi.frameInfo())
				_ = src.AddFrame(px)
				dst := helpers.NewTestPixelData(fi.frameInfo())
				if err := c.Encode(src, dst, params); err == nil && dst.FrameCount() > 0 {
					out, _ = dst.GetFrame(0)
				}
			})
			if pn {
				notes = append(notes, "encoder panic while building corpus: codec "+short+" part 2: "+msg)
			}
			add("xmct-codec"+short+"-8x8x3-bindings", famJ2K, []string{"codec[" + short + "].Decode", "jpeg2000.Decoder.Decode", "codec[.92].Decode"}, out, fi)
		}
	}
	// ---- every registered codec's own Encode (default parameters) on a few geometries
	for ti, t := range tsTable {
		c, ok := dcodec.GetGlobalRegistry().GetCodec(t.ts())
		if !ok {
			notes = append(notes, "codec not registered: "+t.short)
			continue
		}
		for gi, g := range []geom{{4, 3}, {16, 16}, {17, 9}, {1, 1}} {
			for _, comps := range []int{1, 3} {
				for _, bits := range []int{8, 16, 12} {
					if !thorough && (gi+comps+bits/4+ti)%2 == 0 {
						continue
					}
					fi := fiFor(g.w, g.h, comps, bits, false)
					if t.short == "RLE" && comps == 3 && (gi%2 == 1) {
						fi.PC = 1
					}
					px := makePixels(rng, g.w, g.h, comps, bits, gi+comps+bits)
					var out []byte
					p, msg := Safely(func() {
						src := helpers.NewTestPixelData(fi.frameInfo())
						_ = src.AddFrame(px)
						dst := helpers.NewTestPixelData(fi.frameInfo())
						if err := c.Encode(src, dst, c.GetDefaultParameters()); err == nil && dst.FrameCount() > 0 {
							out, _ = dst.GetFrame(0)
						}
					})
					if p {
						notes = append(notes, "encoder panic while building corpus: codec "+t.short+": "+msg)
						continue
					}
					home := []string{"codec[" + t.short + "].Decode"}
					switch t.fam {
					case famJ2K:
						home = append(home, "jpeg2000.Decoder.Decode", "jpeg2000.Decoder.Decode+HT")
					}
					add(fmt.Sprintf("codec%s-%dx%dx%d-b%d-pc%d", t.short, g.w, g.h, comps, bits, fi.PC), t.fam, home, out, fi)
				}
			}
		}
	}
	// ---- third-party fixtures
	var files []string
	_ = filepath.Walk("/repo/test-data", func(p string, info os.FileInfo, err error) error {
		if err == nil && !info.IsDir() && (strings.HasSuffix(p, ".j2c") || !strings.Contains(filepath.Base(p), ".")) {
			files = append(files, p)
		}
		return nil
	})
	sort.Strings(files)
	for _, p := range files {
		b, err := os.ReadFile(p)
		if err != nil || len(b) < 4 {
			continue
		}
		off := 0
		if !(b[0] == 0xFF && b[1] == 0x4F) {
			// DICOM part 10 file (CT1_J2KI): take the first embedded codestream
			off = indexOf(b, []byte{0xFF, 0x4F, 0xFF, 0x51})
			if off < 0 {
				continue
			}
		}
		b = b[off:]
		name := "fixture:" + strings.TrimPrefix(p, "/repo/test-data/")
		if len(b) > maxInput {
			b = b[:maxInput]
			name += ":prefix64k"
		}
		d := SniffJ2K(b)
		fi := FI{W: uint16(d.W), H: uint16(d.H), BA: 16, BS: uint16(d.Prec), HB: uint16(d.Prec - 1), SPP: uint16(d.C), Frames: 1, Photo: "MONOCHROME2"}
		home := []string{"jpeg2000.Decoder.Decode+HT", "codec[.201].Decode", "codec[.202].Decode", "jpeg2000.Decoder.Decode"}
		if !strings.Contains(p, "htj2k") {
			home = []string{"jpeg2000.Decoder.Decode", "codec[.90].Decode", "codec[.91].Decode", "jpeg2000.Decoder.Decode+HT"}
		}
		add(name, famJ2K, home, b, fi)
	}
	return seeds, notes
}

func indexOf(b, pat []byte) int {
	for i := 0; i+len(pat) <= len(b); i++ {
		ok := true
		for j := range pat {
			if b[i+j] != pat[j] {
				ok = false
				break
			}
		}
		if ok {
			return i
		}
	}
	return -1
}
