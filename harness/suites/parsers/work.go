// work.go: C09 class "declared counts far larger than the data". Tiny valid streams whose headers
// announce a huge number of packets / layers / components / precincts / tiles / samples while the
// data ends after a few bytes. A decoder that is right stops when the data is exhausted; the case
// is then as cheap as the original stream. Systematic over every progression order (the five
// packet loops of jpeg2000/t2/packet_decoder.go are separate code) and over truncation points.
// Mutator classes: work.po<order>.<what>.<cut> (JPEG 2000) and work.scan.<what> (JPEG family).
package parsers

import (
	"fmt"
	"strings"
)

func put32be(c []byte, off int, v int) {
	c[off], c[off+1], c[off+2], c[off+3] = byte(v>>24), byte(v>>16), byte(v>>8), byte(v)
}

// workSeedOK: tiny JPEG 2000 seeds (8x8 / 16x16, 1 or 3 components, classic and HT).
func workSeedOK(s *Seed) bool {
	if s.Fam != famJ2K || !s.Small {
		return false
	}
	if !(strings.HasPrefix(s.Name, "j2k-") || strings.HasPrefix(s.Name, "htj2k-")) {
		return false
	}
	return (s.FI.W == 8 || s.FI.W == 16) && s.FI.W == s.FI.H
}

// workMutantsJ2K builds the class for one seed.
// thorough: declared sizes up to the top of the C09 domain (S = 2^22) and every cut for every variant;
// quick: S = 2^18 for the variants whose cost is proportional to the declared size even in a correct
// decoder, and the 16384-component variant only when heavy is set (one seed per class).
func workMutantsJ2K(s *Seed, thorough, heavy bool) []mutant {
	var out []mutant
	b := s.Data
	segs, _ := j2kSegments(b)
	var siz, cod *segment
	sodOff := -1
	for i := range segs {
		switch segs[i].marker {
		case 0x51:
			if siz == nil && segs[i].plen >= 38 {
				siz = &segs[i]
			}
		case 0x52:
			if cod == nil && segs[i].plen >= 10 {
				cod = &segs[i]
			}
		case 0x93:
			if sodOff < 0 {
				sodOff = segs[i].off
			}
		}
	}
	if siz == nil || cod == nil || sodOff < 0 {
		return nil
	}
	dataStart := sodOff + 2
	csiz := be16at(b, siz.payload+34)
	type variant struct {
		name string
		make func(c []byte) []byte // c is a private copy with the progression order already set
	}
	setDims := func(c []byte, w, h, tw, th int) {
		p := siz.payload
		put32be(c, p+2, w)
		put32be(c, p+6, h)
		put32be(c, p+10, 0)
		put32be(c, p+14, 0)
		put32be(c, p+18, tw)
		put32be(c, p+22, th)
		put32be(c, p+26, 0)
		put32be(c, p+30, 0)
	}
	rewriteCOD := func(c []byte, levels int, precinct byte) []byte { // explicit precinct sizes at every resolution
		p := cod.payload
		seg := append([]byte{0xFF, 0x52, 0, byte(12 + levels + 1)}, c[p:p+10]...)
		seg[4] |= 1
		seg[4+5] = byte(levels)
		for k := 0; k <= levels; k++ {
			seg = append(seg, precinct)
		}
		return append(append(clone(c[:cod.off]), seg...), c[cod.payload+cod.plen:]...)
	}
	top := maxDomainS
	if !thorough {
		top = 1 << 18
	}
	side := 2048
	for side*side*csiz > top {
		side /= 2
	}
	vs := []variant{
		{"layers65535", func(c []byte) []byte { c[cod.payload+2], c[cod.payload+3] = 0xFF, 0xFF; return c }},
		{"layers1000-levels32", func(c []byte) []byte {
			c[cod.payload+2], c[cod.payload+3] = 0x03, 0xE8
			c[cod.payload+5] = 32
			return c
		}},
		{"layers1000-levels8-bigimage", func(c []byte) []byte {
			c[cod.payload+2], c[cod.payload+3] = 0x03, 0xE8
			c[cod.payload+5] = 8
			setDims(c, side, side, side, side)
			return c
		}},
		{"precinct1x1-bigtile", func(c []byte) []byte {
			setDims(c, side, side, side, side)
			return rewriteCOD(c, int(c[cod.payload+5]), 0x00)
		}},
		{"precinct2x2-bigtile-levels5", func(c []byte) []byte { setDims(c, side, side, side, side); return rewriteCOD(c, 5, 0x11) }},
		{"tiles1x1-wide", func(c []byte) []byte { setDims(c, top/(8*csiz), 8, 1, 1); return c }},
		{"tiles1-wide-strip", func(c []byte) []byte { setDims(c, top/csiz, 1, 1, 1); return c }},
	}
	// Csiz 16384 / 1024 with tiny dimensions: SIZ rewritten with that many component records
	for _, n := range []int{1024, 16384} {
		n := n
		if n == 16384 && !thorough {
			continue // seconds per case even in a correct decoder: thorough tier only
		}
		_ = heavy
		vs = append(vs, variant{fmt.Sprintf("csiz%d-tiny", n), func(c []byte) []byte {
			p := siz.payload
			seg := append([]byte{0xFF, 0x51, byte((38 + 3*n) >> 8), byte(38 + 3*n)}, c[p:p+34]...)
			put32be(seg, 4+2, 2)
			put32be(seg, 4+6, 2)
			put32be(seg, 4+10, 0)
			put32be(seg, 4+14, 0)
			put32be(seg, 4+18, 2)
			put32be(seg, 4+22, 2)
			put32be(seg, 4+26, 0)
			put32be(seg, 4+30, 0)
			seg = append(seg, byte(n>>8), byte(n))
			for k := 0; k < n; k++ {
				seg = append(seg, 7, 1, 1)
			}
			r := append(append(clone(c[:siz.off]), seg...), c[siz.payload+siz.plen:]...)
			if len(r) > maxInput {
				return nil
			}
			return r
		}})
	}
	for po := 0; po < 5; po++ {
		for _, v := range vs {
			c := clone(b)
			c[cod.payload+1] = byte(po)
			m := v.make(c)
			if m == nil {
				continue
			}
			shift := len(m) - len(b) // header grew / shrank
			ds := dataStart + shift
			if ds < 0 || ds > len(m) {
				continue
			}
			body := len(m) - ds
			cuts := []struct {
				name string
				n    int
			}{
				{"full", len(m)},
				{"hdr-only", ds},
				{"first-bytes", min(len(m), ds+3)},
				{"mid", ds + body/2},
				{"no-eoc", max(ds, len(m)-2)},
			}
			costly := !strings.HasPrefix(v.name, "layers65535") && !strings.HasPrefix(v.name, "layers1000-levels32")
			for ci, cu := range cuts {
				if !thorough && costly && ci != 0 && ci != 1 && ci != 3 {
					continue
				}
				out = append(out, mutant{clone(m[:cu.n]), fmt.Sprintf("work.po%d.%s.%s", po, v.name, cu.name)})
			}
			// long body of filler bytes: announced packets meet data that is not theirs
			filler := clone(m[:ds])
			for _, sg := range segs { // Psot = 0: the tile-part extends to the end of the codestream
				if sg.marker == 0x90 && sg.payload+shift+6 <= len(filler) && sg.off < sodOff {
					put32be(filler, sg.payload+shift+2, 0)
					break
				}
			}
			for k := 0; k < 2048; k++ {
				filler = append(filler, byte(0x80|k&0x0F))
			}
			out = append(out, mutant{filler, fmt.Sprintf("work.po%d.%s.filler", po, v.name)})
		}
	}
	return out
}

// workMutantsScan: JPEG-family streams whose frame header declares far more samples than the scan
// holds (S stays inside the C09 domain): the per-sample loops have to stop at the end of the data.
func workMutantsScan(s *Seed, thorough bool) []mutant {
	var out []mutant
	if s.Fam != famJPEG && s.Fam != famJLS {
		return nil
	}
	b := s.Data
	segs, end := jpegSegments(b)
	for _, sg := range segs {
		if !isSOFMarker(sg.marker) || sg.plen < 6 {
			continue
		}
		nf := int(b[sg.payload+5])
		if nf == 0 {
			nf = 1
		}
		dims := [][2]int{{65535, 64 / nf}, {64 / nf, 65535}, {2048, 2048 / nf}, {65535, 1}, {1, 65535}}
		if !thorough {
			dims = [][2]int{{65535, 16 / nf}, {16 / nf, 65535}, {1024, 1024 / nf}} // S = 2^20
		}
		for _, wh := range dims {
			if wh[0] <= 0 || wh[1] <= 0 || wh[0]*wh[1]*nf > maxDomainS {
				continue
			}
			c := clone(b)
			c[sg.payload+1], c[sg.payload+2] = byte(wh[1]>>8), byte(wh[1])
			c[sg.payload+3], c[sg.payload+4] = byte(wh[0]>>8), byte(wh[0])
			tag := fmt.Sprintf("%dx%d", wh[0], wh[1])
			out = append(out, mutant{c, "work.scan.full-" + tag})
			if end > 0 && end <= len(c) {
				out = append(out, mutant{clone(c[:end]), "work.scan.empty-" + tag})
				out = append(out, mutant{clone(c[:min(len(c), end+4)]), "work.scan.4bytes-" + tag})
				fills := []byte{0x00, 0x55, 0xFF}
				if !thorough {
					fills = []byte{0x00, 0x55}
				}
				for _, fill := range fills { // a few hundred bytes that decode to something
					f := clone(c[:end])
					for k := 0; k < 600; k++ {
						f = append(f, fill)
						if fill == 0xFF {
							f = append(f, 0x00)
						}
					}
					out = append(out, mutant{f, fmt.Sprintf("work.scan.fill%02x-%s", fill, tag)})
				}
			}
		}
		break
	}
	return out
}

// ---- work.pkt: a well-formed packet header that declares a contribution far beyond the tile data ----
//
// The stream keeps the seed's SIZ segment and replaces everything else by a minimal main header
// (0 decomposition levels, one 64x64 code-block, one layer) and ONE packet whose header raises
// Lblock with a long comma code and then declares a length of up to 2^32 bytes for its single
// code-block, followed by 16 body bytes. Nothing in a marker segment is unusual; only the packet
// header (bit level, with 0xFF stuffing) carries the large number. A decoder that is right clips
// the length to the bytes it has; memory must stay a function of the input length and S.

type pktBits struct {
	out        []byte
	cur        byte
	free, size int
}

func (w *pktBits) bit(b int) {
	if w.size == 0 {
		w.size, w.free = 8, 8
	}
	w.free--
	if b != 0 {
		w.cur |= 1 << uint(w.free)
	}
	if w.free == 0 {
		w.flush()
	}
}

func (w *pktBits) flush() {
	w.out = append(w.out, w.cur)
	w.size = 8
	if w.cur == 0xFF {
		w.size = 7
	}
	w.free, w.cur = w.size, 0
}

func (w *pktBits) bits(v uint64, n int) {
	for i := n - 1; i >= 0; i-- {
		w.bit(int((v >> uint(i)) & 1))
	}
}

func (w *pktBits) bytes() []byte {
	if w.size != 0 && w.free != w.size {
		w.flush()
	}
	if n := len(w.out); n > 0 && w.out[n-1] == 0xFF {
		w.out = append(w.out, 0)
	}
	return w.out
}

func workPacketMutants(s *Seed, thorough bool) []mutant {
	b := s.Data
	segs, _ := j2kSegments(b)
	var siz *segment
	for i := range segs {
		if segs[i].marker == 0x51 && segs[i].plen >= 38 && siz == nil {
			siz = &segs[i]
		}
	}
	if siz == nil || be16at(b, siz.payload+34) != 1 {
		return nil
	}
	prec := int(b[siz.payload+36]&0x7F) + 1
	var out []mutant
	lens := []int{12, 24, 28, 30, 31, 32}
	if thorough {
		lens = []int{8, 12, 16, 20, 24, 26, 27, 28, 29, 30, 31, 32, 33, 40}
	}
	for _, lb := range lens {
		for _, passes := range []int{1, 2} {
			for _, allOnes := range []bool{false, true} {
				if allOnes && !thorough && lb != 31 {
					continue
				}
				var cs []byte
				cs = append(cs, 0xFF, 0x4F)
				cs = append(cs, b[siz.off:siz.payload+siz.plen]...)
				cs = append(cs, 0xFF, 0x52, 0, 12, 0, 0, 0, 1, 0, 0, 4, 4, 0, 1)
				cs = append(cs, 0xFF, 0x5C, 0, 4, 0x40, byte(prec<<3))
				w := &pktBits{}
				w.bit(1) // packet not empty
				w.bit(1) // inclusion tag tree of the single code-block
				w.bit(1) // zero bit planes: 0
				extra := 0
				if passes == 1 {
					w.bit(0)
				} else {
					w.bits(2, 2) // "10": two passes, one more length bit
					extra = 1
				}
				for i := 0; i < lb-3; i++ {
					w.bit(1)
				}
				w.bit(0)
				n := lb + extra
				v := uint64(1) << uint(n-1)
				if allOnes {
					v = (uint64(1) << uint(n)) - 1
				}
				w.bits(v, n)
				pkt := w.bytes()
				for i := 0; i < 16; i++ {
					pkt = append(pkt, byte(0x11*i)&0x7F)
				}
				psot := 12 + 2 + len(pkt)
				cs = append(cs, 0xFF, 0x90, 0, 10, 0, 0, byte(psot>>24), byte(psot>>16), byte(psot>>8), byte(psot), 0, 1)
				cs = append(cs, 0xFF, 0x93)
				cs = append(cs, pkt...)
				cs = append(cs, 0xFF, 0xD9)
				kind := "hi"
				if allOnes {
					kind = "ones"
				}
				out = append(out, mutant{data: cs, mut: fmt.Sprintf("work.pkt.len%d.p%d.%s", lb, passes, kind)})
			}
		}
	}
	return out
}
