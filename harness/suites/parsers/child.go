// child.go: child-process mode. The harness binary re-executes itself with the hidden first
// argument "-parsers-child"; the child reads one case per line on stdin
//
//	<id> <entry-name> <hex|_> <fi> <heap budget in bytes, 0 = none>
//
// runs the entry point under recover() and prints one result line per case as it completes
//
//	<id>\t<ok|err|panic>\t<ms>\t<peak heap delta bytes>\t<bytes allocated>\t<detail>
//
// A watchdog goroutine samples the heap while a case runs. RLIMIT_AS (env PARSERS_AS_LIMIT)
// is the kill switch: exceeding it makes the Go runtime abort with "fatal error: ... out of
// memory", which the parent sees as a crash of the outstanding case. Fatal errors (out of
// memory, stack overflow) and infinite loops cannot be caught in-process; that is why
// decoding never runs in the parent.
package parsers

import (
	"bufio"
	"fmt"
	"os"
	"regexp"
	"runtime"
	"runtime/debug"
	"runtime/metrics"
	"strconv"
	"strings"
	"sync/atomic"
	"syscall"
	"time"
)

const childFlag = "-parsers-child"

// MaybeChild must run before flag parsing / vhlib.Main. It is also called from this
// package's init(), so a binary that merely links the package supports child mode.
func MaybeChild() {
	if len(os.Args) >= 2 && os.Args[1] == childFlag {
		childMain()
		os.Exit(0)
	}
}

func init() { MaybeChild() }

var (
	heapSamples = []metrics.Sample{{Name: "/memory/classes/heap/objects:bytes"}}
	allocSample = []metrics.Sample{{Name: "/gc/heap/allocs:bytes"}}
	sampling    atomic.Bool
	peakHeap    atomic.Uint64
	baseHeap    atomic.Uint64
	budgetHeap  atomic.Uint64 // 0 = none; else the watchdog records where the decoder is when exceeded
	overSite    atomic.Value  // string: "site|loc" captured at the first over-budget sample
)

func heapNow() uint64 {
	var s [1]metrics.Sample
	s[0].Name = heapSamples[0].Name
	metrics.Read(s[:])
	return s[0].Value.Uint64()
}
func allocNow() uint64 {
	var s [1]metrics.Sample
	s[0].Name = allocSample[0].Name
	metrics.Read(s[:])
	return s[0].Value.Uint64()
}
func notePeak() {
	h := heapNow()
	for {
		p := peakHeap.Load()
		if h <= p || peakHeap.CompareAndSwap(p, h) {
			break
		}
	}
	if b := budgetHeap.Load(); b > 0 && h > baseHeap.Load()+b {
		if s, _ := overSite.Load().(string); s == "" {
			buf := make([]byte, 1<<16)
			n := runtime.Stack(buf, true)
			overSite.Store(allocSite(buf[:n]))
		}
	}
}

// allocSite: the innermost library frame of the goroutine that is running the decoder.
func allocSite(all []byte) string {
	for _, g := range strings.Split(string(all), "\n\n") {
		if !strings.Contains(g, "parsers.runRecovered") {
			continue
		}
		lines := strings.Split(g, "\n")
		for i := 1; i+1 < len(lines); i++ {
			if (strings.Contains(lines[i], "go-dicom-codecs/") || strings.Contains(lines[i], "cocosip/go-dicom/")) && frameFileRe.MatchString(lines[i+1]) {
				site, loc := panicSite([]byte(lines[i] + "\n" + lines[i+1] + "\n"))
				return site + "|" + loc
			}
		}
	}
	return "unknown|unknown"
}

func childMain() {
	if s := os.Getenv("PARSERS_AS_LIMIT"); s != "" {
		if lim, err := strconv.ParseUint(s, 10, 64); err == nil && lim > 0 {
			_ = syscall.Setrlimit(syscall.RLIMIT_AS, &syscall.Rlimit{Cur: lim, Max: lim})
		}
	}
	debug.SetMaxStack(256 << 20) // runaway recursion dies quickly with "stack overflow"
	interval := 300 * time.Microsecond
	if v, err := strconv.Atoi(os.Getenv("PARSERS_SAMPLE_US")); err == nil && v > 0 {
		interval = time.Duration(v) * time.Microsecond
	}
	go func() { // heap watchdog
		for {
			time.Sleep(interval)
			if sampling.Load() {
				notePeak()
			}
		}
	}()
	ppid := os.Getppid()
	go func() { // a child whose parent is gone (killed by an outer time limit) must not stay behind, least of all spinning in a hanging decoder
		for {
			time.Sleep(500 * time.Millisecond)
			if os.Getppid() != ppid {
				os.Exit(3)
			}
		}
	}()
	in := bufio.NewReaderSize(os.Stdin, 1<<20)
	out := bufio.NewWriterSize(os.Stdout, 1<<16)
	for {
		line, err := in.ReadString('\n')
		if len(line) > 0 {
			line = strings.TrimRight(line, "\n")
			if line != "" {
				out.WriteString(childCase(line))
				out.WriteByte('\n')
				out.Flush()
			}
		}
		if err != nil {
			return
		}
	}
}

func childCase(line string) string {
	f := strings.SplitN(line, " ", 5)
	if len(f) < 5 {
		return "?\tbad\t0\t0\t0\t0\tbad request"
	}
	id, name, hx, fis := f[0], f[1], f[2], f[3]
	budget, _ := strconv.ParseUint(f[4], 10, 64)
	e := entryByName[name]
	if e == nil {
		return id + "\tbad\t0\t0\t0\t0\tunknown entry"
	}
	data := unhex(hx)
	fi := parseFI(fis)
	base := heapNow()
	if base > 48<<20 {
		runtime.GC()
		base = heapNow()
	}
	a0 := allocNow()
	cpu0 := selfCPUus()
	peakHeap.Store(base)
	baseHeap.Store(base)
	budgetHeap.Store(budget)
	overSite.Store("")
	sampling.Store(true)
	t0 := time.Now()
	status, detail := runRecovered(e, data, fi)
	notePeak()
	sampling.Store(false)
	ms := time.Since(t0).Milliseconds()
	peak := peakHeap.Load()
	if peak > base+(32<<20) {
		runtime.GC() // the collection of this case's garbage is charged to this case
	}
	var delta uint64
	if peak > base {
		delta = peak - base
	}
	if os, _ := overSite.Load().(string); os != "" {
		detail = detail + "\x1fover=" + os
	}
	return fmt.Sprintf("%s\t%s\t%d\t%d\t%d\t%d\t%s", id, status, ms, delta, allocNow()-a0, selfCPUus()-cpu0, detail)
}

// selfCPUus: user+system CPU time of this process so far, in microseconds.
func selfCPUus() int64 {
	var ru syscall.Rusage
	if syscall.Getrusage(syscall.RUSAGE_SELF, &ru) != nil {
		return 0
	}
	return ru.Utime.Sec*1e6 + int64(ru.Utime.Usec) + ru.Stime.Sec*1e6 + int64(ru.Stime.Usec)
}

func runRecovered(e *Entry, data []byte, fi *FI) (status, detail string) {
	defer func() {
		if r := recover(); r != nil {
			msg := firstLine(fmt.Sprint(r))
			site, loc := panicSite(debug.Stack())
			status = "panic"
			detail = classify(msg) + "|" + site + "|" + loc + "|" + sanitize(msg)
		}
	}()
	info, err := e.Run(data, fi)
	if err != nil {
		return "err", sanitize(clipStr(firstLine(err.Error()), 160))
	}
	return "ok", info
}

func firstLine(s string) string {
	if i := strings.IndexByte(s, '\n'); i >= 0 {
		return s[:i]
	}
	return s
}
func clipStr(s string, n int) string {
	if len(s) > n {
		return s[:n]
	}
	return s
}
func sanitize(s string) string {
	return strings.Map(func(r rune) rune {
		if r == '\t' || r == '\n' || r == '\r' {
			return ' '
		}
		return r
	}, s)
}

var numRe = regexp.MustCompile(`[0-9]+`)

// classify maps a panic message to a stable class.
func classify(msg string) string {
	m := strings.ToLower(msg)
	switch {
	case strings.Contains(m, "index out of range"):
		return "index-out-of-range"
	case strings.Contains(m, "slice bounds out of range"):
		return "slice-bounds"
	case strings.Contains(m, "divide by zero"):
		return "divide-by-zero"
	case strings.Contains(m, "makeslice"):
		return "makeslice"
	case strings.Contains(m, "nil pointer dereference"):
		return "nil-deref"
	case strings.Contains(m, "negative shift"):
		return "negative-shift"
	case strings.Contains(m, "nil map"):
		return "nil-map"
	case strings.Contains(m, "out of memory"):
		return "out-of-memory"
	case strings.Contains(m, "stack overflow") || strings.Contains(m, "stack exceeds"):
		return "stack-overflow"
	}
	m = numRe.ReplaceAllString(m, "N")
	m = strings.Map(func(r rune) rune {
		if (r >= 'a' && r <= 'z') || r == 'N' {
			return r
		}
		return '-'
	}, m)
	return "other-" + clipStr(m, 40)
}

var frameFileRe = regexp.MustCompile(`^\s+(/\S+\.go):(\d+)`)

// panicSite returns the top stack frame inside the library under test: "file.go:Func"
// (stable across line shifts) and "file.go:line".
func panicSite(stack []byte) (site, loc string) {
	lines := strings.Split(string(stack), "\n")
	start := 0
	for i, l := range lines {
		if strings.HasPrefix(l, "panic(") {
			start = i
		}
	}
	for i := start; i+1 < len(lines); i++ {
		fn := lines[i]
		m := frameFileRe.FindStringSubmatch(lines[i+1])
		if m == nil {
			continue
		}
		if !strings.Contains(fn, "go-dicom-codecs/") && !strings.Contains(fn, "cocosip/go-dicom/") {
			continue
		}
		file := m[1]
		short := file
		for _, pre := range []string{"/repo/"} {
			if strings.HasPrefix(file, pre) {
				short = file[len(pre):]
			}
		}
		if j := strings.Index(short, "/pkg/mod/"); j >= 0 {
			short = short[j+9:]
		}
		// function name without package path and arguments
		name := fn
		if k := strings.LastIndex(name, "("); k > 0 {
			name = name[:k]
		}
		if k := strings.LastIndex(name, "/"); k >= 0 {
			name = name[k+1:]
		}
		if k := strings.Index(name, "."); k >= 0 {
			name = name[k+1:]
		}
		name = strings.NewReplacer("(*", "", ")", "", "[...]", "").Replace(name)
		return short + ":" + name, short + ":" + m[2]
	}
	return "unknown", "unknown"
}

const hexdigits = "0123456789abcdef"

func hexs(b []byte) string {
	if len(b) == 0 {
		return "_"
	}
	out := make([]byte, len(b)*2)
	for i, v := range b {
		out[2*i] = hexdigits[v>>4]
		out[2*i+1] = hexdigits[v&15]
	}
	return string(out)
}
func unhex(s string) []byte {
	if s == "_" || s == "" {
		return nil
	}
	out := make([]byte, len(s)/2)
	for i := range out {
		out[i] = hexv(s[2*i])<<4 | hexv(s[2*i+1])
	}
	return out
}
func hexv(c byte) byte {
	switch {
	case c >= '0' && c <= '9':
		return c - '0'
	case c >= 'a' && c <= 'f':
		return c - 'a' + 10
	case c >= 'A' && c <= 'F':
		return c - 'A' + 10
	}
	return 0
}
