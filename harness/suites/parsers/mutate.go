// mutate.go: mutators. All randomness comes from the *Rand handed in (derived from c.Rng).
package parsers

import (
	"fmt"

	. "verif/harness/vhlib"
)

type mutant struct {
	data []byte
	mut  string // mutator class (distribution key)
}

type segment struct {
	marker  byte // second marker byte
	off     int  // offset of 0xFF
	lenOff  int  // offset of the 2-byte length (-1: none)
	payload int  // offset of first payload byte
	plen    int  // payload length (length field - 2), clipped to the data
}

// jpegSegments walks SOI .. SOS (inclusive) of a T.81/T.87 stream.
func jpegSegments(b []byte) (segs []segment, end int) {
	if len(b) < 2 || b[0] != 0xFF || b[1] != 0xD8 {
		return nil, 0
	}
	i := 2
	for i+1 < len(b) {
		if b[i] != 0xFF {
			return segs, i
		}
		j := i
		for j < len(b) && b[j] == 0xFF {
			j++
		}
		if j >= len(b) {
			return segs, i
		}
		m := b[j]
		if m == 0xD8 || m == 0xD9 || (m >= 0xD0 && m <= 0xD7) || m == 0 {
			segs = append(segs, segment{marker: m, off: i, lenOff: -1, payload: j + 1})
			i = j + 1
			if m == 0xD9 || m == 0 {
				return segs, i
			}
			continue
		}
		if j+3 > len(b) {
			return segs, i
		}
		l := int(b[j+1])<<8 | int(b[j+2])
		pl := l - 2
		if pl < 0 {
			pl = 0
		}
		if j+3+pl > len(b) {
			pl = len(b) - (j + 3)
		}
		segs = append(segs, segment{marker: m, off: i, lenOff: j + 1, payload: j + 3, plen: pl})
		i = j + 3 + pl
		if m == 0xDA {
			return segs, i
		}
	}
	return segs, i
}

func hdrEndJPEG(b []byte) int {
	_, e := jpegSegments(b)
	return e
}

// j2kSegments walks SOC .. first SOD (inclusive).
func j2kSegments(b []byte) (segs []segment, end int) {
	if len(b) < 2 || b[0] != 0xFF || b[1] != 0x4F {
		return nil, 0
	}
	i := 2
	for i+1 < len(b) {
		if b[i] != 0xFF {
			return segs, i
		}
		m := b[i+1]
		if m == 0x93 || m == 0xD9 || m == 0x4F {
			segs = append(segs, segment{marker: m, off: i, lenOff: -1, payload: i + 2})
			i += 2
			if m == 0x93 || m == 0xD9 {
				return segs, i
			}
			continue
		}
		if i+4 > len(b) {
			return segs, i
		}
		l := int(b[i+2])<<8 | int(b[i+3])
		pl := l - 2
		if pl < 0 {
			pl = 0
		}
		if i+4+pl > len(b) {
			pl = len(b) - (i + 4)
		}
		segs = append(segs, segment{marker: m, off: i, lenOff: i + 2, payload: i + 4, plen: pl})
		i += 4 + pl
	}
	return segs, i
}

func clone(b []byte) []byte { return append([]byte(nil), b...) }

func setByte(b []byte, off int, v int, mut string, out *[]mutant) {
	if off < 0 || off >= len(b) {
		return
	}
	c := clone(b)
	c[off] = byte(v)
	*out = append(*out, mutant{c, mut})
}
func set16(b []byte, off int, v int, mut string, out *[]mutant) {
	if off < 0 || off+1 >= len(b) {
		return
	}
	c := clone(b)
	c[off], c[off+1] = byte(v>>8), byte(v)
	*out = append(*out, mutant{c, mut})
}
func set32(b []byte, off int, v uint32, mut string, out *[]mutant) {
	if off < 0 || off+3 >= len(b) {
		return
	}
	c := clone(b)
	c[off], c[off+1], c[off+2], c[off+3] = byte(v>>24), byte(v>>16), byte(v>>8), byte(v)
	*out = append(*out, mutant{c, mut})
}

var (
	lenVals   = []int{0, 1, 2, 3, 4, 0xFFFF, 0x7FFF, 0x8000}
	precVals  = []int{0, 1, 2, 7, 8, 9, 12, 15, 16, 17, 31, 32, 33, 62, 63, 64, 65, 127, 128, 255}
	countVals = []int{0, 1, 2, 3, 4, 5, 16, 127, 128, 255}
	sampVals  = []int{0x00, 0x10, 0x01, 0x11, 0x12, 0x21, 0x22, 0x41, 0x14, 0x44, 0x50, 0x05, 0x55, 0xF1, 0x1F, 0xFF}
	selVals   = []int{0x00, 0x01, 0x02, 0x03, 0x04, 0x10, 0x11, 0x13, 0x20, 0x30, 0x33, 0x40, 0x44, 0x0F, 0xF0, 0xFF}
	dimVals   = []int{0, 1, 2, 255, 256, 0x7FFF, 0x8000, 0xFFFF}
	u32Vals   = []uint32{0, 1, 2, 0xFFFF, 0x10000, 0x7FFFFFFF, 0x80000000, 0xFFFFFFFE, 0xFFFFFFFF}
	csizVals  = []int{0, 1, 2, 3, 4, 5, 255, 256, 257, 16384, 16385, 65535}
	byteEdge  = []int{0, 1, 2, 3, 4, 5, 8, 9, 10, 11, 15, 16, 31, 32, 33, 37, 38, 63, 64, 127, 128, 254, 255}
)

// fieldMutantsJPEG: field-targeted corruption of a T.81 / T.87 stream.
func fieldMutantsJPEG(b []byte, rng *Rand) []mutant {
	var out []mutant
	segs, end := jpegSegments(b)
	for si, s := range segs {
		if s.lenOff < 0 {
			continue
		}
		L := s.plen + 2
		for _, v := range append(append([]int{}, lenVals...), L-1, L+1, L+2, len(b)-s.lenOff, len(b)-s.lenOff+1) {
			if v >= 0 && v <= 0xFFFF && v != L {
				set16(b, s.lenOff, v, "field.seglen", &out)
			}
		}
		p := s.payload
		switch {
		case isSOFMarker(s.marker):
			for _, v := range precVals {
				setByte(b, p, v, "field.precision", &out)
			}
			for _, v := range dimVals {
				set16(b, p+1, v, "field.height", &out)
				set16(b, p+3, v, "field.width", &out)
			}
			c := clone(b)
			if p+4 < len(c) {
				c[p+1], c[p+2], c[p+3], c[p+4] = 0xFF, 0xFF, 0xFF, 0xFF
				out = append(out, mutant{c, "field.dims65535"})
			}
			for _, v := range countVals {
				setByte(b, p+5, v, "field.ncomp", &out)
			}
			nf := 0
			if p+5 < len(b) {
				nf = int(b[p+5])
			}
			for k := 0; k < nf && k < 4; k++ {
				for _, v := range []int{0, 1, 2, 255} {
					setByte(b, p+6+3*k, v, "field.compid", &out)
				}
				for _, v := range sampVals {
					setByte(b, p+7+3*k, v, "field.sampling", &out)
				}
				for _, v := range []int{0, 1, 2, 3, 4, 5, 16, 255} {
					setByte(b, p+8+3*k, v, "field.tq", &out)
				}
			}
			// a second frame header with other dimensions right after the first
			if s.payload+s.plen <= len(b) {
				for _, wh := range [][2]int{{0xFFFF, 0xFFFF}, {2048, 2048}, {1, 1}} {
					seg := clone(b[s.off : s.payload+s.plen])
					q := s.payload - s.off
					if q+5 <= len(seg) {
						seg[q+1], seg[q+2], seg[q+3], seg[q+4] = byte(wh[1]>>8), byte(wh[1]), byte(wh[0]>>8), byte(wh[0])
						c := append(append(clone(b[:s.payload+s.plen]), seg...), b[s.payload+s.plen:]...)
						out = append(out, mutant{c, "struct.second-sof"})
					}
				}
			}
			// a frame header of ANOTHER kind with tiny dimensions in front of the real one, whose own
			// dimensions are inflated: the first frame header of the stream then declares 1 sample
			for _, mk := range []byte{0xC0, 0xC1, 0xC3, 0xF7, 0xC2} {
				if mk == s.marker {
					continue
				}
				pre := []byte{0xFF, mk, 0x00, 0x0B, 0x08, 0x00, 0x01, 0x00, 0x01, 0x01, 0x01, 0x11, 0x00}
				c := append(append(clone(b[:s.off]), pre...), b[s.off:]...)
				q := s.payload + len(pre)
				if q+5 <= len(c) {
					c[q+1], c[q+2], c[q+3], c[q+4] = 0xFF, 0x00, 0xFF, 0x00
					out = append(out, mutant{c, "struct.foreign-sof"})
				}
			}
			// change the SOF kind
			for _, m := range []int{0xC0, 0xC1, 0xC2, 0xC3, 0xC5, 0xC9, 0xCB, 0xF7} {
				setByte(b, s.payload-3, m, "field.sofkind", &out)
			}
		case s.marker == 0xC4: // DHT
			for _, v := range selVals {
				setByte(b, p, v, "field.dht.tcth", &out)
			}
			for _, v := range []int{0, 1, 2, 3, 4, 17, 200, 255} {
				setByte(b, p+1, v, "field.dht.bits0", &out)
			}
			for k := 1; k < 16; k++ {
				for _, v := range []int{0, 255} {
					setByte(b, p+1+k, v, "field.dht.bits", &out)
				}
			}
			if p+17 <= len(b) {
				c := clone(b)
				for k := 0; k < 16; k++ {
					c[p+1+k] = 17 // sum 272 > 256
				}
				out = append(out, mutant{c, "field.dht.bitssum"})
				c = clone(b)
				for k := 0; k < 16; k++ {
					c[p+1+k] = 0
				}
				out = append(out, mutant{c, "field.dht.bitszero"})
				// a well-formed DHT whose BITS[0] is large: rewrite segment as 1+16+n bytes
				for _, n := range []int{3, 4, 200} {
					seg := []byte{0xFF, 0xC4, byte((2 + 17 + n) >> 8), byte(2 + 17 + n), b[p]}
					bits := make([]byte, 16)
					bits[0] = byte(n)
					seg = append(seg, bits...)
					for k := 0; k < n; k++ {
						seg = append(seg, byte(k))
					}
					c = append(append(clone(b[:s.off]), seg...), b[s.payload+s.plen:]...)
					out = append(out, mutant{c, "field.dht.wellformed-bits0"})
				}
			}
		case s.marker == 0xDB: // DQT
			for _, v := range selVals {
				setByte(b, p, v, "field.dqt.pqtq", &out)
			}
		case s.marker == 0xDA: // SOS
			for _, v := range countVals {
				setByte(b, p, v, "field.sos.ns", &out)
			}
			ns := 0
			if p < len(b) {
				ns = int(b[p])
			}
			for k := 0; k < ns && k < 4; k++ {
				for _, v := range []int{0, 1, 2, 3, 255} {
					setByte(b, p+1+2*k, v, "field.sos.cs", &out)
				}
				for _, v := range selVals {
					setByte(b, p+2+2*k, v, "field.sos.tdta", &out)
				}
			}
			for _, v := range []int{0, 1, 2, 3, 7, 8, 63, 64, 255} {
				setByte(b, p+1+2*ns, v, "field.sos.ss", &out)   // predictor / NEAR
				setByte(b, p+2+2*ns, v, "field.sos.se", &out)   // ILV for JPEG-LS
				setByte(b, p+3+2*ns, v, "field.sos.ahal", &out) // point transform
			}
		case s.marker == 0xF8: // LSE
			for _, v := range []int{0, 1, 2, 3, 4, 255} {
				setByte(b, p, v, "field.lse.id", &out)
			}
			for k := 0; k < 5; k++ {
				for _, v := range []int{0, 1, 2, 3, 127, 128, 255, 256, 4095, 32767, 65535} {
					set16(b, p+1+2*k, v, "field.lse.param", &out)
				}
			}
		case s.marker == 0xDD: // DRI
			for _, v := range []int{0, 1, 2, 65535} {
				set16(b, p, v, "field.dri", &out)
			}
		}
		// structural: drop / duplicate the segment, move it to the front
		segEnd := s.payload + s.plen
		out = append(out, mutant{append(clone(b[:s.off]), b[segEnd:]...), "struct.drop"})
		out = append(out, mutant{append(append(clone(b[:segEnd]), b[s.off:segEnd]...), b[segEnd:]...), "struct.dup"})
		if si > 0 {
			out = append(out, mutant{append(append(append(clone(b[:2]), b[s.off:segEnd]...), b[2:s.off]...), b[segEnd:]...), "struct.tofront"})
		}
	}
	// inserted segments
	if end >= 2 {
		ins := [][]byte{
			{0xFF, 0xD9},                                                       // EOI right after SOI
			{0xFF, 0xDD, 0x00, 0x04, 0x00, 0x01},                               // DRI 1
			{0xFF, 0xDD, 0x00, 0x04, 0xFF, 0xFF},                               // DRI 65535
			{0xFF, 0xDA, 0x00, 0x06, 0x00, 0x00, 0x00, 0x00},                   // SOS with Ns=0 before anything
			{0xFF, 0xDA, 0x00, 0x08, 0x01, 0x01, 0x00, 0x00, 0x00, 0x00},       // SOS Ns=1 before SOF
			{0xFF, 0xF8, 0x00, 0x0D, 0x01, 0x00, 0x00, 0, 0, 0, 0, 0, 0, 0, 0}, // LSE maxval 0
			{0xFF, 0xF8, 0x00, 0x0D, 0x01, 0xFF, 0xFF, 0, 1, 0, 1, 0, 1, 0, 1},
			{0xFF, 0xC4, 0x00, 0x13, 0x00, 3, 0, 0, 0, 0, 0, 0, 0, 0, 0, 0, 0, 0, 0, 0, 0}, // DHT claims 3 values, has none
		}
		for _, seg := range ins {
			out = append(out, mutant{append(append(clone(b[:2]), seg...), b[2:]...), "struct.insert-front"})
			if end <= len(b) && len(segs) > 0 {
				last := segs[len(segs)-1]
				out = append(out, mutant{append(append(clone(b[:last.off]), seg...), b[last.off:]...), "struct.insert-before-sos"})
			}
		}
		// EOI directly after each segment (decoders with an EOI path before any scan)
		for _, s := range segs {
			e := s.payload + s.plen
			out = append(out, mutant{append(clone(b[:e]), 0xFF, 0xD9), "struct.eoi-after"})
		}
		// restart markers / stray markers inside the entropy-coded data
		if end < len(b) {
			for k := 0; k < 4; k++ {
				pos := end + rng.Intn(len(b)-end)
				mk := []byte{0xFF, byte(0xD0 + rng.Intn(8))}
				if k == 3 {
					mk = []byte{0xFF, byte(rng.Pick(0x01, 0xC4, 0xDA, 0xFE, 0xFF, 0x7F, 0x80))}
				}
				out = append(out, mutant{append(append(clone(b[:pos]), mk...), b[pos:]...), "struct.scan-marker"})
			}
		}
	}
	return out
}

// fieldMutantsJ2K: field-targeted corruption of a 15444-1 codestream.
func fieldMutantsJ2K(b []byte, rng *Rand) []mutant {
	var out []mutant
	segs, _ := j2kSegments(b)
	for si, s := range segs {
		if s.lenOff < 0 {
			continue
		}
		L := s.plen + 2
		for _, v := range append(append([]int{}, lenVals...), L-1, L+1, L+2, len(b)-s.lenOff, len(b)-s.lenOff+1) {
			if v >= 0 && v <= 0xFFFF && v != L {
				set16(b, s.lenOff, v, "field.seglen", &out)
			}
		}
		p := s.payload
		switch s.marker {
		case 0x51: // SIZ
			for _, v := range []int{0, 1, 2, 0x4000, 0x8000, 0xFFFF} {
				set16(b, p, v, "field.siz.rsiz", &out)
			}
			names := []string{"xsiz", "ysiz", "xosiz", "yosiz", "xtsiz", "ytsiz", "xtosiz", "ytosiz"}
			for k, nm := range names {
				for _, v := range u32Vals {
					set32(b, p+2+4*k, v, "field.siz."+nm, &out)
				}
			}
			// both extents 2^32-1, both tile sizes 0, offsets beyond extents
			c := clone(b)
			if p+38 <= len(c) {
				for k := 0; k < 8; k++ {
					c[p+2+k] = 0xFF
				}
				out = append(out, mutant{c, "field.siz.extents-max"})
				c = clone(b)
				for k := 0; k < 8; k++ {
					c[p+18+k] = 0
				}
				out = append(out, mutant{c, "field.siz.tiles-zero"})
				c = clone(b)
				copy(c[p+10:p+18], c[p+2:p+10]) // XOsiz=Xsiz, YOsiz=Ysiz
				out = append(out, mutant{c, "field.siz.offset-eq-extent"})
				c = clone(b)
				c[p+21], c[p+25] = 1, 1 // tiny tiles 1x1 (only low byte)
				c[p+18], c[p+19], c[p+20], c[p+22], c[p+23], c[p+24] = 0, 0, 0, 0, 0, 0
				out = append(out, mutant{c, "field.siz.tiles-1x1"})
			}
			for _, v := range csizVals {
				set16(b, p+34, v, "field.siz.csiz", &out)
			}
			for k := 0; k < 4; k++ {
				for _, v := range []int{0, 1, 7, 15, 16, 31, 36, 37, 38, 0x7F, 0x80, 0x87, 0xA5, 0xFF} {
					setByte(b, p+36+3*k, v, "field.siz.ssiz", &out)
				}
				for _, v := range []int{0, 1, 2, 3, 255} {
					setByte(b, p+37+3*k, v, "field.siz.xrsiz", &out)
					setByte(b, p+38+3*k, v, "field.siz.yrsiz", &out)
				}
			}
		case 0x52: // COD
			for _, v := range []int{0, 1, 2, 3, 4, 6, 7, 0x80, 0xFF} {
				setByte(b, p, v, "field.cod.scod", &out)
			}
			for _, v := range []int{0, 1, 2, 3, 4, 5, 255} {
				setByte(b, p+1, v, "field.cod.prog", &out)
			}
			for _, v := range []int{0, 1, 2, 255, 256, 65535} {
				set16(b, p+2, v, "field.cod.layers", &out)
			}
			for _, v := range []int{0, 1, 2, 255} {
				setByte(b, p+4, v, "field.cod.mct", &out)
			}
			for _, v := range []int{0, 1, 2, 5, 6, 7, 31, 32, 33, 64, 128, 255} {
				setByte(b, p+5, v, "field.cod.levels", &out)
			}
			for _, v := range byteEdge {
				setByte(b, p+6, v, "field.cod.cbw", &out)
				setByte(b, p+7, v, "field.cod.cbh", &out)
			}
			for _, v := range []int{0, 1, 2, 4, 8, 16, 32, 0x3F, 0x40, 0x41, 0x7F, 0x80, 0xC0, 0xFF} {
				setByte(b, p+8, v, "field.cod.cbstyle", &out)
			}
			for _, v := range []int{0, 1, 2, 3, 255} {
				setByte(b, p+9, v, "field.cod.transform", &out)
			}
			for k := 10; k < s.plen; k++ {
				for _, v := range []int{0x00, 0x01, 0x10, 0x11, 0x0F, 0xF0, 0xFF} {
					setByte(b, p+k, v, "field.cod.precinct", &out)
				}
			}
		case 0x5C: // QCD
			for _, v := range []int{0, 1, 2, 3, 0x1F, 0x20, 0x22, 0x40, 0x41, 0x42, 0x5F, 0xE0, 0xFF} {
				setByte(b, p, v, "field.qcd.sqcd", &out)
			}
			for k := 1; k < s.plen && k < 8; k++ {
				for _, v := range []int{0, 8, 0xF8, 0xFF} {
					setByte(b, p+k, v, "field.qcd.spqcd", &out)
				}
			}
		case 0x90: // SOT
			for _, v := range []int{0, 1, 2, 255, 256, 65535} {
				set16(b, p, v, "field.sot.isot", &out)
			}
			tileLen := uint32(len(b) - s.off)
			for _, v := range append(append([]uint32{}, u32Vals...), 12, 13, 14, 15, tileLen-3, tileLen-2, tileLen-1, tileLen, tileLen+1) {
				set32(b, p+2, v, "field.sot.psot", &out)
			}
			for _, v := range []int{0, 1, 2, 254, 255} {
				setByte(b, p+6, v, "field.sot.tpsot", &out)
				setByte(b, p+7, v, "field.sot.tnsot", &out)
			}
		default:
			// other segments (COC QCC POC RGN COM MCT MCC MCO CAP TLM ...): edge values in the first bytes
			for k := 0; k < s.plen && k < 12; k++ {
				for _, v := range []int{0, 1, 0x7F, 0x80, 0xFF} {
					setByte(b, p+k, v, fmt.Sprintf("field.seg%02x", s.marker), &out)
				}
			}
		}
		segEnd := s.payload + s.plen
		out = append(out, mutant{append(clone(b[:s.off]), b[segEnd:]...), "struct.drop"})
		out = append(out, mutant{append(append(clone(b[:segEnd]), b[s.off:segEnd]...), b[segEnd:]...), "struct.dup"})
		if si > 0 {
			out = append(out, mutant{append(append(append(clone(b[:2]), b[s.off:segEnd]...), b[2:s.off]...), b[segEnd:]...), "struct.tofront"})
		}
	}
	// inserted segments of every marker type the parser knows, short and random payloads,
	// in the main header (before the first SOT) and in the tile-part header (before SOD)
	var sotOff, sodOff = -1, -1
	for _, s := range segs {
		if s.marker == 0x90 && sotOff < 0 {
			sotOff = s.off
		}
		if s.marker == 0x93 && sodOff < 0 {
			sodOff = s.off
		}
	}
	for _, m := range []byte{0x52, 0x53, 0x5C, 0x5D, 0x5E, 0x5F, 0x64, 0x74, 0x75, 0x77, 0x50, 0x55, 0x57, 0x58, 0x60, 0x61, 0x63, 0x51, 0x90} {
		for _, n := range []int{0, 1, 2, 3, 5, 9, 12, 24} {
			seg := []byte{0xFF, m, byte((n + 2) >> 8), byte(n + 2)}
			for k := 0; k < n; k++ {
				seg = append(seg, byte(rng.Pick(0, 0, 1, 2, 0xFF, rng.Intn(256))))
			}
			if sotOff > 0 {
				out = append(out, mutant{append(append(clone(b[:sotOff]), seg...), b[sotOff:]...), fmt.Sprintf("struct.insert-main-%02x", m)})
			}
			if sodOff > 0 && n%2 == 1 {
				out = append(out, mutant{append(append(clone(b[:sodOff]), seg...), b[sodOff:]...), fmt.Sprintf("struct.insert-tile-%02x", m)})
			}
		}
		// the same marker with a length field below 2
		for _, l := range []int{0, 1} {
			seg := []byte{0xFF, m, 0, byte(l)}
			if sotOff > 0 {
				out = append(out, mutant{append(append(clone(b[:sotOff]), seg...), b[sotOff:]...), fmt.Sprintf("struct.insert-main-%02x-shortlen", m)})
			}
			if sodOff > 0 {
				out = append(out, mutant{append(append(clone(b[:sodOff]), seg...), b[sodOff:]...), fmt.Sprintf("struct.insert-tile-%02x-shortlen", m)})
			}
		}
	}
	return out
}

// fieldMutantsRLE: corruption of the 64-byte RLE header.
func fieldMutantsRLE(b []byte, rng *Rand) []mutant {
	var out []mutant
	if len(b) < 64 {
		return out
	}
	le32 := func(off int, v uint32, mut string) {
		c := clone(b)
		c[off], c[off+1], c[off+2], c[off+3] = byte(v), byte(v>>8), byte(v>>16), byte(v>>24)
		out = append(out, mutant{c, mut})
	}
	for _, v := range []uint32{0, 1, 2, 3, 4, 6, 12, 14, 15, 16, 17, 255, 0x7FFFFFFF, 0x80000000, 0xFFFFFFFF} {
		le32(0, v, "field.rle.nseg")
	}
	for k := 1; k < 16; k++ {
		for _, v := range []uint32{0, 1, 63, 64, 65, uint32(len(b) - 1), uint32(len(b)), uint32(len(b) + 1), 0x7FFFFFFF, 0x80000000, 0xFFFFFFFF} {
			le32(4*k, v, "field.rle.offset")
		}
	}
	// control bytes
	for k := 0; k < 24 && 64 < len(b); k++ {
		c := clone(b)
		c[64+rng.Intn(len(b)-64)] = byte(rng.Pick(0, 1, 0x7F, 0x80, 0x81, 0xFF))
		out = append(out, mutant{c, "field.rle.control"})
	}
	return out
}

// truncations: every proper prefix (or, for long streams, every prefix up to `dense` bytes and
// a sample of the longer ones).
func truncations(b []byte, dense int, sample int, rng *Rand) []mutant {
	var out []mutant
	for n := 0; n < len(b) && n <= dense; n++ {
		out = append(out, mutant{clone(b[:n]), "trunc"})
	}
	for k := 0; k < sample && len(b) > dense+1; k++ {
		n := dense + 1 + rng.Intn(len(b)-dense-1)
		out = append(out, mutant{clone(b[:n]), "trunc"})
	}
	return out
}

// havoc: fuzz-like stacked random edits.
func havoc(b []byte, rng *Rand, hdr int) mutant {
	c := clone(b)
	n := 1 + rng.Intn(4)
	for k := 0; k < n && len(c) > 0; k++ {
		lim := len(c)
		if hdr > 0 && hdr < lim && rng.Intn(3) > 0 {
			lim = hdr // mostly in the header
		}
		pos := rng.Intn(lim)
		switch rng.Intn(9) {
		case 0:
			c[pos] ^= 1 << uint(rng.Intn(8))
		case 1:
			c[pos] = byte(rng.Intn(256))
		case 2:
			c[pos] = byte(byteEdge[rng.Intn(len(byteEdge))])
		case 3: // delete a chunk
			l := 1 + rng.Intn(8)
			if pos+l > len(c) {
				l = len(c) - pos
			}
			c = append(c[:pos], c[pos+l:]...)
		case 4: // insert random bytes
			l := 1 + rng.Intn(8)
			ins := make([]byte, l)
			for i := range ins {
				ins[i] = byte(rng.Pick(0, 0xFF, rng.Intn(256)))
			}
			c = append(c[:pos], append(ins, c[pos:]...)...)
		case 5: // duplicate a chunk
			l := 1 + rng.Intn(16)
			if pos+l > len(c) {
				l = len(c) - pos
			}
			c = append(c[:pos+l], append(clone(c[pos:pos+l]), c[pos+l:]...)...)
		case 6: // 16-bit edge value
			if pos+1 < len(c) {
				v := rng.Pick(0, 1, 2, 0xFFFF, 0x8000, 0x7FFF, 0x100, 0xFF)
				c[pos], c[pos+1] = byte(v>>8), byte(v)
			}
		case 7: // add/sub small
			c[pos] += byte(rng.Range(-3, 3))
		case 8: // overwrite with a chunk from elsewhere
			l := 1 + rng.Intn(8)
			src := rng.Intn(len(c))
			for i := 0; i < l && pos+i < len(c) && src+i < len(c); i++ {
				c[pos+i] = c[src+i]
			}
		}
		if len(c) > maxInput {
			c = c[:maxInput]
		}
	}
	return mutant{c, "havoc"}
}

// randomAfterPrefix: a valid start-of-image prefix followed by random bytes with a high
// density of 0xFF / marker bytes.
func randomAfterPrefix(fam string, rng *Rand) mutant {
	var c []byte
	var markers []byte
	switch fam {
	case famJ2K:
		c = []byte{0xFF, 0x4F}
		markers = []byte{0x51, 0x52, 0x53, 0x5C, 0x5D, 0x5E, 0x5F, 0x64, 0x74, 0x75, 0x77, 0x90, 0x93, 0xD9, 0x50, 0x55, 0x58}
	default:
		c = []byte{0xFF, 0xD8}
		markers = []byte{0xC0, 0xC1, 0xC3, 0xC4, 0xDB, 0xDD, 0xDA, 0xD9, 0xF7, 0xF8, 0xE0, 0xFE, 0xD0, 0xC2}
	}
	n := rng.Intn(96)
	for len(c) < 2+n {
		switch rng.Intn(6) {
		case 0:
			c = append(c, 0xFF, markers[rng.Intn(len(markers))])
		case 1: // marker + plausible length
			c = append(c, 0xFF, markers[rng.Intn(len(markers))], 0, byte(rng.Intn(24)))
		case 2:
			c = append(c, byte(byteEdge[rng.Intn(len(byteEdge))]))
		default:
			c = append(c, byte(rng.Intn(256)))
		}
	}
	return mutant{c, "random-after-prefix"}
}

// splice of two valid streams at random cut points (header of one, rest of the other).
func splice(a, b []byte, ha, hb int, rng *Rand) mutant {
	ca := rng.Intn(len(a) + 1)
	cb := rng.Intn(len(b) + 1)
	if rng.Bool() && ha > 0 && ha <= len(a) && hb > 0 && hb <= len(b) {
		ca, cb = ha, hb // header of a + body of b
	}
	c := append(clone(a[:ca]), b[cb:]...)
	if len(c) > maxInput {
		c = c[:maxInput]
	}
	return mutant{c, "splice"}
}
