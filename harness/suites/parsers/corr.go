// corr.go: correspondence run — the extracted Coq header-parser models (coq/Parsers, ops in
// ocaml/ops_parsers.ml) against the Go decoders, through the public Decode API.
//
//	model op    Go entry point                 Coq function (file)
//	prs_jlsl    jpegls/lossless.Decode         jlsl_decode   (PrsJls.v)
//	prs_jlsn    jpegls/nearlossless.Decode     jlsn_decode   (PrsJls.v)
//	prs_jll     lossless.Decode                jll_decode    (PrsJpeg.v)
//	prs_sv1     lossless14sv1.Decode           sv1_decode    (PrsJpeg.v)
//	prs_bl      baseline.Decode                bl_decode     (PrsBaseline.v)
//	prs_j2k     jpeg2000.Decoder.Decode        k_main_header (PrsJ2k.v)
//	prs_declared  SniffAny (sniff.go)          declared_S    (PrsOutcome.v)
//	prs_rle     codec[RLE].Decode, any FrameInfo rle_frame_prefix (PrsRle.v): model err => Go err, never a panic
//
// Observable (outcome class, and the parsed header fields when both sides deliver them):
//   - model `panic`  <=> Go panics at a site inside the modelled header functions
//   - model `err`    <=> Go returns an error that is not an entropy-decoder ("scan stage") error
//   - model `ok:w,h,c,bits[,near]` => Go either succeeds with exactly these values, or fails /
//     panics inside the entropy decoder, which the models do not cover ("reached-scan")
//
// For JPEG 2000 the inputs are cut right after the main header (first SOT marker kept), so the
// tile-part code — which reuses parseQCD/parseCOD — is never reached; Go then reports
// "failed to parse tile" / "no tiles", i.e. "main header passed".
package parsers

import (
	"fmt"
	"regexp"
	"strings"

	. "verif/harness/vhlib"
)

type corrTarget struct {
	op, entry, fam string
	seedPrefix     []string       // seeds whose streams exercise this decoder's own header path
	scanErr        *regexp.Regexp // error messages that can only come from the entropy decoder stage
	hdrSites       *regexp.Regexp // panic sites that belong to modelled header functions
}

var corrTargets = []corrTarget{
	{"prs_jlsl", "jpegls/lossless.Decode", famJLS, []string{"jls-", "jlsnear-"},
		regexp.MustCompile(`^(decode regular|decode run|context index|runLength|runInterruption|run length exceeds|read |highBits|not enough bits|unexpected end of data|marker encountered|cannot read)`),
		regexp.MustCompile(`context\.go:computeThresholds|context\.go:ComputeCodingParameters|jpeg/standard/reader\.go|jpegls/lossless/decoder\.go:Decoder\.(parse|init|decode$)`)},
	{"prs_jlsn", "jpegls/nearlossless.Decode", famJLS, []string{"jlsnear-", "jls-"},
		regexp.MustCompile(`^(decode regular|decode run|context index|runLength|runInterruption|run length exceeds|read |highBits|not enough bits|unexpected end of data|marker encountered|cannot read)`),
		regexp.MustCompile(`context\.go:computeThresholds|context\.go:ComputeCodingParameters|jpeg/standard/reader\.go|jpegls/nearlossless/decoder\.go:Decoder\.(parse|apply|decode$)`)},
	{"prs_jll", "lossless.Decode", famJPEG, []string{"lossless-", "sv1-"},
		regexp.MustCompile(`^(huffman table \d+ not defined|EOF|unexpected EOF|invalid JPEG data|huffman decode error)`),
		regexp.MustCompile(`huffman\.go:HuffmanTable\.Build|jpeg/standard/reader\.go|jpeg/lossless/decoder\.go:(Decoder\.parse|Decode$)`)},
	{"prs_sv1", "lossless14sv1.Decode", famJPEG, []string{"sv1-", "lossless-"},
		regexp.MustCompile(`^(invalid Huffman table|EOF|unexpected EOF|invalid JPEG data|huffman decode error)`),
		regexp.MustCompile(`huffman\.go:HuffmanTable\.Build|jpeg/standard/reader\.go|jpeg/lossless14sv1/decoder\.go:(Decoder\.parse|Decode$)`)},
	{"prs_bl", "baseline.Decode", famJPEG, []string{"baseline-", "extended-"},
		regexp.MustCompile(`^(invalid Huffman table|EOF|unexpected EOF|invalid JPEG data|huffman decode error)`),
		regexp.MustCompile(`huffman\.go:HuffmanTable\.Build|jpeg/standard/reader\.go|jpeg/standard/utils\.go:DivCeil|jpeg/baseline/decoder\.go:(Decoder\.parse|Decoder\.decodeScan|Decode$)`)},
	{"prs_j2k", "jpeg2000.Decoder.Decode", famJ2K, []string{"j2k-", "htj2k-", "codec.9", "codec.20"},
		nil, regexp.MustCompile(`jpeg2000/codestream/parser\.go`)},
}

var j2kHdrErr = regexp.MustCompile(`^failed to parse codestream: (failed to read SOC|expected SOC marker|failed to parse main header)`)

// cutAtSOT keeps a JPEG 2000 stream up to and including the first SOT marker bytes.
func cutAtSOT(b []byte) []byte {
	segs, end := j2kSegments(b)
	for _, s := range segs {
		if s.marker == 0x90 {
			return clone(b[:min(len(b), s.off+2)])
		}
	}
	return clone(b[:min(end, len(b))])
}

// implClass canonicalises the Go result for comparison with a model reply.
func (t *corrTarget) implClass(r *Res) string {
	switch r.Status {
	case "ok":
		f := strings.Split(r.Detail, ",")
		switch t.op {
		case "prs_jlsl":
			if len(f) >= 4 {
				return "ok:" + strings.Join(f[:4], ",") + ",0"
			}
		case "prs_jlsn":
			if len(f) >= 6 {
				return "ok:" + strings.Join(f[:4], ",") + "," + f[5]
			}
		case "prs_jll", "prs_sv1":
			if len(f) >= 4 {
				return "ok:" + strings.Join(f[:4], ",")
			}
		case "prs_bl":
			if len(f) >= 4 {
				return "ok:" + strings.Join(f[:3], ",") + ",8"
			}
		case "prs_j2k":
			return "passed:" + r.Detail
		}
		return "ok:?"
	case "err":
		if t.op == "prs_j2k" {
			if j2kHdrErr.MatchString(r.Detail) {
				return "err"
			}
			return "passed"
		}
		if t.scanErr != nil && t.scanErr.MatchString(r.Detail) {
			return "scan"
		}
		return "err"
	case "panic", "crash":
		cl, site, _, _ := r.panicParts()
		if r.Status == "crash" && cl == "out-of-memory" {
			return "oom"
		}
		if t.hdrSites.MatchString(site) {
			return "panic"
		}
		if t.op == "prs_bl" && strings.Contains(site, "decodeBlock") {
			// the model covers only the first table lookup of decodeBlock (dcTables[Td] of the
			// first component); acTables[Ta] / qtables[Tq] are reached after entropy decoding
			return "blockpanic"
		}
		if t.op == "prs_j2k" {
			return "passed"
		}
		return "scan"
	}
	return r.Status
}

// compare returns the two strings handed to CorrEq (equal = consistent).
func (t *corrTarget) compare(model string, impl string) (m, i string) {
	var maxAlloc int64
	if k := strings.Index(model, " a="); k >= 0 {
		fmt.Sscanf(model[k+3:], "%d", &maxAlloc)
		model = model[:k]
	}
	if impl == "oom" {
		// the Go process died with a fatal out-of-memory under the harness address-space limit:
		// consistent iff the model recorded an allocation request of at least 1 GiB
		if maxAlloc >= 1<<30 {
			return "oom", "oom"
		}
		return model, "oom"
	}
	if impl == "blockpanic" {
		if model == "panic" {
			return "panic", "panic"
		}
		if strings.HasPrefix(model, "ok:") {
			return "ok:reached-scan", "ok:reached-scan"
		}
		return model, impl
	}
	switch {
	case t.op == "prs_j2k":
		// model ok:<9 SIZ fields> ; impl passed[:w,h,c,bits]
		if strings.HasPrefix(model, "ok:") && strings.HasPrefix(impl, "passed") {
			if strings.HasPrefix(impl, "passed:") {
				var x, y, xo, yo, xt, yt, xto, yto, cs uint64
				fmt.Sscanf(model[3:], "%d,%d,%d,%d,%d,%d,%d,%d,%d", &x, &y, &xo, &yo, &xt, &yt, &xto, &yto, &cs)
				want := fmt.Sprintf("passed:%d,%d,%d", (x-xo)&0xFFFFFFFF, (y-yo)&0xFFFFFFFF, cs)
				got := strings.Split(impl, ",")
				if len(got) >= 3 {
					return want, strings.Join(got[:3], ",")
				}
			}
			return "passed", "passed"
		}
		return model, impl
	case strings.HasPrefix(model, "ok:") && impl == "scan":
		return "ok:reached-scan", "ok:reached-scan"
	// an EOF reported while the model is still in the header loop is a header error; the same
	// message after SOS is a scan error: the model decides which of the two applies
	case model == "err" && impl == "scan":
		return "err", "err"
	}
	return model, impl
}

// runCorr: header-focused cases for every modelled decoder.
func runCorr(c *Ctx, seeds []*Seed) {
	if !c.HasModel() {
		c.R.Note("correspondence skipped: no extracted model")
		return
	}
	rng := c.Rng.Fork()
	type job struct {
		t    *corrTarget
		data []byte
		mut  string
	}
	var jobs []job
	perSeed := c.N(40, 500)
	for ti := range corrTargets {
		t := &corrTargets[ti]
		n := 0
		for _, s := range seeds {
			if s.Fam != t.fam || !s.Small {
				continue
			}
			okp := false
			for _, p := range t.seedPrefix {
				if strings.HasPrefix(s.Name, p) {
					okp = true
				}
			}
			if !okp {
				continue
			}
			n++
			if !c.Thor && n%4 != 1 || c.Thor && n%2 != 1 {
				continue
			}
			var ms []mutant
			ms = append(ms, mutant{s.Data, "valid"})
			for _, m := range truncations(s.Data, min(len(s.Data), s.HdrLen+6), 0, rng) {
				ms = append(ms, m)
			}
			var fm []mutant
			if t.fam == famJ2K {
				fm = fieldMutantsJ2K(s.Data, rng)
			} else {
				fm = fieldMutantsJPEG(s.Data, rng)
			}
			for k, m := range fm {
				if c.Thor || k%3 == n%3 {
					ms = append(ms, m)
				}
			}
			hl := min(s.HdrLen, len(s.Data))
			for k := 0; k < perSeed && hl > 0; k++ {
				d := clone(s.Data)
				d[rng.Intn(hl)] = byte(rng.Pick(rng.Intn(256), byteEdge[rng.Intn(len(byteEdge))]))
				ms = append(ms, mutant{d, "hdrbyte"})
			}
			for k := 0; k < perSeed/4; k++ {
				ms = append(ms, havoc(s.Data, rng, s.HdrLen))
			}
			for _, m := range ms {
				d := m.data
				if t.fam == famJ2K {
					d = cutAtSOT(d)
				}
				if len(d) > 4096 {
					continue
				}
				jobs = append(jobs, job{t, d, m.mut})
			}
		}
		for k := 0; k < c.N(300, 3000); k++ {
			jobs = append(jobs, job{t, randomAfterPrefix(t.fam, rng).data, "random-after-prefix"})
		}
	}
	cases := make([]Case, len(jobs))
	for i, j := range jobs {
		cases[i] = Case{Entry: j.t.entry, Data: j.data, Seed: "corr", Mut: j.mut, Fam: j.t.fam}
	}
	// a hanging decoder must not cost one watchdog period per header case: after c08TotalCap watchdog
	// kills the entry point is left out of the rest of the correspondence run (and said so)
	cb := newBrake()
	skip := func(cs *Case) string {
		cb.mu.Lock()
		defer cb.mu.Unlock()
		if cb.total[cs.Entry] >= c08TotalCap {
			cb.skipped[cs.Entry]++
			cb.blocked[cs.Entry] = fmt.Sprintf("%d watchdog timeouts", cb.total[cs.Entry])
			return "blocked"
		}
		return ""
	}
	res := RunCases(runCfg{Workers: c.Work, Timeout: watchdog, ASLimit: asLimit, Skip: skip, Note: cb.note}, cases)
	if bs, n := cb.summary(); n > 0 {
		c.R.Note("correspondence brake: %s", bs)
	}
	ParallelFor(len(jobs), c.Work, func(i int) {
		j := jobs[i]
		if res[i].Status == "timeout" || res[i].Status == "skipped" {
			return
		}
		hx := hexs(j.data)
		model := c.M.Call(j.t.op, hx)
		impl := j.t.implClass(&res[i])
		m, im := j.t.compare(model, impl)
		cls := m
		if k := strings.Index(cls, ":"); k > 0 && !strings.HasPrefix(cls, "ok:reached") {
			cls = cls[:k]
		}
		c.R.Case(fmt.Sprintf("corr|%s|%x", j.t.op, h64(j.data)), len(j.data) >= 2, "corr."+j.t.op+"."+cls, "corr.mut."+j.mut)
		c.CorrEq(j.t.op, j.t.op+":"+cls, m, im, map[string]interface{}{"entry": j.t.entry, "hex": hx, "go_status": res[i].Status, "go_detail": clipStr(res[i].Detail, 200), "model_raw": model})
		// the independent walker (declared S) against its Coq twin
		s := SniffAny(j.data).S()
		d := SniffAny(j.data)
		sat := satMul3(d.W, d.H, d.C)
		if !d.Found {
			sat = 0
		}
		if sat > 1<<61 {
			sat = 1 << 61
		}
		_ = s
		c.CorrEq("prs_declared", "prs_declared", c.M.Call("prs_declared", hx), fmt.Sprint(sat), map[string]interface{}{"hex": hx})
	})
	// RLE with arbitrary frame descriptions: everything up to the output allocation
	var rleSeeds []*Seed
	for _, s := range seeds {
		if s.Fam == famRLE {
			rleSeeds = append(rleSeeds, s)
		}
	}
	nr := c.N(800, 20000)
	rcases := make([]Case, 0, nr)
	for k := 0; k < nr; k++ {
		var data []byte
		var f FI
		switch {
		case len(rleSeeds) > 0 && k%3 == 0: // valid stream with its own description
			s := rleSeeds[rng.Intn(len(rleSeeds))]
			data, f = s.Data, s.FI
		case len(rleSeeds) > 0 && k%3 == 1:
			s := rleSeeds[rng.Intn(len(rleSeeds))]
			data, f = havoc(s.Data, rng, 64).data, arbitraryFI(rng, k)
		default:
			data = make([]byte, rng.Pick(1, 63, 64, 65, 100))
			for i := range data {
				data[i] = byte(rng.Pick(0, 1, 2, 3, 64, rng.Intn(256)))
			}
			f = arbitraryFI(rng, k)
		}
		f.Frames, f.NilParams, f.Nil = 1, false, false
		ff := f
		rcases = append(rcases, Case{Entry: "codec[RLE].Decode", Data: data, FI: &ff, Seed: "corr", Mut: "rle-frameinfo", Fam: famRLE})
	}
	rres := RunCases(runCfg{Workers: c.Work, Timeout: watchdog, ASLimit: asLimit}, rcases)
	ParallelFor(len(rcases), c.Work, func(i int) {
		cs := &rcases[i]
		if rres[i].Status == "timeout" {
			return
		}
		model := c.M.Call("prs_rle", fmt.Sprint(cs.FI.W), fmt.Sprint(cs.FI.H), fmt.Sprint(cs.FI.BA), fmt.Sprint(cs.FI.SPP), hexs(cs.Data))
		var maxAlloc int64
		if k := strings.Index(model, " a="); k >= 0 {
			fmt.Sscanf(model[k+3:], "%d", &maxAlloc)
			model = model[:k]
		}
		impl := rres[i].Status
		if impl == "crash" {
			impl = "panic"
			if cl, _, _, _ := rres[i].panicParts(); cl == "out-of-memory" && maxAlloc >= 1<<30 {
				impl = "oom-as-modelled"
			}
		}
		m, im := model, impl
		switch {
		case model == "ok:" && (impl == "ok" || impl == "err" || impl == "oom-as-modelled"):
			m, im = "reached-segments", "reached-segments" // later errors come from the segment decoder (coq/RLE)
		}
		c.R.Case(fmt.Sprintf("corr|prs_rle|%x|%s", h64(cs.Data), cs.FI.String()), true, "corr.prs_rle."+m)
		c.CorrEq("prs_rle", "prs_rle:"+m, m, im, map[string]interface{}{"entry": cs.Entry, "hex": hexs(cs.Data), "fi": cs.FI.String(), "go_detail": clipStr(rres[i].Detail, 200), "model_raw": model})
	})
	c.R.Note("correspondence: %d header cases over %d modelled decoders, %d RLE frame-description cases", len(jobs), len(corrTargets), len(rcases))
}
