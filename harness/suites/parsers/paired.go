// paired.go: structure-aware mutators for JPEG 2000 marker segments whose fields are paired or
// refer to one another (a single-field corruption is filtered out by the consistency checks of
// the decoder; the pair has to be changed together): MCC input/output component lists, MCC ->
// MCT indices and array types, MCT element type / size vs the component count, MCO -> MCC stage
// indices, and component / resolution / layer references in RGN, COC, QCC, POC against the
// declared Csiz, levels and layers. Only segments the parser actually reads are targeted
// (PPM/PPT/PLT/TLM are skipped by skipSegment).
package parsers

import (
	"fmt"

	. "verif/harness/vhlib"
)

func be16at(b []byte, o int) int { return int(b[o])<<8 | int(b[o+1]) }

// buildMCC assembles an MCC segment (one collection).
func buildMCC(index byte, ctype byte, ins, outs []int, two bool, tmcc uint32) []byte {
	p := []byte{0, 0, index, 0, 0, 0, 1, ctype}
	putIDs := func(ids []int, declared int) {
		n := declared
		if two {
			n |= 0x8000
		}
		p = append(p, byte(n>>8), byte(n))
		for _, id := range ids {
			if two {
				p = append(p, byte(id>>8), byte(id))
			} else {
				p = append(p, byte(id))
			}
		}
	}
	putIDs(ins, len(ins))
	putIDs(outs, len(outs))
	p = append(p, byte(tmcc>>16), byte(tmcc>>8), byte(tmcc))
	l := len(p) + 2
	return append([]byte{0xFF, 0x75, byte(l >> 8), byte(l)}, p...)
}

type mccFields struct {
	index, ctype byte
	ins, outs    []int
	two1, two2   bool
	tmcc         uint32
	ok           bool
}

func parseMCC(b []byte, s segment) (f mccFields) {
	p := b[s.payload : s.payload+s.plen]
	if len(p) < 10 {
		return
	}
	f.index, f.ctype = p[2], p[7]
	o := 8
	read := func() (ids []int, two bool, ok bool) {
		if o+2 > len(p) {
			return nil, false, false
		}
		n := be16at(p, o)
		o += 2
		two = n&0x8000 != 0
		n &= 0x7FFF
		for k := 0; k < n; k++ {
			if two {
				if o+2 > len(p) {
					return nil, two, false
				}
				ids = append(ids, be16at(p, o))
				o += 2
			} else {
				if o+1 > len(p) {
					return nil, two, false
				}
				ids = append(ids, int(p[o]))
				o++
			}
		}
		return ids, two, true
	}
	var ok1, ok2 bool
	f.ins, f.two1, ok1 = read()
	f.outs, f.two2, ok2 = read()
	if !ok1 || !ok2 || o+3 > len(p) {
		return
	}
	f.tmcc = uint32(p[o])<<16 | uint32(p[o+1])<<8 | uint32(p[o+2])
	f.ok = true
	return
}

func replaceSeg(b []byte, s segment, seg []byte) []byte {
	return append(append(clone(b[:s.off]), seg...), b[s.payload+s.plen:]...)
}
func insertAt(b []byte, off int, seg []byte) []byte {
	return append(append(clone(b[:off]), seg...), b[off:]...)
}

// pairedMutantsJ2K: see the file comment. Mutator classes are named pair.<segment>.<what>.
func pairedMutantsJ2K(b []byte, rng *Rand) []mutant {
	var out []mutant
	segs, _ := j2kSegments(b)
	csiz, levels, layers := 1, 0, 1
	var cod, qcd *segment
	sotOff, sodOff := -1, -1
	for i := range segs {
		s := &segs[i]
		switch s.marker {
		case 0x51:
			if s.plen >= 36 {
				csiz = be16at(b, s.payload+34)
			}
		case 0x52:
			if cod == nil && s.plen >= 10 {
				cod = s
				layers = be16at(b, s.payload+2)
				levels = int(b[s.payload+5])
			}
		case 0x5C:
			if qcd == nil {
				qcd = s
			}
		case 0x90:
			if sotOff < 0 {
				sotOff = s.off
			}
		case 0x93:
			if sodOff < 0 {
				sodOff = s.off
			}
		}
	}
	// code-block style bits x shortened tile data: a style bit changes which decoding entry point gets the
	// block (TERMALL/bypass: per-pass lengths from the packet header), a truncated tile makes the lengths the
	// packet header announced exceed the bytes present - each alone is handled, the pair is its own path
	if cod != nil && cod.plen >= 10 && len(b) > cod.payload+8 {
		for _, bit := range []byte{0x04, 0x01, 0x05, 0x02, 0x08, 0x10, 0x20, 0x3F} {
			for _, cut := range []int{1, 2, 3, 4, 5, 6, 8, 11, 16, 24, len(b) / 8, len(b) / 4} {
				if cut <= 0 || cut+2 >= len(b)-cod.payload-12 {
					continue
				}
				for _, keepEOC := range []bool{false, true} {
					m := append([]byte(nil), b[:len(b)-cut]...)
					if keepEOC && len(m) >= 2 {
						m = append(append([]byte(nil), b[:len(b)-cut-2]...), 0xFF, 0xD9)
					}
					m[cod.payload+8] |= bit
					out = append(out, mutant{m, "pair.cod.style-bit+truncated-tile"})
				}
			}
		}
	}
	bad := []int{csiz, csiz + 1, 200, 255}
	for _, s := range segs {
		switch s.marker {
		case 0x75: // MCC
			f := parseMCC(b, s)
			if !f.ok {
				continue
			}
			n := len(f.ins)
			for k := 0; k < n && k < len(f.outs); k++ {
				for _, v := range bad {
					ins, outs := append([]int(nil), f.ins...), append([]int(nil), f.outs...)
					ins[k], outs[k] = v, v
					out = append(out, mutant{replaceSeg(b, s, buildMCC(f.index, f.ctype, ins, outs, false, f.tmcc)), "pair.mcc.id-both-out-of-range"})
				}
				for _, v := range []int{csiz, 0x3FFF, 0x7FFF, 0xFFFF, 256} {
					ins, outs := append([]int(nil), f.ins...), append([]int(nil), f.outs...)
					ins[k], outs[k] = v, v
					out = append(out, mutant{replaceSeg(b, s, buildMCC(f.index, f.ctype, ins, outs, true, f.tmcc)), "pair.mcc.id-both-2byte"})
				}
			}
			for _, v := range bad { // empty output list: the input list alone decides
				ins := append([]int(nil), f.ins...)
				ins[rng.Intn(n)] = v
				out = append(out, mutant{replaceSeg(b, s, buildMCC(f.index, f.ctype, ins, nil, false, f.tmcc)), "pair.mcc.in-bad-out-empty"})
			}
			out = append(out, mutant{replaceSeg(b, s, buildMCC(f.index, f.ctype, f.ins, nil, false, f.tmcc)), "pair.mcc.out-empty"})
			out = append(out, mutant{replaceSeg(b, s, buildMCC(f.index, f.ctype, nil, nil, false, f.tmcc)), "pair.mcc.ncomp-0"})
			{ // duplicates and permutations in both lists
				dup := make([]int, n)
				rev := make([]int, n)
				for i := range dup {
					dup[i], rev[i] = f.ins[0], f.ins[n-1-i]
				}
				out = append(out, mutant{replaceSeg(b, s, buildMCC(f.index, f.ctype, dup, dup, false, f.tmcc)), "pair.mcc.duplicate-ids"})
				out = append(out, mutant{replaceSeg(b, s, buildMCC(f.index, f.ctype, rev, rev, false, f.tmcc)), "pair.mcc.permuted-ids"})
				longer := append(append([]int(nil), f.ins...), f.ins...)
				out = append(out, mutant{replaceSeg(b, s, buildMCC(f.index, f.ctype, longer, longer, false, f.tmcc)), "pair.mcc.more-ids-than-components"})
				if n > 1 {
					out = append(out, mutant{replaceSeg(b, s, buildMCC(f.index, f.ctype, f.ins[:n-1], f.outs[:n-1], false, f.tmcc)), "pair.mcc.fewer-ids"})
				}
			}
			{ // declared count 0x7FFF with the short lists that are there
				seg := buildMCC(f.index, f.ctype, f.ins, f.outs, false, f.tmcc)
				c := clone(seg)
				c[12], c[13] = 0x7F, 0xFF
				out = append(out, mutant{replaceSeg(b, s, c), "pair.mcc.ncomp-7fff"})
			}
			deco, off := f.tmcc&0xFF, (f.tmcc>>8)&0xFF
			for _, t := range []uint32{
				f.tmcc&^0xFFFF | 9 | 9<<8,      // both indices name a missing MCT
				f.tmcc&^0xFFFF | off | deco<<8, // swapped: wrong array type on both
				f.tmcc&^0xFFFF | deco | deco<<8,
				f.tmcc&^0xFFFF | off | off<<8,
				f.tmcc &^ 0xFFFF, // no arrays at all
				f.tmcc ^ 0x10000, // reversibility flag vs element type
				f.tmcc&^0xFFFF | deco | 9<<8,
			} {
				out = append(out, mutant{replaceSeg(b, s, buildMCC(f.index, f.ctype, f.ins, f.outs, false, t)), "pair.mcc.mct-index"})
			}
			for _, ct := range []byte{0, 2, 3, 255} {
				out = append(out, mutant{replaceSeg(b, s, buildMCC(f.index, ct, f.ins, f.outs, false, f.tmcc)), "pair.mcc.collection-type"})
			}
			for _, ix := range []byte{0, f.index + 1, 255} { // MCC index no MCO stage names
				out = append(out, mutant{replaceSeg(b, s, buildMCC(ix, f.ctype, f.ins, f.outs, false, f.tmcc)), "pair.mcc.index-vs-mco"})
			}
		case 0x74: // MCT: Zmct(2) Imct(2) Ymct(2) data
			if s.plen < 6 {
				continue
			}
			p := s.payload
			imct := be16at(b, p+2)
			data := b[p+6 : p+s.plen]
			mk := func(im int, d []byte) []byte {
				l := 2 + 6 + len(d)
				seg := []byte{0xFF, 0x74, byte(l >> 8), byte(l), 0, 0, byte(im >> 8), byte(im), 0, 0}
				return append(seg, d...)
			}
			for et := 0; et < 4; et++ { // element type vs the size of the data that is there
				out = append(out, mutant{replaceSeg(b, s, mk(imct&^(3<<10)|et<<10, data)), "pair.mct.element-type-vs-size"})
			}
			for at := 0; at < 4; at++ {
				out = append(out, mutant{replaceSeg(b, s, mk(imct&^(3<<8)|at<<8, data)), "pair.mct.array-type"})
			}
			for _, n := range []int{0, 1, 3, len(data) / 2, len(data) - 1, len(data) - 4} {
				if n >= 0 && n < len(data) {
					out = append(out, mutant{replaceSeg(b, s, mk(imct, data[:n])), "pair.mct.array-shorter"})
				}
			}
			out = append(out, mutant{replaceSeg(b, s, mk(imct, append(clone(data), data...))), "pair.mct.array-longer"})
			for _, ix := range []int{0, 9, 255} {
				out = append(out, mutant{replaceSeg(b, s, mk(imct&^0xFF|ix, data)), "pair.mct.index-vs-mcc"})
			}
			{ // extreme values in the array (NaN / Inf / int32 min as the element type has it)
				d := clone(data)
				for i := 0; i+4 <= len(d); i += 4 {
					copy(d[i:], [][]byte{{0x7F, 0xC0, 0, 0}, {0x7F, 0x80, 0, 0}, {0x80, 0, 0, 0}, {0xFF, 0xFF, 0xFF, 0xFF}}[(i/4)%4])
				}
				out = append(out, mutant{replaceSeg(b, s, mk(imct, d)), "pair.mct.extreme-values"})
			}
			out = append(out, mutant{insertAt(b, s.off, b[s.off:s.payload+s.plen]), "pair.mct.duplicate-index"})
		case 0x77: // MCO: Nmco stage indices
			if s.plen < 1 {
				continue
			}
			mk := func(n int, st []byte) []byte {
				l := 2 + 1 + len(st)
				return append([]byte{0xFF, 0x77, byte(l >> 8), byte(l), byte(n)}, st...)
			}
			stages := b[s.payload+1 : s.payload+s.plen]
			out = append(out, mutant{replaceSeg(b, s, mk(1, []byte{99})), "pair.mco.stage-missing-mcc"})
			out = append(out, mutant{replaceSeg(b, s, mk(len(stages)*2, append(clone(stages), stages...))), "pair.mco.stage-twice"})
			out = append(out, mutant{replaceSeg(b, s, mk(0, nil)), "pair.mco.no-stage"})
			out = append(out, mutant{replaceSeg(b, s, mk(255, stages)), "pair.mco.count-255"})
			out = append(out, mutant{replaceSeg(b, s, mk(len(stages)+1, append(clone(stages), 0))), "pair.mco.stage-zero"})
		}
	}
	// segments referring to components / resolutions / layers: inserted into the main header
	// (before the first SOT) and into the first tile-part header (before SOD)
	cb := 1
	if csiz > 256 {
		cb = 2
	}
	comp := func(v int) []byte {
		if cb == 2 {
			return []byte{byte(v >> 8), byte(v)}
		}
		return []byte{byte(v)}
	}
	seg := func(m byte, payload []byte) []byte {
		l := len(payload) + 2
		return append([]byte{0xFF, m, byte(l >> 8), byte(l)}, payload...)
	}
	var ins []struct {
		seg []byte
		mut string
	}
	compVals := []int{csiz, csiz + 1, 200, 255}
	if cb == 2 {
		compVals = []int{csiz, 0x3FFF, 0xFFFF}
	}
	for _, v := range compVals { // RGN: Crgn Srgn SPrgn
		for _, sp := range []byte{0, 31, 255} {
			ins = append(ins, struct {
				seg []byte
				mut string
			}{seg(0x5E, append(comp(v), byte(rng.Pick(0, 0, 1, 255)), sp)), "pair.rgn.component-out-of-range"})
		}
	}
	for _, sp := range []byte{31, 32, 37, 64, 255} { // valid component, shift beyond the sample precision
		ins = append(ins, struct {
			seg []byte
			mut string
		}{seg(0x5E, append(comp(0), 0, sp)), "pair.rgn.shift-vs-precision"})
	}
	if cod != nil { // COC: Ccoc Scoc + SPcod of the COD
		sp := b[cod.payload+5 : cod.payload+cod.plen]
		for _, v := range compVals {
			ins = append(ins, struct {
				seg []byte
				mut string
			}{seg(0x53, append(append(comp(v), b[cod.payload]&1), sp...)), "pair.coc.component-out-of-range"})
		}
		for _, lv := range []int{0, levels + 1, levels + 5, 32} { // per-component levels differ from COD (and from QCD's subband count)
			c := append([]byte(nil), sp...)
			c[0] = byte(lv)
			ins = append(ins, struct {
				seg []byte
				mut string
			}{seg(0x53, append(append(comp(0), 0), c[:5]...)), "pair.coc.levels-vs-cod-qcd"})
		}
		for _, cbx := range [][2]byte{{0, 0}, {8, 0}, {0, 8}, {4, 4}, {6, 2}} { // code-block size differs per component
			c := append([]byte(nil), sp[:5]...)
			c[1], c[2] = cbx[0], cbx[1]
			ins = append(ins, struct {
				seg []byte
				mut string
			}{seg(0x53, append(append(comp(csiz-1), 0), c...)), "pair.coc.codeblock-vs-cod"})
		}
	}
	if qcd != nil { // QCC: Cqcc Sqcc SPqcc
		sq := b[qcd.payload : qcd.payload+qcd.plen]
		for _, v := range compVals {
			ins = append(ins, struct {
				seg []byte
				mut string
			}{seg(0x5D, append(comp(v), sq...)), "pair.qcc.component-out-of-range"})
		}
		if len(sq) >= 2 {
			for _, n := range []int{1, 2, len(sq) / 2, len(sq) - 1} { // fewer step sizes than subbands
				if n >= 1 && n < len(sq) {
					ins = append(ins, struct {
						seg []byte
						mut string
					}{seg(0x5D, append(comp(0), sq[:n]...)), "pair.qcc.fewer-steps-than-subbands"})
				}
			}
			for _, st := range []byte{0x00, 0x01, 0x02, 0x20, 0x41, 0x42, 0xE2} { // style vs the data present
				c := append([]byte(nil), sq...)
				c[0] = st
				ins = append(ins, struct {
					seg []byte
					mut string
				}{seg(0x5D, append(comp(csiz-1), c...)), "pair.qcc.style-vs-size"})
			}
		}
	}
	// POC: RSpoc CSpoc LYEpoc REpoc CEpoc Ppoc
	poc := func(rs, cs, lye, re, ce, pp int) []byte {
		p := []byte{byte(rs)}
		p = append(p, comp(cs)...)
		p = append(p, byte(lye>>8), byte(lye), byte(re))
		p = append(p, comp(ce)...)
		return append(p, byte(pp))
	}
	for _, e := range [][6]int{
		{0, 0, layers, levels + 1, csiz, 0},          // the whole image: plausible
		{0, 0, 65535, 33, csiz + 5, 0},               // every end beyond the declared range
		{levels + 2, 0, layers, levels + 1, csiz, 1}, // start resolution beyond the end
		{0, csiz + 1, layers, levels + 1, csiz, 2},   // start component beyond the end
		{0, 0, 0, 0, 0, 3},                           // empty ranges
		{0, 0, layers, levels + 1, csiz, 255},        // unknown progression order
		{33, 200, 1, 255, 255, 4},
		{0, 0, layers + 100, levels + 1, 200, 2},
	} {
		ins = append(ins, struct {
			seg []byte
			mut string
		}{seg(0x5F, poc(e[0], e[1], e[2], e[3], e[4], e[5])), "pair.poc.range-vs-declared"})
	}
	ins = append(ins, struct {
		seg []byte
		mut string
	}{seg(0x5F, append(poc(0, 0, layers, 1, csiz, 0), poc(1, 0, layers, levels+1, csiz, 4)...)), "pair.poc.two-entries"})
	for _, x := range ins {
		if sotOff > 0 {
			out = append(out, mutant{insertAt(b, sotOff, x.seg), x.mut + ".main"})
		}
		if sodOff > 0 {
			out = append(out, mutant{insertAt(b, sodOff, x.seg), x.mut + ".tile"})
		}
	}
	_ = fmt.Sprint
	return out
}
