// Package parsers: failing-input search for C08 (no decoder panics) and C09 (bounded time and
// memory), plus the correspondence run for the Coq header-parser models of coq/Parsers.
//
// entries.go: the table of ALL decoding entry points of the library.
package parsers

import (
	"fmt"
	"strconv"
	"strings"

	"github.com/cocosip/go-dicom/pkg/dicom/transfer"
	dcodec "github.com/cocosip/go-dicom/pkg/imaging/codec"
	"github.com/cocosip/go-dicom/pkg/imaging/imagetypes"

	helpers "github.com/cocosip/go-dicom-codecs/codec"
	"github.com/cocosip/go-dicom-codecs/jpeg/baseline"
	"github.com/cocosip/go-dicom-codecs/jpeg/extended"
	jlossless "github.com/cocosip/go-dicom-codecs/jpeg/lossless"
	"github.com/cocosip/go-dicom-codecs/jpeg/lossless14sv1"
	"github.com/cocosip/go-dicom-codecs/jpeg2000"
	"github.com/cocosip/go-dicom-codecs/jpeg2000/htj2k"
	_ "github.com/cocosip/go-dicom-codecs/jpeg2000/lossless"
	_ "github.com/cocosip/go-dicom-codecs/jpeg2000/lossy"
	"github.com/cocosip/go-dicom-codecs/jpeg2000/t2"
	lslossless "github.com/cocosip/go-dicom-codecs/jpegls/lossless"
	lsnear "github.com/cocosip/go-dicom-codecs/jpegls/nearlossless"
	_ "github.com/cocosip/go-dicom-codecs/rle"
)

// Family of streams an entry point is at home with.
const (
	famJPEG = "jpeg" // T.81 marker syntax (baseline, extended, lossless, SV1)
	famJLS  = "jls"  // T.87 (same marker syntax, SOF55/LSE)
	famJ2K  = "j2k"  // 15444-1 codestream (also HTJ2K)
	famRLE  = "rle"  // DICOM RLE
)

// FI is the wire form of imagetypes.FrameInfo (nil allowed) plus how Parameters are passed.
type FI struct {
	Nil                           bool
	W, H, BA, BS, HB, SPP, PR, PC uint16
	Photo                         string
	NilParams                     bool // pass nil instead of GetDefaultParameters()
	Frames                        int  // 1 normally; 0 = no frame added; 2 = the frame twice
}

func (f *FI) String() string {
	if f == nil {
		return "-"
	}
	if f.Nil {
		return fmt.Sprintf("nil/%d/%d", b2i(f.NilParams), f.Frames)
	}
	ph := f.Photo
	if ph == "" {
		ph = "."
	}
	return fmt.Sprintf("%d,%d,%d,%d,%d,%d,%d,%d,%s/%d/%d", f.W, f.H, f.BA, f.BS, f.HB, f.SPP, f.PR, f.PC, ph, b2i(f.NilParams), f.Frames)
}

func b2i(b bool) int {
	if b {
		return 1
	}
	return 0
}

func parseFI(s string) *FI {
	if s == "-" || s == "" {
		return nil
	}
	parts := strings.Split(s, "/")
	f := &FI{Frames: 1}
	if len(parts) >= 3 {
		f.NilParams = parts[1] == "1"
		f.Frames, _ = strconv.Atoi(parts[2])
	}
	if parts[0] == "nil" {
		f.Nil = true
		return f
	}
	xs := strings.Split(parts[0], ",")
	if len(xs) < 9 {
		return f
	}
	u := func(i int) uint16 { v, _ := strconv.Atoi(xs[i]); return uint16(v) }
	f.W, f.H, f.BA, f.BS, f.HB, f.SPP, f.PR, f.PC = u(0), u(1), u(2), u(3), u(4), u(5), u(6), u(7)
	if xs[8] != "." {
		f.Photo = xs[8]
	}
	return f
}

func (f *FI) frameInfo() *imagetypes.FrameInfo {
	if f == nil || f.Nil {
		return nil
	}
	return &imagetypes.FrameInfo{Width: f.W, Height: f.H, BitsAllocated: f.BA, BitsStored: f.BS, HighBit: f.HB,
		SamplesPerPixel: f.SPP, PixelRepresentation: f.PR, PlanarConfiguration: f.PC, PhotometricInterpretation: f.Photo}
}

// Entry is one decoding entry point. Run returns (info, err): info = canonical description
// of the successful result ("w,h,c,bits,len" where the API returns them).
type Entry struct {
	Name   string
	Fam    string
	Codec  bool // goes through the DICOM codec interface (needs an FI)
	Run    func(data []byte, fi *FI) (string, error)
	Source string // Go source location of the entry point
}

var tsTable = []struct {
	short string
	fam   string
	ts    func() *transfer.Syntax
	src   string
}{
	{"RLE", famRLE, func() *transfer.Syntax { return transfer.RLELossless }, "rle/rle.go:(*Codec).Decode"},
	{".50", famJPEG, func() *transfer.Syntax { return transfer.JPEGBaseline8Bit }, "jpeg/baseline/codec.go:(*Codec).Decode"},
	{".51", famJPEG, func() *transfer.Syntax { return transfer.JPEGProcess2_4 }, "jpeg/extended/codec.go:(*Codec).Decode"},
	{".57", famJPEG, func() *transfer.Syntax { return transfer.JPEGLossless }, "jpeg/lossless/codec.go:(*Codec).Decode"},
	{".70", famJPEG, func() *transfer.Syntax { return transfer.JPEGLosslessSV1 }, "jpeg/lossless14sv1/codec.go:(*LosslessSV1Codec).Decode"},
	{".80", famJLS, func() *transfer.Syntax { return transfer.JPEGLSLossless }, "jpegls/lossless/codec.go:(*JPEGLSLosslessCodec).Decode"},
	{".81", famJLS, func() *transfer.Syntax { return transfer.JPEGLSNearLossless }, "jpegls/nearlossless/codec.go:(*JPEGLSNearLosslessCodec).Decode"},
	{".90", famJ2K, func() *transfer.Syntax { return transfer.JPEG2000Lossless }, "jpeg2000/lossless/codec.go:(*Codec).Decode"},
	{".91", famJ2K, func() *transfer.Syntax { return transfer.JPEG2000Lossy }, "jpeg2000/lossy/codec.go:(*Codec).Decode"},
	{".92", famJ2K, func() *transfer.Syntax { return transfer.JPEG2000Part2MultiComponentLosslessOnly }, "jpeg2000/lossless/codec.go:(*Codec).Decode"},
	{".93", famJ2K, func() *transfer.Syntax { return transfer.JPEG2000Part2MultiComponent }, "jpeg2000/lossy/codec.go:(*Codec).Decode"},
	{".201", famJ2K, func() *transfer.Syntax { return transfer.HTJ2KLossless }, "jpeg2000/htj2k/codec.go:(*Codec).Decode"},
	{".202", famJ2K, func() *transfer.Syntax { return transfer.HTJ2KLosslessRPCL }, "jpeg2000/htj2k/codec.go:(*Codec).Decode"},
	{".203", famJ2K, func() *transfer.Syntax { return transfer.HTJ2K }, "jpeg2000/htj2k/codec.go:(*Codec).Decode"},
}

func okInfo(pix []byte, w, h, c, b int) string {
	return fmt.Sprintf("%d,%d,%d,%d,%d", w, h, c, b, len(pix))
}

// Entries is the table of all decode entry points (8 package/object level + 14 codecs).
var Entries = buildEntries()
var entryByName = map[string]*Entry{}

func buildEntries() []*Entry {
	es := []*Entry{
		{Name: "baseline.Decode", Fam: famJPEG, Source: "jpeg/baseline/decoder.go:Decode", Run: func(d []byte, _ *FI) (string, error) {
			p, w, h, c, err := baseline.Decode(d)
			return okInfo(p, w, h, c, 8), err
		}},
		{Name: "extended.Decode", Fam: famJPEG, Source: "jpeg/extended/decoder.go:Decode", Run: func(d []byte, _ *FI) (string, error) {
			p, w, h, c, b, err := extended.Decode(d)
			return okInfo(p, w, h, c, b), err
		}},
		{Name: "lossless.Decode", Fam: famJPEG, Source: "jpeg/lossless/decoder.go:Decode", Run: func(d []byte, _ *FI) (string, error) {
			p, w, h, c, b, err := jlossless.Decode(d)
			return okInfo(p, w, h, c, b), err
		}},
		{Name: "lossless14sv1.Decode", Fam: famJPEG, Source: "jpeg/lossless14sv1/decoder.go:Decode", Run: func(d []byte, _ *FI) (string, error) {
			p, w, h, c, b, err := lossless14sv1.Decode(d)
			return okInfo(p, w, h, c, b), err
		}},
		{Name: "jpegls/lossless.Decode", Fam: famJLS, Source: "jpegls/lossless/decoder.go:Decode", Run: func(d []byte, _ *FI) (string, error) {
			p, w, h, c, b, err := lslossless.Decode(d)
			return okInfo(p, w, h, c, b), err
		}},
		{Name: "jpegls/nearlossless.Decode", Fam: famJLS, Source: "jpegls/nearlossless/decoder.go:Decode", Run: func(d []byte, _ *FI) (string, error) {
			p, w, h, c, b, near, err := lsnear.Decode(d)
			return okInfo(p, w, h, c, b) + "," + strconv.Itoa(near), err
		}},
		{Name: "jpeg2000.Decoder.Decode", Fam: famJ2K, Source: "jpeg2000/decoder.go:(*Decoder).Decode", Run: func(d []byte, _ *FI) (string, error) {
			dec := jpeg2000.NewDecoder()
			err := dec.Decode(d)
			if err != nil {
				return "", err
			}
			return fmt.Sprintf("%d,%d,%d,%d", dec.Width(), dec.Height(), dec.Components(), dec.BitDepth()), nil
		}},
		{Name: "jpeg2000.Decoder.Decode+HT", Fam: famJ2K, Source: "jpeg2000/decoder.go:(*Decoder).Decode with SetBlockDecoderFactory(htj2k.NewHTDecoder)", Run: func(d []byte, _ *FI) (string, error) {
			dec := jpeg2000.NewDecoder()
			dec.SetBlockDecoderFactory(func(width, height int, _ int) t2.BlockDecoder { return htj2k.NewHTDecoder(width, height) })
			err := dec.Decode(d)
			if err != nil {
				return "", err
			}
			return fmt.Sprintf("%d,%d,%d,%d", dec.Width(), dec.Height(), dec.Components(), dec.BitDepth()), nil
		}},
	}
	for _, t := range tsTable {
		t := t
		es = append(es, &Entry{Name: "codec[" + t.short + "].Decode", Fam: t.fam, Codec: true, Source: t.src,
			Run: func(d []byte, fi *FI) (string, error) {
				c, ok := dcodec.GetGlobalRegistry().GetCodec(t.ts())
				if !ok {
					return "", fmt.Errorf("codec not registered")
				}
				if fi == nil {
					fi = &FI{Nil: true, Frames: 1}
				}
				src := helpers.NewTestPixelData(fi.frameInfo())
				for i := 0; i < fi.Frames; i++ {
					_ = src.AddFrame(d)
				}
				dst := helpers.NewTestPixelData(fi.frameInfo())
				var params dcodec.Parameters
				if !fi.NilParams {
					params = c.GetDefaultParameters()
				}
				err := c.Decode(src, dst, params)
				if err != nil {
					return "", err
				}
				n := 0
				for i := 0; i < dst.FrameCount(); i++ {
					f, _ := dst.GetFrame(i)
					n += len(f)
				}
				return fmt.Sprintf("%d,%d", dst.FrameCount(), n), nil
			}})
	}
	for _, e := range es {
		entryByName[e.Name] = e
	}
	return es
}

// RegisteredCodecs reports which of the 14 transfer syntaxes have a codec in the global registry.
func RegisteredCodecs() (have, missing []string) {
	for _, t := range tsTable {
		if _, ok := dcodec.GetGlobalRegistry().GetCodec(t.ts()); ok {
			have = append(have, t.short)
		} else {
			missing = append(missing, t.short)
		}
	}
	return
}

func entriesOf(fam string, codec int) []*Entry { // codec: -1 any, 0 package level, 1 codec level
	var out []*Entry
	for _, e := range Entries {
		if (fam == "" || e.Fam == fam) && (codec < 0 || (codec == 1) == e.Codec) {
			out = append(out, e)
		}
	}
	return out
}
