package jpegent

// 12-bit extended sequential codec (jpeg/extended/sequential12.go), entropy part of the decoder:
// model JentModel.ent_decode12 (op jent_decode12) against extended.Encode / extended.Decode.

import (
	"fmt"
	"strings"

	"github.com/cocosip/go-dicom-codecs/jpeg/extended"
	. "verif/harness/vhlib"
)

var classes12 = []string{"flat", "noise", "gradient", "checker", "extreme"}

type img12 struct {
	w, h, q int
	class   string
	px      []byte // little endian, 2 bytes per sample
}

func (k img12) samples() []int {
	smp := make([]int, k.w*k.h)
	for j := range smp {
		smp[j] = int(k.px[2*j]) | int(k.px[2*j+1])<<8
	}
	return smp
}
func (k img12) input() map[string]interface{} {
	return map[string]interface{}{"w": k.w, "h": k.h, "quality": k.q, "class": k.class, "pixels": Hex(k.px)}
}

func genImg12(r *Rand, i, maxDim int) img12 {
	k := img12{class: classes12[i%len(classes12)], w: r.Range(1, maxDim), h: r.Range(1, maxDim), q: r.Range(1, 100)}
	switch r.Intn(6) {
	case 0:
		k.w = 8 * r.Range(1, maxDim/8)
	case 1:
		k.h = 8 * r.Range(1, maxDim/8)
	case 2:
		k.w, k.h = r.Pick(1, 7, 8, 9, maxDim), r.Pick(1, 7, 8, 9, maxDim)
	}
	if i%5 == 0 {
		k.q = []int{1, 50, 100, 2, 99, 25, 75}[(i/5)%7]
	}
	base, ph, per := r.Intn(4096), r.Intn(2), r.Range(1, 3)
	dx, dy := r.Range(-200, 200), r.Range(-200, 200)
	k.px = make([]byte, 2*k.w*k.h)
	for y := 0; y < k.h; y++ {
		for x := 0; x < k.w; x++ {
			var v int
			switch k.class {
			case "flat":
				v = base
			case "noise":
				v = r.Intn(4096)
			case "gradient":
				v = base + dx*x + dy*y
			case "checker":
				v = 4095 * (((x / per) + (y / per) + ph) & 1)
			default: // extreme: 0/4095 alternations
				switch per {
				case 1:
					v = 4095 * ((x + y + ph) & 1)
				case 2:
					v = 4095 * ((x + ph) & 1)
				default:
					v = 4095 * r.Intn(2)
				}
			}
			if v < 0 {
				v = 0
			}
			if v > 4095 {
				v = 4095
			}
			k.px[2*(y*k.w+x)], k.px[2*(y*k.w+x)+1] = byte(v), byte(v>>8)
		}
	}
	return k
}

func ext12DecodeClass(s []byte) (class, msg string) {
	var err error
	pan, pm := Safely(func() { _, _, _, _, _, err = extended.Decode(s) })
	if pan {
		return "panic", pm
	}
	if err != nil {
		return "err", err.Error()
	}
	return "ok", ""
}

func classOf(rep string) string {
	if strings.HasPrefix(rep, "ok:") {
		return "ok"
	}
	return rep
}

// ---------- C11 ----------

func runExt12C11(c *Ctx) {
	c.R.Rule = "jpegent ext12: every case is an extended.Encode 12-bit stream with at least one coded block"
	if !c.HasModel() {
		c.R.Note("jpegent: no model executable, ext12 C11 correspondence skipped")
		return
	}
	rng := c.Rng.Fork()
	n := c.N(30, 300)
	cases := make([]img12, n)
	for i := range cases {
		cases[i] = genImg12(rng, i, 40)
	}
	ParallelFor(n, c.Work, func(i int) {
		k := cases[i]
		in := k.input()
		s, err := extended.Encode(k.px, k.w, k.h, 1, 12, k.q)
		if err != nil {
			c.R.Fail("corr", "jent12_decode", "jent:c11:ext12:encode", "extended.Encode failed: "+err.Error(), in)
			return
		}
		in["stream"] = Hex(s)
		l := walk(s)
		if l.err != "" || len(l.dht) != 2 || l.w != k.w || l.h != k.h || len(s) < l.sosEnd+3 || s[len(s)-2] != 0xFF || s[len(s)-1] != 0xD9 {
			c.R.Fail("corr", "jent12_decode", "jent:c11:ext12:layout", fmt.Sprintf("unexpected stream layout (%s, %d DHT segments)", l.err, len(l.dht)), in)
			return
		}
		c.R.Case(fmt.Sprintf("ext12:%dx%d:q%d:%s:%s", k.w, k.h, k.q, k.class, Hex(k.px)), true, "c11.ext12", "c11.ext12.class."+k.class, qBucket(k.q))
		want := c.M.Call("dct_coefs12", itoa(k.w), itoa(k.h), itoa(k.q), Ints(k.samples()))
		got := c.M.Call("jent_decode12", dhtArg(l.payloads(s)), itoa(nmcu(k.w, k.h)), Hex(s[l.sosEnd:]))
		c.CorrEq("jent12_decode", "jent:c11:ext12:decode", got, "ok:"+want, in)
		class, _ := ext12DecodeClass(s)
		c.CorrEq("jent12_decode_class", "jent:c11:ext12:decode-class", classOf(got), class, in)
	})
}

// ---------- C08 ----------

func runExt12C08(c *Ctx) {
	c.R.Rule = "jpegent ext12: every case is an extended.Encode 12-bit stream mutated inside the scan bytes / a DHT payload (or anywhere, Go-only); nontrivial = the mutated stream differs from the encoder's"
	rng := c.Rng.Fork()
	nb := c.N(30, 300)
	perBase := c.N(15, 40)
	anyPer := c.N(20, 100)
	type base struct {
		k    img12
		seed uint64
	}
	bases := make([]base, nb)
	for i := range bases {
		bases[i] = base{genImg12(rng, i, 24), rng.U64()}
	}
	ParallelFor(nb, c.Work, func(bi int) {
		k := bases[bi].k
		r := NewRand(bases[bi].seed)
		s, err := extended.Encode(k.px, k.w, k.h, 1, 12, k.q)
		if err != nil {
			c.R.Note("jpegent ext12 C08: extended.Encode failed on a generated image: %v", err)
			return
		}
		l := walk(s)
		if l.err != "" || len(l.dht) == 0 || len(s) < l.sosEnd+3 {
			c.R.Fail("corr", "jent12_class", "jent:c08:ext12:layout", "unexpected stream layout "+l.err, k.input())
			return
		}
		nm := nmcu(k.w, k.h)
		check := func(m []byte, kind string, modelled bool) {
			in := map[string]interface{}{"kind": kind, "w": k.w, "h": k.h, "quality": k.q, "stream": Hex(m)}
			class, msg := ext12DecodeClass(m)
			c.R.Oracle("jent12_nopanic")
			if class == "panic" {
				c.R.Fail("oracle", "jent12_nopanic", "jent:c08:extended.Decode:panic:"+panicSig(msg), "extended.Decode panicked: "+msg, in)
			}
			c.R.Case("ext12:"+Hex(m), string(m) != string(s), "c08.ext12.kind."+kind, "c08.ext12.go."+class)
			if !modelled || !c.HasModel() {
				return
			}
			ml := walk(m)
			if ml.err != "" {
				c.R.Fail("corr", "jent12_class", "jent:c08:ext12:harness", "mutated stream lost its header structure: "+ml.err, in)
				return
			}
			args := []string{dhtArg(ml.payloads(m)), itoa(nm), Hex(m[ml.sosEnd:])}
			rep := c.M.Call("jent_decode12", args...)
			in["go_error"] = msg
			in["model_op"] = "jent_decode12 " + strings.Join(args, " ")
			c.R.Count("c08.ext12.modelled." + class)
			if class == "err" {
				c.R.Count("c08.ext12.modelled.err." + panicSig(msg))
			}
			c.CorrEq("jent12_class", "jent:c08:ext12:class:"+kind, classOf(rep), class, in)
		}
		check(s, "none", true)
		for j := 0; j < perBase; j++ {
			var kind string
			if j%3 == 2 {
				kind = dhtKinds[r.Intn(len(dhtKinds))]
			} else {
				kind = scanKinds[r.Intn(len(scanKinds))]
			}
			check(mutateModelled(r, s, l, kind), kind, true)
		}
		for j := 0; j < anyPer; j++ {
			m, kind := mutateAnywhere(r, s)
			check(m, kind, false)
		}
	})
}
