package jpegent

// C15, restart intervals: VALID baseline streams with DRI + RSTn from the independent
// reference encoder (refenc_copy.go). (a) the model's entropy decoder reads the reference
// coefficients back; (b) the T.81 spec encoder with restart intervals (JentRst) reproduces the
// reference scan bytes; (c) baseline.Decode has the model's class and picture; (d) oracle:
// baseline.Decode accepts every one of these streams with the right geometry.

import (
	"fmt"
	"strings"

	"github.com/cocosip/go-dicom-codecs/jpeg/baseline"
	. "verif/harness/vhlib"
)

type rstCase struct {
	k     img
	o     refOpts
	which string // how the restart interval was chosen
}

func blockStr(b *[64]int) string { return Ints(b[:]) }

func runC15Rst(c *Ctx) {
	c.R.Rule = "jpegent rst: every case is a valid reference-encoder stream; nontrivial = it has a DRI segment and at least one RSTn marker, or more than one MCU"
	rng := c.Rng.Fork()
	n := c.N(40, 400)
	samplings := []string{"gray", "444", "gray", "444", "420", "422", "440", "444"}
	cases := make([]rstCase, n)
	for i := range cases {
		samp := samplings[i%len(samplings)]
		nc := 3
		if samp == "gray" {
			nc = 1
		}
		k := img{nc: nc, class: classes[rng.Intn(len(classes))], w: rng.Range(1, 40), h: rng.Range(1, 40), q: rng.Range(1, 100)}
		switch rng.Intn(4) {
		case 0:
			k.w, k.h = rng.Pick(1, 8, 16, 17, 33, 40), rng.Pick(1, 8, 16, 17, 33, 40)
		case 1, 2: // several MCUs, so that restart markers really occur
			k.w, k.h = rng.Range(17, 40), rng.Range(9, 40)
		}
		if i%6 == 0 {
			k.q = []int{1, 50, 100, 10, 90}[(i/6)%5]
		}
		k.px = genPixels(rng, k.class, k.w, k.h, k.nc)
		o := defaultOpts(nc, k.q)
		o.Sampling = samp
		o.OptHuff = rng.Bool()
		o.Merge = rng.Intn(3) == 0
		o.JFIF = rng.Intn(3) == 0
		_, mc, mr := refLayout(nc, k.w, k.h, o)
		nm := mc * mr
		which := []string{"1", "2", "3", "5", "n-1", "n", "n+1", "0", "n-1", "2"}[rng.Intn(10)]
		switch which {
		case "n-1":
			o.Restart = nm - 1
		case "n":
			o.Restart = nm
		case "n+1":
			o.Restart = nm + 1
		default:
			fmt.Sscan(which, &o.Restart)
		}
		if o.Restart < 0 {
			o.Restart = 0
		}
		cases[i] = rstCase{k, o, which}
	}
	ParallelFor(n, c.Work, func(i int) {
		k, o := cases[i].k, cases[i].o
		var planes [][]byte
		if k.nc == 1 {
			planes = [][]byte{k.px}
		} else {
			planes = rgbToPlanes(k.px, k.w, k.h)
		}
		s, comps, mc, mr := refEncodeC(planes, k.w, k.h, o)
		nm := mc * mr
		in := map[string]interface{}{"w": k.w, "h": k.h, "comps": k.nc, "class": k.class, "opts": o, "mcus": nm, "pixels": Hex(k.px), "stream": Hex(s)}
		sig := fmt.Sprintf("%s:ri=%s", o.Sampling, cases[i].which)
		l := walk(s)
		if l.err != "" || len(l.dht) == 0 || l.ri != o.Restart || l.w != k.w || l.h != k.h || len(s) < l.sosEnd+3 {
			c.R.Fail("corr", "c15rst_decode", "jent:c15rst:layout:"+sig, "harness: unexpected layout of the reference stream "+l.err, in)
			return
		}
		compArg, nmw, e := l.compsFromHeader()
		if e != "" || nmw != nm {
			c.R.Fail("corr", "c15rst_decode", "jent:c15rst:layout:"+sig, fmt.Sprintf("harness: header components (%s), %d MCUs vs %d", e, nmw, nm), in)
			return
		}
		ps := l.payloads(s)
		rest := s[l.sosEnd:]
		scan := s[l.sosEnd : len(s)-2]
		nrst := 0
		if o.Restart > 0 {
			nrst = (nm - 1) / o.Restart
		}
		c.R.Case(fmt.Sprintf("rst:%s:%d:%s", sig, o.Restart, Hex(s)), nrst > 0 || nm > 1, "c15rst.samp."+o.Sampling, "c15rst.ri."+cases[i].which,
			fmt.Sprintf("c15rst.opthuff.%v", o.OptHuff), fmt.Sprintf("c15rst.merged.%v", o.Merge), fmt.Sprintf("c15rst.has_rst.%v", nrst > 0))

		// ---- (d) oracle + Go class ----
		var d []byte
		var dw, dh, dn int
		var err error
		pan, msg := Safely(func() { d, dw, dh, dn, err = baseline.Decode(s) })
		class := "ok"
		c.R.Oracle("c15rst_accepts")
		if pan {
			class = "panic"
			c.R.Fail("oracle", "c15rst_accepts", "jent:c15rst:baseline.Decode:panic:"+sig, "baseline.Decode panicked on a valid restart stream: "+msg, in)
		} else if err != nil {
			class = "err"
			c.R.Fail("oracle", "c15rst_accepts", "jent:c15rst:baseline.Decode:reject:"+sig, "baseline.Decode rejects a valid restart stream: "+err.Error(), in)
		} else if dw != k.w || dh != k.h || dn != k.nc || len(d) != k.w*k.h*k.nc {
			c.R.Fail("oracle", "c15rst_accepts", "jent:c15rst:baseline.Decode:geometry:"+sig, fmt.Sprintf("decoded %dx%dx%d with %d samples, stream declares %dx%dx%d", dw, dh, dn, len(d), k.w, k.h, k.nc), in)
		}
		if !c.HasModel() {
			return
		}

		// ---- (a) model decoder = reference coefficients, scan order ----
		var want []string
		for my := 0; my < mr; my++ {
			for mx := 0; mx < mc; mx++ {
				for ci, cp := range comps {
					nbx := cp.bw / 8
					for v := 0; v < cp.v; v++ {
						for hh := 0; hh < cp.h; hh++ {
							want = append(want, itoa(ci)+":"+blockStr(&cp.coefs[(my*cp.v+v)*nbx+mx*cp.h+hh]))
						}
					}
				}
			}
		}
		args := []string{dhtArg(ps), compArg, itoa(l.ri), itoa(nm), Hex(rest)}
		in["model_op"] = "jent_decode " + strings.Join(args, " ")
		got := c.M.Call("jent_decode", args...)
		c.CorrEq("c15rst_decode", "jent:c15rst:decode:"+sig, got, "ok:"+strings.Join(want, ";"), in)

		// ---- (c) class and picture ----
		c.CorrEq("c15rst_class", "jent:c15rst:class:"+sig, classOf(got), class, in)
		if class == "ok" && classOf(got) == "ok" && (o.Sampling == "gray" || o.Sampling == "444") {
			rp := c.M.Call("jent_decode_px", dhtArg(ps), compArg, itoa(l.ri), itoa(nm), Hex(rest), itoa(k.w), itoa(k.h), itoa(k.q))
			c.CorrEq("c15rst_pixels", "jent:c15rst:pixels:"+sig, rp, "ok:"+Hex(d), in)
		}

		// ---- (b) spec encoder with restart intervals = reference scan bytes ----
		if o.Sampling != "gray" && o.Sampling != "444" {
			return
		}
		tabs, e := tablesArg(ps)
		if e != "" {
			c.R.Fail("corr", "c15rst_encode", "jent:c15rst:tables:"+sig, "harness: DHT payloads of the reference stream: "+e, in)
			return
		}
		pl := make([]string, len(comps))
		for ci, cp := range comps {
			bs := make([]string, len(cp.coefs))
			for j := range cp.coefs {
				bs[j] = blockStr(&cp.coefs[j])
			}
			pl[ci] = strings.Join(bs, ";")
		}
		var enc string
		switch {
		case k.nc == 1 && l.ri == 0:
			enc = c.M.Call("jent_enc_grey", tabs, pl[0])
		case k.nc == 1:
			enc = c.M.Call("jent_enc_grey_rst", tabs, itoa(l.ri), pl[0])
		case l.ri == 0:
			enc = c.M.Call("jent_enc_rgb", tabs, pl[0], pl[1], pl[2])
		default:
			enc = c.M.Call("jent_enc_rgb_rst", tabs, itoa(l.ri), pl[0], pl[1], pl[2])
		}
		c.CorrEq("c15rst_encode", "jent:c15rst:encode:"+sig, enc, Hex(scan), in)
	})
}
