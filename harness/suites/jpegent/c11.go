package jpegent

// C11, entropy layer: what baseline.Encode writes between the SOS header and EOI is the
// model's Huffman coding of the model's quantised coefficients, and the model's entropy
// decoder reads those coefficients back out of Go's stream.

import (
	"fmt"
	"strings"

	"github.com/cocosip/go-dicom-codecs/jpeg/baseline"
	. "verif/harness/vhlib"
)

// expectedBlocks renders per-plane block lists (each "b;b;...") in scan order as the reply of
// jent_decode: one block per component per MCU, tagged with the component index.
func expectedBlocks(planes []string) (string, string) {
	split := make([][]string, len(planes))
	for i, p := range planes {
		if p == "_" || p == "" {
			return "", "model returned no blocks"
		}
		split[i] = strings.Split(p, ";")
		if len(split[i]) != len(split[0]) {
			return "", "planes with different block counts"
		}
	}
	var sb strings.Builder
	sb.WriteString("ok:")
	for b := 0; b < len(split[0]); b++ {
		for ci := range split {
			if b > 0 || ci > 0 {
				sb.WriteByte(';')
			}
			sb.WriteString(itoa(ci))
			sb.WriteByte(':')
			sb.WriteString(split[ci][b])
		}
	}
	return sb.String(), ""
}

// modelCoefs asks the DCT-stage model for the quantised blocks of the image: one string per
// component plane (grey: dct_coefs8; RGB: jent_coefs_rgb = ycc_planes + enc_plane).
func modelCoefs(c *Ctx, k img) ([]string, string) {
	if k.nc == 1 {
		r := c.M.Call("dct_coefs8", itoa(k.w), itoa(k.h), itoa(k.q), Hex(k.px))
		if strings.HasPrefix(r, "!") || r == "?" {
			return nil, "dct_coefs8: " + r
		}
		return []string{r}, ""
	}
	r := c.M.Call("jent_coefs_rgb", itoa(k.w), itoa(k.h), itoa(k.q), Hex(k.px))
	parts := strings.Split(r, "|")
	if len(parts) != 3 {
		return nil, "jent_coefs_rgb: " + clip(r)
	}
	return parts, ""
}

func clip(s string) string {
	if len(s) > 300 {
		return s[:300] + "..."
	}
	return s
}

func runC11(c *Ctx) {
	c.R.Rule = "jpegent: every case is a baseline.Encode stream with at least one coded block; nontrivial = some block has a non-zero AC coefficient or the image has more than one block"
	rng := c.Rng.Fork()
	n := c.N(60, 600)
	cases := make([]img, 0, n+8)
	// fixed corner cases first: 1x1, 40x40, every named quality
	for _, f := range []img{{w: 1, h: 1, nc: 1, q: 1, class: "flat"}, {w: 1, h: 1, nc: 3, q: 100, class: "noise"},
		{w: 40, h: 40, nc: 3, q: 100, class: "noise"}, {w: 40, h: 40, nc: 1, q: 1, class: "extreme"},
		{w: 40, h: 1, nc: 3, q: 50, class: "extreme"}, {w: 1, h: 40, nc: 1, q: 50, class: "checker"},
		{w: 33, h: 17, nc: 3, q: 1, class: "noise"}, {w: 16, h: 24, nc: 1, q: 100, class: "noise"}} {
		f.px = genPixels(rng, f.class, f.w, f.h, f.nc)
		cases = append(cases, f)
	}
	for i := 0; i < n; i++ {
		cases = append(cases, genImg(rng, i, 40))
	}
	ParallelFor(len(cases), c.Work, func(i int) {
		k := cases[i]
		in := k.input()
		sigc := "grey"
		if k.nc == 3 {
			sigc = "rgb"
		}
		var s []byte
		var err error
		pan, msg := Safely(func() { s, err = baseline.Encode(k.px, k.w, k.h, k.nc, k.q) })
		if pan || err != nil {
			c.R.Oracle("jent_roundtrip")
			c.R.Fail("oracle", "jent_roundtrip", "jent:c11:encode:"+sigc, fmt.Sprintf("baseline.Encode failed: %v %s", err, msg), in)
			return
		}
		in["stream"] = Hex(s)

		// ---- oracle (Go alone): the matching decoder accepts the stream, same geometry ----
		c.R.Oracle("jent_roundtrip")
		var d []byte
		var dw, dh, dn int
		pan, msg = Safely(func() { d, dw, dh, dn, err = baseline.Decode(s) })
		implClass := "ok"
		if pan {
			implClass = "panic"
			c.R.Fail("oracle", "jent_roundtrip", "jent:c11:decode-panic:"+sigc, "baseline.Decode(baseline.Encode(img)) panicked: "+msg, in)
		} else if err != nil {
			implClass = "err"
			c.R.Fail("oracle", "jent_roundtrip", "jent:c11:decode-err:"+sigc, "baseline.Decode rejects the encoder's stream: "+err.Error(), in)
		} else if dw != k.w || dh != k.h || dn != k.nc || len(d) != k.w*k.h*k.nc {
			c.R.Fail("oracle", "jent_roundtrip", "jent:c11:geometry:"+sigc, fmt.Sprintf("decoded %dx%dx%d with %d samples, source %dx%dx%d", dw, dh, dn, len(d), k.w, k.h, k.nc), in)
		}

		if !c.HasModel() {
			c.R.Case(k.key(), true, "c11.nomodel")
			return
		}

		// ---- correspondence ----
		l := walk(s)
		wantDHT := 2
		if k.nc == 3 {
			wantDHT = 4
		}
		if l.err != "" || len(l.dht) != wantDHT || l.w != k.w || l.h != k.h || l.nc != k.nc ||
			len(s) < l.sosEnd+2 || s[len(s)-2] != 0xFF || s[len(s)-1] != 0xD9 {
			c.R.Fail("corr", "jent_layout", "jent:c11:layout:"+sigc, fmt.Sprintf("unexpected stream layout (%s, %d DHT segments)", l.err, len(l.dht)), in)
			return
		}
		ps := l.payloads(s)
		scan := s[l.sosEnd : len(s)-2]
		rest := s[l.sosEnd:]
		planes, e := modelCoefs(c, k)
		if e != "" {
			c.R.Fail("corr", "jent_decode", "jent:c11:model-coefs:"+sigc, e, in)
			return
		}
		want, e := expectedBlocks(planes)
		if e != "" {
			c.R.Fail("corr", "jent_decode", "jent:c11:model-coefs:"+sigc, e, in)
			return
		}
		nontrivial := nmcu(k.w, k.h) > 1 || hasAC(planes)
		c.R.Case(k.key(), nontrivial, "c11."+sigc, "c11.class."+k.class, "c11.size."+k.sizeClass(), qBucket(k.q))
		if i < 3 {
			c.R.Sample(map[string]interface{}{"w": k.w, "h": k.h, "comps": k.nc, "quality": k.q, "class": k.class, "scan_bytes": len(scan)})
		}

		// (1) the model's entropy decoder on Go's tables and scan bytes = the model's coefficients
		got := c.M.Call("jent_decode", dhtArg(ps), compsArg(k.nc), "0", itoa(nmcu(k.w, k.h)), Hex(rest))
		c.CorrEq("jent_decode", "jent:c11:decode:"+sigc, got, want, in)
		// and its outcome class is that of baseline.Decode
		cls := got
		if strings.HasPrefix(cls, "ok:") {
			cls = "ok"
		}
		c.CorrEq("jent_decode_class", "jent:c11:decode-class:"+sigc, cls, implClass, in)
		// and, through the modelled IDCT / colour stage, the picture baseline.Decode returns
		if implClass == "ok" {
			rp := c.M.Call("jent_decode_px", dhtArg(ps), compsArg(k.nc), "0", itoa(nmcu(k.w, k.h)), Hex(rest), itoa(k.w), itoa(k.h), itoa(k.q))
			c.CorrEq("jent_pixels", "jent:c11:pixels:"+sigc, rp, "ok:"+Hex(d), in)
		}

		// (2) the model's entropy encoder on the model's coefficients with Go's tables = Go's scan bytes
		tabs, e := tablesArg(ps)
		if e != "" {
			c.R.Fail("corr", "jent_encode", "jent:c11:tables:"+sigc, "DHT payloads of the encoder: "+e, in)
			return
		}
		var enc string
		if k.nc == 1 {
			enc = c.M.Call("jent_enc_grey", tabs, planes[0])
		} else {
			enc = c.M.Call("jent_enc_rgb", tabs, planes[0], planes[1], planes[2])
		}
		c.CorrEq("jent_encode", "jent:c11:encode:"+sigc, enc, Hex(scan), in)
	})
}

func hasAC(planes []string) bool {
	for _, p := range planes {
		for _, b := range strings.Split(p, ";") {
			f := strings.Split(b, ",")
			for j := 1; j < len(f); j++ {
				if f[j] != "0" {
					return true
				}
			}
		}
	}
	return false
}

func qBucket(q int) string {
	switch {
	case q == 1:
		return "c11.q.1"
	case q == 50:
		return "c11.q.50"
	case q == 100:
		return "c11.q.100"
	case q < 50:
		return "c11.q.2-49"
	default:
		return "c11.q.51-99"
	}
}
