// Package jpegent: correspondence between the extracted Coq model of the entropy (Huffman)
// layer of the baseline JPEG codec (coq/JpegEnt/JentModel.v; ops jent_* of ocaml/ops_jpegent.ml)
// and /repo/jpeg/baseline (encodeBlock/encodeScan, parseDHT/decodeScan/decodeBlock), plus the
// implementation-side oracles that go with it (C11: the decoder accepts what the encoder
// wrote; C08: no panic on mutated streams).
package jpegent

import (
	"fmt"
	"strconv"
	"strings"

	. "verif/harness/vhlib"
)

func Register(s Suites) {
	s.Add("C11", runC11)
	s.Add("C08", runC08)
	s.Add("C15", runC15)
	s.Add("C15", runC15Rst)
	s.Add("C11", runExt12C11)
	s.Add("C08", runExt12C08)
}

// ---------- own marker walk over a stream of baseline.Encode ----------

type dhtSeg struct {
	seg int // offset of the FF C4 marker
	off int // offset of the payload (after marker + length)
	n   int // payload length
}

type layout struct {
	dht    []dhtSeg
	sosEnd int // first byte after the SOS segment
	w, h   int
	nc     int
	ri     int      // DRI value, 0 if there is no DRI segment
	comps  [][3]int // SOF0: id, H, V
	sel    [][3]int // SOS: component selector, Td, Ta
	err    string
}

// compsFromHeader renders the frame components with the scan's table selectors as the
// <comps> argument of jent_decode, and returns the MCU count.
func (l layout) compsFromHeader() (string, int, string) {
	if len(l.comps) == 0 || len(l.sel) != len(l.comps) {
		return "", 0, "frame / scan component lists"
	}
	maxH, maxV := 1, 1
	parts := make([]string, len(l.comps))
	for i, c := range l.comps {
		td, ta := -1, -1
		for _, s := range l.sel {
			if s[0] == c[0] {
				td, ta = s[1], s[2]
			}
		}
		if td < 0 || c[1] < 1 || c[2] < 1 {
			return "", 0, "component without selector"
		}
		if c[1] > maxH {
			maxH = c[1]
		}
		if c[2] > maxV {
			maxV = c[2]
		}
		parts[i] = fmt.Sprintf("%d,%d,%d,%d", c[1], c[2], td, ta)
	}
	n := ((l.w + 8*maxH - 1) / (8 * maxH)) * ((l.h + 8*maxV - 1) / (8 * maxV))
	return strings.Join(parts, ";"), n, ""
}

// walk finds the DHT segments and the end of the SOS header; only the table-specification
// and frame segments before SOS are looked at.
func walk(s []byte) layout {
	var l layout
	if len(s) < 4 || s[0] != 0xFF || s[1] != 0xD8 {
		l.err = "no SOI"
		return l
	}
	p := 2
	for {
		if p+4 > len(s) || s[p] != 0xFF {
			l.err = "marker walk lost"
			return l
		}
		m := s[p+1]
		n := int(s[p+2])<<8 | int(s[p+3])
		if n < 2 || p+2+n > len(s) {
			l.err = "segment length"
			return l
		}
		switch m {
		case 0xC4:
			l.dht = append(l.dht, dhtSeg{seg: p, off: p + 4, n: n - 2})
		case 0xC0, 0xC1:
			d := s[p+4 : p+2+n]
			if len(d) >= 6 {
				l.h = int(d[1])<<8 | int(d[2])
				l.w = int(d[3])<<8 | int(d[4])
				l.nc = int(d[5])
				for i := 0; i < l.nc && 6+3*i+2 < len(d); i++ {
					l.comps = append(l.comps, [3]int{int(d[6+3*i]), int(d[7+3*i] >> 4), int(d[7+3*i] & 15)})
				}
			}
		case 0xDD:
			if n == 4 {
				l.ri = int(s[p+4])<<8 | int(s[p+5])
			}
		case 0xDA:
			d := s[p+4 : p+2+n]
			for i := 0; len(d) > 0 && i < int(d[0]) && 2+2*i < len(d); i++ {
				l.sel = append(l.sel, [3]int{int(d[1+2*i]), int(d[2+2*i] >> 4), int(d[2+2*i] & 15)})
			}
			l.sosEnd = p + 2 + n
			return l
		}
		p += 2 + n
	}
}

func (l layout) payloads(s []byte) [][]byte {
	out := make([][]byte, len(l.dht))
	for i, d := range l.dht {
		out[i] = s[d.off : d.off+d.n]
	}
	return out
}

// dhtArg: payloads hex joined by ";" ("_" for none / for an empty payload)
func dhtArg(ps [][]byte) string {
	if len(ps) == 0 {
		return "_"
	}
	parts := make([]string, len(ps))
	for i, p := range ps {
		parts[i] = Hex(p)
	}
	return strings.Join(parts, ";")
}

// tablesArg derives "dcbits/dcvals/acbits/acvals;..." (one tuple per table id, ids 0..max) from
// well-formed DHT payloads (tcth, 16 counts, values)*.
func tablesArg(ps [][]byte) (string, string) {
	type tv struct{ bits, vals []int }
	var dc, ac [4]*tv
	maxID := -1
	for _, d := range ps {
		o := 0
		for o < len(d) {
			if o+17 > len(d) {
				return "", "short DHT"
			}
			tc, th := int(d[o]>>4), int(d[o]&15)
			if th > 3 || tc > 1 {
				return "", "DHT class/id"
			}
			t := &tv{}
			n := 0
			for i := 0; i < 16; i++ {
				t.bits = append(t.bits, int(d[o+1+i]))
				n += int(d[o+1+i])
			}
			if o+17+n > len(d) {
				return "", "DHT values"
			}
			for i := 0; i < n; i++ {
				t.vals = append(t.vals, int(d[o+17+i]))
			}
			if tc == 0 {
				dc[th] = t
			} else {
				ac[th] = t
			}
			if th > maxID {
				maxID = th
			}
			o += 17 + n
		}
	}
	var parts []string
	for id := 0; id <= maxID; id++ {
		if dc[id] == nil || ac[id] == nil {
			return "", "table id without both classes"
		}
		parts = append(parts, Ints(dc[id].bits)+"/"+Ints(dc[id].vals)+"/"+Ints(ac[id].bits)+"/"+Ints(ac[id].vals))
	}
	if len(parts) == 0 {
		return "", "no tables"
	}
	return strings.Join(parts, ";"), ""
}

func compsArg(nc int) string {
	if nc == 1 {
		return "1,1,0,0"
	}
	return "1,1,0,0;1,1,1,1;1,1,1,1"
}

func nmcu(w, h int) int { return ((w + 7) / 8) * ((h + 7) / 8) }

// ---------- image generator ----------

var classes = []string{"flat", "noise", "gradient", "checker", "extreme", "smooth", "sparse"}

type img struct {
	w, h, nc, q int
	class       string
	px          []byte
}

func (k img) key() string {
	return fmt.Sprintf("%dx%dx%d:q%d:%s:%s", k.w, k.h, k.nc, k.q, k.class, Hex(k.px))
}
func (k img) input() map[string]interface{} {
	return map[string]interface{}{"w": k.w, "h": k.h, "comps": k.nc, "quality": k.q, "class": k.class, "pixels": Hex(k.px)}
}
func (k img) sizeClass() string {
	s := ""
	if k.w%8 == 0 {
		s += "w8"
	} else {
		s += "wp"
	}
	if k.h%8 == 0 {
		s += "h8"
	} else {
		s += "hp"
	}
	return s
}

func genPixels(r *Rand, class string, w, h, nc int) []byte {
	p := make([]byte, w*h*nc)
	base := make([]int, nc)
	for c := range base {
		base[c] = r.Intn(256)
	}
	ph := r.Intn(2)
	per := r.Range(1, 3)
	dx, dy := r.Range(-12, 12), r.Range(-12, 12)
	for y := 0; y < h; y++ {
		for x := 0; x < w; x++ {
			for c := 0; c < nc; c++ {
				var v int
				switch class {
				case "flat":
					v = base[c]
				case "noise":
					v = r.Intn(256)
				case "gradient":
					v = base[c] + dx*x + dy*y
				case "checker": // Nyquist (per = 1) or coarser checkerboard
					v = 255 * (((x / per) + (y / per) + ph) & 1)
				case "extreme": // 0/255 alternations, every channel on its own phase, sometimes random
					switch per {
					case 1:
						v = 255 * ((x + y + c + ph) & 1)
					case 2:
						v = 255 * ((x + ph + c) & 1)
					default:
						v = 255 * r.Intn(2)
					}
				case "smooth":
					v = 128 + (x*x+y*y+base[c])%97 - 48 + r.Intn(5)
				default: // sparse: flat with a few outliers
					v = base[c]
					if r.Intn(11) == 0 {
						v = r.Intn(256)
					}
				}
				if v < 0 {
					v = 0
				}
				if v > 255 {
					v = 255
				}
				p[(y*w+x)*nc+c] = byte(v)
			}
		}
	}
	return p
}

func genImg(r *Rand, i int, maxDim int) img {
	k := img{nc: 1 + 2*(i&1), class: classes[(i/2)%len(classes)]}
	k.w, k.h = r.Range(1, maxDim), r.Range(1, maxDim)
	switch r.Intn(6) {
	case 0: // exact multiples of the block size
		k.w = 8 * r.Range(1, maxDim/8)
	case 1:
		k.h = 8 * r.Range(1, maxDim/8)
	case 2:
		k.w = r.Pick(1, 7, 8, 9, maxDim)
		k.h = r.Pick(1, 7, 8, 9, maxDim)
	}
	k.q = r.Range(1, 100)
	if i%5 == 0 {
		k.q = []int{1, 50, 100, 2, 99, 25, 75}[(i/5)%7]
	}
	k.px = genPixels(r, k.class, k.w, k.h, k.nc)
	return k
}

func itoa(i int) string { return strconv.Itoa(i) }
