package jpegent

// C08, entropy layer: streams of baseline.Encode mutated ONLY inside the entropy-coded scan
// bytes or inside DHT payloads (optionally with an added DRI segment), so that every byte the
// mutation touches is read by code the model covers (parseDHT + HuffmanTable.Build, decodeScan,
// decodeBlock). The outcome class (ok / err / panic) of baseline.Decode is compared with the
// class of JentModel.ent_decode. Oracle (Go alone): baseline.Decode never panics, on these
// streams and on streams mutated anywhere.

import (
	"fmt"
	"regexp"
	"strings"

	"github.com/cocosip/go-dicom-codecs/jpeg/baseline"
	. "verif/harness/vhlib"
)

var markerChoices = []byte{0x00, 0x00, 0xD0, 0xD1, 0xD2, 0xD3, 0xD4, 0xD5, 0xD6, 0xD7, 0xD8, 0xD9, 0xC4, 0xDA, 0xFF, 0x01, 0xC0, 0xE0, 0xFE}

var scanKinds = []string{"scan-flip", "scan-flip", "scan-bit", "scan-trunc", "scan-trunc-eoi", "scan-insert-ff", "scan-insert-ff",
	"scan-insert-rst", "scan-set-ff", "scan-delete", "scan-random", "scan-dup", "scan-fill", "scan-tail"}
var dhtKinds = []string{"dht-zero-counts", "dht-zero-one", "dht-count", "dht-count", "dht-value", "dht-tcth", "dht-flip",
	"dht-trunc", "dht-extend", "dht-append-table", "dht-empty", "dht-drop", "dht-count-shift"}

func cloneBytes(b []byte) []byte { return append([]byte(nil), b...) }

// replaceDHT rebuilds the stream with DHT segment i carrying the payload p (length field fixed);
// p == nil with drop removes the segment.
func replaceDHT(s []byte, l layout, i int, p []byte, drop bool) []byte {
	d := l.dht[i]
	out := cloneBytes(s[:d.seg])
	if !drop {
		n := len(p) + 2
		out = append(out, 0xFF, 0xC4, byte(n>>8), byte(n))
		out = append(out, p...)
	}
	return append(out, s[d.off+d.n:]...)
}

// insertDRI puts a DRI segment in front of the SOS segment.
func insertDRI(s []byte, ri int) []byte {
	p := 2
	for p+4 <= len(s) {
		if s[p+1] == 0xDA {
			out := cloneBytes(s[:p])
			out = append(out, 0xFF, 0xDD, 0x00, 0x04, byte(ri>>8), byte(ri))
			return append(out, s[p:]...)
		}
		p += 2 + (int(s[p+2])<<8 | int(s[p+3]))
	}
	return s
}

// mutateModelled applies one mutation of the named kind; the result differs from s only in
// the scan bytes (everything after the SOS header) or in one DHT segment.
func mutateModelled(r *Rand, s []byte, l layout, kind string) []byte {
	a, e := l.sosEnd, len(s)-2 // scan proper = s[a:e]
	m := cloneBytes(s)
	n := e - a
	pos := func() int { return a + r.Intn(n) } // n >= 1 for every encoder stream
	switch kind {
	case "scan-flip":
		for j := r.Range(1, 3); j > 0; j-- {
			m[pos()] = byte(r.Intn(256))
		}
	case "scan-bit":
		for j := r.Range(1, 2); j > 0; j-- {
			m[pos()] ^= 1 << uint(r.Intn(8))
		}
	case "scan-trunc": // cut anywhere from the first scan byte to the last byte of EOI
		m = m[:a+r.Intn(len(s)-a)]
	case "scan-trunc-eoi":
		m = append(m[:a+r.Intn(n)], 0xFF, 0xD9)
	case "scan-insert-ff":
		p := a + r.Intn(n+1)
		x := markerChoices[r.Intn(len(markerChoices))]
		if r.Intn(8) == 0 {
			x = byte(r.Intn(256))
		}
		m = append(cloneBytes(s[:p]), 0xFF, x)
		m = append(m, s[p:]...)
	case "scan-insert-rst":
		cnt := r.Range(1, 4)
		for j := 0; j < cnt; j++ {
			p := a + r.Intn(len(m)-2-a+1)
			t := append(cloneBytes(m[:p]), 0xFF, byte(0xD0+r.Intn(8)))
			m = append(t, m[p:]...)
		}
	case "scan-set-ff":
		m[pos()] = 0xFF
	case "scan-delete":
		p := pos()
		k := r.Range(1, 1+n/3)
		if p+k > e {
			k = e - p
		}
		m = append(cloneBytes(s[:p]), s[p+k:]...)
	case "scan-random":
		k := r.Intn(2*n + 2)
		m = cloneBytes(s[:a])
		for j := 0; j < k; j++ {
			b := byte(r.Intn(256))
			if r.Intn(3) == 0 {
				b = []byte{0x00, 0xFF, 0xAA, 0x55}[r.Intn(4)]
			}
			m = append(m, b)
		}
		if r.Bool() {
			m = append(m, 0xFF, 0xD9)
		}
	case "scan-dup":
		p := pos()
		k := r.Range(1, 1+n/2)
		if p+k > e {
			k = e - p
		}
		m = append(cloneBytes(s[:p+k]), s[p:]...)
	case "scan-fill":
		p := pos()
		k := r.Range(1, 1+n/2)
		v := []byte{0x00, 0xFF, 0x55, 0xAA}[r.Intn(4)]
		for j := p; j < p+k && j < e; j++ {
			m[j] = v
		}
	case "scan-tail": // change what follows the scan: no EOI, other marker, garbage after EOI
		switch r.Intn(4) {
		case 0:
			m = m[:e]
		case 1:
			m[e+1] = markerChoices[r.Intn(len(markerChoices))]
		case 2:
			m = append(m, byte(r.Intn(256)), byte(r.Intn(256)), 0xFF)
		default:
			m = append(m[:e], 0xFF)
		}
	default: // DHT payload mutations
		i := r.Intn(len(l.dht))
		d := l.dht[i]
		p := cloneBytes(s[d.off : d.off+d.n])
		switch kind {
		case "dht-zero-counts":
			for j := 1; j <= 16 && j < len(p); j++ {
				p[j] = 0
			}
		case "dht-zero-one":
			p[1+r.Intn(16)] = 0
		case "dht-count":
			j := 1 + r.Intn(16)
			switch r.Intn(5) {
			case 0:
				p[j]++
			case 1:
				p[j]--
			case 2:
				p[j] = byte(r.Intn(8))
			case 3:
				p[j] = 255
			default:
				p[j] = byte(1 << uint(r.Intn(8)))
			}
		case "dht-count-shift": // move one code to another length (total unchanged)
			j, k2 := 1+r.Intn(16), 1+r.Intn(16)
			if p[j] > 0 {
				p[j]--
				p[k2]++
			} else {
				p[k2] += byte(r.Range(1, 3))
			}
		case "dht-value":
			if len(p) > 17 {
				p[17+r.Intn(len(p)-17)] = byte(r.Intn(256))
			} else {
				p[r.Intn(len(p))] ^= 0x10
			}
		case "dht-tcth":
			p[0] = []byte{0x00, 0x10, 0x01, 0x11, 0x02, 0x13, 0x03, 0x04, 0x14, 0x1F, 0x20, 0xF0, 0xFF, byte(r.Intn(256))}[r.Intn(14)]
		case "dht-flip":
			for j := r.Range(1, 3); j > 0; j-- {
				p[r.Intn(len(p))] = byte(r.Intn(256))
			}
		case "dht-trunc":
			p = p[:r.Intn(len(p))]
		case "dht-extend":
			for j := r.Range(1, 20); j > 0; j-- {
				p = append(p, byte(r.Intn(3)*r.Intn(256)))
			}
		case "dht-append-table": // a second table specification in the same segment
			o := l.dht[r.Intn(len(l.dht))]
			q := cloneBytes(s[o.off : o.off+o.n])
			if r.Intn(3) == 0 {
				q[0] = byte(r.Intn(2)<<4 | r.Intn(5))
			}
			if r.Intn(3) == 0 {
				q = q[:r.Intn(len(q))]
			}
			p = append(p, q...)
		case "dht-empty":
			p = nil
		case "dht-drop":
			return replaceDHT(s, l, i, nil, true)
		}
		return replaceDHT(s, l, i, p, false)
	}
	return m
}

// mutateAnywhere: unconstrained damage (Go-only oracle).
func mutateAnywhere(r *Rand, s []byte) ([]byte, string) {
	m := cloneBytes(s)
	switch r.Intn(6) {
	case 0:
		for j := r.Range(1, 4); j > 0; j-- {
			m[r.Intn(len(m))] = byte(r.Intn(256))
		}
		return m, "any-flip"
	case 1:
		m[r.Intn(len(m))] ^= 1 << uint(r.Intn(8))
		return m, "any-bit"
	case 2:
		return m[:r.Intn(len(m))], "any-trunc"
	case 3:
		p := r.Intn(len(m))
		k := r.Range(1, 8)
		if p+k > len(m) {
			k = len(m) - p
		}
		return append(m[:p], s[p+k:]...), "any-delete"
	case 4:
		p := r.Intn(len(m) + 1)
		t := cloneBytes(s[:p])
		for j := r.Range(1, 6); j > 0; j-- {
			t = append(t, []byte{0xFF, 0x00, byte(r.Intn(256)), 0xC4, 0xDA, 0xC0, 0xDD, 0xD0}[r.Intn(8)])
		}
		return append(t, s[p:]...), "any-insert"
	default: // header field sweep: one byte before the scan set to an extreme
		l := walk(s)
		lim := len(m)
		if l.err == "" && l.sosEnd > 2 {
			lim = l.sosEnd
		}
		m[2+r.Intn(lim-2)] = []byte{0x00, 0x01, 0x0F, 0x10, 0x11, 0x44, 0x7F, 0x80, 0xFF}[r.Intn(9)]
		return m, "any-header"
	}
}

var digits = regexp.MustCompile(`[0-9]+`)

func goDecodeClass(s []byte) (class, msg string, px []byte) {
	var err error
	var d []byte
	pan, pm := Safely(func() { d, _, _, _, err = baseline.Decode(s) })
	if pan {
		return "panic", pm, nil
	}
	if err != nil {
		return "err", err.Error(), nil
	}
	return "ok", "", d
}

func panicSig(msg string) string {
	m := digits.ReplaceAllString(msg, "N")
	m = strings.ReplaceAll(m, " ", "_")
	if len(m) > 60 {
		m = m[:60]
	}
	return m
}

func runC08(c *Ctx) {
	c.R.Rule = "jpegent: every case is a baseline.Encode stream mutated inside the scan bytes / a DHT payload (or anywhere, Go-only); nontrivial = the mutated stream differs from the encoder's"
	rng := c.Rng.Fork()
	nb := c.N(96, 800)
	perBase := c.N(20, 50)
	anyPer := c.N(25, 120)
	type base struct {
		k    img
		seed uint64
	}
	bases := make([]base, nb)
	for i := range bases {
		bases[i] = base{genImg(rng, i, 24), rng.U64()}
	}
	ParallelFor(nb, c.Work, func(bi int) {
		k := bases[bi].k
		r := NewRand(bases[bi].seed)
		sigc := "grey"
		if k.nc == 3 {
			sigc = "rgb"
		}
		s, err := baseline.Encode(k.px, k.w, k.h, k.nc, k.q)
		if err != nil {
			c.R.Note("jpegent C08: baseline.Encode failed on a generated image: %v", err)
			return
		}
		l := walk(s)
		if l.err != "" || len(l.dht) == 0 || len(s) < l.sosEnd+3 {
			c.R.Fail("corr", "jent_layout", "jent:c08:layout:"+sigc, "unexpected stream layout "+l.err, k.input())
			return
		}
		nm := nmcu(k.w, k.h)
		check := func(m []byte, kind string, ri int, modelled bool) {
			in := map[string]interface{}{"kind": kind, "w": k.w, "h": k.h, "comps": k.nc, "quality": k.q, "ri": ri, "stream": Hex(m)}
			class, msg, px := goDecodeClass(m)
			c.R.Oracle("jent_nopanic")
			if class == "panic" {
				c.R.Fail("oracle", "jent_nopanic", "jent:c08:baseline.Decode:panic:"+panicSig(msg), "baseline.Decode panicked: "+msg, in)
			}
			kk := kind
			if i := strings.Index(kk, "+"); i >= 0 {
				kk = kk[:i] + "+dri"
			}
			c.R.Case(Hex(m), string(m) != string(s), "c08.kind."+kk, "c08.go."+class, "c08."+sigc)
			if !modelled || !c.HasModel() {
				return
			}
			ml := walk(m)
			if ml.err != "" {
				c.R.Fail("corr", "jent_class", "jent:c08:harness", "mutated stream lost its header structure: "+ml.err, in)
				return
			}
			rep := c.M.Call("jent_decode", dhtArg(ml.payloads(m)), compsArg(k.nc), itoa(ri), itoa(nm), Hex(m[ml.sosEnd:]))
			mc := rep
			if strings.HasPrefix(mc, "ok:") {
				mc = "ok"
			}
			in["go_error"] = msg
			in["model_op"] = "jent_decode " + dhtArg(ml.payloads(m)) + " " + compsArg(k.nc) + " " + itoa(ri) + " " + itoa(nm) + " " + Hex(m[ml.sosEnd:])
			c.R.Count("c08.modelled." + class)
			if class == "err" {
				c.R.Count("c08.modelled.err." + panicSig(msg))
			}
			if !c.CorrEq("jent_class", fmt.Sprintf("jent:c08:class:%s:%s", sigc, kk), mc, class, in) || class != "ok" {
				return
			}
			// both sides decode the damaged stream: they must also show the same picture (the decoded
			// coefficients, incl. int32 stores of hostile magnitudes, through the modelled IDCT stage)
			rp := c.M.Call("jent_decode_px", dhtArg(ml.payloads(m)), compsArg(k.nc), itoa(ri), itoa(nm), Hex(m[ml.sosEnd:]), itoa(k.w), itoa(k.h), itoa(k.q))
			c.CorrEq("jent_pixels", fmt.Sprintf("jent:c08:pixels:%s:%s", sigc, kk), rp, "ok:"+Hex(px), in)
		}
		// the encoder's own stream
		check(s, "none", 0, true)
		for j := 0; j < perBase; j++ {
			var kind string
			if j%3 == 2 {
				kind = dhtKinds[r.Intn(len(dhtKinds))]
			} else {
				kind = scanKinds[r.Intn(len(scanKinds))]
			}
			m := mutateModelled(r, s, l, kind)
			ri := 0
			if r.Intn(4) == 0 {
				// restart path: declare a restart interval; with RST markers put into the scan
				ri = r.Pick(1, 2, 3, nm-1, nm, nm+1, 65535)
				if ri < 1 {
					ri = 1
				}
				m = insertDRI(m, ri)
				kind += fmt.Sprintf("+dri%d", ri)
				if r.Bool() {
					ml := walk(m)
					if ml.err == "" {
						m2 := mutateModelled(r, m, ml, "scan-insert-rst")
						m = m2
						kind += "+rst"
					}
				}
			}
			check(m, kind, ri, true)
		}
		for j := 0; j < anyPer; j++ {
			m, kind := mutateAnywhere(r, s)
			check(m, kind, 0, false)
		}
	})
}
