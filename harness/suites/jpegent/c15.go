package jpegent

// C15, entropy layer: streams of an independent encoder (Go's image/jpeg: standard Huffman
// tables, all tables of a frame in ONE DHT segment, colour as 4:2:0 with 2x2 luma blocks per
// MCU). The model's entropy decoder must accept them as baseline.Decode does; for greyscale
// the model's entropy ENCODER, given the decoded coefficients and the stream's tables, must
// reproduce the independent encoder's scan bytes exactly (decode then encode = identity on a
// third party's bit stream); for colour the scan order of the decoded blocks is checked.

import (
	"bytes"
	"fmt"
	"image"
	"image/jpeg"
	"strings"

	. "verif/harness/vhlib"
)

func indepEncode(k img) ([]byte, error) {
	var buf bytes.Buffer
	var im image.Image
	if k.nc == 1 {
		g := image.NewGray(image.Rect(0, 0, k.w, k.h))
		copy(g.Pix, k.px) // stride = w
		im = g
	} else {
		r := image.NewRGBA(image.Rect(0, 0, k.w, k.h))
		for i := 0; i < k.w*k.h; i++ {
			r.Pix[4*i], r.Pix[4*i+1], r.Pix[4*i+2], r.Pix[4*i+3] = k.px[3*i], k.px[3*i+1], k.px[3*i+2], 255
		}
		im = r
	}
	err := jpeg.Encode(&buf, im, &jpeg.Options{Quality: k.q})
	return buf.Bytes(), err
}

func runC15(c *Ctx) {
	c.R.Rule = "jpegent: every case is an image/jpeg stream with at least one MCU; nontrivial = more than one MCU or a scan longer than 4 bytes"
	if !c.HasModel() {
		c.R.Note("jpegent: no model executable, C15 entropy correspondence skipped")
		return
	}
	rng := c.Rng.Fork()
	n := c.N(50, 500)
	cases := make([]img, n)
	for i := range cases {
		cases[i] = genImg(rng, i, 40)
	}
	ParallelFor(n, c.Work, func(i int) {
		k := cases[i]
		in := k.input()
		sigc := "grey"
		if k.nc == 3 {
			sigc = "420"
		}
		s, err := indepEncode(k)
		if err != nil {
			c.R.Note("jpegent C15: image/jpeg.Encode failed: %v", err)
			return
		}
		in["stream"] = Hex(s)
		l := walk(s)
		if l.err != "" || len(l.dht) == 0 || len(s) < l.sosEnd+3 || s[len(s)-2] != 0xFF || s[len(s)-1] != 0xD9 {
			c.R.Fail("corr", "jent_indep", "jent:c15:layout:"+sigc, "unexpected layout of the image/jpeg stream: "+l.err, in)
			return
		}
		comps, nm, e := l.compsFromHeader()
		if e != "" {
			c.R.Fail("corr", "jent_indep", "jent:c15:layout:"+sigc, e, in)
			return
		}
		ps := l.payloads(s)
		scan := s[l.sosEnd : len(s)-2]
		c.R.Case(k.key(), nm > 1 || len(scan) > 4, "c15."+sigc, "c15.class."+k.class, fmt.Sprintf("c15.dhtsegs.%d", len(l.dht)))
		class, msg, _ := goDecodeClass(s)
		c.R.Oracle("jent_indep_accept")
		if class != "ok" {
			c.R.Fail("oracle", "jent_indep_accept", "jent:c15:baseline.Decode:"+class+":"+sigc, "baseline.Decode does not accept an image/jpeg stream: "+msg, in)
		}
		got := c.M.Call("jent_decode", dhtArg(ps), comps, "0", itoa(nm), Hex(s[l.sosEnd:]))
		cls := got
		if strings.HasPrefix(cls, "ok:") {
			cls = "ok"
		}
		if !c.CorrEq("jent_indep_class", "jent:c15:class:"+sigc, cls, class, in) || cls != "ok" {
			return
		}
		blocks := strings.Split(got[3:], ";")
		if k.nc == 1 {
			for j := range blocks {
				if !strings.HasPrefix(blocks[j], "0:") {
					c.R.Fail("corr", "jent_indep_reencode", "jent:c15:tags:grey", "block tag", in)
					return
				}
				blocks[j] = blocks[j][2:]
			}
			tabs, e := tablesArg(ps)
			if e != "" {
				c.R.Fail("corr", "jent_indep_reencode", "jent:c15:tables:grey", e, in)
				return
			}
			enc := c.M.Call("jent_enc_grey", tabs, strings.Join(blocks, ";"))
			c.CorrEq("jent_indep_reencode", "jent:c15:reencode:grey", enc, Hex(scan), in)
			return
		}
		// colour: nm MCUs of Y,Y,Y,Y,Cb,Cr
		var tags strings.Builder
		for _, b := range blocks {
			tags.WriteByte(b[0])
		}
		c.CorrEq("jent_indep_order", "jent:c15:order:420", tags.String(), strings.Repeat("000012", nm), in)
	})
}
