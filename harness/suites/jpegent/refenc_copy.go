// Code copied from verif/harness/suites/dct (refenc.go, reftables.go and a few helpers of
// common.go / c15.go): the independent reference baseline-sequential encoder with optional
// DRI + RSTn. A copy, not an import: package dct keeps these identifiers unexported.
package jpegent

import (
	"math"
	"sort"
)

var zz = [64]int{
	0, 1, 8, 16, 9, 2, 3, 10, 17, 24, 32, 25, 18, 11, 4, 5,
	12, 19, 26, 33, 40, 48, 41, 34, 27, 20, 13, 6, 7, 14, 21, 28,
	35, 42, 49, 56, 57, 50, 43, 36, 29, 22, 15, 23, 30, 37, 44, 51,
	58, 59, 52, 45, 38, 31, 39, 46, 53, 60, 61, 54, 47, 55, 62, 63,
}

func cW(k int) float64 {
	if k == 0 {
		return 1 / math.Sqrt2
	}
	return 1
}

func mini(a, b int) int {
	if a < b {
		return a
	}
	return b
}

func defaultOpts(comps, q int) refOpts {
	o := refOpts{Sampling: "444", Quality: q, IDs: [3]int{1, 2, 3}, Tq: [2]int{0, 1}, Th: [2]int{0, 1}}
	if comps == 1 {
		o.Sampling = "gray"
	}
	return o
}

type refOpts struct {
	Sampling string `json:"sampling"` // gray | 444 | 422 | 420 | 440
	Quality  int    `json:"quality"`
	OptHuff  bool   `json:"opt_huffman"`
	Restart  int    `json:"restart_interval"` // MCUs per interval, 0 = none
	JFIF     bool   `json:"jfif"`
	Adobe    bool   `json:"adobe"`
	COM      bool   `json:"com"`
	IDs      [3]int `json:"component_ids"`
	Tq       [2]int `json:"tq"`              // quantisation table ids for luma / chroma
	Th       [2]int `json:"th"`              // Huffman table ids for luma / chroma (0..1 in baseline)
	Merge    bool   `json:"merged_segments"` // one DQT and one DHT segment carrying all tables
}

var refCos [8][8]float64

func init() {
	for u := 0; u < 8; u++ {
		for x := 0; x < 8; x++ {
			refCos[u][x] = math.Cos(float64(2*x+1) * float64(u) * math.Pi / 16)
		}
	}
}

func refFDCT(blk *[64]float64) [64]float64 {
	var out [64]float64
	for v := 0; v < 8; v++ {
		for u := 0; u < 8; u++ {
			s := 0.0
			for y := 0; y < 8; y++ {
				for x := 0; x < 8; x++ {
					s += blk[y*8+x] * refCos[u][x] * refCos[v][y]
				}
			}
			out[v*8+u] = s * cW(u) * cW(v) / 4
		}
	}
	return out
}

func refScaleQuant(idx, quality int) [64]int { // natural order
	scale := 200 - 2*quality
	if quality < 50 {
		scale = 5000 / quality
	}
	var q [64]int
	for i := 0; i < 64; i++ {
		x := (int(refUnscaledQuant[idx][i])*scale + 50) / 100
		if x < 1 {
			x = 1
		}
		if x > 255 {
			x = 255
		}
		q[zz[i]] = x
	}
	return q
}

type refCode struct {
	code uint32
	len  int
}

// Annex C: codes from BITS/HUFFVAL.
func refCodes(spec refHuffSpec) [256]refCode {
	var out [256]refCode
	code, k := uint32(0), 0
	for l := 1; l <= 16; l++ {
		for i := 0; i < int(spec.count[l-1]); i++ {
			out[spec.value[k]] = refCode{code, l}
			code++
			k++
		}
		code <<= 1
	}
	return out
}

// Annex K.2: optimal code lengths for the given frequencies, limited to 16 bits, with the
// all-ones code word reserved (pseudo-symbol 256 with frequency 1).
func refOptimal(freqIn *[256]int) refHuffSpec {
	var freq [257]int
	copy(freq[:], freqIn[:])
	freq[256] = 1
	var codesize [257]int
	var others [257]int
	for i := range others {
		others[i] = -1
	}
	for {
		// v1: least frequency > 0, largest symbol on ties; v2: next least
		v1, v2 := -1, -1
		for i := 0; i <= 256; i++ {
			if freq[i] > 0 && (v1 < 0 || freq[i] <= freq[v1]) {
				v1 = i
			}
		}
		for i := 0; i <= 256; i++ {
			if freq[i] > 0 && i != v1 && (v2 < 0 || freq[i] <= freq[v2]) {
				v2 = i
			}
		}
		if v2 < 0 {
			break
		}
		freq[v1] += freq[v2]
		freq[v2] = 0
		codesize[v1]++
		for others[v1] >= 0 {
			v1 = others[v1]
			codesize[v1]++
		}
		others[v1] = v2
		codesize[v2]++
		for others[v2] >= 0 {
			v2 = others[v2]
			codesize[v2]++
		}
	}
	var bits [300]int
	for i := 0; i <= 256; i++ {
		if codesize[i] > 0 {
			bits[codesize[i]]++
		}
	}
	// Adjust_BITS (Figure K.3)
	for i := len(bits) - 1; i > 16; i-- {
		for bits[i] > 0 {
			j := i - 2
			for bits[j] == 0 {
				j--
			}
			bits[i] -= 2
			bits[i-1]++
			bits[j+1] += 2
			bits[j]--
		}
	}
	i := 16
	for bits[i] == 0 {
		i--
	}
	bits[i]-- // remove the reserved code point
	var spec refHuffSpec
	for l := 1; l <= 16; l++ {
		spec.count[l-1] = byte(bits[l])
	}
	// Sort_input (Figure K.4): symbols by increasing code size
	type sv struct{ size, sym int }
	var svs []sv
	for s := 0; s < 256; s++ {
		if codesize[s] > 0 {
			svs = append(svs, sv{codesize[s], s})
		}
	}
	sort.SliceStable(svs, func(a, b int) bool { return svs[a].size < svs[b].size })
	for _, x := range svs {
		spec.value = append(spec.value, byte(x.sym))
	}
	return spec
}

type refBits struct {
	out  []byte
	acc  uint32
	nacc int
}

func (b *refBits) put(code uint32, n int) {
	for i := n - 1; i >= 0; i-- {
		b.acc = b.acc<<1 | (code>>uint(i))&1
		b.nacc++
		if b.nacc == 8 {
			b.out = append(b.out, byte(b.acc))
			if byte(b.acc) == 0xFF {
				b.out = append(b.out, 0)
			}
			b.acc, b.nacc = 0, 0
		}
	}
}
func (b *refBits) align() {
	for b.nacc != 0 {
		b.put(1, 1)
	}
}

func refCategory(v int) int {
	if v < 0 {
		v = -v
	}
	n := 0
	for v > 0 {
		n++
		v >>= 1
	}
	return n
}

type refComp struct {
	h, v   int
	bw, bh int   // plane size in samples (multiple of 8*h, 8*v per MCU grid)
	plane  []int // samples
	tq, th int   // indexes 0 = luma, 1 = chroma
	coefs  [][64]int
}

// refLayout sets sampling factors and the MCU grid for nc components.
func refLayout(nc, w, h int, o refOpts) (comps []*refComp, mcuCols, mcuRows int) {
	comps = make([]*refComp, nc)
	maxH, maxV := 1, 1
	for i := range comps {
		c := &refComp{h: 1, v: 1}
		if i > 0 {
			c.tq, c.th = 1, 1
		}
		comps[i] = c
	}
	if nc == 3 {
		switch o.Sampling {
		case "422":
			comps[0].h = 2
		case "420":
			comps[0].h, comps[0].v = 2, 2
		case "440":
			comps[0].v = 2
		}
		maxH, maxV = comps[0].h, comps[0].v
	}
	mcuCols = (w + 8*maxH - 1) / (8 * maxH)
	mcuRows = (h + 8*maxV - 1) / (8 * maxV)
	for _, c := range comps {
		c.bw, c.bh = mcuCols*c.h*8, mcuRows*c.v*8
		c.coefs = make([][64]int, (c.bw/8)*(c.bh/8))
	}
	return
}

// refEncode encodes planes (full resolution, one per component, w*h samples each).
func refEncode(planes [][]byte, w, h int, o refOpts) []byte {
	s, _, _, _ := refEncodeC(planes, w, h, o)
	return s
}

// refEncodeC (added in this copy): also returns the components with their quantised
// coefficient grids and the MCU grid.
func refEncodeC(planes [][]byte, w, h int, o refOpts) ([]byte, []*refComp, int, int) {
	nc := len(planes)
	comps, mcuCols, mcuRows := refLayout(nc, w, h, o)
	maxH, maxV := comps[0].h, comps[0].v
	qt := [2][64]int{refScaleQuant(0, o.Quality), refScaleQuant(1, o.Quality)}

	// planes: subsample by box average of the edge-replicated source, pad to the MCU grid
	for i, c := range comps {
		sx, sy := maxH/c.h, maxV/c.v
		c.plane = make([]int, c.bw*c.bh)
		for y := 0; y < c.bh; y++ {
			for x := 0; x < c.bw; x++ {
				s := 0
				for dy := 0; dy < sy; dy++ {
					for dx := 0; dx < sx; dx++ {
						yy, xx := mini(y*sy+dy, h-1), mini(x*sx+dx, w-1)
						s += int(planes[i][yy*w+xx])
					}
				}
				c.plane[y*c.bw+x] = (s + sx*sy/2) / (sx * sy)
			}
		}
		// transform + quantise every block of the component's grid
		nbx, nby := c.bw/8, c.bh/8
		for by := 0; by < nby; by++ {
			for bx := 0; bx < nbx; bx++ {
				var blk [64]float64
				for y := 0; y < 8; y++ {
					for x := 0; x < 8; x++ {
						blk[y*8+x] = float64(c.plane[(by*8+y)*c.bw+bx*8+x]) - 128
					}
				}
				f := refFDCT(&blk)
				var k [64]int
				for j := 0; j < 64; j++ {
					r := f[j] / float64(qt[c.tq][j])
					if r < 0 {
						k[j] = -int(math.Floor(-r + 0.5))
					} else {
						k[j] = int(math.Floor(r + 0.5))
					}
				}
				c.coefs[by*nbx+bx] = k
			}
		}
	}
	return refEmit(comps, mcuCols, mcuRows, w, h, o), comps, mcuCols, mcuRows
}

// refEmit entropy-codes the quantised coefficient grids (c.coefs, row-major over the
// component's MCU-padded block grid) and writes the stream.
func refEmit(comps []*refComp, mcuCols, mcuRows, w, h int, o refOpts) []byte {
	nc := len(comps)
	qt := [2][64]int{refScaleQuant(0, o.Quality), refScaleQuant(1, o.Quality)}
	// scan order walk, shared by the statistics pass and the coding pass
	type sym struct {
		comp  int
		dc    bool
		s     int // huffman symbol
		extra uint32
		nbits int
		rst   int // >=0: restart marker number to emit before this symbol
	}
	var syms []sym
	pred := make([]int, nc)
	mcu := 0
	rstn := 0
	for my := 0; my < mcuRows; my++ {
		for mx := 0; mx < mcuCols; mx++ {
			pendingRst := -1
			if o.Restart > 0 && mcu > 0 && mcu%o.Restart == 0 {
				pendingRst = rstn
				rstn = (rstn + 1) & 7
				for i := range pred {
					pred[i] = 0
				}
			}
			for ci, c := range comps {
				nbx := c.bw / 8
				for v := 0; v < c.v; v++ {
					for hh := 0; hh < c.h; hh++ {
						k := &c.coefs[(my*c.v+v)*nbx+mx*c.h+hh]
						diff := k[0] - pred[ci]
						pred[ci] = k[0]
						cat := refCategory(diff)
						ex := diff
						if diff < 0 {
							ex = diff + (1 << uint(cat)) - 1
						}
						syms = append(syms, sym{ci, true, cat, uint32(ex), cat, pendingRst})
						pendingRst = -1
						run := 0
						for z := 1; z < 64; z++ {
							val := k[zz[z]]
							if val == 0 {
								run++
								continue
							}
							for run > 15 {
								syms = append(syms, sym{ci, false, 0xF0, 0, 0, -1})
								run -= 16
							}
							cat := refCategory(val)
							ex := val
							if val < 0 {
								ex = val + (1 << uint(cat)) - 1
							}
							syms = append(syms, sym{ci, false, run<<4 | cat, uint32(ex), cat, -1})
							run = 0
						}
						if run > 0 {
							syms = append(syms, sym{ci, false, 0, 0, 0, -1})
						}
					}
				}
			}
			mcu++
		}
	}

	// Huffman tables: index 0/1 = luma DC/AC, 2/3 = chroma DC/AC
	specs := refStdHuff
	if o.OptHuff {
		var fr [4][256]int
		for _, s := range syms {
			t := comps[s.comp].th * 2
			if !s.dc {
				t++
			}
			fr[t][s.s]++
		}
		for t := 0; t < 4; t++ {
			if nc == 1 && t >= 2 {
				continue
			}
			specs[t] = refOptimal(&fr[t])
		}
	}
	var codes [4][256]refCode
	for t := range codes {
		codes[t] = refCodes(specs[t])
	}

	// ---- emit ----
	var out []byte
	seg := func(m byte, d []byte) {
		out = append(out, 0xFF, m, byte((len(d)+2)>>8), byte(len(d)+2))
		out = append(out, d...)
	}
	out = append(out, 0xFF, 0xD8)
	if o.JFIF {
		seg(0xE0, []byte{'J', 'F', 'I', 'F', 0, 1, 2, 0, 0, 1, 0, 1, 0, 0})
	}
	if o.Adobe {
		tr := byte(0)
		if nc == 3 {
			tr = 1 // YCbCr
		}
		seg(0xEE, []byte{'A', 'd', 'o', 'b', 'e', 0, 100, 0, 0, 0, 0, tr})
	}
	if o.COM {
		seg(0xFE, []byte("reference encoder \xff\xd8 \xff\x00 comment"))
	}
	ntab := 1
	if nc == 3 {
		ntab = 2
	}
	var dqt []byte
	for t := 0; t < ntab; t++ {
		d := []byte{byte(o.Tq[t])}
		for i := 0; i < 64; i++ {
			d = append(d, byte(qt[t][zz[i]]))
		}
		if o.Merge {
			dqt = append(dqt, d...)
		} else {
			seg(0xDB, d)
		}
	}
	if o.Merge {
		seg(0xDB, dqt)
	}
	sof := []byte{8, byte(h >> 8), byte(h), byte(w >> 8), byte(w), byte(nc)}
	for i, c := range comps {
		sof = append(sof, byte(o.IDs[i]), byte(c.h<<4|c.v), byte(o.Tq[c.tq]))
	}
	seg(0xC0, sof)
	var dht []byte
	for t := 0; t < 2*ntab; t++ {
		d := []byte{byte((t&1)<<4 | o.Th[t/2])}
		d = append(d, specs[t].count[:]...)
		d = append(d, specs[t].value...)
		if o.Merge {
			dht = append(dht, d...)
		} else {
			seg(0xC4, d)
		}
	}
	if o.Merge {
		seg(0xC4, dht)
	}
	if o.Restart > 0 {
		seg(0xDD, []byte{byte(o.Restart >> 8), byte(o.Restart)})
	}
	sos := []byte{byte(nc)}
	for i, c := range comps {
		sos = append(sos, byte(o.IDs[i]), byte(o.Th[c.th]<<4|o.Th[c.th]))
	}
	sos = append(sos, 0, 63, 0)
	seg(0xDA, sos)
	bw := &refBits{}
	for _, s := range syms {
		if s.rst >= 0 {
			bw.align()
			bw.out = append(bw.out, 0xFF, byte(0xD0+s.rst))
		}
		t := comps[s.comp].th * 2
		if !s.dc {
			t++
		}
		cd := codes[t][s.s]
		bw.put(cd.code, cd.len)
		if s.nbits > 0 {
			bw.put(s.extra, s.nbits)
		}
	}
	bw.align()
	out = append(out, bw.out...)
	out = append(out, 0xFF, 0xD9)
	return out
}

// rgbToPlanes converts interleaved RGB to full-resolution Y, Cb, Cr planes (JFIF, float, rounded).
func rgbToPlanes(rgb []byte, w, h int) [][]byte {
	y, cb, cr := make([]byte, w*h), make([]byte, w*h), make([]byte, w*h)
	cl := func(f float64) byte {
		v := int(math.Floor(f + 0.5))
		if v < 0 {
			v = 0
		}
		if v > 255 {
			v = 255
		}
		return byte(v)
	}
	for i := 0; i < w*h; i++ {
		r, g, b := float64(rgb[3*i]), float64(rgb[3*i+1]), float64(rgb[3*i+2])
		y[i] = cl(0.299*r + 0.587*g + 0.114*b)
		cb[i] = cl(-0.168736*r - 0.331264*g + 0.5*b + 128)
		cr[i] = cl(0.5*r - 0.418688*g - 0.081312*b + 128)
	}
	return [][]byte{y, cb, cr}
}

// ---------- tables (reftables.go) ----------

var refUnscaledQuant = [2][64]byte{
	// Luminance.
	{
		16, 11, 12, 14, 12, 10, 16, 14,
		13, 14, 18, 17, 16, 19, 24, 40,
		26, 24, 22, 22, 24, 49, 35, 37,
		29, 40, 58, 51, 61, 60, 57, 51,
		56, 55, 64, 72, 92, 78, 64, 68,
		87, 69, 55, 56, 80, 109, 81, 87,
		95, 98, 103, 104, 103, 62, 77, 113,
		121, 112, 100, 120, 92, 101, 103, 99,
	},
	// Chrominance.
	{
		17, 18, 18, 24, 21, 24, 47, 26,
		26, 47, 99, 66, 56, 66, 99, 99,
		99, 99, 99, 99, 99, 99, 99, 99,
		99, 99, 99, 99, 99, 99, 99, 99,
		99, 99, 99, 99, 99, 99, 99, 99,
		99, 99, 99, 99, 99, 99, 99, 99,
		99, 99, 99, 99, 99, 99, 99, 99,
		99, 99, 99, 99, 99, 99, 99, 99,
	},
}

type refHuffSpec struct {
	count [16]byte
	value []byte
}

// order: luminance DC, luminance AC, chrominance DC, chrominance AC
var refStdHuff = [4]refHuffSpec{
	// Luminance DC.
	{
		[16]byte{0, 1, 5, 1, 1, 1, 1, 1, 1, 0, 0, 0, 0, 0, 0, 0},
		[]byte{0, 1, 2, 3, 4, 5, 6, 7, 8, 9, 10, 11},
	},
	// Luminance AC.
	{
		[16]byte{0, 2, 1, 3, 3, 2, 4, 3, 5, 5, 4, 4, 0, 0, 1, 125},
		[]byte{
			0x01, 0x02, 0x03, 0x00, 0x04, 0x11, 0x05, 0x12,
			0x21, 0x31, 0x41, 0x06, 0x13, 0x51, 0x61, 0x07,
			0x22, 0x71, 0x14, 0x32, 0x81, 0x91, 0xa1, 0x08,
			0x23, 0x42, 0xb1, 0xc1, 0x15, 0x52, 0xd1, 0xf0,
			0x24, 0x33, 0x62, 0x72, 0x82, 0x09, 0x0a, 0x16,
			0x17, 0x18, 0x19, 0x1a, 0x25, 0x26, 0x27, 0x28,
			0x29, 0x2a, 0x34, 0x35, 0x36, 0x37, 0x38, 0x39,
			0x3a, 0x43, 0x44, 0x45, 0x46, 0x47, 0x48, 0x49,
			0x4a, 0x53, 0x54, 0x55, 0x56, 0x57, 0x58, 0x59,
			0x5a, 0x63, 0x64, 0x65, 0x66, 0x67, 0x68, 0x69,
			0x6a, 0x73, 0x74, 0x75, 0x76, 0x77, 0x78, 0x79,
			0x7a, 0x83, 0x84, 0x85, 0x86, 0x87, 0x88, 0x89,
			0x8a, 0x92, 0x93, 0x94, 0x95, 0x96, 0x97, 0x98,
			0x99, 0x9a, 0xa2, 0xa3, 0xa4, 0xa5, 0xa6, 0xa7,
			0xa8, 0xa9, 0xaa, 0xb2, 0xb3, 0xb4, 0xb5, 0xb6,
			0xb7, 0xb8, 0xb9, 0xba, 0xc2, 0xc3, 0xc4, 0xc5,
			0xc6, 0xc7, 0xc8, 0xc9, 0xca, 0xd2, 0xd3, 0xd4,
			0xd5, 0xd6, 0xd7, 0xd8, 0xd9, 0xda, 0xe1, 0xe2,
			0xe3, 0xe4, 0xe5, 0xe6, 0xe7, 0xe8, 0xe9, 0xea,
			0xf1, 0xf2, 0xf3, 0xf4, 0xf5, 0xf6, 0xf7, 0xf8,
			0xf9, 0xfa,
		},
	},
	// Chrominance DC.
	{
		[16]byte{0, 3, 1, 1, 1, 1, 1, 1, 1, 1, 1, 0, 0, 0, 0, 0},
		[]byte{0, 1, 2, 3, 4, 5, 6, 7, 8, 9, 10, 11},
	},
	// Chrominance AC.
	{
		[16]byte{0, 2, 1, 2, 4, 4, 3, 4, 7, 5, 4, 4, 0, 1, 2, 119},
		[]byte{
			0x00, 0x01, 0x02, 0x03, 0x11, 0x04, 0x05, 0x21,
			0x31, 0x06, 0x12, 0x41, 0x51, 0x07, 0x61, 0x71,
			0x13, 0x22, 0x32, 0x81, 0x08, 0x14, 0x42, 0x91,
			0xa1, 0xb1, 0xc1, 0x09, 0x23, 0x33, 0x52, 0xf0,
			0x15, 0x62, 0x72, 0xd1, 0x0a, 0x16, 0x24, 0x34,
			0xe1, 0x25, 0xf1, 0x17, 0x18, 0x19, 0x1a, 0x26,
			0x27, 0x28, 0x29, 0x2a, 0x35, 0x36, 0x37, 0x38,
			0x39, 0x3a, 0x43, 0x44, 0x45, 0x46, 0x47, 0x48,
			0x49, 0x4a, 0x53, 0x54, 0x55, 0x56, 0x57, 0x58,
			0x59, 0x5a, 0x63, 0x64, 0x65, 0x66, 0x67, 0x68,
			0x69, 0x6a, 0x73, 0x74, 0x75, 0x76, 0x77, 0x78,
			0x79, 0x7a, 0x82, 0x83, 0x84, 0x85, 0x86, 0x87,
			0x88, 0x89, 0x8a, 0x92, 0x93, 0x94, 0x95, 0x96,
			0x97, 0x98, 0x99, 0x9a, 0xa2, 0xa3, 0xa4, 0xa5,
			0xa6, 0xa7, 0xa8, 0xa9, 0xaa, 0xb2, 0xb3, 0xb4,
			0xb5, 0xb6, 0xb7, 0xb8, 0xb9, 0xba, 0xc2, 0xc3,
			0xc4, 0xc5, 0xc6, 0xc7, 0xc8, 0xc9, 0xca, 0xd2,
			0xd3, 0xd4, 0xd5, 0xd6, 0xd7, 0xd8, 0xd9, 0xda,
			0xe2, 0xe3, 0xe4, 0xe5, 0xe6, 0xe7, 0xe8, 0xe9,
			0xea, 0xf2, 0xf3, 0xf4, 0xf5, 0xf6, 0xf7, 0xf8,
			0xf9, 0xfa,
		},
	},
}
