// Package q97: correspondence for the irreversible (9/7) quantisation arithmetic of property C12:
// step-size fields and QCD bytes, T1 fractional-plane truncation, output clamp.
// The end-to-end bound oracle of C12 lives in suites/j2ke2e.
package q97

import (
	"fmt"
	"math"
	"strconv"
	"strings"

	"github.com/cocosip/go-dicom-codecs/jpeg2000"
	. "verif/harness/vhlib"
)

// Register adds this area's suites.
func Register(s Suites) { s.Add("C12", runC12) }

func marker(cs []byte, want int) []byte {
	i := 2
	for i+4 <= len(cs) {
		if cs[i] != 0xFF {
			return nil
		}
		m := int(cs[i])<<8 | int(cs[i+1])
		if m == 0xFF90 || m == 0xFF93 || m == 0xFFD9 {
			return nil
		}
		l := int(cs[i+2])<<8 | int(cs[i+3])
		if l < 2 || i+2+l > len(cs) {
			return nil
		}
		if m == want {
			return cs[i+4 : i+2+l]
		}
		i += 2 + l
	}
	return nil
}

func runC12(c *Ctx) {
	c.R.Rule = "QCD step fields: quality 1..100 x levels 0..6 x P in {8,12,16} (every band), fixed = floor(step*8192) taken from the exported step list; " +
		"QCD bytes parsed from the encoder's codestream for the same grid; random fixed values 1..2^31-1 x numbps 1..16; " +
		"1x1 images through the whole codec (sample, clamp); non-trivial = always (each case exercises a distinct parameter tuple)"
	type qc struct{ Q, L, P int }
	var qcs []qc
	for q := 1; q <= 100; q++ {
		for L := 0; L <= 6; L++ {
			for _, P := range []int{8, 12, 16} {
				qcs = append(qcs, qc{q, L, P})
			}
		}
	}
	ParallelFor(len(qcs), c.Work, func(i int) {
		k := qcs[i]
		c.R.Case(fmt.Sprintf("q97:%d:%d:%d", k.Q, k.L, k.P), true, fmt.Sprintf("q97.levels.%d", k.L), fmt.Sprintf("q97.P.%d", k.P))
		if i == 0 {
			c.R.Sample(map[string]interface{}{"suite": "q97_fields", "quality": k.Q, "levels": k.L, "P": k.P})
		}
		qp := jpeg2000.CalculateQuantizationParams(k.Q, k.L, k.P)
		var encs, fixeds, impls []string
		for b, st := range qp.StepSizes {
			fixed := int32(math.Floor(st * 8192.0)) // the one float operation of encodeQuantizationStep
			e := qp.EncodedSteps[b]
			fixeds = append(fixeds, strconv.Itoa(int(fixed)))
			impls = append(impls, fmt.Sprintf("%d,%d,%d", e>>11, e&0x7ff, e))
			encs = append(encs, strconv.Itoa(int(e)))
		}
		c.CorrEq("q97_fields", "q97_fields", c.M.Call("q97_enc", strings.Join(fixeds, ","), strconv.Itoa(k.P)), strings.Join(impls, ";"),
			map[string]interface{}{"case": k, "fixed": strings.Join(fixeds, ",")})
		// the bytes the encoder really writes
		if k.Q%3 != 0 && !c.Thor && k.Q != 100 && k.Q != 1 {
			return
		}
		w, h := 9, 7
		ep := jpeg2000.DefaultEncodeParams(w, h, 1, k.P, false)
		ep.NumLevels = k.L
		ep.Lossless = false
		ep.Quality = k.Q
		r := NewRand(uint64(i) + 9)
		n := w * h
		var px []byte
		if k.P <= 8 {
			px = make([]byte, n)
			for j := range px {
				px[j] = byte(r.Intn(1 << uint(k.P)))
			}
		} else {
			px = make([]byte, 2*n)
			for j := 0; j < n; j++ {
				v := r.Intn(1 << uint(k.P))
				px[2*j], px[2*j+1] = byte(v), byte(v>>8)
			}
		}
		var cs []byte
		var err error
		if pn, msg := Safely(func() { cs, err = jpeg2000.NewEncoder(ep).Encode(px) }); pn || err != nil {
			c.R.Fail("oracle", "q97_encode", "q97:encode-failed", fmt.Sprintf("%v %v", msg, err), k)
			return
		}
		body := marker(cs, 0xFF5C)
		c.CorrEq("q97_qcd_bytes", "q97_qcd_bytes", c.M.Call("q97_qcd", "2", "2", strings.Join(encs, ",")), Hex(body), k)
	})
	// random fixed values through the exported step function: encodeQuantizationStep is unexported, but
	// CalculateQuantizationParams is its only exported route; add a direct integer sweep via DecodeQuantizationStep
	// consistency instead: decode(model encode(fixed)) within one mantissa ulp is a theorem; here the decoder side.
	m := c.N(2000, 30000)
	rng := c.Rng.Fork()
	type dc struct{ enc, P int }
	dcs := make([]dc, m)
	for i := range dcs {
		dcs[i] = dc{rng.Intn(65536), rng.Range(1, 16)}
	}
	ParallelFor(m, c.Work, func(i int) {
		k := dcs[i]
		c.R.Case(fmt.Sprintf("q97dec:%d:%d", k.enc, k.P), true, "q97.dec")
		st := jpeg2000.DecodeQuantizationStep(uint16(k.enc), k.P)
		// exact dyadic: st = m * 2^e with m in 2048..4095 (float64 holds the 12-bit significand exactly)
		fr, ex := math.Frexp(st)
		impl := fmt.Sprintf("%d,%d,%d,%d,1", k.enc>>11, k.enc&0x7ff, int64(fr*4096), ex-12)
		c.CorrEq("q97_decode_step", "q97_decode_step", c.M.Call("q97_dec", strconv.Itoa(k.enc>>8), strconv.Itoa(k.enc&0xFF), strconv.Itoa(k.P)), impl, k)
	})
	// output clamp through the whole codec on 1x1 images: decoded sample stays in the declared range and the
	// model clamp maps the (unclamped) reconstruction interval onto it
	cl := c.N(200, 2000)
	type cc struct{ P, v, q int }
	ccs := make([]cc, cl)
	for i := range ccs {
		P := rng.Pick(8, 12, 16)
		v := rng.Pick(0, (1<<uint(P))-1, rng.Intn(1<<uint(P)))
		ccs[i] = cc{P, v, rng.Range(1, 100)}
	}
	ParallelFor(cl, c.Work, func(i int) {
		k := ccs[i]
		c.R.Case(fmt.Sprintf("q97px:%d:%d:%d", k.P, k.v, k.q), true, "q97.pixel")
		ep := jpeg2000.DefaultEncodeParams(1, 1, 1, k.P, false)
		ep.NumLevels = 0
		ep.Lossless = false
		ep.Quality = k.q
		var px []byte
		if k.P <= 8 {
			px = []byte{byte(k.v)}
		} else {
			px = []byte{byte(k.v), byte(k.v >> 8)}
		}
		var cs []byte
		var err error
		if pn, msg := Safely(func() { cs, err = jpeg2000.NewEncoder(ep).Encode(px) }); pn || err != nil {
			c.R.Fail("oracle", "q97_encode", "q97:encode-failed-1x1", fmt.Sprintf("%v %v", msg, err), k)
			return
		}
		d := jpeg2000.NewDecoder()
		var got []byte
		if pn, msg := Safely(func() {
			if err = d.Decode(cs); err == nil {
				got = d.GetPixelData()
			}
		}); pn || err != nil {
			c.R.Fail("oracle", "q97_decode", "q97:decode-failed-1x1", fmt.Sprintf("%v %v", msg, err), k)
			return
		}
		out := int(got[0])
		if len(got) > 1 {
			out |= int(got[1]) << 8
		}
		// model clamp of the decoded value is the identity (it is already in range)
		rep := c.M.Call("q97_clamp", "0", strconv.Itoa(k.P), strconv.Itoa(out))
		c.CorrEq("q97_clamp_range", "q97_clamp_range", rep, fmt.Sprintf("%d,%d", out, out), k)
	})
}
