package j2ke2e

import (
	"bytes"
	"encoding/json"
	"fmt"
	"os"
	"path/filepath"

	repocodec "github.com/cocosip/go-dicom-codecs/codec"
	"github.com/cocosip/go-dicom-codecs/jpeg2000"
	"github.com/cocosip/go-dicom-codecs/jpeg2000/htj2k"
	j2kl "github.com/cocosip/go-dicom-codecs/jpeg2000/lossless"
	"github.com/cocosip/go-dicom-codecs/jpeg2000/t2"
	"github.com/cocosip/go-dicom/pkg/dicom/transfer"
	"github.com/cocosip/go-dicom/pkg/imaging/codec"
	"github.com/cocosip/go-dicom/pkg/imaging/imagetypes"
	. "verif/harness/vhlib"
)

func init() { registerMore = func(s Suites) { s.Add("C05", runC05); s.Add("C06", runC06) } }

// FrameCase: a frame description + content for codec-level round trips.
type FrameCase struct {
	Rows, Cols, BA, BS, SPP, PR int
	Content                     int
	Seed                        uint64
}

func (f FrameCase) Info() *imagetypes.FrameInfo {
	pi := "MONOCHROME2"
	if f.SPP == 3 {
		pi = "RGB"
	}
	return &imagetypes.FrameInfo{Width: uint16(f.Cols), Height: uint16(f.Rows), BitsAllocated: uint16(f.BA), BitsStored: uint16(f.BS),
		HighBit: uint16(f.BS - 1), SamplesPerPixel: uint16(f.SPP), PixelRepresentation: uint16(f.PR), PlanarConfiguration: 0, PhotometricInterpretation: pi}
}

func (f FrameCase) Pixels() []byte {
	r := NewRand(f.Seed)
	lo, hi := 0, (1<<f.BS)-1
	if f.PR == 1 {
		lo, hi = -(1 << (f.BS - 1)), (1<<(f.BS-1))-1
	}
	s := GenSamples(r, f.Rows*f.Cols, f.SPP, lo, hi, f.Content)
	// BitsAllocated container, BitsStored-bit two's complement in the low bits
	if f.BA == 8 {
		return Pack(s, f.BS)
	}
	mask := (1 << f.BS) - 1
	b := make([]byte, 2*len(s))
	for i, v := range s {
		u := v & mask
		b[2*i], b[2*i+1] = byte(u), byte(u>>8)
	}
	return b
}

// codecRoundTrip encodes one frame through a registry codec and decodes it again.
func codecRoundTrip(cd codec.Codec, f FrameCase, params codec.Parameters) (site, what string) {
	src := f.Pixels()
	keep := append([]byte(nil), src...)
	in := repocodec.NewTestPixelData(f.Info())
	_ = in.AddFrame(src)
	mid := repocodec.NewTestPixelData(f.Info())
	var err error
	if p, msg := Safely(func() { err = cd.Encode(in, mid, params) }); p {
		return "encode-panic", msg
	}
	if err != nil {
		return "encode-error", err.Error()
	}
	if !bytes.Equal(src, keep) {
		return "input-modified", "Encode modified the source frame"
	}
	if mid.FrameCount() != 1 {
		return "frame-count", fmt.Sprintf("encode produced %d frames for 1", mid.FrameCount())
	}
	out := repocodec.NewTestPixelData(f.Info())
	if p, msg := Safely(func() { err = cd.Decode(mid, out, nil) }); p {
		return "decode-panic", msg
	}
	if err != nil {
		return "decode-error", err.Error()
	}
	if out.FrameCount() != 1 {
		return "frame-count", fmt.Sprintf("decode produced %d frames for 1", out.FrameCount())
	}
	got, _ := out.GetFrame(0)
	if !bytes.Equal(got, keep) {
		i := 0
		for i < len(got) && i < len(keep) && got[i] == keep[i] {
			i++
		}
		return "mismatch", fmt.Sprintf("decoded frame differs from source at byte %d (len %d vs %d)", i, len(got), len(keep))
	}
	return "", ""
}

type C05Case struct {
	F          FrameCase
	TS         string
	Generic    bool // pass the keys through a generic codec.Parameters instead of the typed object
	Nil        bool // nil parameters (defaults)
	Rate       int
	RateLevels []int
	Target     float64
	Layers     int
	PCRD       bool
	Levels     int
	Prog       int
	MCT        bool
	AppendLL   bool
}

func genFrame(r *Rand, thor bool, maxDim int) FrameCase {
	f := FrameCase{Seed: r.U64()}
	switch r.Intn(3) {
	case 0:
		f.Cols, f.Rows = r.Range(1, 40), r.Range(1, 80)
	case 1:
		f.Cols, f.Rows = r.Range(1, 12), r.Range(1, 12)
	default:
		f.Cols, f.Rows = r.Range(1, maxDim), r.Range(1, maxDim)
	}
	if r.Bool() {
		f.BA, f.BS = 8, r.Range(2, 8)
	} else {
		f.BA, f.BS = 16, r.Range(9, 16)
	}
	f.SPP = r.Pick(1, 1, 3)
	f.PR = r.Pick(0, 0, 1)
	f.Content = r.Pick(0, 0, 0, 1, 2, 3, 4, 5)
	return f
}

func genC05(r *Rand, thor bool) C05Case {
	m := 120
	if thor {
		m = 600
	}
	k := C05Case{F: genFrame(r, thor, m)}
	if k.F.Cols*k.F.Rows > 20000 && !thor {
		k.F.Rows = 1 + 20000/k.F.Cols
	}
	k.TS = "90"
	if r.Bool() {
		k.TS = "92"
	}
	switch r.Intn(8) {
	case 0:
		k.Nil = true
		return k
	case 1:
		k.Generic = true
	}
	// property domain: AppendLosslessLayer=true, or (Rate=0 and TargetRatio=0).
	// The encoder has four rate-control paths; each is drawn with a fixed share so that none
	// is starved: (a) Rate>0: rate ladder (LayerRates); (b) Rate=0, TargetRatio>0: PCRD
	// target-ratio refinement loop (re-runs the packet encoder); (c) Rate=0, TargetRatio=0,
	// several layers: plain layer allocation; (d) Rate=0, TargetRatio=0, one layer.
	path := r.Intn(4)
	k.AppendLL = true
	switch path {
	case 0:
		k.Rate = r.Pick(1, 2, 5, 10, 20, 20, 40, 80, 160, 640, 1280, r.Range(1, 1280))
		k.Target = float64(r.Pick(0, 0, 0, 1, 2, 5, 8, 9, 20, 50, 100))
	case 1:
		k.Rate = 0
		k.Target = float64(r.Pick(1, 2, 3, 5, 8, 9, 10, 20, 50, 100))
		if r.Intn(4) == 0 {
			k.Target = float64(r.Range(1, 1000)) / 10
		}
		// the refinement loop only runs when orig_bytes/TargetRatio exceeds the fixed header
		// overhead: make most of these images large enough and busy
		if r.Intn(4) != 0 {
			k.F.Cols, k.F.Rows = r.Range(48, 128), r.Range(48, 128)
			k.F.Content = 0
		}
	default:
		k.Rate, k.Target = 0, 0
		k.AppendLL = r.Bool()
	}
	// any descending ladder
	switch r.Intn(4) {
	case 0:
		k.RateLevels = []int{1280, 640, 320, 160, 80, 40, 20, 10, 5}
	case 1:
		k.RateLevels = nil
	default:
		n := r.Range(1, 6)
		v := r.Range(20, 1500)
		for i := 0; i < n && v >= 1; i++ {
			k.RateLevels = append(k.RateLevels, v)
			v = v * r.Range(20, 90) / 100
		}
	}
	k.Layers = r.Range(1, 10)
	switch r.Intn(12) {
	case 0:
		k.Layers = r.Pick(11, 12, 16, 20, 33, 100)
	case 1:
		// many layers: blocks first included in a very late layer (tag-tree values >= 999)
		k.Layers = r.Pick(999, 1000, 1001, 2000, 5000)
		if r.Intn(3) != 0 {
			k.F.Cols, k.F.Rows = r.Range(1, 16), r.Range(1, 16)
		} else if k.F.Cols*k.F.Rows > 64*64 {
			k.F.Cols, k.F.Rows = 64, r.Range(1, 64)
		}
	case 2:
		// ladder that is not descending (any RateLevels value is in the property's domain)
		n := r.Range(2, 6)
		k.RateLevels = nil
		for i := 0; i < n; i++ {
			k.RateLevels = append(k.RateLevels, r.Pick(5, 10, 20, 30, 40, 80, 160, 640, r.Range(1, 1500)))
		}
	}
	if path == 3 {
		k.Layers = 1
	}
	k.PCRD = r.Bool()
	k.Levels = r.Range(0, 6)
	k.Prog = r.Range(0, 4)
	k.MCT = r.Bool()
	return k
}

func (k C05Case) Params() codec.Parameters {
	if k.Nil {
		return nil
	}
	p := j2kl.NewLosslessParameters()
	p.Rate = k.Rate
	p.RateLevels = append([]int(nil), k.RateLevels...)
	p.TargetRatio = k.Target
	p.NumLayers = k.Layers
	p.UsePCRDOpt = k.PCRD
	p.NumLevels = k.Levels
	p.ProgressionOrder = uint8(k.Prog)
	p.AllowMCT = k.MCT
	p.AppendLosslessLayer = k.AppendLL
	if !k.Generic {
		return p
	}
	g := codec.NewBaseParameters()
	g.SetParameter("rate", k.Rate)
	if len(k.RateLevels) > 0 {
		g.SetParameter("rateLevels", append([]int(nil), k.RateLevels...))
	}
	g.SetParameter("targetRatio", k.Target)
	g.SetParameter("numLayers", k.Layers)
	g.SetParameter("usePCRDOpt", k.PCRD)
	g.SetParameter("numLevels", k.Levels)
	g.SetParameter("progressionOrder", k.Prog)
	g.SetParameter("allowMCT", k.MCT)
	g.SetParameter("appendLosslessLayer", k.AppendLL)
	return g
}

func tsOf(s string) *transfer.Syntax {
	switch s {
	case "90":
		return transfer.JPEG2000Lossless
	case "92":
		return transfer.JPEG2000Part2MultiComponentLosslessOnly
	case "201":
		return transfer.HTJ2KLossless
	case "202":
		return transfer.HTJ2KLosslessRPCL
	}
	return nil
}

func runC05(c *Ctx) {
	c.R.Rule = "registry codecs .90/.92, one frame per case; parameters drawn from the property's domain (nil; typed JPEG2000LosslessParameters; generic codec.Parameters with the same keys) with AppendLosslessLayer=true or Rate=TargetRatio=0; widths 1..40 x heights 1..80, tiny, random to 120/600; BitsStored 2..16; SPP 1/3; signed; non-trivial = non-default parameters and non-constant content"
	n := c.N(500, 8000)
	rng := c.Rng.Fork()
	cases := make([]C05Case, n)
	for i := range cases {
		cases[i] = genC05(rng, c.Thor)
	}
	if raws := c.ReplayInputs("j2k_lossless_codec"); raws != nil {
		cases = cases[:0]
		for _, r := range raws {
			var k C05Case
			if json.Unmarshal(r, &k) == nil && k.F.Cols > 0 {
				cases = append(cases, k)
			}
		}
		n = len(cases)
	}
	reg := codec.GetGlobalRegistry()
	ParallelFor(n, c.Work, func(i int) {
		k := cases[i]
		key, _ := json.Marshal(k)
		c.R.Case(string(key), !k.Nil && k.F.Content != 3, "c05.ts."+k.TS, fmt.Sprintf("c05.layers.%d", k.Layers), fmt.Sprintf("c05.append.%v", k.AppendLL),
			fmt.Sprintf("c05.rate>0.%v", k.Rate > 0), fmt.Sprintf("c05.target>0.%v", k.Target > 0), fmt.Sprintf("c05.generic.%v", k.Generic), fmt.Sprintf("c05.small.%v", k.F.Cols < 64 && k.F.Rows < 64))
		if i < 2 {
			c.R.Sample(k)
		}
		cd, ok := reg.GetCodec(tsOf(k.TS))
		if !ok || cd == nil {
			c.R.Fail("oracle", "j2k_lossless_codec", "c05:no-codec:"+k.TS, "codec not registered", k)
			return
		}
		c.R.Oracle("j2k_lossless_codec")
		if site, what := codecRoundTrip(cd, k.F, k.Params()); site != "" {
			sg := "u"
			if k.F.PR == 1 {
				sg = "s"
			}
			c.R.Fail("oracle", "j2k_lossless_codec", fmt.Sprintf("c05:%s:%s:ts=%s", site, sg, k.TS), what+" | "+string(key), k)
		}
	})
}

// ---------------- C06: HTJ2K lossless ----------------

type C06Case struct {
	F      FrameCase
	TS     string
	BW, BH int
	Levels int
	Nil    bool
	ViaDec bool // decode with jpeg2000.Decoder + SetBlockDecoderFactory(htj2k.NewHTDecoder) instead of the codec
}

func genC06(r *Rand, thor bool) C06Case {
	m := 100
	if thor {
		m = 600
	}
	k := C06Case{}
	k.F = FrameCase{Seed: r.U64()}
	switch r.Intn(3) {
	case 0:
		k.F.Cols, k.F.Rows = r.Range(1, 80), r.Range(1, 80)
	case 1:
		k.F.Cols, k.F.Rows = r.Pick(1, 1, 2, 3, r.Range(1, 80)), r.Pick(1, 2, 3, r.Range(1, 80))
	default:
		k.F.Cols, k.F.Rows = r.Range(1, m), r.Range(1, m)
	}
	if k.F.Cols*k.F.Rows > 20000 && !thor {
		k.F.Rows = 1 + 20000/k.F.Cols
	}
	if r.Bool() {
		k.F.BA = 8
		k.F.BS = r.Pick(8, 8, 8, r.Range(2, 8))
	} else {
		k.F.BA = 16
		k.F.BS = r.Pick(16, 16, 12, r.Range(9, 16))
	}
	k.F.SPP = r.Pick(1, 1, 3)
	k.F.PR = r.Pick(0, 0, 1)
	k.F.Content = r.Pick(0, 0, 0, 1, 2, 3, 4, 5)
	k.TS = "201"
	if r.Bool() {
		k.TS = "202"
	}
	k.BW, k.BH = 1<<r.Range(2, 6), 1<<r.Range(2, 6)
	k.Levels = r.Range(0, 6)
	k.Nil = r.Intn(6) == 0
	k.ViaDec = r.Intn(4) == 0
	return k
}

func runC06(c *Ctx) {
	c.R.Rule = "registry codecs .201/.202, one frame per case over Rows/Cols 1..80 grid, 1-pixel-wide/high, random to 100/600, strips longer than 32768; 8/16 bit allocated, BitsStored <= BitsAllocated; SPP 1/3; signed; htj2k.Parameters block sizes 4..64, levels 0..6 (or nil); decode through the codec or through jpeg2000.Decoder with the HT block decoder factory; plus all third-party fixtures of test-data/htj2k/interop decoded against their raw images; non-trivial = non-constant content"
	n := c.N(500, 8000)
	rng := c.Rng.Fork()
	cases := make([]C06Case, n)
	for i := range cases {
		cases[i] = genC06(rng, c.Thor)
	}
	// strips longer than the maximal precinct size 2^15 (sub-bands wider / higher than 32768 samples)
	strips := [][3]int{{32770, 1, -1}, {1, 32770, -1}, {33000, 3, 0}, {40000, 1, 0}, {2, 33333, 0}, {65535, 1, -1}}
	if c.Thor {
		strips = append(strips, [3]int{1, 65535, -1}, [3]int{65535, 2, 1}, [3]int{3, 40000, 0})
	}
	for i, st := range strips {
		k := C06Case{F: FrameCase{Seed: rng.U64(), Cols: st[0], Rows: st[1], BA: []int{8, 16}[i%2], SPP: 1, Content: i % 2}, TS: []string{"201", "202"}[i%2],
			BW: 64, BH: 64, Levels: st[2], Nil: st[2] < 0, ViaDec: i%3 == 2}
		k.F.BS = k.F.BA
		if k.Nil {
			k.Levels = 0
		}
		cases = append(cases, k)
	}
	n = len(cases)
	if raws := c.ReplayInputs("htj2k_lossless_codec"); raws != nil {
		cases = cases[:0]
		for _, r := range raws {
			var k C06Case
			if json.Unmarshal(r, &k) == nil && k.F.Cols > 0 {
				cases = append(cases, k)
			}
		}
		n = len(cases)
	}
	reg := codec.GetGlobalRegistry()
	ParallelFor(n, c.Work, func(i int) {
		k := cases[i]
		key, _ := json.Marshal(k)
		c.R.Case(string(key), k.F.Content != 3, "c06.ts."+k.TS, fmt.Sprintf("c06.levels.%d", k.Levels), fmt.Sprintf("c06.ba.%d", k.F.BA), fmt.Sprintf("c06.spp.%d", k.F.SPP), fmt.Sprintf("c06.thin.%v", k.F.Cols == 1 || k.F.Rows == 1))
		if i < 2 {
			c.R.Sample(k)
		}
		cd, ok := reg.GetCodec(tsOf(k.TS))
		if !ok || cd == nil {
			c.R.Fail("oracle", "htj2k_lossless_codec", "c06:no-codec:"+k.TS, "codec not registered", k)
			return
		}
		var params codec.Parameters
		if !k.Nil {
			p := htj2k.NewHTJ2KLosslessParameters()
			p.BlockWidth, p.BlockHeight, p.NumLevels = k.BW, k.BH, k.Levels
			params = p
		}
		c.R.Oracle("htj2k_lossless_codec")
		site, what := "", ""
		if !k.ViaDec {
			site, what = codecRoundTrip(cd, k.F, params)
		} else {
			site, what = htViaDecoder(cd, k, params)
		}
		if c.Replay != "" {
			c.R.Note("%s lv=%d %dx%d cb=%d content=%d -> %s", k.TS, k.Levels, k.F.Rows, k.F.Cols, k.BW, k.F.Content, site)
		}
		if site == "" {
			c.R.Count(fmt.Sprintf("c06.PASS.signed=%d.bsfull=%v.thin=%v", k.F.PR, k.F.BS == k.F.BA, k.F.Cols == 1 || k.F.Rows == 1))
		}
		if site != "" {
			sg := "u"
			if k.F.PR == 1 {
				sg = "s"
			}
			full := "bs=ba"
			if k.F.BS != k.F.BA {
				full = "bs<ba"
			}
			c.R.Count(fmt.Sprintf("c06.FAIL.signed=%s.%s.thin=%v.levels0=%v.nil=%v.spp=%d.ba=%d", sg, full, k.F.Cols == 1 || k.F.Rows == 1, k.Levels == 0, k.Nil, k.F.SPP, k.F.BA))
			c.R.Fail("oracle", "htj2k_lossless_codec", fmt.Sprintf("c06:%s:%s:%s", site, sg, full), what+" | "+string(key), k)
		}
	})
	if c.Replay == "" {
		runC06Fixtures(c)
	}
}

func htViaDecoder(cd codec.Codec, k C06Case, params codec.Parameters) (string, string) {
	src := k.F.Pixels()
	in := repocodec.NewTestPixelData(k.F.Info())
	_ = in.AddFrame(src)
	mid := repocodec.NewTestPixelData(k.F.Info())
	var err error
	if p, msg := Safely(func() { err = cd.Encode(in, mid, params) }); p {
		return "encode-panic", msg
	}
	if err != nil {
		return "encode-error", err.Error()
	}
	cs, _ := mid.GetFrame(0)
	d := jpeg2000.NewDecoder()
	d.SetBlockDecoderFactory(func(w, h int, _ int) t2.BlockDecoder { return htj2k.NewHTDecoder(w, h) })
	if p, msg := Safely(func() { err = d.Decode(cs) }); p {
		return "decoder-panic", msg
	}
	if err != nil {
		return "decoder-error", err.Error()
	}
	if d.Width() != k.F.Cols || d.Height() != k.F.Rows || d.Components() != k.F.SPP {
		return "decoder-geometry", fmt.Sprintf("decoder reports %dx%d c=%d", d.Width(), d.Height(), d.Components())
	}
	// compare sample values (the decoder reports the precision the codec declared)
	var out []byte
	if p, msg := Safely(func() { out = d.GetPixelData() }); p {
		return "decoder-panic", msg
	}
	want := src
	if len(out) != len(want) {
		// container width follows the declared bit depth; compare sample-wise
		return compareSamples(out, d.BitDepth(), want, k.F.BA, k.F.BS)
	}
	if !bytes.Equal(out, want) {
		return compareSamples(out, d.BitDepth(), want, k.F.BA, k.F.BS)
	}
	return "", ""
}

func compareSamples(got []byte, gotDepth int, want []byte, ba, bs int) (string, string) {
	rd := func(b []byte, wide bool, i int) int {
		if wide {
			return int(b[2*i]) | int(b[2*i+1])<<8
		}
		return int(b[i])
	}
	gw, ww := gotDepth > 8, ba > 8
	ng, nw := len(got), len(want)
	if gw {
		ng /= 2
	}
	if ww {
		nw /= 2
	}
	if ng != nw {
		return "decoder-mismatch", fmt.Sprintf("sample count %d vs %d", ng, nw)
	}
	mask := (1 << bs) - 1
	for i := 0; i < ng; i++ {
		if rd(got, gw, i)&mask != rd(want, ww, i)&mask {
			return "decoder-mismatch", fmt.Sprintf("sample %d differs", i)
		}
	}
	return "", ""
}

func runC06Fixtures(c *Ctx) {
	root := "/repo/test-data/htj2k/interop"
	b, err := os.ReadFile(filepath.Join(root, "manifest.json"))
	if err != nil {
		c.R.Fail("oracle", "htj2k_fixtures", "c06:fixtures:manifest", "cannot read manifest: "+err.Error(), nil)
		return
	}
	var man struct {
		Fixtures []struct {
			Name                      string
			Width, Height, Components int
			BitsAllocated, BitsStored int
			Signed                    bool
			InputRaw                  string
			Codestreams               map[string]struct {
				Path     string
				Lossless bool
			}
		}
	}
	if err := json.Unmarshal(b, &man); err != nil {
		c.R.Fail("oracle", "htj2k_fixtures", "c06:fixtures:manifest", "cannot parse manifest: "+err.Error(), nil)
		return
	}
	count := 0
	for _, fx := range man.Fixtures {
		raw, err := os.ReadFile(filepath.Join(root, fx.InputRaw))
		if err != nil {
			c.R.Fail("oracle", "htj2k_fixtures", "c06:fixtures:read:"+fx.Name, err.Error(), fx.Name)
			continue
		}
		for cname, cs := range fx.Codestreams {
			if !cs.Lossless {
				continue
			}
			data, err := os.ReadFile(filepath.Join(root, cs.Path))
			if err != nil {
				c.R.Fail("oracle", "htj2k_fixtures", "c06:fixtures:read:"+fx.Name, err.Error(), cs.Path)
				continue
			}
			count++
			id := fx.Name + "/" + cname
			c.R.Case("fixture:"+id, true, "c06.fixture")
			c.R.Oracle("htj2k_fixtures")
			d := jpeg2000.NewDecoder()
			d.SetBlockDecoderFactory(func(w, h int, _ int) t2.BlockDecoder { return htj2k.NewHTDecoder(w, h) })
			var derr error
			if p, msg := Safely(func() { derr = d.Decode(data) }); p {
				c.R.Fail("oracle", "htj2k_fixtures", "c06:fixture:panic:"+id, msg, cs.Path)
				continue
			}
			if derr != nil {
				c.R.Fail("oracle", "htj2k_fixtures", "c06:fixture:error:"+id, derr.Error(), cs.Path)
				continue
			}
			if d.Width() != fx.Width || d.Height() != fx.Height || d.Components() != fx.Components {
				c.R.Fail("oracle", "htj2k_fixtures", "c06:fixture:geometry:"+id, "geometry differs", cs.Path)
				continue
			}
			out := d.GetPixelData()
			if site, what := compareSamples(out, d.BitDepth(), raw, fx.BitsAllocated, fx.BitsStored); site != "" {
				c.R.Fail("oracle", "htj2k_fixtures", "c06:fixture:mismatch:"+id, what, cs.Path)
			}
		}
	}
	c.R.Note("third-party HTJ2K lossless fixtures decoded: %d", count)
	c.R.Dist["c06.fixtures_total"] = count
}
