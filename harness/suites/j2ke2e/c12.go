package j2ke2e

import (
	"encoding/json"
	"fmt"
	"math"
	"sync"

	"github.com/cocosip/go-dicom-codecs/jpeg2000"
	. "verif/harness/vhlib"
)

func init() {
	prev := registerMore
	registerMore = func(s Suites) {
		if prev != nil {
			prev(s)
		}
		s.Add("C12", runC12)
	}
}

// ---------- independent inverse 9/7 (ISO/IEC 15444-1 F.3.8.2 inverted), float64 ----------

const (
	k97Alpha = -1.586134342059924
	k97Beta  = -0.052980118572961
	k97Gamma = 0.882911075530934
	k97Delta = 0.443506852043971
	k97K     = 1.230174104914001
)

// inv97one undoes one 1-D decomposition level: in = [low(ceil(n/2)) | high(floor(n/2))], origin even.
func inv97one(in []float64) []float64 {
	n := len(in)
	if n <= 1 {
		return append([]float64(nil), in...)
	}
	sn := (n + 1) / 2
	x := make([]float64, n)
	for i := 0; i < sn; i++ {
		x[2*i] = in[i] * k97K
	}
	for i := 0; i < n-sn; i++ {
		x[2*i+1] = in[sn+i] / k97K
	}
	at := func(i int) float64 { // whole-sample symmetric extension
		if i < 0 {
			i = -i
		}
		if i >= n {
			i = 2*(n-1) - i
		}
		if i < 0 {
			i = 0
		}
		return x[i]
	}
	for i := 0; i < n; i += 2 {
		x[i] -= k97Delta * (at(i-1) + at(i+1))
	}
	for i := 1; i < n; i += 2 {
		x[i] -= k97Gamma * (at(i-1) + at(i+1))
	}
	for i := 0; i < n; i += 2 {
		x[i] -= k97Beta * (at(i-1) + at(i+1))
	}
	for i := 1; i < n; i += 2 {
		x[i] -= k97Alpha * (at(i-1) + at(i+1))
	}
	return x
}

// lowLen returns the low-band length after l levels of a length-n signal (even origins).
func lowLen(n, l int) int {
	for i := 0; i < l; i++ {
		n = (n + 1) / 2
	}
	return n
}

// absResp1D[l][t][p] = sum over the positions k of the level-l band of type t (0 low, 1 high) of
// |response at full-resolution sample p to a unit impulse at k|, for a length-n axis.
// Level 0 / type 0 is the identity (no decomposition).
func absResp1D(n, levels int) [][2][]float64 {
	out := make([][2][]float64, levels+1)
	id := make([]float64, n)
	for i := range id {
		id[i] = 1
	}
	out[0][0] = id
	for l := 1; l <= levels; l++ {
		nl := lowLen(n, l-1) // length of the signal that level l decomposes
		sn := (nl + 1) / 2
		for t := 0; t < 2; t++ {
			acc := make([]float64, n)
			cnt := sn
			off := 0
			if t == 1 {
				cnt = nl - sn
				off = sn
			}
			for k := 0; k < cnt; k++ {
				cur := make([]float64, nl)
				cur[off+k] = 1
				sig := inv97one(cur)
				for ll := l - 1; ll >= 1; ll-- {
					up := make([]float64, lowLen(n, ll-1))
					copy(up, sig) // low part = current signal, high part zero
					sig = inv97one(up)
				}
				for p := 0; p < n; p++ {
					acc[p] += math.Abs(sig[p])
				}
			}
			out[l][t] = acc
		}
	}
	return out
}

var respCache sync.Map

func cachedResp(n, levels int) [][2][]float64 {
	key := [2]int{n, levels}
	if v, ok := respCache.Load(key); ok {
		return v.([][2][]float64)
	}
	r := absResp1D(n, levels)
	respCache.Store(key, r)
	return r
}

// parseQCD finds the QCD marker segment of the main header and returns (style, guard bits, SPqcd values).
func parseQCD(cs []byte) (style, guard int, sp []int, ok bool) {
	i := 2
	for i+4 <= len(cs) {
		if cs[i] != 0xFF {
			return
		}
		m := int(cs[i])<<8 | int(cs[i+1])
		if m == 0xFF90 || m == 0xFF93 || m == 0xFFD9 {
			return
		}
		l := int(cs[i+2])<<8 | int(cs[i+3])
		if l < 2 || i+2+l > len(cs) {
			return
		}
		if m == 0xFF5C {
			sq := int(cs[i+4])
			style, guard = sq&0x1F, sq>>5
			body := cs[i+5 : i+2+l]
			if style == 0 {
				for _, b := range body {
					sp = append(sp, int(b))
				}
			} else {
				for j := 0; j+1 < len(body); j += 2 {
					sp = append(sp, int(body[j])<<8|int(body[j+1]))
				}
			}
			return style, guard, sp, true
		}
		i += 2 + l
	}
	return
}

type C12Case struct {
	W, H, Comps, P int
	Signed         bool
	Levels         int
	Quality        int
	PrevQ          int // > 0: the Encoder object was used once before at this quality
	CB             int
	Content        int
	Seed           uint64
}

func (k C12Case) pixels() ([]byte, []int) {
	r := NewRand(k.Seed)
	lo, hi := 0, (1<<k.P)-1
	if k.Signed {
		lo, hi = -(1 << (k.P - 1)), (1<<(k.P-1))-1
	}
	s := GenSamples(r, k.W*k.H, k.Comps, lo, hi, k.Content)
	return Pack(s, k.P), s
}

func unpack(b []byte, P int, signed bool) []int {
	var out []int
	if P <= 8 {
		out = make([]int, len(b))
		for i, v := range b {
			out[i] = int(v)
		}
	} else {
		out = make([]int, len(b)/2)
		for i := range out {
			out[i] = int(b[2*i]) | int(b[2*i+1])<<8
		}
	}
	if signed {
		for i, v := range out {
			if v >= 1<<(P-1) {
				out[i] = v - (1 << P)
			}
		}
	}
	return out
}

// c12Check returns (site, what) — "" when the bound holds.
func c12Check(k C12Case, allowance float64) (string, string) {
	pix, src := k.pixels()
	p := jpeg2000.DefaultEncodeParams(k.W, k.H, k.Comps, k.P, k.Signed)
	p.Lossless = false
	p.Quality = k.Quality
	p.NumLevels = k.Levels
	p.NumLayers = 1
	p.TargetRatio = 0
	p.CodeBlockWidth, p.CodeBlockHeight = k.CB, k.CB
	var enc []byte
	var err error
	if pn, msg := Safely(func() {
		e := jpeg2000.NewEncoder(p)
		if k.PrevQ > 0 {
			// the same Encoder object first used at another quality: the configuration of the
			// second call is what the property quantifies over
			p.Quality = k.PrevQ
			_, _ = e.Encode(pix)
			p.Quality = k.Quality
		}
		enc, err = e.Encode(pix)
	}); pn {
		return "encode-panic", msg
	}
	if err != nil {
		return "encode-error", err.Error()
	}
	d := jpeg2000.NewDecoder()
	if pn, msg := Safely(func() { err = d.Decode(enc) }); pn {
		return "decode-panic", msg
	}
	if err != nil {
		return "decode-error", err.Error()
	}
	if d.Width() != k.W || d.Height() != k.H || d.Components() != k.Comps || d.BitDepth() != k.P || d.IsSigned() != k.Signed {
		return "geometry", fmt.Sprintf("decoder reports %dx%d c=%d P=%d signed=%v", d.Width(), d.Height(), d.Components(), d.BitDepth(), d.IsSigned())
	}
	out := unpack(d.GetPixelData(), k.P, k.Signed)
	if len(out) != len(src) {
		return "geometry", fmt.Sprintf("decoded %d samples, expected %d", len(out), len(src))
	}
	style, _, sp, ok := parseQCD(enc)
	if !ok {
		return "qcd-missing", "no QCD marker segment in the main header"
	}
	nb := 3*k.Levels + 1
	// step sizes per subband (E-3): delta = 2^(Rb - eps) * (1 + mu/2^11), Rb = P + log2 gain
	steps := make([]float64, nb)
	for b := 0; b < nb; b++ {
		gain := 0
		if b > 0 {
			switch (b - 1) % 3 {
			case 0, 1:
				gain = 1
			default:
				gain = 2
			}
		}
		var eps, mu int
		switch style {
		case 2:
			if b >= len(sp) {
				return "qcd-short", fmt.Sprintf("QCD has %d entries for %d subbands", len(sp), nb)
			}
			eps, mu = sp[b]>>11, sp[b]&0x7FF
		case 1: // derived
			if len(sp) < 1 {
				return "qcd-short", "empty QCD"
			}
			eps, mu = sp[0]>>11, sp[0]&0x7FF
			if b > 0 {
				eps -= k.Levels - ((b-1)/3 + 1) // derived exponent: eps0 - NL + nb
				eps += 0
			}
		default:
			return "qcd-style", fmt.Sprintf("irreversible stream declares quantisation style %d", style)
		}
		steps[b] = math.Ldexp(1+float64(mu)/2048, k.P+gain-eps)
	}
	rx, ry := cachedResp(k.W, k.Levels), cachedResp(k.H, k.Levels)
	lo, hi := 0, (1<<k.P)-1
	if k.Signed {
		lo, hi = -(1 << (k.P - 1)), (1<<(k.P-1))-1
	}
	// colour: the same bound per transformed component, propagated through |inverse ICT|
	colourGain := []float64{1, 1, 1}
	extra := allowance
	if k.Comps == 3 {
		colourGain = []float64{1 + 1.402, 1 + 0.344136 + 0.714136, 1 + 1.772}
		extra = allowance + 3
	}
	for y := 0; y < k.H; y++ {
		for x := 0; x < k.W; x++ {
			L := k.Levels
			b := steps[0] * rx[L][0][x] * ry[L][0][y]
			for res := 1; res <= L; res++ {
				l := L - res + 1
				i := 1 + (res-1)*3
				b += steps[i]*rx[l][1][x]*ry[l][0][y] + steps[i+1]*rx[l][0][x]*ry[l][1][y] + steps[i+2]*rx[l][1][x]*ry[l][1][y]
			}
			for c := 0; c < k.Comps; c++ {
				g := 1.0
				if k.Comps == 3 {
					g = colourGain[c]
				}
				idx := (y*k.W+x)*k.Comps + c
				v := out[idx]
				if v < lo || v > hi {
					return "range", fmt.Sprintf("decoded sample %d at (%d,%d,c%d) outside [%d,%d]", v, x, y, c, lo, hi)
				}
				if diff := math.Abs(float64(v - src[idx])); diff > b*g+extra+1e-6 {
					site := "bound"
					if quantiserCanOverflow(k, src, steps) {
						site = "bound:int32-quantiser-range"
					}
					return site, fmt.Sprintf("|decoded-source|=%.0f at (%d,%d,c%d) exceeds declared-step bound %.3f (+allowance %.0f)", diff, x, y, c, b*g, extra)
				}
			}
		}
	}
	return "", ""
}

// quantiserCanOverflow reports whether, for this image and the declared steps, a wavelet
// coefficient divided by its step and carrying the block coder's six fractional bits can
// reach 2^31 (peak deviation from mid-range times a generous analysis peak gain of 4 for LL
// and 8 for the detail bands). It only classifies a failure that has already been found.
func quantiserCanOverflow(k C12Case, src []int, steps []float64) bool {
	mid := 0
	if !k.Signed {
		mid = 1 << (k.P - 1)
	}
	peak := 0.0
	for _, v := range src {
		if a := math.Abs(float64(v - mid)); a > peak {
			peak = a
		}
	}
	for b, st := range steps {
		g := 8.0
		if b == 0 {
			g = 4
		}
		if st > 0 && peak*g/st*64 >= math.Ldexp(1, 31) {
			return true
		}
	}
	return false
}

func runC12(c *Ctx) {
	c.R.Rule = "irreversible 9/7 single-tile, no rate target: sizes 1..24 (quick) / 1..96 (thorough) with the per-sample bound computed from the QCD step sizes of the emitted stream through an independent float64 inverse 9/7 (exact absolute impulse-response sums, separable per band); comps {1,2,3,4} (the colour transform applies to exactly 3); P {8,12,16}; signed; quality 1..100; levels 0..6; a class of flat range-end images at P 12..16 with quality 85..100; code-blocks 16/32/64; one case in ten on an Encoder object already used at another quality; allowance max(2, 2^(P-13)) (+3 for colour); non-trivial = non-constant content"
	n := c.N(400, 5000)
	rng := c.Rng.Fork()
	cases := make([]C12Case, n)
	m := 24
	if c.Thor {
		m = 96
	}
	for i := range cases {
		k := C12Case{Seed: rng.U64()}
		k.W, k.H = rng.Range(1, m), rng.Range(1, m)
		if rng.Intn(5) == 0 {
			k.W, k.H = rng.Range(1, 6), rng.Range(1, 6)
		}
		k.Comps = rng.Pick(1, 1, 3, 3, 2, 4)
		k.P = rng.Pick(8, 8, 12, 16)
		k.Signed = rng.Intn(3) == 0
		k.Levels = rng.Range(0, 6)
		k.Quality = rng.Range(1, 100)
		if i < 100 {
			k.Quality = i + 1 // every quality visited
		}
		k.CB = rng.Pick(16, 32, 64)
		k.Content = rng.Pick(0, 0, 1, 2, 3, 4, 5)
		if rng.Intn(12) == 0 {
			// flat or two-valued images at the ends of the sample range, deep samples, high
			// quality, many levels: the largest coefficient-to-step ratios
			k.P = rng.Pick(12, 13, 14, 15, 16, 16)
			k.Quality = rng.Pick(100, 100, 99, 97, 95, 90, 85)
			k.Levels = rng.Pick(6, 6, 5, 4, 3)
			k.Content = rng.Pick(6, 6, 1)
		}
		if rng.Intn(10) == 0 {
			k.PrevQ = rng.Pick(100, 95, 60, 30, 5, rng.Range(1, 100))
		}
		if i == 0 { // smallest known member of the flat range-end class (finding F51)
			k = C12Case{Seed: 7, W: 16, H: 16, Comps: 1, P: 16, Levels: 6, Quality: 100, CB: 64, Content: 6}
		}
		cases[i] = k
	}
	if raws := c.ReplayInputs("j2k_irreversible_bound"); raws != nil {
		cases = cases[:0]
		for _, r := range raws {
			var k C12Case
			if json.Unmarshal(r, &k) == nil && k.W > 0 {
				cases = append(cases, k)
			}
		}
		n = len(cases)
	}
	ParallelFor(n, c.Work, func(i int) {
		k := cases[i]
		key, _ := json.Marshal(k)
		c.R.Case(string(key), k.Content != 3 && k.Content != 6, fmt.Sprintf("c12.levels.%d", k.Levels), fmt.Sprintf("c12.P.%d", k.P), fmt.Sprintf("c12.comps.%d", k.Comps), fmt.Sprintf("c12.q.%d", k.Quality/10*10))
		if i < 2 {
			c.R.Sample(k)
		}
		c.R.Oracle("j2k_irreversible_bound")
		// rounding allowance: 2 grey levels, widened for deep samples where the codec's float32
		// kernels (24-bit mantissa) cannot resolve single grey levels through 6 levels of gain
		allow := math.Max(2, math.Ldexp(1, k.P-13))
		if site, what := c12Check(k, allow); site != "" {
			c.R.Count("c12.FAIL." + site + fmt.Sprintf(".lv=%d.comps=%d.P=%d", k.Levels, k.Comps, k.P))
			c.R.Fail("oracle", "j2k_irreversible_bound", fmt.Sprintf("c12:%s:comps=%d:P=%d", site, k.Comps, k.P), what+" | "+string(key), k)
		}
	})
}
