// Package j2ke2e: end-to-end implementation-side oracles for the JPEG 2000 properties
// (C04 single tile reversible, C19 tiled, C05 lossless syntaxes, C06 HTJ2K, C12 irreversible).
// These reach the glue the Coq models do not cover (T2, rate control, codec wrappers).
package j2ke2e

import (
	"bytes"
	"fmt"

	"github.com/cocosip/go-dicom-codecs/jpeg2000"
	. "verif/harness/vhlib"
)

// Image content classes.
var contentNames = []string{"noise", "extremes", "ramp", "const", "sparse", "checker", "flat-end"}

// GenSamples produces w*h*comps samples in [lo,hi] (inclusive) by content class.
func GenSamples(r *Rand, n, comps int, lo, hi int, class int) []int {
	out := make([]int, n*comps)
	span := hi - lo + 1
	switch class {
	case 0: // noise
		for i := range out {
			out[i] = lo + r.Intn(span)
		}
	case 1: // extremes
		for i := range out {
			if r.Bool() {
				out[i] = lo
			} else {
				out[i] = hi
			}
		}
	case 2: // ramp
		step := 1 + r.Intn(5)
		for i := range out {
			out[i] = lo + (i/comps*step+i%comps*7)%span
		}
	case 3: // const
		v := lo + r.Intn(span)
		for i := range out {
			out[i] = v
		}
	case 4: // sparse outliers on a flat background
		v := lo + r.Intn(span)
		for i := range out {
			out[i] = v
			if r.Intn(17) == 0 {
				out[i] = lo + r.Intn(span)
			}
		}
	case 6: // flat at one end of the range (class used by C12)
		v := lo
		if r.Bool() {
			v = hi
		}
		for i := range out {
			out[i] = v
		}
	default: // checkerboard of two values
		a, b := lo+r.Intn(span), lo+r.Intn(span)
		for i := range out {
			if (i/comps)%2 == 0 {
				out[i] = a
			} else {
				out[i] = b
			}
		}
	}
	return out
}

// Pack stores samples in the low P bits of 8-bit (P<=8) or 16-bit LE (P>8) containers;
// negative values as P-bit two's complement with the unused high bits zero.
func Pack(samples []int, P int) []byte {
	mask := (1 << P) - 1
	if P <= 8 {
		b := make([]byte, len(samples))
		for i, v := range samples {
			b[i] = byte(v & mask)
		}
		return b
	}
	b := make([]byte, 2*len(samples))
	for i, v := range samples {
		u := v & mask
		b[2*i] = byte(u)
		b[2*i+1] = byte(u >> 8)
	}
	return b
}

type J2KCase struct {
	W, H, Comps, P int
	Signed         bool
	Levels         int
	CBW, CBH       int
	PW, PH         int
	Prog           int
	Layers         int
	MCT            bool
	TW, TH         int
	Content        int
	PCRD           bool
	AppendLL       bool
	Seed           uint64
}

func (k J2KCase) String() string {
	return fmt.Sprintf("%dx%d c=%d P=%d s=%v lv=%d cb=%dx%d pr=%dx%d po=%d ly=%d mct=%v tile=%dx%d pcrd=%v all=%v content=%s seed=%d",
		k.W, k.H, k.Comps, k.P, k.Signed, k.Levels, k.CBW, k.CBH, k.PW, k.PH, k.Prog, k.Layers, k.MCT, k.TW, k.TH, k.PCRD, k.AppendLL, contentNames[k.Content], k.Seed)
}

func (k J2KCase) Pixels() []byte {
	r := NewRand(k.Seed)
	lo, hi := 0, (1<<k.P)-1
	if k.Signed {
		lo, hi = -(1 << (k.P - 1)), (1<<(k.P-1))-1
	}
	return Pack(GenSamples(r, k.W*k.H, k.Comps, lo, hi, k.Content), k.P)
}

func (k J2KCase) Params() *jpeg2000.EncodeParams {
	p := jpeg2000.DefaultEncodeParams(k.W, k.H, k.Comps, k.P, k.Signed)
	p.NumLevels = k.Levels
	p.CodeBlockWidth, p.CodeBlockHeight = k.CBW, k.CBH
	p.PrecinctWidth, p.PrecinctHeight = k.PW, k.PH
	p.ProgressionOrder = uint8(k.Prog)
	p.NumLayers = k.Layers
	p.EnableMCT = k.MCT
	p.TileWidth, p.TileHeight = k.TW, k.TH
	p.Lossless = true
	p.UsePCRDOpt = k.PCRD
	p.AppendLosslessLayer = k.AppendLL
	return p
}

// RoundTrip encodes and decodes one case through jpeg2000.Encoder/Decoder and evaluates the
// exact-reconstruction property. Returns "" when it holds, else (failing site, description).
func RoundTrip(k J2KCase) (site, what string, cs []byte) {
	pix := k.Pixels()
	src := append([]byte(nil), pix...)
	var enc []byte
	var err error
	if p, msg := Safely(func() { enc, err = jpeg2000.NewEncoder(k.Params()).Encode(pix) }); p {
		return "encode-panic", msg, nil
	}
	if err != nil {
		return "encode-error", err.Error(), nil
	}
	if !bytes.Equal(pix, src) {
		return "input-modified", "encoder modified the caller's pixel buffer", enc
	}
	d := jpeg2000.NewDecoder()
	if p, msg := Safely(func() { err = d.Decode(enc) }); p {
		return "decode-panic", msg, enc
	}
	if err != nil {
		return "decode-error", err.Error(), enc
	}
	if d.Width() != k.W || d.Height() != k.H || d.Components() != k.Comps || d.BitDepth() != k.P || d.IsSigned() != k.Signed {
		return "geometry", fmt.Sprintf("decoder reports %dx%d c=%d P=%d signed=%v", d.Width(), d.Height(), d.Components(), d.BitDepth(), d.IsSigned()), enc
	}
	var out []byte
	if p, msg := Safely(func() { out = d.GetPixelData() }); p {
		return "getpixels-panic", msg, enc
	}
	if !bytes.Equal(out, src) {
		i := 0
		for i < len(out) && i < len(src) && out[i] == src[i] {
			i++
		}
		return "mismatch", fmt.Sprintf("decoded bytes differ from source at byte %d (len %d vs %d)", i, len(out), len(src)), enc
	}
	return "", "", enc
}
