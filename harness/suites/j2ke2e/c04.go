package j2ke2e

import (
	"encoding/json"
	"fmt"

	. "verif/harness/vhlib"
)

var registerMore func(Suites)

func Register(s Suites) {
	s.Add("C04", runC04)
	s.Add("C19", runC19)
	if registerMore != nil {
		registerMore(s)
	}
}

func pow2(r *Rand, lo, hi int) int { // power of two between 2^lo and 2^hi
	return 1 << r.Range(lo, hi)
}

func genC04(r *Rand, i int, thor bool) J2KCase {
	k := J2KCase{Seed: r.U64()}
	// sizes: grid 1..40, around code-block multiples, random up to 600 (thorough) / 150 (quick)
	manyPackets := r.Intn(6) == 0
	switch r.Intn(4) {
	case 0:
		k.W, k.H = r.Range(1, 40), r.Range(1, 40)
	case 1:
		cb := 1 << r.Range(2, 6)
		k.W, k.H = cb*r.Range(1, 3)+r.Range(-1, 1), cb*r.Range(1, 3)+r.Range(-1, 1)
	case 2:
		k.W, k.H = r.Range(1, 8), r.Range(1, 8)
	default:
		m := 150
		if thor {
			m = 600
		}
		k.W, k.H = r.Range(1, m), r.Range(1, m)
		if k.W*k.H > 40000 && !thor {
			k.H = 1 + 40000/k.W
		}
	}
	if k.W < 1 {
		k.W = 1
	}
	if k.H < 1 {
		k.H = 1
	}
	k.Comps = r.Range(1, 4)
	k.P = r.Range(1, 16)
	k.Signed = r.Intn(3) == 0
	k.Levels = r.Range(0, 6)
	k.CBW, k.CBH = pow2(r, 2, 6), pow2(r, 2, 6)
	k.PW, k.PH = r.Pick(0, 0, 32, 64, 128, 256), 0
	if k.PW != 0 {
		k.PH = r.Pick(32, 64, 128, 256)
	}
	k.Prog = r.Range(0, 4)
	k.Layers = r.Pick(1, 1, 1, 2, 3, 4, 5, 6)
	k.MCT = r.Bool()
	k.Content = r.Pick(0, 0, 0, 1, 2, 3, 4, 5)
	if r.Intn(25) == 0 {
		// many layers on a tiny image: code-blocks first included in a very late layer
		// (inclusion tag-tree values around and above 999, up to the 65535 layers accepted)
		k.W, k.H = r.Range(1, 16), r.Range(1, 16)
		k.Layers = r.Pick(998, 999, 1000, 1001, 1024, 2000, 5000)
		if thor && r.Intn(8) == 0 {
			k.Layers = r.Pick(20000, 65535)
		}
		k.Comps = r.Range(1, 2)
		manyPackets = false
	}
	if manyPackets {
		// many packets per image (small code-blocks and precincts, several layers, noise) so
		// that rare packet-header byte patterns (e.g. a header ending in 0xFF) are reached
		k.W, k.H = r.Range(48, 128), r.Range(48, 128)
		k.CBW, k.CBH = pow2(r, 2, 3), pow2(r, 2, 3)
		k.PW, k.PH = 32, 32
		k.Levels = r.Range(2, 5)
		k.Layers = r.Range(2, 6)
		k.Comps = r.Range(1, 3)
		k.Content = 0
	}
	return k
}

func sigC04(prefix string, k J2KCase, site string) string {
	sg := "u"
	if k.Signed {
		sg = "s"
	}
	pcl := "P>8"
	if k.P <= 8 {
		pcl = "P<8"
		if k.P == 8 {
			pcl = "P=8"
		}
	}
	return fmt.Sprintf("%s:%s:%s:%s", prefix, site, sg, pcl)
}

func runC04(c *Ctx) {
	c.R.Rule = "random single-tile reversible configurations over the property's space (size classes: 1..40 grid, around code-block multiples, tiny, random to 150/600, strips longer than 32768 / 65536 samples; comps 1-4; P 1-16; signed; levels 0-6; cb 4..64; precincts {0,32..256}; 5 progressions; layers 1-6 and a many-layers class 998..5000 (65535 thorough); MCT); non-trivial = content not constant and more than one sample; distinct by full configuration + content seed"
	n := c.N(700, 12000)
	rng := c.Rng.Fork()
	cases := make([]J2KCase, n)
	for i := range cases {
		cases[i] = genC04(rng, i, c.Thor)
	}
	// strips longer than the default precinct size 2^15: code-blocks beyond band offset 32768, where
	// the default ("no precincts configured") partition still splits the resolution into precincts
	strips := [][4]int{{32832, 1, 0, 64}, {1, 33000, 0, 64}, {32769, 1, 0, 4}, {70000, 2, 1, 64}, {2, 66000, 1, 32}, {40000, 1, 0, 16}, {3, 33333, 0, 8}, {65700, 1, 1, 64}}
	if c.Thor {
		strips = append(strips, [4]int{131500, 1, 2, 64}, [4]int{1, 131073, 2, 32}, [4]int{33000, 3, 0, 64}, [4]int{98304, 2, 1, 64})
	}
	for i, st := range strips {
		k := J2KCase{Seed: rng.U64(), W: st[0], H: st[1], Comps: 1 + i%2, P: []int{8, 12, 16, 5}[i%4], Signed: i%3 == 1, Levels: st[2],
			CBW: st[3], CBH: st[3], Prog: i % 5, Layers: 1 + i%3, MCT: false, Content: i % 2}
		cases = append(cases, k)
	}
	n = len(cases)
	cases, n = replayCases(c, "j2k_roundtrip", cases)
	ParallelFor(n, c.Work, func(i int) {
		k := cases[i]
		c.R.Case(k.String(), k.Content != 3 && k.W*k.H > 1, fmt.Sprintf("c04.P.%d", k.P), fmt.Sprintf("c04.levels.%d", k.Levels),
			fmt.Sprintf("c04.comps.%d", k.Comps), fmt.Sprintf("c04.prog.%d", k.Prog), fmt.Sprintf("c04.layers.%d", k.Layers), "c04.content."+contentNames[k.Content])
		if i < 2 {
			c.R.Sample(k)
		}
		c.R.Oracle("j2k_roundtrip")
		if site, what, _ := RoundTrip(k); site != "" {
			c.R.Fail("oracle", "j2k_roundtrip", sigC04("c04", k, site), what+" | "+k.String(), k)
		}
	})
}

func genC19(r *Rand, thor bool) J2KCase {
	k := J2KCase{Seed: r.U64()}
	m := 96
	if thor {
		m = 600
	}
	switch r.Intn(3) {
	case 0:
		k.W, k.H = r.Range(1, 24), r.Range(1, 24)
	case 1:
		k.W, k.H = r.Range(1, m), r.Range(1, m)
	default:
		k.W, k.H = r.Range(30, 70), r.Range(30, 70)
	}
	if k.W*k.H > 30000 && !thor {
		k.H = 1 + 30000/k.W
	}
	// 1..8 tiles per axis, powers of two and odd sizes, last tile 1 sample wide
	tiles := func(dim int) int {
		nt := r.Range(1, 8)
		if nt > dim {
			nt = dim
		}
		t := (dim + nt - 1) / nt
		switch r.Intn(4) {
		case 0: // power of two near t
			p := 1
			for p*2 <= t {
				p *= 2
			}
			t = p
		case 1: // odd
			if t%2 == 0 && t > 1 {
				t--
			}
		case 2: // last tile 1 sample wide: t divides dim-1
			if dim > 1 {
				for tt := t; tt >= 1; tt-- {
					if (dim-1)%tt == 0 {
						t = tt
						break
					}
				}
			}
		}
		if t < 1 {
			t = 1
		}
		if t > dim {
			t = dim
		}
		// keep the tile count moderate
		for (dim+t-1)/t > 12 {
			t++
		}
		return t
	}
	k.TW, k.TH = tiles(k.W), tiles(k.H)
	k.Comps = r.Pick(1, 3)
	k.P = r.Pick(8, 12, 16)
	k.Signed = r.Intn(4) == 0
	k.Levels = r.Range(0, 5)
	k.CBW, k.CBH = pow2(r, 2, 6), pow2(r, 2, 6)
	k.Prog = r.Range(0, 4)
	k.Layers = r.Range(1, 3)
	k.MCT = r.Bool()
	k.Content = r.Pick(0, 0, 0, 1, 2, 4, 5)
	if k.Layers > 1 && r.Bool() {
		k.PCRD = true
		k.AppendLL = true
	}
	return k
}

func runC19(c *Ctx) {
	c.R.Rule = "random tiled reversible configurations: 1..8(12) tiles per axis, power-of-two / odd tile sizes, last tile 1 sample wide, tiles smaller than a code-block; comps {1,3}; P {8,12,16}; levels 0-5; layers 1-3 incl. global PCRD with final lossless layer; non-trivial = more than one tile and non-constant content"
	n := c.N(500, 8000)
	rng := c.Rng.Fork()
	cases := make([]J2KCase, n)
	for i := range cases {
		cases[i] = genC19(rng, c.Thor)
	}
	cases, n = replayCases(c, "j2k_tiled_roundtrip", cases)
	ParallelFor(n, c.Work, func(i int) {
		k := cases[i]
		nt := 1
		if k.TW > 0 && k.TH > 0 {
			nt = ((k.W + k.TW - 1) / k.TW) * ((k.H + k.TH - 1) / k.TH)
		}
		c.R.Case(k.String(), nt > 1 && k.Content != 3, fmt.Sprintf("c19.tiles.%d", min(nt, 16)), fmt.Sprintf("c19.levels.%d", k.Levels), fmt.Sprintf("c19.layers.%d", k.Layers),
			fmt.Sprintf("c19.oddtile.%v", k.TW%2 == 1 || k.TH%2 == 1))
		if i < 2 {
			c.R.Sample(k)
		}
		c.R.Oracle("j2k_tiled_roundtrip")
		site, what, _ := RoundTrip(k)
		if c.Replay != "" {
			c.R.Note("replay %s -> %s %s", k.String(), site, what)
		}
		if site != "" {
			c.R.Fail("oracle", "j2k_tiled_roundtrip", sigC04("c19", k, site), what+" | "+k.String(), k)
		}
	})
}

// replayCases substitutes the recorded failing inputs when bin/check --replay is used.
func replayCases(c *Ctx, suite string, gen []J2KCase) ([]J2KCase, int) {
	raws := c.ReplayInputs(suite)
	if raws == nil {
		// corpus of minimised earlier failures runs first
		var pre []J2KCase
		for _, r := range c.CorpusInputs(suite) {
			var k J2KCase
			if json.Unmarshal(r, &k) == nil && k.W > 0 {
				pre = append(pre, k)
			}
		}
		gen = append(pre, gen...)
		return gen, len(gen)
	}
	out := []J2KCase{}
	for _, r := range raws {
		var k J2KCase
		if json.Unmarshal(r, &k) == nil && k.W > 0 {
			out = append(out, k)
		}
	}
	return out, len(out)
}
