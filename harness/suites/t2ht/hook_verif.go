//go:build verif

package t2ht

import "github.com/cocosip/go-dicom-codecs/jpeg2000/t2"

// The hook calls of suite t2ht (compiled only with -tags verif against a /repo that carries
// jpeg2000/t2/verif_hooks.go and the add-only wrapper of /verif/.work/t2ht-hook.go.txt).

const hooksAvailable = true

func hookEncode(precincts []*t2.Precinct, layer int) ([]byte, []t2.CodeBlockIncl, error) {
	return t2.VerifEncodeHTJ2KPacketHeader(precincts, layer)
}

// hookParse: parsePacketHeaderMulti on fresh packetHeaderBands, layer 0, termAll false.
func hookParse(dims [][2]int, positions [][][2]int, data []byte) (int, bool, []t2.CodeBlockIncl, error) {
	return t2.NewVerifHeaderBands(dims, positions).Parse(data, 0, false)
}
