//go:build !verif

package t2ht

import (
	"errors"

	"github.com/cocosip/go-dicom-codecs/jpeg2000/t2"
)

// Without -tags verif the unexported coder / decoder cannot be reached: suite t2ht notes that it
// was skipped (suite t2ht-api, exported API only, still runs).

const hooksAvailable = false

var errNoHooks = errors.New("t2ht: built without -tags verif")

func hookEncode(precincts []*t2.Precinct, layer int) ([]byte, []t2.CodeBlockIncl, error) {
	return nil, nil, errNoHooks
}

func hookParse(dims [][2]int, positions [][][2]int, data []byte) (int, bool, []t2.CodeBlockIncl, error) {
	return 0, false, nil, errNoHooks
}
