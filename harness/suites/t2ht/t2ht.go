// Package t2ht: suites of the t2ht area (property C06): the HTJ2K packet-header coder
// t2.(*PacketEncoder).encodeHTJ2KPacketHeader (a translation of OpenJPH's prepare_precinct) against
// coq/T2Ht/T2hModel.v through ocaml/ops_t2ht.ml, and against the generic packet-header decoder
// t2.parsePacketHeaderMulti on the Go code alone.
//
// The coder and the decoder are unexported: suite "t2ht" needs the `verif` build tag (hooks
// VerifEncodeHTJ2KPacketHeader of /verif/.work/t2ht-hook.go.txt and NewVerifHeaderBands/Parse of
// verif_hooks.go); without the tag the hook calls are stubs (hook_stub.go) and the suite only notes
// that it was skipped. Suite "t2ht-api" uses exported API only.
package t2ht

import (
	"bytes"
	"encoding/json"
	"fmt"
	"os"
	"sort"
	"strings"

	"github.com/cocosip/go-dicom-codecs/jpeg2000/t2"
	"verif/harness/suites/pipe"
	"verif/harness/suites/pipeht"
	. "verif/harness/vhlib"
)

// Register adds this area's suites.
func Register(s Suites) {
	s.Add("C06", runT2ht)
	s.Add("C06", runT2htAPI)
}

// Blk is one PrecinctCodeBlock: CBX, CBY, ZeroBitPlanes, NumPassesTotal, NumLenBits, len(Data).
// Data[i] = (7*i+3) mod 256 on both sides (only its length reaches the header); DataLen 0 = nil.
type Blk struct{ CBX, CBY, Zbp, Npt, Nlb, DataLen int }

// Band is one sub-band precinct (t2.Precinct): NumCodeBlocksX/Y and CodeBlocks in stored order.
type Band struct {
	Nil    bool
	W, H   int
	Blocks []Blk
}

// Case is one header: the bands, the layer and the bytes that follow the header in the decoder input.
type Case struct {
	Kind  string
	Bands []Band
	Layer int
	Rest  string // hex
}

// Enc renders the bands in the encoding of ocaml/ops_t2ht.ml.
func (k Case) Enc() string {
	if len(k.Bands) == 0 {
		return "_"
	}
	bs := make([]string, len(k.Bands))
	for i, b := range k.Bands {
		if b.Nil {
			bs[i] = "n"
			continue
		}
		blks := make([]string, len(b.Blocks))
		for j, q := range b.Blocks {
			blks[j] = fmt.Sprintf("%d,%d,%d,%d,%d,%d", q.CBX, q.CBY, q.Zbp, q.Npt, q.Nlb, q.DataLen)
		}
		s := "_"
		if len(blks) > 0 {
			s = strings.Join(blks, ";")
		}
		bs[i] = fmt.Sprintf("%d,%d:%s", b.W, b.H, s)
	}
	return strings.Join(bs, "/")
}

func genData(n int) []byte {
	if n <= 0 {
		return nil
	}
	d := make([]byte, n)
	for i := range d {
		d[i] = byte(7*i + 3)
	}
	return d
}

// Precincts builds fresh t2.Precinct values (the coder mutates Included / NumLenBits).
func (k Case) Precincts() []*t2.Precinct {
	out := make([]*t2.Precinct, len(k.Bands))
	for i, b := range k.Bands {
		if b.Nil {
			continue
		}
		p := &t2.Precinct{SubbandIdx: i, NumCodeBlocksX: b.W, NumCodeBlocksY: b.H, CodeBlocks: []*t2.PrecinctCodeBlock{}}
		for j, q := range b.Blocks {
			p.CodeBlocks = append(p.CodeBlocks, &t2.PrecinctCodeBlock{Index: j, CBX: q.CBX, CBY: q.CBY, Band: i,
				ZeroBitPlanes: q.Zbp, NumPassesTotal: q.Npt, NumLenBits: q.Nlb, Data: genData(q.DataLen)})
		}
		out[i] = p
	}
	return out
}

func b01(b bool) string {
	if b {
		return "1"
	}
	return "0"
}

// headerReply renders the coder's observables like the model op t2ht_header.
func headerReply(hdr []byte, incls []t2.CodeBlockIncl, precs []*t2.Precinct) string {
	is := make([]string, len(incls))
	for i, in := range incls {
		is[i] = fmt.Sprintf("%s,%d,%d", b01(in.Included), in.NumPasses, in.DataLength)
	}
	si := "_"
	if len(is) > 0 {
		si = strings.Join(is, ";")
	}
	gs := make([]string, len(precs))
	for i, p := range precs {
		gs[i] = "_"
		if p == nil || len(p.CodeBlocks) == 0 {
			continue
		}
		w, h := p.NumCodeBlocksX, p.NumCodeBlocksY
		if w < 1 {
			w = 1
		}
		if h < 1 {
			h = 1
		}
		var cells []string
		for y := 0; y < h; y++ {
			for x := 0; x < w; x++ {
				var cb *t2.PrecinctCodeBlock
				for _, q := range p.CodeBlocks { // byPosition: the last one wins
					if q.CBY*w+q.CBX == y*w+x {
						cb = q
					}
				}
				if cb == nil {
					cells = append(cells, "-")
				} else {
					cells = append(cells, fmt.Sprintf("%s,%d", b01(cb.Included), cb.NumLenBits))
				}
			}
		}
		gs[i] = strings.Join(cells, ";")
	}
	sg := "_"
	if len(gs) > 0 {
		sg = strings.Join(gs, "/")
	}
	return fmt.Sprintf("ok:%s|%s|%s", Hex(hdr), si, sg)
}

// implHeader runs the Go coder on fresh precincts: reply in the model's format and the header bytes.
func implHeader(k Case) (reply string, hdr []byte) {
	precs := k.Precincts()
	var incls []t2.CodeBlockIncl
	var err error
	if p, _ := Safely(func() { hdr, incls, err = hookEncode(precs, k.Layer) }); p {
		return "panic", nil
	}
	if err != nil {
		return "err", nil
	}
	return headerReply(hdr, incls, precs), hdr
}

func parseReply(n int, present bool, incls []t2.CodeBlockIncl) string {
	is := make([]string, len(incls))
	for i, in := range incls {
		is[i] = fmt.Sprintf("%s,%d,%d,%d", b01(in.Included), in.NumPasses, in.DataLength, in.ZeroBitplanes)
	}
	si := "_"
	if len(is) > 0 {
		si = strings.Join(is, ";")
	}
	return fmt.Sprintf("ok:%d,%s|%s", n, b01(present), si)
}

// implParse runs parsePacketHeaderMulti on fresh packetHeaderBands (layer 0, termAll false).
// explicit: cbPositions = the sorted (CBY, CBX) positions of the code-blocks of the band, as
// PacketDecoder.sortAndStoreEntries stores them; otherwise nil (row-major grid).
func implParse(k Case, data []byte, explicit bool, skipZero bool) string {
	var dims [][2]int
	var pos [][][2]int
	for _, b := range k.Bands {
		w, h := b.W, b.H
		if b.Nil {
			w, h = 0, 0
		}
		if skipZero && (w == 0 || h == 0) { // PacketDecoder.decodePacket skips such bands
			continue
		}
		dims = append(dims, [2]int{w, h})
		var ps [][2]int
		if explicit {
			for _, q := range b.Blocks {
				ps = append(ps, [2]int{q.CBX, q.CBY})
			}
			sort.Slice(ps, func(i, j int) bool {
				if ps[i][1] != ps[j][1] {
					return ps[i][1] < ps[j][1]
				}
				return ps[i][0] < ps[j][0]
			})
		}
		pos = append(pos, ps)
	}
	var n int
	var present bool
	var incls []t2.CodeBlockIncl
	var err error
	if p, _ := Safely(func() { n, present, incls, err = hookParse(dims, pos, data) }); p {
		return "panic"
	}
	if err != nil {
		return "err"
	}
	return parseReply(n, present, incls)
}

// expectParse is what the decoder must report for a full-grid case: the encoder's inputs.
func expectParse(k Case, hdrLen int) string {
	any := false
	var is []string
	for _, b := range k.Bands {
		if b.Nil || b.W <= 0 || b.H <= 0 {
			continue
		}
		cells := make(map[[2]int]Blk)
		for _, q := range b.Blocks {
			cells[[2]int{q.CBX, q.CBY}] = q
		}
		for y := 0; y < b.H; y++ {
			for x := 0; x < b.W; x++ {
				q, ok := cells[[2]int{x, y}]
				if !ok {
					continue
				}
				if q.DataLen > 0 {
					any = true
					is = append(is, fmt.Sprintf("1,%d,%d,%d", q.Npt, q.DataLen, q.Zbp))
				} else {
					is = append(is, "0,0,0,0")
				}
			}
		}
	}
	if !any {
		return fmt.Sprintf("ok:%d,0|_", hdrLen)
	}
	return fmt.Sprintf("ok:%d,1|%s", hdrLen, strings.Join(is, ";"))
}

// ---------------------------------------------------------------------------------------
// generator

func genLen(r *Rand, long bool) int {
	if long {
		return r.Pick(r.Range(100, 5000), r.Range(100, 5000), 65535, r.Range(21, 99))
	}
	switch r.Intn(10) {
	case 0:
		return 1
	case 1:
		return r.Range(100, 5000)
	case 2:
		if r.Intn(4) == 0 {
			return 65535
		}
		return r.Range(2, 20)
	default:
		return r.Range(2, 20)
	}
}

// genBand fills the whole w x h grid in raster order; pIncl = percentage of included blocks.
func genBand(r *Rand, w, h, pIncl int, long bool) Band {
	b := Band{W: w, H: h}
	for y := 0; y < h; y++ {
		for x := 0; x < w; x++ {
			q := Blk{CBX: x, CBY: y}
			if r.Intn(100) < pIncl {
				q.DataLen = genLen(r, long)
				q.Npt = r.Pick(1, 1, 1, 1, 1, 1, 1, 2, 3)
				q.Zbp = r.Range(0, 31)
			} else {
				q.Zbp = r.Range(0, 40)
				if r.Intn(25) == 0 {
					q.Npt = 1 // passes without bytes: len(Data) == 0 decides, not included
				}
			}
			b.Blocks = append(b.Blocks, q)
		}
	}
	return b
}

func genDims(r *Rand, big bool) (int, int) {
	if big {
		switch r.Intn(5) {
		case 0:
			return 9, 3
		case 1:
			return 3, 9
		case 2:
			return 8, 8
		case 3:
			return 17, 1
		default:
			return r.Range(6, 12), r.Range(1, 7)
		}
	}
	switch r.Intn(6) {
	case 0:
		return 1, r.Range(1, 5)
	case 1:
		return r.Range(1, 5), 1
	default:
		return r.Range(1, 5), r.Range(1, 5)
	}
}

func gen(r *Rand, i int) Case {
	k := Case{}
	nb := r.Range(1, 3)
	pick := func() int { return r.Pick(30, 70, 100, 50, 10) }
	band := func(p int) Band { w, h := genDims(r, false); return genBand(r, w, h, p, false) }
	switch i % 12 {
	case 0:
		k.Kind = "all-empty"
		for j := 0; j < nb; j++ {
			k.Bands = append(k.Bands, band(0))
		}
	case 1:
		k.Kind = "leading-empty"
		nb = r.Range(2, 3)
		for j := 0; j < nb-1; j++ {
			k.Bands = append(k.Bands, band(0))
		}
		k.Bands = append(k.Bands, band(100))
		if r.Bool() {
			k.Bands[nb-1] = band(pick())
		}
	case 2:
		k.Kind = "trailing-empty"
		nb = r.Range(2, 3)
		k.Bands = append(k.Bands, band(100))
		for j := 1; j < nb; j++ {
			k.Bands = append(k.Bands, band(0))
		}
	case 3:
		k.Kind = "middle-empty"
		k.Bands = []Band{band(pick()), band(0), band(pick())}
	case 4:
		k.Kind = "zero-cb-band"
		nb = r.Range(2, 3)
		z := r.Intn(nb)
		for j := 0; j < nb; j++ {
			if j == z || r.Intn(4) == 0 {
				k.Bands = append(k.Bands, Band{Nil: r.Intn(3) == 0})
			} else {
				k.Bands = append(k.Bands, band(r.Pick(0, 50, 100)))
			}
		}
	case 5:
		k.Kind = "big-grid"
		w, h := genDims(r, true)
		k.Bands = append(k.Bands, genBand(r, w, h, r.Pick(5, 30, 70, 100), false))
		if r.Bool() {
			k.Bands = append(k.Bands, band(pick()))
		}
	case 6:
		k.Kind = "long-data"
		for j := 0; j < nb; j++ {
			w, h := r.Range(1, 3), r.Range(1, 3)
			k.Bands = append(k.Bands, genBand(r, w, h, r.Pick(50, 100), true))
		}
	case 7:
		k.Kind = "single-block"
		for j := 0; j < nb; j++ {
			k.Bands = append(k.Bands, genBand(r, 1, 1, r.Pick(0, 100, 100), r.Intn(3) == 0))
		}
	default:
		k.Kind = "random"
		for j := 0; j < nb; j++ {
			k.Bands = append(k.Bands, band(r.Pick(0, 10, 30, 50, 70, 100)))
		}
	}
	rest := make([]byte, r.Pick(0, 1, 2, 4))
	for j := range rest {
		rest[j] = byte(r.Pick(0, 0xff, 0x80, r.Intn(256), r.Intn(256)))
	}
	k.Rest = Hex(rest)
	return k
}

func (k Case) stats() (cells, included int) {
	for _, b := range k.Bands {
		for _, q := range b.Blocks {
			cells++
			if q.DataLen > 0 {
				included++
			}
		}
	}
	return
}

func lenClass(n int) string {
	switch {
	case n == 1:
		return "len=1"
	case n <= 20:
		return "len=2..20"
	case n < 100:
		return "len=21..99"
	case n <= 5000:
		return "len=100..5000"
	default:
		return "len=65535"
	}
}

// ---------------------------------------------------------------------------------------
// suite t2ht

const suite = "t2ht"

func runOne(c *Ctx, k Case) {
	enc := k.Enc()
	cells, inc := k.stats()
	dist := []string{"t2ht:kind=" + k.Kind, fmt.Sprintf("t2ht:bands=%d", len(k.Bands))}
	if inc == 0 {
		dist = append(dist, "t2ht:empty-packet")
	}
	seen := map[string]bool{}
	for _, b := range k.Bands {
		for _, q := range b.Blocks {
			if q.DataLen > 0 && !seen[lenClass(q.DataLen)] {
				seen[lenClass(q.DataLen)] = true
				dist = append(dist, "t2ht:"+lenClass(q.DataLen))
			}
		}
	}
	c.R.Case(suite+"|"+enc, cells >= 2 && inc >= 1, dist...)
	input := map[string]interface{}{"kind": k.Kind, "bands": enc, "layer": k.Layer, "rest": k.Rest, "case": k}

	// (a) correspondence: the coder
	impl, hdr := implHeader(k)
	if c.HasModel() {
		c.CorrEq(suite, "t2ht:header:"+k.Kind, c.M.Call("t2ht_header", enc, fmt.Sprint(k.Layer)), impl, input)
	} else {
		c.CorrEq(suite, "t2ht:header:"+k.Kind, "", impl, input)
	}
	if hdr == nil {
		c.R.Oracle(suite)
		c.R.Fail("oracle", suite, "t2ht:encode-"+impl+":"+k.Kind, "encodeHTJ2KPacketHeader fails on a full-grid precinct: "+impl, input)
		return
	}
	data := append(append([]byte{}, hdr...), UnHex(k.Rest)...)
	// (a') correspondence: the generic decoder on the coder's bytes (row-major grid on both sides)
	if k.Layer == 0 {
		rest := k.Rest
		if rest == "" {
			rest = "_"
		}
		got := implParse(k, data, false, false)
		if c.HasModel() {
			c.CorrEq(suite, "t2ht:parse:"+k.Kind, c.M.Call("t2ht_parse", enc, rest), got, input)
		}
	}
	// (b) oracle: the decoder (set up as PacketDecoder.decodePacket does) reads back the inputs
	c.R.Oracle(suite)
	got := implParse(k, data, true, true)
	want := expectParse(k, len(hdr))
	if got != want {
		site := "fields"
		switch {
		case got == "err" || got == "panic":
			site = got
		case strings.SplitN(got, ",", 2)[0] != strings.SplitN(want, ",", 2)[0]:
			site = "bytesRead"
		}
		input["header"] = Hex(hdr)
		input["decoder"] = got
		input["expected"] = want
		c.R.Fail("oracle", suite, "t2ht:roundtrip:"+site+":"+k.Kind,
			"parsePacketHeaderMulti does not read back what encodeHTJ2KPacketHeader wrote", input)
	}
}

func runT2ht(c *Ctx) {
	c.R.Rule = "t2ht: HTJ2K packet headers of one precinct: 1..3 sub-band precincts, grids 1..5 x 1..5 (1xN, Nx1, non powers of two; some 9x3, 3x9, 8x8, 17x1, up to 12x7), every grid position filled, " +
		"blocks all-zero (Data nil, zbp 0..40) or included (len 1 / 2..20 / 100..5000 / 65535, passes 1 (some 2, 3), zbp 0..31, NumLenBits 0); classes all-empty (empty packet), leading / middle / trailing empty bands, " +
		"bands without code-blocks (0 x 0 or nil precinct), single block, long data; compared: header bytes, CodeBlockIncl (Included, NumPasses, DataLength), Included / NumLenBits afterwards, " +
		"the generic decoder on header ++ 0..4 bytes; oracle: parsePacketHeaderMulti on fresh bands returns bytesRead = len(header) and Included / NumPasses / DataLength / ZeroBitplanes of the inputs; " +
		"non-trivial = at least 2 code-blocks and one included"
	if !hooksAvailable {
		c.R.Note("t2ht: built without -tags verif: the hook suite t2ht did not run (use cmd/vhk or cmd/vh-t2ht with -tags verif)")
		c.R.Count("t2ht:skipped_no_hooks")
		return
	}
	for _, raw := range append(c.CorpusInputs(suite), c.ReplayInputs(suite)...) {
		var in struct {
			Case *Case `json:"case"`
		}
		if json.Unmarshal(raw, &in) == nil && in.Case != nil {
			runOne(c, *in.Case)
		}
	}
	n := c.N(1500, 40000)
	cases := make([]Case, n)
	for i := range cases {
		cases[i] = gen(c.Rng, i)
	}
	for i := 0; i < 3 && i < n; i++ {
		c.R.Sample(map[string]interface{}{"suite": suite, "kind": cases[8+i].Kind, "bands": cases[8+i].Enc()})
	}
	ParallelFor(n, c.Work, func(i int) { runOne(c, cases[i]) })
	explore(c)
}

// ---------------------------------------------------------------------------------------
// exploratory classes (not part of the oracle): configurations the tile encoder does not build.
// Results go to the notes of the result file and, with T2HT_EXPLORE=1, to stderr.

func exploreNote(c *Ctx, format string, a ...interface{}) {
	s := fmt.Sprintf(format, a...)
	c.R.Note("%s", s)
	if os.Getenv("T2HT_EXPLORE") != "" {
		fmt.Fprintln(os.Stderr, s)
	}
}

func explore(c *Ctx) {
	r := c.Rng.Fork()
	type tally struct{ n, corrBad, explicitOK, gridOK int }
	var first [2]string
	t := tally{}
	for i := 0; i < c.N(400, 4000); i++ {
		// absent grid positions: a full band with 1..3 blocks removed (never the one that fixes w, h)
		k := Case{Kind: "absent-pos"}
		nb := r.Range(1, 2)
		for j := 0; j < nb; j++ {
			w, h := r.Range(2, 4), r.Range(1, 4)
			b := genBand(r, w, h, r.Pick(50, 100, 100), false)
			for d := r.Range(1, 3); d > 0 && len(b.Blocks) > 2; d-- {
				x := r.Intn(len(b.Blocks) - 1) // keep the last (w-1, h-1)
				b.Blocks = append(b.Blocks[:x:x], b.Blocks[x+1:]...)
			}
			k.Bands = append(k.Bands, b)
		}
		enc := k.Enc()
		impl, hdr := implHeader(k)
		t.n++
		if c.HasModel() {
			if m := c.M.Call("t2ht_header", enc, "0"); m != impl {
				t.corrBad++
				if t.corrBad == 1 {
					exploreNote(c, "explore absent-pos: MODEL/GO header mismatch: bands=%s model=%s go=%s", enc, m, impl)
				}
			}
		}
		if hdr == nil {
			continue
		}
		want := expectParse(k, len(hdr))
		if got := implParse(k, hdr, true, true); got == want {
			t.explicitOK++
		} else if first[0] == "" {
			first[0] = fmt.Sprintf("bands=%s header=%s decoder(cbPositions = present blocks)=%s expected=%s", enc, Hex(hdr), got, want)
		}
		if got := implParse(k, hdr, false, true); got == want {
			t.gridOK++
		} else if first[1] == "" {
			first[1] = fmt.Sprintf("bands=%s header=%s decoder(row-major grid)=%s expected(present blocks only)=%s", enc, Hex(hdr), got, want)
		}
	}
	exploreNote(c, "explore absent-pos: %d cases; model/go header mismatches %d; decoder with cbPositions = present blocks reads back the inputs in %d; decoder with the row-major grid in %d",
		t.n, t.corrBad, t.explicitOK, t.gridOK)
	for i, f := range first {
		if f != "" {
			exploreNote(c, "explore absent-pos first difference [%d]: %s", i, f)
		}
	}
	// a precinct with code-blocks but NumCodeBlocksX/Y = 0 (the tree clamps to 1 x 1), and a
	// precinct without code-blocks but w, h > 0 (the coder writes nothing for it)
	for _, k := range []Case{
		{Kind: "blocks-dims0", Bands: []Band{{W: 0, H: 0, Blocks: []Blk{{0, 0, 3, 1, 0, 5}}}}},
		{Kind: "blocks-dims0-two", Bands: []Band{{W: 0, H: 0, Blocks: []Blk{{0, 0, 3, 1, 0, 5}, {1, 0, 2, 1, 0, 9}}}}},
		{Kind: "noblocks-dims", Bands: []Band{{W: 2, H: 1}, genBand(r, 2, 2, 100, false)}},
		{Kind: "noblocks-dims-after", Bands: []Band{genBand(r, 2, 2, 100, false), {W: 2, H: 1}}},
	} {
		enc := k.Enc()
		impl, hdr := implHeader(k)
		m := "(no model)"
		if c.HasModel() {
			m = c.M.Call("t2ht_header", enc, "0")
		}
		dec := "-"
		if hdr != nil {
			dec = implParse(k, hdr, false, true)
		}
		exploreNote(c, "explore %s: bands=%s go=%s model-equal=%v decoder=%s", k.Kind, enc, impl, m == impl, dec)
	}
}

// ---------------------------------------------------------------------------------------
// suite t2ht-api: exported API only. Images whose code-blocks are all-zero (constant image, DC
// level: every coefficient of the high bands is 0; zero except one corner): the packet headers
// carry not-included blocks, empty bands and empty packets; Decode(Encode(p)) = p.

const suiteAPI = "t2ht-api"

type apiCase struct {
	pipe.Case
	Shape string
	Value int
}

func apiPixels(k apiCase) []byte {
	pix := make([]byte, k.W*k.H*k.Comps)
	bg := byte(k.Value)
	for i := range pix {
		pix[i] = bg
	}
	r := NewRand(k.Seed)
	switch k.Shape {
	case "const":
	case "corner":
		for c := 0; c < k.Comps; c++ {
			pix[c] = byte(r.Intn(256))
		}
	case "corner-block":
		for y := 0; y < k.H && y < 3; y++ {
			for x := 0; x < k.W && x < 3; x++ {
				for c := 0; c < k.Comps; c++ {
					pix[(y*k.W+x)*k.Comps+c] = byte(r.Intn(256))
				}
			}
		}
	case "last-corner":
		for c := 0; c < k.Comps; c++ {
			pix[len(pix)-1-c] = byte(r.Intn(256))
		}
	case "one-pixel":
		p := r.Intn(k.W * k.H)
		pix[p*k.Comps] = byte(r.Intn(256))
	}
	return pix
}

func runT2htAPI(c *Ctx) {
	c.R.Rule = "t2ht-api: jpeg2000.Encoder with HTJ2KMode (htj2k block coder), 8-bit unsigned, 1 (some 3) components, sizes 1..40, levels 0..2, code-blocks 4x4 (some 8x4, 4x8, 8x8), LRCP/RLCP/RPCL, " +
		"images constant (values 0, 128, 255, random) or constant except one corner pixel / a 3x3 corner / the last pixel / one random pixel (background 0 or 128: most code-blocks all-zero); " +
		"oracle: Decode(Encode(p)) = p; non-trivial = more than one code-block (W*H > 16 or levels > 0)"
	n := c.N(240, 6000)
	shapes := []string{"const", "corner", "corner-block", "last-corner", "one-pixel"}
	cases := make([]apiCase, n)
	for i := range cases {
		r := c.Rng
		k := apiCase{Shape: shapes[i%len(shapes)]}
		k.W, k.H = r.Range(1, 40), r.Range(1, 40)
		if r.Intn(4) == 0 {
			k.W, k.H = r.Pick(4, 8, 9, 16, 17, 32), r.Pick(4, 8, 9, 16, 17, 32)
		}
		k.Comps = r.Pick(1, 1, 1, 3)
		k.P = 8
		k.Levels = r.Range(0, 2)
		if ml := pipeht.MaxLevels(k.W, k.H); k.Levels > ml {
			k.Levels = ml
		}
		k.CBW, k.CBH = 4, 4
		switch r.Intn(6) {
		case 0:
			k.CBW = 8
		case 1:
			k.CBH = 8
		case 2:
			k.CBW, k.CBH = 8, 8
		}
		k.Prog = r.Pick(0, 1, 2, 2)
		k.MCT = k.Comps == 3 && r.Bool()
		k.Value = r.Pick(0, 0, 128, 128, 255, r.Intn(256))
		if k.Shape != "const" {
			k.Value = r.Pick(0, 128)
		}
		k.Seed = r.U64()
		cases[i] = k
	}
	ParallelFor(n, c.Work, func(i int) {
		k := cases[i]
		key := fmt.Sprintf("%s|%s|%s|v=%d", suiteAPI, k.Case.String(), k.Shape, k.Value)
		c.R.Case(key, k.W*k.H > 16 || k.Levels > 0, "t2ht-api:shape="+k.Shape, fmt.Sprintf("t2ht-api:levels=%d", k.Levels))
		input := map[string]interface{}{"case": k.Case, "shape": k.Shape, "value": k.Value, "desc": k.Case.String()}
		pix := apiPixels(k)
		var cs, dec []byte
		var err error
		c.R.Oracle(suiteAPI)
		if p, msg := Safely(func() { cs, err = pipeht.Encode(k.Case, append([]byte(nil), pix...)) }); p {
			c.R.Fail("oracle", suiteAPI, "t2ht-api:encode-panic:"+k.Shape, "encoder panics: "+msg, input)
			return
		}
		if err != nil {
			c.R.Fail("oracle", suiteAPI, "t2ht-api:encode-error:"+k.Shape, "encoder error: "+err.Error(), input)
			return
		}
		if p, msg := Safely(func() { _, dec, err = pipeht.Decode(cs) }); p {
			c.R.Fail("oracle", suiteAPI, "t2ht-api:decode-panic:"+k.Shape, "decoder panics on the encoder's codestream: "+msg, input)
			return
		}
		if err != nil {
			c.R.Fail("oracle", suiteAPI, "t2ht-api:decode-error:"+k.Shape, "decoder rejects the encoder's codestream: "+err.Error(), input)
			return
		}
		if !bytes.Equal(dec, pix) {
			c.R.Fail("oracle", suiteAPI, "t2ht-api:roundtrip:"+k.Shape, "Decode(Encode(p)) differs from p", input)
		}
	})
}
