// Package htsafe: correspondence and oracle suites for the panic-explicit model of the HTJ2K
// cleanup-pass block decoder on arbitrary bytes (coq/HtSafe/HtsModel.v; properties C08, C09).
//
// The implementation is driven through the exported API of package htj2k only — the same three
// calls t2/tile_decoder.go makes through the block-decoder factory of htj2k/codec.go:
// NewHTDecoder(w, h), SetCodingContext(kmax, missingMSBs), Decode(data, 1).
// Observable: outcome class (ok + samples / err / panic); samples must agree exactly.
package htsafe

import (
	"fmt"
	"hash/fnv"
	"runtime"
	"strconv"
	"strings"

	"github.com/cocosip/go-dicom-codecs/jpeg2000/htj2k"
	. "verif/harness/vhlib"
)

func Register(s Suites) {
	s.Add("C08", runC08)
	s.Add("C09", runC09)
}

// Case is one decoder invocation (replayable).
type Case struct {
	W       int    `json:"w"`
	H       int    `json:"h"`
	Kmax    int    `json:"kmax"`
	Missing int    `json:"missing"`
	Block   string `json:"block"` // hex, "_" = empty
	Class   string `json:"class"`
}

func goDecode(k Case) string {
	blk := UnHex(k.Block)
	dec := htj2k.NewHTDecoder(k.W, k.H)
	dec.SetCodingContext(k.Kmax, k.Missing)
	var got []int32
	var err error
	if pn, msg := Safely(func() { got, err = dec.Decode(blk, 1) }); pn {
		return "panic:" + msg
	}
	if err != nil {
		return "err"
	}
	return "ok:" + Ints32(got)
}

// geometry classes: inside the code-block guard of codestream/parser.go:962 (w, h <= 1024,
// w*h <= 4096) with the thin extremes, plus a few blocks beyond it (the decoder itself has no
// such guard).
func genGeom(r *Rand, i int, thor bool) (int, int) {
	switch i % 12 {
	case 0:
		return r.Range(1, 64), r.Range(1, 64)
	case 1:
		return 1, r.Range(1, 64)
	case 2:
		return r.Range(1, 64), 1
	case 3:
		return r.Pick(1, 2, 3, 4, 5, 6, 7, 8, 9, 14, 22, 30, 62, 63, 64), r.Pick(1, 2, 3, 4, 5, 7, 8, 9, 63, 64)
	case 4:
		return r.Range(1, 12), r.Range(1, 12)
	case 5:
		// w+2 a multiple of 8: the row-0 sentinel coincides with the first cell of stripe 1
		return 8*r.Range(1, 8) - 2, r.Range(1, 20)
	case 6:
		if thor || i%5 == 0 {
			return r.Pick(1024, 512, 256, 1000, 1023), r.Range(1, 4)
		}
		return r.Pick(128, 256), r.Range(1, 4)
	case 7:
		if thor || i%5 == 0 {
			return r.Range(1, 4), r.Pick(1024, 512, 256, 1001, 1023)
		}
		return r.Range(1, 4), r.Pick(128, 256)
	case 8:
		if thor {
			return r.Pick(65, 96, 128), r.Pick(65, 96, 128) // beyond w*h <= 4096
		}
		return r.Range(1, 32), r.Range(1, 32)
	default:
		return r.Range(1, 32), r.Range(1, 32)
	}
}

func encodeValid(r *Rand, w, h, kmax int) []byte {
	lim := int64(1) << uint(kmax)
	d := make([]int32, w*h)
	dens := r.Pick(1, 2, 4, 20)
	lowb := uint(r.Range(1, kmax))
	mode := r.Intn(4)
	for j := range d {
		if r.Intn(dens) != 0 {
			continue
		}
		var v int64
		switch mode {
		case 0:
			v = int64(r.U64() % uint64(lim))
		case 1:
			v = int64(r.U64() % (uint64(1) << lowb))
		case 2:
			v = lim - 1
		default:
			v = int64(r.Intn(3))
		}
		if r.Bool() {
			v = -v
		}
		d[j] = int32(v)
	}
	enc := htj2k.NewHTEncoder(w, h)
	enc.SetKMax(kmax)
	var blk []byte
	var err error
	if pn, _ := Safely(func() { blk, err = enc.Encode(d, 1, 0) }); pn || err != nil {
		return nil
	}
	return blk
}

func setScup(mb []byte, sc int) {
	if len(mb) >= 2 {
		mb[len(mb)-1] = byte(sc >> 4)
		mb[len(mb)-2] = mb[len(mb)-2]&0xF0 | byte(sc&0xF)
	}
}

func genCase(r *Rand, i int, thor bool) Case {
	w, h := genGeom(r, i, thor)
	kmax := r.Range(1, 30)
	switch r.Intn(4) {
	case 0:
		kmax = r.Range(8, 10)
	case 1:
		kmax = r.Range(16, 20)
	}
	missing := kmax - 1
	var blk []byte
	class := ""
	switch (i / 12) % 10 {
	case 0:
		class = "valid"
		blk = encodeValid(r, w, h, kmax)
	case 1, 2:
		class = "damaged"
		blk = append([]byte(nil), encodeValid(r, w, h, kmax)...)
		if len(blk) > 0 {
			for f := r.Range(1, 4); f > 0; f-- {
				p := r.Intn(len(blk))
				if r.Bool() {
					blk[p] ^= byte(1 << uint(r.Intn(8)))
				} else {
					blk[p] = byte(r.Pick(0, 0xFF, 0x7F, 0x8F, 0x90, r.Intn(256)))
				}
			}
		}
	case 3:
		class = "truncated"
		blk = append([]byte(nil), encodeValid(r, w, h, kmax)...)
		if len(blk) > 1 {
			blk = blk[:r.Range(1, len(blk)-1)]
		}
	case 4:
		class = "badscup"
		blk = append([]byte(nil), encodeValid(r, w, h, kmax)...)
		if len(blk) >= 2 {
			setScup(blk, r.Pick(0, 1, 2, 3, len(blk)-1, len(blk), len(blk)+1, 4079, 4080, 4095, r.Intn(4096)))
		}
	case 5:
		class = "short"
		blk = make([]byte, r.Range(0, 3))
		for j := range blk {
			blk[j] = byte(r.Pick(0, 0xFF, 0x02, 0x20, r.Intn(256)))
		}
	case 6:
		class = "random"
		blk = make([]byte, r.Range(2, 3*w*h/2+40))
		for j := range blk {
			blk[j] = byte(r.Intn(256))
		}
	case 7:
		class = "random-scup"
		blk = make([]byte, r.Range(2, w*h+60))
		fill := r.Pick(-1, -1, 0, 0xFF, 0x7F)
		for j := range blk {
			if fill < 0 {
				blk[j] = byte(r.Intn(256))
			} else {
				blk[j] = byte(fill)
			}
		}
		sc := r.Range(2, len(blk))
		if sc > 4079 {
			sc = 4079
		}
		setScup(blk, sc)
	case 8:
		class = "splice"
		a := encodeValid(r, w, h, kmax)
		b := encodeValid(r, w, h, r.Range(1, 30))
		blk = append(append([]byte(nil), a...), b...)
		if len(blk) >= 2 && r.Bool() {
			sc := r.Range(2, len(blk))
			if sc > 4079 {
				sc = 4079
			}
			setScup(blk, sc)
		}
	default:
		class = "context"
		blk = append([]byte(nil), encodeValid(r, w, h, kmax)...)
		missing = r.Pick(-1, 0, 1, kmax-2, kmax, 28, 29, 30, 31, r.Range(0, 29))
		if r.Intn(3) == 0 {
			kmax = r.Pick(-1, 0, 1, 30, 31, 32, 33, 40, 64, r.Range(1, 31))
		}
	}
	return Case{W: w, H: h, Kmax: kmax, Missing: missing, Block: Hex(blk), Class: class}
}

func args(k Case) []string {
	return []string{strconv.Itoa(k.W), strconv.Itoa(k.H), strconv.Itoa(k.Kmax), strconv.Itoa(k.Missing), k.Block}
}

func caseKey(k Case) string {
	hh := fnv.New64a()
	_, _ = hh.Write([]byte(k.Block))
	return fmt.Sprintf("hts:%d:%d:%d:%d:%x", k.W, k.H, k.Kmax, k.Missing, hh.Sum64())
}

func runC08(c *Ctx) {
	c.R.Rule = "htsafe: non-trivial = non-empty block whose Scup locator is accepted (the decoder body runs)"
	n := c.N(1200, 24000)
	rng := c.Rng.Fork()
	cases := make([]Case, n)
	for i := range cases {
		cases[i] = genCase(rng, i, c.Thor)
	}
	ParallelFor(n, c.Work, func(i int) {
		k := cases[i]
		g := goDecode(k)
		body := false
		blk := UnHex(k.Block)
		if len(blk) >= 2 {
			sc := int(blk[len(blk)-1])<<4 | int(blk[len(blk)-2]&0xF)
			body = sc >= 2 && sc <= len(blk) && sc <= 4079
		}
		cls := "err"
		if strings.HasPrefix(g, "ok:") {
			cls = "ok"
		} else if strings.HasPrefix(g, "panic:") {
			cls = "panic"
		}
		c.R.Case(caseKey(k), body, "hts.class."+k.Class, "hts.out."+cls,
			fmt.Sprintf("hts.w%d", bucket(k.W)), fmt.Sprintf("hts.h%d", bucket(k.H)))
		if i == 5 || i == 17 {
			c.R.Sample(k)
		}
		// oracle: property C08 on the implementation alone
		c.R.Oracle("hts_no_panic")
		if cls == "panic" {
			c.R.Fail("oracle", "hts_no_panic", "htblock:decode-panic:"+k.Class, g, k)
		}
		// correspondence: outcome class, samples exact
		m := c.M.Call("hts_decode", args(k)...)
		gi := g
		if cls == "panic" {
			gi = "panic"
		}
		c.CorrEq("hts_decode", "hts_decode:"+k.Class, m, gi, k)
		// the panic-explicit model against the C06 model of the same decoder (HT/HtBlockDec.v,
		// no index checks): same function wherever the former does not panic
		if c.HasModel() {
			if m6 := c.M.Call("ht_block_decode", args(k)...); m6 != "?" {
				c.CorrEq("hts_vs_c06_model", "hts_vs_c06_model:"+k.Class, m, m6, k)
			}
		}
	})
}

func bucket(v int) int {
	switch {
	case v <= 16:
		return 16
	case v <= 64:
		return 64
	case v <= 256:
		return 256
	default:
		return 1024
	}
}

// C09: the model's work / allocation figures obey the proved bounds (checked on the run's
// cases through the extracted model), and the implementation's allocation per call is within
// the model's figure plus a fixed overhead.
func runC09(c *Ctx) {
	n := c.N(300, 4000)
	rng := c.Rng.Fork()
	cases := make([]Case, n)
	for i := range cases {
		cases[i] = genCase(rng, i, c.Thor)
	}
	// allocation is measured sequentially (runtime.MemStats is process-wide)
	for i := 0; i < n; i++ {
		k := cases[i]
		blk := UnHex(k.Block)
		c.R.Case("c09:"+caseKey(k), len(blk) >= 2, "hts9.class."+k.Class)
		wh := int64(k.W) * int64(k.H)
		var before, after runtime.MemStats
		runtime.ReadMemStats(&before)
		g := goDecode(k)
		runtime.ReadMemStats(&after)
		alloc := int64(after.TotalAlloc - before.TotalAlloc)
		c.R.Oracle("hts_alloc_linear")
		// 40*w*h + 8*len + 64: the proved bound on the bytes the decoder requests
		// (C09_ht_decode_bounded), plus the harness's own copies (hex decoding, result string
		// of <= 12 bytes per sample, built by doubling) and fixed overhead
		lim := 40*wh + 8*int64(len(blk)) + 64 + 64*wh + 2*int64(len(blk)) + 8192
		if alloc > lim {
			c.R.Fail("oracle", "hts_alloc_linear", "htblock:alloc:"+k.Class, fmt.Sprintf("allocated %d > %d", alloc, lim), k)
		}
		if !c.HasModel() {
			continue
		}
		m := c.M.Call("hts_cost", args(k)...)
		c.R.Corr("hts_cost")
		if strings.HasPrefix(m, "ok:") {
			p := ParseInts(m[3:])
			if len(p) == 2 {
				if int64(p[0]) > 64*wh+64 || int64(p[1]) > 40*wh+8*int64(len(blk))+64 {
					c.R.Fail("corr", "hts_cost", "hts_cost:bound", "model cost exceeds the proved bound: "+m, k)
				}
			}
			if !strings.HasPrefix(g, "ok:") {
				c.R.Fail("corr", "hts_cost", "hts_cost:class", "model ok, implementation "+g[:3], k)
			}
		} else if m == "panic" || m == "fuel" || strings.HasPrefix(m, "!") || m == "?" {
			c.R.Fail("corr", "hts_cost", "hts_cost:"+m, "model reply "+m, k)
		}
	}
}
