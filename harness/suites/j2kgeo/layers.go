//go:build verif

package j2kgeo

import (
	"bytes"
	"fmt"
	"math"
	"strings"

	"github.com/cocosip/go-dicom-codecs/jpeg2000"
	j2kl "github.com/cocosip/go-dicom-codecs/jpeg2000/lossless"
	"github.com/cocosip/go-dicom-codecs/jpeg2000/t1"
	"github.com/cocosip/go-dicom-codecs/jpeg2000/t2"
	"github.com/cocosip/go-dicom/pkg/imaging/imagetypes"
	. "verif/harness/vhlib"
)

// ---------------------------------------------------------------------------------------
// C05: layer finalisation

type finCase struct {
	RD        bool
	Passes    [][2]int // Rate, ActualBytes
	CD        []byte
	CDNil     bool
	NumLayers int
	Row       []int
	Append    bool
	Existing  []int // pre-set PassLengths
	Valid     bool  // rates satisfy the normalizePassRates postcondition
	Mono      bool  // the first NumLayers-1 requested pass counts are >= 0 and non-decreasing
}

func passRate(p [2]int) int {
	if p[0] == 0 {
		return p[1]
	}
	return p[0]
}

func genFinCase(r *Rand) finCase {
	k := finCase{RD: r.Bool(), NumLayers: r.Range(1, 10), Append: r.Intn(3) != 0}
	n := r.Range(0, 12)
	if r.Intn(12) == 0 {
		n = 0
	}
	dl := r.Range(0, 40)
	if r.Intn(10) == 0 {
		dl = 0
	}
	k.CD = make([]byte, dl)
	for i := range k.CD {
		k.CD[i] = byte(r.Intn(256))
	}
	k.CDNil = r.Intn(25) == 0
	k.Valid = true
	// cumulative rates
	style := r.Intn(6)
	cur := 0
	for i := 0; i < n; i++ {
		switch style {
		case 0, 1, 2: // non-decreasing, capped at len(data), equal consecutive rates frequent
			if r.Intn(3) != 0 {
				cur += r.Range(0, 6)
			}
			if cur > dl {
				cur = dl
			}
		case 3: // non-decreasing but may exceed len(data)
			cur += r.Range(0, 9)
		case 4: // arbitrary, may decrease or be negative
			cur = r.Range(-3, dl+5)
		default: // HT-like: Rate 0, ActualBytes carries the length
			cur = dl
		}
		p := [2]int{cur, cur}
		switch {
		case style == 5:
			p = [2]int{0, cur}
		case r.Intn(4) == 0:
			p[1] = r.Range(0, max(cur, 0)) // ActualBytes <= Rate
		}
		k.Passes = append(k.Passes, p)
	}
	prev := 0
	for _, p := range k.Passes {
		e := passRate(p)
		if e < prev || e < 0 || e > dl {
			k.Valid = false
		}
		prev = e
	}
	// allocation row
	rowLen := k.NumLayers
	switch r.Intn(8) {
	case 0:
		rowLen = r.Range(0, k.NumLayers)
	case 1:
		rowLen += r.Range(1, 2)
	}
	mono := r.Intn(3) != 0
	cur = 0
	for i := 0; i < rowLen; i++ {
		if mono {
			cur += r.Range(0, 4)
		} else {
			cur = r.Range(-2, n+3)
		}
		k.Row = append(k.Row, cur)
	}
	k.Mono = true
	prev = 0
	for l := 0; l < k.NumLayers-1; l++ {
		v := 0
		if l < len(k.Row) {
			v = k.Row[l]
		}
		if v > n {
			v = n
		}
		if v < prev {
			k.Mono = false
		}
		prev = v
	}
	if r.Intn(10) == 0 {
		k.Existing = make([]int, n)
		for i := range k.Existing {
			k.Existing[i] = r.Range(0, 50)
		}
	}
	return k
}

func passesArg(ps [][2]int) string {
	var fl []int
	for _, p := range ps {
		fl = append(fl, p[0], p[1])
	}
	return Ints(fl)
}

func layerDataStr(ld [][]byte) string {
	if len(ld) == 0 {
		return "-"
	}
	parts := make([]string, len(ld))
	for i, d := range ld {
		parts[i] = Hex(d)
	}
	return strings.Join(parts, ";")
}

// runFinalize calls the hook and renders the result in the format of the model op geo_finalize.
func runFinalize(k finCase) (string, *t2.PrecinctCodeBlock) {
	cb := &t2.PrecinctCodeBlock{NumPassesTotal: len(k.Passes)}
	for _, p := range k.Passes {
		cb.Passes = append(cb.Passes, t1.PassData{Rate: p[0], ActualBytes: p[1]})
	}
	if !k.CDNil {
		cb.CompleteData = append([]byte{}, k.CD...)
	}
	if len(k.Existing) > 0 {
		cb.PassLengths = append([]int(nil), k.Existing...)
	}
	alloc := &jpeg2000.LayerAllocation{NumLayers: k.NumLayers, CodeBlockPasses: [][]int{append([]int{}, k.Row...)}}
	if p, _ := Safely(func() { jpeg2000.VerifFinalizeBlock(cb, k.NumLayers, alloc, 0, k.Append, k.RD) }); p {
		return "panic", cb
	}
	if cb.LayerData == nil && cb.LayerPasses == nil {
		return "none", cb
	}
	var contrib, plens, pt []string
	for l := 0; l <= k.NumLayers; l++ {
		incl, np, d := t2.VerifLayerContribution(cb, l)
		contrib = append(contrib, fmt.Sprintf("%s,%d,%s", b01(incl), np, Hex(d)))
		var pl []int
		if p, _ := Safely(func() { pl = t2.VerifLayerPassLengths(cb, l) }); p {
			plens = append(plens, "panic")
		} else if pl == nil {
			plens = append(plens, "nil")
		} else {
			plens = append(plens, Ints(pl))
		}
		pv, tot := t2.VerifPrevAndTotalPasses(cb, l, np)
		pt = append(pt, fmt.Sprintf("%d,%d", pv, tot))
	}
	return fmt.Sprintf("%s|%s|%s|%s|%s|%s|%s", Ints(cb.LayerPasses), layerDataStr(cb.LayerData), Ints(cb.PassLengths),
		strings.Join(contrib, ";"), strings.Join(plens, ";"), strings.Join(pt, ";"), Ints(t2.VerifBuildPassLengths(cb.PassLengths))), cb
}

// checkComplete is the C05 statement about one finalised block: the layer data concatenate to
// CompleteData[0:rate(last pass)], every cumulative pass count is within range and
// non-decreasing, the last one is the total.
func checkComplete(k finCase, cb *t2.PrecinctCodeBlock) string {
	n := len(k.Passes)
	if len(cb.LayerPasses) != k.NumLayers || len(cb.LayerData) != k.NumLayers {
		return "LayerPasses/LayerData do not have NumLayers entries"
	}
	var cat []byte
	for _, d := range cb.LayerData {
		cat = append(cat, d...)
	}
	want := k.CD[:passRate(k.Passes[n-1])]
	if !bytes.Equal(cat, want) {
		return fmt.Sprintf("layer data concatenate to %d bytes %x, CompleteData[0:rate(last)] is %d bytes %x", len(cat), cat, len(want), want)
	}
	prev, sum := 0, 0
	for l, lp := range cb.LayerPasses {
		if lp < prev || lp > n {
			return fmt.Sprintf("LayerPasses %v not cumulative at layer %d", cb.LayerPasses, l)
		}
		_, np, _ := t2.VerifLayerContribution(cb, l)
		if np < 0 {
			return fmt.Sprintf("negative newPasses at layer %d", l)
		}
		sum += np
		prev = lp
	}
	if cb.LayerPasses[k.NumLayers-1] != n || sum != n {
		return fmt.Sprintf("last layer has %d of %d passes (sum of new passes %d)", cb.LayerPasses[k.NumLayers-1], n, sum)
	}
	return ""
}

func runC05Layers(c *Ctx) {
	c.R.Rule = "j2kgeo layers: random code-blocks (0..12 passes, cumulative rates non-decreasing and capped / exceeding len(data) / arbitrary / HT-like, equal consecutive rates, zero-length and nil data), " +
		"random allocations (monotone and not, short and long rows), numLayers 1..10, appendLossless both, both finalisers; the exported allocators on random pass tables; " +
		"parameter objects over a grid incl. negative / zero / huge values; non-trivial = at least two passes and two layers (layers), non-default parameters (params)"
	geoFinalize(c)
	geoAllocators(c)
	geoT1Rates(c)
	geoParams(c)
}

func geoFinalize(c *Ctx) {
	rng := c.Rng.Fork()
	n := c.N(6000, 80000)
	cases := make([]finCase, n)
	for i := range cases {
		cases[i] = genFinCase(rng)
	}
	ParallelFor(n, c.Work, func(i int) {
		k := cases[i]
		cdArg := Hex(k.CD)
		if k.CDNil {
			cdArg = "nil"
		}
		key := fmt.Sprintf("fin:%v:%s:%s:%d:%s:%v:%s", k.RD, passesArg(k.Passes), cdArg, k.NumLayers, Ints(k.Row), k.Append, Ints(k.Existing))
		c.R.Case(key, len(k.Passes) >= 2 && k.NumLayers >= 2, fmt.Sprintf("geo.fin.layers.%d", k.NumLayers), fmt.Sprintf("geo.fin.valid.%v.mono.%v.append.%v", k.Valid, k.Mono, k.Append))
		if i < 2 {
			c.R.Sample(map[string]interface{}{"suite": "geo_finalize", "case": k})
		}
		impl, cb := runFinalize(k)
		got := c.M.Call("geo_finalize", b01(k.RD), passesArg(k.Passes), cdArg, fmt.Sprint(k.NumLayers), Ints(k.Row), b01(k.Append), Ints(k.Existing))
		c.CorrEq("geo_finalize", "geo_finalize", got, impl, k)
		// oracle: the premise of C05_final_layer_complete
		if k.Valid && k.Append && k.NumLayers >= 2 && len(k.Passes) > 0 && !k.CDNil {
			if k.Mono {
				c.R.Oracle("geo_final_layer_complete")
				if impl == "panic" || impl == "none" {
					c.R.Fail("oracle", "geo_final_layer_complete", "layers:"+impl, "finaliser did not produce layers", k)
				} else if bad := checkComplete(k, cb); bad != "" {
					c.R.Fail("oracle", "geo_final_layer_complete", "layers:incomplete", bad, k)
				}
			} else if impl != "panic" && impl != "none" && checkComplete(k, cb) != "" {
				c.R.Count("geo.fin.nonmonotone_alloc_incomplete") // outside the premise: recorded only (C05_final_layer_complete_refuted)
			}
		}
	})
	// initRDLayerConfig and the single-layer (LayerData == nil) branch
	for nl := -2; nl <= 12; nl++ {
		for _, ap := range []bool{false, true} {
			for _, ll := range []bool{false, true} {
				a, b := jpeg2000.VerifInitRDLayerConfig(nl, ap, ll)
				c.CorrEq("geo_init_rd", "geo_init_rd", c.M.Call("geo_init_rd", fmt.Sprint(nl), b01(ap), b01(ll)), fmt.Sprintf("%d,%s", a, b01(b)), []interface{}{nl, ap, ll})
				c.R.Oracle("geo_init_rd_lossless")
				if ll && a > 1 && !b {
					c.R.Fail("oracle", "geo_init_rd_lossless", "layers:initrd", "lossless multi-layer configuration without the final lossless layer", []interface{}{nl, ap, ll})
				}
			}
		}
	}
	for i := 0; i < c.N(200, 2000); i++ {
		d := make([]byte, rng.Range(0, 6))
		for j := range d {
			d[j] = byte(rng.Intn(256))
		}
		npt, layer, np := rng.Range(0, 40), rng.Range(0, 4), rng.Range(0, 40)
		cb := &t2.PrecinctCodeBlock{Data: d, NumPassesTotal: npt}
		incl, n2, dd := t2.VerifLayerContribution(cb, layer)
		pv, tot := t2.VerifPrevAndTotalPasses(cb, layer, np)
		impl := fmt.Sprintf("%s,%d,%s|%d,%d", b01(incl), n2, Hex(dd), pv, tot)
		c.CorrEq("geo_contrib_nil", "geo_contrib_nil", c.M.Call("geo_contrib_nil", Hex(d), fmt.Sprint(npt), fmt.Sprint(layer), fmt.Sprint(np)), impl, []interface{}{Hex(d), npt, layer, np})
	}
}

// geoAllocators: the monotonicity premise of C05_final_layer_complete evaluated on the real
// (exported) allocators, followed by the finaliser on their output.
func geoAllocators(c *Ctx) {
	rng := c.Rng.Fork()
	n := c.N(400, 6000)
	type ac struct {
		Blocks    [][]t1.PassData
		Datas     [][]byte
		NumLayers int
		Which     int
		Budget    float64
		Seed      uint64
	}
	cases := make([]ac, n)
	for i := range cases {
		a := ac{NumLayers: rng.Range(2, 8), Which: rng.Intn(3), Seed: rng.U64()}
		nb := rng.Range(1, 6)
		total := 0
		for b := 0; b < nb; b++ {
			np := rng.Range(0, 14)
			var ps []t1.PassData
			cur := 0
			dist := 0.0
			for p := 0; p < np; p++ {
				if rng.Intn(4) != 0 {
					cur += rng.Range(0, 30)
				}
				if rng.Intn(5) != 0 {
					dist += float64(rng.Range(0, 100000)) / 7
				}
				ps = append(ps, t1.PassData{PassIndex: p, Rate: cur, ActualBytes: cur, Distortion: dist})
			}
			d := make([]byte, cur+rng.Range(0, 2))
			for q := range d {
				d[q] = byte(rng.Intn(256))
			}
			total += cur
			a.Blocks = append(a.Blocks, ps)
			a.Datas = append(a.Datas, d)
		}
		switch rng.Intn(4) {
		case 0:
			a.Budget = 0
		case 1:
			a.Budget = float64(total) * 2
		default:
			a.Budget = float64(rng.Range(0, total+1))
		}
		cases[i] = a
	}
	ParallelFor(n, c.Work, func(i int) {
		a := cases[i]
		in := map[string]interface{}{"which": a.Which, "numLayers": a.NumLayers, "budget": a.Budget, "blocks": a.Blocks}
		c.R.Case(fmt.Sprintf("alloc:%d", a.Seed), len(a.Blocks) > 1, fmt.Sprintf("geo.alloc.which.%d", a.Which))
		var alloc *jpeg2000.LayerAllocation
		name := ""
		if p, msg := Safely(func() {
			switch a.Which {
			case 0:
				name = "AllocateLayersRateDistortionPasses"
				alloc = jpeg2000.AllocateLayersRateDistortionPasses(a.Blocks, a.NumLayers, a.Budget)
			case 1:
				name = "AllocateLayersWithLambda"
				alloc = jpeg2000.AllocateLayersWithLambda(a.Blocks, a.NumLayers, jpeg2000.ComputeLayerBudgets(a.Budget, a.NumLayers, "EXPONENTIAL"), 0.01)
			default:
				name = "AllocateLayersOpenJPEGThreshold"
				budgets := make([]float64, a.NumLayers)
				for l := range budgets {
					budgets[l] = a.Budget * float64(l+1) / float64(a.NumLayers)
				}
				if i%2 == 0 {
					budgets[a.NumLayers-1] = 0 // final all-pass layer
				}
				alloc = jpeg2000.AllocateLayersOpenJPEGThreshold(a.Blocks, budgets)
			}
		}); p {
			c.R.Fail("oracle", "geo_allocator_monotone", "alloc:panic:"+name, msg, in)
			return
		}
		c.R.Oracle("geo_allocator_monotone")
		for b := range a.Blocks {
			prev := 0
			row := make([]int, a.NumLayers)
			for l := 0; l < a.NumLayers; l++ {
				v := alloc.GetPassesForLayer(b, l)
				row[l] = v
				if v < prev || v < 0 || v > len(a.Blocks[b]) {
					c.R.Fail("oracle", "geo_allocator_monotone", "alloc:nonmonotone:"+name, fmt.Sprintf("block %d: cumulative pass counts %v (passes %d)", b, alloc.CodeBlockPasses[b], len(a.Blocks[b])), in)
					break
				}
				prev = v
			}
			if len(a.Blocks[b]) == 0 {
				continue
			}
			// finaliser on the allocator's output with the lossless layer forced
			k := finCase{RD: i%2 == 0, CD: a.Datas[b], NumLayers: a.NumLayers, Row: row, Append: true}
			for _, p := range a.Blocks[b] {
				k.Passes = append(k.Passes, [2]int{p.Rate, p.ActualBytes})
			}
			cb := &t2.PrecinctCodeBlock{NumPassesTotal: len(k.Passes), Passes: a.Blocks[b], CompleteData: a.Datas[b]}
			c.R.Oracle("geo_final_layer_complete")
			if p, msg := Safely(func() { jpeg2000.VerifFinalizeBlock(cb, a.NumLayers, alloc, b, true, k.RD) }); p {
				c.R.Fail("oracle", "geo_final_layer_complete", "layers:panic", msg, in)
			} else if bad := checkComplete(k, cb); bad != "" {
				c.R.Fail("oracle", "geo_final_layer_complete", "layers:incomplete:"+name, bad, in)
			}
		}
	})
}

// geoT1Rates: the premise rates_ok of C05_final_layer_complete (the postcondition of
// t1.normalizePassRates) evaluated on the real T1 encoder as encodeLayeredCodeBlock calls it,
// followed by a real allocator and the finaliser with the lossless layer forced.
func geoT1Rates(c *Ctx) {
	rng := c.Rng.Fork()
	n := c.N(500, 8000)
	type tc struct {
		W, H, Amp, Band, NumLayers int
		Seed                       uint64
	}
	cases := make([]tc, n)
	for i := range cases {
		cases[i] = tc{W: rng.Range(1, 16), H: rng.Range(1, 16), Amp: rng.Pick(1, 3, 40, 255, 4000, 70000), Band: rng.Range(0, 3), NumLayers: rng.Range(2, 6), Seed: rng.U64()}
		if i%7 == 0 {
			cases[i].W, cases[i].H = rng.Pick(32, 64), rng.Pick(4, 32, 64)
		}
	}
	ParallelFor(n, c.Work, func(i int) {
		k := cases[i]
		r := NewRand(k.Seed)
		data := make([]int32, k.W*k.H)
		maxAbs := 0
		for j := range data {
			v := r.Range(-k.Amp, k.Amp)
			if r.Intn(5) == 0 {
				v = 0
			}
			data[j] = int32(v) << 6 // T1 NMSEDEC fractional bits, as encodeCodeBlock
			if v < 0 {
				v = -v
			}
			if v > maxAbs {
				maxAbs = v
			}
		}
		c.R.Case(fmt.Sprintf("t1rates:%+v", k), maxAbs > 0, fmt.Sprintf("geo.t1rates.amp.%d", k.Amp))
		numbps := 0
		for (1 << numbps) <= maxAbs {
			numbps++
		}
		numPasses := 1
		if numbps > 0 {
			numPasses = 3*numbps - 2
		}
		enc := t1.NewT1Encoder(k.W, k.H, 0)
		enc.SetOrientation(k.Band)
		enc.SetNMSEDecFractionalBits(6)
		enc.SetDistortionWeight(1.0 / 8192.0)
		var passes []t1.PassData
		var cd []byte
		var err error
		if p, msg := Safely(func() { passes, cd, err = enc.EncodeLayered(data, numPasses, 0, nil, 0) }); p {
			c.R.Fail("oracle", "geo_t1_rates_ok", "t1rates:panic", msg, k)
			return
		}
		if err != nil || len(passes) == 0 {
			return
		}
		c.R.Oracle("geo_t1_rates_ok")
		prev := 0
		for pi, p := range passes {
			e := passRate([2]int{p.Rate, p.ActualBytes})
			if e < prev || e < 0 || e > len(cd) || p.ActualBytes > p.Rate || p.ActualBytes < 0 {
				c.R.Fail("oracle", "geo_t1_rates_ok", "t1rates:not-normalised", fmt.Sprintf("pass %d: Rate %d ActualBytes %d, previous rate %d, len(data) %d", pi, p.Rate, p.ActualBytes, prev, len(cd)), k)
				return
			}
			prev = e
		}
		blocks := [][]t1.PassData{passes}
		alloc := jpeg2000.AllocateLayersRateDistortionPasses(blocks, k.NumLayers, float64(prev)*float64(r.Range(1, 10))/10)
		fk := finCase{RD: i%2 == 0, CD: cd, NumLayers: k.NumLayers, Append: true}
		for _, p := range passes {
			fk.Passes = append(fk.Passes, [2]int{p.Rate, p.ActualBytes})
		}
		cb := &t2.PrecinctCodeBlock{NumPassesTotal: len(passes), Passes: passes, CompleteData: cd}
		c.R.Oracle("geo_final_layer_complete")
		if p, msg := Safely(func() { jpeg2000.VerifFinalizeBlock(cb, k.NumLayers, alloc, 0, true, fk.RD) }); p {
			c.R.Fail("oracle", "geo_final_layer_complete", "layers:panic", msg, k)
		} else if bad := checkComplete(fk, cb); bad != "" {
			c.R.Fail("oracle", "geo_final_layer_complete", "layers:incomplete:t1", bad, k)
		}
	})
}

// ---------------------------------------------------------------------------------------
// C05: parameter mapping

type paramCase struct {
	NumLevels, Rate, Prog, NumLayers int
	Levels                           []int
	TR                               float64
	MCT, PCRD, Append                bool
	BS, BA                           int
}

func fclass(f float64) string {
	switch {
	case math.IsNaN(f):
		return "nan"
	case f > 0:
		return "pos"
	case f < 0:
		return "neg"
	}
	return "zero"
}

func geoParams(c *Ctx) {
	rng := c.Rng.Fork()
	huge := 1 << 40
	ints := []int{-huge, -7, -1, 0, 1, 2, 3, 5, 6, 7, 20, 41, 1280, 1281, huge}
	trs := []float64{math.Inf(-1), -2.5, -1e-300, 0, math.Copysign(0, -1), 1e-300, 0.5, 1, 6, 7.5, 8, 8.5, 1e9, math.Inf(1), math.NaN()}
	ladders := [][]int{nil, {}, {1280, 640, 320, 160, 80, 40, 20, 10, 5}, {5, 10, 20}, {40, 40, 3, 90}, {-1, 0, huge}, {21}, {20}}
	var cases []paramCase
	// grid over the fields that interact: Rate x NumLayers x TargetRatio x AppendLosslessLayer x ladder
	for _, rate := range []int{-huge, -1, 0, 1, 20, 41, 1281, huge} {
		for _, nl := range []int{-huge, -1, 0, 1, 2, 3, 7, huge} {
			for _, tr := range trs {
				for _, ap := range []bool{false, true} {
					for li, lad := range ladders {
						if li > 2 && (len(cases)%3 != 0) {
							continue
						}
						cases = append(cases, paramCase{NumLevels: 5, Rate: rate, NumLayers: nl, Levels: lad, TR: tr, Append: ap, MCT: true, BS: 12, BA: 16})
					}
				}
			}
		}
	}
	for i := 0; i < c.N(3000, 40000); i++ {
		k := paramCase{NumLevels: ints[rng.Intn(len(ints))], Rate: ints[rng.Intn(len(ints))], Prog: rng.Intn(256), NumLayers: ints[rng.Intn(len(ints))],
			Levels: ladders[rng.Intn(len(ladders))], TR: trs[rng.Intn(len(trs))], MCT: rng.Bool(), PCRD: rng.Bool(), Append: rng.Bool(),
			BS: rng.Pick(0, 1, 8, 12, 16), BA: rng.Pick(0, 8, 16, 32, 65535)}
		if rng.Intn(3) == 0 {
			k.Rate = rng.Range(-3, 1400)
			k.NumLayers = rng.Range(-2, 12)
			k.NumLevels = rng.Range(-2, 9)
		}
		if rng.Intn(4) == 0 {
			k.Levels = nil
			for j := rng.Range(0, 6); j > 0; j-- {
				k.Levels = append(k.Levels, rng.Range(-5, 1500))
			}
		}
		cases = append(cases, k)
	}
	ParallelFor(len(cases), c.Work, func(i int) {
		k := cases[i]
		key := fmt.Sprintf("params:%+v", k)
		if math.IsNaN(k.TR) {
			key += ":nan"
		}
		c.R.Case(key, !(k.Rate == 20 && k.NumLayers == 1 && k.TR == 0), "geo.params.tr."+fclass(k.TR), fmt.Sprintf("geo.params.append.%v", k.Append))
		if i == 11 {
			c.R.Sample(map[string]interface{}{"suite": "geo_params", "case": fmt.Sprintf("%+v", k)})
		}
		p := &j2kl.JPEG2000LosslessParameters{NumLevels: k.NumLevels, AllowMCT: k.MCT, Rate: k.Rate, ProgressionOrder: uint8(k.Prog),
			NumLayers: k.NumLayers, TargetRatio: k.TR, UsePCRDOpt: k.PCRD, AppendLosslessLayer: k.Append}
		if k.Levels != nil {
			p.RateLevels = append([]int{}, k.Levels...)
		}
		in := fmt.Sprintf("%+v", k)
		if err := p.Validate(); err != nil {
			c.R.Fail("oracle", "geo_param_map", "params:validate-error", err.Error(), in)
			return
		}
		fi := &imagetypes.FrameInfo{Width: 16, Height: 16, BitsAllocated: uint16(k.BA), BitsStored: uint16(k.BS), SamplesPerPixel: 1}
		var e *jpeg2000.EncodeParams
		if pn, msg := Safely(func() { e = j2kl.VerifConfigureLosslessEncodeParams(fi, p) }); pn {
			c.R.Fail("oracle", "geo_param_map", "params:configure-panic", msg, in)
			return
		}
		rates := make([]string, len(e.LayerRates))
		for j, r := range e.LayerRates {
			rates[j] = b01(r > 0)
		}
		uses := e.NumLayers > 1 || e.TargetRatio > 0 // encodeTilePackets / encodeCodeBlock / writeTiles
		impl := fmt.Sprintf("%d,%s,%d,%s,%d,%d,%s,%s,%s|%d,%d,%d,%s,%s,%s,%s,%s,%s,%s",
			p.NumLevels, b01(p.AllowMCT), p.Rate, Ints(p.RateLevels), p.ProgressionOrder, p.NumLayers, fclass(p.TargetRatio), b01(p.UsePCRDOpt), b01(p.AppendLosslessLayer),
			e.NumLevels, e.ProgressionOrder, e.NumLayers, fclass(e.TargetRatio), b01(e.UsePCRDOpt), b01(e.EnableMCT), b01(e.AppendLosslessLayer), b01(e.Lossless),
			joinOr(rates, ",", "_"), b01(uses))
		got := c.M.Call("geo_params", fmt.Sprint(k.NumLevels), b01(k.MCT), fmt.Sprint(k.Rate), Ints(k.Levels), fmt.Sprint(k.Prog), fmt.Sprint(k.NumLayers),
			fclass(k.TR), b01(k.PCRD), b01(k.Append))
		c.CorrEq("geo_params", "geo_params", got, impl, in)
		// the two helper functions on their own
		c.CorrEq("geo_layers_from", "geo_layers_from", c.M.Call("geo_layers_from", fmt.Sprint(k.Rate), Ints(k.Levels)), fmt.Sprint(j2kl.VerifLayersFromRateLevels(k.Rate, k.Levels)), in)
		lr := j2kl.VerifOpenJPEGLayerRates(k.Rate, k.Levels, k.BS, k.BA, k.Append)
		lrs := make([]string, len(lr))
		for j, r := range lr {
			lrs[j] = b01(r > 0)
			if !(r > 0) && r != 0 {
				c.R.Fail("oracle", "geo_param_map", "params:layer-rate-class", fmt.Sprintf("layer rate %v is neither positive nor zero", r), in)
			}
		}
		c.CorrEq("geo_layer_rates", "geo_layer_rates", c.M.Call("geo_layer_rates", fmt.Sprint(k.Rate), Ints(k.Levels), b01(k.Append)), joinOr(lrs, ",", "_"), in)
		if k.Rate > 0 && !(j2kl.VerifRateToTargetRatio(k.Rate, k.BS, k.BA) > 0) {
			c.R.Fail("oracle", "geo_param_map", "params:rate-to-ratio", "rateToTargetRatio of a positive rate is not positive", in)
		}
		// oracle: C05_param_map on the implementation, over the property's parameter domain
		if k.Append || (k.Rate <= 0 && !(k.TR > 0)) {
			c.R.Oracle("geo_param_map")
			single := e.NumLayers == 1 && !(e.TargetRatio > 0)
			if !e.Lossless || !(single || e.NumLayers >= 2) {
				c.R.Fail("oracle", "geo_param_map", "params:lossy-config", fmt.Sprintf("encoder parameters Lossless=%v NumLayers=%d TargetRatio=%v", e.Lossless, e.NumLayers, e.TargetRatio), in)
			}
			if single && uses {
				c.R.Fail("oracle", "geo_param_map", "params:single-layer-rc", "single-layer configuration still runs rate control", in)
			}
		}
	})
}
