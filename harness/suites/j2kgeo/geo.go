//go:build verif

// Package j2kgeo: correspondence (extracted Coq model vs Go through the `verif` hooks) and
// implementation-side oracles for the arithmetic / geometry / layer bookkeeping core of the
// JPEG 2000 reversible pipeline: sample (de)serialisation, tile grid, band rectangles,
// code-block grids (C04, C19) and quality-layer finalisation + parameter mapping (C05).
// Needs `-tags verif` (hook files in /repo/jpeg2000, /repo/jpeg2000/t2, /repo/jpeg2000/lossless).
package j2kgeo

import (
	"fmt"
	"strings"

	"github.com/cocosip/go-dicom-codecs/jpeg2000"
	"github.com/cocosip/go-dicom-codecs/jpeg2000/codestream"
	"github.com/cocosip/go-dicom-codecs/jpeg2000/t2"
	. "verif/harness/vhlib"
)

// Register adds this area's suites.
func Register(s Suites) {
	s.Add("C04", runC04Geo)
	s.Add("C19", runC19Geo)
	s.Add("C05", runC05Layers)
}

func rectStr(x0, y0, x1, y1 int) string { return fmt.Sprintf("%d,%d,%d,%d", x0, y0, x1, y1) }

func b01(b bool) string {
	if b {
		return "1"
	}
	return "0"
}

func joinOr(parts []string, sep, empty string) string {
	if len(parts) == 0 {
		return empty
	}
	return strings.Join(parts, sep)
}

func randData(r *Rand, n int) []int32 {
	d := make([]int32, n)
	for i := range d {
		switch r.Intn(8) {
		case 0:
			d[i] = 0
		case 1:
			d[i] = int32(r.Range(-3, 3))
		default:
			d[i] = int32(r.Range(-40000, 40000))
		}
	}
	// make positions recognisable: never all equal
	if n > 1 && d[0] == d[n-1] {
		d[0]++
	}
	return d
}

// ---------------------------------------------------------------------------------------
// C19: tiles

type tileCase struct{ W, H, TW, TH int }

func siz(k tileCase) *codestream.SIZSegment {
	return &codestream.SIZSegment{Xsiz: uint32(k.W), Ysiz: uint32(k.H), XTsiz: uint32(k.TW), YTsiz: uint32(k.TH),
		Csiz: 1, Components: []codestream.ComponentSize{{Ssiz: 7, XRsiz: 1, YRsiz: 1}}}
}

// implTiles renders the three tile-bound computations of the implementation in the format
// of the model op geo_tiles.
func implTiles(k tileCase) (string, [][4]int) {
	ntx := (k.W + k.TW - 1) / k.TW // writeTiles
	nty := (k.H + k.TH - 1) / k.TH
	n := ntx * nty
	s := siz(k)
	tl := jpeg2000.NewTileLayout(s)
	var enc, lay, dec []string
	rects := make([][4]int, 0, n)
	for i := 0; i < n; i++ {
		x0, y0, x1, y1 := jpeg2000.VerifTileBounds(k.W, k.H, i, k.TW, k.TH, ntx)
		enc = append(enc, rectStr(x0, y0, x1, y1))
		rects = append(rects, [4]int{x0, y0, x1, y1})
		dx0, dy0, dx1, dy1 := t2.VerifTileDecoderBounds(i, s)
		dec = append(dec, rectStr(dx0, dy0, dx1, dy1))
	}
	for i := -1; i <= n; i++ {
		x0, y0, x1, y1 := tl.GetTileBounds(i)
		lay = append(lay, rectStr(x0, y0, x1, y1))
	}
	return fmt.Sprintf("%d,%d|%s|%d:%s|%s", ntx, nty, strings.Join(enc, ";"), tl.GetTileCount(), strings.Join(lay, ";"), strings.Join(dec, ";")), rects
}

// paint counts how many rectangles cover each cell of a w x h grid.
func paint(w, h int, rects [][4]int) (bad string) {
	cnt := make([]int, w*h)
	for i, r := range rects {
		if r[0] < 0 || r[1] < 0 || r[2] > w || r[3] > h {
			return fmt.Sprintf("rectangle %d %v leaves the %dx%d area", i, r, w, h)
		}
		for y := r[1]; y < r[3]; y++ {
			for x := r[0]; x < r[2]; x++ {
				cnt[y*w+x]++
			}
		}
	}
	for i, c := range cnt {
		if c != 1 {
			return fmt.Sprintf("cell (%d,%d) covered %d times", i%w, i/w, c)
		}
	}
	return ""
}

func tileSizesFor(dim int) []int {
	out := make([]int, 0, dim)
	for t := 1; t <= dim; t++ {
		out = append(out, t)
	}
	return out
}

func runC19Geo(c *Ctx) {
	c.R.Rule = "j2kgeo tiles: every W in 1..40 with every tile width 1..W (paired with every H/tile height the same way), random sizes to 5000 (partition painted up to 2^18 / 2^22 pixels); " +
		"tile extraction + AssembleTile on random images to 40x40 (64 thorough); non-trivial = more than one tile"
	rng := c.Rng.Fork()
	var cases []tileCase
	// all 1-D combinations on both axes: (W,TW) enumerated, (H,TH) enumerated with a different phase
	type p struct{ d, t int }
	var ps []p
	for d := 1; d <= 40; d++ {
		for _, t := range tileSizesFor(d) {
			ps = append(ps, p{d, t})
		}
	}
	for i, a := range ps {
		b := ps[(i*7+13)%len(ps)]
		cases = append(cases, tileCase{a.d, b.d, a.t, b.t})
	}
	nr := c.N(600, 6000)
	for i := 0; i < nr; i++ {
		k := tileCase{W: rng.Range(1, 5000), H: rng.Range(1, 5000)}
		pick := func(dim int) int {
			switch rng.Intn(5) {
			case 0:
				return rng.Range(1, dim)
			case 1:
				return 1 << rng.Range(0, 12)
			case 2:
				return dim
			case 3:
				return dim - rng.Intn(3)
			default:
				nt := rng.Range(1, 12)
				return (dim + nt - 1) / nt
			}
		}
		k.TW, k.TH = pick(k.W), pick(k.H)
		if k.TW < 1 {
			k.TW = 1
		}
		if k.TH < 1 {
			k.TH = 1
		}
		if k.TW > k.W {
			k.TW = k.W
		}
		if k.TH > k.H {
			k.TH = k.H
		}
		// keep the number of tiles moderate
		for ((k.W+k.TW-1)/k.TW)*((k.H+k.TH-1)/k.TH) > 1200 {
			if k.TW < k.W {
				k.TW = min(k.W, k.TW*2)
			}
			if k.TH < k.H {
				k.TH = min(k.H, k.TH*2)
			}
		}
		cases = append(cases, k)
	}
	ParallelFor(len(cases), c.Work, func(i int) {
		k := cases[i]
		nt := ((k.W + k.TW - 1) / k.TW) * ((k.H + k.TH - 1) / k.TH)
		c.R.Case(fmt.Sprintf("tiles:%+v", k), nt > 1, fmt.Sprintf("geo.tiles.%d", min(nt, 16)), fmt.Sprintf("geo.tiles.odd.%v", k.TW%2 == 1 || k.TH%2 == 1))
		if i == 77 {
			c.R.Sample(map[string]interface{}{"suite": "geo_tiles", "case": k})
		}
		impl, rects := implTiles(k)
		got := c.M.Call("geo_tiles", fmt.Sprint(k.W), fmt.Sprint(k.H), fmt.Sprint(k.TW), fmt.Sprint(k.TH))
		c.CorrEq("geo_tiles", "geo_tiles", got, impl, k)
		// oracle: the three computations agree, tiles non-empty, partition the image
		c.R.Oracle("geo_tiles_partition")
		parts := strings.Split(impl, "|")
		lay := strings.SplitN(parts[2], ":", 2)
		layRects := strings.Split(lay[1], ";")
		if lay[0] != fmt.Sprint(nt) || strings.Join(layRects[1:len(layRects)-1], ";") != parts[1] || parts[3] != parts[1] {
			c.R.Fail("oracle", "geo_tiles_partition", "tiles:disagree", "encoder / TileLayout / TileDecoder tile rectangles differ: "+impl, k)
		}
		for _, r := range rects {
			if r[2] <= r[0] || r[3] <= r[1] {
				c.R.Fail("oracle", "geo_tiles_partition", "tiles:empty", fmt.Sprintf("empty tile %v", r), k)
			}
		}
		if k.W*k.H <= 1<<18 || (c.Thor && k.W*k.H <= 1<<22) {
			if bad := paint(k.W, k.H, rects); bad != "" {
				c.R.Fail("oracle", "geo_tiles_partition", "tiles:partition", bad, k)
			}
		}
	})

	// extraction + assembly
	n := c.N(700, 3000)
	type rtCase struct {
		K    tileCase
		Data []int32
	}
	rts := make([]rtCase, n)
	maxd := 40
	if c.Thor {
		maxd = 64
	}
	for i := range rts {
		k := tileCase{W: rng.Range(1, maxd), H: rng.Range(1, maxd)}
		if i%3 == 0 {
			k.W, k.H = rng.Range(1, 12), rng.Range(1, 12)
		}
		k.TW, k.TH = rng.Range(1, k.W), rng.Range(1, k.H)
		if rng.Intn(4) == 0 {
			k.TW = k.W
		}
		if rng.Intn(4) == 0 {
			k.TH = k.H
		}
		rts[i] = rtCase{k, randData(rng, k.W*k.H)}
	}
	ParallelFor(n, c.Work, func(i int) {
		k := rts[i].K
		img := rts[i].Data
		ntx := (k.W + k.TW - 1) / k.TW
		nt := ntx * ((k.H + k.TH - 1) / k.TH)
		c.R.Case(fmt.Sprintf("tilert:%+v:%v", k, img[0]), nt > 1, fmt.Sprintf("geo.tilert.%d", min(nt, 16)))
		if i == 5 {
			c.R.Sample(map[string]interface{}{"suite": "geo_tile_rt", "case": k, "data": img})
		}
		src := append([]int32(nil), img...)
		var tiles []string
		ta := jpeg2000.NewTileAssembler(siz(k))
		status := "ok"
		for idx := 0; idx < nt; idx++ {
			x0, y0, x1, y1 := jpeg2000.VerifTileBounds(k.W, k.H, idx, k.TW, k.TH, ntx)
			var t []int32
			if p, msg := Safely(func() { t = jpeg2000.VerifExtractTile(k.W, k.H, img, x0, y0, x1-x0, y1-y0) }); p {
				c.R.Fail("oracle", "geo_tile_roundtrip", "tiles:extract-panic", msg, rts[i])
				return
			}
			tiles = append(tiles, Ints32(t))
			if err := ta.AssembleTile(idx, [][]int32{t}); err != nil {
				status = "err"
				break
			}
		}
		impl := strings.Join(tiles, ";") + "|" + status
		out := ta.GetImageData()[0]
		if status == "ok" {
			impl += ":" + Ints32(out)
		}
		got := c.M.Call("geo_tile_rt", fmt.Sprint(k.W), fmt.Sprint(k.H), fmt.Sprint(k.TW), fmt.Sprint(k.TH), Ints32(src))
		c.CorrEq("geo_tile_rt", "geo_tile_rt", got, impl, rts[i])
		c.R.Oracle("geo_tile_roundtrip")
		if status != "ok" || Ints32(out) != Ints32(src) {
			c.R.Fail("oracle", "geo_tile_roundtrip", "tiles:roundtrip", "tile extraction followed by AssembleTile does not reproduce the image", rts[i])
		}
	})
}

// ---------------------------------------------------------------------------------------
// C04: samples, bands, code-blocks

func runC04Geo(c *Ctx) {
	c.R.Rule = "j2kgeo: sample codec for every P 1..16, both signs, every representable value at P<=10 (random above), raw byte images; " +
		"band rectangles for widths 0..70 x origins 0..9 x levels 0..8, all resolutions; code-block grids and subband extract/assemble on random coefficient arrays; " +
		"non-trivial = more than one sample / band / block"
	geoSamples(c)
	geoBands(c)
	geoBlocks(c)
}

func packSamples(vals []int, P int) []byte {
	mask := (1 << P) - 1
	if P <= 8 {
		b := make([]byte, len(vals))
		for i, v := range vals {
			b[i] = byte(v & mask)
		}
		return b
	}
	b := make([]byte, 2*len(vals))
	for i, v := range vals {
		u := v & mask
		b[2*i], b[2*i+1] = byte(u), byte(u>>8)
	}
	return b
}

func compsStr(d [][]int32) string {
	parts := make([]string, len(d))
	for i := range d {
		parts[i] = Ints32(d[i])
	}
	return strings.Join(parts, ";")
}

func geoSamples(c *Ctx) {
	rng := c.Rng.Fork()
	type sc struct {
		P, Comps  int
		Signed    bool
		Vals      []int // nil => raw bytes case
		Raw       []byte
		NumPixels int
	}
	var cases []sc
	for P := 1; P <= 16; P++ {
		for _, sg := range []bool{false, true} {
			lo, hi := 0, (1<<P)-1
			if sg {
				lo, hi = -(1 << (P - 1)), (1<<(P-1))-1
			}
			var vals []int
			if P <= 10 {
				for v := lo; v <= hi; v++ {
					vals = append(vals, v)
				}
			} else {
				vals = []int{lo, lo + 1, -1, 0, 1, hi - 1, hi}
				if !sg {
					vals = []int{0, 1, 1 << (P - 1), (1 << (P - 1)) - 1, hi - 1, hi}
				}
				for j := 0; j < c.N(300, 3000); j++ {
					vals = append(vals, rng.Range(lo, hi))
				}
			}
			// split into images of at most 256 pixels, 1 component
			for s := 0; s < len(vals); s += 256 {
				e := min(len(vals), s+256)
				cases = append(cases, sc{P: P, Comps: 1, Signed: sg, Vals: vals[s:e], NumPixels: e - s})
			}
			// multi-component random images
			for comps := 2; comps <= 4; comps++ {
				np := rng.Range(1, 40)
				v := make([]int, np*comps)
				for j := range v {
					v[j] = rng.Range(lo, hi)
				}
				cases = append(cases, sc{P: P, Comps: comps, Signed: sg, Vals: v, NumPixels: np})
			}
			// raw bytes (high bits set, short input)
			for j := 0; j < 3; j++ {
				comps := rng.Range(1, 4)
				np := rng.Range(1, 30)
				nb := np * comps * ((P + 7) / 8)
				if j == 2 {
					nb -= rng.Range(1, nb)
				} else if j == 1 {
					nb += rng.Range(0, 3)
				}
				raw := make([]byte, nb)
				for q := range raw {
					raw[q] = byte(rng.Intn(256))
				}
				cases = append(cases, sc{P: P, Comps: comps, Signed: sg, Raw: raw, NumPixels: np})
			}
		}
	}
	ParallelFor(len(cases), c.Work, func(i int) {
		k := cases[i]
		var pix []byte
		if k.Vals != nil {
			pix = packSamples(k.Vals, k.P)
		} else {
			pix = k.Raw
		}
		in := map[string]interface{}{"P": k.P, "signed": k.Signed, "comps": k.Comps, "numPixels": k.NumPixels, "bytes": Hex(pix)}
		c.R.Case(fmt.Sprintf("samples:%d:%v:%d:%s", k.P, k.Signed, k.Comps, Hex(pix)), len(pix) > 1, fmt.Sprintf("geo.samples.P.%d", k.P), fmt.Sprintf("geo.samples.raw.%v", k.Vals == nil))
		if i == 3 {
			c.R.Sample(in)
		}
		src := append([]byte(nil), pix...)
		data, err := jpeg2000.VerifEncodeSamples(k.NumPixels, 1, k.Comps, k.P, k.Signed, pix)
		impl := "err"
		if err == nil {
			impl = "ok:" + compsStr(data)
		}
		got := c.M.Call("geo_convert", fmt.Sprint(k.NumPixels), fmt.Sprint(k.Comps), fmt.Sprint(k.P), b01(k.Signed), Hex(src))
		c.CorrEq("geo_convert", "geo_convert", got, impl, in)
		if k.Vals != nil {
			// the property's container as the model defines it
			vs := make([]string, len(k.Vals))
			for j, v := range k.Vals {
				vs[j] = fmt.Sprint(v)
			}
			c.CorrEq("geo_pack", "geo_pack", c.M.Call("geo_pack", fmt.Sprint(k.P), strings.Join(vs, ",")), Hex(src), in)
		}
		if err != nil {
			return
		}
		// decoder side on the encoder's output, and on perturbed values (clamping)
		for pass := 0; pass < 2; pass++ {
			d := make([][]int32, len(data))
			for ci := range data {
				d[ci] = append([]int32(nil), data[ci]...)
				if pass == 1 {
					for j := range d[ci] {
						if j%3 == 0 {
							d[ci][j] += int32((j*7919+ci*104729)%(1<<17) - (1 << 16))
						}
					}
				}
			}
			arg := compsStr(d)
			var out []byte
			implD := ""
			if p, _ := Safely(func() { out = jpeg2000.VerifDecodeSamples(k.NumPixels, 1, k.Comps, k.P, k.Signed, d) }); p {
				implD = "panic"
			} else {
				implD = Hex(out)
			}
			gotD := c.M.Call("geo_getpixels", fmt.Sprint(k.NumPixels), fmt.Sprint(k.Comps), fmt.Sprint(k.P), b01(k.Signed), arg)
			c.CorrEq("geo_getpixels", "geo_getpixels", gotD, implD, map[string]interface{}{"P": k.P, "signed": k.Signed, "comps": k.Comps, "numPixels": k.NumPixels, "data": arg})
			if pass == 0 && k.Vals != nil {
				c.R.Oracle("geo_sample_roundtrip")
				if implD != Hex(src) {
					c.R.Fail("oracle", "geo_sample_roundtrip", fmt.Sprintf("samples:P%d:s%v", k.P, k.Signed), "bytes -> samples -> level shift -> inverse -> bytes is not the identity", in)
				}
				// the internal value is the true sample value, shifted into the signed range
				sh := 0
				if !k.Signed {
					sh = 1 << (k.P - 1)
				}
				for j, v := range k.Vals {
					if int(data[j%k.Comps][j/k.Comps]) != v-sh {
						c.R.Fail("oracle", "geo_sample_roundtrip", fmt.Sprintf("samples:value:P%d:s%v", k.P, k.Signed), fmt.Sprintf("sample %d read as %d", v, data[j%k.Comps][j/k.Comps]), in)
						break
					}
				}
			}
		}
	})
}

func bandsStr(bs [][5]int) string {
	parts := make([]string, len(bs))
	for i, b := range bs {
		parts[i] = fmt.Sprintf("%d,%d,%d,%d,%d", b[0], b[1], b[2], b[3], b[4])
	}
	return joinOr(parts, ";", "_")
}

type bandCase struct{ W, H, X0, Y0, Levels int }

func geoBands(c *Ctx) {
	rng := c.Rng.Fork()
	var cases []bandCase
	// the two axes are independent: enumerate (w, x0, levels) fully on the x axis and pair it
	// with an enumerated (h, y0) of a different phase
	i := 0
	for w := 0; w <= 70; w++ {
		for x0 := 0; x0 <= 9; x0++ {
			for lv := 0; lv <= 8; lv++ {
				i++
				cases = append(cases, bandCase{W: w, H: (w*13 + x0*5 + lv*3 + i) % 71, X0: x0, Y0: (x0 + lv + i) % 10, Levels: lv})
			}
		}
	}
	for j := 0; j < c.N(500, 20000); j++ {
		cases = append(cases, bandCase{W: rng.Range(0, 5000), H: rng.Range(0, 5000), X0: rng.Range(0, 100000), Y0: rng.Range(0, 100000), Levels: rng.Range(0, 12)})
	}
	// parity helpers
	for v := -5; v <= 200; v++ {
		e := jpeg2000.VerifSplitLengths(v, true)
		o := jpeg2000.VerifSplitLengths(v, false)
		impl := fmt.Sprintf("%d,%d,%d,%s", e, o, jpeg2000.VerifNextCoord(v), b01(jpeg2000.VerifIsEven(v)))
		c.CorrEq("geo_parity", "geo_parity", c.M.Call("geo_parity", fmt.Sprint(v)), impl, v)
		c.R.Oracle("geo_parity_agree")
		if e != t2.VerifSplitLengths(v, true) || o != t2.VerifSplitLengths(v, false) || jpeg2000.VerifNextCoord(v) != t2.VerifNextCoord(v) {
			c.R.Fail("oracle", "geo_parity_agree", "bands:parity", "encoder and t2 parity helpers differ", v)
		}
	}
	ParallelFor(len(cases), c.Work, func(i int) {
		k := cases[i]
		maxres := k.Levels + 2 // also resolutions beyond numLevels (levelNo clamps at 0)
		c.R.Case(fmt.Sprintf("bands:%+v", k), k.Levels > 0 && k.W > 1 && k.H > 1, fmt.Sprintf("geo.bands.levels.%d", min(k.Levels, 9)), fmt.Sprintf("geo.bands.w.%d", min(k.W, 80)/10*10))
		if i == 4000 {
			c.R.Sample(map[string]interface{}{"suite": "geo_bands", "case": k})
		}
		var parts []string
		type resInfo struct {
			w, h  int
			bands [][5]int
		}
		var infos []resInfo
		agree := true
		for r := 0; r <= maxres; r++ {
			ew, eh := jpeg2000.VerifResolutionDims(k.W, k.H, k.X0, k.Y0, k.Levels, r)
			eb := jpeg2000.VerifBandInfos(k.W, k.H, k.X0, k.Y0, k.Levels, r)
			dw, dh, dx, dy, db := t2.VerifBandInfos(k.W, k.H, k.X0, k.Y0, k.Levels, r)
			ebs := make([][5]int, len(eb))
			for j, b := range eb {
				ebs[j] = [5]int{b.Band, b.Width, b.Height, b.OffsetX, b.OffsetY}
			}
			dbs := make([][5]int, len(db))
			for j, b := range db {
				dbs[j] = [5]int{b.Band, b.Width, b.Height, b.OffsetX, b.OffsetY}
			}
			parts = append(parts, fmt.Sprintf("%d,%d/%s/%d,%d,%d,%d/%s", ew, eh, bandsStr(ebs), dw, dh, dx, dy, bandsStr(dbs)))
			if ew != dw || eh != dh || bandsStr(ebs) != bandsStr(dbs) {
				agree = false
			}
			infos = append(infos, resInfo{ew, eh, ebs})
		}
		impl := strings.Join(parts, "#")
		got := c.M.Call("geo_bands", fmt.Sprint(k.W), fmt.Sprint(k.H), fmt.Sprint(k.X0), fmt.Sprint(k.Y0), fmt.Sprint(k.Levels), fmt.Sprint(maxres))
		c.CorrEq("geo_bands", "geo_bands", got, impl, k)
		c.R.Oracle("geo_bands_partition")
		if !agree {
			c.R.Fail("oracle", "geo_bands_partition", "bands:enc-dec", "encoder and decoder band geometry differ: "+impl, k)
		}
		// all bands of resolutions 0..levels partition the w x h array; top resolution = array
		if infos[k.Levels].w != k.W || infos[k.Levels].h != k.H {
			c.R.Fail("oracle", "geo_bands_partition", "bands:topres", "top resolution is not the whole array", k)
		}
		if k.W*k.H <= 1<<20 {
			var rects [][4]int
			for r := 0; r <= k.Levels; r++ {
				for _, b := range infos[r].bands {
					if b[1] < 0 || b[2] < 0 {
						c.R.Fail("oracle", "geo_bands_partition", "bands:negative", fmt.Sprintf("negative band size %v at res %d", b, r), k)
					}
					rects = append(rects, [4]int{b[3], b[4], b[3] + b[1], b[4] + b[2]})
				}
			}
			if bad := paint(k.W, k.H, rects); bad != "" {
				c.R.Fail("oracle", "geo_bands_partition", "bands:partition", bad, k)
			}
		}
	})
}

type blockCase struct {
	K        bandCase
	CBW, CBH int
	Data     []int32
}

func blockStr(gx0, gy0, w, h, cbx, cby, band int, d []int32) string {
	return fmt.Sprintf("%d,%d,%d,%d,%d,%d,%d:%s", gx0, gy0, w, h, cbx, cby, band, Ints32(d))
}

func geoBlocks(c *Ctx) {
	rng := c.Rng.Fork()
	n := c.N(900, 8000)
	cases := make([]blockCase, n)
	for i := range cases {
		k := bandCase{W: rng.Range(0, 36), H: rng.Range(0, 36), X0: rng.Range(0, 9), Y0: rng.Range(0, 9), Levels: rng.Range(0, 6)}
		switch i % 5 {
		case 0:
			k.W, k.H = rng.Range(0, 6), rng.Range(0, 6)
		case 1:
			k.W, k.H = rng.Range(30, 70), rng.Range(1, 9)
		case 2:
			if c.Thor {
				k.W, k.H = rng.Range(40, 70), rng.Range(40, 70)
			}
		}
		cb := func() int {
			if rng.Intn(3) == 0 {
				return rng.Range(1, 9) // the model and the hooks do not need powers of two
			}
			return 1 << rng.Range(0, 6)
		}
		cases[i] = blockCase{K: k, CBW: cb(), CBH: cb(), Data: randData(rng, k.W*k.H)}
	}
	ParallelFor(n, c.Work, func(i int) {
		k := cases[i].K
		cbw, cbh := cases[i].CBW, cases[i].CBH
		coeffs := cases[i].Data
		src := append([]int32(nil), coeffs...)
		var encBlocks []string
		var encRects []string
		var asm []t2.VerifBlock
		var sbParts []string
		bandPartitionOK := ""
		for r := 0; r <= k.Levels; r++ {
			sbs := jpeg2000.VerifSubbandsForResolution(coeffs, k.W, k.H, k.X0, k.Y0, k.Levels, r)
			var one []string
			for _, sb := range sbs {
				one = append(one, fmt.Sprintf("%d,%d,%d,%d,%d:%s", sb.Band, sb.Width, sb.Height, sb.X0, sb.Y0, Ints32(sb.Data)))
				cbs := jpeg2000.VerifPartitionIntoCodeBlocks(sb, cbw, cbh)
				var rects [][4]int
				for _, b := range cbs {
					encBlocks = append(encBlocks, blockStr(b.GlobalX0, b.GlobalY0, b.Width, b.Height, b.CBX, b.CBY, b.Band, b.Data))
					encRects = append(encRects, fmt.Sprintf("%d,%d,%d,%d,%d", b.GlobalX0, b.GlobalY0, b.GlobalX0+b.Width, b.GlobalY0+b.Height, b.Band))
					asm = append(asm, t2.VerifBlock{X0: b.GlobalX0, Y0: b.GlobalY0, X1: b.GlobalX0 + b.Width, Y1: b.GlobalY0 + b.Height, Coeffs: b.Data})
					rects = append(rects, [4]int{b.GlobalX0 - sb.X0, b.GlobalY0 - sb.Y0, b.GlobalX0 - sb.X0 + b.Width, b.GlobalY0 - sb.Y0 + b.Height})
					if b.Width <= 0 || b.Height <= 0 {
						bandPartitionOK = "empty code-block"
					}
				}
				if bad := paint(sb.Width, sb.Height, rects); bad != "" && bandPartitionOK == "" {
					bandPartitionOK = fmt.Sprintf("band %d of res %d: %s", sb.Band, r, bad)
				}
				// per-band correspondence of the partition (the first band of a few cases)
				if r == k.Levels && sb.Band != 3 && i%4 == 0 {
					var bl []string
					for _, b := range cbs {
						bl = append(bl, blockStr(b.GlobalX0, b.GlobalY0, b.Width, b.Height, b.CBX, b.CBY, b.Band, b.Data))
					}
					got := c.M.Call("geo_partition", fmt.Sprint(sb.Band), fmt.Sprint(sb.Width), fmt.Sprint(sb.Height), fmt.Sprint(sb.X0), fmt.Sprint(sb.Y0), fmt.Sprint(cbw), fmt.Sprint(cbh), Ints32(sb.Data))
					c.CorrEq("geo_partition", "geo_partition", got, joinOr(bl, ";", "_"), cases[i])
				}
			}
			sbParts = append(sbParts, strings.Join(one, ";"))
			if i%3 == 0 {
				got := c.M.Call("geo_subbands", fmt.Sprint(k.W), fmt.Sprint(k.H), fmt.Sprint(k.X0), fmt.Sprint(k.Y0), fmt.Sprint(k.Levels), fmt.Sprint(r), Ints32(src))
				c.CorrEq("geo_subbands", "geo_subbands", got, strings.Join(one, ";"), cases[i])
			}
		}
		grid := t2.VerifCodeBlockGrid(k.W, k.H, k.X0, k.Y0, k.Levels, cbw, cbh)
		var gridParts, gridRects []string
		for j, g := range grid {
			gridParts = append(gridParts, fmt.Sprintf("%d,%d,%d,%d,%d,%d", j, g.X0, g.Y0, g.X1, g.Y1, g.Band))
			gridRects = append(gridRects, fmt.Sprintf("%d,%d,%d,%d,%d", g.X0, g.Y0, g.X1, g.Y1, g.Band))
		}
		out := t2.VerifAssembleSubbands(k.W, k.H, asm)
		c.R.Case(fmt.Sprintf("blocks:%+v:%d:%d:%s", k, cbw, cbh, Ints32(src)), len(encBlocks) > 1, fmt.Sprintf("geo.blocks.n.%d", min(len(encBlocks), 64)/8*8), fmt.Sprintf("geo.blocks.levels.%d", k.Levels))
		if i == 10 {
			c.R.Sample(map[string]interface{}{"suite": "geo_blocks", "case": cases[i]})
		}
		impl := joinOr(encBlocks, ";", "_") + "|" + joinOr(gridParts, ";", "_") + "|" + Ints32(out)
		got := c.M.Call("geo_blocks", fmt.Sprint(k.W), fmt.Sprint(k.H), fmt.Sprint(k.X0), fmt.Sprint(k.Y0), fmt.Sprint(k.Levels), fmt.Sprint(cbw), fmt.Sprint(cbh), Ints32(src))
		c.CorrEq("geo_blocks", "geo_blocks", got, impl, cases[i])
		c.R.Oracle("geo_blocks_roundtrip")
		if strings.Join(encRects, ";") != strings.Join(gridRects, ";") {
			c.R.Fail("oracle", "geo_blocks_roundtrip", "blocks:grid", "encoder code-block rectangles differ from the decoder grid", cases[i])
		}
		if bandPartitionOK != "" {
			c.R.Fail("oracle", "geo_blocks_roundtrip", "blocks:partition", bandPartitionOK, cases[i])
		}
		if Ints32(out) != Ints32(src) {
			c.R.Fail("oracle", "geo_blocks_roundtrip", "blocks:roundtrip", "assembleSubbands of the encoder's code-blocks is not the coefficient array", cases[i])
		}
	})
	// assembleSubbands guards: arbitrary rectangles (outside the array, short coefficient slices)
	m := c.N(300, 3000)
	type ac struct {
		W, H   int
		Blocks []t2.VerifBlock
	}
	acs := make([]ac, m)
	for i := range acs {
		a := ac{W: rng.Range(0, 12), H: rng.Range(0, 12)}
		for j := rng.Range(0, 4); j > 0; j-- {
			x0, y0 := rng.Range(0, a.W+2), rng.Range(0, a.H+2)
			w, h := rng.Range(0, 6), rng.Range(0, 6)
			nc := w * h
			switch rng.Intn(4) {
			case 0:
				nc = rng.Range(0, nc)
			case 1:
				nc += rng.Range(0, 3)
			}
			a.Blocks = append(a.Blocks, t2.VerifBlock{X0: x0, Y0: y0, X1: x0 + w, Y1: y0 + h, Coeffs: randData(rng, nc)})
		}
		acs[i] = a
	}
	ParallelFor(m, c.Work, func(i int) {
		a := acs[i]
		var bl []string
		for _, b := range a.Blocks {
			bl = append(bl, rectStr(b.X0, b.Y0, b.X1, b.Y1)+":"+Ints32(b.Coeffs))
		}
		arg := joinOr(bl, ";", "_")
		c.R.Case(fmt.Sprintf("assemble:%d:%d:%s", a.W, a.H, arg), len(a.Blocks) > 0, "geo.assemble")
		var out []int32
		impl := ""
		if p, _ := Safely(func() { out = t2.VerifAssembleSubbands(a.W, a.H, a.Blocks) }); p {
			impl = "panic"
		} else {
			impl = Ints32(out)
		}
		c.CorrEq("geo_assemble", "geo_assemble", c.M.Call("geo_assemble", fmt.Sprint(a.W), fmt.Sprint(a.H), arg), impl, map[string]interface{}{"w": a.W, "h": a.H, "blocks": arg})
	})
}
