package j2kblocks

import (
	"fmt"
	"strings"

	"github.com/cocosip/go-dicom-codecs/jpeg2000/colorspace"
	. "verif/harness/vhlib"
)

// Register adds this area's suites.
func Register(s Suites) { s.Add("C20", runC20) }

func runC20(c *Ctx) {
	c.R.Rule = "RCT: random int32 triples within +-2^28 (plus extremes), list lengths 0..64; non-trivial = not all zero; " +
		"DWT: random signals/images, widths 1..257, both parities; MQ: random (bit,ctx) sequences"
	c20RCT(c)
}

func c20RCT(c *Ctx) {
	n := c.N(300, 5000)
	rng := c.Rng.Fork()
	type cs struct{ r, g, b []int32 }
	cases := make([]cs, n)
	ext := []int32{0, 1, -1, 1 << 28, -(1 << 28), (1 << 28) - 1, 255, 65535, -32768, 3, -3, 2, -2}
	for i := range cases {
		l := rng.Range(0, 64)
		if i < 4 {
			l = len(ext)
		}
		k := cs{make([]int32, l), make([]int32, l), make([]int32, l)}
		for j := 0; j < l; j++ {
			pick := func() int32 {
				switch rng.Intn(4) {
				case 0:
					return ext[rng.Intn(len(ext))]
				case 1:
					return int32(rng.Range(-70000, 70000))
				default:
					return int32(rng.Range(-(1 << 28), 1<<28))
				}
			}
			k.r[j], k.g[j], k.b[j] = pick(), pick(), pick()
		}
		cases[i] = k
	}
	ParallelFor(n, c.Work, func(i int) {
		k := cases[i]
		nz := false
		for j := range k.r {
			if k.r[j] != 0 || k.g[j] != 0 || k.b[j] != 0 {
				nz = true
			}
		}
		key := "rct:" + Ints32(k.r) + "/" + Ints32(k.g) + "/" + Ints32(k.b)
		c.R.Case(key, nz, fmt.Sprintf("rct.len.%d", (len(k.r)+15)/16*16))
		if i == 0 {
			c.R.Sample(map[string]interface{}{"suite": "rct", "r": k.r, "g": k.g, "b": k.b})
		}
		y, cb, cr := colorspace.ApplyRCTToComponents(k.r, k.g, k.b)
		// correspondence: model forward
		got := c.M.Call("rct_fwd", Ints32(k.r), Ints32(k.g), Ints32(k.b))
		in := map[string]interface{}{"r": k.r, "g": k.g, "b": k.b}
		var parts []string
		for j := range y {
			parts = append(parts, fmt.Sprintf("%d,%d,%d", y[j], cb[j], cr[j]))
		}
		want := strings.Join(parts, ";")
		c.CorrEq("rct_fwd", "rct_fwd", got, want, in)
		r2, g2, b2 := colorspace.ApplyInverseRCTToComponents(y, cb, cr)
		got = c.M.Call("rct_inv", Ints32(y), Ints32(cb), Ints32(cr))
		parts = parts[:0]
		for j := range r2 {
			parts = append(parts, fmt.Sprintf("%d,%d,%d", r2[j], g2[j], b2[j]))
		}
		want = strings.Join(parts, ";")
		c.CorrEq("rct_inv", "rct_inv", got, want, map[string]interface{}{"y": y, "cb": cb, "cr": cr})
		// oracle: round trip on the implementation
		c.R.Oracle("rct_roundtrip")
		for j := range k.r {
			if r2[j] != k.r[j] || g2[j] != k.g[j] || b2[j] != k.b[j] {
				c.R.Fail("oracle", "rct_roundtrip", "rct", fmt.Sprintf("inverse RCT of forward RCT differs at index %d", j),
					map[string]interface{}{"r": k.r, "g": k.g, "b": k.b})
				break
			}
		}
	})
}
