package framing

import . "verif/harness/vhlib"

func c16Corr(c *Ctx) {}
func runC17(c *Ctx)  {}
