package framing

import (
	"encoding/json"
	"fmt"

	rcodec "github.com/cocosip/go-dicom-codecs/codec"
	"github.com/cocosip/go-dicom-codecs/jpeg/baseline"
	"github.com/cocosip/go-dicom-codecs/jpeg/extended"
	jll "github.com/cocosip/go-dicom-codecs/jpeg/lossless"
	"github.com/cocosip/go-dicom-codecs/jpeg/lossless14sv1"
	"github.com/cocosip/go-dicom-codecs/jpeg2000"
	"github.com/cocosip/go-dicom-codecs/jpeg2000/htj2k"
	j2kll "github.com/cocosip/go-dicom-codecs/jpeg2000/lossless"
	j2kly "github.com/cocosip/go-dicom-codecs/jpeg2000/lossy"
	jlsl "github.com/cocosip/go-dicom-codecs/jpegls/lossless"
	jlsn "github.com/cocosip/go-dicom-codecs/jpegls/nearlossless"
	"github.com/cocosip/go-dicom/pkg/dicom/transfer"
	"github.com/cocosip/go-dicom/pkg/imaging/codec"
	"github.com/cocosip/go-dicom/pkg/imaging/imagetypes"

	. "verif/harness/vhlib"
)

// codecArgs: one registry Codec.Encode call.
type codecArgs struct {
	TS      string `json:"ts"`
	NilOld  bool   `json:"nil_old"`
	NilNew  bool   `json:"nil_new"`
	NilFI   bool   `json:"nil_fi"`
	W       int    `json:"w"`
	H       int    `json:"h"`
	SPP     int    `json:"spp"`
	BS      int    `json:"bs"`
	BA      int    `json:"ba"`
	Planar  int    `json:"planar"`
	NFrames int    `json:"nframes"`
	FLen    int    `json:"flen"`  // length of every frame; -1: nil slice
	PKind   int    `json:"pkind"` // 0 nil, 1 typed, 2 foreign with an int value, 3 foreign with a wrong-typed value
	Param   int    `json:"param"`
	Seed    uint64 `json:"seed"`
	// FullFirst: every frame but the last has the required length, only the last one has FLen (a truncated
	// later frame reaches an encoder object that has already accepted a full frame of the same geometry)
	FullFirst bool `json:"full_first,omitempty"`
}

func (a codecArgs) String() string { b, _ := json.Marshal(a); return string(b) }

type tsInfo struct {
	short  string
	syntax *transfer.Syntax
	knob   string // name of the main integer parameter
	lo, hi int    // its documented range
}

var c17TS = []tsInfo{
	{"RLE", transfer.RLELossless, "", 0, 0},
	{".50", transfer.JPEGBaseline8Bit, "quality", 1, 100},
	{".51", transfer.JPEGProcess2_4, "quality", 1, 100},
	{".57", transfer.JPEGLossless, "predictor", 0, 7},
	{".70", transfer.JPEGLosslessSV1, "", 0, 0},
	{".80", transfer.JPEGLSLossless, "", 0, 0},
	{".81", transfer.JPEGLSNearLossless, "near", 0, 255},
	{".90", transfer.JPEG2000Lossless, "numLevels", 0, 6},
	{".91", transfer.JPEG2000Lossy, "numLevels", 0, 6},
	{".92", transfer.JPEG2000Part2MultiComponentLosslessOnly, "numLevels", 0, 6},
	{".93", transfer.JPEG2000Part2MultiComponent, "numLevels", 0, 6},
	{".201", transfer.HTJ2KLossless, "numLevels", 0, 6},
	{".202", transfer.HTJ2KLosslessRPCL, "numLevels", 0, 6},
	{".203", transfer.HTJ2K, "numLevels", 0, 6},
}

func tsByShort(s string) *tsInfo {
	for i := range c17TS {
		if c17TS[i].short == s {
			return &c17TS[i]
		}
	}
	return nil
}

func (a codecArgs) typedParams() codec.Parameters {
	switch a.TS {
	case ".50":
		p := baseline.NewBaselineParameters()
		p.Quality = a.Param
		return p
	case ".51":
		p := extended.NewExtendedParameters()
		p.Quality = a.Param
		return p
	case ".57":
		p := jll.NewLosslessParameters()
		p.Predictor = a.Param
		return p
	case ".81":
		p := jlsn.NewNearLosslessParameters()
		p.NEAR = a.Param
		return p
	case ".90", ".92":
		p := j2kll.NewLosslessParameters()
		p.NumLevels = a.Param
		return p
	case ".91", ".93":
		p := j2kly.NewLossyParameters()
		p.NumLevels = a.Param
		return p
	case ".201", ".202":
		p := htj2k.NewHTJ2KLosslessParameters()
		p.NumLevels = a.Param
		return p
	case ".203":
		p := htj2k.NewHTJ2KParameters()
		p.NumLevels = a.Param
		return p
	}
	return codec.NewBaseParameters()
}

func (a codecArgs) params() codec.Parameters {
	ti := tsByShort(a.TS)
	switch a.PKind {
	case 0:
		return nil
	case 1:
		return a.typedParams()
	case 2:
		p := codec.NewBaseParameters()
		if ti.knob != "" {
			p.SetParameter(ti.knob, a.Param)
		}
		p.SetParameter("unrelated", 3.5)
		return p
	default:
		p := codec.NewBaseParameters()
		if ti.knob != "" {
			p.SetParameter(ti.knob, "a string")
		}
		p.SetParameter("quality", 1.5)
		p.SetParameter("numLevels", []int{1})
		return p
	}
}

func (a codecArgs) frameInfo() *imagetypes.FrameInfo {
	if a.NilFI {
		return nil
	}
	pi := "MONOCHROME2"
	if a.SPP == 3 {
		pi = "RGB"
	}
	hb := a.BS - 1
	if hb < 0 {
		hb = 0
	}
	return &imagetypes.FrameInfo{Width: uint16(a.W), Height: uint16(a.H), BitsAllocated: uint16(a.BA),
		BitsStored: uint16(a.BS), HighBit: uint16(hb), SamplesPerPixel: uint16(a.SPP),
		PlanarConfiguration: uint16(a.Planar), PhotometricInterpretation: pi}
}

// bytes per sample the codec's encoder expects in the frame
func (a codecArgs) encBps() int {
	switch a.TS {
	case "RLE", ".201", ".202", ".203":
		return (a.BA + 7) / 8
	case ".50":
		return 1
	case ".51":
		if a.BS > 8 || a.BS == 0 {
			return 2
		}
		return 1
	}
	return (a.BS + 7) / 8
}

func (a codecArgs) need() int {
	n := a.W * a.H * a.SPP * a.encBps()
	if n < 0 {
		n = 0
	}
	return n
}

func (a codecArgs) representable() (bool, string) {
	ti := tsByShort(a.TS)
	switch {
	case a.NilOld || a.NilNew:
		return false, "nil-pixeldata"
	case a.NilFI && a.NFrames > 0:
		return false, "nil-frameinfo"
	case a.NFrames == 0:
		return true, "" // nothing to encode: any answer without a stream is fine
	case a.NilFI:
		return false, "nil-frameinfo"
	case a.W <= 0:
		return false, "width<=0"
	case a.H <= 0:
		return false, "height<=0"
	}
	switch a.TS {
	case "RLE":
		if a.BA < 1 || a.SPP < 1 || ((a.BA+7)/8)*a.SPP > 15 {
			return false, "segments"
		}
	case ".50":
		if a.SPP != 1 && a.SPP != 3 {
			return false, "components"
		}
		if a.BS < 1 || a.BS > 8 {
			return false, "bitdepth"
		}
	case ".51":
		if a.BS < 1 || a.BS > 12 {
			return false, "bitdepth"
		}
		if a.SPP != 1 && (a.SPP != 3 || a.BS > 8) {
			return false, "components"
		}
	case ".57", ".70", ".80", ".81":
		if a.SPP != 1 && a.SPP != 3 {
			return false, "components"
		}
		if a.BS < 2 || a.BS > 16 {
			return false, "bitdepth"
		}
	case ".201", ".202", ".203":
		if a.SPP < 1 || a.SPP > 4 {
			return false, "components"
		}
		if a.BA < 1 || a.BA > 16 || a.BS < 1 || a.BS > a.BA {
			return false, "bitdepth"
		}
	default:
		if a.SPP < 1 || a.SPP > 4 {
			return false, "components"
		}
		if a.BS < 1 || a.BS > 16 {
			return false, "bitdepth"
		}
	}
	if a.PKind == 1 && ti.knob != "" && (a.Param < ti.lo || a.Param > ti.hi) {
		return false, "param:" + ti.knob
	}
	// NEAR must also satisfy T.87: NEAR <= min(255, MAXVAL/2)
	if a.TS == ".81" {
		near := 3
		if a.PKind == 1 || (a.PKind == 2 && a.Param >= 0 && a.Param <= 255) {
			near = a.Param
		}
		if near >= 0 && near <= 255 && near > nearMax(a.BS) {
			return false, "near>maxval/2"
		}
	}
	if a.FLen < a.need() || a.FLen <= 0 {
		return false, "short-buffer"
	}
	return true, ""
}

// decoded geometry of one emitted frame
func (a codecArgs) checkFrame(cd codec.Codec, s []byte) (string, string) {
	var w, h, c int
	var err error
	switch a.TS {
	case ".50":
		_, w, h, c, err = baseline.Decode(s)
	case ".51":
		_, w, h, c, _, err = extended.Decode(s)
	case ".57":
		_, w, h, c, _, err = jll.Decode(s)
	case ".70":
		_, w, h, c, _, err = lossless14sv1.Decode(s)
	case ".80":
		_, w, h, c, _, err = jlsl.Decode(s)
	case ".81":
		_, w, h, c, _, _, err = jlsn.Decode(s)
	case ".90", ".91", ".92", ".93":
		d := jpeg2000.NewDecoder()
		err = d.Decode(s)
		if err == nil {
			w, h, c = d.Width(), d.Height(), d.Components()
		}
	default: // RLE, HTJ2K: through the codec, by decoded length
		src := rcodec.NewTestPixelData(a.frameInfo())
		_ = src.AddFrame(s)
		dst := rcodec.NewTestPixelData(a.frameInfo())
		if err := cd.Decode(src, dst, nil); err != nil {
			return "decode-error", err.Error()
		}
		f, _ := dst.GetFrame(0)
		want := a.W * a.H * a.SPP * ((a.BA + 7) / 8)
		if a.TS == "RLE" && want%2 == 1 {
			want++
		}
		if len(f) != want {
			return "geometry", fmt.Sprintf("decoded frame has %d bytes, geometry needs %d", len(f), want)
		}
		return "", ""
	}
	if err != nil {
		return "decode-error", err.Error()
	}
	if w != a.W || h != a.H || c != a.SPP {
		return "geometry", fmt.Sprintf("decodes to %dx%dx%d, requested %dx%dx%d", w, h, c, a.W, a.H, a.SPP)
	}
	return "", ""
}

func genCodec(r *Rand, ti tsInfo, nRandom int) []codecArgs {
	var out []codecArgs
	base := codecArgs{TS: ti.short, W: 5, H: 3, SPP: 1, BS: 8, BA: 8, NFrames: 1}
	switch ti.short {
	case ".51":
		base.BS, base.BA = 12, 16
	case ".57", ".70", ".80", ".81", ".90", ".91":
		if r.Bool() {
			base.BS, base.BA = 12, 16
		}
	}
	add := func(a codecArgs) { a.Seed = r.U64(); out = append(out, a) }
	fin := func(a codecArgs) codecArgs { a.FLen = a.need(); return a }
	add(fin(base))
	for _, v := range [][3]bool{{true, false, false}, {false, true, false}, {false, false, true}} {
		a := fin(base)
		a.NilOld, a.NilNew, a.NilFI = v[0], v[1], v[2]
		add(a)
		a.NFrames = 0
		add(a)
	}
	for _, d := range []int{0, 1, 2, 255, 256, 65535} {
		for _, sw := range []bool{false, true} {
			a := base
			a.W, a.H = d, 2
			if sw {
				a.W, a.H = 2, d
			}
			add(fin(a))
		}
	}
	for _, spp := range []int{0, 1, 2, 3, 4, 5} {
		for _, pl := range []int{0, 1} {
			a := base
			a.SPP, a.Planar = spp, pl
			add(fin(a))
		}
	}
	for _, ba := range []int{0, 1, 8, 16, 32, 40, 64, 65535} {
		for _, bs := range []int{0, 1, 2, 7, 8, 9, 12, 13, 16, 17} {
			if bs > ba && !(ba == 0 || r.Intn(4) == 0) {
				continue
			}
			a := base
			a.BA, a.BS = ba, bs
			add(fin(a))
			a.SPP = 3
			add(fin(a))
		}
	}
	for _, nf := range []int{0, 1, 2} {
		a := fin(base)
		a.NFrames = nf
		add(a)
	}
	for _, fl := range c17Lens(r, fin(base).need()) {
		a := base
		a.FLen = fl
		add(a)
	}
	// a later frame of a multi-frame object is short (1 byte, half, one byte) after full frames
	for _, nf := range []int{2, 3} {
		for _, spp := range []int{1, 3} {
			b := base
			b.SPP, b.NFrames, b.FullFirst = spp, nf, true
			need := fin(b).need()
			for _, fl := range []int{need - 1, need / 2, 1, 0} {
				a := b
				a.FLen = fl
				add(a)
			}
		}
	}
	for pk := 0; pk <= 3; pk++ {
		vals := []int{ti.lo - 1, ti.lo, ti.hi, ti.hi + 1, -1, 0, 1, 256}
		if ti.short == ".81" {
			vals = append(vals, 1, 3, 127, 128, 255)
		}
		for _, v := range vals {
			a := fin(base)
			a.PKind, a.Param = pk, v
			add(a)
			if ti.short == ".81" {
				a.BS, a.BA = 2, 8
				add(fin(a))
			}
		}
	}
	for i := 0; i < nRandom; i++ {
		a := base
		a.W, a.H = r.Pick(0, 1, 2, 3, 7, 16), r.Pick(0, 1, 2, 3, 5)
		a.SPP = r.Pick(0, 1, 1, 1, 3, 3, 2, 4, 5)
		a.BA = r.Pick(0, 1, 8, 8, 16, 16, 32, 40)
		a.BS = r.Pick(0, 1, 2, 7, 8, 9, 12, 13, 16, 17)
		if a.BS > a.BA && r.Intn(3) > 0 {
			a.BS = a.BA
		}
		a.Planar = r.Intn(2)
		a.NFrames = r.Pick(0, 1, 1, 1, 2)
		a.PKind = r.Intn(4)
		a.Param = r.Pick(ti.lo-1, ti.lo, ti.hi, ti.hi+1, 3, 50)
		ls := c17Lens(r, a.need())
		a.FLen = ls[r.Intn(len(ls))]
		if r.Intn(3) == 0 {
			a.FLen = a.need()
		}
		add(a)
	}
	return out
}

func c17Codec(c *Ctx) {
	var cases []codecArgs
	if rp := c.ReplayInputs("c17_codec"); rp != nil {
		for _, raw := range rp {
			var a codecArgs
			if json.Unmarshal(raw, &a) == nil && a.TS != "" {
				cases = append(cases, a)
			}
		}
	} else {
		rng := c.Rng.Fork()
		for _, ti := range c17TS {
			cases = append(cases, genCodec(rng, ti, c.N(60, 1500))...)
		}
	}
	ParallelFor(len(cases), c.Work, func(i int) {
		a := cases[i]
		ti := tsByShort(a.TS)
		cd, ok := codec.GetGlobalRegistry().GetCodec(ti.syntax)
		if !ok {
			c.R.Note("c17: codec %s not registered", a.TS)
			return
		}
		var src, dst imagetypes.PixelData
		var dstT *rcodec.TestPixelData
		if !a.NilOld {
			s := rcodec.NewTestPixelData(a.frameInfo())
			for f := 0; f < a.NFrames; f++ {
				fl := a.FLen
				if a.FullFirst && f < a.NFrames-1 {
					fl = a.need()
				}
				_ = s.AddFrame(pkgArgs{Len: fl, P: a.BS, Seed: a.Seed + uint64(f)}.buffer())
			}
			src = s
		}
		if !a.NilNew {
			dstT = rcodec.NewTestPixelData(a.frameInfo())
			dst = dstT
		}
		var err error
		pn, msg := Safely(func() { err = cd.Encode(src, dst, a.params()) })
		rep, why := a.representable()
		cls := "valid"
		if !rep {
			cls = why
		}
		c.R.Case("codec:"+a.String(), true, "c17.codec."+a.TS, "c17.cclass."+cls, "c17.pkind."+itoa(a.PKind))
		if i%301 == 0 {
			c.R.Sample(map[string]interface{}{"suite": "c17_codec", "args": a})
		}
		if c.HasModel() {
			b := func(v bool) string {
				if v {
					return "1"
				}
				return "0"
			}
			fl := a.FLen
			if fl < 0 {
				fl = 0
			}
			m := c.M.Call("frm_codec", a.TS, b(a.NilOld), b(a.NilNew), b(a.NilFI), itoa(a.W), itoa(a.H), itoa(a.SPP), itoa(a.BS),
				itoa(a.BA), itoa(a.Planar), itoa(a.NFrames), itoa(fl), itoa(a.PKind), itoa(a.Param), b(a.PKind == 2))
			impl := "ok"
			if pn {
				impl = "ok" // guards passed; the panic itself is an oracle failure
				if a.TS == "RLE" {
					impl = "panic"
				}
			} else if err != nil {
				impl = "err"
			}
			c.CorrEq("frm_codec", "frm_codec:"+a.TS, m, impl, a)
		}
		c.R.Oracle("c17_codec")
		switch {
		case pn:
			c.R.Fail("oracle", "c17_codec", "c17:codec"+a.TS+":panic:"+cls, "Codec.Encode panicked: "+msg, a)
		case err != nil:
			if rep {
				c.R.Count("c17.rejected_representable.codec" + a.TS)
			}
		default:
			n := 0
			if dstT != nil {
				n = dstT.FrameCount()
			}
			if !rep && n > 0 {
				kind := "accepts"
				if len(why) > 6 && why[:6] == "param:" {
					kind = "normalises"
				}
				c.R.Fail("oracle", "c17_codec", "c17:codec"+a.TS+":"+kind+":"+why,
					fmt.Sprintf("Codec.Encode returned %d frame(s) without error for unrepresentable arguments (%s)", n, why), a)
			}
			if !rep && n == 0 && a.NFrames > 0 {
				c.R.Fail("oracle", "c17_codec", "c17:codec"+a.TS+":silent:"+why, "Codec.Encode returned nil without emitting the frames", a)
			}
			for f := 0; f < n; f++ {
				s, _ := dstT.GetFrame(f)
				var site, what string
				if dp, dmsg := Safely(func() { site, what = a.checkFrame(cd, s) }); dp {
					site, what = "decode-panic", dmsg
				}
				if site != "" {
					c.R.Fail("oracle", "c17_codec", "c17:codec"+a.TS+":"+site+":"+cls, "returned frame: "+what, a)
				}
			}
		}
	})
}
