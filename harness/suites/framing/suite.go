// Package framing: suites for C16 (every emitted frame is one well-formed, self-describing
// codestream) and C17 (encoders reject unrepresentable input).
//
// C16: every encoder of the library is run over its domain on noise-heavy images; each emitted
// stream is fed to the EXTRACTED Coq walkers of coq/Framing (ops frm_jpeg / frm_jls / frm_j2k,
// written from T.81 / T.87 / 15444-1 Annex A; RLE through the RLE area's Annex G checker
// rle_valid + rle_segments + rle_packbits_n) and the header the walker returns is compared
// with the arguments given to the encoder. Here the model IS the oracle: a "bad:" reply or a
// header mismatch is an oracle failure (signature c16:<encoder>:<reason>), a missing model is
// reported as skipped comparisons. The writer models of coq/Framing/FrmWriters.v are tied to
// the Go code by correspondence runs on random inputs (standard.Writer.WriteSegment,
// standard.HuffmanEncoder WriteBits/Flush, the header payload writers through the encoders'
// own streams). t2.bioWriter is unexported and has no exported driver other than whole
// packet headers: its model is tied only by the walker run over real JPEG 2000 streams.
//
// C17: see c17.go.
package framing

import (
	"fmt"
	"sort"
	"strconv"
	"strings"

	. "verif/harness/vhlib"
)

// Register adds this area's suites.
func Register(s Suites) {
	s.Add("C16", runC16)
	s.Add("C17", runC17)
}

// fields parses "ok:k=v;k=v" into a map; ok=false for "bad:..." or anything else.
func fields(reply string) (map[string]string, bool) {
	if !strings.HasPrefix(reply, "ok:") {
		return nil, false
	}
	m := map[string]string{}
	for _, kv := range strings.Split(reply[3:], ";") {
		if i := strings.IndexByte(kv, '='); i > 0 {
			m[kv[:i]] = kv[i+1:]
		}
	}
	return m, true
}

func fint(m map[string]string, k string) int {
	v, err := strconv.Atoi(m[k])
	if err != nil {
		return -999999
	}
	return v
}

// badReason extracts "<reason>" from "bad:<reason>@<offset>".
func badReason(reply string) string {
	if !strings.HasPrefix(reply, "bad:") {
		if len(reply) > 40 {
			reply = reply[:40]
		}
		return "model:" + reply
	}
	r := reply[4:]
	if i := strings.IndexByte(r, '@'); i >= 0 {
		r = r[:i]
	}
	return r
}

func sortedKeys(m map[string]int) []string {
	var ks []string
	for k := range m {
		ks = append(ks, k)
	}
	sort.Strings(ks)
	return ks
}

func sizeBucket(n int) string {
	switch {
	case n < 1024:
		return "<1K"
	case n < 16384:
		return "<16K"
	case n < 131072:
		return "<128K"
	default:
		return ">=128K"
	}
}

func dimBucket(w, h int) string {
	m := w
	if h > m {
		m = h
	}
	switch {
	case m == 65535:
		return "65535"
	case m >= 256:
		return ">=256"
	case m >= 64:
		return "64..255"
	default:
		return "<64"
	}
}

func itoa(i int) string { return fmt.Sprint(i) }
