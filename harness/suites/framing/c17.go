package framing

// C17: encoders reject unrepresentable input. Enumerated argument tuples around every
// documented limit for every package-level Encode (c17.go) and every registry Codec.Encode
// (c17codec.go), all calls under vhlib.Safely.
//
// Oracle (exactly the property text, nothing stricter): an unrepresentable tuple must give an
// error (a returned stream is "accepts", a panic is "panic"); a panic is a failure for every
// tuple; every returned stream must decode with the matching decoder to exactly the requested
// geometry. A representable tuple that is rejected is only counted.
// Correspondence: Go "returns an error" vs the model's accepts (FrmValidate.v) on every
// tuple, and the Go-side `representable` vs the model's.

import (
	"encoding/json"
	"fmt"
	"time"

	"github.com/cocosip/go-dicom-codecs/jpeg/baseline"
	"github.com/cocosip/go-dicom-codecs/jpeg/extended"
	jll "github.com/cocosip/go-dicom-codecs/jpeg/lossless"
	"github.com/cocosip/go-dicom-codecs/jpeg/lossless14sv1"
	"github.com/cocosip/go-dicom-codecs/jpeg2000"
	jlsl "github.com/cocosip/go-dicom-codecs/jpegls/lossless"
	jlsn "github.com/cocosip/go-dicom-codecs/jpegls/nearlossless"

	. "verif/harness/vhlib"
)

// pkgArgs: one call of a package-level Encode. Len = -1 means a nil slice.
type pkgArgs struct {
	Enc  string `json:"enc"` // baseline extended lossless sv1 jls jls-near
	Len  int    `json:"len"`
	W    int    `json:"w"`
	H    int    `json:"h"`
	C    int    `json:"c"`
	P    int    `json:"p"`
	X    int    `json:"x"` // quality / predictor / NEAR
	Seed uint64 `json:"seed"`
}

func (a pkgArgs) String() string { b, _ := json.Marshal(a); return string(b) }

func bpsOf(p int) int { return (p + 7) / 8 }

// buffer of length Len with noise whose samples stay below 2^P
func (a pkgArgs) buffer() []byte {
	if a.Len < 0 {
		return nil
	}
	r := NewRand(a.Seed)
	b := make([]byte, a.Len)
	p := a.P
	if p < 1 {
		p = 1
	}
	if p > 16 {
		p = 16
	}
	mask := (1 << p) - 1
	if bpsOf(p) == 1 {
		for i := range b {
			b[i] = byte(r.Intn(256) & mask)
		}
	} else {
		for i := 0; i+1 < len(b); i += 2 {
			v := r.Intn(65536) & mask
			b[i], b[i+1] = byte(v), byte(v>>8)
		}
	}
	return b
}

func nearMax(p int) int {
	m := ((1 << p) - 1) / 2
	if m > 255 {
		m = 255
	}
	return m
}

// representable evaluates the property's notion on the Go side; class names the first
// violated requirement (used in signatures).
func (a pkgArgs) representable() (bool, string) {
	dim := func(name string, v int) string {
		switch {
		case v <= 0:
			return name + "<=0"
		case v == 65536:
			return name + "=65536"
		case v > 65535:
			return name + ">65535"
		}
		return ""
	}
	if s := dim("width", a.W); s != "" {
		return false, s
	}
	if s := dim("height", a.H); s != "" {
		return false, s
	}
	bps := 1
	switch a.Enc {
	case "baseline":
		if a.C != 1 && a.C != 3 {
			return false, "components"
		}
		if a.X < 1 || a.X > 100 {
			return false, "quality"
		}
	case "extended":
		if a.P != 8 && a.P != 12 {
			return false, "bitdepth"
		}
		if a.P == 12 && a.C != 1 || a.C != 1 && a.C != 3 {
			return false, "components"
		}
		if a.X < 1 || a.X > 100 {
			return false, "quality"
		}
		bps = bpsOf(a.P)
	default:
		if a.C != 1 && a.C != 3 {
			return false, "components"
		}
		if a.P < 2 || a.P > 16 {
			return false, "bitdepth"
		}
		bps = bpsOf(a.P)
		if a.Enc == "lossless" && (a.X < 0 || a.X > 7) {
			return false, "predictor"
		}
		if a.Enc == "jls-near" && (a.X < 0 || a.X > nearMax(a.P)) {
			if a.X >= 0 && a.X <= 255 {
				return false, "near>maxval/2"
			}
			return false, "near"
		}
	}
	if a.Len < a.W*a.H*a.C*bps {
		return false, "short-buffer"
	}
	return true, ""
}

func (a pkgArgs) call(buf []byte) ([]byte, error) {
	switch a.Enc {
	case "baseline":
		return baseline.Encode(buf, a.W, a.H, a.C, a.X)
	case "extended":
		return extended.Encode(buf, a.W, a.H, a.C, a.P, a.X)
	case "lossless":
		return jll.Encode(buf, a.W, a.H, a.C, a.P, a.X)
	case "sv1":
		return lossless14sv1.Encode(buf, a.W, a.H, a.C, a.P)
	case "jls":
		return jlsl.Encode(buf, a.W, a.H, a.C, a.P)
	default:
		return jlsn.Encode(buf, a.W, a.H, a.C, a.P, a.X)
	}
}

// decodeGeometry decodes a returned stream with the matching decoder.
func (a pkgArgs) decodeGeometry(s []byte) (w, h, c, p int, err error) {
	switch a.Enc {
	case "baseline":
		_, w, h, c, err = baseline.Decode(s)
		p = 8
	case "extended":
		_, w, h, c, p, err = extended.Decode(s)
	case "lossless":
		_, w, h, c, p, err = jll.Decode(s)
	case "sv1":
		_, w, h, c, p, err = lossless14sv1.Decode(s)
	case "jls":
		_, w, h, c, p, err = jlsl.Decode(s)
	default:
		_, w, h, c, p, _, err = jlsn.Decode(s)
	}
	return
}

var c17Dims = []int{-1, 0, 1, 2, 32768, 65535, 65536, 65537}
var c17Comps = []int{0, 1, 2, 3, 4, 5}
var c17Depths = []int{0, 1, 2, 7, 8, 9, 12, 13, 16, 17}

func c17Params(enc string, p int) []int {
	switch enc {
	case "baseline", "extended":
		return []int{-1, 0, 1, 100, 101}
	case "lossless":
		return []int{-1, 0, 1, 7, 8}
	case "jls-near":
		m := nearMax(p)
		return []int{-1, 0, 1, m, m + 1, 255, 256}
	}
	return []int{0}
}

func (a pkgArgs) need() int {
	bps := bpsOf(a.P)
	if a.Enc == "baseline" {
		bps = 1
	}
	if bps < 1 {
		bps = 1
	}
	n := a.W * a.H * a.C * bps
	if n < 0 {
		n = 0
	}
	return n
}

func c17Lens(r *Rand, need int) []int {
	ls := []int{-1, 0, need, need + 1}
	if need > 0 {
		ls = append(ls, need-1)
	}
	if need > 2 {
		ls = append(ls, need/2, r.Range(1, need-1))
	}
	return ls
}

// genPkg enumerates the tuples of one encoder: one factor at a time around two valid bases,
// dims x buffer lengths, components x depth, plus random combinations.
func genPkg(r *Rand, enc string, nRandom int) []pkgArgs {
	var out []pkgArgs
	baseP := 8
	baseX := 0
	switch enc {
	case "baseline", "extended":
		baseX = 75
	case "lossless":
		baseX = 1
	case "jls-near":
		baseX = 2
	}
	add := func(a pkgArgs) { a.Enc = enc; a.Seed = r.U64(); out = append(out, a) }
	for _, bc := range []int{1, 3} {
		for _, bp := range []int{8, 12} {
			if enc == "baseline" && bp != 8 {
				continue
			}
			if enc == "extended" && bp == 12 && bc == 3 {
				continue
			}
			base := pkgArgs{W: 3, H: 2, C: bc, P: bp, X: baseX}
			_ = baseP
			// dimensions x lengths (all lengths for the first base and for small sizes; the
			// exact length only for the 3-component / 12-bit bases at the large sizes)
			first := bc == 1 && bp == 8
			for _, d := range c17Dims {
				for _, o := range []int{1, 2} {
					if o == 2 && d > 2 && !first {
						continue
					}
					for _, sw := range []bool{false, true} {
						a := base
						a.W, a.H = d, o
						if sw {
							a.W, a.H = o, d
						}
						ls := c17Lens(r, a.need())
						if d > 2 && (!first || o == 2) {
							ls = []int{a.need(), a.need() - 1}
						}
						for _, l := range ls {
							a.Len = l
							add(a)
						}
					}
				}
			}
			// components, depths, parameter
			for _, c := range c17Comps {
				for _, p := range c17Depths {
					a := base
					a.C, a.P = c, p
					a.Len = a.need()
					add(a)
				}
			}
			for _, p := range c17Depths {
				for _, x := range c17Params(enc, p) {
					a := base
					a.P, a.X = p, x
					a.Len = a.need()
					add(a)
				}
			}
			for _, l := range c17Lens(r, base.need()) {
				a := base
				a.Len = l
				add(a)
			}
		}
	}
	for i := 0; i < nRandom; i++ {
		a := pkgArgs{W: c17Dims[r.Intn(len(c17Dims))], H: r.Pick(1, 2, 3), C: c17Comps[r.Intn(len(c17Comps))],
			P: c17Depths[r.Intn(len(c17Depths))]}
		if r.Bool() {
			a.W, a.H = a.H, a.W
		}
		if r.Intn(3) > 0 {
			a.W, a.H = r.Range(1, 9), r.Range(1, 9)
		}
		ps := c17Params(enc, a.P)
		a.X = ps[r.Intn(len(ps))]
		ls := c17Lens(r, a.need())
		a.Len = ls[r.Intn(len(ls))]
		add(a)
	}
	return out
}

func modelEncName(enc string) string { return enc }

func runC17(c *Ctx) {
	c.R.Rule = "C17: argument tuples (len, w, h, components, bitDepth, quality|predictor|NEAR) of the 6 package-level JPEG/JPEG-LS " +
		"encoders, jpeg2000.Encoder parameter tuples, rle/codec-level FrameInfo x Parameters x frames tuples for the 14 registry " +
		"codecs; dims in {-1,0,1,2,2^15,65535,65536,65537}, components 0..5, depths {0,1,2,7,8,9,12,13,16,17}, every parameter " +
		"at limit-1/limit/limit+1, buffer lengths nil,0,need/2,need-1,need,need+1; non-trivial = distinct tuple evaluated on the " +
		"implementation (error, stream or panic observed)"
	t0 := time.Now()
	var cases []pkgArgs
	if rp := c.ReplayInputs("c17_pkg"); rp != nil {
		for _, raw := range rp {
			var a pkgArgs
			if json.Unmarshal(raw, &a) == nil && a.Enc != "" {
				cases = append(cases, a)
			}
		}
	} else {
		rng := c.Rng.Fork()
		for _, enc := range []string{"baseline", "extended", "lossless", "sv1", "jls", "jls-near"} {
			cases = append(cases, genPkg(rng, enc, c.N(150, 3000))...)
		}
	}
	ParallelFor(len(cases), c.Work, func(i int) {
		a := cases[i]
		// keep the work per accepted call bounded: the encoders are linear in w*h
		buf := a.buffer()
		var out []byte
		var err error
		pn, msg := Safely(func() { out, err = a.call(buf) })
		rep, why := a.representable()
		cls := "valid"
		if !rep {
			cls = why
		}
		c.R.Case("pkg:"+a.String(), true, "c17.pkg."+a.Enc, "c17.class."+cls)
		if i%211 == 0 {
			c.R.Sample(map[string]interface{}{"suite": "c17_pkg", "args": a})
		}
		// correspondence: guards
		if c.HasModel() {
			l := a.Len
			if l < 0 {
				l = 0
			}
			m := c.M.Call("frm_accepts", modelEncName(a.Enc), itoa(l), itoa(a.W), itoa(a.H), itoa(a.C), itoa(a.P), itoa(a.X))
			impl := "1"
			if !pn && err != nil {
				impl = "0"
			}
			r := "0"
			if rep {
				r = "1"
			}
			c.CorrEq("frm_accepts", "frm_accepts:"+a.Enc, m, impl+r, a)
		}
		c.R.Oracle("c17_pkg")
		switch {
		case pn:
			c.R.Fail("oracle", "c17_pkg", "c17:"+a.Enc+":panic:"+cls, "encoder panicked: "+msg, a)
		case err != nil:
			if rep {
				c.R.Count("c17.rejected_representable." + a.Enc)
			}
		default:
			if !rep {
				c.R.Fail("oracle", "c17_pkg", "c17:"+a.Enc+":accepts:"+why,
					fmt.Sprintf("encoder returned a %d-byte stream for unrepresentable arguments (%s)", len(out), why), a)
			}
			var w, h, cc, p int
			var derr error
			if dp, dmsg := Safely(func() { w, h, cc, p, derr = a.decodeGeometry(out) }); dp {
				c.R.Fail("oracle", "c17_pkg", "c17:"+a.Enc+":decode-panic:"+cls, "decoder panicked on the returned stream: "+dmsg, a)
			} else if derr != nil {
				c.R.Fail("oracle", "c17_pkg", "c17:"+a.Enc+":decode-error:"+cls, "returned stream does not decode: "+derr.Error(), a)
			} else if w != a.W || h != a.H || cc != a.C {
				c.R.Fail("oracle", "c17_pkg", "c17:"+a.Enc+":geometry:"+cls,
					fmt.Sprintf("returned stream decodes to %dx%dx%d, requested %dx%dx%d", w, h, cc, a.W, a.H, a.C), a)
			} else if a.Enc != "baseline" && p != a.P {
				c.R.Fail("oracle", "c17_pkg", "c17:"+a.Enc+":geometry-depth:"+cls,
					fmt.Sprintf("returned stream decodes to precision %d, requested %d", p, a.P), a)
			}
		}
	})
	t1 := time.Now()
	c17J2K(c)
	t2 := time.Now()
	c17Codec(c)
	c.R.Note("c17 timing: pkg %v j2k %v codec %v", t1.Sub(t0), t2.Sub(t1), time.Since(t2))
}

// ---------- jpeg2000.Encoder ----------

type j2kArgs struct {
	Len      int    `json:"len"`
	W        int    `json:"w"`
	H        int    `json:"h"`
	C        int    `json:"c"`
	P        int    `json:"p"`
	Levels   int    `json:"levels"`
	CBW      int    `json:"cbw"`
	CBH      int    `json:"cbh"`
	Layers   int    `json:"layers"`
	Prog     int    `json:"prog"`
	TW       int    `json:"tw"`
	TH       int    `json:"th"`
	Quality  int    `json:"quality"`
	Lossless bool   `json:"lossless"`
	NilParam bool   `json:"nil_params"`
	NCQ      int    `json:"custom_quant_steps"` // len(CustomQuantSteps): quality is then unused
	Seed     uint64 `json:"seed"`
}

func (a j2kArgs) String() string { b, _ := json.Marshal(a); return string(b) }

func isPow2In(n int) bool {
	for v := 4; v <= 1024; v *= 2 {
		if n == v {
			return true
		}
	}
	return false
}

func tilesAlong(full, t int) int {
	if t == 0 {
		return 1
	}
	return (full + t - 1) / t
}

func (a j2kArgs) representable() (bool, string) {
	switch {
	case a.W <= 0:
		return false, "width<=0"
	case a.H <= 0:
		return false, "height<=0"
	case a.C < 1 || a.C > 4:
		return false, "components"
	case a.P < 1 || a.P > 16:
		return false, "bitdepth"
	case a.Levels < 0 || a.Levels > 6:
		return false, "levels"
	case !isPow2In(a.CBW) || !isPow2In(a.CBH):
		return false, "codeblock"
	case a.CBW*a.CBH > 4096:
		return false, "codeblock-area>4096"
	case a.Layers < 1 || a.Layers > 65535:
		return false, "layers"
	case a.Prog < 0 || a.Prog > 4:
		return false, "progression"
	case a.TW < 0 || a.TH < 0:
		return false, "tile<0"
	case tilesAlong(a.W, a.TW)*tilesAlong(a.H, a.TH) > 65535:
		return false, "tiles>65535"
	case !a.Lossless && a.NCQ == 0 && (a.Quality < 1 || a.Quality > 100):
		return false, "quality"
	case a.Len < a.W*a.H*a.C*bpsOf(a.P):
		return false, "short-buffer"
	}
	return true, ""
}

func (a j2kArgs) params() *jpeg2000.EncodeParams {
	if a.NilParam {
		return nil
	}
	p := jpeg2000.DefaultEncodeParams(a.W, a.H, a.C, a.P, false)
	p.NumLevels = a.Levels
	p.CodeBlockWidth, p.CodeBlockHeight = a.CBW, a.CBH
	p.NumLayers = a.Layers
	p.ProgressionOrder = uint8(a.Prog)
	p.TileWidth, p.TileHeight = a.TW, a.TH
	p.Lossless = a.Lossless
	p.Quality = a.Quality
	for i := 0; i < a.NCQ; i++ {
		p.CustomQuantSteps = append(p.CustomQuantSteps, 1.0+float64(i)/4)
	}
	return p
}

func genJ2K(r *Rand, nRandom int, thor bool) []j2kArgs {
	var out []j2kArgs
	base := j2kArgs{W: 5, H: 4, C: 1, P: 8, Levels: 2, CBW: 64, CBH: 64, Layers: 1, Quality: 80, Lossless: true}
	need := func(a j2kArgs) int {
		n := a.W * a.H * a.C * bpsOf(a.P)
		if n < 0 {
			return 0
		}
		return n
	}
	add := func(a j2kArgs) { a.Seed = r.U64(); out = append(out, a) }
	for _, bc := range []int{1, 3} {
		b := base
		b.C = bc
		for _, d := range c17Dims {
			for _, sw := range []bool{false, true} {
				a := b
				a.W, a.H = d, 1
				if sw {
					a.W, a.H = 1, d
				}
				for _, l := range c17Lens(r, need(a)) {
					a.Len = l
					add(a)
				}
			}
		}
		for _, c := range c17Comps {
			for _, p := range c17Depths {
				a := b
				a.C, a.P = c, p
				a.Len = need(a)
				add(a)
			}
		}
		for _, lv := range []int{-1, 0, 6, 7} {
			a := b
			a.Levels = lv
			a.Len = need(a)
			add(a)
		}
		cbs := []int{0, 2, 3, 4, 64, 1024, 2048}
		for _, x := range cbs {
			for _, y := range []int{4, 64, 128, 1024} {
				a := b
				a.CBW, a.CBH = x, y
				a.Len = need(a)
				add(a)
				a.CBW, a.CBH = y, x
				add(a)
			}
		}
		for _, ly := range []int{-1, 0, 1, 2, 255, 256} {
			a := b
			a.Layers = ly
			a.Len = need(a)
			add(a)
		}
		if thor {
			for _, ly := range []int{65535, 65536} {
				a := b
				a.W, a.H = 2, 2
				a.Layers = ly
				a.Len = need(a)
				add(a)
			}
		}
		for _, pg := range []int{0, 4, 5, 255} {
			a := b
			a.Prog = pg
			a.Len = need(a)
			add(a)
		}
		for _, q := range []int{-1, 0, 1, 100, 101} {
			a := b
			a.Lossless = false
			a.Quality = q
			a.Len = need(a)
			add(a)
			a.NCQ = 3*a.Levels + 1 // explicit step sizes: the quality value is not used
			add(a)
		}
		for _, t := range [][2]int{{-1, -1}, {-1, 2}, {2, -1}, {0, 0}, {1, 1}, {2, 3}, {5, 4}, {6, 6}, {65536, 65536}} {
			a := b
			a.TW, a.TH = t[0], t[1]
			a.Len = need(a)
			add(a)
		}
		{
			a := b
			a.NilParam = true
			a.Len = need(a)
			add(a)
		}
	}
	// Tile-count limit (Isot is 16 bits: at most 65535 tiles), probed in every tier at 65535 /
	// 65536 / 65540 / 70000 tiles along each axis with half-specified grids (one of
	// TileWidth/TileHeight 0 = whole image in that axis), fully specified grids, and wider
	// tiles; the other dimension is 1..3 so buffers stay small.
	for _, n := range []int{65535, 65536, 65540, 70000} {
		o := r.Range(1, 3)
		grids := [][4]int{
			{n, o, 1, 0},               // half-specified, tiles along x
			{o, n, 0, 1},               // half-specified, tiles along y
			{n, o, 1, o},               // fully specified
			{o, n, o, 1},               // fully specified
			{4*n - r.Intn(4), o, 4, 0}, // 4-wide tiles, height unspecified
			{o, 4*n - r.Intn(4), 0, 4}, // 4-high tiles, width unspecified
		}
		for _, g := range grids {
			a := base
			a.W, a.H, a.TW, a.TH = g[0], g[1], g[2], g[3]
			a.Levels = r.Pick(0, 1, 2)
			a.Len = need(a)
			add(a)
		}
	}
	if thor {
		// more than 65535 tiles: Isot is 16 bits
		a := base
		a.W, a.H, a.TW, a.TH, a.Levels = 257, 256, 1, 1, 0
		a.Len = need(a)
		add(a)
	}
	for i := 0; i < nRandom; i++ {
		a := base
		a.W, a.H = r.Range(1, 9), r.Range(1, 9)
		if r.Intn(4) == 0 {
			a.W = c17Dims[r.Intn(len(c17Dims))]
			a.H = 1
		}
		a.C = c17Comps[r.Intn(len(c17Comps))]
		a.P = c17Depths[r.Intn(len(c17Depths))]
		a.Levels = r.Pick(-1, 0, 1, 5, 6, 7)
		a.CBW, a.CBH = r.Pick(0, 2, 3, 4, 8, 32, 64, 128, 1024, 2048), r.Pick(4, 8, 32, 64, 128, 1024)
		a.Layers = r.Pick(0, 1, 1, 2, 3)
		a.Prog = r.Pick(0, 1, 2, 3, 4, 5)
		a.Lossless = r.Bool()
		a.Quality = r.Pick(-1, 0, 1, 50, 100, 101)
		if r.Intn(3) == 0 {
			a.TW, a.TH = r.Pick(-1, 0, 1, 2, 3), r.Pick(-1, 0, 1, 2, 3)
		}
		ls := c17Lens(r, need(a))
		a.Len = ls[r.Intn(len(ls))]
		add(a)
	}
	return out
}

func c17J2K(c *Ctx) {
	var cases []j2kArgs
	if rp := c.ReplayInputs("c17_j2k"); rp != nil {
		for _, raw := range rp {
			var a j2kArgs
			if json.Unmarshal(raw, &a) == nil && (a.CBW != 0 || a.W != 0 || a.NilParam) {
				cases = append(cases, a)
			}
		}
	} else {
		cases = genJ2K(c.Rng.Fork(), c.N(200, 3000), c.Thor)
	}
	ParallelFor(len(cases), c.Work, func(i int) {
		a := cases[i]
		buf := pkgArgs{Len: a.Len, P: a.P, Seed: a.Seed}.buffer()
		var out []byte
		var err error
		pn, msg := Safely(func() { out, err = jpeg2000.NewEncoder(a.params()).Encode(buf) })
		rep, why := a.representable()
		if a.NilParam {
			rep, why = false, "nil-params"
		}
		cls := "valid"
		if !rep {
			cls = why
		}
		c.R.Case("j2k:"+a.String(), true, "c17.pkg.j2k", "c17.class."+cls)
		if c.HasModel() && !a.NilParam {
			l := a.Len
			if l < 0 {
				l = 0
			}
			ll := "0"
			if a.Lossless {
				ll = "1"
			}
			m := c.M.Call("frm_j2k_accepts", itoa(l), itoa(a.W), itoa(a.H), itoa(a.C), itoa(a.P), itoa(a.Levels), itoa(a.CBW),
				itoa(a.CBH), itoa(a.Layers), itoa(a.Prog), itoa(a.TW), itoa(a.TH), itoa(a.Quality), ll, itoa(a.NCQ))
			impl := "1"
			if !pn && err != nil {
				impl = "0"
			}
			r := "0"
			if rep {
				r = "1"
			}
			c.CorrEq("frm_j2k_accepts", "frm_j2k_accepts", m, impl+r, a)
		}
		c.R.Oracle("c17_j2k")
		switch {
		case pn:
			c.R.Fail("oracle", "c17_j2k", "c17:j2k:panic:"+cls, "encoder panicked: "+msg, a)
		case err != nil:
			if rep {
				c.R.Count("c17.rejected_representable.j2k")
			}
		default:
			if !rep {
				c.R.Fail("oracle", "c17_j2k", "c17:j2k:accepts:"+why,
					fmt.Sprintf("encoder returned a %d-byte stream for unrepresentable arguments (%s)", len(out), why), a)
				if why == "tiles>65535" {
					return // Isot has wrapped; decoding tens of thousands of tile-parts adds nothing
				}
			}
			d := jpeg2000.NewDecoder()
			var derr error
			if dp, dmsg := Safely(func() { derr = d.Decode(out) }); dp {
				c.R.Fail("oracle", "c17_j2k", "c17:j2k:decode-panic:"+cls, "decoder panicked on the returned stream: "+dmsg, a)
			} else if derr != nil {
				c.R.Fail("oracle", "c17_j2k", "c17:j2k:decode-error:"+cls, "returned stream does not decode: "+derr.Error(), a)
			} else if d.Width() != a.W || d.Height() != a.H || d.Components() != a.C || d.BitDepth() != a.P {
				c.R.Fail("oracle", "c17_j2k", "c17:j2k:geometry:"+cls,
					fmt.Sprintf("returned stream decodes to %dx%dx%d P=%d, requested %dx%dx%d P=%d", d.Width(), d.Height(), d.Components(), d.BitDepth(), a.W, a.H, a.C, a.P), a)
			}
		}
	})
}
