package framing

import (
	"encoding/json"
	"fmt"
	"strings"
	"verif/harness/suites/ht"

	rcodec "github.com/cocosip/go-dicom-codecs/codec"
	"github.com/cocosip/go-dicom-codecs/jpeg/baseline"
	"github.com/cocosip/go-dicom-codecs/jpeg/extended"
	jll "github.com/cocosip/go-dicom-codecs/jpeg/lossless"
	"github.com/cocosip/go-dicom-codecs/jpeg/lossless14sv1"
	"github.com/cocosip/go-dicom-codecs/jpeg2000"
	"github.com/cocosip/go-dicom-codecs/jpeg2000/htj2k"
	jlsl "github.com/cocosip/go-dicom-codecs/jpegls/lossless"
	jlsn "github.com/cocosip/go-dicom-codecs/jpegls/nearlossless"
	_ "github.com/cocosip/go-dicom-codecs/rle"
	"github.com/cocosip/go-dicom/pkg/dicom/transfer"
	"github.com/cocosip/go-dicom/pkg/imaging/codec"
	"github.com/cocosip/go-dicom/pkg/imaging/imagetypes"

	"verif/harness/suites/j2ke2e"
	. "verif/harness/vhlib"
)

// c16Case is one encoder call. It is its own replay record (pixels derive from Seed).
type c16Case struct {
	Enc     string `json:"enc"` // encoder family, see c16Families
	W       int    `json:"w"`
	H       int    `json:"h"`
	Comps   int    `json:"comps"`
	P       int    `json:"p"`     // precision given to the encoder (BitsStored at codec level)
	Alloc   int    `json:"alloc"` // BitsAllocated (codec-level encoders only)
	Signed  bool   `json:"signed"`
	Quality int    `json:"quality"`
	Near    int    `json:"near"`
	Pred    int    `json:"pred"`
	Levels  int    `json:"levels"`
	CBW     int    `json:"cbw"`
	CBH     int    `json:"cbh"`
	PW      int    `json:"pw"`
	PH      int    `json:"ph"`
	Prog    int    `json:"prog"`
	Layers  int    `json:"layers"`
	MCT     bool   `json:"mct"`
	TW      int    `json:"tw"`
	TH      int    `json:"th"`
	Planar  int    `json:"planar"`
	Content int    `json:"content"`
	ROI     int    `json:"roi"` // > 0: MaxShift ROI rectangle with this shift (JPEG 2000 families)
	Seed    uint64 `json:"seed"`
}

func (k c16Case) String() string {
	b, _ := json.Marshal(k)
	return string(b)
}

var c16Families = []string{
	"baseline", "extended8", "extended12", "lossless", "sv1", "jls", "jls-near",
	"j2k-rev", "j2k-irr", "j2k-tiled", "j2k-layered", "j2k-prog", "j2k-precinct",
	"htj2k-201", "htj2k-202", "htj2k-203", "htj2k-direct", "rle",
}

func (k c16Case) tiles() int {
	tw, th := k.TW, k.TH
	if tw <= 0 {
		tw = k.W
	}
	if th <= 0 {
		th = k.H
	}
	return ((k.W + tw - 1) / tw) * ((k.H + th - 1) / th)
}

func (k c16Case) bytesPerSample() int {
	switch k.Enc {
	case "htj2k-201", "htj2k-202", "htj2k-203", "rle":
		return (k.Alloc + 7) / 8
	}
	return (k.P + 7) / 8
}

// pixels: noise-heavy content in the encoder's input layout (interleaved, 1 or 2 bytes LE).
func (k c16Case) pixels() []byte {
	r := NewRand(k.Seed)
	lo, hi := 0, (1<<k.P)-1
	if k.Signed {
		lo, hi = -(1 << (k.P - 1)), (1<<(k.P-1))-1
	}
	s := j2ke2e.GenSamples(r, k.W*k.H, k.Comps, lo, hi, k.Content)
	bps := k.bytesPerSample()
	mask := (1 << k.P) - 1
	out := make([]byte, len(s)*bps)
	for i, v := range s {
		u := v & mask
		for b := 0; b < bps; b++ {
			out[i*bps+b] = byte(u >> (8 * b))
		}
	}
	return out
}

func (k c16Case) j2kParams() *jpeg2000.EncodeParams {
	p := jpeg2000.DefaultEncodeParams(k.W, k.H, k.Comps, k.P, k.Signed)
	p.NumLevels = k.Levels
	p.CodeBlockWidth, p.CodeBlockHeight = k.CBW, k.CBH
	p.PrecinctWidth, p.PrecinctHeight = k.PW, k.PH
	p.ProgressionOrder = uint8(k.Prog)
	p.NumLayers = k.Layers
	p.EnableMCT = k.MCT
	p.TileWidth, p.TileHeight = k.TW, k.TH
	p.Lossless = k.Enc != "j2k-irr"
	if k.ROI > 0 {
		rw, rh := (k.W+1)/2, (k.H+1)/2
		p.ROI = &jpeg2000.ROIParams{X0: (k.W - rw) / 2, Y0: (k.H - rh) / 2, Width: rw, Height: rh, Shift: k.ROI}
	}
	if !p.Lossless {
		p.Quality = k.Quality
	}
	if k.Enc == "htj2k-direct" {
		// jpeg2000.EncodeParams with the exported HTJ2K switches (what htj2k.Codec sets), plus tiles
		p.HTJ2KMode = true
		p.ProgressionOrder = 2
		p.BlockEncoderFactory = func(w, h int) jpeg2000.BlockEncoder { return htj2k.NewHTEncoder(w, h) }
	}
	return p
}

var htSyntax = map[string]*transfer.Syntax{
	"htj2k-201": transfer.HTJ2KLossless,
	"htj2k-202": transfer.HTJ2KLosslessRPCL,
	"htj2k-203": transfer.HTJ2K,
	"rle":       transfer.RLELossless,
}

func (k c16Case) frameInfo() *imagetypes.FrameInfo {
	pi := "MONOCHROME2"
	if k.Comps == 3 {
		pi = "RGB"
	}
	pr := uint16(0)
	if k.Signed {
		pr = 1
	}
	return &imagetypes.FrameInfo{Width: uint16(k.W), Height: uint16(k.H), BitsAllocated: uint16(k.Alloc),
		BitsStored: uint16(k.P), HighBit: uint16(k.P - 1), SamplesPerPixel: uint16(k.Comps),
		PixelRepresentation: pr, PlanarConfiguration: uint16(k.Planar), PhotometricInterpretation: pi}
}

// encode runs the encoder of the case.
func (k c16Case) encode(pix []byte) (out []byte, err error) {
	switch k.Enc {
	case "baseline":
		return baseline.Encode(pix, k.W, k.H, k.Comps, k.Quality)
	case "extended8":
		return extended.Encode(pix, k.W, k.H, k.Comps, 8, k.Quality)
	case "extended12":
		return extended.Encode(pix, k.W, k.H, k.Comps, 12, k.Quality)
	case "lossless":
		return jll.Encode(pix, k.W, k.H, k.Comps, k.P, k.Pred)
	case "sv1":
		return lossless14sv1.Encode(pix, k.W, k.H, k.Comps, k.P)
	case "jls":
		return jlsl.Encode(pix, k.W, k.H, k.Comps, k.P)
	case "jls-near":
		return jlsn.Encode(pix, k.W, k.H, k.Comps, k.P, k.Near)
	case "htj2k-201", "htj2k-202", "htj2k-203", "rle":
		c, ok := codec.GetGlobalRegistry().GetCodec(htSyntax[k.Enc])
		if !ok {
			return nil, fmt.Errorf("codec not registered")
		}
		src := rcodec.NewTestPixelData(k.frameInfo())
		_ = src.AddFrame(pix)
		dst := rcodec.NewTestPixelData(k.frameInfo())
		var params codec.Parameters
		if k.Enc != "rle" && k.Levels >= 0 {
			hp := htj2k.NewHTJ2KLosslessParameters()
			if k.Enc == "htj2k-203" {
				hp = htj2k.NewHTJ2KParameters()
				hp.Quality = k.Quality
			}
			hp.NumLevels = k.Levels
			hp.BlockWidth, hp.BlockHeight = k.CBW, k.CBH
			params = hp
		}
		if err := c.Encode(src, dst, params); err != nil {
			return nil, err
		}
		if dst.FrameCount() != 1 {
			return nil, fmt.Errorf("codec returned %d frames for 1", dst.FrameCount())
		}
		return dst.GetFrame(0)
	default:
		return jpeg2000.NewEncoder(k.j2kParams()).Encode(pix)
	}
}

func c16Dims(r *Rand, thor bool, maxPix int, allowHuge bool) (int, int) {
	var w, h int
	switch r.Intn(10) {
	case 0, 1, 2:
		w, h = r.Range(1, 40), r.Range(1, 40)
	case 3, 4:
		w, h = r.Range(256, 300), r.Range(1, 24)
	case 5, 6:
		w, h = r.Range(1, 24), r.Range(256, 300)
	case 7:
		w, h = r.Range(256, 300), r.Range(256, 300)
	case 8:
		w, h = r.Range(1, 150), r.Range(1, 150)
	default:
		if allowHuge && thor {
			if r.Bool() {
				w, h = 65535, 1
			} else {
				w, h = 1, 65535
			}
		} else {
			w, h = r.Pick(255, 256, 257, 511, 512, 513), r.Range(1, 9)
			if r.Bool() {
				w, h = h, w
			}
		}
	}
	for w*h > maxPix {
		if w > h {
			w = (w + 1) / 2
		} else {
			h = (h + 1) / 2
		}
	}
	return w, h
}

func pow2r(r *Rand, lo, hi int) int { return 1 << r.Range(lo, hi) }

// genC16 draws one case of family fam.
func genC16(r *Rand, fam string, thor bool) c16Case {
	k := c16Case{Enc: fam, Seed: r.U64(), Levels: -1}
	k.Content = r.Pick(0, 0, 0, 0, 1, 1, 2, 4, 5, 3)
	maxPix := 90000
	if !thor {
		maxPix = 30000
	}
	switch fam {
	case "baseline", "extended8":
		k.W, k.H = c16Dims(r, thor, maxPix, true)
		k.Comps, k.P = r.Pick(1, 3), 8
		k.Quality = r.Pick(1, 2, 10, 50, 75, 90, 99, 100)
	case "extended12":
		k.W, k.H = c16Dims(r, thor, maxPix, true)
		k.Comps, k.P = 1, 12
		k.Quality = r.Pick(1, 5, 9, 16, 21, 50, 90, 100)
	case "lossless", "sv1":
		k.W, k.H = c16Dims(r, thor, maxPix, true)
		k.Comps, k.P = r.Pick(1, 1, 3), r.Range(2, 16)
		k.Pred = r.Range(0, 7)
	case "jls", "jls-near":
		k.W, k.H = c16Dims(r, thor, maxPix, true)
		k.Comps, k.P = r.Pick(1, 1, 3), r.Range(2, 16)
		if fam == "jls-near" {
			mv := (1 << k.P) - 1
			mx := mv / 2
			if mx > 255 {
				mx = 255
			}
			k.Near = r.Pick(0, 1, 1, 2, 3, 5, 10, mx, mx/2+1)
			if k.Near > mx {
				k.Near = mx
			}
		}
	case "rle":
		k.W, k.H = c16Dims(r, thor, maxPix, true)
		k.Comps = r.Pick(1, 1, 3)
		k.Alloc = r.Pick(8, 16, 16, 32)
		k.P = k.Alloc
		if k.Alloc == 16 {
			k.P = r.Range(9, 16)
		}
		if k.Alloc == 32 {
			k.P = 16 // samples stay 16-bit wide, container 4 bytes
		}
		if k.Comps == 3 {
			k.Planar = r.Intn(2)
		}
	case "htj2k-201", "htj2k-202", "htj2k-203":
		k.W, k.H = c16Dims(r, thor, maxPix/2, false)
		k.Comps = r.Pick(1, 1, 3)
		k.Alloc = r.Pick(8, 16)
		if k.Alloc == 8 {
			k.P = r.Pick(8, 8, 8, 7, 2)
		} else {
			k.P = r.Pick(16, 16, 12, 10, 15, 9)
		}
		k.Signed = r.Intn(4) == 0
		k.Quality = r.Pick(1, 50, 80, 100)
		k.CBW, k.CBH = 64, 64
		if r.Intn(3) == 0 {
			k.Levels = r.Range(0, 6)
			k.CBW, k.CBH = pow2r(r, 2, 6), pow2r(r, 2, 6)
		} else {
			k.Levels = -1 // nil parameters
		}
	default: // jpeg2000.Encoder families
		k.W, k.H = c16Dims(r, thor, maxPix/2, false)
		k.Comps = r.Range(1, 4)
		k.P = r.Range(1, 16)
		k.Signed = r.Intn(3) == 0
		k.Levels = r.Range(0, 6)
		k.CBW, k.CBH = pow2r(r, 2, 6), pow2r(r, 2, 6)
		k.Layers = 1
		k.MCT = r.Bool()
		k.Quality = r.Pick(1, 20, 50, 80, 95, 100)
		switch fam {
		case "htj2k-direct":
			k.Signed = false
			k.P = r.Pick(8, 8, 12, 16)
			k.Prog = 2
			nx, ny := r.Range(1, 4), r.Range(1, 4)
			if k.W < nx {
				k.W = nx + r.Intn(20)
			}
			if k.H < ny {
				k.H = ny + r.Intn(20)
			}
			k.TW, k.TH = (k.W+nx-1)/nx, (k.H+ny-1)/ny
		case "j2k-tiled":
			// tile grids up to 64 tiles; sometimes several layers (the global rate-allocation
			// tile writer is a different code path from the single-layer one)
			k.Layers = r.Pick(1, 1, 2, 3)
			nx, ny := r.Range(1, 8), r.Range(1, 8)
			if r.Intn(4) == 0 {
				nx, ny = 8, 8
			}
			if k.W < nx {
				k.W = nx + r.Intn(20)
			}
			if k.H < ny {
				k.H = ny + r.Intn(20)
			}
			k.TW, k.TH = (k.W+nx-1)/nx, (k.H+ny-1)/ny
			// strip tiling: only one tile dimension given, the other defaults to the image size
			switch r.Intn(6) {
			case 0:
				k.TW = 0
			case 1:
				k.TH = 0
			}
		case "j2k-layered":
			k.Layers = r.Range(2, 6)
		case "j2k-prog":
			k.Prog = r.Range(0, 4)
			k.Layers = r.Pick(1, 2, 3)
			if r.Bool() {
				k.PW, k.PH = r.Pick(32, 64, 128), r.Pick(32, 64, 128)
			}
		case "j2k-precinct":
			k.PW, k.PH = r.Pick(32, 64, 128, 256), r.Pick(32, 64, 128, 256)
			k.Prog = r.Range(0, 4)
		}
	}
	if strings.HasPrefix(fam, "j2k") && r.Intn(4) == 0 && k.W >= 2 && k.H >= 2 {
		k.ROI = r.Range(1, 5) // region of interest: RGN in the main / tile-part headers
	}
	return k
}

func hexOf(b []byte) string { return Hex(b) }

// c16Check feeds one emitted stream to the walker and compares the declared header with the
// arguments. Returns the list of (signature suffix, description) violations.
func c16Check(c *Ctx, k c16Case, stream []byte) [][2]string {
	var bad [][2]string
	add := func(sig, what string) { bad = append(bad, [2]string{sig, what}) }
	switch k.Enc {
	case "baseline", "extended8", "extended12", "lossless", "sv1":
		rep := c.M.Call("frm_jpeg", hexOf(stream))
		m, ok := fields(rep)
		if !ok {
			add(badReason(rep), "walker: "+rep)
			return bad
		}
		if fint(m, "x") != k.W {
			add("header:width", fmt.Sprintf("SOF declares X=%s for width %d", m["x"], k.W))
		}
		if fint(m, "y") != k.H {
			add("header:height", fmt.Sprintf("SOF declares Y=%s for height %d", m["y"], k.H))
		}
		if fint(m, "nf") != k.Comps {
			add("header:components", fmt.Sprintf("SOF declares Nf=%s for %d components", m["nf"], k.Comps))
		}
		if fint(m, "p") != k.P {
			add("header:precision", fmt.Sprintf("SOF declares P=%s for precision %d", m["p"], k.P))
		}
		if k.Enc == "lossless" || k.Enc == "sv1" {
			if fint(m, "sof") != 3 {
				add("header:sof", "lossless stream with SOF"+m["sof"])
			}
			want := k.Pred
			if k.Enc == "sv1" {
				want = 1
			}
			for _, sc := range strings.Split(m["scans"], "|") {
				f := strings.Split(sc, ":")
				if len(f) != 5 {
					add("header:scan", "unparsable scan "+sc)
					continue
				}
				if want != 0 && f[1] != itoa(want) {
					add("header:predictor", fmt.Sprintf("SOS declares Ss=%s for predictor %d", f[1], want))
				}
				if f[4] != "0" {
					add("header:point-transform", "SOS declares Al="+f[4])
				}
			}
		}
	case "jls", "jls-near":
		rep := c.M.Call("frm_jls", hexOf(stream))
		m, ok := fields(rep)
		if !ok {
			add(badReason(rep), "walker: "+rep)
			return bad
		}
		if fint(m, "x") != k.W {
			add("header:width", fmt.Sprintf("SOF55 declares X=%s for width %d", m["x"], k.W))
		}
		if fint(m, "y") != k.H {
			add("header:height", fmt.Sprintf("SOF55 declares Y=%s for height %d", m["y"], k.H))
		}
		if fint(m, "nf") != k.Comps {
			add("header:components", fmt.Sprintf("SOF55 declares Nf=%s for %d components", m["nf"], k.Comps))
		}
		if fint(m, "p") != k.P {
			add("header:precision", fmt.Sprintf("SOF55 declares P=%s for precision %d", m["p"], k.P))
		}
		for _, sc := range strings.Split(m["scans"], "|") {
			f := strings.Split(sc, ":")
			if len(f) != 4 {
				add("header:scan", "unparsable scan "+sc)
				continue
			}
			if f[1] != itoa(k.Near) {
				add("header:near", fmt.Sprintf("SOS declares NEAR=%s for NEAR %d", f[1], k.Near))
			}
			if f[3] != "0" {
				add("header:point-transform", "SOS declares Al="+f[3])
			}
		}
	case "rle":
		planes := k.Comps * ((k.Alloc + 7) / 8)
		rep := c.M.Call("rle_valid", itoa(planes), hexOf(stream))
		if rep == "?" {
			c.R.Count("c16.rle.no_rle_ops_in_model")
			return bad
		}
		if rep != "1" {
			add("annexG-header", "RLE header/offset table violates PS3.5 G.4/G.5: "+rep)
			return bad
		}
		segs := strings.Split(c.M.Call("rle_segments", itoa(planes), hexOf(stream)), ";")
		if len(segs) != planes {
			add("segments", fmt.Sprintf("%d segments for %d planes", len(segs), planes))
			return bad
		}
		for i, s := range segs {
			d := c.M.Call("rle_packbits_n", itoa(k.W*k.H), s)
			if !strings.HasPrefix(d, "ok:") || len(UnHex(d[3:])) != k.W*k.H {
				add("segment-length", fmt.Sprintf("segment %d does not decode to exactly rows*cols=%d bytes: %.40s", i, k.W*k.H, d))
			}
		}
	default:
		rep := c.M.Call("frm_j2k", hexOf(stream))
		m, ok := fields(rep)
		if !ok {
			add(badReason(rep), "walker: "+rep)
			return bad
		}
		if fint(m, "xsiz")-fint(m, "xosiz") != k.W {
			add("header:width", fmt.Sprintf("SIZ declares Xsiz-XOsiz=%d for width %d", fint(m, "xsiz")-fint(m, "xosiz"), k.W))
		}
		if fint(m, "ysiz")-fint(m, "yosiz") != k.H {
			add("header:height", fmt.Sprintf("SIZ declares Ysiz-YOsiz=%d for height %d", fint(m, "ysiz")-fint(m, "yosiz"), k.H))
		}
		if fint(m, "csiz") != k.Comps {
			add("header:components", fmt.Sprintf("SIZ declares Csiz=%s for %d components", m["csiz"], k.Comps))
		}
		ssiz := k.P - 1
		if k.Signed {
			ssiz |= 0x80
		}
		for _, cs := range strings.Split(m["comps"], ",") {
			f := strings.Split(cs, "/")
			if len(f) != 3 {
				add("header:comps", "unparsable "+cs)
				continue
			}
			if f[0] != itoa(ssiz) {
				got := 0
				fmt.Sscan(f[0], &got)
				if got&0x7f != ssiz&0x7f {
					add("header:precision", fmt.Sprintf("SIZ declares Ssiz=%s (depth %d) for precision %d", f[0], got&0x7f+1, k.P))
				}
				if got&0x80 != ssiz&0x80 {
					add("header:signedness", fmt.Sprintf("SIZ declares Ssiz=%s for signed=%v", f[0], k.Signed))
				}
			}
			if f[1] != "1" || f[2] != "1" {
				add("header:subsampling", "SIZ declares XRsiz/YRsiz "+f[1]+"/"+f[2])
			}
		}
		ht := strings.HasPrefix(k.Enc, "htj2k") && k.Enc != "htj2k-direct"
		lossless := k.Enc != "j2k-irr" && k.Enc != "htj2k-203"
		wantT := 0
		if lossless {
			wantT = 1
		}
		if fint(m, "transform") != wantT {
			add("header:transform", fmt.Sprintf("COD declares transformation %s for lossless=%v", m["transform"], lossless))
		}
		tw, th := k.TW, k.TH
		if tw == 0 {
			tw = k.W
		}
		if th == 0 {
			th = k.H
		}
		nt := ((k.W + tw - 1) / tw) * ((k.H + th - 1) / th)
		if fint(m, "ntiles") != nt {
			add("header:tiles", fmt.Sprintf("SIZ declares %s tiles for %d", m["ntiles"], nt))
		}
		if !ht {
			if fint(m, "levels") != k.Levels {
				add("header:levels", fmt.Sprintf("COD declares %s levels for %d", m["levels"], k.Levels))
			}
			if fint(m, "layers") != k.Layers {
				add("header:layers", fmt.Sprintf("COD declares %s layers for %d", m["layers"], k.Layers))
			}
			if fint(m, "prog") != k.Prog {
				add("header:progression", fmt.Sprintf("COD declares progression %s for %d", m["prog"], k.Prog))
			}
		} else if k.Levels >= 0 && fint(m, "levels") > k.Levels {
			add("header:levels", fmt.Sprintf("COD declares %s levels for at most %d", m["levels"], k.Levels))
		}
		if k.CBW > 0 && (1<<fint(m, "xcb") != k.CBW || 1<<fint(m, "ycb") != k.CBH) {
			add("header:codeblock", fmt.Sprintf("COD declares code-block 2^%s x 2^%s for %dx%d", m["xcb"], m["ycb"], k.CBW, k.CBH))
		}
		if strings.HasPrefix(k.Enc, "htj2k") && fint(m, "tlm") != 1 {
			c.R.Count("c16.htj2k.no_tlm")
		}
	}
	return bad
}

func runC16(c *Ctx) {
	c.R.Rule = "C16: every encoder (18 families: baseline, extended 8/12, lossless pred 0..7, SV1, JPEG-LS, JPEG-LS near, " +
		"JPEG 2000 reversible/irreversible/tiled<=64 incl. strip tiling (one tile dimension 0)/layered/5 progressions/precincts, HTJ2K .201/.202/.203 and tiled through EncodeParams, RLE) on " +
		"noise-heavy images (60% noise/extremes), widths/heights 1..300, 256..513 and (thorough) 65535x1, 1x65535; " +
		"non-trivial = the encoder returned a stream of >= 20 bytes that reached the walker; distinct by full argument tuple"
	if !c.HasModel() {
		c.R.Note("C16: no model: the walkers ARE the oracle, nothing evaluated")
	}
	c16Corr(c)
	var cases []c16Case
	if rp := c.ReplayInputs("c16"); rp != nil {
		for _, raw := range rp {
			var k c16Case
			if json.Unmarshal(raw, &k) == nil && k.Enc != "" {
				cases = append(cases, k)
			}
		}
	} else {
		rng := c.Rng.Fork()
		per := c.N(36, 220)
		for _, fam := range c16Families {
			n := per
			if strings.HasPrefix(fam, "j2k") || strings.HasPrefix(fam, "htj2k") {
				n = c.N(30, 160)
			}
			for i := 0; i < n; i++ {
				cases = append(cases, genC16(rng, fam, c.Thor))
			}
		}
		// fixed boundary cases: both bytes of the 16-bit size fields, 65535
		for _, fam := range []string{"baseline", "extended12", "lossless", "sv1", "jls", "jls-near", "rle"} {
			for _, d := range [][2]int{{65535, 1}, {1, 65535}, {256, 1}, {1, 256}, {257, 2}, {511, 1}} {
				if !c.Thor && d[0]*d[1] > 60000 && (fam != "baseline" && fam != "jls" && fam != "lossless") {
					continue
				}
				k := genC16(rng, fam, c.Thor)
				k.W, k.H, k.Content = d[0], d[1], 0
				if fam == "lossless" {
					k.Pred = 1 + rng.Intn(7)
				}
				cases = append(cases, k)
			}
		}
		for _, fam := range []string{"j2k-rev", "j2k-irr", "htj2k-201"} {
			for _, d := range [][2]int{{65535, 1}, {1, 65535}, {4096, 3}} {
				if !c.Thor && d[0]*d[1] > 60000 {
					continue
				}
				k := genC16(rng, fam, c.Thor)
				k.W, k.H, k.Content = d[0], d[1], 0
				k.TW, k.TH = 0, 0
				cases = append(cases, k)
			}
		}
	}
	if c.Thor && c.ReplayInputs("c16") == nil {
		// more tile-parts than one TLM segment can list (Ltlm is 16 bits: 10921 entries)
		k := genC16(c.Rng.Fork(), "htj2k-direct", true)
		k.W, k.H, k.TW, k.TH, k.Levels, k.Comps, k.P, k.Content = 106, 106, 1, 1, 0, 1, 8, 0
		cases = append(cases, k)
	}
	c16HTFusionFrames(c)
	ParallelFor(len(cases), c.Work, func(i int) {
		k := cases[i]
		pix := k.pixels()
		var out []byte
		var err error
		p, msg := Safely(func() { out, err = k.encode(pix) })
		key := k.String()
		reached := !p && err == nil && len(out) >= 20 && c.HasModel()
		c.R.Case(key, reached, "c16.enc."+k.Enc, "c16.dim."+dimBucket(k.W, k.H), "c16.content."+itoa(k.Content))
		if i%97 == 0 {
			c.R.Sample(map[string]interface{}{"suite": "c16", "case": k})
		}
		if p {
			c.R.Oracle("c16")
			c.R.Fail("oracle", "c16", "c16:"+k.Enc+":encode-panic", "encoder panicked on an in-domain input: "+msg, k)
			return
		}
		if err != nil {
			// not a C16 matter (nothing emitted) but an in-domain rejection is worth seeing
			c.R.Count("c16.encode_error." + k.Enc)
			c.R.Note("c16: %s rejected in-domain input %s: %v", k.Enc, key, err)
			return
		}
		c.R.Count("c16.stream." + sizeBucket(len(out)))
		ff := 0
		for _, b := range out {
			if b == 0xff {
				ff++
			}
		}
		if ff > 8 {
			c.R.Count("c16.streams_with_>8_FF")
		}
		if !c.HasModel() {
			c.R.Count("corr_skipped_no_model")
			return
		}
		viol := c16Check(c, k, out)
		if k.Enc == "htj2k-direct" && k.tiles() > 64 {
			// outside C16's quantifier (tile counts up to 64): kept as an observation only.
			// More than 10921 tile-parts do not fit one TLM segment (Ltlm is 16 bits).
			for _, b := range viol {
				c.R.Count("c16.beyond_quantifier.htj2k-direct:" + b[0])
				c.R.Note("c16 (outside the quantifier, %d tiles): htj2k-direct %s: %s", k.tiles(), b[0], b[1])
			}
			return
		}
		c.R.Oracle("c16")
		for _, b := range viol {
			c.R.Fail("oracle", "c16", "c16:"+k.Enc+":"+b[0], b[1], k)
		}
		if len(viol) == 0 && i%3 == 0 && k.Enc != "rle" {
			c16Sensitivity(c, k, out)
		}
	})
}

// c16Sensitivity: the walker must REJECT streams that are ill-formed by construction (so that
// an accepting walker means something): one byte appended after the end marker, the last byte
// dropped, the first segment's length field off by one, a marker code planted in the
// entropy-coded / tile data just before the end marker, Psot of the first tile-part off by
// one. A mutant that is accepted is reported as a correspondence failure of the model.
func c16Sensitivity(c *Ctx, k c16Case, s []byte) {
	op := "frm_j2k"
	switch k.Enc {
	case "baseline", "extended8", "extended12", "lossless", "sv1":
		op = "frm_jpeg"
	case "jls", "jls-near":
		op = "frm_jls"
	}
	type mut struct {
		name string
		b    []byte
	}
	cp := func() []byte { return append([]byte(nil), s...) }
	var ms []mut
	ms = append(ms, mut{"append-byte", append(cp(), 0)})
	ms = append(ms, mut{"drop-last", cp()[:len(s)-1]})
	if op != "frm_j2k" {
		m := cp()
		m[5]++ // low byte of the first segment's length
		ms = append(ms, mut{"seglen+1", m})
		m = cp()
		m[len(m)-4], m[len(m)-3] = 0xff, 0x01
		if op == "frm_jls" {
			m[len(m)-3] = 0x80
		}
		ms = append(ms, mut{"marker-in-scan", m})
	} else {
		m := cp()
		m[len(m)-4], m[len(m)-3] = 0xff, 0x95
		ms = append(ms, mut{"marker-in-tile", m})
		// first SOT: Psot + 1
		for i := 0; i+12 < len(s); i++ {
			if s[i] == 0xff && s[i+1] == 0x90 && s[i+2] == 0 && s[i+3] == 10 {
				m = cp()
				m[i+9]++
				ms = append(ms, mut{"psot+1", m})
				m = cp()
				m[i+3] = 11
				ms = append(ms, mut{"lsot=11", m})
				break
			}
		}
		m = cp()
		m[5]++ // Lsiz low byte
		ms = append(ms, mut{"lsiz+1", m})
	}
	for _, mu := range ms {
		rep := c.M.Call(op, hexOf(mu.b))
		c.R.Corr("walker_rejects_mutant")
		c.R.Count("c16.mutant." + mu.name)
		if len(rep) >= 3 && rep[:3] == "ok:" {
			c.R.Fail("corr", "walker_rejects_mutant", "walker-accepts:"+op+":"+mu.name,
				"the walker accepts a stream that is ill-formed by construction", map[string]interface{}{"case": k, "mutation": mu.name})
		} else {
			c.R.Count("c16.mutant_reason." + badReason(rep))
		}
	}
}

// c16HTFusionFrames runs the J2K walker over small HTJ2K frames whose single code-block is one
// of the HT suite's corpus blocks where the last MEL byte and the last VLC byte of the
// cleanup segment combine to 0xFF (the one junction of the HT block coder where a marker
// code could appear in packet data; about one random sparse block in 2000 reaches it).
func c16HTFusionFrames(c *Ctx) {
	if !c.HasModel() || c.ReplayInputs("c16") != nil {
		return
	}
	frames := ht.FusionCorpusFrames()
	n := 0
	for _, f := range frames {
		for _, ts := range []string{"201", "202"} {
			var cs []byte
			var err error
			key := "htfusion:" + f.Name + ":" + ts
			p, msg := Safely(func() { cs, err = f.Codestream(ts) })
			c.R.Case(key, !p && err == nil && len(cs) >= 20, "c16.enc.htj2k-fusion-"+ts)
			if p {
				c.R.Oracle("c16")
				c.R.Fail("oracle", "c16", "c16:htj2k-"+ts+":encode-panic", "encoder panicked on an in-domain input: "+msg, map[string]interface{}{"frame": f.Name, "ts": ts})
				continue
			}
			if err != nil {
				c.R.Count("c16.encode_error.htj2k-fusion-" + ts)
				continue
			}
			n++
			c.R.Oracle("c16")
			rep := c.M.Call("frm_j2k", hexOf(cs))
			if _, ok := fields(rep); !ok {
				c.R.Fail("oracle", "c16", "c16:htj2k-"+ts+":"+badReason(rep), "walker: "+rep+" (frame "+f.Name+")", map[string]interface{}{"frame": f.Name, "ts": ts, "stream": hexOf(cs)})
			}
		}
	}
	c.R.Note("c16: %d HTJ2K codestreams of MEL/VLC-fusion corpus frames walked", n)
}
