package framing

import (
	"bytes"
	"fmt"
	"strings"

	"github.com/cocosip/go-dicom-codecs/jpeg/baseline"
	"github.com/cocosip/go-dicom-codecs/jpeg/extended"
	jll "github.com/cocosip/go-dicom-codecs/jpeg/lossless"
	"github.com/cocosip/go-dicom-codecs/jpeg/lossless14sv1"
	"github.com/cocosip/go-dicom-codecs/jpeg/standard"
	jlsl "github.com/cocosip/go-dicom-codecs/jpegls/lossless"
	jlsn "github.com/cocosip/go-dicom-codecs/jpegls/nearlossless"

	. "verif/harness/vhlib"
)

// findSegment walks the marker segments of a JPEG / JPEG-LS stream (Go side, by length
// fields) and returns the payload of the first segment with the given marker code.
func findSegment(s []byte, code byte) []byte {
	i := 2
	for i+4 <= len(s) && s[i] == 0xff {
		l := int(s[i+2])<<8 | int(s[i+3])
		if s[i+1] == code {
			if i+2+l > len(s) || l < 2 {
				return nil
			}
			return s[i+4 : i+2+l]
		}
		if s[i+1] == 0xda {
			return nil
		}
		i += 2 + l
	}
	return nil
}

// c16Corr ties the writer models of coq/Framing/FrmWriters.v to the Go code.
func c16Corr(c *Ctx) {
	if !c.HasModel() {
		return
	}
	rng := c.Rng.Fork()
	// 1. standard.Writer.WriteSegment: any marker, payload lengths incl. the uint16 wrap
	nSeg := c.N(120, 1200)
	for i := 0; i < nSeg; i++ {
		marker := 0xff00 | rng.Intn(256)
		if rng.Intn(8) == 0 {
			marker = rng.Intn(65536)
		}
		n := rng.Range(0, 300)
		switch rng.Intn(12) {
		case 0:
			n = rng.Pick(65533, 65534, 65535, 65536, 65600)
		case 1:
			n = rng.Pick(0, 1, 253, 254, 255, 256, 257)
		}
		data := make([]byte, n)
		for j := range data {
			data[j] = byte(rng.Intn(256))
			if rng.Intn(5) == 0 {
				data[j] = 0xff
			}
		}
		var buf bytes.Buffer
		err := standard.NewWriter(&buf).WriteSegment(uint16(marker), data)
		impl := Hex(buf.Bytes())
		if err != nil {
			impl = "err"
		}
		c.R.Case(fmt.Sprintf("seg:%d:%s", marker, Hex(data)), true, "c16corr.segment")
		c.CorrEq("frm_write_segment", "frm_write_segment", c.M.Call("frm_write_segment", itoa(marker), Hex(data)), impl,
			map[string]interface{}{"marker": marker, "len": n})
	}
	// 2. standard.HuffmanEncoder: WriteBits / Flush on random (bits, n) with many all-ones
	nH := c.N(300, 3000)
	for i := 0; i < nH; i++ {
		k := rng.Range(0, 60)
		ops := make([]int, 0, 2*k)
		var buf bytes.Buffer
		he := standard.NewHuffmanEncoder(&buf)
		for j := 0; j < k; j++ {
			n := rng.Range(0, 16)
			if rng.Intn(10) == 0 {
				n = rng.Range(17, 25) // still loss-free for nBits <= 7
			}
			var bits uint32
			switch rng.Intn(3) {
			case 0:
				bits = 0xffffffff
			case 1:
				bits = uint32(rng.U64())
			default:
				bits = uint32(rng.U64()) | 0xff
			}
			_ = he.WriteBits(bits, n)
			ops = append(ops, int(bits), n)
		}
		_ = he.Flush()
		c.R.Case("huff:"+Ints(ops), k > 0, "c16corr.huff")
		c.CorrEq("frm_huff", "frm_huff", c.M.Call("frm_huff", Ints(ops)), Hex(buf.Bytes()), map[string]interface{}{"ops": ops})
	}
	// 3. frame header payloads as written by the encoders (incl. sizes beyond 16 bits, which
	//    the unfixed encoders accept) vs the header writer models
	dims := []int{1, 2, 255, 256, 257, 4095, 65535, 65536, 65537}
	for _, d := range dims {
		for _, swap := range []bool{false, true} {
			w, h := d, 1+rng.Intn(2)
			if swap {
				w, h = h, w
			}
			for _, nc := range []int{1, 3} {
				type e struct {
					kind, name string
					code       byte
					p          int
					enc        func([]byte) ([]byte, error)
				}
				p16 := rng.Range(9, 16)
				p8 := rng.Range(2, 8)
				encs := []e{
					{"baseline", "baseline", 0xc0, 8, func(b []byte) ([]byte, error) { return baseline.Encode(b, w, h, nc, 75) }},
					{"lossless", "lossless", 0xc3, p8, func(b []byte) ([]byte, error) { return jll.Encode(b, w, h, nc, p8, 1) }},
					{"lossless", "sv1", 0xc3, p16, func(b []byte) ([]byte, error) { return lossless14sv1.Encode(b, w, h, nc, p16) }},
					{"lossless", "jls", 0xf7, p8, func(b []byte) ([]byte, error) { return jlsl.Encode(b, w, h, nc, p8) }},
					{"lossless", "jls-near", 0xf7, p16, func(b []byte) ([]byte, error) { return jlsn.Encode(b, w, h, nc, p16, 2) }},
				}
				if nc == 1 {
					encs = append(encs, e{"seq12", "extended12", 0xc1, 12, func(b []byte) ([]byte, error) { return extended.Encode(b, w, h, 1, 12, 75) }})
				}
				for _, en := range encs {
					pix := make([]byte, w*h*nc*((en.p+7)/8))
					var out []byte
					var err error
					if pn, _ := Safely(func() { out, err = en.enc(pix) }); pn || err != nil {
						c.R.Count("c16corr.sof.encoder_rejected_or_panicked")
						continue
					}
					pay := findSegment(out, en.code)
					c.R.Case(fmt.Sprintf("sof:%s:%d:%d:%d", en.name, w, h, nc), true, "c16corr.sof")
					c.CorrEq("frm_sof", "frm_sof:"+en.name, c.M.Call("frm_sof", en.kind, itoa(en.p), itoa(h), itoa(w), itoa(nc)), Hex(pay),
						map[string]interface{}{"enc": en.name, "w": w, "h": h, "nc": nc, "p": en.p})
				}
			}
		}
	}
	_ = strings.TrimSpace
}
