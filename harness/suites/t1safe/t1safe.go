// Package t1safe: the EBCOT tier-1 block DECODER (jpeg2000/t1/decoder.go) on ARBITRARY input,
// properties C08 (no panic) and C09 (returns, bounded work), against the panic-explicit model
// coq/T1Safe/T1sModel.v (MQ decisions abstracted as an oracle bit list).
//
//	t1safe_nopanic  ORACLE (C08) on Go alone: NewT1Decoder + SetOrientation + Decode* (+ GetData when
//	                err == nil) does not panic
//	t1safe_returns  ORACLE (C09) on Go alone: the same call runs to completion (under Safely)
//	t1safe_class    correspondence: outcome class ok / err / panic of the model == Go, asked TWICE
//	                with two oracle bit lists (all-zero, ~600 pseudo-random bits): the class must
//	                not depend on the MQ decisions
//	t1safe_work     (C09) the model's work counter obeys
//	                work <= (npasses+1) * (16*w*h + 2*(w+2)*(h+2) + 8)   when roishift == 0
//	                (npasses = len(lens) for the layered call, max(numPasses,0) for the bitplane call;
//	                the +1 is GetData. The bound without +1 fails for npasses = 0: GetData ticks w*h.)
//
// Entry points (model op / Go call):
//
//	layered   t1s_layered   DecodeLayeredWithMode(data, lens, maxbp, roishift, useT, lossless)
//	bitplane  t1s_bitplane  DecodeWithBitplane(data, numPasses, maxbp, roishift)
//	block     t1s_block     the dispatch of t2/tile_decoder.go decodeCodeBlock: layered when
//	                        len(lens) > 0 (roishift 0, lossless = style&2 != 0) else bitplane
//
// NOT generated: roishift > 0 together with maxbp - roishift > 5000. The Go pass loop then skips
// one bit-plane per iteration, each with a sweep over the flags array (decoder.go 133-148 /
// 255-270): 2^40 sweeps for maxbp = 1<<40 would not finish in the harness. The case is replaced
// by roishift = 0 and counted in the distribution bucket t1safe.roi_clamped.
package t1safe

import (
	"encoding/json"
	"fmt"
	"strconv"
	"strings"

	"github.com/cocosip/go-dicom-codecs/jpeg2000/t1"
	. "verif/harness/vhlib"
)

// Register adds this area's suites.
func Register(s Suites) {
	s.Add("C08", runC08)
	s.Add("C09", runC09)
}

// Case is one decoder invocation (JSON: replayable).
type Case struct {
	Entry     string `json:"entry"` // layered | bitplane | block
	W         int    `json:"w"`
	H         int    `json:"h"`
	Orient    int    `json:"orient"`
	Style     int    `json:"style"`
	Data      string `json:"data"` // hex, "_" = empty
	Lens      []int  `json:"lens"`
	NumPasses int    `json:"numPasses"`
	Maxbp     int    `json:"maxbp"`
	Roishift  int    `json:"roishift"`
	UseT      bool   `json:"useT"`
	Lossless  bool   `json:"lossless"`
	Mut       string `json:"mut"` // class of the generator / mutation
}

func (k Case) String() string {
	return fmt.Sprintf("entry=%s w=%d h=%d orient=%d style=%d data=%s lens=%s numPasses=%d maxbp=%d roishift=%d useT=%s lossless=%s mut=%s",
		k.Entry, k.W, k.H, k.Orient, k.Style, k.Data, Ints(k.Lens), k.NumPasses, k.Maxbp, k.Roishift, b01(k.UseT), b01(k.Lossless), k.Mut)
}

func b01(b bool) string {
	if b {
		return "1"
	}
	return "0"
}

var fixedSizes = [][2]int{{1, 1}, {1, 64}, {64, 1}, {3, 5}, {4, 4}, {17, 33}, {64, 64}, {1024, 4}, {4, 1024},
	{2, 2}, {1, 4}, {4, 1}, {5, 5}, {8, 3}, {16, 16}, {32, 32}, {1, 5}, {3, 7}}

var smallSizes = [][2]int{{1, 1}, {1, 4}, {4, 1}, {2, 2}, {3, 5}, {4, 4}, {1, 5}, {5, 3}, {8, 3}, {2, 9}}

func pickSize(rng *Rand, i int) (int, int) {
	if i < 2*len(fixedSizes) {
		s := fixedSizes[i%len(fixedSizes)]
		return s[0], s[1]
	}
	r := rng.Intn(100)
	switch {
	case r < 45:
		return rng.Range(1, 8), rng.Range(1, 9)
	case r < 80:
		return rng.Range(1, 16), rng.Range(1, 16)
	case r < 92:
		return rng.Pick(17, 24, 31, 32), rng.Pick(5, 13, 32, 33)
	case r < 97:
		return rng.Pick(32, 63, 64), rng.Pick(33, 62, 64)
	default:
		s := fixedSizes[rng.Intn(9)]
		return s[0], s[1]
	}
}

// genBlock: coefficients with at most `planes` magnitude bit-planes.
func genBlock(rng *Rand, w, h, planes int) []int32 {
	d := make([]int32, w*h)
	lim := (1 << uint(planes)) - 1
	dens := rng.Pick(1, 2, 4, 12)
	for i := range d {
		if rng.Intn(dens) == 0 {
			d[i] = int32(rng.Range(-lim, lim))
		}
	}
	if rng.Intn(3) == 0 {
		d[rng.Intn(len(d))] = int32(lim)
	}
	return d
}

func randBytes(rng *Rand, n int) []byte {
	b := make([]byte, n)
	mode := rng.Intn(4)
	for i := range b {
		switch mode {
		case 0, 1:
			b[i] = byte(rng.Intn(256))
		case 2: // many 0xFF (marker / bit-stuffing paths of the MQ and raw decoders)
			if rng.Intn(3) == 0 {
				b[i] = byte(rng.Intn(256))
			} else {
				b[i] = 0xFF
			}
		default:
			b[i] = byte(rng.Pick(0x00, 0xFF, 0x7F, 0x80, 0x8F, 0x90, 0xAC))
		}
	}
	return b
}

// goEncodeBlock returns the Go encoder's bytes, cumulative pass lengths (Rate) and max bit-plane.
func goEncodeBlock(w, h, orient, style int, blk []int32) (data []byte, lens []int, maxbp int, ok bool) {
	mb := -1
	for _, v := range blk {
		a := int64(v)
		if a < 0 {
			a = -a
		}
		for b := 0; a>>uint(b) != 0; b++ {
			if b > mb {
				mb = b
			}
		}
	}
	if mb < 0 {
		return nil, nil, 0, false
	}
	np := 3*(mb+1) - 2
	var passes []t1.PassData
	var err error
	o := orient
	if o < 0 || o > 3 {
		o = 0
	}
	p, _ := Safely(func() {
		enc := t1.NewT1Encoder(w, h, style)
		enc.SetOrientation(o)
		passes, data, err = enc.EncodeLayered(blk, np, 0, nil, uint8(style))
	})
	if p || err != nil || len(passes) == 0 || len(data) == 0 {
		return nil, nil, 0, false
	}
	lens = make([]int, len(passes))
	for j, q := range passes {
		lens[j] = q.Rate
	}
	return data, lens, passes[0].Bitplane, true
}

func genCase(rng *Rand, i int, budget int) Case {
	w, h := pickSize(rng, i)
	k := Case{W: w, H: h, Style: i % 64}
	if i >= 128 {
		k.Style = rng.Intn(64)
	}
	k.Orient = rng.Pick(0, 1, 2, 3, 0, 1, 2, 3, -1, 4, 7)
	var muts []string

	// ---- source of data / lens / maxbp ----
	var data []byte
	var lens []int
	src := rng.Intn(100)
	valid := false
	if src < 62 {
		planes := rng.Pick(1, 2, 3, 5, 8, 12)
		for planes > 1 && w*h*(3*planes-2) > budget {
			planes--
		}
		o := k.Orient
		d, l, mb, ok := goEncodeBlock(w, h, o, k.Style, genBlock(rng, w, h, planes))
		if ok {
			data, lens, k.Maxbp, valid = d, l, mb, true
			muts = append(muts, "enc")
		}
	}
	if !valid {
		switch {
		case src >= 92:
			n := rng.Pick(0, 0, 1, 1, 2)
			data = randBytes(rng, n)
			muts = append(muts, fmt.Sprintf("tiny%d", n))
		default:
			data = randBytes(rng, rng.Pick(1, 2, 3, 5, 8, 16, 40, 100, 300))
			muts = append(muts, "random")
		}
		np := rng.Pick(1, 1, 2, 3, 4, 7, 10, 22)
		k.Maxbp = rng.Range(0, 10)
		lens = make([]int, np)
		c := 0
		for j := range lens {
			if len(data) > 0 {
				c += rng.Intn(len(data)/np + 2)
			}
			if c > len(data) {
				c = len(data)
			}
			lens[j] = c
		}
		if np > 0 && rng.Intn(3) != 0 {
			lens[np-1] = len(data)
		}
	}

	// ---- mutate data bytes ----
	if valid {
		switch rng.Intn(9) {
		case 0, 1: // unchanged
		case 2, 3:
			for n := rng.Pick(1, 1, 2, 5, 20); n > 0; n-- {
				data[rng.Intn(len(data))] ^= byte(1 << uint(rng.Intn(8)))
			}
			muts = append(muts, "corrupt")
		case 4:
			for n := rng.Pick(1, 2, 4); n > 0; n-- {
				data[rng.Intn(len(data))] = byte(rng.Pick(0xFF, 0xFF, 0x00, 0x90))
			}
			muts = append(muts, "corruptFF")
		case 5: // truncation, pass lengths untouched (they now exceed len(data))
			data = data[:rng.Intn(len(data)+1)]
			muts = append(muts, "trunc")
		case 6: // truncation with clamped lengths
			data = data[:rng.Intn(len(data)+1)]
			for j := range lens {
				if lens[j] > len(data) {
					lens[j] = len(data)
				}
			}
			muts = append(muts, "trunc-clamped")
		case 7:
			data = append(data, randBytes(rng, rng.Pick(1, 2, 7, 50))...)
			muts = append(muts, "extend")
		default:
			data = randBytes(rng, len(data))
			muts = append(muts, "rewritten")
		}
	}

	// ---- mutate pass lengths ----
	if len(lens) > 0 {
		switch rng.Intn(16) {
		case 0: // non-monotone
			a, b := rng.Intn(len(lens)), rng.Intn(len(lens))
			lens[a], lens[b] = lens[b], lens[a]
			if len(lens) > 1 && rng.Bool() {
				lens[rng.Intn(len(lens)-1)] = lens[len(lens)-1] + rng.Range(0, 3)
			}
			muts = append(muts, "lens-nonmono")
		case 1:
			lens[rng.Intn(len(lens))] = -rng.Pick(1, 2, 100, 1<<31, 1<<61)
			muts = append(muts, "lens-neg")
		case 2:
			lens[rng.Intn(len(lens))] = len(data) + rng.Pick(1, 2, 100, 1<<31, 1<<61)
			muts = append(muts, "lens-big")
		case 3:
			lens[len(lens)-1] = len(data) + rng.Pick(1, 1, 5)
			muts = append(muts, "lens-lastbig")
		case 4:
			for j := range lens {
				if rng.Intn(3) != 0 {
					lens[j] = 0
				}
			}
			muts = append(muts, "lens-zeros")
		case 5:
			for j := range lens {
				lens[j] = 0
			}
			muts = append(muts, "lens-allzero")
		case 6: // more passes than encoded
			last := lens[len(lens)-1]
			for n := rng.Pick(1, 2, 3, 10, 40); n > 0; n-- {
				lens = append(lens, last)
			}
			muts = append(muts, "lens-more")
		case 7: // fewer passes than encoded
			lens = lens[:rng.Intn(len(lens))+1]
			if rng.Bool() {
				lens = lens[:1]
			}
			muts = append(muts, "lens-fewer")
		case 8: // very many passes
			n := rng.Pick(164, 164, 500)
			last := lens[len(lens)-1]
			for len(lens) < n {
				if rng.Intn(4) == 0 && last < len(data) {
					last++
				}
				lens = append(lens, last)
			}
			muts = append(muts, fmt.Sprintf("lens-%d", n))
		case 9:
			for j := range lens {
				lens[j] = rng.Range(-2, len(data)+2)
			}
			muts = append(muts, "lens-random")
		}
	}

	// ---- entry point ----
	k.NumPasses = len(lens)
	switch r := rng.Intn(10); {
	case r < 4:
		k.Entry = "layered"
	case r < 7:
		k.Entry = "bitplane"
	default:
		k.Entry = "block"
		if rng.Intn(3) == 0 {
			lens = nil
		}
	}
	if k.Entry == "layered" && rng.Intn(40) == 0 {
		lens = nil
		muts = append(muts, "lens-none")
	}
	if rng.Intn(5) == 0 {
		k.NumPasses = rng.Pick(0, 1, 2, 3, 164, 500, -1, -7, k.NumPasses+1, k.NumPasses+3)
		if k.Entry != "layered" {
			muts = append(muts, "np-extreme")
		}
	}

	// ---- maxBitplane ----
	if rng.Intn(4) == 0 {
		k.Maxbp = rng.Pick(-5, -4, -3, -2, -1, 0, 1, 30, 31, 32, 40, 63, 64, 1000, 1<<40, k.Maxbp+1, k.Maxbp-1, k.Maxbp+4)
		muts = append(muts, "maxbp-extreme")
	}

	// ---- roishift / flags ----
	k.Roishift = rng.Pick(0, 0, 0, 1, 3, k.Maxbp, k.Maxbp+1, -1)
	if k.Roishift > 0 && k.Maxbp-k.Roishift > 5000 {
		k.Roishift = 0
		muts = append(muts, "roi-clamped")
	}
	if k.Entry == "block" {
		k.Roishift = 0
	}
	switch rng.Intn(4) {
	case 0:
		k.UseT = rng.Bool()
	default:
		k.UseT = k.Style&4 != 0
	}
	switch rng.Intn(4) {
	case 0:
		k.Lossless = rng.Bool()
	default:
		k.Lossless = k.Style&2 != 0
	}
	if k.Entry == "block" {
		k.Lossless = k.Style&2 != 0
	}
	if k.Roishift != 0 {
		muts = append(muts, "roi")
	}

	// ---- keep the work modest: many passes only with small blocks ----
	np := k.NumPasses
	if (k.Entry == "layered" || k.Entry == "block") && len(lens) > 0 {
		np = len(lens)
	}
	if np < 0 {
		np = 0
	}
	run := np
	if k.Maxbp < 400 { // the pass loop ends when the bit-plane counter drops below 0
		if m := 3*k.Maxbp + 3; m < run {
			run = m
		}
		if run < 0 {
			run = 0
		}
	}
	extra := 0
	if k.Roishift > 0 && k.Maxbp >= k.Roishift {
		extra = k.Maxbp - k.Roishift + 1 // flag sweeps of the skipped bit-planes
	}
	if (run+extra/4)*k.W*k.H > budget {
		for tries := 0; tries < 20; tries++ {
			s := smallSizes[rng.Intn(len(smallSizes))]
			k.W, k.H = s[0], s[1]
			if (run+extra/4)*k.W*k.H <= budget {
				break
			}
		}
		if (run+extra/4)*k.W*k.H > budget {
			k.W, k.H = 1, 1
		}
		muts = append(muts, "resized")
	}

	k.Data = Hex(data)
	k.Lens = lens
	k.Mut = strings.Join(muts, "+")
	return k
}

// npasses of the work bound
func (k Case) npasses() int {
	if (k.Entry == "layered") || (k.Entry == "block" && len(k.Lens) > 0) {
		return len(k.Lens)
	}
	if k.NumPasses < 0 {
		return 0
	}
	return k.NumPasses
}

// goRun: the implementation, classified ok / err / panic (+ panic message).
func goRun(k Case) (class string, msg string) {
	data := UnHex(k.Data)
	if data == nil {
		data = []byte{}
	}
	var err error
	p, m := Safely(func() {
		dec := t1.NewT1Decoder(k.W, k.H, k.Style)
		dec.SetOrientation(k.Orient)
		switch k.Entry {
		case "layered":
			err = dec.DecodeLayeredWithMode(data, k.Lens, k.Maxbp, k.Roishift, k.UseT, k.Lossless)
		case "bitplane":
			err = dec.DecodeWithBitplane(data, k.NumPasses, k.Maxbp, k.Roishift)
		default: // t2/tile_decoder.go decodeCodeBlock
			if len(k.Lens) > 0 {
				err = dec.DecodeLayeredWithMode(data, k.Lens, k.Maxbp, 0, k.UseT, k.Style&2 != 0)
			} else {
				err = dec.DecodeWithBitplane(data, k.NumPasses, k.Maxbp, 0)
			}
		}
		if err == nil {
			_ = dec.GetData()
		}
	})
	if p {
		return "panic", m
	}
	if err != nil {
		return "err", err.Error()
	}
	return "ok", ""
}

func modelCall(c *Ctx, k Case, bits string) string {
	s := strconv.Itoa
	switch k.Entry {
	case "layered":
		return c.M.Call("t1s_layered", s(k.W), s(k.H), s(k.Orient), s(k.Style), k.Data, Ints(k.Lens), s(k.Maxbp), s(k.Roishift),
			b01(k.UseT), b01(k.Lossless), bits)
	case "bitplane":
		return c.M.Call("t1s_bitplane", s(k.W), s(k.H), s(k.Orient), s(k.Style), k.Data, s(k.NumPasses), s(k.Maxbp), s(k.Roishift), bits)
	default:
		return c.M.Call("t1s_block", s(k.W), s(k.H), s(k.Orient), s(k.Style), k.Data, Ints(k.Lens), s(k.NumPasses), s(k.Maxbp),
			b01(k.UseT), bits)
	}
}

// classOf canonicalises a model reply to its outcome class (drops the work payload).
func classOf(rep string) (class string, work int, hasWork bool) {
	if strings.HasPrefix(rep, "ok:") {
		w, err := strconv.Atoi(rep[3:])
		return "ok", w, err == nil
	}
	return rep, 0, false
}

func randBits(rng *Rand, n int) string {
	var sb strings.Builder
	for i := 0; i < n; i++ {
		if i > 0 {
			sb.WriteByte(',')
		}
		if rng.Bool() {
			sb.WriteByte('1')
		} else {
			sb.WriteByte('0')
		}
	}
	return sb.String()
}

func sizeBucket(w, h int) string {
	n := w * h
	switch {
	case n == 1:
		return "1x1"
	case n <= 16:
		return "<=16"
	case n <= 256:
		return "<=256"
	case n <= 1024:
		return "<=1024"
	default:
		return "<=4096"
	}
}

func maxbpBucket(m int) string {
	switch {
	case m < 0:
		return "neg"
	case m <= 30:
		return "0-30"
	case m <= 64:
		return "31-64"
	default:
		return "huge"
	}
}

const rule = "T1 decoder on arbitrary input: blocks 1x1..64x64, 1024x4, 4x1024; all 64 code-block styles; orientation " +
	"-1..7; data = Go encoder output unchanged / bit-corrupted / 0xFF-corrupted / truncated / extended / rewritten, or random " +
	"bytes, or 0..2 bytes; pass lengths consistent / non-monotone / negative / beyond len(data) / zeros / more / fewer / " +
	"164 / 500 passes; maxBitplane -5..1<<40; roishift 0,1,3,maxbp,maxbp+1,-1; useTERMALL and lossless independent of the " +
	"style bits; entry points DecodeLayeredWithMode, DecodeWithBitplane and the decodeCodeBlock dispatch (+ GetData); " +
	"non-trivial = non-empty data and at least one pass requested"

func cases(c *Ctx, suite string, n, budget int) []Case {
	if raws := c.ReplayInputs(suite); raws != nil {
		return replay(raws)
	}
	rng := c.Rng.Fork()
	out := make([]Case, 0, n+8)
	for _, r := range c.CorpusInputs(suite) {
		out = append(out, replay([]json.RawMessage{r})...)
	}
	for i := 0; i < n; i++ {
		out = append(out, genCase(rng, i, budget))
	}
	return out
}

func replay(raws []json.RawMessage) []Case {
	var out []Case
	for _, r := range raws {
		var k Case
		if json.Unmarshal(r, &k) == nil && k.Entry != "" {
			out = append(out, k)
			continue
		}
		var wrap struct {
			Input Case `json:"input"`
		}
		if json.Unmarshal(r, &wrap) == nil && wrap.Input.Entry != "" {
			out = append(out, wrap.Input)
		}
	}
	return out
}

func record(c *Ctx, k Case, i int, goClass string) {
	nt := k.Data != "_" && k.npasses() > 0
	first := k.Mut
	if j := strings.IndexByte(first, '+'); j >= 0 {
		first = first[:j]
	}
	keys := []string{"t1safe.entry." + k.Entry, "t1safe.size." + sizeBucket(k.W, k.H), fmt.Sprintf("t1safe.style.%02x", k.Style),
		"t1safe.orient." + strconv.Itoa(k.Orient), "t1safe.src." + first, "t1safe.maxbp." + maxbpBucket(k.Maxbp),
		"t1safe.go." + goClass, "t1safe.useT." + b01(k.UseT), "t1safe.lossless." + b01(k.Lossless)}
	for _, m := range strings.Split(k.Mut, "+")[1:] {
		keys = append(keys, "t1safe.mut."+m)
	}
	if strings.Contains(k.Mut, "roi-clamped") {
		keys = append(keys, "t1safe.roi_clamped")
	}
	c.R.Case(k.String(), nt, keys...)
	if i < 3 {
		c.R.Sample(k)
	}
}

func sigOf(k Case) string {
	return fmt.Sprintf("t1safe:%s:style-%02x:%dx%d:%s", k.Entry, k.Style, k.W, k.H, k.Mut)
}

// corr asks the model twice (two oracles) and compares the classes; returns the work values.
func corr(c *Ctx, k Case, goClass string, bits string) (works []int) {
	if !c.HasModel() {
		c.CorrEq("t1safe_class", sigOf(k), "", "", k) // counts corr_skipped_no_model
		return nil
	}
	for j, b := range []string{"_", bits} {
		rep := modelCall(c, k, b)
		cl, w, hw := classOf(rep)
		in := map[string]interface{}{"case": k, "replay": k.String(), "oracle_bits": b, "model_reply": rep}
		c.CorrEq("t1safe_class", sigOf(k)+fmt.Sprintf(":oracle%d", j), cl, goClass, in)
		if hw {
			works = append(works, w)
		}
	}
	return works
}

func runC08(c *Ctx) {
	c.R.Rule = rule
	cs := cases(c, "t1safe_nopanic", c.N(1500, 40000), c.N(60000, 250000))
	bitsRng := c.Rng.Fork()
	bits := make([]string, len(cs))
	for i := range bits {
		bits[i] = randBits(bitsRng, 600)
	}
	ParallelFor(len(cs), c.Work, func(i int) {
		k := cs[i]
		goClass, msg := goRun(k)
		record(c, k, i, goClass)
		c.R.Oracle("t1safe_nopanic")
		if goClass == "panic" {
			c.R.Fail("oracle", "t1safe_nopanic", sigOf(k), "Go T1 decoder panicked: "+msg,
				map[string]interface{}{"case": k, "replay": k.String()})
		}
		corr(c, k, goClass, bits[i])
	})
}

func runC09(c *Ctx) {
	c.R.Rule = rule + "; work bound checked when roishift == 0"
	cs := cases(c, "t1safe_returns", c.N(700, 20000), c.N(60000, 250000))
	bitsRng := c.Rng.Fork()
	bits := make([]string, len(cs))
	for i := range bits {
		bits[i] = randBits(bitsRng, 600)
	}
	ParallelFor(len(cs), c.Work, func(i int) {
		k := cs[i]
		goClass, _ := goRun(k) // returns: run to completion (a panic is C08's business, the call still ended)
		record(c, k, i, goClass)
		c.R.Oracle("t1safe_returns")
		works := corr(c, k, goClass, bits[i])
		if k.Roishift == 0 {
			bound := (k.npasses() + 1) * (16*k.W*k.H + 2*(k.W+2)*(k.H+2) + 8)
			for j, w := range works {
				c.R.Oracle("t1safe_work")
				if w > bound {
					c.R.Fail("oracle", "t1safe_work", fmt.Sprintf("t1safe:work:%s:np%d", k.Entry, k.npasses()),
						fmt.Sprintf("model work %d exceeds bound %d = (npasses %d + 1) * (16*%d*%d + 2*%d*%d + 8) (oracle %d)",
							w, bound, k.npasses(), k.W, k.H, k.W+2, k.H+2, j),
						map[string]interface{}{"case": k, "replay": k.String(), "work": w, "bound": bound})
				}
			}
		}
	})
}
