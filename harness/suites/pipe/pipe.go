// Package pipe: correspondence and oracle for the COMPOSED reversible single-tile JPEG 2000
// path (coq/Pipe/PipeModel.v: pipe_encode_tile / pipe_decode_tile = sample codec, RCT, 5/3 DWT,
// band / code-block geometry, T1, T2 composed as jpeg2000.Encoder / Decoder compose them).
// Exported API only: jpeg2000.Encoder / Decoder and codestream.Parser (the tile's packet bytes
// are the bytes between SOD and EOC).
package pipe

import (
	"bytes"
	"encoding/binary"
	"encoding/json"
	"fmt"

	"github.com/cocosip/go-dicom-codecs/jpeg2000"
	"github.com/cocosip/go-dicom-codecs/jpeg2000/codestream"
	"verif/harness/suites/j2ke2e"
	. "verif/harness/vhlib"
)

// Register adds this area's suite.
func Register(s Suites) {
	s.Add("C04", runPipe)
	s.Add("C05", runPipeLayers)
	s.Add("C19", runPipeTiles)
	s.Add("C19", runPipeTilesLayers)
}

// Case is one configuration of the composed path + the image content.
type Case struct {
	W, H, Comps, P int
	Signed         bool
	Levels         int
	CBW, CBH       int
	Prog           int
	MCT            bool
	Content        int // 0..5 = j2ke2e content classes, 7 = low-pass sign pattern (adversarial growth)
	Seed           uint64
}

var contentNames = []string{"noise", "extremes", "ramp", "const", "sparse", "checker", "flat-end", "lowpass-sign"}

func (k Case) String() string {
	return fmt.Sprintf("%dx%d c=%d P=%d s=%v lv=%d cb=%dx%d po=%d mct=%v content=%s seed=%d",
		k.W, k.H, k.Comps, k.P, k.Signed, k.Levels, k.CBW, k.CBH, k.Prog, k.MCT, contentNames[k.Content], k.Seed)
}

func b01(b bool) string {
	if b {
		return "1"
	}
	return "0"
}

// Args renders the parameter prefix of the pipe_* model operations.
func (k Case) Args(payload string) []string {
	return []string{fmt.Sprint(k.W), fmt.Sprint(k.H), fmt.Sprint(k.Comps), fmt.Sprint(k.P), b01(k.Signed),
		fmt.Sprint(k.Levels), fmt.Sprint(k.CBW), fmt.Sprint(k.CBH), b01(k.MCT), fmt.Sprint(k.Prog), payload}
}

func (k Case) rangeLoHi() (int, int) {
	if k.Signed {
		return -(1 << (k.P - 1)), (1 << (k.P - 1)) - 1
	}
	return 0, (1 << k.P) - 1
}

// lowpassSign: the sign pattern (- + + + -) of the 5/3 low-pass filter around a centre, in
// both directions; with RCT the chroma planes swing over their full 2^P range (B - G, R - G),
// so that code-blocks need more bit-planes than the band's nominal budget.
func lowpassSign(i, c int) int {
	d := i - c
	if d < 0 {
		d = -d
	}
	if d%4 == 2 {
		return -1
	}
	return 1
}

// Samples returns the interleaved sample values.
func (k Case) Samples() []int {
	lo, hi := k.rangeLoHi()
	r := NewRand(k.Seed)
	if k.Content != 7 {
		return j2ke2e.GenSamples(r, k.W*k.H, k.Comps, lo, hi, k.Content)
	}
	cx, cy := r.Intn(k.W), r.Intn(k.H)
	flip := r.Bool()
	out := make([]int, 0, k.W*k.H*k.Comps)
	for y := 0; y < k.H; y++ {
		for x := 0; x < k.W; x++ {
			pos := lowpassSign(x, cx)*lowpassSign(y, cy) > 0
			if flip {
				pos = !pos
			}
			for c := 0; c < k.Comps; c++ {
				v := lo
				// G (component 1) opposite to R and B: extreme chroma after RCT
				if pos != (c == 1 && k.Comps >= 3) {
					v = hi
				}
				out = append(out, v)
			}
		}
	}
	return out
}

func (k Case) Pixels() []byte { return j2ke2e.Pack(k.Samples(), k.P) }

func (k Case) Params() *jpeg2000.EncodeParams {
	p := jpeg2000.DefaultEncodeParams(k.W, k.H, k.Comps, k.P, k.Signed)
	p.NumLevels = k.Levels
	p.CodeBlockWidth, p.CodeBlockHeight = k.CBW, k.CBH
	p.ProgressionOrder = uint8(k.Prog)
	p.NumLayers = 1
	p.EnableMCT = k.MCT
	p.Lossless = true
	return p
}

// TileBytes returns the bytes between SOD and EOC of a single-tile, single-tile-part
// codestream, located through the SOT segment (Psot), and cross-checked against the
// codestream parser's view of the tile data.
func TileBytes(cs []byte) ([]byte, error) {
	n := len(cs)
	if n < 4 || cs[n-2] != 0xFF || cs[n-1] != 0xD9 {
		return nil, fmt.Errorf("no EOC at the end")
	}
	// main header: SOC then segments until SOT (0xFF90)
	pos := 2
	for {
		if pos+4 > n || cs[pos] != 0xFF {
			return nil, fmt.Errorf("marker expected at %d", pos)
		}
		if cs[pos+1] == 0x90 {
			break
		}
		pos += 2 + int(binary.BigEndian.Uint16(cs[pos+2:]))
	}
	sot := pos
	psot := int(binary.BigEndian.Uint32(cs[sot+6:]))
	if sot+psot != n-2 {
		return nil, fmt.Errorf("Psot %d does not end at EOC (sot %d, len %d)", psot, sot, n)
	}
	pos = sot + 12
	for {
		if pos+2 > n || cs[pos] != 0xFF {
			return nil, fmt.Errorf("marker expected at %d in tile-part header", pos)
		}
		if cs[pos+1] == 0x93 {
			break
		}
		pos += 2 + int(binary.BigEndian.Uint16(cs[pos+2:]))
	}
	tile := cs[pos+2 : n-2]
	parsed, err := codestream.NewParser(cs).Parse()
	if err != nil {
		return nil, fmt.Errorf("parser: %v", err)
	}
	if len(parsed.Tiles) != 1 || !bytes.Equal(parsed.Tiles[0].Data, tile) {
		return nil, fmt.Errorf("parser's tile data differs from the bytes between SOD and EOC")
	}
	return tile, nil
}

func pow2(r *Rand, lo, hi int) int { return 1 << r.Range(lo, hi) }

func gen(r *Rand, thor bool) Case {
	k := Case{Seed: r.U64()}
	switch r.Intn(5) {
	case 0:
		k.W, k.H = r.Range(1, 8), r.Range(1, 8)
	case 1:
		cb := 1 << r.Range(2, 4)
		k.W, k.H = cb*r.Range(1, 2)+r.Range(-1, 1), cb*r.Range(1, 2)+r.Range(-1, 1)
	case 2:
		k.W, k.H = r.Range(1, 40), r.Range(1, 6)
		if r.Bool() {
			k.W, k.H = k.H, k.W
		}
	default:
		k.W, k.H = r.Range(1, 40), r.Range(1, 40)
	}
	if k.W < 1 {
		k.W = 1
	}
	if k.H < 1 {
		k.H = 1
	}
	k.Comps = r.Pick(1, 1, 2, 3, 3, 4)
	k.P = r.Range(1, 16)
	k.Signed = r.Intn(3) == 0
	k.Levels = r.Range(0, 6)
	for {
		k.CBW, k.CBH = pow2(r, 2, 6), pow2(r, 2, 6)
		if r.Intn(3) == 0 {
			k.CBW, k.CBH = pow2(r, 2, 3), pow2(r, 2, 3) // many blocks per band
		}
		if k.CBW*k.CBH <= 4096 {
			break
		}
	}
	k.Prog = r.Range(0, 4)
	k.MCT = r.Bool()
	k.Content = r.Pick(0, 0, 0, 1, 2, 3, 4, 5, 7, 7)
	return k
}

const maxSamples = 6400 // larger cases are skipped for the model and counted (none at sizes <= 40x40x4)

func sig(prefix string, k Case, site string) string {
	sg := "u"
	if k.Signed {
		sg = "s"
	}
	return fmt.Sprintf("%s:%s:%s:c%d:mct%s", prefix, site, sg, k.Comps, b01(k.MCT && k.Comps == 3))
}

func runPipe(c *Ctx) {
	c.R.Rule = "composed single-tile reversible path (1 layer, default precincts, style 0): random configurations, sizes 1..40 (tiny, around code-block multiples, strips, grid), comps 1-4, P 1-16, signed, levels 0-6, cb 4..64 (area <= 4096), 5 progressions, MCT; content noise/extremes/ramp/const/sparse/checker/low-pass-sign; compared: tile bytes (SOD..EOC), whole codestream, decoded pixels; cases above 6400 samples would be skipped for the model and counted; non-trivial = more than one sample and not constant"
	n := c.N(400, 6000)
	rng := c.Rng.Fork()
	cases := make([]Case, 0, n)
	for _, raw := range append(c.CorpusInputs("pipe"), c.ReplayInputs("pipe")...) {
		var k Case
		if json.Unmarshal(raw, &k) == nil && k.W > 0 {
			cases = append(cases, k)
		}
	}
	for len(cases) < n {
		cases = append(cases, gen(rng, c.Thor))
	}
	ParallelFor(len(cases), c.Work, func(i int) {
		k := cases[i]
		c.R.Case(k.String(), k.Content != 3 && k.W*k.H > 1, fmt.Sprintf("pipe.P.%d", k.P), fmt.Sprintf("pipe.levels.%d", k.Levels),
			fmt.Sprintf("pipe.comps.%d", k.Comps), fmt.Sprintf("pipe.prog.%d", k.Prog), "pipe.content."+contentNames[k.Content],
			fmt.Sprintf("pipe.cb.%dx%d", k.CBW, k.CBH), "pipe.mct."+b01(k.MCT), "pipe.signed."+b01(k.Signed))
		if i < 2 {
			c.R.Sample(k)
		}
		pix := k.Pixels()
		src := append([]byte(nil), pix...)
		// ---- implementation: encode, tile bytes, decode ----
		var enc []byte
		var err error
		if p, msg := Safely(func() { enc, err = jpeg2000.NewEncoder(k.Params()).Encode(pix) }); p {
			c.R.Fail("oracle", "pipe", sig("pipe", k, "encode-panic"), msg, k)
			return
		}
		if err != nil {
			c.R.Fail("oracle", "pipe", sig("pipe", k, "encode-error"), err.Error(), k)
			return
		}
		tile, terr := TileBytes(enc)
		if terr != nil {
			c.R.Fail("oracle", "pipe", sig("pipe", k, "tile-bytes"), terr.Error(), k)
			return
		}
		// oracle: exact reconstruction + reported geometry (the statement of pipe_roundtrip)
		c.R.Oracle("pipe")
		d := jpeg2000.NewDecoder()
		var out []byte
		if p, msg := Safely(func() {
			err = d.Decode(enc)
			if err == nil {
				out = d.GetPixelData()
			}
		}); p {
			c.R.Fail("oracle", "pipe", sig("pipe", k, "decode-panic"), msg, k)
			return
		}
		if err != nil {
			c.R.Fail("oracle", "pipe", sig("pipe", k, "decode-error"), err.Error(), k)
			return
		}
		if d.Width() != k.W || d.Height() != k.H || d.Components() != k.Comps || d.BitDepth() != k.P || d.IsSigned() != k.Signed {
			c.R.Fail("oracle", "pipe", sig("pipe", k, "geometry"), "decoder reports a different geometry", k)
		}
		if !bytes.Equal(out, src) {
			c.R.Fail("oracle", "pipe", sig("pipe", k, "mismatch"), "decoded pixels differ from the source", k)
		}
		// ---- correspondence with the composed model ----
		if !c.HasModel() {
			return
		}
		if k.W*k.H*k.Comps > maxSamples {
			c.R.Count("pipe.model_skipped_too_large")
			return
		}
		c.R.Count("pipe.model_compared")
		mEnc := c.M.Call("pipe_encode", k.Args(Hex(src))...)
		c.CorrEq("pipe_encode", sig("pipe", k, "encode"), mEnc, "ok:"+Hex(tile), k)
		mCS := c.M.Call("pipe_encode_cs", k.Args(Hex(src))...)
		c.CorrEq("pipe_encode_cs", sig("pipe", k, "codestream"), mCS, "ok:"+Hex(enc), k)
		mDec := c.M.Call("pipe_decode", k.Args(Hex(tile))...)
		c.CorrEq("pipe_decode", sig("pipe", k, "decode"), mDec, "ok:"+Hex(out), k)
	})
}

// ---------------------------------------------------------------------------------------
// quality layers (C05 / C04 "any number of layers"): NumLayers 2..6, lossless, Rate = 0.
// The per-block pass allocation is a parameter of the model; for the correspondence it is read
// off the Go codestream's packet headers with the model's packet decoder (pipe_alloc), then the
// model encoder must reproduce the Go tile bytes and codestream from the pixels + allocation.

type LCase struct {
	Case
	Layers int
}

func (k LCase) String() string { return fmt.Sprintf("%s ly=%d", k.Case.String(), k.Layers) }

func (k LCase) LArgs(rest ...string) []string {
	a := k.Case.Args("")
	a = a[:len(a)-1]
	a = append(a, fmt.Sprint(k.Layers))
	return append(a, rest...)
}

func runPipeLayers(c *Ctx) {
	c.R.Rule = "composed single-tile reversible path with 2..6 quality layers (lossless, no rate target, default precincts, style 0): same configuration space as the one-layer suite; the allocation of passes to layers is recovered from the Go packet headers and handed to the model encoder; compared: tile bytes, whole codestream, decoded pixels; non-trivial = more than one sample and not constant"
	n := c.N(300, 4000)
	rng := c.Rng.Fork()
	cases := make([]LCase, 0, n)
	for _, raw := range append(c.CorpusInputs("pipe_layers"), c.ReplayInputs("pipe_layers")...) {
		var k LCase
		if json.Unmarshal(raw, &k) == nil && k.W > 0 && k.Layers > 1 {
			cases = append(cases, k)
		}
	}
	for len(cases) < n {
		k := LCase{Case: gen(rng, c.Thor)}
		k.Layers = rng.Range(2, 6)
		cases = append(cases, k)
	}
	ParallelFor(len(cases), c.Work, func(i int) {
		k := cases[i]
		c.R.Case(k.String(), k.Content != 3 && k.W*k.H > 1, fmt.Sprintf("pipel.layers.%d", k.Layers), fmt.Sprintf("pipel.levels.%d", k.Levels),
			fmt.Sprintf("pipel.comps.%d", k.Comps), fmt.Sprintf("pipel.prog.%d", k.Prog), "pipel.content."+contentNames[k.Content])
		if i < 2 {
			c.R.Sample(k)
		}
		pix := k.Pixels()
		src := append([]byte(nil), pix...)
		prm := k.Params()
		prm.NumLayers = k.Layers
		var enc []byte
		var err error
		if p, msg := Safely(func() { enc, err = jpeg2000.NewEncoder(prm).Encode(pix) }); p {
			c.R.Fail("oracle", "pipe_layers", sig("pipel", k.Case, "encode-panic"), msg, k)
			return
		}
		if err != nil {
			c.R.Fail("oracle", "pipe_layers", sig("pipel", k.Case, "encode-error"), err.Error(), k)
			return
		}
		tile, terr := TileBytes(enc)
		if terr != nil {
			c.R.Fail("oracle", "pipe_layers", sig("pipel", k.Case, "tile-bytes"), terr.Error(), k)
			return
		}
		c.R.Oracle("pipe_layers")
		d := jpeg2000.NewDecoder()
		var out []byte
		if p, msg := Safely(func() {
			err = d.Decode(enc)
			if err == nil {
				out = d.GetPixelData()
			}
		}); p {
			c.R.Fail("oracle", "pipe_layers", sig("pipel", k.Case, "decode-panic"), msg, k)
			return
		}
		if err != nil {
			c.R.Fail("oracle", "pipe_layers", sig("pipel", k.Case, "decode-error"), err.Error(), k)
			return
		}
		if !bytes.Equal(out, src) {
			c.R.Fail("oracle", "pipe_layers", sig("pipel", k.Case, "mismatch"), "decoded pixels differ from the source", k)
		}
		if !c.HasModel() {
			return
		}
		if k.W*k.H*k.Comps > maxSamples {
			c.R.Count("pipel.model_skipped_too_large")
			return
		}
		al := c.M.Call("pipe_alloc", k.LArgs(Hex(tile))...)
		if len(al) < 3 || al[:3] != "ok:" {
			c.R.Fail("corr", "pipe_alloc", sig("pipel", k.Case, "alloc"), "model packet decoder does not parse the Go tile: "+al, k)
			return
		}
		alloc := al[3:]
		mEnc := c.M.Call("pipe_encode_l", k.LArgs(alloc, Hex(src))...)
		c.CorrEq("pipe_encode_l", sig("pipel", k.Case, "encode"), mEnc, "ok:"+Hex(tile), k)
		mCS := c.M.Call("pipe_encode_cs_l", k.LArgs(alloc, Hex(src))...)
		c.CorrEq("pipe_encode_cs_l", sig("pipel", k.Case, "codestream"), mCS, "ok:"+Hex(enc), k)
		mDec := c.M.Call("pipe_decode_l", k.LArgs(Hex(tile))...)
		c.CorrEq("pipe_decode_l", sig("pipel", k.Case, "decode"), mDec, "ok:"+Hex(out), k)
	})
}

// ---------------------------------------------------------------------------------------
// tiles (C19): TileWidth x TileHeight grid, one layer.  Per tile the single-tile pipeline at the
// tile's origin on the reference grid; compared: the packet bytes of every tile (the codestream
// parser's Tiles[i].Data), the whole codestream, the decoded pixels.

type TCase struct {
	Case
	TW, TH int
}

func (k TCase) String() string { return fmt.Sprintf("%s tile=%dx%d", k.Case.String(), k.TW, k.TH) }

func (k TCase) TArgs(payload string) []string {
	a := k.Case.Args("")
	a = a[:len(a)-1]
	return append(a, fmt.Sprint(k.TW), fmt.Sprint(k.TH), payload)
}

func (k TCase) numTiles() int {
	tw, th := k.TW, k.TH
	if tw == 0 {
		tw = k.W
	}
	if th == 0 {
		th = k.H
	}
	return ((k.W + tw - 1) / tw) * ((k.H + th - 1) / th)
}

func genT(r *Rand, thor bool) TCase {
	k := TCase{Case: gen(r, thor)}
	pick := func(dim int) int {
		switch r.Intn(6) {
		case 0:
			return 0 // whole dimension
		case 1:
			return r.Range(1, 3) // tiny tiles (odd origins, empty resolutions)
		case 2:
			return dim
		case 3:
			return (dim + 1) / 2
		default:
			return r.Range(1, dim+2)
		}
	}
	for {
		k.TW, k.TH = pick(k.W), pick(k.H)
		if k.numTiles() <= 64 {
			return k
		}
	}
}

func runPipeTiles(c *Ctx) {
	c.R.Rule = "composed reversible path over a tile grid (1 layer, default precincts, style 0): configuration space of the single-tile suite times tile sizes 0 (= dimension), 1..3, half, full, random up to dimension+2 (at most 64 tiles); compared: packet bytes of every tile, whole codestream, decoded pixels; non-trivial = more than one tile and not constant"
	n := c.N(300, 4000)
	rng := c.Rng.Fork()
	cases := make([]TCase, 0, n)
	for _, raw := range append(c.CorpusInputs("pipe_tiles"), c.ReplayInputs("pipe_tiles")...) {
		var k TCase
		if json.Unmarshal(raw, &k) == nil && k.W > 0 {
			cases = append(cases, k)
		}
	}
	for len(cases) < n {
		cases = append(cases, genT(rng, c.Thor))
	}
	ParallelFor(len(cases), c.Work, func(i int) {
		k := cases[i]
		nt := k.numTiles()
		ntc := "1"
		if nt > 1 && nt <= 4 {
			ntc = "2-4"
		} else if nt > 4 {
			ntc = "5+"
		}
		c.R.Case(k.String(), k.Content != 3 && nt > 1, "pipet.tiles."+ntc, fmt.Sprintf("pipet.levels.%d", k.Levels),
			fmt.Sprintf("pipet.comps.%d", k.Comps), fmt.Sprintf("pipet.prog.%d", k.Prog), "pipet.content."+contentNames[k.Content])
		if i < 2 {
			c.R.Sample(k)
		}
		pix := k.Pixels()
		src := append([]byte(nil), pix...)
		prm := k.Params()
		prm.TileWidth, prm.TileHeight = k.TW, k.TH
		var enc []byte
		var err error
		if p, msg := Safely(func() { enc, err = jpeg2000.NewEncoder(prm).Encode(pix) }); p {
			c.R.Fail("oracle", "pipe_tiles", sig("pipet", k.Case, "encode-panic"), msg, k)
			return
		}
		if err != nil {
			c.R.Fail("oracle", "pipe_tiles", sig("pipet", k.Case, "encode-error"), err.Error(), k)
			return
		}
		parsed, perr := codestream.NewParser(enc).Parse()
		if perr != nil {
			c.R.Fail("oracle", "pipe_tiles", sig("pipet", k.Case, "parse"), perr.Error(), k)
			return
		}
		if len(parsed.Tiles) != nt {
			c.R.Fail("oracle", "pipe_tiles", sig("pipet", k.Case, "tile-count"), fmt.Sprintf("%d tiles parsed, %d expected", len(parsed.Tiles), nt), k)
			return
		}
		tiles := make([]string, nt)
		for j, t := range parsed.Tiles {
			if t.Index != j {
				c.R.Fail("oracle", "pipe_tiles", sig("pipet", k.Case, "tile-order"), "tile-parts are not in index order", k)
				return
			}
			tiles[j] = Hex(t.Data)
		}
		c.R.Oracle("pipe_tiles")
		d := jpeg2000.NewDecoder()
		var out []byte
		if p, msg := Safely(func() {
			err = d.Decode(enc)
			if err == nil {
				out = d.GetPixelData()
			}
		}); p {
			c.R.Fail("oracle", "pipe_tiles", sig("pipet", k.Case, "decode-panic"), msg, k)
			return
		}
		if err != nil {
			c.R.Fail("oracle", "pipe_tiles", sig("pipet", k.Case, "decode-error"), err.Error(), k)
			return
		}
		if !bytes.Equal(out, src) {
			c.R.Fail("oracle", "pipe_tiles", sig("pipet", k.Case, "mismatch"), "decoded pixels differ from the source", k)
		}
		if !c.HasModel() {
			return
		}
		if k.W*k.H*k.Comps > maxSamples {
			c.R.Count("pipet.model_skipped_too_large")
			return
		}
		joined := ""
		for j, t := range tiles {
			if j > 0 {
				joined += ";"
			}
			joined += t
		}
		mEnc := c.M.Call("pipe_encode_t", k.TArgs(Hex(src))...)
		c.CorrEq("pipe_encode_t", sig("pipet", k.Case, "encode"), mEnc, "ok:"+joined, k)
		mCS := c.M.Call("pipe_encode_cs_t", k.TArgs(Hex(src))...)
		c.CorrEq("pipe_encode_cs_t", sig("pipet", k.Case, "codestream"), mCS, "ok:"+Hex(enc), k)
		mDec := c.M.Call("pipe_decode_t", k.TArgs(joined)...)
		c.CorrEq("pipe_decode_t", sig("pipet", k.Case, "decode"), mDec, "ok:"+Hex(out), k)
	})
}

// ---------------------------------------------------------------------------------------
// tiles x quality layers (C19 with C05's layered path): more than one tile and NumLayers > 1 makes
// the encoder run ONE rate-distortion allocation over the blocks of all tiles
// (writeTilesWithGlobalRateDistortion).  The allocation of every tile is read off its packet
// headers (pipe_alloc_tl) and handed to the model encoder.

type TLCase struct {
	TCase
	Layers int
}

func (k TLCase) String() string { return fmt.Sprintf("%s ly=%d", k.TCase.String(), k.Layers) }

func (k TLCase) TLArgs(rest ...string) []string {
	a := k.Case.Args("")
	a = a[:len(a)-1]
	a = append(a, fmt.Sprint(k.Layers), fmt.Sprint(k.TW), fmt.Sprint(k.TH))
	return append(a, rest...)
}

func runPipeTilesLayers(c *Ctx) {
	c.R.Rule = "composed reversible path over a tile grid with 2..6 quality layers (global rate-distortion allocation over all tiles; lossless, no rate target): configuration space of the tile suite; the allocation of every tile is recovered from the Go packet headers and handed to the model encoder; compared: packet bytes of every tile, whole codestream, decoded pixels; non-trivial = more than one tile and not constant"
	n := c.N(150, 2000)
	rng := c.Rng.Fork()
	cases := make([]TLCase, 0, n)
	for _, raw := range append(c.CorpusInputs("pipe_tiles_layers"), c.ReplayInputs("pipe_tiles_layers")...) {
		var k TLCase
		if json.Unmarshal(raw, &k) == nil && k.W > 0 && k.Layers > 1 {
			cases = append(cases, k)
		}
	}
	for len(cases) < n {
		k := TLCase{TCase: genT(rng, c.Thor)}
		k.Layers = rng.Range(2, 6)
		cases = append(cases, k)
	}
	ParallelFor(len(cases), c.Work, func(i int) {
		k := cases[i]
		nt := k.numTiles()
		ntc := "1"
		if nt > 1 && nt <= 4 {
			ntc = "2-4"
		} else if nt > 4 {
			ntc = "5+"
		}
		c.R.Case(k.String(), k.Content != 3 && nt > 1, "pipetl.tiles."+ntc, fmt.Sprintf("pipetl.layers.%d", k.Layers),
			fmt.Sprintf("pipetl.levels.%d", k.Levels), fmt.Sprintf("pipetl.comps.%d", k.Comps), fmt.Sprintf("pipetl.prog.%d", k.Prog))
		if i < 2 {
			c.R.Sample(k)
		}
		pix := k.Pixels()
		src := append([]byte(nil), pix...)
		prm := k.Params()
		prm.TileWidth, prm.TileHeight = k.TW, k.TH
		prm.NumLayers = k.Layers
		var enc []byte
		var err error
		if p, msg := Safely(func() { enc, err = jpeg2000.NewEncoder(prm).Encode(pix) }); p {
			c.R.Fail("oracle", "pipe_tiles_layers", sig("pipetl", k.Case, "encode-panic"), msg, k)
			return
		}
		if err != nil {
			c.R.Fail("oracle", "pipe_tiles_layers", sig("pipetl", k.Case, "encode-error"), err.Error(), k)
			return
		}
		parsed, perr := codestream.NewParser(enc).Parse()
		if perr != nil {
			c.R.Fail("oracle", "pipe_tiles_layers", sig("pipetl", k.Case, "parse"), perr.Error(), k)
			return
		}
		if len(parsed.Tiles) != nt {
			c.R.Fail("oracle", "pipe_tiles_layers", sig("pipetl", k.Case, "tile-count"), fmt.Sprintf("%d tiles parsed, %d expected", len(parsed.Tiles), nt), k)
			return
		}
		joined := ""
		for j, t := range parsed.Tiles {
			if t.Index != j {
				c.R.Fail("oracle", "pipe_tiles_layers", sig("pipetl", k.Case, "tile-order"), "tile-parts are not in index order", k)
				return
			}
			if j > 0 {
				joined += ";"
			}
			joined += Hex(t.Data)
		}
		c.R.Oracle("pipe_tiles_layers")
		d := jpeg2000.NewDecoder()
		var out []byte
		if p, msg := Safely(func() {
			err = d.Decode(enc)
			if err == nil {
				out = d.GetPixelData()
			}
		}); p {
			c.R.Fail("oracle", "pipe_tiles_layers", sig("pipetl", k.Case, "decode-panic"), msg, k)
			return
		}
		if err != nil {
			c.R.Fail("oracle", "pipe_tiles_layers", sig("pipetl", k.Case, "decode-error"), err.Error(), k)
			return
		}
		if !bytes.Equal(out, src) {
			c.R.Fail("oracle", "pipe_tiles_layers", sig("pipetl", k.Case, "mismatch"), "decoded pixels differ from the source", k)
		}
		if !c.HasModel() {
			return
		}
		if k.W*k.H*k.Comps > maxSamples {
			c.R.Count("pipetl.model_skipped_too_large")
			return
		}
		al := c.M.Call("pipe_alloc_tl", k.TLArgs(joined)...)
		if len(al) < 3 || al[:3] != "ok:" {
			c.R.Fail("corr", "pipe_alloc_tl", sig("pipetl", k.Case, "alloc"), "model packet decoder does not parse a Go tile: "+al, k)
			return
		}
		alloc := al[3:]
		mEnc := c.M.Call("pipe_encode_tl", k.TLArgs(alloc, Hex(src))...)
		c.CorrEq("pipe_encode_tl", sig("pipetl", k.Case, "encode"), mEnc, "ok:"+joined, k)
		mCS := c.M.Call("pipe_encode_cs_tl", k.TLArgs(alloc, Hex(src))...)
		c.CorrEq("pipe_encode_cs_tl", sig("pipetl", k.Case, "codestream"), mCS, "ok:"+Hex(enc), k)
		mDec := c.M.Call("pipe_decode_tl", k.TLArgs(joined)...)
		c.CorrEq("pipe_decode_tl", sig("pipetl", k.Case, "decode"), mDec, "ok:"+Hex(out), k)
	})
}
