package pipeht

// Adversarial images for the Kmax fit (hyp_kmax_fit of Props/C06_pipe.v): for a decomposition depth
// d and a band kind, the sign pattern of the composite linear 5/3 analysis filter of one
// coefficient of that band (the input that attains the BIBO gain), with the two extreme sample
// values, in both polarities.  The HTJ2K Kmax of a band is derived from these gains; the tightest
// band is HH of depth 5 (gain 7.9513 of 8).  Checks per image: oracle ht_pipe_roundtrip (Go
// Decode(Go Encode) = image) and corr pht_hyps (the extracted checker: every coefficient of the
// MODEL's wavelet transform has at most Kmax magnitude bits, blocks <= 65535 bytes, and the Go
// packet headers deliver).

import (
	"bytes"
	"fmt"
	"math"
	"strings"

	"verif/harness/suites/j2ke2e"
	"verif/harness/suites/pipe"
	. "verif/harness/vhlib"
)

// one level of the linear (unrounded) 5/3 analysis, even origin, symmetric extension
func lin53(x []float64) []float64 {
	n := len(x)
	if n <= 1 {
		return x
	}
	ne, no := (n+1)/2, n/2
	d := make([]float64, no)
	for i := 0; i < no; i++ {
		a, c := x[2*i], x[2*i]
		if 2*i+2 < n {
			c = x[2*i+2]
		}
		d[i] = x[2*i+1] - (a+c)/2
	}
	s := make([]float64, ne)
	for i := 0; i < ne; i++ {
		l, r := d[0], d[no-1]
		if i > 0 {
			l = d[i-1]
		}
		if i < no {
			r = d[i]
		}
		s[i] = x[2*i] + (l+r)/4
	}
	return append(s, d...)
}

// filter row of output index `out` of the `levels`-level 1-D transform of n samples, and the
// index with the largest L1 norm inside [lo, hi)
func filterRows(n, levels int) [][]float64 {
	rows := make([][]float64, n)
	for i := range rows {
		rows[i] = make([]float64, n)
	}
	for j := 0; j < n; j++ {
		e := make([]float64, n)
		e[j] = 1
		cur := n
		for l := 0; l < levels && cur > 1; l++ {
			copy(e[:cur], lin53(append([]float64(nil), e[:cur]...)))
			cur = (cur + 1) / 2
		}
		for i := 0; i < n; i++ {
			rows[i][j] = e[i]
		}
	}
	return rows
}

func bestRow(rows [][]float64, lo, hi int) int {
	best, bl := lo, -1.0
	for i := lo; i < hi && i < len(rows); i++ {
		s := 0.0
		for _, v := range rows[i] {
			s += math.Abs(v)
		}
		if s > bl {
			best, bl = i, s
		}
	}
	return best
}

type biboCase struct {
	pipe.Case
	Depth    int
	Kind     string // LL HL LH HH
	Polarity int
}

func (k biboCase) samples() []int {
	n := k.W
	rows := filterRows(n, k.Levels)
	cur := n
	for l := 1; l < k.Depth; l++ {
		cur = (cur + 1) / 2
	}
	nl := (cur + 1) / 2
	lowIdx, highIdx := bestRow(rows, 0, nl), bestRow(rows, nl, cur)
	ry, rx := lowIdx, lowIdx // vertical filter (rows of the image), horizontal filter
	switch k.Kind {
	case "HL":
		rx = highIdx
	case "LH":
		ry = highIdx
	case "HH":
		ry, rx = highIdx, highIdx
	}
	lo, hi := 0, (1<<k.P)-1
	if k.Signed {
		lo, hi = -(1 << (k.P - 1)), (1<<(k.P-1))-1
	}
	out := make([]int, 0, n*n*k.Comps)
	for y := 0; y < n; y++ {
		for x := 0; x < n; x++ {
			p := rows[ry][y] * rows[rx][x] * float64(k.Polarity)
			v := lo
			if p > 0 {
				v = hi
			}
			for c := 0; c < k.Comps; c++ {
				w := v
				// with RCT: G opposite to R and B drives the chroma planes over their full range
				if k.MCT && k.Comps == 3 && c == 1 {
					w = lo + hi - v
				}
				out = append(out, w)
			}
		}
	}
	return out
}

func runPipeHTBibo(c *Ctx) {
	var cases []biboCase
	maxDepth := 3
	if c.N(0, 1) == 1 {
		maxDepth = 5
	}
	for _, P := range []int{8, 16, 12, 2, 1} {
		for depth := 1; depth <= maxDepth; depth++ {
			for _, kind := range []string{"HH", "HL", "LL"} {
				if kind == "LL" && depth < 2 {
					continue
				}
				for _, pol := range []int{1, -1} {
					for _, comps := range []int{1, 3} {
						if comps == 3 && (depth > 3 || P == 12 || P == 1) {
							continue
						}
						n := 4 << depth
						k := biboCase{Depth: depth, Kind: kind, Polarity: pol}
						k.Case = pipe.Case{W: n, H: n, Comps: comps, P: P, Signed: P == 12, Levels: depth, CBW: 64, CBH: 64, Prog: 2, MCT: comps == 3}
						cases = append(cases, k)
					}
				}
			}
		}
	}
	ParallelFor(len(cases), c.Work, func(i int) {
		k := cases[i]
		key := fmt.Sprintf("bibo P=%d s=%v c=%d depth=%d %s pol=%d n=%d", k.P, k.Signed, k.Comps, k.Depth, k.Kind, k.Polarity, k.W)
		c.R.Case(key, true, fmt.Sprintf("pht.bibo.P.%d", k.P), fmt.Sprintf("pht.bibo.depth.%d", k.Depth), "pht.bibo.kind."+k.Kind)
		sg := fmt.Sprintf("htj2k-bibo/%s:d%d:P%d:c%d", k.Kind, k.Depth, k.P, k.Comps)
		src := j2ke2e.Pack(k.samples(), k.P)
		var enc, out []byte
		var err error
		c.R.Oracle("ht_pipe_roundtrip")
		if p, msg := Safely(func() { enc, err = Encode(k.Case, append([]byte(nil), src...)) }); p || err != nil {
			c.R.Fail("oracle", "ht_pipe_roundtrip", sg+":encode", fmt.Sprintf("%v %v", msg, err), key)
			return
		}
		if p, msg := Safely(func() { _, out, err = Decode(enc) }); p || err != nil {
			c.R.Fail("oracle", "ht_pipe_roundtrip", sg+":decode", fmt.Sprintf("%v %v", msg, err), key)
			return
		}
		if !bytes.Equal(out, src) {
			c.R.Fail("oracle", "ht_pipe_roundtrip", sg+":roundtrip", "decoded pixels differ from the source", key)
		}
		if !c.HasModel() {
			return
		}
		tile, _, terr := TileBodies(enc)
		if terr != nil {
			c.R.Fail("oracle", "ht_pipe_roundtrip", sg+":tile-parts", terr.Error(), key)
			return
		}
		args := append(k.Case.Args(Hex(src)), Hex(tile))
		rep := c.M.Call("pht_hyps", args...)
		if len(rep) == len("ok:1,1,1,1") && strings.HasPrefix(rep, "ok:") {
			rep = rep[:5] + "*" + rep[6:]
		}
		c.CorrEq("pht_hyps", sg, rep, "ok:1,*,1,1", key)
	})
}
