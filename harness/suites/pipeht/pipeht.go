// Package pipeht: correspondence and oracle for the COMPOSED reversible single-tile HTJ2K path
// (coq/PipeHT/PhtModel.v: pht_encode_tile / pht_decode_tile = Pipe/PipeModel.v with the HT block
// coder, the HTJ2K band bit-depths / QCD and the HTJ2K pass layout; property C06).
// Exported API only (no build tag): jpeg2000.Encoder with HTJ2KMode + htj2k.NewHTEncoder,
// jpeg2000.Decoder with the htj2k.NewHTDecoder block decoder factory (what htj2k/codec.go does).
//
// The HTJ2K encoder writes one tile-part per resolution; the model's tile bytes are the
// concatenation of the tile-part bodies (TileBodies).
//
// Checks per case:
//
//	(a) oracle ht_pipe_roundtrip   Go Decode(Go Encode(pixels)) == pixels (+ reported geometry)
//	(b) corr   pht_decode          model pht_decode(Go tile bodies) == Go decoded pixels, EVERY case
//	(c) corr   pht_encode          model pht_encode(pixels) == Go tile bodies, ONLY when the model's
//	                               pht_blocks shows no block with npt = 0 (no all-zero code-block): the
//	                               model uses the classic packet-header coder, which coincides with
//	                               encodeHTJ2KPacketHeader only then.  The other cases are compared
//	                               too but only COUNTED (pht.encode_skipped_equal / _different).
//	(d) corr   pht_blocks          per code-block (zbp, npt, data) of the model == what the Go encoder's
//	                               block encoders were handed / produced, observed without hooks through
//	                               a recording BlockEncoderFactory wrapper around htj2k.NewHTEncoder
//	                               (a second Encode, whose codestream must equal the first one):
//	                               npt = 1 iff Encode was called, data = Encode's result, zbp = Kmax - 1
//	                               (Kmax on the error fallback) with Kmax the value given to SetKMax.
//	(e) corr   pht_hyps            the named hypotheses of the Coq theorems (Props/C06_pipe.v), evaluated by
//	                               the extracted checker PhtHyps.pht_hyps (sound: C06_pipe_ht_hyps_checker_sound)
//	                               on the image and on the tile bodies GO wrote, EVERY case: every wavelet
//	                               coefficient has at most Kmax magnitude bits (hyp_kmax_fit), no HT block is
//	                               longer than 65535 bytes (hyp_ht_block_sizes), and DecodePackets/gatherCBData
//	                               on the Go bytes deliver every non-zero code-block as encoded (bytes, 1 pass,
//	                               Kmax-1 zero bit planes) and nothing for the all-zero ones (hyp_t2_delivers -
//	                               the un-modelled encodeHTJ2KPacketHeader is covered this way).  The
//	                               no-zero-block flag only classifies (pht.hyp_no_zero_block_holds).
package pipeht

import (
	"bytes"
	"encoding/binary"
	"encoding/json"
	"fmt"
	"strings"
	"sync"

	"github.com/cocosip/go-dicom-codecs/jpeg2000"
	"github.com/cocosip/go-dicom-codecs/jpeg2000/htj2k"
	"github.com/cocosip/go-dicom-codecs/jpeg2000/t2"
	"verif/harness/suites/pipe"
	. "verif/harness/vhlib"
)

// Register adds this area's suite.
func Register(s Suites) {
	s.Add("C06", runPipeHT)
	s.Add("C06", runPipeHTBibo)
}

// Case is a pipe.Case (same parameter prefix, same content generator) plus the level class.
type Case struct {
	pipe.Case
	AboveClamp bool // Levels > htj2k.calculateMaxLevels(W, H) (the codec front end would clamp)
}

var contentNames = []string{"noise", "extremes", "ramp", "const", "sparse", "checker", "flat-end", "lowpass-sign"}

func b01(b bool) string {
	if b {
		return "1"
	}
	return "0"
}

// MaxLevels is htj2k.calculateMaxLevels: the smallest L with 2^L >= min(w, h), capped at 6.
func MaxLevels(w, h int) int {
	m := w
	if h < m {
		m = h
	}
	if m <= 0 {
		return 0
	}
	l := 0
	for (1 << l) < m {
		l++
	}
	if l > 6 {
		l = 6
	}
	return l
}

// Params are the encoder parameters of htj2k/codec.go's lossless Encode for this case.
func Params(k pipe.Case, factory func(w, h int) jpeg2000.BlockEncoder) *jpeg2000.EncodeParams {
	p := jpeg2000.DefaultEncodeParams(k.W, k.H, k.Comps, k.P, k.Signed)
	p.NumLevels = k.Levels
	p.CodeBlockWidth, p.CodeBlockHeight = k.CBW, k.CBH
	p.ProgressionOrder = uint8(k.Prog)
	p.NumLayers = 1
	p.EnableMCT = k.MCT
	p.Lossless = true
	p.HTJ2KMode = true
	p.BlockEncoderFactory = factory
	return p
}

func htFactory(w, h int) jpeg2000.BlockEncoder { return htj2k.NewHTEncoder(w, h) }

// Encode runs the Go HTJ2K encoder.
func Encode(k pipe.Case, pix []byte) ([]byte, error) {
	return jpeg2000.NewEncoder(Params(k, htFactory)).Encode(pix)
}

// Decode runs the Go HTJ2K decoder.
func Decode(cs []byte) (*jpeg2000.Decoder, []byte, error) {
	d := jpeg2000.NewDecoder()
	d.SetBlockDecoderFactory(func(w, h int, _ int) t2.BlockDecoder { return htj2k.NewHTDecoder(w, h) })
	if err := d.Decode(cs); err != nil {
		return d, nil, err
	}
	return d, d.GetPixelData(), nil
}

// TileBodies walks the main header to the first SOT and concatenates the bodies (the bytes after
// SOD up to SOT + Psot) of all tile-parts in order; the last tile-part must end at EOC.  It also
// returns the number of tile-parts and checks Isot = 0, TPsot = running index, TNsot = count.
func TileBodies(cs []byte) ([]byte, int, error) {
	n := len(cs)
	if n < 4 || cs[0] != 0xFF || cs[1] != 0x4F {
		return nil, 0, fmt.Errorf("no SOC")
	}
	if cs[n-2] != 0xFF || cs[n-1] != 0xD9 {
		return nil, 0, fmt.Errorf("no EOC at the end")
	}
	pos := 2
	for {
		if pos+4 > n || cs[pos] != 0xFF {
			return nil, 0, fmt.Errorf("marker expected at %d", pos)
		}
		if cs[pos+1] == 0x90 {
			break
		}
		pos += 2 + int(binary.BigEndian.Uint16(cs[pos+2:]))
	}
	var out []byte
	parts := 0
	tn := -1
	for pos != n-2 {
		if pos+12 > n || cs[pos] != 0xFF || cs[pos+1] != 0x90 {
			return nil, parts, fmt.Errorf("SOT expected at %d", pos)
		}
		sot := pos
		if binary.BigEndian.Uint16(cs[sot+2:]) != 10 {
			return nil, parts, fmt.Errorf("Lsot != 10 at %d", sot)
		}
		if binary.BigEndian.Uint16(cs[sot+4:]) != 0 {
			return nil, parts, fmt.Errorf("Isot != 0 at %d", sot)
		}
		psot := int(binary.BigEndian.Uint32(cs[sot+6:]))
		if psot < 14 || sot+psot > n-2 {
			return nil, parts, fmt.Errorf("Psot %d at %d runs past EOC (len %d)", psot, sot, n)
		}
		if int(cs[sot+10]) != parts {
			return nil, parts, fmt.Errorf("TPsot %d, expected %d", cs[sot+10], parts)
		}
		if tn < 0 {
			tn = int(cs[sot+11])
		} else if tn != int(cs[sot+11]) {
			return nil, parts, fmt.Errorf("TNsot changes")
		}
		pos = sot + 12
		for {
			if pos+2 > sot+psot || cs[pos] != 0xFF {
				return nil, parts, fmt.Errorf("marker expected at %d in tile-part header", pos)
			}
			if cs[pos+1] == 0x93 {
				break
			}
			pos += 2 + int(binary.BigEndian.Uint16(cs[pos+2:]))
		}
		out = append(out, cs[pos+2:sot+psot]...)
		pos = sot + psot
		parts++
	}
	if tn != parts {
		return nil, parts, fmt.Errorf("TNsot %d but %d tile-parts", tn, parts)
	}
	return out, parts, nil
}

// ---- (d): observing the code-blocks through the exported BlockEncoderFactory ----

type blockRec struct {
	w, h, kmax int
	kmaxSet    bool
	called     bool
	failed     bool
	data       []byte
}

type recorder struct {
	mu   sync.Mutex
	recs []*blockRec
}

type recEnc struct {
	inner *htj2k.HTEncoder
	rec   *blockRec
}

func (e *recEnc) SetKMax(k int) { e.rec.kmax, e.rec.kmaxSet = k, true; e.inner.SetKMax(k) }
func (e *recEnc) Encode(co []int32, np int, roishift int) ([]byte, error) {
	b, err := e.inner.Encode(co, np, roishift)
	e.rec.called = true
	e.rec.failed = err != nil
	e.rec.data = append([]byte(nil), b...)
	return b, err
}

func (r *recorder) factory(w, h int) jpeg2000.BlockEncoder {
	b := &blockRec{w: w, h: h}
	r.mu.Lock()
	r.recs = append(r.recs, b)
	r.mu.Unlock()
	return &recEnc{inner: htj2k.NewHTEncoder(w, h), rec: b}
}

// goBlocks renders the recorded blocks as "zbp,npt:hex" in creation order.
func (r *recorder) goBlocks() string {
	var sb []string
	for _, b := range r.recs {
		zbp := b.kmax - 1
		if zbp < 0 {
			zbp = 0
		}
		npt := 0
		hx := "_"
		if b.called {
			npt = 1
			if b.failed {
				zbp = b.kmax
				hx = "00"
			} else if len(b.data) > 0 {
				hx = Hex(b.data)
			}
		}
		sb = append(sb, fmt.Sprintf("%d,%d:%s", zbp, npt, hx))
	}
	return strings.Join(sb, ";")
}

// modelBlocks parses a pht_blocks reply: the "zbp,npt:hex" list in model order (components in
// order, blocks of a component in enc_blocks order), the number of blocks and of npt = 0 blocks.
func modelBlocks(reply string) (flat string, nblocks, nzero int, ok bool) {
	if !strings.HasPrefix(reply, "ok:") {
		return "", 0, 0, false
	}
	var sb []string
	for _, comp := range strings.Split(reply[3:], "|") {
		if comp == "-" || comp == "" {
			continue
		}
		for _, blk := range strings.Split(comp, ";") {
			i := strings.IndexByte(blk, ':')
			if i < 0 {
				return "", 0, 0, false
			}
			f := strings.Split(blk[:i], ",") // res,pidx,band,cbx,cby,zbp,npt
			if len(f) != 7 {
				return "", 0, 0, false
			}
			nblocks++
			if f[6] == "0" {
				nzero++
			}
			sb = append(sb, f[5]+","+f[6]+":"+blk[i+1:])
		}
	}
	return strings.Join(sb, ";"), nblocks, nzero, true
}

func pow2(r *Rand, lo, hi int) int { return 1 << r.Range(lo, hi) }

func gen(r *Rand) Case {
	k := Case{}
	k.Seed = r.U64()
	switch r.Intn(6) {
	case 0:
		k.W, k.H = r.Range(1, 8), r.Range(1, 8)
	case 1:
		cb := 1 << r.Range(2, 4)
		k.W, k.H = cb*r.Range(1, 2)+r.Range(-1, 1), cb*r.Range(1, 2)+r.Range(-1, 1)
	case 2:
		k.W, k.H = r.Range(1, 40), r.Range(1, 6)
		if r.Bool() {
			k.W, k.H = k.H, k.W
		}
	default:
		k.W, k.H = r.Range(1, 40), r.Range(1, 40)
	}
	if k.W < 1 {
		k.W = 1
	}
	if k.H < 1 {
		k.H = 1
	}
	k.Comps = r.Pick(1, 1, 1, 1, 3, 3, 3, 3, 2, 4)
	if r.Intn(4) == 0 {
		k.P = r.Range(1, 16)
	} else {
		k.P = r.Pick(8, 8, 16, 16, 12)
	}
	k.Signed = r.Intn(3) == 0
	clamp := MaxLevels(k.W, k.H)
	if r.Intn(5) == 0 {
		k.Levels = r.Range(0, 6) // possibly above the codec front end's clamp
	} else {
		k.Levels = r.Range(0, clamp)
	}
	k.AboveClamp = k.Levels > clamp
	for {
		k.CBW, k.CBH = pow2(r, 2, 6), pow2(r, 2, 6)
		if r.Intn(3) == 0 {
			k.CBW, k.CBH = pow2(r, 2, 3), pow2(r, 2, 3) // many blocks per band
		}
		if k.CBW*k.CBH <= 4096 {
			break
		}
	}
	k.Prog = r.Pick(2, 2, 2, 2, 0, 1)
	k.MCT = r.Bool()
	k.Content = r.Pick(0, 0, 0, 1, 2, 3, 4, 5, 7, 7)
	return k
}

const maxSamples = 6400

func sig(k Case, site string) string {
	sg := "u"
	if k.Signed {
		sg = "s"
	}
	return fmt.Sprintf("htj2k-%s/%s:%s:c%d:mct%s", site, contentNames[k.Content], sg, k.Comps, b01(k.MCT && k.Comps >= 3))
}

func runPipeHT(c *Ctx) {
	c.R.Rule = "composed single-tile reversible HTJ2K path (HTJ2KMode, htj2k.NewHTEncoder / NewHTDecoder, 1 layer, default precincts, one tile-part per resolution): random configurations, sizes 1..40 (tiny, around code-block multiples, strips, grid), comps 1/3 mostly (some 2/4), P 8/16/12 mostly (some 1..16), signed, levels 0..calculateMaxLevels (a fifth 0..6 regardless of the clamp), cb 4..64 (area <= 4096), progressions LRCP/RLCP/RPCL (mostly RPCL), MCT; content noise/extremes/ramp/const/sparse/checker/low-pass-sign; oracle: Decode(Encode(p)) = p; compared: decoded pixels (every case), concatenated tile-part bodies (cases without an all-zero code-block; the others counted), per-block zbp/npt/data; non-trivial = more than one sample and not constant"
	n := c.N(400, 5000)
	rng := c.Rng.Fork()
	cases := make([]Case, 0, n)
	for _, raw := range append(c.CorpusInputs("pipeht"), c.ReplayInputs("pipeht")...) {
		var k Case
		if json.Unmarshal(raw, &k) == nil && k.W > 0 {
			cases = append(cases, k)
		}
	}
	for len(cases) < n {
		cases = append(cases, gen(rng))
	}
	ParallelFor(len(cases), c.Work, func(i int) {
		k := cases[i]
		lvc := "within_clamp"
		if k.AboveClamp {
			lvc = "above_clamp"
		}
		c.R.Case(k.String(), k.Content != 3 && k.W*k.H > 1, fmt.Sprintf("pht.P.%d", k.P), fmt.Sprintf("pht.levels.%d", k.Levels),
			"pht.levels_class."+lvc, fmt.Sprintf("pht.comps.%d", k.Comps), fmt.Sprintf("pht.prog.%d", k.Prog),
			"pht.content."+contentNames[k.Content], fmt.Sprintf("pht.cb.%dx%d", k.CBW, k.CBH), "pht.mct."+b01(k.MCT), "pht.signed."+b01(k.Signed))
		if i < 2 {
			c.R.Sample(k)
		}
		pix := k.Pixels()
		src := append([]byte(nil), pix...)
		// ---- implementation: encode, tile-part bodies, decode ----
		var enc []byte
		var err error
		if p, msg := Safely(func() { enc, err = Encode(k.Case, pix) }); p {
			c.R.Fail("oracle", "ht_pipe_roundtrip", sig(k, "encode-panic"), msg, k)
			return
		}
		if err != nil {
			c.R.Fail("oracle", "ht_pipe_roundtrip", sig(k, "encode-error"), err.Error(), k)
			return
		}
		if k.AboveClamp {
			c.R.Count("pht.above_clamp_encoder_accepted")
		}
		tile, parts, terr := TileBodies(enc)
		if terr != nil {
			c.R.Fail("oracle", "ht_pipe_roundtrip", sig(k, "tile-parts"), terr.Error(), k)
			return
		}
		if parts != k.Levels+1 {
			c.R.Fail("oracle", "ht_pipe_roundtrip", sig(k, "tile-part-count"), fmt.Sprintf("%d tile-parts, %d expected", parts, k.Levels+1), k)
			return
		}
		// (a) oracle: exact reconstruction + reported geometry
		c.R.Oracle("ht_pipe_roundtrip")
		var d *jpeg2000.Decoder
		var out []byte
		if p, msg := Safely(func() { d, out, err = Decode(enc) }); p {
			c.R.Fail("oracle", "ht_pipe_roundtrip", sig(k, "decode-panic"), msg, k)
			return
		}
		if err != nil {
			c.R.Fail("oracle", "ht_pipe_roundtrip", sig(k, "decode-error"), err.Error(), k)
			return
		}
		if d.Width() != k.W || d.Height() != k.H || d.Components() != k.Comps || d.BitDepth() != k.P || d.IsSigned() != k.Signed {
			c.R.Fail("oracle", "ht_pipe_roundtrip", sig(k, "geometry"), "decoder reports a different geometry", k)
		}
		if !bytes.Equal(out, src) {
			c.R.Fail("oracle", "ht_pipe_roundtrip", sig(k, "roundtrip"), "decoded pixels differ from the source", k)
		}
		// ---- correspondence with the composed model ----
		if !c.HasModel() {
			return
		}
		if k.W*k.H*k.Comps > maxSamples {
			c.R.Count("pht.model_skipped_too_large")
			return
		}
		args := func(payload string) []string { return k.Case.Args(payload) }
		// (b) decoder on every case
		mDec := c.M.Call("pht_decode", args(Hex(tile))...)
		c.CorrEq("pht_decode", sig(k, "decode"), mDec, "ok:"+Hex(out), k)
		// (c) encoder where the model's header coder applies
		mBlk := c.M.Call("pht_blocks", args(Hex(src))...)
		flat, nblocks, nzero, ok := modelBlocks(mBlk)
		if !ok {
			c.R.Fail("corr", "pht_blocks", sig(k, "blocks"), "model pht_blocks is not ok: "+mBlk, k)
			return
		}
		mEnc := c.M.Call("pht_encode", args(Hex(src))...)
		want := "ok:" + Hex(tile)
		// (c') the encoder model WITH the HTJ2K packet-header coder (PipeHT/PhtProofsZeroDef.v) on EVERY
		// image, all-zero code-blocks included; "?" = the operation is not in this model.exe
		if mz := c.M.Call("phtz_encode", args(Hex(src))...); mz != "?" {
			c.R.Count("pht.encode_z_compared")
			if nzero > 0 {
				c.R.Count("pht.encode_z_compared_with_zero_block")
			}
			c.CorrEq("phtz_encode", sig(k, "encode-z"), mz, want, k)
		}
		if nzero == 0 {
			c.R.Count("pht.encode_compared")
			c.CorrEq("pht_encode", sig(k, "encode"), mEnc, want, k)
		} else {
			c.R.Count("pht.encode_skipped_zero_block")
			if nzero == nblocks {
				c.R.Count("pht.encode_skipped_all_blocks_zero")
			}
			if mEnc == want {
				c.R.Count("pht.encode_skipped_equal")
			} else {
				c.R.Count("pht.encode_skipped_different")
			}
		}
		// (e) the named hypotheses of the Coq theorems, evaluated by the model on this image and on the
		// tile bytes GO wrote (PhtHyps.pht_hyps; PhtProofsHyps.pht_hyps_sound): every wavelet coefficient
		// fits Kmax, no HT block is longer than 65535 bytes, and the Go packet headers DELIVER every
		// non-zero code-block as encoded and nothing for the all-zero ones (hyp_t2_delivers).  The
		// no-zero-block flag only classifies.
		hargs := k.Case.Args(Hex(src))
		hargs = append(hargs, Hex(tile))
		mHyp := c.M.Call("pht_hyps", hargs...)
		c.R.Count("pht.hyps_evaluated")
		if len(mHyp) == len("ok:1,1,1,1") && strings.HasPrefix(mHyp, "ok:") {
			if mHyp[5] == '1' {
				c.R.Count("pht.hyp_no_zero_block_holds")
			}
			norm := mHyp[:5] + "*" + mHyp[6:]
			c.CorrEq("pht_hyps", sig(k, "hyps"), norm, "ok:1,*,1,1", k)
		} else {
			c.CorrEq("pht_hyps", sig(k, "hyps"), mHyp, "ok:1,*,1,1", k)
		}
		// (d) per-block view through a recording block encoder factory
		rec := &recorder{}
		var enc2 []byte
		if p, msg := Safely(func() {
			enc2, err = jpeg2000.NewEncoder(Params(k.Case, rec.factory)).Encode(append([]byte(nil), src...))
		}); p || err != nil {
			c.R.Fail("corr", "pht_blocks", sig(k, "blocks-reencode"), fmt.Sprintf("recording encode failed: %v %v", msg, err), k)
			return
		}
		if !bytes.Equal(enc2, enc) {
			c.R.Fail("corr", "pht_blocks", sig(k, "blocks-reencode"), "codestream with the recording factory differs", k)
			return
		}
		for _, b := range rec.recs {
			if !b.kmaxSet {
				c.R.Count("pht.blocks_without_setkmax")
			}
			if b.failed {
				c.R.Count("pht.block_encode_error_fallback")
			}
		}
		c.CorrEq("pht_blocks", sig(k, "blocks"), flat, rec.goBlocks(), k)
	})
}
