// Package mq: correspondence and oracles for the MQ arithmetic coder (jpeg2000/mqc).
//
//	C20  encoder bytes / decoder bits, model vs Go; Go round trip; exhaustive short sequences;
//	     API scripts over the termination / bypass / restart functions (model vs Go state)
//	C16  no unescaped marker in MQ encoder output (FF followed by > 0x8F; trailing FF)
//	C08  Go MQ / raw decoder on arbitrary bytes never panics; bits equal the model's
package mq

import (
	"fmt"
	"reflect"
	"strconv"
	"strings"
	"sync/atomic"

	"github.com/cocosip/go-dicom-codecs/jpeg2000/mqc"
	. "verif/harness/vhlib"
)

// Register adds this area's suites.
func Register(s Suites) {
	s.Add("C20", runC20)
	s.Add("C16", runC16)
	s.Add("C08", runC08)
}

// ---------- case generation ----------

type seq struct {
	n    int   // number of contexts
	init []int // initial context bytes (state | mps<<7), nil = all zero
	bits []int
	ctxs []int
	kind string
	bias int
}

func (s seq) pairs() string {
	if len(s.bits) == 0 {
		return "_"
	}
	var sb strings.Builder
	sb.Grow(len(s.bits) * 5)
	for i := range s.bits {
		if i > 0 {
			sb.WriteByte(',')
		}
		sb.WriteString(strconv.Itoa(s.bits[i]))
		sb.WriteByte(':')
		sb.WriteString(strconv.Itoa(s.ctxs[i]))
	}
	return sb.String()
}

func (s seq) input() map[string]interface{} {
	m := map[string]interface{}{"nctx": s.n, "kind": s.kind, "bias": s.bias, "len": len(s.bits)}
	if len(s.bits) <= 4000 {
		m["pairs"] = s.pairs()
	} else {
		m["pairs_prefix"] = seq{bits: s.bits[:4000], ctxs: s.ctxs[:4000]}.pairs()
	}
	if s.init != nil {
		m["init"] = Ints(s.init)
	}
	return m
}

func bitsString(b []int) string {
	if len(b) == 0 {
		return "_"
	}
	bs := make([]byte, len(b))
	for i, x := range b {
		bs[i] = byte('0' + x)
	}
	return string(bs)
}

func newEnc(s seq) *mqc.MQEncoder {
	e := mqc.NewMQEncoder(s.n)
	for i, v := range s.init {
		e.SetContextState(i, uint8(v))
	}
	return e
}

func newDec(data []byte, s seq) *mqc.MQDecoder {
	d := mqc.NewMQDecoder(data, s.n)
	for i, v := range s.init {
		d.SetContextState(i, uint8(v))
	}
	return d
}

// genSeq builds one (bit, ctx) sequence. Adaptive kinds (all-MPS / all-LPS) follow the
// encoder's own context state, so they need an encoder while generating.
func genSeq(rng *Rand, length int, kindSel int) seq {
	s := seq{n: rng.Range(1, 19)}
	if kindSel%7 == 3 {
		s.n = 19
	}
	if rng.Intn(4) == 0 {
		s.init = make([]int, s.n)
		for i := range s.init {
			switch rng.Intn(3) {
			case 0:
				s.init[i] = 0
			default:
				s.init[i] = rng.Intn(47) | rng.Intn(2)<<7
			}
		}
		if s.n == 19 && rng.Bool() { // the T1 initialisation
			s.init = make([]int, 19)
			s.init[18], s.init[17], s.init[0] = 46, 3, 4
		}
	}
	s.bits = make([]int, length)
	s.ctxs = make([]int, length)
	kinds := []string{"random", "allmps", "alllps", "alternate", "bursts", "perctx", "onectx"}
	s.kind = kinds[kindSel%len(kinds)]
	s.bias = rng.Pick(0, 1, 2, 5, 10, 25, 50, 50, 75, 90, 95, 98, 99, 100)
	var shadow *mqc.MQEncoder
	if s.kind == "allmps" || s.kind == "alllps" {
		shadow = newEnc(s)
	}
	ctxBias := make([]int, s.n)
	for i := range ctxBias {
		ctxBias[i] = rng.Pick(0, 3, 10, 50, 90, 97, 100)
	}
	burst, burstBit := 0, 0
	oneCtx := rng.Intn(s.n)
	for i := 0; i < length; i++ {
		cx := rng.Intn(s.n)
		if s.kind == "onectx" {
			cx = oneCtx
		}
		var b int
		switch s.kind {
		case "random", "onectx":
			if rng.Intn(100) < s.bias {
				b = 1
			}
		case "allmps":
			b = int(shadow.GetContextState(cx) >> 7)
		case "alllps":
			b = 1 - int(shadow.GetContextState(cx)>>7)
		case "alternate":
			b = i & 1
		case "bursts":
			if burst == 0 {
				burst = rng.Range(1, 200)
				burstBit = rng.Intn(2)
			}
			burst--
			b = burstBit
		case "perctx":
			if rng.Intn(100) < ctxBias[cx] {
				b = 1
			}
		}
		if shadow != nil {
			shadow.Encode(b, cx)
		}
		s.bits[i], s.ctxs[i] = b, cx
	}
	return s
}

func pickLen(rng *Rand, i int, thor bool) int {
	small := []int{0, 1, 2, 3, 5, 8, 13, 16, 17, 31, 64}
	if i < len(small) {
		return small[i]
	}
	switch rng.Intn(10) {
	case 0:
		return rng.Range(0, 20)
	case 1, 2, 3:
		return rng.Range(20, 300)
	default:
		if thor {
			switch rng.Intn(6) {
			case 0:
				return 100000
			case 1:
				return rng.Range(20000, 100000)
			default:
				return rng.Range(300, 20000)
			}
		}
		return rng.Range(300, 2000)
	}
}

func lenBucket(n int) string {
	switch {
	case n == 0:
		return "0"
	case n <= 16:
		return "1-16"
	case n <= 300:
		return "17-300"
	case n <= 2000:
		return "301-2000"
	case n <= 20000:
		return "2001-20000"
	default:
		return "20001-100000"
	}
}

// markerViolation returns "" if out has no FF followed by > 0x8F and does not end in FF.
func markerViolation(out []byte) string {
	for i := 0; i+1 < len(out); i++ {
		if out[i] == 0xFF && out[i+1] > 0x8F {
			return fmt.Sprintf("FF %02X at offset %d", out[i+1], i)
		}
	}
	if len(out) > 0 && out[len(out)-1] == 0xFF {
		return "segment ends in FF"
	}
	return ""
}

// ---------- C20 ----------

func runC20(c *Ctx) {
	c.R.Rule = "MQ: random (bit,ctx) sequences, 1..19 contexts, bias 0..100 %, kinds random/all-MPS/all-LPS/alternating/bursts/per-context, " +
		"random valid initial context states in 1/4 of the cases; non-trivial = length > 0; exhaustive = all sequences over 2 contexts up to the stated length; " +
		"scripts = T1-like and arbitrary call orders over Encode/Flush/Erterm/Segmark/Bypass*/RestartInit/Reset*"
	c20Random(c)
	c20Exhaustive(c)
	c20Scripts(c)
	bypassAdversarial(c, "mq_bypass")
	garbageDecode(c, "mq_dec_garbage", c.N(400, 6000))
}

func c20Random(c *Ctx) {
	n := c.N(420, 2400)
	rng := c.Rng.Fork()
	cases := make([]seq, n)
	for i := range cases {
		cases[i] = genSeq(rng, pickLen(rng, i/7, c.Thor), i)
	}
	ParallelFor(n, c.Work, func(i int) {
		s := cases[i]
		ps := s.pairs()
		c.R.Case(fmt.Sprintf("mq:%d:%v:%s", s.n, s.init, ps), len(s.bits) > 0,
			"mq.len."+lenBucket(len(s.bits)), "mq.kind."+s.kind, fmt.Sprintf("mq.nctx.%02d", s.n))
		if i == 5 {
			c.R.Sample(map[string]interface{}{"suite": "mq", "case": s.input()})
		}
		in := s.input()
		// implementation: encode
		var out []byte
		if p, msg := Safely(func() {
			e := newEnc(s)
			for j := range s.bits {
				e.Encode(s.bits[j], s.ctxs[j])
			}
			out = append([]byte(nil), e.Flush()...)
		}); p {
			c.R.Fail("oracle", "mq_roundtrip", "mq:enc:panic", "encoder panicked: "+msg, in)
			return
		}
		// correspondence: encoder bytes
		var got string
		if c.HasModel() {
			if s.init == nil {
				got = c.M.Call("mq_encode", strconv.Itoa(s.n), ps)
			} else {
				got = c.M.Call("mq_encode_cx", Ints(s.init), ps)
			}
		}
		c.CorrEq("mq_encode", "mq:enc", got, Hex(out), in)
		// implementation: decode
		dec := make([]int, len(s.bits))
		if p, msg := Safely(func() {
			d := newDec(out, s)
			for j := range s.ctxs {
				dec[j] = d.Decode(s.ctxs[j])
			}
		}); p {
			c.R.Fail("oracle", "mq_roundtrip", "mq:dec:panic", "decoder panicked on encoder output: "+msg, in)
			return
		}
		if c.HasModel() {
			if s.init == nil {
				got = c.M.Call("mq_decode", strconv.Itoa(s.n), Ints(s.ctxs), Hex(out))
			} else {
				got = c.M.Call("mq_decode_cx", Ints(s.init), Ints(s.ctxs), Hex(out))
			}
		}
		c.CorrEq("mq_decode", "mq:dec", got, "ok:"+bitsString(dec), in)
		// oracle: the decoder returns the bits given to the encoder
		c.R.Oracle("mq_roundtrip")
		for j := range s.bits {
			if dec[j] != s.bits[j] {
				c.R.Fail("oracle", "mq_roundtrip", "mq:roundtrip", fmt.Sprintf("decoded bit %d differs (len %d)", j, len(s.bits)), in)
				break
			}
		}
	})
}

// all sequences of (bit, ctx) pairs with ctx < 2 up to length L, through the Go coder
func c20Exhaustive(c *Ctx) {
	maxL := c.N(12, 16)
	var total, bad int64
	for L := 0; L <= maxL; L++ {
		// split on the first min(L,4) symbols
		pre := L
		if pre > 4 {
			pre = 4
		}
		chunks := 1 << (2 * uint(pre))
		restN := uint64(1) << (2 * uint(L-pre))
		ParallelFor(chunks, c.Work, func(ch int) {
			bits := make([]int, L)
			ctxs := make([]int, L)
			dec := make([]int, L)
			for r := uint64(0); r < restN; r++ {
				code := uint64(ch) | r<<(2*uint(pre))
				for j := 0; j < L; j++ {
					bits[j] = int(code>>(2*uint(j))) & 1
					ctxs[j] = int(code>>(2*uint(j)+1)) & 1
				}
				e := mqc.NewMQEncoder(2)
				for j := 0; j < L; j++ {
					e.Encode(bits[j], ctxs[j])
				}
				out := e.Flush()
				d := mqc.NewMQDecoder(out, 2)
				ok := markerViolation(out) == ""
				for j := 0; j < L; j++ {
					dec[j] = d.Decode(ctxs[j])
					if dec[j] != bits[j] {
						ok = false
					}
				}
				if !ok {
					atomic.AddInt64(&bad, 1)
					s := seq{n: 2, bits: append([]int(nil), bits...), ctxs: append([]int(nil), ctxs...), kind: "exhaustive"}
					c.R.Fail("oracle", "mq_exhaustive", "mq:roundtrip", fmt.Sprintf("length %d sequence does not round-trip / marker rule: %s", L, markerViolation(out)), s.input())
				}
			}
			atomic.AddInt64(&total, int64(restN))
			c.R.Case(fmt.Sprintf("mqx:%d:%d", L, ch), L > 0, fmt.Sprintf("mq.exhaustive.len.%02d", L))
			c.R.Oracle("mq_exhaustive")
		})
	}
	c.R.Note("mq_exhaustive: all %d sequences of length <= %d over 2 contexts encoded+decoded by the Go coder (each chunk of up to 4^%d sequences counted as one evaluation); failures %d",
		total, maxL, maxL-4, bad)
	// the same set through the model for small lengths (correspondence on the complete set)
	mL := c.N(5, 7)
	if c.HasModel() {
		for L := 0; L <= mL; L++ {
			cnt := 1 << (2 * uint(L))
			ParallelFor(cnt, c.Work, func(code int) {
				s := seq{n: 2, bits: make([]int, L), ctxs: make([]int, L), kind: "exhaustive"}
				for j := 0; j < L; j++ {
					s.bits[j] = (code >> (2 * uint(j))) & 1
					s.ctxs[j] = (code >> (2*uint(j) + 1)) & 1
				}
				e := mqc.NewMQEncoder(2)
				for j := 0; j < L; j++ {
					e.Encode(s.bits[j], s.ctxs[j])
				}
				out := e.Flush()
				c.CorrEq("mq_encode_exh", "mq:enc", c.M.Call("mq_encode", "2", s.pairs()), Hex(out), s.input())
			})
		}
	}
}

// ---------- API scripts (termination / bypass / restart) ----------

type cmd struct{ op, x, y int }

func cmdsString(cs []cmd) string {
	if len(cs) == 0 {
		return "_"
	}
	var sb strings.Builder
	for i, k := range cs {
		if i > 0 {
			sb.WriteByte(',')
		}
		fmt.Fprintf(&sb, "%d:%d:%d", k.op, k.x, k.y)
	}
	return sb.String()
}

// encState renders the observable and (through reflection, read-only) internal encoder state
// in the format of the model's mq_script reply.
func encState(e *mqc.MQEncoder, n int) string {
	v := reflect.ValueOf(e).Elem()
	a := v.FieldByName("a").Uint()
	cc := v.FieldByName("c").Uint()
	ct := v.FieldByName("ct").Int()
	bp := v.FieldByName("bp").Int()
	bl := v.FieldByName("buffer").Len()
	cx := make([]int, n)
	for i := range cx {
		cx[i] = int(e.GetContextState(i))
	}
	return fmt.Sprintf("ok:%s|%d|%d,%d,%d,%d,%d|%s|%d,%d", Hex(e.GetBuffer()), e.NumBytes(), a, cc, ct, bp, bl, Ints(cx),
		e.BypassExtraBytes(false), e.BypassExtraBytes(true))
}

func runScript(n int, cs []cmd) (res string) {
	e := mqc.NewMQEncoder(n)
	if p, _ := Safely(func() { applyCmds(e, cs) }); p {
		return "panic"
	}
	return encState(e, n)
}

// T1-like script: passes of MQ or raw decisions, each terminated the way t1/encoder.go does.
func genT1Script(rng *Rand, thor bool) (int, []cmd) {
	n := 19
	var cs []cmd
	cs = append(cs, cmd{9, 18, 46}, cmd{9, 17, 3}, cmd{9, 0, 4})
	passes := rng.Range(1, 12)
	maxSym := 60
	if thor {
		maxSym = 400
	}
	termall := rng.Bool()
	pterm := rng.Bool()
	lazy := rng.Bool()
	segsym := rng.Bool()
	reset := rng.Bool()
	bias := rng.Pick(2, 10, 50, 90, 98)
	raw := false
	for p := 0; p < passes; p++ {
		last := p == passes-1
		k := rng.Range(0, maxSym)
		if raw {
			for i := 0; i < k; i++ {
				cs = append(cs, cmd{5, b2i(rng.Intn(100) < bias), 0})
			}
		} else {
			for i := 0; i < k; i++ {
				cs = append(cs, cmd{0, b2i(rng.Intn(100) < bias), rng.Intn(n)})
			}
			if segsym && p%3 == 2 {
				cs = append(cs, cmd{3, 0, 0})
			}
		}
		nextRaw := lazy && p >= 3 && (p%3 != 2) && !last
		term := termall || last || (raw != nextRaw) || (lazy && p >= 3)
		if term {
			if raw {
				cs = append(cs, cmd{6, b2i(pterm), 0})
			} else if pterm {
				cs = append(cs, cmd{2, 0, 0})
			} else {
				cs = append(cs, cmd{1, 0, 0})
			}
			if !last {
				if nextRaw {
					cs = append(cs, cmd{4, 0, 0})
				} else {
					cs = append(cs, cmd{7, 0, 0})
				}
			}
		}
		if reset && !last {
			cs = append(cs, cmd{8, 0, 0}, cmd{9, 18, 46}, cmd{9, 17, 3}, cmd{9, 0, 4})
		}
		if term {
			raw = nextRaw
		}
	}
	return n, cs
}

// arbitrary call order (including misuse); after BypassFlushEnc the registers are only
// meaningful again after a re-initialisation, so one of those follows.
func genWildScript(rng *Rand) (int, []cmd) {
	n := rng.Pick(19, 19, rng.Range(1, 19))
	var cs []cmd
	k := rng.Range(1, 120)
	for i := 0; i < k; i++ {
		switch rng.Intn(16) {
		case 0, 1, 2, 3, 4, 5:
			cx := rng.Intn(n)
			if rng.Intn(400) == 0 {
				cx = rng.Range(-1, 20)
			}
			cs = append(cs, cmd{0, rng.Intn(2), cx})
		case 6:
			cs = append(cs, cmd{1, 0, 0})
		case 7:
			cs = append(cs, cmd{2, 0, 0})
		case 8:
			if n == 19 || rng.Intn(25) == 0 {
				cs = append(cs, cmd{3, 0, 0})
			}
		case 9, 10:
			cs = append(cs, cmd{4, 0, 0})
			m := rng.Range(0, 30)
			for j := 0; j < m; j++ {
				cs = append(cs, cmd{5, rng.Intn(2), 0})
			}
			cs = append(cs, cmd{6, rng.Intn(2), 0})
			cs = append(cs, cmd{rng.Pick(7, 7, 10, 4), 0, 0})
		case 11:
			cs = append(cs, cmd{7, 0, 0})
		case 12:
			cs = append(cs, cmd{8, 0, 0})
		case 13:
			st := rng.Intn(47) | rng.Intn(2)<<7
			if rng.Intn(300) == 0 {
				st = rng.Intn(256)
			}
			cs = append(cs, cmd{9, rng.Intn(n), st})
		case 14:
			if rng.Intn(4) == 0 {
				cs = append(cs, cmd{10, 0, 0})
			}
		case 15:
			cs = append(cs, cmd{11, rng.Intn(n), 0})
		}
	}
	return n, cs
}

func b2i(b bool) int {
	if b {
		return 1
	}
	return 0
}

func c20Scripts(c *Ctx) {
	n := c.N(600, 6000)
	rng := c.Rng.Fork()
	type sc struct {
		n    int
		cs   []cmd
		kind string
	}
	cases := make([]sc, n)
	for i := range cases {
		if i%3 == 2 {
			k, cs := genWildScript(rng)
			cases[i] = sc{k, cs, "wild"}
		} else {
			k, cs := genT1Script(rng, c.Thor)
			cases[i] = sc{k, cs, "t1like"}
		}
	}
	ParallelFor(n, c.Work, func(i int) {
		k := cases[i]
		str := cmdsString(k.cs)
		c.R.Case(fmt.Sprintf("mqs:%d:%s", k.n, str), len(k.cs) > 3, "mq.script."+k.kind)
		if i == 0 {
			c.R.Sample(map[string]interface{}{"suite": "mq_script", "nctx": k.n, "cmds": str})
		}
		want := runScript(k.n, k.cs)
		if want == "panic" {
			c.R.Case("mqs-panic", false, "mq.script.panic")
		}
		got := ""
		if c.HasModel() {
			got = c.M.Call("mq_script", strconv.Itoa(k.n), str)
		}
		c.CorrEq("mq_script", "mq:script:"+k.kind, got, want, map[string]interface{}{"nctx": k.n, "cmds": str})
	})
}

// ---------- RAW (bypass) path driven directly and adversarially ----------

// rawViolation checks a bypass segment: every FF is followed by a byte < 0x80 and (with
// predictable termination) the segment does not end in FF.
func rawViolation(seg []byte, erterm bool) string {
	for i := 0; i+1 < len(seg); i++ {
		if seg[i] == 0xFF && seg[i+1] >= 0x80 {
			return fmt.Sprintf("FF %02X at offset %d of the raw segment", seg[i+1], i)
		}
	}
	if erterm && len(seg) > 0 && seg[len(seg)-1] == 0xFF {
		return "raw segment ends in FF under predictable termination"
	}
	return ""
}

type bypCase struct {
	prefix []cmd // MQ segment + termination (may be empty)
	bits   []int
	erterm int
	suffix []cmd // RestartInitEnc + MQ segment + Flush (may be empty)
	kind   string
	pkind  string
}

func bypassAdversarial(c *Ctx, suite string) {
	rng := c.Rng.Fork()
	var cases []bypCase
	mkPrefix := func(kind int) ([]cmd, string) {
		if kind == 0 {
			return nil, "fresh"
		}
		cs := []cmd{{9, 18, 46}, {9, 17, 3}, {9, 0, 4}}
		k := rng.Range(0, 60)
		bias := rng.Pick(3, 30, 50, 97)
		for i := 0; i < k; i++ {
			cs = append(cs, cmd{0, b2i(rng.Intn(100) < bias), rng.Intn(19)})
		}
		switch kind {
		case 1:
			return append(cs, cmd{1, 0, 0}), "flush"
		default:
			return append(cs, cmd{2, 0, 0}), "erterm"
		}
	}
	mkSuffix := func() []cmd {
		cs := []cmd{{7, 0, 0}}
		k := rng.Range(0, 40)
		for i := 0; i < k; i++ {
			cs = append(cs, cmd{0, rng.Intn(2), rng.Intn(19)})
		}
		return append(cs, cmd{1, 0, 0})
	}
	add := func(bits []int, kind string) {
		for erterm := 0; erterm < 2; erterm++ {
			for pk := 0; pk < 3; pk++ {
				pre, pkind := mkPrefix(pk)
				var suf []cmd
				if rng.Intn(3) == 0 {
					suf = mkSuffix()
				}
				cases = append(cases, bypCase{pre, append([]int(nil), bits...), erterm, suf, kind, pkind})
			}
		}
	}
	maxL := 40
	for L := 0; L <= maxL; L++ {
		ones := make([]int, L)
		for i := range ones {
			ones[i] = 1
		}
		add(ones, "allones")
		for z := 0; z < L; z++ {
			b := append([]int(nil), ones...)
			b[z] = 0
			add(b, "onezero")
		}
	}
	// byte-boundary patterns: m FF bytes (8 then 7 one-bits each), then r further bits
	for m := 0; m <= 3; m++ {
		for r := 0; r <= 9; r++ {
			for v := 0; v < 4; v++ {
				var b []int
				for i := 0; i < m; i++ {
					n := 8
					if i > 0 {
						n = 7
					}
					for j := 0; j < n; j++ {
						b = append(b, 1)
					}
				}
				for j := 0; j < r; j++ {
					switch v {
					case 0:
						b = append(b, 1)
					case 1:
						b = append(b, 0)
					case 2:
						b = append(b, j&1)
					default:
						b = append(b, rng.Intn(2))
					}
				}
				add(b, "boundary")
			}
		}
	}
	nr := c.N(150, 3000)
	for i := 0; i < nr; i++ {
		L := rng.Range(0, 40)
		if c.Thor && rng.Intn(4) == 0 {
			L = rng.Range(40, 400)
		}
		b := make([]int, L)
		p1 := rng.Pick(50, 80, 95, 99)
		for j := range b {
			b[j] = b2i(rng.Intn(100) < p1)
		}
		add(b, "random")
	}
	ParallelFor(len(cases), c.Work, func(i int) {
		k := cases[i]
		var cs []cmd
		cs = append(cs, k.prefix...)
		cs = append(cs, cmd{4, 0, 0})
		for _, b := range k.bits {
			cs = append(cs, cmd{5, b, 0})
		}
		cs = append(cs, cmd{6, k.erterm, 0})
		seg := len(cs)
		cs = append(cs, k.suffix...)
		str := cmdsString(cs)
		in := map[string]interface{}{"nctx": 19, "cmds": str, "erterm": k.erterm, "rawbits": len(k.bits)}
		c.R.Case("mqb:"+str, true, "mq.bypass."+k.kind, "mq.bypass.prefix."+k.pkind, fmt.Sprintf("mq.bypass.erterm.%d", k.erterm))
		if i == 7 {
			c.R.Sample(map[string]interface{}{"suite": suite, "case": in})
		}
		// correspondence on the state right after BypassFlushEnc and at the end
		uptos := []int{seg}
		if len(k.suffix) > 0 {
			uptos = append(uptos, len(cs))
		}
		for _, upto := range uptos {
			{
				want := runScript(19, cs[:upto])
				got := ""
				if c.HasModel() {
					got = c.M.Call("mq_script", "19", cmdsString(cs[:upto]))
				}
				c.CorrEq(suite, "mq:bypass:"+k.kind, got, want, in)
			}
		}
		// oracle on the implementation: the raw segment itself
		c.R.Oracle(suite + "_no_marker")
		var rawSeg []byte
		if p, msg := Safely(func() {
			e := mqc.NewMQEncoder(19)
			applyCmds(e, k.prefix)
			n0 := e.NumBytes()
			e.BypassInitEnc()
			for _, b := range k.bits {
				e.BypassEncode(b)
			}
			e.BypassFlushEnc(k.erterm != 0)
			buf := e.GetBuffer()
			if n0 <= len(buf) {
				rawSeg = append([]byte(nil), buf[n0:]...)
			}
		}); p {
			c.R.Fail("oracle", suite+"_no_marker", "mq:bypass:panic", "bypass encoder panicked: "+msg, in)
			return
		}
		if v := rawViolation(rawSeg, k.erterm != 0); v != "" {
			in["segment"] = Hex(rawSeg)
			c.R.Fail("oracle", suite+"_no_marker", "mq:bypass:marker", v, in)
		}
		// oracle: a raw decoder started on the segment returns the coded bits.  Not for the
		// "fresh" prefix: with bp = 0 the first raw byte is written into the dummy slot
		// buffer[0], which GetBuffer never returns (BypassInitEnc presupposes a terminated MQ
		// segment; T1 always has one) - C20_mq_raw_segment states the hypothesis bp >= 1.
		if k.pkind == "fresh" {
			return
		}
		c.R.Oracle(suite + "_roundtrip")
		if p, msg := Safely(func() {
			d := mqc.NewRawDecoder(rawSeg)
			for j, b := range k.bits {
				if got := d.RawDecode(); got != b {
					sig := "mq:bypass:roundtrip"
					in["segment"] = Hex(rawSeg)
					c.R.Fail("oracle", suite+"_roundtrip", sig, fmt.Sprintf("raw bit %d decodes to %d, coded %d", j, got, b), in)
					break
				}
			}
		}); p {
			c.R.Fail("oracle", suite+"_roundtrip", "mq:raw:panic", "raw decoder panicked: "+msg, in)
		}
	})
}

func applyCmds(e *mqc.MQEncoder, cs []cmd) {
	for _, k := range cs {
		switch k.op {
		case 0:
			e.Encode(k.x, k.y)
		case 1:
			e.FlushToOutput()
		case 2:
			e.ErtermEnc()
		case 3:
			e.SegmarkEnc()
		case 4:
			e.BypassInitEnc()
		case 5:
			e.BypassEncode(k.x)
		case 6:
			e.BypassFlushEnc(k.x != 0)
		case 7:
			e.RestartInitEnc()
		case 8:
			e.ResetContexts()
		case 9:
			e.SetContextState(k.x, uint8(k.y))
		case 10:
			e.Reset()
		case 11:
			e.ResetContext(k.x)
		}
	}
}

// ---------- decoders on arbitrary bytes (C08 and part of C20) ----------

func genGarbage(rng *Rand, i int) []byte {
	l := rng.Range(0, 300)
	if i < 40 {
		l = i / 4
	}
	b := make([]byte, l)
	mode := rng.Intn(8)
	for j := range b {
		switch mode {
		case 0:
			b[j] = 0xFF
		case 1:
			b[j] = 0
		case 2: // FF-heavy with high followers
			if rng.Intn(3) == 0 {
				b[j] = 0xFF
			} else {
				b[j] = byte(rng.Pick(0x00, 0x7F, 0x80, 0x8F, 0x90, 0x91, 0xFE, rng.Intn(256)))
			}
		case 3:
			b[j] = byte(rng.Pick(0xFF, 0x8F, 0x90, 0x7F))
		default:
			b[j] = byte(rng.Intn(256))
		}
	}
	if mode == 7 && l > 0 { // a valid stream, truncated or with one byte changed
		s := genSeq(rng, rng.Range(1, 400), rng.Intn(7))
		e := newEnc(s)
		for j := range s.bits {
			e.Encode(s.bits[j], s.ctxs[j])
		}
		b = append([]byte(nil), e.Flush()...)
		if rng.Bool() && len(b) > 0 {
			b = b[:rng.Intn(len(b))]
		} else if len(b) > 0 {
			b[rng.Intn(len(b))] = byte(rng.Pick(0xFF, 0x90, rng.Intn(256)))
		}
	}
	return b
}

func garbageDecode(c *Ctx, suite string, n int) {
	rng := c.Rng.Fork()
	type gc struct {
		data []byte
		s    seq
	}
	cases := make([]gc, n)
	for i := range cases {
		data := genGarbage(rng, i)
		s := seq{n: rng.Range(1, 19)}
		l := rng.Range(0, 600)
		if rng.Intn(5) == 0 {
			l = rng.Range(0, 4000)
		}
		s.ctxs = make([]int, l)
		for j := range s.ctxs {
			s.ctxs[j] = rng.Intn(s.n)
		}
		if rng.Intn(4) == 0 {
			s.init = make([]int, s.n)
			for j := range s.init {
				s.init[j] = rng.Intn(47) | rng.Intn(2)<<7
			}
		}
		cases[i] = gc{data, s}
	}
	ParallelFor(n, c.Work, func(i int) {
		k := cases[i]
		in := map[string]interface{}{"nctx": k.s.n, "data": Hex(k.data), "ctxs": Ints(k.s.ctxs)}
		if k.s.init != nil {
			in["init"] = Ints(k.s.init)
		}
		c.R.Case(fmt.Sprintf("mqg:%d:%v:%s:%s", k.s.n, k.s.init, Hex(k.data), Ints(k.s.ctxs)), len(k.s.ctxs) > 0,
			"mq.garbage.len."+lenBucket(len(k.data)))
		if i == 50 {
			c.R.Sample(map[string]interface{}{"suite": suite, "case": in})
		}
		dec := make([]int, len(k.s.ctxs))
		c.R.Oracle(suite)
		p, msg := Safely(func() {
			d := newDec(k.data, k.s)
			for j := range k.s.ctxs {
				dec[j] = d.Decode(k.s.ctxs[j])
			}
		})
		want := "ok:" + bitsString(dec)
		if p {
			want = "panic"
			c.R.Fail("oracle", suite, "mq:dec:panic", "MQ decoder panicked: "+msg, in)
		}
		var got string
		if c.HasModel() {
			if k.s.init == nil {
				got = c.M.Call("mq_decode", strconv.Itoa(k.s.n), Ints(k.s.ctxs), Hex(k.data))
			} else {
				got = c.M.Call("mq_decode_cx", Ints(k.s.init), Ints(k.s.ctxs), Hex(k.data))
			}
		}
		c.CorrEq(suite, "mq:dec:garbage", got, want, in)
		// raw (bypass) decoder on the same bytes
		nb := len(k.s.ctxs)
		if nb > 1500 {
			nb = 1500
		}
		raw := make([]int, nb)
		p, msg = Safely(func() {
			d := mqc.NewRawDecoder(k.data)
			for j := range raw {
				raw[j] = d.RawDecode()
			}
		})
		want = "ok:" + bitsString(raw)
		if p {
			want = "panic"
			c.R.Fail("oracle", suite, "mq:raw:panic", "raw decoder panicked: "+msg, in)
		}
		if c.HasModel() {
			got = c.M.Call("mq_rawdecode", strconv.Itoa(nb), Hex(k.data))
		}
		c.CorrEq(suite+"_raw", "mq:raw:garbage", got, want, in)
		// Decode(ctx) and RawDecode() interleaved on one MQ decoder (T1 lazy passes on a live
		// decoder); observable: the bits and the final read position
		mrng := NewRand(uint64(i)*7919 + 13)
		nm := len(k.s.ctxs)
		if nm > 1200 {
			nm = 1200
		}
		kinds := make([]int, nm)
		runRaw := 0
		for j := range kinds {
			if runRaw > 0 {
				kinds[j] = 1
				runRaw--
			} else if mrng.Intn(12) == 0 {
				runRaw = mrng.Range(1, 40)
				kinds[j] = 1
			}
		}
		mixed := make([]int, nm)
		bp := int64(0)
		p, msg = Safely(func() {
			d := newDec(k.data, k.s)
			for j := 0; j < nm; j++ {
				if kinds[j] == 0 {
					mixed[j] = d.Decode(k.s.ctxs[j])
				} else {
					mixed[j] = d.RawDecode()
				}
			}
			bp = reflect.ValueOf(d).Elem().FieldByName("bp").Int()
		})
		want = fmt.Sprintf("ok:%s;%d", bitsString(mixed), bp)
		if p {
			want = "panic"
			c.R.Fail("oracle", suite, "mq:mixed:panic", "MQ decoder with interleaved RawDecode panicked: "+msg, in)
		}
		if bp > int64(len(k.data)) {
			c.R.Fail("oracle", suite, "mq:mixed:bp", fmt.Sprintf("read position %d beyond the data length %d", bp, len(k.data)), in)
		}
		if c.HasModel() {
			var sb strings.Builder
			for j := 0; j < nm; j++ {
				if j > 0 {
					sb.WriteByte(',')
				}
				fmt.Fprintf(&sb, "%d:%d", kinds[j], k.s.ctxs[j])
			}
			ops := sb.String()
			if nm == 0 {
				ops = "_"
			}
			init := k.s.init
			if init == nil {
				init = make([]int, k.s.n)
			}
			got = c.M.Call("mq_mixed", Ints(init), ops, Hex(k.data))
		}
		in["kinds"] = Ints(kinds)
		c.CorrEq(suite+"_mixed", "mq:mixed:garbage", got, want, in)
	})
}

func runC08(c *Ctx) {
	c.R.Rule = "MQ/raw decoder on arbitrary bytes (all-FF, all-00, FF-heavy, random, damaged valid streams; lengths 0..300) with random context sequences; non-trivial = at least one decision"
	garbageDecode(c, "mq_dec_nopanic", c.N(1500, 30000))
}

// ---------- C16: no marker code inside MQ output ----------

func runC16(c *Ctx) {
	c.R.Rule = "MQ encoder output (Flush) for random (bit,ctx) sequences: no FF followed by > 0x8F, no trailing FF; non-trivial = length > 0; " +
		"RAW segments (BypassInit/BypassEncode*/BypassFlush, erterm 0/1, after fresh/Flush/Erterm): all-ones 0..40, one zero at each position, byte-boundary FF patterns, random: FF followed by < 0x80, no trailing FF under erterm"
	n := c.N(700, 5000)
	rng := c.Rng.Fork()
	cases := make([]seq, n)
	for i := range cases {
		cases[i] = genSeq(rng, pickLen(rng, i/7, c.Thor), i)
	}
	ParallelFor(n, c.Work, func(i int) {
		s := cases[i]
		ps := s.pairs()
		c.R.Case(fmt.Sprintf("mq:%d:%v:%s", s.n, s.init, ps), len(s.bits) > 0, "mq.len."+lenBucket(len(s.bits)), "mq.kind."+s.kind)
		if i == 9 {
			c.R.Sample(map[string]interface{}{"suite": "mq_no_marker", "case": s.input()})
		}
		e := newEnc(s)
		for j := range s.bits {
			e.Encode(s.bits[j], s.ctxs[j])
		}
		out := append([]byte(nil), e.Flush()...)
		ff := 0
		for _, b := range out {
			if b == 0xFF {
				ff++
			}
		}
		if ff > 0 {
			c.R.Case("mq-ff", false, "mq.out.has_ff")
		}
		var got string
		if c.HasModel() {
			if s.init == nil {
				got = c.M.Call("mq_encode", strconv.Itoa(s.n), ps)
			} else {
				got = c.M.Call("mq_encode_cx", Ints(s.init), ps)
			}
		}
		c.CorrEq("mq_encode", "mq:enc", got, Hex(out), s.input())
		c.R.Oracle("mq_no_marker")
		if v := markerViolation(out); v != "" {
			c.R.Fail("oracle", "mq_no_marker", "mq:marker", v, s.input())
		}
	})
	bypassAdversarial(c, "mq_bypass")
}
