// Package pipestream: the codestreams that the REAL jpeg2000.Encoder emits for the configuration
// space of the `pipe` suite (reversible, single tile, one layer), read by two extracted models:
//
//	C16  pst_walk   FrmJ2k.j2k_wellformed (strict Annex A walker, written from the standard):
//	                the stream is accepted and the header it returns declares the encode
//	                arguments (SIZ: size, components, precision, signedness; COD: transform,
//	                levels, layers, progression, code-block; one tile, one tile-part whose
//	                Psot reaches from SOT to EOC). The walker IS the oracle here.
//	C04  pst_parse  PrsJ2k.k_main_header + k_parse_tile (model of codestream.Parser) against
//	                codestream.NewParser(..).Parse() of the library on the same bytes: SIZ fields,
//	                tile index, Psot and the tile data bytes (correspondence), on the emitted
//	                streams and on tile-part mutants (Psot / Isot / truncation), which the
//	                parsers suite does not reach (it cuts every stream at the first SOT).
//	                Oracle: the parser reports the encode arguments' geometry.
//
// Exported API only.
package pipestream

import (
	"encoding/binary"
	"encoding/json"
	"fmt"
	"strconv"
	"strings"

	"github.com/cocosip/go-dicom-codecs/jpeg2000"
	"github.com/cocosip/go-dicom-codecs/jpeg2000/codestream"
	"verif/harness/suites/j2ke2e"
	. "verif/harness/vhlib"
)

// Register adds this area's suites.
func Register(s Suites) {
	s.Add("C16", runWalk)
	s.Add("C04", runParse)
	s.Add("C04", runReport)
}

// Case is one encoder configuration + image content (the scope of suites/pipe).
type Case struct {
	W, H, Comps, P int
	Signed         bool
	Levels         int
	CBW, CBH       int
	Prog           int
	MCT            bool
	Content        int // j2ke2e content classes 0..5
	Seed           uint64
}

var contentNames = []string{"noise", "extremes", "ramp", "const", "sparse", "checker"}

func (k Case) String() string {
	return fmt.Sprintf("%dx%d c=%d P=%d s=%v lv=%d cb=%dx%d po=%d mct=%v content=%s seed=%d",
		k.W, k.H, k.Comps, k.P, k.Signed, k.Levels, k.CBW, k.CBH, k.Prog, k.MCT, contentNames[k.Content], k.Seed)
}

func b01(b bool) string {
	if b {
		return "1"
	}
	return "0"
}

func (k Case) Pixels() []byte {
	lo, hi := 0, (1<<k.P)-1
	if k.Signed {
		lo, hi = -(1 << (k.P - 1)), (1<<(k.P-1))-1
	}
	return j2ke2e.Pack(j2ke2e.GenSamples(NewRand(k.Seed), k.W*k.H, k.Comps, lo, hi, k.Content), k.P)
}

func (k Case) Params() *jpeg2000.EncodeParams {
	p := jpeg2000.DefaultEncodeParams(k.W, k.H, k.Comps, k.P, k.Signed)
	p.NumLevels = k.Levels
	p.CodeBlockWidth, p.CodeBlockHeight = k.CBW, k.CBH
	p.ProgressionOrder = uint8(k.Prog)
	p.NumLayers = 1
	p.EnableMCT = k.MCT
	p.Lossless = true
	return p
}

func pow2(r *Rand, lo, hi int) int { return 1 << r.Range(lo, hi) }

func gen(r *Rand) Case {
	k := Case{Seed: r.U64()}
	switch r.Intn(5) {
	case 0:
		k.W, k.H = r.Range(1, 4), r.Range(1, 4)
	case 1:
		cb := 1 << r.Range(2, 3)
		k.W, k.H = cb*r.Range(1, 2)+r.Range(-1, 1), cb*r.Range(1, 2)+r.Range(-1, 1)
	case 2:
		k.W, k.H = r.Range(1, 20), r.Range(1, 3)
		if r.Bool() {
			k.W, k.H = k.H, k.W
		}
	default:
		k.W, k.H = r.Range(1, 20), r.Range(1, 20)
	}
	if k.W < 1 {
		k.W = 1
	}
	if k.H < 1 {
		k.H = 1
	}
	k.Comps = r.Pick(1, 1, 2, 3, 3, 4)
	k.P = r.Range(1, 16)
	k.Signed = r.Intn(3) == 0
	k.Levels = r.Range(0, 3)
	if r.Intn(6) == 0 {
		k.Levels = r.Range(4, 6)
	}
	for {
		k.CBW, k.CBH = pow2(r, 2, 6), pow2(r, 2, 6)
		if k.CBW*k.CBH <= 4096 {
			break
		}
	}
	k.Prog = r.Range(0, 4)
	k.MCT = r.Bool()
	k.Content = r.Pick(0, 0, 0, 0, 1, 2, 3, 4, 5)
	return k
}

func sig(prefix string, k Case, site string) string {
	sg := "u"
	if k.Signed {
		sg = "s"
	}
	return fmt.Sprintf("%s:%s:%s:c%d:mct%s", prefix, site, sg, k.Comps, b01(k.MCT))
}

func cases(c *Ctx, suite string, n int) []Case {
	rng := c.Rng.Fork()
	out := make([]Case, 0, n)
	for _, raw := range append(c.CorpusInputs(suite), c.ReplayInputs(suite)...) {
		var k Case
		if json.Unmarshal(raw, &k) == nil && k.W > 0 && k.Comps > 0 && k.P > 0 && k.CBW > 0 {
			out = append(out, k)
		}
	}
	for len(out) < n {
		out = append(out, gen(rng))
	}
	return out
}

func (k Case) dist(p string) []string {
	return []string{fmt.Sprintf("%s.P.%d", p, k.P), fmt.Sprintf("%s.levels.%d", p, k.Levels), fmt.Sprintf("%s.comps.%d", p, k.Comps),
		fmt.Sprintf("%s.prog.%d", p, k.Prog), p + ".content." + contentNames[k.Content], fmt.Sprintf("%s.cb.%dx%d", p, k.CBW, k.CBH),
		p + ".mct." + b01(k.MCT), p + ".signed." + b01(k.Signed)}
}

// encode runs the real encoder; ok=false after reporting a failure.
func encode(c *Ctx, suite, prefix string, k Case) ([]byte, bool) {
	var enc []byte
	var err error
	if p, msg := Safely(func() { enc, err = jpeg2000.NewEncoder(k.Params()).Encode(k.Pixels()) }); p {
		c.R.Fail("oracle", suite, sig(prefix, k, "encode-panic"), msg, k)
		return nil, false
	}
	if err != nil {
		c.R.Fail("oracle", suite, sig(prefix, k, "encode-error"), err.Error(), k)
		return nil, false
	}
	return enc, true
}

// sotOffset: offset of the first SOT marker, walking the main header by its length fields
// (harness-side, independent of both models and of the library's parser); -1 if none.
func sotOffset(cs []byte) int {
	pos := 2
	for pos+4 <= len(cs) && cs[pos] == 0xFF {
		if cs[pos+1] == 0x90 {
			return pos
		}
		pos += 2 + int(binary.BigEndian.Uint16(cs[pos+2:]))
	}
	return -1
}

func fields(reply string) (map[string]string, bool) {
	if !strings.HasPrefix(reply, "ok:") {
		return nil, false
	}
	m := map[string]string{}
	for _, kv := range strings.Split(reply[3:], ";") {
		if i := strings.IndexByte(kv, '='); i > 0 {
			m[kv[:i]] = kv[i+1:]
		}
	}
	return m, true
}

func fint(m map[string]string, k string) int {
	v, err := strconv.Atoi(m[k])
	if err != nil {
		return -999999
	}
	return v
}

func badReason(reply string) string {
	if !strings.HasPrefix(reply, "bad:") {
		if len(reply) > 40 {
			reply = reply[:40]
		}
		return "model:" + reply
	}
	r := reply[4:]
	if i := strings.IndexByte(r, '@'); i >= 0 {
		r = r[:i]
	}
	return r
}

// ---------------------------------------------------------------------------------------
// C16: strict walker over the emitted codestream, header = encode arguments

func runWalk(c *Ctx) {
	c.R.Rule = "pipestream/C16: real jpeg2000.Encoder, reversible single tile, one layer: sizes 1..20 (tiny, around code-block multiples, strips, grid), comps 1-4, P 1-16, signed, levels 0-6 (mostly 0-3), cb 4..64 (area <= 4096), 5 progressions, EnableMCT; noise-heavy content; the emitted stream is walked by the extracted FrmJ2k.j2k_wellformed and the returned header compared with the arguments; non-trivial = the stream reached the walker"
	if !c.HasModel() {
		c.R.Note("pipestream/C16: no model: the walker IS the oracle, nothing evaluated")
	}
	cs := cases(c, "pipestream_walk", c.N(400, 6000))
	ParallelFor(len(cs), c.Work, func(i int) {
		k := cs[i]
		enc, ok := encode(c, "pipestream_walk", "pstream", k)
		c.R.Case(k.String(), ok && c.HasModel(), k.dist("pstream")...)
		if i < 2 {
			c.R.Sample(k)
		}
		if !ok {
			return
		}
		if !c.HasModel() {
			c.R.Count("corr_skipped_no_model")
			return
		}
		rep := c.M.Call("pst_walk", Hex(enc))
		c.R.Oracle("pipestream_walk")
		in := map[string]interface{}{"case": k, "stream": Hex(enc)}
		fail := func(site, what string) {
			c.R.Fail("oracle", "pipestream_walk", sig("pstream", k, site), what, in)
		}
		m, good := fields(rep)
		if !good {
			fail("walk:"+badReason(rep), "walker: "+rep)
			return
		}
		// --- SIZ: the property's "declares exactly the width, height, components, precision, signedness"
		if fint(m, "xsiz")-fint(m, "xosiz") != k.W || fint(m, "ysiz")-fint(m, "yosiz") != k.H {
			fail("header:size", fmt.Sprintf("SIZ declares %dx%d for %dx%d", fint(m, "xsiz")-fint(m, "xosiz"), fint(m, "ysiz")-fint(m, "yosiz"), k.W, k.H))
		}
		if fint(m, "csiz") != k.Comps {
			fail("header:components", fmt.Sprintf("SIZ declares Csiz=%s for %d components", m["csiz"], k.Comps))
		}
		ssiz := k.P - 1
		if k.Signed {
			ssiz |= 0x80
		}
		want := strings.TrimSuffix(strings.Repeat(strconv.Itoa(ssiz)+",", k.Comps), ",")
		if m["ssiz"] != want {
			fail("header:ssiz", fmt.Sprintf("SIZ declares Ssiz=%s for precision %d signed=%v", m["ssiz"], k.P, k.Signed))
		}
		if m["sub"] != strings.TrimSuffix(strings.Repeat("1/1,", k.Comps), ",") {
			fail("header:subsampling", "SIZ declares XRsiz/YRsiz "+m["sub"])
		}
		// --- one tile covering the image
		if fint(m, "ntiles") != 1 || fint(m, "xtosiz")+fint(m, "xtsiz") < fint(m, "xsiz") || fint(m, "ytosiz")+fint(m, "ytsiz") < fint(m, "ysiz") {
			fail("header:tiles", fmt.Sprintf("SIZ declares %s tiles (XTsiz=%s YTsiz=%s) for a single-tile encode", m["ntiles"], m["xtsiz"], m["ytsiz"]))
		}
		// --- COD: transform type (property text) and the coding parameters given
		if fint(m, "transform") != 1 {
			fail("header:transform", "COD declares transformation "+m["transform"]+" for a lossless encode")
		}
		if fint(m, "levels") != k.Levels {
			fail("header:levels", fmt.Sprintf("COD declares %s levels for %d", m["levels"], k.Levels))
		}
		if fint(m, "layers") != 1 {
			fail("header:layers", "COD declares "+m["layers"]+" layers for 1")
		}
		if fint(m, "prog") != k.Prog {
			fail("header:progression", fmt.Sprintf("COD declares progression %s for %d", m["prog"], k.Prog))
		}
		if 1<<uint(fint(m, "xcb")&31) != k.CBW || 1<<uint(fint(m, "ycb")&31) != k.CBH {
			fail("header:codeblock", fmt.Sprintf("COD declares code-block 2^%s x 2^%s for %dx%d", m["xcb"], m["ycb"], k.CBW, k.CBH))
		}
		// colour transform flag: must be 1 when RCT was applied (EnableMCT, 3 components), 0 when
		// EnableMCT is off. The encoder also sets it for EnableMCT with 4 components
		// (usesColorTransform: Components >= 3) although RCT is applied only for exactly 3:
		// recorded as an observation (not in C16's list of declared fields).
		mct := fint(m, "mct")
		c.R.Count(fmt.Sprintf("pstream.codmct.enable%s.c%d.declared%d", b01(k.MCT), k.Comps, mct))
		switch {
		case !k.MCT && mct != 0, k.MCT && k.Comps == 3 && mct != 1, k.Comps < 3 && mct != 0:
			fail("header:mct", fmt.Sprintf("COD declares MCT=%d for EnableMCT=%v with %d components", mct, k.MCT, k.Comps))
		case k.MCT && k.Comps == 4 && mct == 1:
			c.R.Count("pstream.observation.mct_declared_but_rct_not_applied_4comps")
		}
		// --- tile-parts: one, tile 0, Psot = distance SOT .. EOC
		sot := sotOffset(enc)
		wantParts := fmt.Sprintf("0:%d", len(enc)-2-sot)
		if sot < 0 || m["parts"] != wantParts {
			fail("tileparts", fmt.Sprintf("tile-parts (Isot:Psot) %s, expected %s (SOT at %d, length %d)", m["parts"], wantParts, sot, len(enc)))
		}
	})
}

// ---------------------------------------------------------------------------------------
// C04: parser model vs codestream.Parser on the same bytes

type mutant struct {
	name string
	data []byte
}

// tileMutants: changes confined to the tile-part (the main-header mutants are the parsers
// suite's). TPsot / TNsot (bytes sot+10, sot+11) are left alone: Parser.Parse feeds them to
// mergeTilePart, which the header-parser model does not cover.
func tileMutants(enc []byte, r *Rand) []mutant {
	sot := sotOffset(enc)
	if sot < 0 || sot+12 > len(enc) {
		return nil
	}
	cl := func() []byte { return append([]byte(nil), enc...) }
	psot := int(binary.BigEndian.Uint32(enc[sot+6:]))
	var ms []mutant
	setPsot := func(name string, v uint32) {
		d := cl()
		binary.BigEndian.PutUint32(d[sot+6:], v)
		ms = append(ms, mutant{name, d})
	}
	setPsot("psot=0", 0)
	setPsot("psot-small", uint32(r.Range(1, 13)))
	setPsot("psot-1", uint32(psot-1))
	setPsot("psot+1", uint32(psot+1))
	setPsot("psot+2", uint32(psot+2))
	setPsot("psot+3", uint32(psot+3))
	setPsot("psot-mid", uint32(r.Range(12, psot)))
	setPsot("psot-huge", uint32(r.Pick(0x7fffffff, 0x80000000, 0xffffffff, 0x10000)))
	d := cl()
	binary.BigEndian.PutUint16(d[sot+4:], uint16(r.Pick(1, 255, 256, 65535)))
	ms = append(ms, mutant{"isot", d})
	d = cl()
	binary.BigEndian.PutUint16(d[sot+2:], uint16(r.Pick(0, 2, 9, 11, 12)))
	ms = append(ms, mutant{"lsot", d})
	for j := 0; j < 3; j++ {
		ms = append(ms, mutant{"truncate", append([]byte(nil), enc[:r.Range(sot, len(enc)-1)]...)})
	}
	ms = append(ms, mutant{"no-eoc", append([]byte(nil), enc[:len(enc)-2]...)})
	ms = append(ms, mutant{"trailing", append(cl(), byte(r.Intn(256)), byte(r.Intn(256)))})
	// a marker-like pair planted in the tile data (readTileData stops there when Psot is not used)
	if len(enc)-2 > sot+16 {
		d = cl()
		p := r.Range(sot+14, len(enc)-3)
		d[p], d[p+1] = 0xFF, byte(r.Pick(0x4F, 0x90, 0x93, 0xD9, 0x00, 0x4E, 0xFF))
		ms = append(ms, mutant{"planted-marker", d})
		d2 := append([]byte(nil), d...)
		binary.BigEndian.PutUint32(d2[sot+6:], 0)
		ms = append(ms, mutant{"planted-marker+psot=0", d2})
	}
	return ms
}

// implParse renders codestream.Parser's result in the format of pst_parse (without hdr=).
func implParse(data []byte) (string, *codestream.Codestream) {
	var cs *codestream.Codestream
	var err error
	if p, _ := Safely(func() { cs, err = codestream.NewParser(data).Parse() }); p {
		return "panic", nil
	}
	if err != nil {
		if strings.HasPrefix(err.Error(), "failed to merge tile-part") {
			return "unmodelled-merge", nil
		}
		return "err", nil
	}
	s := cs.SIZ
	var ts []string
	for _, t := range cs.Tiles {
		ts = append(ts, fmt.Sprintf("%d/%d/%s", t.Index, t.SOT.Psot, Hex(t.Data)))
	}
	tl := strings.Join(ts, "|")
	if tl == "" {
		tl = "_"
	}
	return fmt.Sprintf("ok:siz=%d,%d,%d,%d,%d,%d,%d,%d,%d;tiles=%s", s.Xsiz, s.Ysiz, s.XOsiz, s.YOsiz, s.XTsiz, s.YTsiz, s.XTOsiz, s.YTOsiz, s.Csiz, tl), cs
}

// splitHdr removes the ";hdr=<n>" field of a pst_parse reply and returns it.
func splitHdr(rep string) (string, int) {
	i := strings.Index(rep, ";hdr=")
	if i < 0 {
		return rep, -1
	}
	j := strings.Index(rep[i+1:], ";")
	if j < 0 {
		return rep, -1
	}
	h, err := strconv.Atoi(rep[i+5 : i+1+j])
	if err != nil {
		return rep, -1
	}
	return rep[:i] + rep[i+1+j:], h
}

func runParse(c *Ctx) {
	c.R.Rule = "pipestream/C04: same configuration space as pipestream/C16; the emitted stream and 15-18 tile-part mutants of it (Psot 0/small/+-1/+2/+3/mid/huge, Isot, Lsot, truncations, missing EOC, trailing bytes, planted marker) are parsed by codestream.Parser and by the extracted PrsJ2k model (k_main_header, k_parse_tile per SOT); compared: outcome class, 9 SIZ fields, per tile Isot/Psot/data bytes; oracle: parser's SIZ = encode arguments; non-trivial = the encoder produced a stream"
	if !c.HasModel() {
		c.R.Note("pipestream/C04: no model: only the parser-geometry oracle is evaluated")
	}
	cs := cases(c, "pipestream_parse", c.N(300, 4000))
	ParallelFor(len(cs), c.Work, func(i int) {
		k := cs[i]
		enc, ok := encode(c, "pipestream_parse", "pstparse", k)
		c.R.Case(k.String(), ok, k.dist("pstparse")...)
		if i < 2 {
			c.R.Sample(k)
		}
		if !ok {
			return
		}
		// ---- oracle: the library's parser reports the geometry given to the encoder
		impl, parsed := implParse(enc)
		c.R.Oracle("pipestream_parse")
		if parsed == nil {
			c.R.Fail("oracle", "pipestream_parse", sig("pstparse", k, "parser-"+impl), "codestream.Parser does not accept the encoder's stream: "+impl, map[string]interface{}{"case": k, "stream": Hex(enc)})
		} else {
			s := parsed.SIZ
			geomOK := int(s.Xsiz-s.XOsiz) == k.W && int(s.Ysiz-s.YOsiz) == k.H && int(s.Csiz) == k.Comps && len(s.Components) == k.Comps
			for _, cc := range s.Components {
				if int(cc.Ssiz&0x7f)+1 != k.P || (cc.Ssiz&0x80 != 0) != k.Signed {
					geomOK = false
				}
			}
			if !geomOK {
				c.R.Fail("oracle", "pipestream_parse", sig("pstparse", k, "geometry"), fmt.Sprintf("parser reports SIZ %+v", *s), map[string]interface{}{"case": k, "stream": Hex(enc)})
			}
			if len(parsed.Tiles) != 1 || parsed.Tiles[0].Index != 0 {
				c.R.Fail("oracle", "pipestream_parse", sig("pstparse", k, "tiles"), fmt.Sprintf("parser reports %d tiles", len(parsed.Tiles)), map[string]interface{}{"case": k, "stream": Hex(enc)})
			}
		}
		if !c.HasModel() {
			c.R.Count("corr_skipped_no_model")
			return
		}
		// ---- correspondence: valid stream, then tile-part mutants
		rep, hdr := splitHdr(c.M.Call("pst_parse", Hex(enc)))
		c.CorrEq("pst_parse", sig("pstparse", k, "valid"), rep, impl, map[string]interface{}{"case": k, "stream": Hex(enc)})
		if strings.HasPrefix(rep, "ok:") {
			c.CorrEq("pst_parse_hdr", sig("pstparse", k, "hdr-offset"), strconv.Itoa(hdr), strconv.Itoa(sotOffset(enc)), map[string]interface{}{"case": k, "stream": Hex(enc)})
		}
		r := NewRand(k.Seed ^ 0x9e3779b97f4a7c15)
		for _, mu := range tileMutants(enc, r) {
			im, _ := implParse(mu.data)
			c.R.Count("pstparse.mut." + mu.name)
			if im == "unmodelled-merge" {
				c.R.Count("pstparse.mut_skipped_merge_error")
				continue
			}
			mr, _ := splitHdr(c.M.Call("pst_parse", Hex(mu.data)))
			cls := im
			if j := strings.IndexByte(cls, ':'); j > 0 {
				cls = cls[:j]
			}
			c.R.Count("pstparse.mutclass." + mu.name + "." + cls)
			c.CorrEq("pst_parse_mut", sig("pstparse", k, "mut:"+mu.name), mr, im, map[string]interface{}{"case": k, "mutant": mu.name, "stream": Hex(mu.data)})
		}
	})
}
