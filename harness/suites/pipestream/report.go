package pipestream

import (
	"fmt"
	"strings"

	"github.com/cocosip/go-dicom-codecs/jpeg2000"
	. "verif/harness/vhlib"
)

// C04 (reported geometry): what jpeg2000.NewDecoder().Decode reports through its getters
// Width / Height / Components / BitDepth / IsSigned against the extracted PstSizComps.k_siz_report
// (extractImageParameters on the parsed SIZ: first component's Ssiz, &0x7F + 1, &0x80), on the
// streams the real encoder emits (all precisions 1..16, signed / unsigned, 1..4 components) and on
// Ssiz mutants of them (component 0: another precision / signedness; a later component: any byte -
// the report must not change), which pin down WHICH component's Ssiz is reported.
// Oracle: after decoding the unmodified stream the five getters equal the encode arguments.

// implReport decodes and reads the getters. The getters are set by extractImageParameters before
// the tiles are decoded, so they are compared whenever the codestream PARSED (a later decode error,
// possible on mutants, does not matter); "err" when Parse failed, "panic:<msg>" on a panic.
func implReport(data []byte) (string, error) {
	d := jpeg2000.NewDecoder()
	var err error
	if p, msg := Safely(func() { err = d.Decode(data) }); p {
		return "panic:" + msg, nil
	}
	if err != nil && strings.Contains(err.Error(), "failed to parse codestream") {
		return "err", err
	}
	if err != nil && strings.Contains(err.Error(), "failed to extract image parameters") {
		return "err", err
	}
	return fmt.Sprintf("ok:%d,%d,%d,%d,%s", d.Width(), d.Height(), d.Components(), d.BitDepth(), b01(d.IsSigned())), err
}

type ssizMutant struct {
	name string
	data []byte
}

// the SIZ is the first segment: marker at 2, Lsiz at 4, Csiz at 40, Ssiz of component i at 42 + 3 i
func ssizMutants(enc []byte, k Case, r *Rand) []ssizMutant {
	var out []ssizMutant
	mut := func(name string, off int, v byte) {
		if off < len(enc) && enc[off] != v {
			m := append([]byte(nil), enc...)
			m[off] = v
			out = append(out, ssizMutant{name, m})
		}
	}
	// component 0: flip the sign bit; another precision 1..38 (Table A.11), either signedness
	mut("c0-sign", 42, enc[42]^0x80)
	mut("c0-depth", 42, byte(r.Range(0, 37))|byte(r.Intn(2))<<7)
	if k.Comps > 1 {
		i := r.Range(1, k.Comps-1)
		mut("cN-any", 42+3*i, byte(r.Intn(256)))
		mut("cN-sign", 42+3*i, enc[42+3*i]^0x80)
	}
	return out
}

func runReport(c *Ctx) {
	c.R.Rule = "pipestream/C04 report: configuration space of pipestream/C16 (1..4 components, precision 1..16, signed 1/3, sizes 1..20); the emitted stream and up to 4 Ssiz mutants (component 0 sign / precision, a later component any byte / sign) are decoded by jpeg2000.NewDecoder().Decode and the getters Width/Height/Components/BitDepth/IsSigned compared with the extracted PstSizComps.k_siz_report; oracle: on the unmodified stream Decode succeeds and the getters equal the encode arguments; non-trivial = the encoder produced a stream"
	if !c.HasModel() {
		c.R.Note("pipestream/C04 report: no model: only the reported-geometry oracle is evaluated")
	}
	cs := cases(c, "pipestream_report", c.N(300, 4000))
	ParallelFor(len(cs), c.Work, func(i int) {
		k := cs[i]
		enc, ok := encode(c, "pipestream_report", "pstreport", k)
		c.R.Case(k.String(), ok, k.dist("pstreport")...)
		if i < 2 {
			c.R.Sample(k)
		}
		if !ok {
			return
		}
		in := map[string]interface{}{"case": k, "stream": Hex(enc)}
		// ---- oracle: decoding reports the encode arguments
		impl, derr := implReport(enc)
		want := fmt.Sprintf("ok:%d,%d,%d,%d,%s", k.W, k.H, k.Comps, k.P, b01(k.Signed))
		c.R.Oracle("pipestream_report")
		if derr != nil {
			c.R.Fail("oracle", "pipestream_report", sig("pstreport", k, "decode-error"), derr.Error(), in)
		} else if impl != want {
			c.R.Fail("oracle", "pipestream_report", sig("pstreport", k, "reported"), "Decode reports "+impl+", encoded "+want, in)
		}
		if !c.HasModel() {
			c.R.Count("corr_skipped_no_model")
			return
		}
		// ---- correspondence: valid stream, then Ssiz mutants
		c.CorrEq("pst_report", sig("pstreport", k, "valid"), c.M.Call("pst_report", Hex(enc)), impl, in)
		r := NewRand(k.Seed ^ 0x51a2b3c4d5e6f708)
		for _, mu := range ssizMutants(enc, k, r) {
			im, merr := implReport(mu.data)
			c.R.Count("pstreport.mut." + mu.name)
			if merr != nil {
				c.R.Count("pstreport.mut_decode_error." + mu.name)
			}
			c.CorrEq("pst_report_mut", sig("pstreport", k, "mut:"+mu.name), c.M.Call("pst_report", Hex(mu.data)), im,
				map[string]interface{}{"case": k, "mutant": mu.name, "stream": Hex(mu.data)})
		}
	})
}
