// Package jpegll: suites for JPEG Lossless (process 14, jpeg/lossless) and the
// Selection-Value-1 codec (jpeg/lossless14sv1): properties C02 and C13.
package jpegll

import (
	"crypto/sha1"
	"encoding/hex"
	"fmt"

	. "verif/harness/vhlib"
)

// Img is a test image: samples in scan order (row, column, component), each < 2^P.
type Img struct {
	W, H, C, P int
	S          []int
	Kind       string
}

func (im *Img) N() int { return im.W * im.H * im.C }

// Bytes is the pixel container of the codec API: one byte per sample for P <= 8, two bytes
// little-endian for P > 8, samples in the low P bits.
func (im *Img) Bytes() []byte {
	if im.P <= 8 {
		b := make([]byte, len(im.S))
		for i, v := range im.S {
			b[i] = byte(v)
		}
		return b
	}
	b := make([]byte, 2*len(im.S))
	for i, v := range im.S {
		b[2*i] = byte(v)
		b[2*i+1] = byte(v >> 8)
	}
	return b
}

func (im *Img) Key() string {
	h := sha1.Sum(im.Bytes())
	return fmt.Sprintf("%dx%dx%d@%d:%s", im.W, im.H, im.C, im.P, hex.EncodeToString(h[:8]))
}

func (im *Img) Nontrivial() bool {
	for _, v := range im.S {
		if v != im.S[0] {
			return true
		}
	}
	return false
}

func (im *Img) SizeBucket() string {
	n := im.W * im.H
	switch {
	case n <= 9:
		return "size.le9"
	case n <= 256:
		return "size.le256"
	case n <= 4096:
		return "size.le4096"
	case n <= 65536:
		return "size.le65536"
	default:
		return "size.gt65536"
	}
}

// Input is the replayable description of a case.
func (im *Img) Input(extra map[string]interface{}) map[string]interface{} {
	m := map[string]interface{}{"w": im.W, "h": im.H, "comps": im.C, "P": im.P, "kind": im.Kind,
		"pixels": Hex(im.Bytes())}
	for k, v := range extra {
		m[k] = v
	}
	return m
}

func imgFromBytes(w, h, c, p int, px []byte, kind string) *Img {
	im := &Img{W: w, H: h, C: c, P: p, Kind: kind, S: make([]int, w*h*c)}
	for i := range im.S {
		if p <= 8 {
			if i < len(px) {
				im.S[i] = int(px[i])
			}
		} else if 2*i+1 < len(px) {
			im.S[i] = int(px[2*i]) | int(px[2*i+1])<<8
		}
	}
	return im
}

var contentKinds = []string{"noise", "alt", "ramp", "const", "smooth", "edges"}

// fill generates the content of one kind.
func fill(rng *Rand, w, h, c, p int, kind string) *Img {
	im := &Img{W: w, H: h, C: c, P: p, Kind: kind, S: make([]int, w*h*c)}
	max := 1<<uint(p) - 1
	at := func(y, x, k int) *int { return &im.S[(y*w+x)*c+k] }
	switch kind {
	case "noise":
		for i := range im.S {
			im.S[i] = rng.Intn(max + 1)
		}
	case "alt": // alternation of 0 and 2^P-1
		mode := rng.Intn(5)
		ph := rng.Intn(2)
		for y := 0; y < h; y++ {
			for x := 0; x < w; x++ {
				for k := 0; k < c; k++ {
					var b int
					switch mode {
					case 0:
						b = (y*w+x)*c + k
					case 1:
						b = x + y
					case 2:
						b = y
					case 3:
						b = x
					default:
						b = x + y + k
					}
					if (b+ph)%2 == 0 {
						*at(y, x, k) = 0
					} else {
						*at(y, x, k) = max
					}
				}
			}
		}
	case "ramp":
		a, b, d, off := rng.Range(-3, 3), rng.Range(-3, 3), rng.Range(0, 5), rng.Intn(max+1)
		if rng.Intn(3) == 0 {
			a, b = rng.Range(-max, max), rng.Range(-max, max)
		}
		for y := 0; y < h; y++ {
			for x := 0; x < w; x++ {
				for k := 0; k < c; k++ {
					v := (a*x + b*y + d*k + off) % (max + 1)
					if v < 0 {
						v += max + 1
					}
					*at(y, x, k) = v
				}
			}
		}
	case "const":
		v := []int{0, max, 1 << uint(p-1), 1<<uint(p-1) - 1, rng.Intn(max + 1)}[rng.Intn(5)]
		for i := range im.S {
			im.S[i] = v
		}
	case "smooth":
		step := 1 + rng.Intn(4)
		for k := 0; k < c; k++ {
			v := rng.Intn(max + 1)
			for y := 0; y < h; y++ {
				for x := 0; x < w; x++ {
					v += rng.Range(-step, step)
					if v < 0 {
						v = 0
					}
					if v > max {
						v = max
					}
					*at(y, x, k) = v
				}
			}
		}
	case "edges": // mostly extreme values with a few others: large differences of both signs
		vals := []int{0, max, max / 2, max/2 + 1, 1, max - 1}
		for i := range im.S {
			im.S[i] = vals[rng.Intn(len(vals))]
		}
	case "d32768": // P = 16: differences of exactly -32768 (category 16)
		for i := range im.S {
			if rng.Intn(4) == 0 {
				im.S[i] = []int{0, 32768, 1, 32769, 32767, 65535}[rng.Intn(6)]
			} else if (i/c)%2 == 0 {
				im.S[i] = 0
			} else {
				im.S[i] = 32768
			}
		}
	}
	return im
}

// fibImage: one row, P = 16, one component, whose left-neighbour differences have Fibonacci
// category counts over all 17 categories: the optimal code is 17 deep before length limiting.
func fibImage(rng *Rand) *Img {
	fib := []int{1, 1, 2, 3, 5, 8, 13, 21, 34, 55, 89, 144, 233, 377, 610, 987, 1597}
	perm := make([]int, 17)
	for i := range perm {
		perm[i] = i
	}
	for i := 16; i > 0; i-- {
		j := rng.Intn(i + 1)
		perm[i], perm[j] = perm[j], perm[i]
	}
	var cats []int
	for i, f := range fib {
		for j := 0; j < f; j++ {
			cats = append(cats, perm[i])
		}
	}
	for i := len(cats) - 1; i > 0; i-- {
		j := rng.Intn(i + 1)
		cats[i], cats[j] = cats[j], cats[i]
	}
	s := make([]int, 0, len(cats)+1)
	x := 32768 // first sample: difference 0 from the default prediction
	s = append(s, x)
	for _, c := range cats {
		var d int
		switch {
		case c == 0:
			d = 0
		case c == 16:
			d = 32768
		default:
			d = 1<<uint(c-1) + rng.Intn(1<<uint(c-1))
		}
		// choose the sign that keeps the sample in range; the coded difference is taken
		// modulo 2^16, so wrapping around keeps the category for c = 16 only
		if c == 16 {
			x = (x + 32768) % 65536
		} else if x+d <= 65535 && (x-d < 0 || rng.Bool()) {
			x += d
		} else if x-d >= 0 {
			x -= d
		} else {
			x += d
		}
		s = append(s, x)
	}
	return &Img{W: len(s), H: 1, C: 1, P: 16, S: s, Kind: "fib"}
}

// exhaustive enumerates every image of the geometry with samples < 2^p (comps 1 or 3).
func exhaustiveCount(w, h, c, p int) int {
	n := 1
	for i := 0; i < w*h*c; i++ {
		n <<= uint(p)
		if n > 1<<30 {
			return -1
		}
	}
	return n
}
func exhaustiveImg(w, h, c, p, idx int) *Img {
	im := &Img{W: w, H: h, C: c, P: p, Kind: "exhaustive", S: make([]int, w*h*c)}
	for i := range im.S {
		im.S[i] = idx & (1<<uint(p) - 1)
		idx >>= uint(p)
	}
	return im
}

func randSize(rng *Rand, maxDim int) (int, int) {
	pick := func() int {
		switch rng.Intn(6) {
		case 0:
			return 1
		case 1:
			return rng.Range(1, 4)
		case 2, 3:
			return rng.Range(1, 16)
		default:
			return rng.Range(1, maxDim)
		}
	}
	return pick(), pick()
}

// skewedImage ("skewed-categories"): an image whose left-neighbour differences have the
// categories 0..P with Fibonacci counts that DECREASE with the category: count(c) = fib(P-c),
// so category P (and P-1) occur once, the low categories hundreds of times.  The optimal Huffman
// code is then maximally skewed: the RARE HIGH categories (which also carry the most magnitude
// bits) get the LONGEST codes — for P = 16 the unrestricted depth is 17, so the 16-bit length
// limiter works through the real encoder, and code length + magnitude bits reaches 30..31 bits in
// one symbol.  The differences are shuffled, so the long symbols fall on varying bit phases.
// Each row is one walk; with h = 1 every predictor 1..7 sees these differences (first-line
// rule); with h > 1 the rows repeat the walk (predictor 1 sees it h times, the vertical
// predictors mostly zeros).  Components carry independent walks over the same multiset.
func skewedImage(rng *Rand, p, comps, h int) *Img {
	fib := []int{1, 1}
	for len(fib) < p+1 {
		fib = append(fib, fib[len(fib)-1]+fib[len(fib)-2])
	}
	var cats []int
	for c := 0; c <= p; c++ {
		for j := 0; j < fib[p-c]; j++ {
			cats = append(cats, c)
		}
	}
	max := 1<<uint(p) - 1
	w := len(cats) + 1
	walk := func() []int {
		cs := append([]int{}, cats...)
		for i := len(cs) - 1; i > 0; i-- {
			j := rng.Intn(i + 1)
			cs[i], cs[j] = cs[j], cs[i]
		}
		x := 1 << uint(p-1) // first sample: difference 0 from the default prediction
		row := []int{x}
		for _, c := range cs {
			var d int
			switch {
			case c == 0:
				d = 0
			case c == 16:
				d = 32768
			default:
				d = 1<<uint(c-1) + rng.Intn(1<<uint(c-1))
			}
			ok := func(d int) (int, bool) {
				up, down := x+d <= max, x-d >= 0
				switch {
				case up && (!down || rng.Bool()):
					return x + d, true
				case down:
					return x - d, true
				}
				return 0, false
			}
			nx, good := ok(d)
			if !good && c > 0 && c < 16 {
				nx, good = ok(1 << uint(c-1)) // the smallest magnitude of the category always fits
			}
			if !good {
				nx = x
			}
			x = nx
			row = append(row, x)
		}
		return row
	}
	rows := make([][]int, comps)
	for k := range rows {
		rows[k] = walk()
	}
	im := &Img{W: w, H: h, C: comps, P: p, Kind: "skewed", S: make([]int, w*h*comps)}
	for y := 0; y < h; y++ {
		for x := 0; x < w; x++ {
			for k := 0; k < comps; k++ {
				im.S[(y*w+x)*comps+k] = rows[k][x]
			}
		}
	}
	return im
}
