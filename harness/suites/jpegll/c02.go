package jpegll

import (
	"fmt"
	"strconv"
	"strings"

	"github.com/cocosip/go-dicom-codecs/jpeg/standard"
	. "verif/harness/vhlib"
)

// Register adds this area's suites.
func Register(s Suites) {
	s.Add("C02", runC02)
	s.Add("C13", runC13)
}

var allCodecs = []int{0, 1, 2, 3, 4, 5, 6, 7, predSV1}

type c02case struct {
	im   *Img
	corr []int // codecs that also go through the model
}

func runC02(c *Ctx) {
	c.R.Rule = "C02 jpegll: images with 1 or 3 components, P in 2..16, samples < 2^P in the 8-bit / 16-bit LE container; " +
		"every case is run through lossless.Encode with predictor 0..7 and lossless14sv1.Encode and decoded back; " +
		"contents: noise, 0/2^P-1 alternation, ramps, constant, smooth walk, extreme-value mix, difference -32768 (P=16), " +
		"Fibonacci category counts (17-deep code before limiting), skewed-categories (P=13..16: categories 0..P with Fibonacci counts decreasing with the category, so the rare high categories get 11..16-bit codes at varying bit phases); sizes random up to 64 (quick) / 512 (thorough), w=1, h=1, " +
		"65535x1 and 1x65535 (thorough); small geometries 1x1..3x3 with one component at P=2: every image when there are " +
		"at most 256 of them, else a regular sample of 256/384 images in quick; thorough: every image of every geometry " +
		"with at most 300000 images (all of 1x1..3x3 at P=2, w*h<=6 at P=3, 1x1..2x1 with 3 components at P<=3), a " +
		"regular sample of 30000 otherwise; all 1x1,1x2,2x1 three-component images at P=2; " +
		"non-trivial = not all samples equal"
	if c.Replay != "" {
		replayC02(c)
		return
	}
	cases := genC02(c)
	ParallelFor(len(cases), c.Work, func(i int) { evalC02(c, cases[i], i < 3) })
	exhaustiveC02(c)
	optTableTie(c)
}

func genC02(c *Ctx) []c02case {
	rng := c.Rng.Fork()
	var cases []c02case
	maxDim := 64
	if c.Thor {
		maxDim = 512
	}
	budget := func(im *Img) []int { // which codecs go through the model
		n := im.N()
		switch {
		case n <= 3000:
			return allCodecs
		case n <= 40000:
			return []int{rng.Intn(8), predSV1}
		default:
			return []int{1 + rng.Intn(7)}
		}
	}
	add := func(im *Img) { cases = append(cases, c02case{im, budget(im)}) }
	// every precision x component count x content kind at a random size
	reps := c.N(1, 4)
	for r := 0; r < reps; r++ {
		for p := 2; p <= 16; p++ {
			for _, comps := range []int{1, 3} {
				for _, kind := range contentKinds {
					md := maxDim
					if !c.Thor || rng.Intn(8) != 0 {
						md = 24 // most cases small; the large ones come below
					}
					w, h := randSize(rng, md)
					add(fill(rng, w, h, comps, p, kind))
				}
			}
		}
	}
	// larger random sizes
	for i := 0; i < c.N(24, 80); i++ {
		w, h := rng.Range(1, maxDim), rng.Range(1, maxDim)
		p := rng.Range(2, 16)
		comps := rng.Pick(1, 3)
		add(fill(rng, w, h, comps, p, contentKinds[rng.Intn(len(contentKinds))]))
	}
	// the boundary classes the property names
	for i := 0; i < c.N(6, 30); i++ {
		w, h := randSize(rng, 40)
		add(fill(rng, w, h, rng.Pick(1, 3), 16, "d32768"))
	}
	for _, p := range []int{8, 12, 15, 16} { // alternating extremes at the precisions that matter
		for _, comps := range []int{1, 3} {
			w, h := rng.Range(2, 12), rng.Range(2, 12)
			add(fill(rng, w, h, comps, p, "alt"))
			add(fill(rng, w, h, comps, p, "edges"))
		}
	}
	add(&Img{W: 2, H: 2, C: 1, P: 15, S: []int{0, 32767, 32767, 0}, Kind: "alt"})
	for i := 0; i < c.N(2, 6); i++ {
		add(fibImage(rng))
	}
	// skewed-categories: rare high categories with the longest codes (see skewedImage)
	for r := 0; r < c.N(1, 4); r++ {
		for p := 13; p <= 16; p++ {
			add(skewedImage(rng, p, 1, 1))
			add(skewedImage(rng, p, 1, 1))
			add(skewedImage(rng, p, 3, 1))
			if p <= 14 {
				add(skewedImage(rng, p, 1, 3))
			}
		}
	}
	if c.Thor {
		for _, g := range [][2]int{{65535, 1}, {1, 65535}} {
			for _, p := range []int{8, 16} {
				add(fill(rng, g[0], g[1], 1, p, "smooth"))
			}
			add(fill(rng, g[0], g[1], 3, 12, "noise"))
		}
		add(fill(rng, 512, 512, 3, 16, "noise"))
		add(fill(rng, 512, 512, 1, 8, "smooth"))
	}
	return cases
}

func predLabel(pred int) string {
	if pred == predSV1 {
		return "sv1"
	}
	return "pred." + strconv.Itoa(pred)
}

// roundtripSig: "jpegll:roundtrip:P=15:pred=4" / "sv1:roundtrip:P=15"
func roundtripSig(pred int, im *Img) string {
	if pred == predSV1 {
		return fmt.Sprintf("sv1:roundtrip:P=%d", im.P)
	}
	return fmt.Sprintf("jpegll:roundtrip:P=%d:pred=%d", im.P, pred)
}

func evalC02(c *Ctx, k c02case, sample bool) {
	im := k.im
	px := im.Bytes()
	key := im.Key()
	nt := im.Nontrivial()
	if sample {
		c.R.Sample(map[string]interface{}{"suite": "roundtrip", "w": im.W, "h": im.H, "comps": im.C, "P": im.P,
			"kind": im.Kind, "pixels": clipHex(px)})
	}
	for _, pred := range allCodecs {
		c.R.Case(key+":"+predLabel(pred), nt, "P."+strconv.Itoa(im.P), "comps."+strconv.Itoa(im.C),
			"kind."+im.Kind, predLabel(pred), im.SizeBucket())
		oracleC02(c, im, px, pred, inList(k.corr, pred))
	}
}

func inList(l []int, x int) bool {
	for _, y := range l {
		if x == y {
			return true
		}
	}
	return false
}

func clipHex(b []byte) string {
	if len(b) > 256 {
		return Hex(b[:256]) + "..."
	}
	return Hex(b)
}

// oracleC02: the property on the implementation (round trip incl. reported geometry and
// precision), and, when corr, the correspondence with the extracted model.
func oracleC02(c *Ctx, im *Img, px []byte, pred int, corr bool) {
	sig := roundtripSig(pred, im)
	input := func() map[string]interface{} {
		return im.Input(map[string]interface{}{"codec": codecName(pred), "pred": pred})
	}
	stream, class, msg := goEncode(pred, im, px)
	c.R.Oracle("roundtrip")
	var dec *decoded
	if class != "ok" {
		c.R.Fail("oracle", "roundtrip", sig+":encode:"+class, "encoder fails on a valid image: "+msg, input())
	} else {
		dec = goDecode(pred == predSV1, stream)
		if !dec.matches(im, px) {
			suf, what := dec.failSuffix(im, px)
			c.R.Fail("oracle", "roundtrip", sig+suf, what, input())
		}
	}
	if !corr || !c.HasModel() {
		return
	}
	csig := fmt.Sprintf("%s:P=%d:pred=%d", codecName(pred), im.P, pred)
	var got string
	if pred == predSV1 {
		got = c.M.Call("sv1_encode", itoa(im.W), itoa(im.H), itoa(im.C), itoa(im.P), Hex(px))
	} else {
		got = c.M.Call("jll_encode", itoa(im.W), itoa(im.H), itoa(im.C), itoa(im.P), itoa(pred), Hex(px))
	}
	want := class
	if class == "ok" {
		want = "ok:" + Hex(stream)
	}
	c.CorrEq("encode_bytes", csig, got, want, input())
	if class != "ok" {
		return
	}
	op := "jll_decode"
	if pred == predSV1 {
		op = "sv1_decode"
	}
	got = c.M.Call(op, Hex(stream))
	c.CorrEq("decode_result", csig, got, dec.String(), input())
	// hypothesis of the round-trip theorem: the emitted table is a valid canonical table
	if t := dhtOf(stream); t != "" {
		c.CorrEq("dht_table_ok", csig, c.M.Call("jll_table_ok", t), "1", input())
	}
}

func itoa(i int) string { return strconv.Itoa(i) }

// dhtOf returns BITS++HUFFVAL (hex) of the first DHT segment of an encoder stream.
func dhtOf(s []byte) string {
	i := 2
	for i+4 <= len(s) && s[i] == 0xFF {
		m := s[i+1]
		l := int(s[i+2])<<8 | int(s[i+3])
		if m == 0xC4 && i+2+l <= len(s) && l >= 19 {
			return Hex(s[i+5 : i+2+l])
		}
		if m == 0xDA {
			return ""
		}
		i += 2 + l
	}
	return ""
}

// exhaustiveC02: every image of the small geometries (thorough), or every image of the
// geometries with w*h <= 4 and a regular sample of 384 images of the larger ones (quick).
func exhaustiveC02(c *Ctx) {
	type geo struct{ w, h, comps, p int }
	var geos []geo
	for w := 1; w <= 3; w++ {
		for h := 1; h <= 3; h++ {
			geos = append(geos, geo{w, h, 1, 2})
			if c.Thor && w*h <= 6 {
				geos = append(geos, geo{w, h, 1, 3})
			}
		}
	}
	geos = append(geos, geo{1, 1, 3, 2}, geo{2, 1, 3, 2}, geo{1, 2, 3, 2})
	if c.Thor {
		geos = append(geos, geo{1, 1, 3, 3}, geo{2, 1, 3, 3}, geo{1, 2, 3, 3}, geo{2, 2, 3, 2})
	}
	for gi, g := range geos {
		n := exhaustiveCount(g.w, g.h, g.comps, g.p)
		if n < 0 {
			continue
		}
		// which indices are visited: all of them when the space is small enough for the tier
		// (quick: <= 256; thorough: <= 300000, which includes all 3x3 images at P=2), else a
		// regular sample (quick: 256/384, thorough: 30000)
		visit := n
		step := 1
		switch {
		case !c.Thor && n > 4096:
			visit = 384
		case !c.Thor && n > 256:
			visit = 256
		case c.Thor && n > 300000:
			visit = 30000
		}
		if visit < n {
			step = n/visit | 1
		}
		// the model sees every visited image when there are few, otherwise a regular sample
		stride := 1
		if visit > 64 {
			stride = visit/64 | 1
		}
		const chunk = 1024
		nchunks := (visit + chunk - 1) / chunk
		g := g
		ParallelFor(nchunks, c.Work, func(ci int) {
			for vi := ci * chunk; vi < visit && vi < (ci+1)*chunk; vi++ {
				idx := (vi * step) % n
				im := exhaustiveImg(g.w, g.h, g.comps, g.p, idx)
				px := im.Bytes()
				nt := im.Nontrivial()
				key := fmt.Sprintf("e%d:%d", gi, idx)
				corr := vi%stride == 0
				for _, pred := range allCodecs {
					c.R.Case(key+":"+itoa(pred), nt, "kind.exhaustive", "P."+itoa(g.p), "comps."+itoa(g.comps), predLabel(pred), "size.le9")
					oracleC02(c, im, px, pred, corr && (stride == 1 || pred == 1+vi/stride%7 || pred == predSV1))
				}
			}
		})
	}
}

// optTableTie: standard.BuildOptimalHuffmanTable against the model on frequency vectors
// (component tie; the encoders only ever use symbols 0..16).
func optTableTie(c *Ctx) {
	if !c.HasModel() {
		return
	}
	rng := c.Rng.Fork()
	n := c.N(150, 2000)
	vecs := make([][256]uint64, n)
	for i := range vecs {
		nsym := []int{1, 2, 3, 17, 17, 40, 256}[rng.Intn(7)]
		mode := rng.Intn(4)
		a, b := uint64(1), uint64(1)
		for j := 0; j < nsym; j++ {
			s := j
			if nsym < 256 && rng.Intn(3) == 0 {
				s = rng.Intn(256)
			}
			switch mode {
			case 0:
				vecs[i][s] = uint64(rng.Intn(1000))
			case 1: // Fibonacci-like: deepest trees, exercises the 256 -> 16 limiting; with more than
				// 32 such symbols the unrestricted tree is deeper than 32 (finding F48)
				if j < 60 {
					vecs[i][s] = a
					a, b = b, a+b+uint64(i%2)
				} else {
					vecs[i][s] = uint64(rng.Intn(3))
				}
			case 2:
				vecs[i][s] = uint64(1) << uint(rng.Intn(40))
			default:
				vecs[i][s] = uint64(1 + rng.Intn(4)) // many ties
			}
		}
	}
	// the F48 witness itself: symbols 0..32 with a(1)=a(2)=1, a(k)=a(k-1)+a(k-2)+1
	if n > 0 {
		var f48 [256]uint64
		f48[0], f48[1] = 1, 1
		for k := 2; k <= 32; k++ {
			f48[k] = f48[k-1] + f48[k-2] + 1
		}
		vecs[0] = f48
	}
	ParallelFor(n, c.Work, func(i int) {
		f := vecs[i]
		parts := make([]string, 256)
		for j, v := range f {
			parts[j] = strconv.FormatUint(v, 10)
		}
		var want string
		p, _ := Safely(func() {
			t := standard.BuildOptimalHuffmanTable(f)
			b := make([]byte, 0, 16+len(t.Values))
			for _, x := range t.Bits {
				b = append(b, byte(x))
			}
			want = "ok:" + Hex(append(b, t.Values...))
		})
		if p {
			want = "panic"
		}
		got := c.M.Call("jll_opt_table", strings.Join(parts, ","))
		c.CorrEq("opt_table", "opt_table", got, want, map[string]interface{}{"freqs": strings.Join(parts, ",")})
	})
}

func replayC02(c *Ctx) {
	r := loadReplay(c.Replay)
	if r == nil {
		c.R.Note("replay file %s unreadable", c.Replay)
		return
	}
	for _, f := range r.Failures {
		if f.Suite != "roundtrip" {
			continue
		}
		im := replayImg(f.Input)
		if im == nil {
			continue
		}
		pred := inInt(f.Input, "pred")
		if inStr(f.Input, "codec") == "sv1" {
			pred = predSV1
		}
		c.R.Case("replay:"+im.Key()+":"+predLabel(pred), true, "kind.replay")
		oracleC02(c, im, im.Bytes(), pred, true)
	}
}
