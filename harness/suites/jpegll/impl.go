package jpegll

import (
	"bytes"
	"encoding/json"
	"fmt"
	"os"

	"github.com/cocosip/go-dicom-codecs/jpeg/lossless"
	"github.com/cocosip/go-dicom-codecs/jpeg/lossless14sv1"
	. "verif/harness/vhlib"
)

// codec selector: pred 0..7 = lossless.Encode with that predictor, predSV1 = lossless14sv1
const predSV1 = -1

func codecName(pred int) string {
	if pred == predSV1 {
		return "sv1"
	}
	return "jpegll"
}

// goEncode runs the implementation encoder; class is "ok", "err" or "panic".
func goEncode(pred int, im *Img, px []byte) (out []byte, class, msg string) {
	var err error
	p, m := Safely(func() {
		if pred == predSV1 {
			out, err = lossless14sv1.Encode(px, im.W, im.H, im.C, im.P)
		} else {
			out, err = lossless.Encode(px, im.W, im.H, im.C, im.P, pred)
		}
	})
	if p {
		return nil, "panic", m
	}
	if err != nil {
		return nil, "err", err.Error()
	}
	return out, "ok", ""
}

type decoded struct {
	Class      string // ok | err | panic
	Msg        string
	Px         []byte
	W, H, C, P int
}

// canonical string, identical in format to the model's reply
func (d *decoded) String() string {
	if d.Class != "ok" {
		return d.Class
	}
	return fmt.Sprintf("ok:%d,%d,%d,%d:%s", d.W, d.H, d.C, d.P, Hex(d.Px))
}

func goDecode(sv1 bool, stream []byte) *decoded {
	d := &decoded{}
	var err error
	p, m := Safely(func() {
		if sv1 {
			d.Px, d.W, d.H, d.C, d.P, err = lossless14sv1.Decode(stream)
		} else {
			d.Px, d.W, d.H, d.C, d.P, err = lossless.Decode(stream)
		}
	})
	switch {
	case p:
		d.Class, d.Msg = "panic", m
	case err != nil:
		d.Class, d.Msg = "err", err.Error()
	default:
		d.Class = "ok"
	}
	return d
}

func (d *decoded) matches(im *Img, px []byte) bool {
	return d.Class == "ok" && d.W == im.W && d.H == im.H && d.C == im.C && d.P == im.P && bytes.Equal(d.Px, px)
}

// what went wrong, for the failure signature
func (d *decoded) failSuffix(im *Img, px []byte) (suffix, what string) {
	switch {
	case d.Class == "panic":
		return ":panic", "decoder panics: " + d.Msg
	case d.Class == "err":
		return ":err", "decoder rejects the stream: " + d.Msg
	case d.W != im.W || d.H != im.H || d.C != im.C || d.P != im.P:
		return ":geometry", fmt.Sprintf("decoder reports %dx%dx%d@%d, source is %dx%dx%d@%d", d.W, d.H, d.C, d.P, im.W, im.H, im.C, im.P)
	default:
		i := 0
		for i < len(px) && i < len(d.Px) && px[i] == d.Px[i] {
			i++
		}
		return "", fmt.Sprintf("decoded pixels differ from the source (first difference at byte %d of %d; decoded length %d)", i, len(px), len(d.Px))
	}
}

// ---------- replay ----------
type replayFile struct {
	Failures []struct {
		Kind  string                 `json:"kind"`
		Suite string                 `json:"suite"`
		Sig   string                 `json:"sig"`
		Input map[string]interface{} `json:"input"`
	} `json:"failures"`
}

func loadReplay(path string) *replayFile {
	b, err := os.ReadFile(path)
	if err != nil {
		return nil
	}
	var r replayFile
	if json.Unmarshal(b, &r) != nil {
		return nil
	}
	return &r
}

func inInt(m map[string]interface{}, k string) int {
	if v, ok := m[k].(float64); ok {
		return int(v)
	}
	return 0
}
func inStr(m map[string]interface{}, k string) string {
	if v, ok := m[k].(string); ok {
		return v
	}
	return ""
}
func replayImg(m map[string]interface{}) *Img {
	w, h, c, p := inInt(m, "w"), inInt(m, "h"), inInt(m, "comps"), inInt(m, "P")
	if w <= 0 || h <= 0 || c <= 0 || p < 2 || p > 16 {
		return nil
	}
	return imgFromBytes(w, h, c, p, UnHex(inStr(m, "pixels")), "replay")
}
