package jpegll

import (
	"fmt"
	"strings"

	. "verif/harness/vhlib"
)

// t81 stream parameters (reference encoder JllT81.t81_encode)
type t81par struct {
	pred     int
	tds      []int    // Td per component
	spec     []string // per table id 0..3: "-", "std", "opt", "x<hex>"
	dhtAfter bool
	extras   int // extraSegs mode of the t81_encode op: 0 none, 1 demo, 2..4 with EMPTY payloads
}

func (p *t81par) emptySeg() bool { return p.extras >= 2 }

func (p *t81par) maxID() int {
	m := 0
	for i, s := range p.spec {
		if s != "-" && i > m {
			m = i
		}
	}
	for _, t := range p.tds {
		if t > m {
			m = t
		}
	}
	return m
}
func b01(b bool) string {
	if b {
		return "1"
	}
	return "0"
}
func (p *t81par) kinds() string {
	var ks []string
	for _, s := range p.spec {
		if strings.HasPrefix(s, "x") {
			ks = append(ks, "rnd")
		} else {
			ks = append(ks, s)
		}
	}
	return strings.Join(ks, "/")
}

func runC13(c *Ctx) {
	c.R.Rule = "C13 jpegll: (a) every stream of lossless.Encode (predictor 0..7) and lossless14sv1.Encode is decoded by the " +
		"extracted independent T.81 Annex H decoder (JllT81.t81_decode) and compared with the source; (b) streams of the " +
		"independent T.81 encoder (predictor 1..7, Td in 0..3 per component, tables standard-extended / per-image optimal / " +
		"seeded random canonical with all 17 categories, DHT before or after SOF3, optional APPn/COM segments containing " +
		"marker-like bytes or with EMPTY payloads (Lp = 2) after SOI and directly in front of SOS) are decoded by lossless.Decode and, for predictor 1, lossless14sv1.Decode and compared with the " +
		"source; images: P in 2..16, 1 or 3 components, contents as in C02; non-trivial = not all samples equal"
	if !c.HasModel() {
		c.R.Note("C13 needs the extracted T.81 reference codec; no model available, nothing evaluated")
		return
	}
	if c.Replay != "" {
		replayC13(c)
		return
	}
	rng := c.Rng.Fork()
	type cs struct {
		im   *Img
		pars []*t81par
	}
	var cases []cs
	maxDim := 24
	if c.Thor {
		maxDim = 96
	}
	kinds := append([]string{}, contentKinds...)
	reps := c.N(1, 6)
	for r := 0; r < reps; r++ {
		for p := 2; p <= 16; p++ {
			for _, comps := range []int{1, 3} {
				kind := kinds[rng.Intn(len(kinds))]
				if p == 16 && rng.Intn(3) == 0 {
					kind = "d32768"
				}
				w, h := randSize(rng, maxDim)
				if r == 0 && w*h < 4 {
					w, h = w+1, h+2
				}
				im := fill(rng, w, h, comps, p, kind)
				k := cs{im: im}
				for pred := 1; pred <= 7; pred++ {
					k.pars = append(k.pars, randPar(rng, pred, comps, (pred+p+r)%3))
				}
				cases = append(cases, k)
			}
		}
	}
	// the precisions where the reconstruction modulus matters, with large differences
	for _, p := range []int{15, 16} {
		for _, comps := range []int{1, 3} {
			for _, kind := range []string{"alt", "edges", "noise"} {
				im := fill(rng, rng.Range(2, 10), rng.Range(2, 10), comps, p, kind)
				k := cs{im: im}
				for pred := 1; pred <= 7; pred++ {
					k.pars = append(k.pars, randPar(rng, pred, comps, 0))
				}
				cases = append(cases, k)
			}
		}
	}
	cases = append(cases, cs{im: fibImage(rng), pars: []*t81par{randPar(rng, 1, 1, 0), randPar(rng, 1, 1, 2)}})
	// skewed-categories through the Go encoders -> T.81 decoder, and one T.81 stream back
	for p := 13; p <= 16; p++ {
		cases = append(cases, cs{im: skewedImage(rng, p, 1, 1), pars: []*t81par{randPar(rng, 1+rng.Intn(7), 1, 0)}})
	}
	// conformant streams with EMPTY-payload APPn/COM segments, always present: table 0 only, both
	// DHT placements, every extraSegs mode with an empty segment, predictor 1 (both decoders) and 4, 7
	for _, comps := range []int{1, 3} {
		for mode := 2; mode <= 4; mode++ {
			for _, pred := range []int{1, 1, 4, 7} {
				p := rng.Pick(8, 12, 16)
				im := fill(rng, rng.Range(1, 9), rng.Range(1, 9), comps, p, contentKinds[rng.Intn(len(contentKinds))])
				par := &t81par{pred: pred, dhtAfter: rng.Bool(), extras: mode, spec: []string{[]string{"std", "opt"}[rng.Intn(2)], "-", "-", "-"}}
				for i := 0; i < comps; i++ {
					par.tds = append(par.tds, 0)
				}
				cases = append(cases, cs{im: im, pars: []*t81par{par}})
			}
		}
	}
	mutationTie(c)
	ParallelFor(len(cases), c.Work, func(i int) {
		k := cases[i]
		px := k.im.Bytes()
		if i < 2 {
			c.R.Sample(k.im.Input(map[string]interface{}{"suite": "t81", "pixels": clipHex(px)}))
		}
		for _, pred := range allCodecs {
			t81decOracle(c, k.im, px, pred)
		}
		for _, par := range k.pars {
			godecOracle(c, k.im, px, par)
		}
	})
}

// randPar: idClass 0 = table ids 0..1 only, 1 = ids 0..3 used, 2 = only id 0 used but ids
// 2..3 may be defined
func randPar(rng *Rand, pred, comps, idClass int) *t81par {
	p := &t81par{pred: pred, dhtAfter: rng.Bool(), spec: []string{"-", "-", "-", "-"}}
	switch rng.Intn(6) {
	case 0:
		p.extras = 1
	case 1:
		p.extras = rng.Range(2, 4)
	}
	hi := 1
	if idClass == 1 {
		hi = 3
	}
	for i := 0; i < comps; i++ {
		td := rng.Range(0, hi)
		if idClass == 2 || rng.Intn(4) == 0 {
			td = 0
		}
		p.tds = append(p.tds, td)
	}
	if idClass == 1 && rng.Intn(2) == 0 { // make sure a high id is really used
		p.tds[rng.Intn(comps)] = rng.Range(2, 3)
	}
	kind := func() string {
		switch rng.Intn(3) {
		case 0:
			return "std"
		case 1:
			return "opt"
		default:
			return "x" + randTable(rng)
		}
	}
	for _, td := range p.tds {
		if p.spec[td] == "-" {
			p.spec[td] = kind()
		}
	}
	// sometimes define tables that no component uses
	for id := 0; id < 4; id++ {
		if p.spec[id] == "-" && rng.Intn(6) == 0 && (id <= 1 || idClass != 0) {
			if rng.Bool() {
				p.spec[id] = "std"
			} else {
				p.spec[id] = "x" + randTable(rng)
			}
		}
	}
	return p
}

// randTable: a random valid canonical table for the 17 categories: random binary tree with
// one more leaf than symbols (the deepest leaf stays unused, so the all-ones code of the
// maximal length is reserved as T.81 requires), depth <= 16, symbols assigned at random.
func randTable(rng *Rand) string {
	depths := []int{0}
	target := 18 + rng.Intn(3)*rng.Intn(6) // extra unused leaves: sparse tables
	for len(depths) < target {
		i := rng.Intn(len(depths))
		if depths[i] >= 16 {
			continue
		}
		if rng.Intn(3) != 0 { // bias towards splitting deep leaves: skewed trees
			for j := range depths {
				if depths[j] > depths[i] && depths[j] < 16 && rng.Bool() {
					i = j
				}
			}
		}
		d := depths[i] + 1
		depths[i] = d
		depths = append(depths, d)
	}
	// drop the deepest leaves until 17 remain
	for len(depths) > 17 {
		mi := 0
		for j := range depths {
			if depths[j] > depths[mi] {
				mi = j
			}
		}
		depths = append(depths[:mi], depths[mi+1:]...)
	}
	syms := perm17(rng)
	var bits [17]int
	vals := make([]byte, 0, 17)
	for l := 1; l <= 16; l++ {
		for i, d := range depths {
			if d == l {
				bits[l]++
				vals = append(vals, byte(syms[i]))
			}
		}
	}
	b := make([]byte, 0, 33)
	for l := 1; l <= 16; l++ {
		b = append(b, byte(bits[l]))
	}
	return Hex(append(b, vals...))
}

func perm17(rng *Rand) []int {
	p := make([]int, 17)
	for i := range p {
		p[i] = i
	}
	for i := 16; i > 0; i-- {
		j := rng.Intn(i + 1)
		p[i], p[j] = p[j], p[i]
	}
	return p
}

func sigGodec(codec string, im *Img, par *t81par) string {
	if par.emptySeg() && par.maxID() <= 1 {
		// a conformant stream with an APPn/COM segment whose payload is empty
		return codec + ":godec:emptyseg"
	}
	if codec == "sv1" {
		return fmt.Sprintf("sv1:godec:td=%d", par.maxID())
	}
	if par.maxID() >= 2 {
		return fmt.Sprintf("jpegll:godec:td=%d", par.maxID())
	}
	s := fmt.Sprintf("jpegll:godec:pred=%d", par.pred)
	if im.P >= 15 {
		s += fmt.Sprintf(":P=%d", im.P)
	}
	return s
}

func tdString(tds []int) string { return Ints(tds) }

// godecOracle: reference stream -> implementation decoders = source
func godecOracle(c *Ctx, im *Img, px []byte, par *t81par) {
	input := im.Input(map[string]interface{}{"dir": "godec", "pred": par.pred, "tds": tdString(par.tds),
		"tablespec": strings.Join(par.spec, "/"), "dhtAfterSof": b01(par.dhtAfter), "extraSegs": itoa(par.extras)})
	rep := c.M.Call("t81_encode", itoa(im.W), itoa(im.H), itoa(im.C), itoa(im.P), itoa(par.pred), tdString(par.tds),
		strings.Join(par.spec, "/"), b01(par.dhtAfter), itoa(par.extras), Hex(px))
	if !strings.HasPrefix(rep, "ok:") {
		c.R.Fail("corr", "t81_encode", "t81_encode:"+rep, "reference encoder did not produce a stream", input)
		return
	}
	stream := UnHex(rep[3:])
	input["stream"] = clipHex(stream)
	nt := im.Nontrivial()
	key := fmt.Sprintf("%s:t81:%d:%s:%s:%v:%v", im.Key(), par.pred, tdString(par.tds), strings.Join(par.spec, "/"), par.dhtAfter, par.extras)
	// self-check of the reference pair (a failure here is a defect of the reference, not of /repo)
	want := fmt.Sprintf("ok:%d,%d,%d,%d:%s", im.W, im.H, im.C, im.P, Hex(px))
	c.CorrEq("t81_selfcheck", "t81:selfcheck", c.M.Call("t81_decode", rep[3:]), want, input)

	run := func(sv1 bool) {
		codec := "jpegll"
		if sv1 {
			codec = "sv1"
		}
		dk := []string{"godec." + codec, "godec.pred." + itoa(par.pred), "godec.maxid." + itoa(par.maxID()),
			"godec.dhtafter." + b01(par.dhtAfter), "godec.extras." + itoa(par.extras), "P." + itoa(im.P), "comps." + itoa(im.C)}
		for _, kd := range []string{"std", "opt", "rnd"} {
			if strings.Contains(par.kinds(), kd) {
				dk = append(dk, "godec.table."+kd)
			}
		}
		c.R.Case(key+":"+codec, nt, dk...)
		dec := goDecode(sv1, stream)
		c.R.Oracle("godec")
		if !dec.matches(im, px) {
			suf, what := dec.failSuffix(im, px)
			c.R.Fail("oracle", "godec", sigGodec(codec, im, par)+suf, "conformant T.81 stream: "+what, input)
		}
		op := "jll_decode"
		if sv1 {
			op = "sv1_decode"
		}
		c.CorrEq("decode_result_t81", fmt.Sprintf("%s:t81stream:pred=%d:maxid=%d", codec, par.pred, par.maxID()),
			c.M.Call(op, rep[3:]), dec.String(), input)
	}
	run(false)
	if par.pred == 1 {
		run(true)
	}
}

// t81decOracle: implementation encoder -> independent T.81 decoder = source
func t81decOracle(c *Ctx, im *Img, px []byte, pred int) {
	input := im.Input(map[string]interface{}{"dir": "t81dec", "codec": codecName(pred), "pred": pred})
	c.R.Case(im.Key()+":t81dec:"+predLabel(pred), im.Nontrivial(), "t81dec."+predLabel(pred), "P."+itoa(im.P), "comps."+itoa(im.C), "kind."+im.Kind)
	stream, class, msg := goEncode(pred, im, px)
	sig := fmt.Sprintf("jpegll:t81dec:pred=%d", pred)
	if pred == predSV1 {
		sig = "sv1:t81dec"
	}
	c.R.Oracle("t81dec")
	if class != "ok" {
		c.R.Fail("oracle", "t81dec", sig+":encode:"+class, "encoder fails on a valid image: "+msg, input)
		return
	}
	want := fmt.Sprintf("ok:%d,%d,%d,%d:%s", im.W, im.H, im.C, im.P, Hex(px))
	got := c.M.Call("t81_decode", Hex(stream))
	if got != want {
		what := "independent T.81 Annex H decoder does not reproduce the source from the encoder's stream"
		if got == "err" {
			what = "independent T.81 Annex H decoder rejects the encoder's stream"
			sig += ":err"
		}
		if pred == 0 && len(stream) > 0 {
			what += fmt.Sprintf(" (automatic selection chose predictor %d)", ssOf(stream))
		}
		input["stream"] = clipHex(stream)
		c.R.Fail("oracle", "t81dec", sig, what, input)
	}
}

// ssOf returns the Ss byte (predictor) of the first SOS header of a stream.
func ssOf(s []byte) int {
	i := 2
	for i+4 <= len(s) && s[i] == 0xFF {
		l := int(s[i+2])<<8 | int(s[i+3])
		if s[i+1] == 0xDA && i+2+l <= len(s) && l >= 6 {
			return int(s[i+2+l-3])
		}
		i += 2 + l
	}
	return -1
}

func replayC13(c *Ctx) {
	r := loadReplay(c.Replay)
	if r == nil {
		c.R.Note("replay file %s unreadable", c.Replay)
		return
	}
	for _, f := range r.Failures {
		im := replayImg(f.Input)
		if im == nil {
			continue
		}
		px := im.Bytes()
		switch inStr(f.Input, "dir") {
		case "t81dec":
			pred := inInt(f.Input, "pred")
			if inStr(f.Input, "codec") == "sv1" {
				pred = predSV1
			}
			t81decOracle(c, im, px, pred)
		case "godec":
			par := &t81par{pred: inInt(f.Input, "pred"), tds: ParseInts(inStr(f.Input, "tds")),
				spec: strings.Split(inStr(f.Input, "tablespec"), "/"), dhtAfter: inStr(f.Input, "dhtAfterSof") == "1",
				extras: inInt(map[string]interface{}{"x": float64(atoiSafe(inStr(f.Input, "extraSegs")))}, "x")}
			godecOracle(c, im, px, par)
		}
	}
}

// mutationTie: correspondence only. Valid encoder streams are damaged (byte flips in the
// headers or the scan, truncation, a duplicated or foreign frame header, an over-subscribed
// or short DHT, a selector nibble, a dropped segment) and both decoders are compared with their
// models on the result class (ok with payload / err / panic).
func mutationTie(c *Ctx) {
	rng := c.Rng.Fork()
	n := c.N(240, 4000)
	type mc struct {
		stream []byte
		what   string
	}
	cases := make([]mc, n)
	for i := range cases {
		p := rng.Range(2, 16)
		comps := rng.Pick(1, 3)
		w, h := rng.Range(1, 6), rng.Range(1, 6)
		im := fill(rng, w, h, comps, p, contentKinds[rng.Intn(len(contentKinds))])
		pred := rng.Range(1, 7)
		s, class, _ := goEncode(pred, im, im.Bytes())
		if class != "ok" {
			continue
		}
		s = append([]byte{}, s...)
		// segment offsets: SOI(2) APP0(18) SOF3 DHT SOS
		sof := 20
		sofLen := 2 + (int(s[sof+2])<<8 | int(s[sof+3]))
		dht := sof + sofLen
		dhtLen := 2 + (int(s[dht+2])<<8 | int(s[dht+3]))
		sos := dht + dhtLen
		sosLen := 2 + (int(s[sos+2])<<8 | int(s[sos+3]))
		scan := sos + sosLen
		what := ""
		switch rng.Intn(14) {
		case 12, 13:
			// not damage: an APPn/COM segment with an EMPTY payload (Lp = 2) inserted before the
			// frame header or directly before the scan header; both decoders must still decode
			what = "empty-segment"
			seg := []byte{0xFF, []byte{0xFE, 0xE0, 0xE5, 0xEF}[rng.Intn(4)], 0x00, 0x02}
			at := []int{2, sof, dht, sos}[rng.Intn(4)]
			s = append(append(append([]byte{}, s[:at]...), seg...), s[at:]...)
		case 0:
			what = "flip-header"
			j := rng.Range(2, scan-1)
			s[j] ^= byte(1 << uint(rng.Intn(8)))
		case 1:
			what = "flip-scan"
			if scan < len(s)-2 {
				j := rng.Range(scan, len(s)-3)
				s[j] ^= byte(1 << uint(rng.Intn(8)))
			}
		case 2:
			what = "truncate"
			s = s[:rng.Range(0, len(s))]
		case 3:
			what = "second-sof3"
			d := append([]byte{}, s[sof:dht]...)
			s = append(append(append([]byte{}, s[:dht]...), d...), s[dht:]...)
		case 4:
			what = "foreign-sof"
			m := []byte{0xC0, 0xC1, 0xC2, 0xC5, 0xC7, 0xC9, 0xCB, 0xCD, 0xCF, 0xF7, 0xC8, 0xCC}[rng.Intn(12)]
			if rng.Bool() {
				s[sof+1] = m
			} else { // an extra foreign frame header before ours
				d := append([]byte{}, s[sof:dht]...)
				d[1] = m
				s = append(append(append([]byte{}, s[:sof]...), d...), s[sof:]...)
			}
		case 5:
			what = "dht-counts"
			s[dht+5+rng.Intn(16)] = byte(rng.Intn(256))
		case 6:
			what = "dht-oversubscribed"
			s[dht+5] = byte(3 + rng.Intn(5)) // > 2 codes of length 1
		case 7:
			what = "dht-class-id"
			s[dht+4] = byte(rng.Intn(256))
		case 8:
			what = "sos-selector"
			s[sos+6] = byte(rng.Intn(256))
		case 9:
			what = "drop-dht"
			s = append(append([]byte{}, s[:dht]...), s[sos:]...)
		case 10:
			what = "sos-first"
			d := append([]byte{}, s[sos:scan]...)
			s = append(append(append([]byte{}, s[:sof]...), d...), s[sof:]...)
		default:
			what = "dht-symbol"
			if dhtLen > 21 {
				s[dht+21+rng.Intn(dhtLen-21)] = byte(rng.Intn(256))
			}
		}
		cases[i] = mc{s, what}
	}
	ParallelFor(n, c.Work, func(i int) {
		k := cases[i]
		if k.stream == nil {
			return
		}
		in := map[string]interface{}{"stream": Hex(k.stream), "mutation": k.what}
		for _, sv1 := range []bool{false, true} {
			op, codec := "jll_decode", "jpegll"
			if sv1 {
				op, codec = "sv1_decode", "sv1"
			}
			dec := goDecode(sv1, k.stream)
			c.R.Case(fmt.Sprintf("mut:%d:%s", i, codec), true, "mutation."+k.what, "mutation.class."+dec.Class)
			c.CorrEq("decode_mutated", codec+":mutated:"+k.what, c.M.Call(op, Hex(k.stream)), dec.String(), in)
		}
	})
}

func atoiSafe(x string) int {
	v := ParseInts(x)
	if len(v) == 0 {
		return 0
	}
	return v[0]
}
