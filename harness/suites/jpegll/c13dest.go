package jpegll

import (
	"fmt"
	"strings"

	. "verif/harness/vhlib"
)

// C13, second half: streams of the independent T.81 encoder over the FULL space of header
// layouts (model ops t81_gen / t81_gen_hv = JllT81Gen.t81_gen_hv; proved:
// C13_decoder_on_every_t81_layout, C13_sv1_decoder_on_every_t81_layout) fed to lossless.Decode
// and lossless14sv1.Decode.

// RegisterDest adds the general-layout suite to C13 (to be called next to Register).
func RegisterDest(s Suites) { s.Add("C13", runC13Dest) }

type destTab struct {
	tc, th int
	kind   string // std | alt | opt | x<hex>
}

type destPar struct {
	pred  int
	cids  []int
	tds   []int
	items []string // item specs of the t81_gen op
	tc1   bool     // contains a class-1 table (outside Table B.5 for lossless): correspondence only
	multi bool     // a DHT segment with several tables
	redef bool     // a destination defined more than once
	nExt  int      // number of APPn/COM segments
	empty bool     // an APPn/COM segment with empty payload
	sofAt string   // first | middle | last
	hv    int      // sampling byte H1|V1 of a single-component frame; 0 = 0x11 (op t81_gen)
}

func (p *destPar) spec() string { return strings.Join(p.items, "/") }

func randDestPar(rng *Rand, pred, comps int) *destPar {
	p := &destPar{pred: pred}
	// component identifiers: distinct bytes, boundary values included
	used := map[int]bool{}
	for len(p.cids) < comps {
		id := rng.Intn(256)
		switch rng.Intn(6) {
		case 0:
			id = 0
		case 1:
			id = 255
		case 2:
			id = len(p.cids) + 1
		}
		if !used[id] {
			used[id] = true
			p.cids = append(p.cids, id)
		}
	}
	share := rng.Intn(3) == 0
	for i := 0; i < comps; i++ {
		td := rng.Range(0, 3)
		if share && i > 0 {
			td = p.tds[0]
		}
		p.tds = append(p.tds, td)
	}
	finalKind := func() string {
		switch rng.Intn(4) {
		case 0:
			return "std"
		case 1:
			return "alt"
		case 2:
			return "opt"
		default:
			return "x" + randTable(rng)
		}
	}
	anyKind := func() string {
		switch rng.Intn(3) {
		case 0:
			return "std"
		case 1:
			return "alt"
		default:
			return "x" + randTable(rng)
		}
	}
	// table definitions in stream order: decoys first (later redefined), unused destinations,
	// class-1 tables, then the definitions in force for the destinations the scan selects
	var defs []destTab
	inUse := map[int]bool{}
	for _, td := range p.tds {
		inUse[td] = true
	}
	for th := 0; th < 4; th++ {
		if inUse[th] && rng.Intn(3) == 0 {
			defs = append(defs, destTab{0, th, anyKind()})
			p.redef = true
		}
		if !inUse[th] && rng.Intn(4) == 0 {
			defs = append(defs, destTab{0, th, anyKind()})
		}
		if rng.Intn(30) == 0 {
			defs = append(defs, destTab{1, th, anyKind()})
			p.tc1 = true
		}
	}
	for i := len(defs) - 1; i > 0; i-- {
		j := rng.Intn(i + 1)
		defs[i], defs[j] = defs[j], defs[i]
	}
	var fin []destTab
	for th := 0; th < 4; th++ {
		if inUse[th] {
			fin = append(fin, destTab{0, th, finalKind()})
		}
	}
	for i := len(fin) - 1; i > 0; i-- {
		j := rng.Intn(i + 1)
		fin[i], fin[j] = fin[j], fin[i]
	}
	// a class-1 table for a destination in use may also come AFTER the definition in force
	if rng.Intn(25) == 0 {
		fin = append(fin, destTab{1, p.tds[0], anyKind()})
		p.tc1 = true
	}
	defs = append(defs, fin...)
	// group into DHT segments
	var items []string
	for i := 0; i < len(defs); {
		n := 1
		if rng.Intn(3) == 0 {
			n = rng.Range(2, 3)
		}
		if i+n > len(defs) {
			n = len(defs) - i
		}
		var ts []string
		for _, d := range defs[i : i+n] {
			ts = append(ts, fmt.Sprintf("%d:%d:%s", d.tc, d.th, d.kind))
		}
		if n > 1 {
			p.multi = true
		}
		items = append(items, "D"+strings.Join(ts, ";"))
		i += n
	}
	// APPn / COM segments at random positions
	p.nExt = rng.Pick(0, 0, 1, 2, 3, 5)
	for k := 0; k < p.nExt; k++ {
		code := rng.Range(224, 239)
		if rng.Intn(3) == 0 {
			code = 254
		}
		var payload []byte
		switch rng.Intn(4) {
		case 0: // empty (Lp = 2)
			p.empty = true
		case 1: // marker-like bytes
			payload = []byte{0xFF, 0xDA, 0xFF, 0xC4, 0x00, 0xFF, 0xD9, 0xFF}[:rng.Range(1, 8)]
		default:
			payload = make([]byte, rng.Range(1, 40))
			for i := range payload {
				payload[i] = byte(rng.Intn(256))
			}
		}
		at := rng.Intn(len(items) + 1)
		seg := fmt.Sprintf("E%d:%s", code, Hex(payload))
		items = append(items[:at], append([]string{seg}, items[at:]...)...)
	}
	// the frame header
	at := rng.Intn(len(items) + 1)
	switch rng.Intn(4) {
	case 0:
		at = 0
	case 1:
		at = len(items)
	}
	switch at {
	case 0:
		p.sofAt = "first"
	case len(items):
		p.sofAt = "last"
	default:
		p.sofAt = "middle"
	}
	items = append(items[:at], append([]string{"S"}, items[at:]...)...)
	p.items = items
	return p
}

func runC13Dest(c *Ctx) {
	c.R.Rule = "C13 jpegll/layout: streams of the independent T.81 encoder over the whole header-layout space of a single-scan " +
		"lossless stream (op t81_gen): predictor 1..7, arbitrary distinct component identifiers (0 and 255 included), Td in 0..3 " +
		"per component (shared or not), tables standard-extended / alternative / per-image optimal / seeded random canonical, " +
		"DHT segments with 1..3 tables before and/or after SOF3, destinations redefined before the scan (last definition in " +
		"force), unused destinations defined, 0..5 APPn/COM segments with random, marker-like or EMPTY payloads anywhere between " +
		"SOI and SOS, SOF3 first / in the middle / last; decoded by lossless.Decode and (predictor 1) lossless14sv1.Decode and " +
		"compared with the source; single-component frames written with the sampling bytes 0x22, 0x12, 0x21, 0x44 (op t81_gen_hv; " +
		"T.81 A.1.1 / A.2.2: the factors of a lone component do not change the image) must decode to the source with both " +
		"decoders; streams that also carry class-1 (Tc = 1) tables and the shape outside the decoders' documented range " +
		"(2 components) are compared with the decoder models only"
	if !c.HasModel() {
		c.R.Note("C13 layout suite needs the extracted T.81 generator; no model available, nothing evaluated")
		return
	}
	if c.Replay != "" {
		replayC13Dest(c)
		return
	}
	rng := c.Rng.Fork()
	type cs struct {
		im  *Img
		par *destPar
	}
	var cases []cs
	maxDim := 12
	if c.Thor {
		maxDim = 48
	}
	reps := c.N(8, 160)
	for r := 0; r < reps; r++ {
		for _, p := range []int{2, 5, 8, 9, 12, 15, 16} {
			for _, comps := range []int{1, 3} {
				for pred := 1; pred <= 7; pred++ {
					if pred > 1 && (pred+p+r)%2 == 0 {
						continue
					}
					kind := contentKinds[rng.Intn(len(contentKinds))]
					if p == 16 && rng.Intn(4) == 0 {
						kind = "d32768"
					}
					w, h := randSize(rng, maxDim)
					cases = append(cases, cs{fill(rng, w, h, comps, p, kind), randDestPar(rng, pred, comps)})
				}
			}
		}
	}
	ParallelFor(len(cases), c.Work, func(i int) {
		k := cases[i]
		if i < 2 {
			c.R.Sample(k.im.Input(map[string]interface{}{"suite": "t81layout", "items": k.par.spec()}))
		}
		destOracle(c, k.im, k.par)
	})
	destGreySampling(c, rng)
	destLimits(c)
}

func destInput(im *Img, par *destPar) map[string]interface{} {
	in := im.Input(map[string]interface{}{"dir": "layout", "pred": par.pred, "cids": Ints(par.cids), "tds": Ints(par.tds),
		"items": par.spec()})
	if par.hv != 0 {
		in["hv"] = par.hv
	}
	return in
}

// greySamplingBytes: sampling bytes H1|V1 other than 0x11 for a single-component frame.
var greySamplingBytes = []int{0x22, 0x12, 0x21, 0x44}

// destGreySampling: a single-component frame whose SOF3 declares sampling factors other than
// 1x1 is the same image as with 1x1 (T.81 A.1.1: Hmax = H1, Vmax = V1, the component has the
// dimensions of the image; A.2.2: one sample per MCU in a non-interleaved scan; some encoders
// write 0x22 for greyscale).  ORACLE for both Go decoders: the source pixels come back.
// Finding F54 (found by C13_sv1_grey_sampling_refuted, repaired in parseSOF3): lossless14sv1
// returned ErrUnsupportedFormat; signature sv1:grey-sampling-factors if it ever returns.
func destGreySampling(c *Ctx, rng *Rand) {
	type cs struct {
		im  *Img
		par *destPar
	}
	var cases []cs
	// the witness of the former refuted theorem: 2x1, P = 8, pixels 10 20, SOF3 then one DHT, 0x22
	wit := &Img{W: 2, H: 1, C: 1, P: 8, S: []int{10, 20}, Kind: "witness"}
	for _, hv := range greySamplingBytes {
		cases = append(cases, cs{wit, &destPar{pred: 1, cids: []int{1}, tds: []int{0}, items: []string{"S", "D0:0:std"},
			sofAt: "first", hv: hv}})
	}
	reps := c.N(1, 12)
	for r := 0; r < reps; r++ {
		for _, p := range []int{2, 8, 12, 16} {
			for _, hv := range greySamplingBytes {
				for _, pred := range []int{1, rng.Range(2, 7)} {
					kind := contentKinds[rng.Intn(len(contentKinds))]
					w, h := randSize(rng, 12)
					par := randDestPar(rng, pred, 1)
					for par.tc1 { // conformant streams only (Table B.5)
						par = randDestPar(rng, pred, 1)
					}
					par.hv = hv
					cases = append(cases, cs{fill(rng, w, h, 1, p, kind), par})
				}
			}
		}
	}
	ParallelFor(len(cases), c.Work, func(i int) { destOracle(c, cases[i].im, cases[i].par) })
}

func destOracle(c *Ctx, im *Img, par *destPar) {
	px := im.Bytes()
	input := destInput(im, par)
	var rep string
	if par.hv == 0 {
		rep = c.M.Call("t81_gen", itoa(im.W), itoa(im.H), itoa(im.P), itoa(par.pred), Ints(par.cids), Ints(par.tds), par.spec(), Hex(px))
	} else {
		rep = c.M.Call("t81_gen_hv", itoa(par.hv), itoa(im.W), itoa(im.H), itoa(im.P), itoa(par.pred), Ints(par.cids), Ints(par.tds),
			par.spec(), Hex(px))
	}
	if !strings.HasPrefix(rep, "ok:") {
		c.R.Fail("corr", "t81_gen", "t81_gen:"+rep, "reference generator did not produce a stream", input)
		return
	}
	stream := UnHex(rep[3:])
	input["stream"] = clipHex(stream)
	want := fmt.Sprintf("ok:%d,%d,%d,%d:%s", im.W, im.H, im.C, im.P, Hex(px))
	// self-check of the reference pair.  The reference decoder t81_decode accepts the sampling
	// byte 0x11 only: for another byte the stream must be the t81_gen stream with exactly the
	// sampling byte of the frame header replaced, and the t81_gen stream is self-checked.
	ref := rep[3:]
	if par.hv != 0 {
		r17 := c.M.Call("t81_gen", itoa(im.W), itoa(im.H), itoa(im.P), itoa(par.pred), Ints(par.cids), Ints(par.tds), par.spec(), Hex(px))
		at := sof3SamplingByte(stream)
		ok := strings.HasPrefix(r17, "ok:") && at > 0
		if ok {
			s17 := UnHex(r17[3:])
			ok = len(s17) == len(stream) && s17[at] == 0x11 && int(stream[at]) == par.hv
			for i := 0; ok && i < len(stream); i++ {
				ok = i == at || s17[i] == stream[i]
			}
		}
		if !ok {
			c.R.Fail("corr", "t81_gen_hv", "t81_gen_hv:shape",
				"the stream for another sampling byte is not the t81_gen stream with that byte of the frame header replaced", input)
			return
		}
		ref = r17[3:]
	}
	c.CorrEq("t81_layout_selfcheck", "t81:layout:selfcheck", c.M.Call("t81_decode", ref), want, input)
	key := fmt.Sprintf("%s:layout:%d:%s:%s:%s", im.Key(), par.pred, Ints(par.cids), Ints(par.tds), par.spec())
	if par.hv != 0 {
		key += fmt.Sprintf(":hv=%#02x", par.hv)
	}
	maxTd := 0
	for _, t := range par.tds {
		if t > maxTd {
			maxTd = t
		}
	}
	run := func(sv1 bool) {
		codec, op := "jpegll", "jll_decode"
		if sv1 {
			codec, op = "sv1", "sv1_decode"
		}
		dk := []string{"layout." + codec, "layout.pred." + itoa(par.pred), "layout.maxtd." + itoa(maxTd), "layout.sof." + par.sofAt,
			"layout.ext." + itoa(par.nExt), "P." + itoa(im.P), "comps." + itoa(im.C)}
		for name, on := range map[string]bool{"multi": par.multi, "redef": par.redef, "tc1": par.tc1, "emptyseg": par.empty} {
			if on {
				dk = append(dk, "layout."+name)
			}
		}
		for _, kd := range []string{"std", "alt", "opt", ":x"} {
			if strings.Contains(par.spec(), kd) {
				dk = append(dk, "layout.table."+strings.TrimPrefix(kd, ":"))
			}
		}
		if par.hv != 0 {
			dk = append(dk, fmt.Sprintf("layout.sampling.%#02x", par.hv))
		}
		c.R.Case(key+":"+codec, im.Nontrivial(), dk...)
		dec := goDecode(sv1, stream)
		if par.hv != 0 && !par.tc1 {
			// single component, sampling factors other than 1x1: the same image (T.81 A.1.1 / A.2.2)
			c.R.Oracle("godec_grey_sampling")
			if !dec.matches(im, px) {
				_, what := dec.failSuffix(im, px)
				short := "jll"
				if sv1 {
					short = "sv1"
				}
				c.R.Fail("oracle", "godec_grey_sampling", short+":grey-sampling-factors",
					fmt.Sprintf("conformant single-component T.81 stream with sampling byte %#02x: %s", par.hv, what), input)
			}
		} else if !par.tc1 { // Table B.5: Tc = 0 in a lossless stream; with a class-1 table the stream is not conformant
			c.R.Oracle("godec_layout")
			if !dec.matches(im, px) {
				suf, what := dec.failSuffix(im, px)
				c.R.Fail("oracle", "godec_layout", fmt.Sprintf("%s:godec:layout:td=%d%s", codec, maxTd, suf),
					"conformant T.81 stream (general layout): "+what, input)
			}
		}
		c.CorrEq("decode_result_t81_layout", fmt.Sprintf("%s:t81layout:pred=%d", codec, par.pred), c.M.Call(op, rep[3:]), dec.String(), input)
	}
	run(false)
	if par.pred == 1 {
		run(true)
	}
}

// sof3SamplingByte: offset of H1|V1 of the first component in the SOF3 segment of a stream of
// marker segments starting with SOI (-1 if there is none before SOS).
func sof3SamplingByte(s []byte) int {
	i := 2
	for i+4 <= len(s) && s[i] == 0xff {
		if s[i+1] == 0xc3 {
			if i+11 < len(s) {
				return i + 11 // FF C3, Lf (2), P, Y (2), X (2), Nf, C1, H1|V1
			}
			return -1
		}
		if s[i+1] == 0xda {
			return -1
		}
		i += 2 + (int(s[i+2])<<8 | int(s[i+3]))
	}
	return -1
}

// destLimits: the T.81 shape outside the decoders' documented range (proved:
// C13_component_count_refuted): implementation = model.  (The former second shape, one
// component with H1 = V1 = 2, is an oracle case now: destGreySampling.)
func destLimits(c *Ctx) {
	two := c.M.Call("t81_gen", "2", "1", "8", "1", "1,2", "0,0", "S/D0:0:std", "0a141e28")
	if !strings.HasPrefix(two, "ok:") {
		c.R.Fail("corr", "t81_gen", "t81_gen:limits", "reference generator did not produce the limit stream", nil)
		return
	}
	for name, s := range map[string][]byte{"two-components": UnHex(two[3:])} {
		for _, sv1 := range []bool{false, true} {
			codec, op := "jpegll", "jll_decode"
			if sv1 {
				codec, op = "sv1", "sv1_decode"
			}
			dec := goDecode(sv1, s)
			c.R.Case("layout-limit:"+name+":"+codec, true, "layout.limit."+name, "layout.limit.class."+dec.Class)
			c.CorrEq("decode_limit_shape", codec+":limit:"+name, c.M.Call(op, Hex(s)), dec.String(),
				map[string]interface{}{"stream": Hex(s), "shape": name})
		}
	}
}

func replayC13Dest(c *Ctx) {
	r := loadReplay(c.Replay)
	if r == nil {
		return
	}
	for _, f := range r.Failures {
		if inStr(f.Input, "dir") != "layout" {
			continue
		}
		im := replayImg(f.Input)
		if im == nil {
			continue
		}
		par := &destPar{pred: inInt(f.Input, "pred"), cids: ParseInts(inStr(f.Input, "cids")), tds: ParseInts(inStr(f.Input, "tds")),
			items: strings.Split(inStr(f.Input, "items"), "/")}
		if _, ok := f.Input["hv"]; ok {
			par.hv = inInt(f.Input, "hv")
		}
		par.tc1 = strings.Contains(par.spec(), "D1:") || strings.Contains(par.spec(), ";1:")
		destOracle(c, im, par)
	}
}
