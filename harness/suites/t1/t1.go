// Package t1s: correspondence and oracles for the EBCOT tier-1 block coder (jpeg2000/t1), the
// T1 clause of C20.
//
//	t1_enc        EncodeLayered: bytes, pass count, per-pass Rate / ActualBytes / Len / Terminated /
//	              Bitplane / PassType, model vs Go (full and truncated pass counts)
//	t1_enc_plain  Encode: bytes, model vs Go
//	t1_dec        DecodeLayeredWithMode(data, Rate, maxBitplane, 0, style&4, style&2) + GetData, model
//	              vs Go on the Go encoder's output (default and OpenJPEG reconstruction)
//	t1_ideal      the decoder model over the IDEAL channel (symbol lists of the encoder model, no
//	              arithmetic coder) returns the coefficients the Go decoder returns from the Go bytes
//	t1_dec_bp     DecodeWithBitplane + GetData, model vs Go (outcome class and coefficients)
//	t1_roundtrip  ORACLE on Go alone: decode(encode(block)) == block, all 3*planes-2 passes, pass
//	              lengths = the Rate values the encoder reports
//
// Driver (the property's "when given the pass lengths the encoder reports"):
//
//	enc := t1.NewT1Encoder(w, h, style); enc.SetOrientation(o); enc.SetNMSEDecFractionalBits(fb)
//	passes, data, _ := enc.EncodeLayered(block, np, 0, nil, uint8(style))
//	dec := t1.NewT1Decoder(w, h, style); dec.SetOrientation(o)
//	dec.DecodeLayeredWithMode(data, rates(passes), passes[0].Bitplane, 0, style&4 != 0, style&2 != 0)
//
// fb = 0: block = coefficients; fb = 6: block = coefficients << 6 (the top-level encoder's
// T1_NMSEDEC_FRACBITS convention), magnitudes up to 2^30 either way.
package t1s

import (
	"encoding/json"
	"fmt"
	"strings"

	"github.com/cocosip/go-dicom-codecs/jpeg2000/t1"
	. "verif/harness/vhlib"
)

// Register adds this area's suites.
func Register(s Suites) { s.Add("C20", runC20) }

// Case is one block with its coding parameters (JSON: replayable).
type Case struct {
	W      int     `json:"w"`
	H      int     `json:"h"`
	Orient int     `json:"orient"`
	Style  int     `json:"style"`
	FB     int     `json:"fb"`
	NP     int     `json:"np"` // passes to code; -1 = all
	Kind   string  `json:"kind"`
	Data   []int32 `json:"data"`
}

func maxBitplane(d []int32) int {
	m := int64(0)
	for _, v := range d {
		a := int64(v)
		if a < 0 {
			a = -a
		}
		if a > m {
			m = a
		}
	}
	b := -1
	for m > 0 {
		m >>= 1
		b++
	}
	return b
}

func styleName(s int) string {
	if s == 0 {
		return "none"
	}
	var p []string
	for i, n := range []string{"lazy", "reset", "termall", "vsc", "pterm", "segsym"} {
		if s&(1<<uint(i)) != 0 {
			p = append(p, n)
		}
	}
	return strings.Join(p, "+")
}

func genBlock(rng *Rand, w, h, fb int, kind int) ([]int32, string) {
	n := w * h
	d := make([]int32, n)
	names := []string{"zero", "pm1", "small", "medium", "large", "sparse-large", "one-sample", "stripes", "dense-max", "mixed"}
	name := names[kind%len(names)]
	lim := 1 << 30
	if fb > 0 {
		lim = 1 << 24 // shifted left by fb = 6 below
	}
	pick := func(mag int) int32 {
		if mag <= 0 {
			return 0
		}
		return int32(rng.Range(-mag, mag))
	}
	switch name {
	case "zero":
	case "pm1":
		for i := range d {
			d[i] = pick(1)
		}
	case "small":
		for i := range d {
			d[i] = pick(rng.Pick(1, 2, 3, 7))
		}
	case "medium":
		m := rng.Pick(15, 31, 100, 255, 1000, 4095)
		for i := range d {
			if rng.Intn(4) != 0 {
				d[i] = pick(m)
			}
		}
	case "large":
		m := rng.Pick(1<<16, 1<<20, lim)
		for i := range d {
			if rng.Intn(3) != 0 {
				d[i] = pick(m)
			}
		}
	case "sparse-large":
		for i := range d {
			if rng.Intn(12) == 0 {
				d[i] = pick(lim)
			}
		}
	case "one-sample":
		d[rng.Intn(n)] = int32(rng.Pick(1, -1, 16, -16, 17, lim, -lim, lim-1))
	case "stripes":
		// whole zero columns / runs so that the run-length mode of the cleanup pass is used
		m := rng.Pick(1, 5, 300, lim)
		for y := 0; y < h; y++ {
			for x := 0; x < w; x++ {
				if (y/4+x)%3 == 0 && rng.Intn(3) == 0 {
					d[y*w+x] = pick(m)
				}
			}
		}
	case "dense-max":
		for i := range d {
			if rng.Bool() {
				d[i] = int32(lim)
			} else {
				d[i] = int32(-lim)
			}
			if rng.Intn(4) == 0 {
				d[i] = pick(lim)
			}
		}
	case "mixed":
		for i := range d {
			switch rng.Intn(4) {
			case 0:
				d[i] = pick(2)
			case 1:
				d[i] = pick(1 << uint(rng.Range(1, 24)))
			case 2:
				d[i] = 0
			default:
				d[i] = pick(lim)
			}
		}
	}
	if fb > 0 {
		for i := range d {
			d[i] <<= uint(fb)
		}
	}
	return d, name
}

func pickSize(rng *Rand, i int, thor bool) (int, int) {
	fixed := [][2]int{{1, 1}, {1, 4}, {4, 1}, {2, 2}, {1, 5}, {3, 7}, {4, 4}, {5, 5}, {8, 3}, {64, 1}, {1, 64}, {16, 16}, {64, 64}}
	if i < len(fixed) {
		return fixed[i][0], fixed[i][1]
	}
	r := rng.Intn(100)
	switch {
	case r < 55:
		return rng.Range(1, 8), rng.Range(1, 9)
	case r < 90:
		return rng.Range(1, 16), rng.Range(1, 16)
	case r < 98:
		return rng.Pick(17, 24, 31, 32), rng.Pick(5, 13, 32)
	default:
		return rng.Pick(32, 63, 64), rng.Pick(33, 62, 64)
	}
}

type encOut struct {
	passes []t1.PassData
	data   []byte
	err    error
	panic  string
}

func goEncode(k Case, np int) encOut {
	var o encOut
	p, msg := Safely(func() {
		enc := t1.NewT1Encoder(k.W, k.H, k.Style)
		enc.SetOrientation(k.Orient)
		enc.SetNMSEDecFractionalBits(k.FB)
		o.passes, o.data, o.err = enc.EncodeLayered(k.Data, np, 0, nil, uint8(k.Style))
	})
	if p {
		o.panic = msg
	}
	return o
}

func (o encOut) String(localMaxbp int) string {
	if o.panic != "" {
		return "panic"
	}
	if o.err != nil {
		return "err"
	}
	f := func(g func(p t1.PassData) int) string {
		xs := make([]int, len(o.passes))
		for i, p := range o.passes {
			xs[i] = g(p)
		}
		return Ints(xs)
	}
	mb := localMaxbp
	if len(o.passes) > 0 {
		mb = o.passes[0].Bitplane
	}
	return fmt.Sprintf("ok:%d|%s|%s|%s|%s|%s|%s|%s", mb, Hex(o.data),
		f(func(p t1.PassData) int { return p.Rate }),
		f(func(p t1.PassData) int { return p.ActualBytes }),
		f(func(p t1.PassData) int { return p.Len }),
		f(func(p t1.PassData) int {
			if p.Terminated {
				return 1
			}
			return 0
		}),
		f(func(p t1.PassData) int { return p.Bitplane }),
		f(func(p t1.PassData) int { return p.PassType }))
}

func goDecodeLayered(k Case, data []byte, rates []int, maxbp int, oj bool) string {
	var out []int32
	var err error
	p, _ := Safely(func() {
		dec := t1.NewT1Decoder(k.W, k.H, k.Style)
		dec.SetOrientation(k.Orient)
		dec.SetOpenJPEGReconstruction(oj)
		err = dec.DecodeLayeredWithMode(data, rates, maxbp, 0, k.Style&4 != 0, k.Style&2 != 0)
		out = dec.GetData()
	})
	if p {
		return "panic"
	}
	if err != nil {
		return "err"
	}
	return "ok:" + Ints32(out)
}

func goDecodeBitplane(k Case, data []byte, np, maxbp int, oj bool) string {
	var out []int32
	var err error
	p, _ := Safely(func() {
		dec := t1.NewT1Decoder(k.W, k.H, k.Style)
		dec.SetOrientation(k.Orient)
		dec.SetOpenJPEGReconstruction(oj)
		err = dec.DecodeWithBitplane(data, np, maxbp, 0)
		out = dec.GetData()
	})
	if p {
		return "panic"
	}
	if err != nil {
		return "err"
	}
	return "ok:" + Ints32(out)
}

func b01(b bool) string {
	if b {
		return "1"
	}
	return "0"
}

func (k Case) args() []string {
	return []string{fmt.Sprint(k.W), fmt.Sprint(k.H), fmt.Sprint(k.Orient), fmt.Sprint(k.Style)}
}

func sizeBucket(w, h int) string {
	n := w * h
	switch {
	case n == 1:
		return "1x1"
	case n <= 16:
		return "<=16"
	case n <= 64:
		return "<=64"
	case n <= 256:
		return "<=256"
	case n <= 1024:
		return "<=1024"
	default:
		return "<=4096"
	}
}

func runC20(c *Ctx) {
	c.R.Rule = "T1: blocks 1x1..64x64 (quick: mostly <= 16x16, a few up to 64x64), orientation 0..3, all 64 style " +
		"combinations (cycled), fractional bits 0 and 6, content classes zero / +-1 / small / medium / large / sparse / " +
		"one sample / striped (run-length mode) / dense +-2^30 / mixed; all 3*planes-2 passes and truncated pass counts; " +
		"plus the raw-ones family (1-D blocks whose bypass segments at the low bit planes are runs of one-bits of every length 0..27, so that raw segments end in FF / FF 7F / FF FF with the pass boundary inside the tail); " +
		"non-trivial = at least one non-zero coefficient"
	rng := c.Rng.Fork()
	n := c.N(512, 6400)
	cases := make([]Case, 0, n)
	for i := 0; i < n; i++ {
		w, h := pickSize(rng, i, c.Thor)
		k := Case{W: w, H: h, Orient: i % 4, Style: (i/4*7 + i) % 64, FB: 0, NP: -1}
		if rng.Intn(3) == 0 {
			k.FB = 6
		}
		if i >= 256 {
			k.Style = rng.Intn(64)
			k.Orient = rng.Intn(4)
		}
		k.Data, k.Kind = genBlock(rng, w, h, k.FB, rng.Intn(10))
		if i%5 == 4 {
			mb := maxBitplane(k.Data)
			full := 3*(mb-k.FB+1) - 2
			if full > 1 {
				k.NP = rng.Range(1, full-1)
			}
		}
		cases = append(cases, k)
	}
	// raw (bypass) segments made of one-bits only, of every length 0..27: the boundary of the bypass
	// termination (segments ending in FF, FF 7F, FF FF ...; pass boundary inside the tail)
	cases = append(cases, rawOnesBlocks(c.Thor)...)
	// the historical witness of finding F18 (LAZY without TERMALL, fixed in /repo b319f17):
	// 1x1 block [16], style 0x01 decoded as 18
	cases = append(cases, Case{W: 1, H: 1, Orient: 0, Style: 1, FB: 0, NP: -1, Kind: "F18", Data: []int32{16}})
	if raws := c.ReplayInputs("t1_roundtrip"); raws != nil {
		cases = replay(raws, cases[:0])
	} else if raws := c.ReplayInputs("t1_enc"); raws != nil {
		cases = replay(raws, cases[:0])
	}
	ParallelFor(len(cases), c.Work, func(i int) { runCase(c, cases[i], i) })
}

func replay(raws []json.RawMessage, out []Case) []Case {
	for _, r := range raws {
		var k Case
		if json.Unmarshal(r, &k) == nil && k.W > 0 {
			out = append(out, k)
			continue
		}
		var wrap struct {
			Input Case `json:"input"`
		}
		if json.Unmarshal(r, &wrap) == nil && wrap.Input.W > 0 {
			out = append(out, wrap.Input)
		}
	}
	return out
}

func runCase(c *Ctx, k Case, i int) {
	mb := maxBitplane(k.Data)
	full := 0
	if mb >= k.FB {
		full = 3*(mb-k.FB+1) - 2
	}
	np := full
	if k.NP >= 0 {
		np = k.NP
	}
	nz := mb >= 0
	planes := mb - k.FB + 1
	if planes < 0 {
		planes = 0
	}
	pb := "planes.0"
	switch {
	case planes >= 20:
		pb = "planes.20+"
	case planes >= 6:
		pb = "planes.6-19"
	case planes >= 1:
		pb = "planes.1-5"
	}
	trunc := "allpasses"
	if np != full {
		trunc = "truncated"
	}
	key := fmt.Sprintf("t1:%dx%d:o%d:s%d:fb%d:np%d:%s", k.W, k.H, k.Orient, k.Style, k.FB, np, Ints32(k.Data))
	c.R.Case(key, nz, "t1.size."+sizeBucket(k.W, k.H), "t1.style."+fmt.Sprintf("%02x", k.Style), "t1.orient."+fmt.Sprint(k.Orient),
		"t1.fb."+fmt.Sprint(k.FB), "t1.kind."+k.Kind, "t1."+pb, "t1."+trunc, fmt.Sprintf("t1.hmod4.%d", k.H%4))
	if i < 3 {
		c.R.Sample(map[string]interface{}{"suite": "t1", "w": k.W, "h": k.H, "orient": k.Orient, "style": k.Style, "fb": k.FB, "np": np, "kind": k.Kind})
	}
	sigBase := fmt.Sprintf("style-%s", styleName(k.Style))
	dataStr := Ints32(k.Data)

	// ---- encoder correspondence (EncodeLayered) ----
	eo := goEncode(k, np)
	implEnc := eo.String(mb)
	if c.HasModel() {
		got := c.M.Call("t1_enc", append(k.args(), fmt.Sprint(k.FB), fmt.Sprint(np), dataStr)...)
		c.CorrEq("t1_enc", "t1:enc:"+sigBase, got, implEnc, k)
	}
	if i%4 == 0 {
		var plain []byte
		var perr error
		p, _ := Safely(func() {
			enc := t1.NewT1Encoder(k.W, k.H, k.Style)
			enc.SetOrientation(k.Orient)
			enc.SetNMSEDecFractionalBits(k.FB)
			plain, perr = enc.Encode(k.Data, np, 0)
		})
		impl := "ok:" + Hex(plain)
		if p {
			impl = "panic"
		} else if perr != nil {
			impl = "err"
		}
		if c.HasModel() {
			got := c.M.Call("t1_enc_plain", append(k.args(), fmt.Sprint(k.FB), fmt.Sprint(np), dataStr)...)
			c.CorrEq("t1_enc_plain", "t1:enc_plain:"+sigBase, got, impl, k)
		}
	}
	if eo.panic != "" || eo.err != nil {
		c.R.Oracle("t1_roundtrip")
		c.R.Fail("oracle", "t1_roundtrip", "t1:roundtrip:encode-"+map[bool]string{true: "panic", false: "error"}[eo.panic != ""]+":"+sigBase,
			"EncodeLayered failed: "+eo.panic+fmt.Sprint(eo.err), k)
		return
	}

	// ---- decoder ----
	if len(eo.passes) == 0 {
		// no coding pass: nothing is handed to the decoder, the block decodes as zero
		if np == full {
			c.R.Oracle("t1_roundtrip")
			for _, v := range k.Data {
				if v != 0 {
					c.R.Fail("oracle", "t1_roundtrip", "t1:roundtrip:nopass:"+sigBase, "encoder reported no passes for a non-zero block", k)
					break
				}
			}
		}
		return
	}
	rates := make([]int, len(eo.passes))
	for j, p := range eo.passes {
		rates[j] = p.Rate
	}
	dmb := eo.passes[0].Bitplane
	implDec := goDecodeLayered(k, eo.data, rates, dmb, false)
	if c.HasModel() {
		got := c.M.Call("t1_dec", append(k.args(), fmt.Sprint(dmb), "0", b01(k.Style&4 != 0), b01(k.Style&2 != 0), Hex(eo.data), Ints(rates))...)
		c.CorrEq("t1_dec", "t1:dec:"+sigBase, got, implDec, k)
		if i%4 == 1 {
			implOJ := goDecodeLayered(k, eo.data, rates, dmb, true)
			got := c.M.Call("t1_dec", append(k.args(), fmt.Sprint(dmb), "1", b01(k.Style&4 != 0), b01(k.Style&2 != 0), Hex(eo.data), Ints(rates))...)
			c.CorrEq("t1_dec", "t1:dec_oj:"+sigBase, got, implOJ, k)
		}
		// A truncated pass count that ends on a non-terminated raw (bypass) pass is outside the
		// property (it asks for all passes): the Go encoder then finishes the bypass segment with
		// the MQ Flush(), which garbles the tail of that pass (the byte-level model reproduces it,
		// t1_dec above), so the ideal channel is not comparable there.
		last := eo.passes[len(eo.passes)-1]
		rawTail := k.Style&1 != 0 && last.PassType < 2 && last.Bitplane < dmb-3 && !last.Terminated
		if rawTail {
			c.R.Count("t1.ideal_skipped_truncated_raw_tail")
		}
		if i%2 == 0 && !rawTail {
			// the decoder model on the IDEAL channel (the encoder model's symbol lists, no arithmetic
			// coder): its coefficients must be what the Go decoder returns from the Go encoder's bytes
			got := c.M.Call("t1_ideal", append(k.args(), fmt.Sprint(k.FB), fmt.Sprint(np), "0", dataStr)...)
			if parts := strings.Split(got, "|"); len(parts) == 4 && strings.HasPrefix(got, "ok:") {
				got = "ok:" + parts[3]
				if parts[2] != "0" {
					got = "ok:unconsumed-symbols:" + parts[2]
				}
			}
			c.CorrEq("t1_ideal", "t1:ideal:"+sigBase, got, implDec, k)
		}
		if i%4 == 2 {
			implBP := goDecodeBitplane(k, eo.data, len(rates), dmb, false)
			got := c.M.Call("t1_dec_bp", append(k.args(), fmt.Sprint(dmb), "0", Hex(eo.data), fmt.Sprint(len(rates)))...)
			c.CorrEq("t1_dec_bp", "t1:dec_bp:"+sigBase, got, implBP, k)
		}
	}

	// ---- oracle: the property on the implementation alone ----
	if np == full {
		c.R.Oracle("t1_roundtrip")
		want := "ok:" + dataStr
		if implDec != want {
			what := "decoded block differs from the encoded block"
			site := "mismatch"
			if implDec == "err" || implDec == "panic" {
				site = implDec
				what = "decoder " + implDec
			} else {
				got := ParseInts(strings.TrimPrefix(implDec, "ok:"))
				for j := range k.Data {
					if j < len(got) && got[j] != int(k.Data[j]) {
						what += fmt.Sprintf(": sample %d (x=%d,y=%d) is %d, expected %d", j, j%k.W, j/k.W, got[j], k.Data[j])
						break
					}
				}
			}
			c.R.Fail("oracle", "t1_roundtrip", "t1:roundtrip:"+site+":"+sigBase, what, k)
		}
	}
}

// rawOnesBlocks: 1 x n and n x 1 blocks  [lead, 0,] -1, A x m, -1 x r  with A odd >= 17. At bit plane 0
// (a raw SPP+MRP segment under LAZY) the significance pass emits 2 one-bits for every -1 (they
// become significant in scan order, each next to an already significant sample, sign negative)
// and the refinement pass one one-bit per A; the optional lead sample is coded by the cleanup pass.
func rawOnesBlocks(thor bool) []Case {
	var out []Case
	as := []int32{17, 21, 31, 33, 63}
	styles := []int{0x01, 0x21, 0x03}
	if thor {
		as = []int32{17, 19, 21, 23, 25, 27, 29, 31, 33, 35, 49, 63, 127}
		styles = []int{0x01, 0x09, 0x21, 0x03, 0x29, 0x11, 0x05, 0x15}
	}
	for _, a := range as {
		for m := 0; m <= 8; m++ {
			for k := 0; k <= 9; k++ {
				for lead := 0; lead < 2; lead++ {
					for _, st := range styles {
						for col := 0; col < 2; col++ {
							if m == 0 && k > 0 {
								continue
							}
							var d []int32
							if lead == 1 {
								d = append(d, 1, 0)
							}
							r := k
							if k > 0 && (k+m)%2 == 1 { // sometimes one of the -1 sits on the left of the run
								d = append(d, -1)
								r--
							}
							for i := 0; i < m; i++ {
								d = append(d, a)
							}
							for i := 0; i < r; i++ {
								d = append(d, -1)
							}
							if len(d) == 0 || len(d) > 64 {
								continue
							}
							kc := Case{W: len(d), H: 1, Orient: (m + k) % 4, Style: st, FB: 0, NP: -1, Kind: "raw-ones", Data: d}
							if col == 1 {
								kc.W, kc.H = 1, len(d)
							}
							out = append(out, kc)
						}
					}
				}
			}
		}
	}
	return out
}
