package jpegls

import (
	"bytes"
	"fmt"
	"strings"

	"github.com/cocosip/go-dicom-codecs/jpegls/lossless"
	. "verif/harness/vhlib"
)

// ---------- component level: the GolombWriter as coded vs the gw_* model ----------

// a writer script: WriteBits(v, n) and EncodeMappedValue(k, m, limit, qbpp) calls, then Flush
type wItem struct {
	emv                bool
	v                  uint32
	n                  int
	k, m, limit, qbpp int
}

func (it wItem) String() string {
	if it.emv {
		return fmt.Sprintf("e:%d:%d:%d:%d", it.k, it.m, it.limit, it.qbpp)
	}
	return fmt.Sprintf("%d:%d", it.v, it.n)
}

func runWriterGo(items []wItem) string {
	var buf bytes.Buffer
	var failed bool
	if p, _ := Safely(func() {
		gw := lossless.NewGolombWriter(&buf)
		for _, it := range items {
			var err error
			if it.emv {
				err = gw.EncodeMappedValue(it.k, it.m, it.limit, it.qbpp)
			} else {
				err = gw.WriteBits(it.v, it.n)
			}
			if err != nil {
				failed = true
				return
			}
		}
		if gw.Flush() != nil {
			failed = true
		}
	}); p {
		return "panic"
	}
	if failed {
		return "err"
	}
	return Hex(buf.Bytes())
}

func ones(n int) []wItem { // n one-bits in chunks of at most 31
	var out []wItem
	for n > 0 {
		c := n
		if c > 31 {
			c = 31
		}
		out = append(out, wItem{v: uint32(1)<<uint(c) - 1, n: c})
		n -= c
	}
	return out
}

// writerCorr: adversarial scripts. (1) a prefix of L one-bits (bytes FF 7F FF 7F ..., every
// accumulator fill level 0..32 in every phase of the FF pattern) followed by one word of every
// width 1..32 (unary word 1, all ones, zero, random) and a short tail; (2) the same after mixed
// prefixes (ones interrupted by single zeros); (3) EncodeMappedValue with quotients 28..32 and
// escape prefixes of 29..33 bits right after FF bytes; (4) random scripts dense in one-bits.
func writerCorr(c *Ctx) {
	if !c.HasModel() {
		return
	}
	rng := c.Rng.Fork()
	var scripts [][]wItem
	word := func(n, kind int) wItem {
		switch kind {
		case 0:
			return wItem{v: 1, n: n} // unary word: n-1 zeros and a one
		case 1:
			return wItem{v: uint32(uint64(1)<<uint(n) - 1), n: n}
		case 2:
			return wItem{v: 0, n: n}
		default:
			return wItem{v: uint32(rng.U64() & (uint64(1)<<uint(n) - 1)), n: n}
		}
	}
	maxL := c.N(70, 130)
	for L := 0; L <= maxL; L++ {
		for n := 1; n <= 32; n++ {
			for kind := 0; kind < 4; kind++ {
				if !c.Thor && kind >= 2 && (L+n)%3 != 0 {
					continue
				}
				s := append(ones(L), word(n, kind))
				s = append(s, wItem{v: uint32(rng.Intn(8)), n: 3})
				scripts = append(scripts, s)
			}
		}
	}
	// mixed prefixes: ones, a zero bit, ones ... then a long unary word
	for i := 0; i < c.N(1500, 20000); i++ {
		var s []wItem
		for j := rng.Range(1, 4); j > 0; j-- {
			s = append(s, ones(rng.Range(0, 45))...)
			if rng.Bool() {
				s = append(s, wItem{v: 0, n: rng.Range(1, 3)})
			}
		}
		n := rng.Range(27, 32)
		s = append(s, word(n, rng.Intn(4)))
		s = append(s, ones(rng.Range(0, 20))...)
		scripts = append(scripts, s)
	}
	// EncodeMappedValue near the 31/32-bit unary split and the escape prefix
	for i := 0; i < c.N(2500, 30000); i++ {
		s := ones(rng.Range(0, 70))
		if rng.Intn(3) == 0 {
			s = append(s, wItem{v: 0, n: 1}, wItem{v: uint32(1)<<uint(rng.Range(1, 31)) - 1, n: rng.Range(1, 31)})
			s[len(s)-1].v &= uint32(1)<<uint(s[len(s)-1].n) - 1
		}
		P := rng.Range(2, 16)
		bpp := P
		if bpp < 8 {
			bpp = 8
		}
		limit := 2 * (P + bpp)
		if rng.Bool() {
			limit -= rng.Range(1, 16) // run interruption: LIMIT - J - 1
		}
		qbpp := rng.Range(1, P)
		if limit <= qbpp+1 {
			limit = qbpp + 2
		}
		k := rng.Range(0, 16)
		q := rng.Range(26, 33)
		if rng.Intn(4) == 0 {
			q = rng.Range(0, limit)
		}
		m := q<<uint(k) + rng.Intn(1<<uint(k))
		if q >= limit-qbpp-1 && m-1 >= 1<<uint(qbpp) { // escape branch: keep m - 1 inside qbpp bits
			m = 1 + rng.Intn(1<<uint(qbpp))
		}
		s = append(s, wItem{emv: true, k: k, m: m, limit: limit, qbpp: qbpp})
		s = append(s, ones(rng.Range(0, 10))...)
		scripts = append(scripts, s)
	}
	// random, dense in ones
	for i := 0; i < c.N(1500, 20000); i++ {
		var s []wItem
		for j := rng.Range(1, 12); j > 0; j-- {
			n := rng.Range(1, 32)
			var v uint32
			switch rng.Intn(4) {
			case 0:
				v = uint32(rng.U64() & (uint64(1)<<uint(n) - 1))
			case 1:
				v = 1
			default:
				v = uint32(uint64(1)<<uint(n) - 1)
			}
			s = append(s, wItem{v: v, n: n})
		}
		scripts = append(scripts, s)
	}
	ParallelFor(len(scripts), c.Work, func(i int) {
		s := scripts[i]
		parts := make([]string, len(s))
		for j, it := range s {
			parts[j] = it.String()
		}
		arg := strings.Join(parts, ",")
		c.R.Case("gw:"+arg, true, "gw.items."+itoa((len(s)+3)/4*4))
		impl := runWriterGo(s)
		c.CorrEq("golomb_writer", "jls:gw:writer", c.M.Call("jls_gw", arg), impl, map[string]interface{}{"script": arg})
	})
}

// ---------- image level: long unary words on a full accumulator ----------

func initK(P int) int { // Golomb parameter of a fresh context: smallest k with 2^k >= max(2,(2^P+32)/64)
	a := ((1 << uint(P)) + 32) / 64
	if a < 2 {
		a = 2
	}
	k := 0
	for (1 << uint(k)) < a {
		k++
	}
	return k
}

// quotientCases: for P in {11,12,13,16}, widths 31..35, heights 2..7: flat lines followed by a
// line with one step whose size puts the Golomb quotient of the first coded error at 28..32
// (step = q * 2^(k-1) + d for the fresh-context k), stepping up from 0 or down from MAXVAL.
func quotientCases(c *Ctx, rng *Rand, full bool) []jcase {
	var out []jcase
	for _, P := range []int{11, 12, 13, 16} {
		mv := (1 << uint(P)) - 1
		k := initK(P)
		for w := 31; w <= 35; w++ {
			for h := 2; h <= 7; h++ {
				for q := 28; q <= 32; q++ {
					for _, d := range []int{0, 1} {
						for _, comps := range []int{1, 3} {
							if !c.Thor && comps == 3 && (w+h+q+d)%3 != 0 {
								continue
							}
							step := q<<uint(k-1) + d
							if step > mv {
								continue
							}
							for pi, pos := range []int{1, w / 2, w - 2} {
								for di, down := range []bool{false, true} {
									if !(full && comps == 1 && q >= 29 && q <= 31) && !c.Thor && (pi != (w+h+q)%3 || di != (h+q+d)%2) {
										continue // one position and direction per geometry outside the full sweep
									}
									px := make([]int, w*h*comps)
									for y := 0; y < h; y++ {
										for x := 0; x < w; x++ {
											for cc := 0; cc < comps; cc++ {
												v := 0
												if y == h-1 && x >= pos {
													v = step
												}
												if down {
													v = mv - v
												}
												px[(y*w+x)*comps+cc] = v
											}
										}
									}
									out = append(out, jcase{&image{w, h, comps, P, px, "step"}, 0})
								}
							}
						}
					}
				}
			}
		}
	}
	return out
}

// wideFlatCases: widths 32767..65535, heights 1..3, constant or constant with one outlier near
// the end (RunIndex saturates at 31 and is carried across lines).
func wideFlatCases(c *Ctx, rng *Rand, nears []int) []jcase {
	var out []jcase
	for _, w := range []int{32767, 32768, 40000, 65535} {
		for h := 1; h <= 3; h++ {
			for _, P := range []int{8, 12} {
				for _, nr := range nears {
					for _, outlier := range []bool{false, true} {
						if !c.Thor && (w/7+h+P+nr)%2 == 0 && !(w == 65535 && h == 2 && !outlier) {
							continue
						}
						mv := (1 << uint(P)) - 1
						base := rng.Intn(mv + 1)
						px := make([]int, w*h)
						for i := range px {
							px[i] = base
						}
						class := "wideflat"
						if outlier {
							px[w*h-1-rng.Intn(50)] = (base + mv/2 + 1) % (mv + 1)
							class = "widenearflat"
						}
						out = append(out, jcase{&image{w, h, 1, P, px, class}, nr})
					}
				}
			}
		}
	}
	// one three-component case
	{
		w, h := 40000, 2
		px := make([]int, w*h*3)
		for i := range px {
			px[i] = []int{17, 200, 3}[i%3]
		}
		px[len(px)-40] = 90
		out = append(out, jcase{&image{w, h, 3, 8, px, "widenearflat"}, nears[len(nears)-1]})
	}
	return out
}
