package jpegls

import (
	"bytes"
	"fmt"

	"github.com/cocosip/go-dicom-codecs/jpegls/lossless"
	"github.com/cocosip/go-dicom-codecs/jpegls/nearlossless"
	. "verif/harness/vhlib"
)

// Register adds this area's suites.
func Register(s Suites) {
	s.Add("C03", runC03)
	s.Add("C07", runC07)
	s.Add("C14", runC14)
	s.Add("C08", runC08)
}

// ---------- implementation runners (canonical, API-visible observables only) ----------

// encoder result: "ok:<hex>" | "err" | "panic"
func goEncLL(im *image) (string, []byte) {
	var out []byte
	var err error
	if p, _ := Safely(func() { out, err = lossless.Encode(im.bytes(), im.w, im.h, im.comps, im.P) }); p {
		return "panic", nil
	}
	if err != nil {
		return "err", nil
	}
	return "ok:" + Hex(out), out
}

func goEncNear(im *image, near int) (string, []byte) {
	var out []byte
	var err error
	if p, _ := Safely(func() { out, err = nearlossless.Encode(im.bytes(), im.w, im.h, im.comps, im.P, near) }); p {
		return "panic", nil
	}
	if err != nil {
		return "err", nil
	}
	return "ok:" + Hex(out), out
}

// decoder result
type decRes struct {
	class              string // ok | err | panic
	px                 []byte
	w, h, comps, P, nr int
}

func (d decRes) String() string {
	if d.class != "ok" {
		return d.class
	}
	return fmt.Sprintf("ok:%d,%d,%d,%d,%d:%s", d.w, d.h, d.comps, d.P, d.nr, Hex(d.px))
}

func goDecLL(data []byte) decRes {
	var r decRes
	var err error
	if p, _ := Safely(func() { r.px, r.w, r.h, r.comps, r.P, err = lossless.Decode(data) }); p {
		return decRes{class: "panic"}
	}
	if err != nil {
		return decRes{class: "err"}
	}
	r.class = "ok"
	return r
}

func goDecNear(data []byte) decRes {
	var r decRes
	var err error
	if p, _ := Safely(func() { r.px, r.w, r.h, r.comps, r.P, r.nr, err = nearlossless.Decode(data) }); p {
		return decRes{class: "panic"}
	}
	if err != nil {
		return decRes{class: "err"}
	}
	r.class = "ok"
	return r
}

func itoa(i int) string { return fmt.Sprint(i) }

func nearClass(near int) string {
	switch {
	case near <= 3:
		return itoa(near)
	case near <= 15:
		return "4-15"
	case near <= 63:
		return "16-63"
	default:
		return "64-255"
	}
}

func (im *image) dist(prefix string) []string {
	return []string{prefix + ".class." + im.class, prefix + ".P." + itoa(im.P), prefix + ".comps." + itoa(im.comps),
		prefix + ".samples." + sizeBucket(len(im.px))}
}

// the expected decode reply for an exact reconstruction
func (im *image) exact(near int) string {
	return fmt.Sprintf("ok:%d,%d,%d,%d,%d:%s", im.w, im.h, im.comps, im.P, near, Hex(im.bytes()))
}

// ---------- case lists ----------

type jcase struct {
	im   *image
	near int
}

// exhaustive small images: quick = a subset, thorough = all images <= 3x3 at P=2 and <= 2x2 at
// P=4 (one component), plus all 1x1 / 2x1 / 1x2 three-component images at P=2.
func exhaustiveCases(c *Ctx, nears func(P, samples int) []int) []jcase {
	var out []jcase
	add := func(w, h, comps, P, strideQuick int) {
		stride := strideQuick
		if c.Thor {
			stride = 1
		}
		for _, nr := range nears(P, w*h*comps) {
			nr := nr
			exhaustive(w, h, comps, P, stride, func(im *image) { out = append(out, jcase{im, nr}) })
		}
	}
	for h := 1; h <= 3; h++ {
		for w := 1; w <= 3; w++ {
			s := 1
			if w*h >= 9 {
				s = 263
			} else if w*h >= 6 {
				s = 7
			}
			add(w, h, 1, 2, s)
		}
	}
	add(1, 1, 3, 2, 1)
	add(2, 1, 3, 2, 5)
	add(1, 2, 3, 2, 5)
	for h := 1; h <= 2; h++ {
		for w := 1; w <= 2; w++ {
			s := 1
			if w*h >= 4 {
				s = 67
			}
			add(w, h, 1, 4, s)
		}
	}
	return out
}

// big images of the thorough tier: up to 512x512, 65535x1, 1x65535
func bigCases(c *Ctx, rng *Rand, near func(P int) int) []jcase {
	if !c.Thor {
		return nil
	}
	var out []jcase
	mk := func(w, h, comps, P int, class string) {
		nr := near(P)
		out = append(out, jcase{&image{w, h, comps, P, fill(rng, class, w, h, comps, P, nr), class}, nr})
	}
	mk(512, 512, 1, 8, "smooth")
	mk(512, 512, 1, 16, "runs")
	mk(512, 300, 1, 12, "stripes")
	mk(400, 512, 3, 8, "runs")
	mk(257, 129, 3, 16, "smooth")
	mk(65535, 1, 1, 8, "runs")
	mk(65535, 1, 1, 16, "const")
	mk(65535, 1, 1, 10, "eolruns")
	mk(65535, 1, 3, 8, "stripes")
	mk(1, 65535, 1, 8, "runs")
	mk(1, 4000, 3, 12, "noise")
	mk(65535, 2, 1, 8, "const")
	for _, cl := range classes {
		w, h := rng.Range(100, 512), rng.Range(100, 512)
		mk(w, h, 1+2*rng.Intn(2), 2+rng.Intn(15), cl)
	}
	return out
}

// ---------- C03 ----------

func runC03(c *Ctx) {
	c.R.Rule = "jpegls/lossless: GolombWriter scripts against the as-coded writer model; images of 11 content classes (modulo-boundary jumps in well-predicted contexts, noise, two-level, long runs with rare interruptions, runs ending at " +
		"line end, ramps, range-end samples, smooth, constant, checker, stripes), P 2..16 evenly, 1 or 3 components, sizes 1..64 " +
		"(thorough: to 512x512, 65535x1, 1x65535), exhaustive small images at P=2/P=4 (quick: subset); non-trivial = more than one sample"
	rng := c.Rng.Fork()
	ims, _ := randomImages(rng, c.N(300, 3000), 64, func(int) int { return 0 })
	var cases []jcase
	for _, im := range ims {
		cases = append(cases, jcase{im, 0})
	}
	cases = append(cases, fixedLossless()...)
	cases = append(cases, exhaustiveCases(c, func(int, int) []int { return []int{0} })...)
	cases = append(cases, bigCases(c, rng, func(int) int { return 0 })...)
	cases = append(cases, quotientCases(c, rng, true)...)
	cases = append(cases, wideFlatCases(c, rng, []int{0})...)
	// errors on the modulo boundary in well-predicted contexts (class halfjump) at every precision
	for P := 5; P <= 16; P++ {
		for i := 0; i < c.N(3, 12); i++ {
			w, h, comps := rng.Range(24, 64), rng.Range(12, 40), 1+2*(i%2)
			cases = append(cases, jcase{&image{w, h, comps, P, fill(rng, "halfjump", w, h, comps, P, 0), "halfjump"}, 0})
		}
	}
	guardCorr(c, false)
	writerCorr(c)
	ParallelFor(len(cases), c.Work, func(i int) {
		im := cases[i].im
		c.R.Case("ll:"+im.key(), im.nontrivial(), im.dist("ll")...)
		if i < 3 {
			c.R.Sample(im.input(map[string]interface{}{"suite": "jls"}))
		}
		par := fmt.Sprintf("P=%d:comps=%d", im.P, im.comps)
		hexpx := Hex(im.bytes())
		// correspondence: encoder byte-exact
		encS, enc := goEncLL(im)
		if c.HasModel() {
			got := c.M.Call("jls_encode", itoa(im.w), itoa(im.h), itoa(im.comps), itoa(im.P), hexpx)
			c.CorrEq("jls_encode", "jls:enc:"+par, got, encS, im.input(nil))
		}
		if enc == nil {
			c.R.Oracle("jls_roundtrip")
			sig := "jls:encode-fails:" + par
			if encS == "panic" {
				sig = "jls:panic:encode:" + par
			}
			c.R.Fail("oracle", "jls_roundtrip", sig, "lossless.Encode returned "+encS, im.input(nil))
			return
		}
		// correspondence: decoder on the Go stream
		dec := goDecLL(enc)
		if c.HasModel() {
			got := c.M.Call("jls_decode", Hex(enc))
			c.CorrEq("jls_decode", "jls:dec:"+par, got, dec.String(), im.input(nil))
		}
		// oracle: exact round trip with geometry and precision
		c.R.Oracle("jls_roundtrip")
		if dec.class != "ok" {
			sig := "jls:roundtrip:" + par
			if dec.class == "panic" {
				sig = "jls:panic:decode:" + par
			}
			c.R.Fail("oracle", "jls_roundtrip", sig, "lossless.Decode of the encoder output: "+dec.class, im.input(nil))
			return
		}
		if dec.w != im.w || dec.h != im.h || dec.comps != im.comps || dec.P != im.P {
			c.R.Fail("oracle", "jls_roundtrip", "jls:geometry:"+par,
				fmt.Sprintf("decoded geometry %dx%dx%d P=%d", dec.w, dec.h, dec.comps, dec.P), im.input(nil))
			return
		}
		if !bytes.Equal(dec.px, im.bytes()) {
			c.R.Fail("oracle", "jls_roundtrip", "jls:roundtrip:"+par,
				"decoded samples differ from the source: "+firstDiff(im, dec.px), im.input(nil))
		}
	})
}

// a few fixed images: the T.87 H.3 example, the smallest images around the modulo boundary
func fixedLossless() []jcase {
	var out []jcase
	out = append(out, jcase{h3Image(), 0})
	for P := 2; P <= 16; P++ {
		mv := (1 << uint(P)) - 1
		for _, v := range []int{0, 1, mv / 2, mv/2 + 1, mv/2 + 2, mv - 1, mv} {
			out = append(out, jcase{&image{1, 1, 1, P, []int{v}, "single"}, 0})
		}
		out = append(out, jcase{&image{1, 1, 3, P, []int{mv, 0, mv/2 + 2}, "single"}, 0})
		// 4x4 alternating 0 / MAXVAL
		px := make([]int, 16)
		for i := range px {
			if (i+i/4)&1 == 1 {
				px[i] = mv
			}
		}
		out = append(out, jcase{&image{4, 4, 1, P, px, "checker"}, 0})
	}
	return out
}

func h3Image() *image {
	return &image{4, 4, 1, 8, []int{0, 0, 90, 74, 68, 50, 43, 205, 64, 145, 145, 145, 100, 145, 145, 145}, "H3"}
}

func sampleAt(P int, b []byte, i int) int {
	if P <= 8 {
		return int(b[i])
	}
	return int(b[2*i]) | int(b[2*i+1])<<8
}

func firstDiff(im *image, got []byte) string {
	want := im.bytes()
	if len(got) != len(want) {
		return fmt.Sprintf("length %d, want %d", len(got), len(want))
	}
	for i := range im.px {
		if g := sampleAt(im.P, got, i); g != im.px[i] {
			return fmt.Sprintf("sample %d (x=%d y=%d c=%d): got %d want %d", i, (i/im.comps)%im.w, i/im.comps/im.w, i%im.comps, g, im.px[i])
		}
	}
	return "container bytes differ"
}

// ---------- C07 ----------

// NEAR choice: emphasis on 1, 2, 3 and the maximum
func pickNear(rng *Rand, P int) int {
	nm := nearMax(P)
	var n int
	switch rng.Intn(8) {
	case 0:
		n = 1
	case 1:
		n = 2
	case 2:
		n = 3
	case 3:
		n = nm
	case 4:
		n = 0
	default:
		n = rng.Range(0, nm)
	}
	if n > nm {
		n = nm
	}
	return n
}

func nearCases(c *Ctx, rng *Rand, nQuick, nThor int) []jcase {
	var cases []jcase
	ims, nears := randomImages(rng, c.N(nQuick, nThor), 64, func(P int) int { return pickNear(rng, P) })
	for i, im := range ims {
		cases = append(cases, jcase{im, nears[i]})
	}
	// every NEAR value of every precision (thorough); quick: every 4th plus 1,2,3,max
	for P := 2; P <= 16; P++ {
		nm := nearMax(P)
		for nr := 0; nr <= nm; nr++ {
			if !c.Thor && !(nr <= 3 || nr == nm || nr%16 == P%16) {
				continue
			}
			class := classes[(nr+P)%len(classes)]
			w, h := rng.Range(3, 12), rng.Range(2, 10)
			comps := 1
			if (nr+P)%5 == 0 {
				comps = 3
			}
			cases = append(cases, jcase{&image{w, h, comps, P, fill(rng, class, w, h, comps, P, nr), class}, nr})
		}
	}
	// deep samples at large NEAR: full-range noise at P = 14..16 with NEAR in the upper half of its range (the
	// quantiser sees |x - pred| + NEAR up to 2^16 + 255 there; small images never get that far)
	for i := 0; i < c.N(6, 40); i++ {
		P := 16 - i%3
		nm := nearMax(P)
		nr := nm
		if i >= 3 {
			nr = rng.Range(nm/2, nm)
		}
		w, h := 128, 96
		cases = append(cases, jcase{&image{w, h, 1, P, fill(rng, "noise", w, h, 1, P, nr), "noise"}, nr})
	}
	return cases
}

func runC07(c *Ctx) {
	c.R.Rule = "jpegls/nearlossless: the C03 image classes with NEAR in 0..min(255,MAXVAL/2) (emphasis 1,2,3,max; every NEAR of every " +
		"precision in thorough), ramps with step 2*NEAR+1, samples within NEAR of 0/MAXVAL, exhaustive small images at P=2 (NEAR 0,1) " +
		"and P=4 (NEAR 0..7); non-trivial = more than one sample"
	rng := c.Rng.Fork()
	cases := nearCases(c, rng, 300, 3000)
	cases = append(cases, exhaustiveCases(c, func(P, samples int) []int {
		if P == 2 {
			return []int{0, 1}
		}
		if c.Thor && samples < 4 {
			return []int{0, 1, 2, 3, 4, 5, 6, 7}
		}
		if c.Thor {
			return []int{1, 2, 3, 7} // all 65536 2x2 images at P=4 for the emphasised NEAR values
		}
		return []int{1, 3, 7}
	})...)
	cases = append(cases, bigCases(c, rng, func(P int) int { return pickNear(rng, P) })...)
	for i, wc := range wideFlatCases(c, rng, []int{0, 2}) {
		if c.Thor || i%2 == 0 || wc.im.w == 65535 {
			cases = append(cases, wc)
		}
	}
	for i, qc := range quotientCases(c, rng, false) {
		if !c.Thor && qc.im.comps == 1 && i%2 == 1 {
			continue
		}
		cases = append(cases, qc) // NEAR = 0: the same long unary words as in the lossless encoder
		if c.Thor {
			qc.near = 1
			cases = append(cases, qc)
		}
	}
	guardCorr(c, true)
	writerCorr(c) // nearlossless uses the same GolombWriter
	ParallelFor(len(cases), c.Work, func(i int) {
		im, near := cases[i].im, cases[i].near
		c.R.Case(fmt.Sprintf("near%d:%s", near, im.key()), im.nontrivial(),
			append(im.dist("near"), "near.NEAR."+nearClass(near))...)
		if i < 3 {
			c.R.Sample(im.input(map[string]interface{}{"suite": "jlsn", "near": near}))
		}
		par := fmt.Sprintf("P=%d:near=%s", im.P, nearClass(near))
		in := im.input(map[string]interface{}{"near": near})
		encS, enc := goEncNear(im, near)
		if c.HasModel() {
			got := c.M.Call("jlsn_encode", itoa(im.w), itoa(im.h), itoa(im.comps), itoa(im.P), itoa(near), Hex(im.bytes()))
			c.CorrEq("jlsn_encode", fmt.Sprintf("jlsn:enc:P=%d:comps=%d:near=%s", im.P, im.comps, nearClass(near)), got, encS, in)
		}
		if enc == nil {
			c.R.Oracle("jlsn_bound")
			sig := "jlsn:encode-fails:" + par
			if encS == "panic" {
				sig = "jlsn:panic:encode:" + par
			}
			c.R.Fail("oracle", "jlsn_bound", sig, "nearlossless.Encode returned "+encS, in)
			return
		}
		dec := goDecNear(enc)
		if c.HasModel() {
			got := c.M.Call("jlsn_decode", Hex(enc))
			c.CorrEq("jlsn_decode", fmt.Sprintf("jlsn:dec:P=%d:comps=%d:near=%s", im.P, im.comps, nearClass(near)), got, dec.String(), in)
		}
		c.R.Oracle("jlsn_bound")
		if dec.class != "ok" {
			sig := "jlsn:decode-fails:" + par
			if dec.class == "panic" {
				sig = "jlsn:panic:decode:" + par
			}
			c.R.Fail("oracle", "jlsn_bound", sig, "nearlossless.Decode of the encoder output: "+dec.class, in)
			return
		}
		if dec.w != im.w || dec.h != im.h || dec.comps != im.comps || dec.P != im.P {
			c.R.Fail("oracle", "jlsn_bound", "jlsn:geometry:"+par,
				fmt.Sprintf("decoded geometry %dx%dx%d P=%d", dec.w, dec.h, dec.comps, dec.P), in)
			return
		}
		if dec.nr != near {
			c.R.Fail("oracle", "jlsn_bound", "jlsn:near-reported:"+par, fmt.Sprintf("decoder reports NEAR=%d", dec.nr), in)
		}
		if len(dec.px) != len(im.bytes()) {
			c.R.Fail("oracle", "jlsn_bound", "jlsn:geometry:"+par, fmt.Sprintf("decoded %d bytes", len(dec.px)), in)
			return
		}
		mv := im.maxval()
		for j, v := range im.px {
			g := sampleAt(im.P, dec.px, j)
			if g < 0 || g > mv {
				c.R.Fail("oracle", "jlsn_bound", "jlsn:range:"+par, fmt.Sprintf("sample %d decoded to %d outside [0,%d]", j, g, mv), in)
				break
			}
			d := g - v
			if d < 0 {
				d = -d
			}
			if d > near {
				c.R.Fail("oracle", "jlsn_bound", "jlsn:bound:"+par,
					fmt.Sprintf("sample %d: source %d decoded %d, |diff| %d > NEAR %d", j, v, g, d, near), in)
				break
			}
		}
	})
}

// ---------- C14 ----------

var h3Scan = []byte{0xC0, 0x00, 0x00, 0x6C, 0x80, 0x20, 0x8E, 0x01, 0xC0, 0x00, 0x00, 0x57, 0x40, 0x00, 0x00, 0x6E,
	0xE6, 0x00, 0x00, 0x01, 0xBC, 0x18, 0x00, 0x00, 0x05, 0xD8, 0x00, 0x00, 0x91, 0x60}

// scan bytes of a stream produced by the encoders: between the SOS segment and the final EOI
func scanOf(stream []byte) []byte {
	for i := 0; i+3 < len(stream); i++ {
		if stream[i] == 0xFF && stream[i+1] == 0xDA {
			l := int(stream[i+2])<<8 | int(stream[i+3])
			s := i + 2 + l
			if s <= len(stream)-2 {
				return stream[s : len(stream)-2]
			}
		}
	}
	return nil
}

func runC14(c *Ctx) {
	c.R.Rule = "streams of both JPEG-LS encoders on the C03/C07 image classes (P 2..16, 1 or 3 components, NEAR 0 and > 0) decoded by " +
		"the extracted from-the-standard T.87 decoder and by both Go decoders; lossless vs near(0) byte identity; T.87 H.3 vector; " +
		"coded parameters vs model for all (P,NEAR); non-trivial = more than one sample"
	rng := c.Rng.Fork()
	// H.3 vector through Go (both encoders)
	{
		im := h3Image()
		c.R.Case("h3", true, "c14.class.H3")
		c.R.Oracle("h3_vector")
		_, enc := goEncLL(im)
		if !bytes.Equal(scanOf(enc), h3Scan) {
			c.R.Fail("oracle", "h3_vector", "jls:H3", "lossless.Encode of the T.87 H.3 image: scan bytes "+Hex(scanOf(enc)), im.input(nil))
		}
		_, encn := goEncNear(im, 0)
		if !bytes.Equal(scanOf(encn), h3Scan) {
			c.R.Fail("oracle", "h3_vector", "jlsn:H3", "nearlossless.Encode(NEAR=0) of the T.87 H.3 image: scan bytes "+Hex(scanOf(encn)), im.input(nil))
		}
	}
	// coded parameter function vs model, all (P, NEAR) of the domain (+ NEAR up to 255 for all P)
	if c.HasModel() {
		for P := 2; P <= 16; P++ {
			for nr := 0; nr <= 255; nr++ {
				if nr > nearMax(P) && !c.Thor && nr%8 != 0 {
					continue
				}
				p := lossless.ComputeCodingParameters((1<<uint(P))-1, nr, 64)
				impl := fmt.Sprintf("%d,%d,%d,%d,%d,%d,%d,%d,%d", p.MaxVal, p.Near, p.Range, p.Qbpp, p.Limit, p.T1, p.T2, p.T3, p.Reset)
				c.CorrEq("jls_params", fmt.Sprintf("jls:params:P=%d", P), c.M.Call("jls_params", itoa(P), itoa(nr)), impl,
					map[string]interface{}{"P": P, "near": nr})
			}
		}
	}
	cases := nearCases(c, rng, 150, 2400)
	// the same number of NEAR = 0 cases (lossless encoder + near(0) identity + cross decoding)
	ims, _ := randomImages(rng, c.N(150, 2400), 64, func(int) int { return 0 })
	for _, im := range ims {
		cases = append(cases, jcase{im, 0})
	}
	cases = append(cases, fixedLossless()...)
	cases = append(cases, exhaustiveCases(c, func(P, samples int) []int {
		if P == 2 {
			return []int{0, 1}
		}
		return []int{0, 2}
	})...)
	cases = append(cases, bigCases(c, rng, func(P int) int { return rng.Pick(0, pickNear(rng, P)) })...)
	for i, wc := range wideFlatCases(c, rng, []int{0, 2}) {
		if c.Thor || i%5 == 0 {
			cases = append(cases, wc)
		}
	}
	for i, qc := range quotientCases(c, rng, false) {
		if c.Thor || i%2 == 0 || qc.im.comps == 3 {
			cases = append(cases, qc)
		}
	}
	writerCorr(c)
	if !c.HasModel() {
		c.R.Note("no model: the T.87 decoder oracle (extracted t87_decode) was not evaluated")
	}
	ParallelFor(len(cases), c.Work, func(i int) {
		im, near := cases[i].im, cases[i].near
		c.R.Case(fmt.Sprintf("c14:near%d:%s", near, im.key()), im.nontrivial(),
			append(im.dist("c14"), "c14.NEAR."+nearClass(near))...)
		if i < 3 {
			c.R.Sample(im.input(map[string]interface{}{"suite": "c14", "near": near}))
		}
		in := im.input(map[string]interface{}{"near": near})
		t87 := func(suite, sig string, stream []byte, own decRes, exact bool) {
			if !c.HasModel() {
				return
			}
			c.R.Oracle(suite)
			got := c.M.Call("t87_decode", Hex(stream))
			if got != own.String() {
				c.R.Fail("oracle", suite, sig, "T.87 decoder result differs from the library's own decoder: t87="+clip(got)+" own="+clip(own.String()), in)
			} else if exact && got != im.exact(0) {
				c.R.Fail("oracle", suite, sig, "T.87 decoder does not return the source image (NEAR=0): "+clip(got), in)
			}
		}
		if near > 0 {
			encS, enc := goEncNear(im, near)
			if enc == nil {
				c.R.Oracle("t87_near")
				sig := fmt.Sprintf("jlsn:encode-fails:P=%d", im.P)
				if encS == "panic" {
					sig = fmt.Sprintf("jlsn:panic:encode:P=%d:near=%s", im.P, nearClass(near))
				}
				c.R.Fail("oracle", "t87_near", sig, "nearlossless.Encode returned "+encS, in)
				return
			}
			own := goDecNear(enc)
			t87("t87_near", fmt.Sprintf("jlsn:t87dec:P=%d:near=%s", im.P, nearClass(near)), enc, own, false)
			return
		}
		// NEAR = 0: both encoders
		encLS, encL := goEncLL(im)
		encNS, encN := goEncNear(im, 0)
		if encL == nil || encN == nil {
			c.R.Oracle("near0_bytes")
			sig := fmt.Sprintf("jls:encode-fails:P=%d", im.P)
			if encLS == "panic" || encNS == "panic" {
				sig = fmt.Sprintf("jls:panic:encode:P=%d:comps=%d", im.P, im.comps)
			}
			c.R.Fail("oracle", "near0_bytes", sig, "lossless.Encode: "+clip(encLS)[:min(5, len(encLS))]+" nearlossless.Encode(0): "+clip(encNS)[:min(5, len(encNS))], in)
			return
		}
		par := fmt.Sprintf("P=%d:comps=%d", im.P, im.comps)
		c.R.Oracle("near0_bytes")
		if !bytes.Equal(encL, encN) {
			c.R.Fail("oracle", "near0_bytes", "jls:near0-bytes:"+par, "lossless.Encode and nearlossless.Encode(NEAR=0) emit different bytes", in)
		}
		ownL := goDecLL(encL)
		ownN := goDecNear(encN)
		t87("t87_lossless", fmt.Sprintf("jls:t87dec:P=%d", im.P), encL, withNear0(ownL), true)
		t87("t87_near0", fmt.Sprintf("jlsn:t87dec:P=%d:near=0", im.P), encN, ownN, true)
		// cross decoding: each decoder on the other package's stream returns the source
		crossN := goDecNear(encL)
		crossL := goDecLL(encN)
		c.R.Oracle("cross_decode")
		if crossN.String() != im.exact(0) {
			c.R.Fail("oracle", "cross_decode", "jls:cross:near-dec-of-lossless:"+par,
				"nearlossless.Decode of a lossless.Encode stream does not return the source: "+clip(crossN.String()), in)
		}
		if withNear0(crossL).String() != im.exact(0) {
			c.R.Fail("oracle", "cross_decode", "jls:cross:lossless-dec-of-near0:"+par,
				"lossless.Decode of a nearlossless.Encode(NEAR=0) stream does not return the source: "+clip(crossL.String()), in)
		}
		// correspondence: the decoder models on the other package's streams
		if c.HasModel() {
			c.CorrEq("jlsn_decode_x", "jlsn:dec-of-lossless:"+par, c.M.Call("jlsn_decode", Hex(encL)), crossN.String(), in)
			c.CorrEq("jls_decode_x", "jls:dec-of-near0:"+par, c.M.Call("jls_decode", Hex(encN)), withNear0(crossL).String(), in)
		}
	})
}

// lossless.Decode reports no NEAR; the canonical reply carries 0
func withNear0(d decRes) decRes { d.nr = 0; return d }

func clip(s string) string {
	if len(s) > 300 {
		return s[:300] + fmt.Sprintf("...(%d chars)", len(s))
	}
	return s
}

// guardCorr: correspondence only (no oracle; the guards are C08/C17's properties): the model
// mirrors the encoders' argument guards and the decoders' header checks — short and long pixel
// buffers, dimensions above 65535, precision outside 2..16, a second SOF55, a foreign SOFn.
func guardCorr(c *Ctx, near bool) {
	if !c.HasModel() {
		return
	}
	rng := c.Rng.Fork()
	enc := func(w, h, comps, P, nr int, px []byte) {
		var impl, got string
		if near {
			var out []byte
			var err error
			if p, _ := Safely(func() { out, err = nearlossless.Encode(px, w, h, comps, P, nr) }); p {
				impl = "panic"
			} else if err != nil {
				impl = "err"
			} else {
				impl = "ok:" + Hex(out)
			}
			got = c.M.Call("jlsn_encode", itoa(w), itoa(h), itoa(comps), itoa(P), itoa(nr), Hex(px))
		} else {
			var out []byte
			var err error
			if p, _ := Safely(func() { out, err = lossless.Encode(px, w, h, comps, P) }); p {
				impl = "panic"
			} else if err != nil {
				impl = "err"
			} else {
				impl = "ok:" + Hex(out)
			}
			got = c.M.Call("jls_encode", itoa(w), itoa(h), itoa(comps), itoa(P), Hex(px))
		}
		c.R.Case(fmt.Sprintf("guard:enc:%d:%d:%d:%d:%d:%d", w, h, comps, P, nr, len(px)), true, "guards.enc")
		c.CorrEq("enc_guards", "jls:guards:enc", got, impl, map[string]interface{}{"w": w, "h": h, "comps": comps, "P": P, "near": nr, "len": len(px)})
	}
	for i := 0; i < c.N(40, 400); i++ {
		P := rng.Range(1, 17)
		comps := rng.Pick(1, 3, 1, 3, 2, 0, 4)
		w, h := rng.Range(-1, 5), rng.Range(-1, 5)
		bps := 1
		if P > 8 {
			bps = 2
		}
		need := w * h * comps * bps
		if need < 0 {
			need = 0
		}
		n := need + rng.Pick(0, 0, -1, -2, 1, 3, 7)
		if n < 0 {
			n = 0
		}
		px := make([]byte, n)
		for j := range px {
			px[j] = byte(rng.Intn(1 << uint(min(P, 8))))
		}
		enc(w, h, comps, P, rng.Pick(0, 0, 1, 255, 256, -1), px)
	}
	enc(65536, 1, 1, 8, 0, make([]byte, 65536))
	enc(1, 65536, 1, 8, 0, make([]byte, 65536))
	enc(65535, 1, 1, 8, 0, make([]byte, 65535))
	// decoder header checks on mutated valid streams
	dec := func(tag string, s []byte) {
		var impl string
		if near {
			impl = goDecNear(s).String()
		} else {
			impl = withNear0(goDecLL(s)).String()
		}
		op := "jls_decode"
		if near {
			op = "jlsn_decode"
		}
		c.R.Case("guard:dec:"+tag+":"+Hex(s), true, "guards.dec")
		c.CorrEq("dec_guards", "jls:guards:dec:"+tag, c.M.Call(op, Hex(s)), impl, map[string]interface{}{"stream": Hex(s)})
	}
	for _, comps := range []int{1, 3} {
		im := &image{3, 2, comps, 8, fill(rng, "noise", 3, 2, comps, 8, 0), "noise"}
		var s []byte
		if near {
			_, s = goEncNear(im, 2)
		} else {
			_, s = goEncLL(im)
		}
		if s == nil {
			continue
		}
		sofLen := 2 + 2 + 6 + 3*comps
		sof := append([]byte{}, s[2:2+sofLen]...)
		for _, pb := range []byte{0, 1, 2, 16, 17, 63, 64, 255} {
			m := append([]byte{}, s...)
			m[6] = pb
			dec(fmt.Sprintf("precision%d", pb), m)
		}
		// second SOF55
		m := append(append(append([]byte{}, s[:2+sofLen]...), sof...), s[2+sofLen:]...)
		dec("second-sof", m)
		// foreign frame headers and other segments before SOF55
		for _, mk := range []byte{0xC0, 0xC1, 0xC3, 0xC4, 0xC5, 0xC8, 0xC9, 0xCC, 0xCF, 0xE0, 0xFE, 0xD0, 0xD8} {
			seg := []byte{0xFF, mk, 0x00, 0x04, 0x01, 0x02}
			m := append(append(append([]byte{}, s[:2]...), seg...), s[2:]...)
			dec(fmt.Sprintf("marker%02x", mk), m)
		}
		// truncations
		for _, cut := range []int{0, 1, 2, 5, 2 + sofLen, len(s) - 3, len(s) - 2, len(s) - 1} {
			if cut >= 0 && cut <= len(s) {
				dec(fmt.Sprintf("cut%d", cut), s[:cut])
			}
		}
	}
}
