package jpegls

import (
	"bytes"
	"fmt"
	"strings"

	"github.com/cocosip/go-dicom-codecs/jpegls/lossless"
	. "verif/harness/vhlib"
)

// C08 (no decoder panics), JPEG-LS part: (1) the GolombReader as coded, component level, on
// adversarial buffers and read scripts — Go vs the as-coded reader model (jls_gr) and vs the
// bit-list semantics the decoder models use (jls_bl); (2) both decoders on mutated and garbage
// streams — Go vs jls_decode / jlsn_decode and their index-explicit twins (ok/err class and the
// decoded bytes when ok). A Go panic is an oracle failure.

func runReaderGo(data []byte, script []int) string {
	var vals []string
	end := "|ok"
	if p, _ := Safely(func() {
		gr := lossless.NewGolombReader(bytes.NewReader(data))
		for _, n := range script {
			if n == 0 {
				b, err := gr.ReadBit()
				if err != nil {
					end = "|end"
					return
				}
				vals = append(vals, itoa(b))
			} else {
				v, err := gr.ReadBits(n)
				if err != nil {
					end = "|end"
					return
				}
				vals = append(vals, fmt.Sprint(v))
			}
		}
	}); p {
		return "panic"
	}
	if len(vals) == 0 {
		return "_" + end
	}
	return strings.Join(vals, ",") + end
}

func readerCorr(c *Ctx) {
	rng := c.Rng.Fork()
	type rc struct {
		data   []byte
		script []int
	}
	n := c.N(4000, 60000)
	cases := make([]rc, n)
	for i := range cases {
		l := rng.Range(0, 48)
		if i%50 == 0 {
			l = rng.Range(100, 400)
		}
		d := make([]byte, l)
		for j := range d {
			switch rng.Intn(6) {
			case 0, 1:
				d[j] = 0xFF
			case 2:
				d[j] = byte(rng.Intn(128)) // legal after FF
			case 3:
				d[j] = byte(128 + rng.Intn(128)) // marker after FF
			default:
				d[j] = byte(rng.Intn(256))
			}
		}
		if rng.Intn(4) == 0 && l > 0 {
			d[l-1] = 0xFF
		}
		if i%7 == 0 { // long stretches without FF: the optimistic refill path
			for j := range d {
				if d[j] == 0xFF && rng.Intn(8) != 0 {
					d[j] = byte(rng.Intn(255))
				}
			}
		}
		var s []int
		for k := rng.Range(1, 40); k > 0; k-- {
			switch rng.Intn(8) {
			case 0, 1, 2:
				s = append(s, 0)
			case 3:
				s = append(s, rng.Pick(31, 32, 33, 24, 25))
			default:
				s = append(s, rng.Range(1, 32))
			}
		}
		cases[i] = rc{d, s}
	}
	ParallelFor(n, c.Work, func(i int) {
		k := cases[i]
		c.R.Case("gr:"+Hex(k.data)+":"+Ints(k.script), len(k.data) > 0, "c08.reader.len."+sizeBucket(len(k.data)))
		impl := runReaderGo(k.data, k.script)
		c.R.Oracle("jls_reader_no_panic")
		in := map[string]interface{}{"data": Hex(k.data), "script": k.script}
		if impl == "panic" {
			c.R.Fail("oracle", "jls_reader_no_panic", "jls:panic:reader", "GolombReader panicked", in)
		}
		if c.HasModel() {
			c.CorrEq("golomb_reader", "jls:gr:reader", c.M.Call("jls_gr", Hex(k.data), Ints(k.script)), impl, in)
			c.CorrEq("golomb_reader_bits", "jls:gr:bitlist", c.M.Call("jls_bl", Hex(k.data), Ints(k.script)), impl, in)
		}
	})
}

// declared sample count of the first SOF55 of a stream (0 if none): the Go decoders allocate
// width*height*components ints before they look at the scan
func declaredSamples(s []byte) int {
	for i := 0; i+9 < len(s); i++ {
		if s[i] == 0xFF && s[i+1] == 0xF7 {
			h := int(s[i+5])<<8 | int(s[i+6])
			w := int(s[i+7])<<8 | int(s[i+8])
			return w * h * int(s[i+9])
		}
	}
	return 0
}

func mutate(rng *Rand, s []byte) []byte {
	m := append([]byte{}, s...)
	hdr := 0
	for i := 0; i+1 < len(m); i++ {
		if m[i] == 0xFF && m[i+1] == 0xDA && i+3 < len(m) {
			hdr = i + 2 + (int(m[i+2])<<8 | int(m[i+3]))
			break
		}
	}
	if hdr > len(m) {
		hdr = len(m)
	}
	pickScan := func() int {
		if hdr < len(m) && rng.Intn(4) != 0 {
			return rng.Range(hdr, len(m)-1)
		}
		return rng.Intn(len(m))
	}
	for k := rng.Range(1, 4); k > 0 && len(m) > 0; k-- {
		switch rng.Intn(9) {
		case 0, 1, 2: // bit flip, mostly in the entropy-coded data
			i := pickScan()
			m[i] ^= 1 << uint(rng.Intn(8))
		case 3: // byte replaced
			m[pickScan()] = byte(rng.Pick(0, 0xFF, 0x7F, 0x80, rng.Intn(256)))
		case 4: // truncate
			m = m[:rng.Intn(len(m)+1)]
		case 5: // delete a byte
			i := rng.Intn(len(m))
			m = append(m[:i], m[i+1:]...)
		case 6: // insert bytes
			i := rng.Intn(len(m) + 1)
			ins := []byte{byte(rng.Pick(0xFF, 0x00, rng.Intn(256)))}
			if rng.Bool() {
				ins = append(ins, byte(rng.Intn(256)))
			}
			m = append(m[:i], append(ins, m[i:]...)...)
		case 7: // an LSE segment (preset parameters, possibly absurd) after SOI
			mv := rng.Pick(0, 1, 2, 3, 255, 256, 4095, 65535, rng.Intn(65536))
			t := func() int { return rng.Pick(0, 1, 2, 3, 7, 21, 255, 65535, rng.Intn(65536)) }
			t1, t2, t3, rs := t(), t(), t(), rng.Pick(0, 1, 2, 3, 63, 64, 65, 65535)
			lse := []byte{0xFF, 0xF8, 0x00, 0x0D, byte(rng.Pick(1, 1, 1, 2, 0)), byte(mv >> 8), byte(mv), byte(t1 >> 8), byte(t1),
				byte(t2 >> 8), byte(t2), byte(t3 >> 8), byte(t3), byte(rs >> 8), byte(rs)}
			if rng.Intn(5) == 0 {
				lse = lse[:rng.Range(4, len(lse))]
			}
			pos := 2
			if rng.Bool() { // between SOF55 and SOS
				for i := 0; i+1 < len(m); i++ {
					if m[i] == 0xFF && m[i+1] == 0xDA {
						pos = i
						break
					}
				}
			}
			if pos <= len(m) {
				m = append(m[:pos], append(lse, m[pos:]...)...)
			}
		case 8: // header byte (precision, dimensions kept small, components, NEAR, ILV)
			if hdr > 0 && len(m) > 0 {
				i := rng.Intn(min(hdr, len(m)))
				m[i] = byte(rng.Pick(0, 1, 2, 3, 4, 8, 16, 17, 255, rng.Intn(256)))
			}
		}
	}
	return m
}

func runC08(c *Ctx) {
	c.R.Rule = "JPEG-LS: GolombReader read scripts on adversarial buffers (dense FF, markers, trailing FF); both decoders on " +
		"mutated encoder streams (bit flips in the scan, truncation, insert/delete, LSE with absurd parameters, header bytes) and " +
		"random garbage; streams declaring more than 2^20 samples are skipped (allocation, C09); non-trivial = non-empty input"
	readerCorr(c)
	rng := c.Rng.Fork()
	// base streams
	var bases [][]byte
	for i := 0; i < c.N(60, 400); i++ {
		P := rng.Range(2, 16)
		comps := rng.Pick(1, 1, 3)
		w, h := rng.Range(1, 12), rng.Range(1, 8)
		class := classes[rng.Intn(len(classes))]
		near := 0
		if rng.Bool() {
			near = pickNear(rng, P)
		}
		im := &image{w, h, comps, P, fill(rng, class, w, h, comps, P, near), class}
		var s []byte
		if near == 0 && rng.Bool() {
			_, s = goEncLL(im)
		} else {
			_, s = goEncNear(im, near)
		}
		if s != nil {
			bases = append(bases, s)
		}
	}
	n := c.N(6000, 100000)
	streams := make([][]byte, n)
	for i := range streams {
		if i%25 == 0 || len(bases) == 0 { // garbage with a plausible start
			g := make([]byte, rng.Range(0, 60))
			for j := range g {
				g[j] = byte(rng.Pick(0xFF, 0xD8, 0xF7, 0xDA, 0xF8, 0x00, rng.Intn(256)))
			}
			if rng.Bool() {
				g = append([]byte{0xFF, 0xD8}, g...)
			}
			streams[i] = g
		} else {
			streams[i] = mutate(rng, bases[rng.Intn(len(bases))])
		}
	}
	ParallelFor(n, c.Work, func(i int) {
		s := streams[i]
		if declaredSamples(s) > 1<<20 {
			c.R.Case("c08:skip:"+Hex(s), false, "c08.skipped.large")
			return
		}
		dl := withNear0(goDecLL(s))
		dn := goDecNear(s)
		c.R.Case("c08:"+Hex(s), len(s) > 0, "c08.stream.len."+sizeBucket(len(s)), "c08.ll."+dl.class, "c08.near."+dn.class)
		if i < 2 {
			c.R.Sample(map[string]interface{}{"suite": "c08jls", "stream": Hex(s)})
		}
		in := map[string]interface{}{"stream": Hex(s)}
		c.R.Oracle("jls_no_panic")
		if dl.class == "panic" {
			c.R.Fail("oracle", "jls_no_panic", "jls:panic:decode:mutated", "lossless.Decode panicked", in)
		}
		if dn.class == "panic" {
			c.R.Fail("oracle", "jls_no_panic", "jlsn:panic:decode:mutated", "nearlossless.Decode panicked", in)
		}
		if c.HasModel() {
			c.CorrEq("jls_decode_mut", "jls:dec:mutated", c.M.Call("jls_decode", Hex(s)), dl.String(), in)
			c.CorrEq("jlsn_decode_mut", "jlsn:dec:mutated", c.M.Call("jlsn_decode", Hex(s)), dn.String(), in)
			if i%4 == 0 || c.Thor {
				c.CorrEq("jls_decode_safe", "jls:dec-safe:mutated", c.M.Call("jls_decode_safe", Hex(s)), dl.String(), in)
				c.CorrEq("jlsn_decode_safe", "jlsn:dec-safe:mutated", c.M.Call("jlsn_decode_safe", Hex(s)), dn.String(), in)
			}
		}
	})
}
