// Package jpegls: suites for C03 (JPEG-LS lossless round trip), C07 (near-lossless bound) and
// C14 (T.87 conformance: independent decoder, lossless/near(0) byte identity, cross decoding,
// Annex H.3 vector). Generators in this file, runners in run.go.
package jpegls

import (
	"fmt"

	. "verif/harness/vhlib"
)

// image is one test image: samples in [0, 2^P) in sample-interleaved order.
type image struct {
	w, h, comps, P int
	px             []int
	class          string
}

func (im *image) maxval() int { return (1 << uint(im.P)) - 1 }

// container bytes: 1 byte per sample for P <= 8, else 16-bit little endian
func (im *image) bytes() []byte {
	if im.P <= 8 {
		b := make([]byte, len(im.px))
		for i, v := range im.px {
			b[i] = byte(v)
		}
		return b
	}
	b := make([]byte, 2*len(im.px))
	for i, v := range im.px {
		b[2*i] = byte(v)
		b[2*i+1] = byte(v >> 8)
	}
	return b
}

func (im *image) key() string {
	return fmt.Sprintf("%dx%dx%d:P%d:%s", im.w, im.h, im.comps, im.P, Ints(im.px))
}

func (im *image) nontrivial() bool {
	// at least two different sample values, or more than one sample
	return len(im.px) > 1
}

func (im *image) input(extra map[string]interface{}) map[string]interface{} {
	m := map[string]interface{}{"w": im.w, "h": im.h, "comps": im.comps, "P": im.P, "class": im.class}
	if len(im.px) <= 4096 {
		m["samples"] = im.px
	} else {
		m["samples_head"] = im.px[:64]
		m["hex"] = Hex(im.bytes())
	}
	for k, v := range extra {
		m[k] = v
	}
	return m
}

func nearMax(P int) int {
	mv := (1 << uint(P)) - 1
	if mv/2 < 255 {
		return mv / 2
	}
	return 255
}

func sizeBucket(n int) string {
	switch {
	case n <= 16:
		return "16"
	case n <= 256:
		return "256"
	case n <= 4096:
		return "4k"
	case n <= 65536:
		return "64k"
	default:
		return "big"
	}
}

var classes = []string{"noise", "twolevel", "runs", "eolruns", "ramp", "nearedge", "smooth", "const", "checker", "stripes", "halfjump"}

// fill generates the samples of one image of the given class. near steers ramp steps and the
// distance from the range ends.
func fill(rng *Rand, class string, w, h, comps, P, near int) []int {
	mv := (1 << uint(P)) - 1
	n := w * h * comps
	px := make([]int, n)
	at := func(x, y, c int) int { return (y*w+x)*comps + c }
	switch class {
	case "noise":
		for i := range px {
			px[i] = rng.Intn(mv + 1)
		}
	case "twolevel":
		for i := range px {
			if rng.Bool() {
				px[i] = mv
			}
		}
	case "checker":
		for y := 0; y < h; y++ {
			for x := 0; x < w; x++ {
				for c := 0; c < comps; c++ {
					if (x+y+c)&1 == 1 {
						px[at(x, y, c)] = mv
					}
				}
			}
		}
	case "halfjump":
		// every row is the same unit-slope ramp, so the MED predictor is exact (context (1,1,0), regular mode,
		// Golomb parameter 0); sparse dips of one level drive the bias negative; isolated samples sit exactly
		// (or nearly) half the range above/below the sample above them: the error +-2^(P-1) is on the modulo
		// boundary, where encoder and decoder must agree on the representative, also after bias correction
		half := (mv + 1) / 2
		var base [3]int
		for c := range base {
			base[c] = rng.Intn(mv/4 + 1)
		}
		for y := 0; y < h; y++ {
			for x := 0; x < w; x++ {
				for c := 0; c < comps; c++ {
					v := base[c] + x%(mv/4+1)
					switch {
					case rng.Intn(7) == 0 && v > 0:
						v--
					case y > 0 && rng.Intn(19) == 0:
						above := px[at(x, y-1, c)]
						j := half
						if rng.Intn(3) == 0 {
							j += rng.Intn(5) - 2
						}
						if above+j <= mv && (rng.Bool() || above-j < 0) {
							v = above + j
						} else if above-j >= 0 {
							v = above - j
						}
					}
					if v > mv {
						v = mv
					}
					px[at(x, y, c)] = v
				}
			}
		}
	case "const":
		var v [3]int
		for c := range v {
			v[c] = rng.Intn(mv + 1)
		}
		for i := range px {
			px[i] = v[i%comps]
		}
	case "runs":
		// long runs with rare interruptions (isolated outliers, sometimes full-range jumps)
		var cur [3]int
		for c := range cur {
			cur[c] = rng.Intn(mv + 1)
		}
		for y := 0; y < h; y++ {
			for x := 0; x < w; x++ {
				r := rng.Intn(40)
				for c := 0; c < comps; c++ {
					v := cur[c]
					switch {
					case r == 0: // outlier, value kept for this pixel only
						v = rng.Intn(mv + 1)
					case r == 1: // level change
						cur[c] = rng.Intn(mv + 1)
						v = cur[c]
					case r == 2: // full-range jump
						if cur[c] > mv/2 {
							v = rng.Intn(2)
						} else {
							v = mv - rng.Intn(2)
						}
						if v < 0 {
							v = 0
						}
					}
					px[at(x, y, c)] = v
				}
			}
		}
	case "eolruns":
		// every line: a short varying prefix, then constant to the end of the line; the next
		// line starts with a different value (runs ending exactly at line end)
		for y := 0; y < h; y++ {
			pre := 0
			if w > 1 {
				pre = rng.Intn(w)
				if rng.Intn(3) == 0 {
					pre = 0
				}
			}
			var v [3]int
			for c := range v {
				v[c] = rng.Intn(mv + 1)
			}
			for x := 0; x < w; x++ {
				for c := 0; c < comps; c++ {
					if x < pre {
						px[at(x, y, c)] = rng.Intn(mv + 1)
					} else {
						px[at(x, y, c)] = v[c]
					}
				}
			}
		}
	case "ramp":
		// ramps with step 2*NEAR+1 (and neighbours of that step), wrapping inside the range
		step := 2*near + 1 + rng.Pick(0, 0, 0, -1, 1)
		if step < 1 {
			step = 1
		}
		dir := rng.Pick(1, -1)
		vert := rng.Bool()
		base := rng.Intn(mv + 1)
		for y := 0; y < h; y++ {
			for x := 0; x < w; x++ {
				for c := 0; c < comps; c++ {
					t := x
					if vert {
						t = y
					} else if rng.Intn(64) == 0 {
						t = x + y
					}
					v := (base + dir*step*t + c) % (mv + 1)
					if v < 0 {
						v += mv + 1
					}
					px[at(x, y, c)] = v
				}
			}
		}
	case "nearedge":
		// samples within NEAR (+1) of 0 and of MAXVAL
		d := near + 1
		for i := range px {
			o := rng.Intn(d + 1)
			if o > mv {
				o = mv
			}
			if rng.Bool() {
				px[i] = o
			} else {
				px[i] = mv - o
			}
		}
	case "smooth":
		// slowly varying surface plus small noise: regular mode with small errors
		amp := rng.Pick(1, 2, 3, 5, 9)
		gx, gy := rng.Range(-3, 3), rng.Range(-3, 3)
		base := rng.Intn(mv + 1)
		for y := 0; y < h; y++ {
			for x := 0; x < w; x++ {
				for c := 0; c < comps; c++ {
					v := base + gx*x + gy*y + c*7 + rng.Range(-amp, amp)
					if v < 0 {
						v = 0
					}
					if v > mv {
						v = mv
					}
					px[at(x, y, c)] = v
				}
			}
		}
	case "stripes":
		// vertical stripes of random width: run / interruption / regular mix with context reuse
		col := make([]int, w*comps)
		var v [3]int
		left := 0
		for x := 0; x < w; x++ {
			if left == 0 {
				left = rng.Range(1, 12)
				for c := range v {
					v[c] = rng.Intn(mv + 1)
				}
			}
			left--
			for c := 0; c < comps; c++ {
				col[x*comps+c] = v[c]
			}
		}
		for y := 0; y < h; y++ {
			for x := 0; x < w; x++ {
				for c := 0; c < comps; c++ {
					px[at(x, y, c)] = col[x*comps+c]
					if rng.Intn(97) == 0 {
						px[at(x, y, c)] = rng.Intn(mv + 1)
					}
				}
			}
		}
	}
	return px
}

// pickSize: widths/heights with emphasis on 1, 2 and the tier's maximum
func pickSize(rng *Rand, max int) (int, int) {
	one := func() int {
		switch rng.Intn(10) {
		case 0:
			return 1
		case 1:
			return 2
		case 2:
			return max
		case 3, 4:
			return rng.Range(1, 8)
		default:
			return rng.Range(1, max)
		}
	}
	return one(), one()
}

// randomImages: n images over all classes, precisions 2..16 (each precision visited evenly),
// 1 or 3 components, sizes up to max; near(P) supplies the NEAR that steers ramp/nearedge.
func randomImages(rng *Rand, n, max int, near func(P int) int) ([]*image, []int) {
	var out []*image
	var nears []int
	for i := 0; i < n; i++ {
		P := 2 + i%15
		comps := 1
		if rng.Intn(3) == 0 {
			comps = 3
		}
		w, h := pickSize(rng, max)
		if comps == 3 && w*h > 2048 && max <= 64 {
			h = 2048/w + 1
		}
		class := classes[(i/15)%len(classes)]
		nr := near(P)
		out = append(out, &image{w, h, comps, P, fill(rng, class, w, h, comps, P, nr), class})
		nears = append(nears, nr)
	}
	return out, nears
}

// exhaustive: all images of the given geometry with samples in [0, 2^P), every stride-th one.
func exhaustive(w, h, comps, P, stride int, f func(*image)) {
	n := w * h * comps
	base := 1 << uint(P)
	total := 1
	for i := 0; i < n; i++ {
		total *= base
	}
	for code := 0; code < total; code += stride {
		px := make([]int, n)
		c := code
		for i := 0; i < n; i++ {
			px[i] = c % base
			c /= base
		}
		f(&image{w, h, comps, P, px, "exhaustive"})
	}
}
