// Package dwt: C20 for the 5/3 reversible wavelet (jpeg2000/wavelet/dwt53.go).
// Correspondence: the Go functions against the extracted Coq model (DWT/DwtModel.v),
// integer for integer. Oracle: inverse(forward(x)) == x on the Go code alone.
package dwt

import (
	"fmt"
	"strings"

	"github.com/cocosip/go-dicom-codecs/jpeg2000/wavelet"
	. "verif/harness/vhlib"
)

// Register adds this area's suites.
func Register(s Suites) { s.Add("C20", runC20) }

func runC20(c *Ctx) {
	c.R.Rule = "DWT 5/3: 1-D all lengths 1..40 and random lengths (to 257 quick / 1025 thorough), both parities, " +
		"all signals of length <= 6 (quick) / 8 (thorough) over {-2..2}; 2-D all sizes 1..12 x 1..12 with strides >= w, " +
		"4 parity pairs, random sizes to 64 / 257; multilevel levels 0..8, x0,y0 in 0..7; values random in +-2^20, small, " +
		"constant, extremes (amplitude scaled with the level count so that no int32 intermediate overflows); " +
		"inverse functions also on arbitrary inputs; non-trivial = at least one non-zero sample"
	dwt1D(c)
	dwt2D(c)
	dwtML(c)
	dwtPanicClass(c)
}

func b01(b bool) string {
	if b {
		return "1"
	}
	return "0"
}
func i01(b bool) int {
	if b {
		return 1
	}
	return 0
}

func nonzero(x []int32) bool {
	for _, v := range x {
		if v != 0 {
			return true
		}
	}
	return false
}

func eq32(a, b []int32) int {
	if len(a) != len(b) {
		return 0
	}
	for i := range a {
		if a[i] != b[i] {
			return i
		}
	}
	return -1
}

func clone(x []int32) []int32 { return append([]int32(nil), x...) }

// fill produces n values of one of several classes with amplitude amp (>= 2).
func fill(rng *Rand, n int, amp int, class int) []int32 {
	x := make([]int32, n)
	switch class % 6 {
	case 0, 1: // uniform in +-amp
		for i := range x {
			x[i] = int32(rng.Range(-amp, amp))
		}
	case 2: // small
		for i := range x {
			x[i] = int32(rng.Range(-2, 2))
		}
	case 3: // extremes
		ext := []int{amp, -amp, amp - 1, -amp + 1, 0, 1, -1}
		for i := range x {
			x[i] = int32(ext[rng.Intn(len(ext))])
		}
	case 4: // constant / alternating
		v := rng.Range(-amp, amp)
		alt := rng.Bool()
		for i := range x {
			if alt && i%2 == 1 {
				x[i] = int32(-v)
			} else {
				x[i] = int32(v)
			}
		}
	default: // 8/12/16-bit image-like
		m := rng.Pick(255, 4095, 65535)
		if m > amp {
			m = amp
		}
		for i := range x {
			x[i] = int32(rng.Range(0, m))
		}
	}
	return x
}

// ---------------------------------------------------------------------------------------
// 1-D

func run1D(c *Ctx, x []int32, even bool, dist string, sample bool) {
	sig := fmt.Sprintf("dwt:1d:even=%d:len=%d", i01(even), len(x))
	c.R.Case("1d:"+b01(even)+":"+Ints32(x), nonzero(x), dist, fmt.Sprintf("dwt1d.even.%d", i01(even)))
	if sample {
		c.R.Sample(map[string]interface{}{"suite": "dwt1d", "even": even, "x": x})
	}
	in := map[string]interface{}{"even": even, "x": x}
	f := clone(x)
	if p, msg := Safely(func() { wavelet.Forward53_1DWithParity(f, even) }); p {
		c.R.Fail("oracle", "dwt_roundtrip_1d", sig+":fwd-panic", "Forward53_1DWithParity panics: "+msg, in)
		return
	}
	c.CorrEq("dwt_fwd1d", sig+":fwd", c.M.Call("dwt_fwd1d", b01(even), Ints32(x)), Ints32(f), in)
	g := clone(f)
	if p, msg := Safely(func() { wavelet.Inverse53_1DWithParity(g, even) }); p {
		c.R.Fail("oracle", "dwt_roundtrip_1d", sig+":inv-panic", "Inverse53_1DWithParity panics: "+msg, in)
		return
	}
	c.CorrEq("dwt_inv1d", sig+":inv", c.M.Call("dwt_inv1d", b01(even), Ints32(f)), Ints32(g),
		map[string]interface{}{"even": even, "coeffs": f})
	c.R.Oracle("dwt_roundtrip_1d")
	if k := eq32(g, x); k >= 0 {
		c.R.Fail("oracle", "dwt_roundtrip_1d", sig, fmt.Sprintf("inverse of forward differs at index %d", k), in)
	}
	// inverse on an arbitrary (non-forward-image) input
	a := clone(x)
	if p, _ := Safely(func() { wavelet.Inverse53_1DWithParity(a, even) }); !p {
		c.CorrEq("dwt_inv1d_arbitrary", sig+":inv-arb", c.M.Call("dwt_inv1d", b01(even), Ints32(x)), Ints32(a),
			map[string]interface{}{"even": even, "coeffs": x})
	}
}

func dwt1D(c *Ctx) {
	rng := c.Rng.Fork()
	type cs struct {
		x    []int32
		even bool
		dist string
	}
	var cases []cs
	// all lengths 1..40, both parities, every value class
	for n := 1; n <= 40; n++ {
		for cl := 0; cl < 6; cl++ {
			amp := 1 << 20
			if cl == 3 {
				amp = 1 << 28
			}
			x := fill(rng, n, amp, cl)
			cases = append(cases, cs{x, true, "dwt1d.len.1-40"}, cs{clone(x), false, "dwt1d.len.1-40"})
		}
	}
	// the special-cased widths 1, 2, 3 (width 1 odd parity: *2 then truncating /2), many values
	for i := 0; i < c.N(240, 2400); i++ {
		n := 1 + i%3
		x := fill(rng, n, 1<<20, i%4)
		if i%5 == 0 {
			for j := range x {
				x[j] = int32(rng.Range(-9, 9))
			}
		}
		cases = append(cases, cs{x, i%2 == 0, "dwt1d.len.1-3"})
	}
	// random lengths
	maxLen := c.N(257, 1025)
	for i := 0; i < c.N(300, 3000); i++ {
		n := rng.Range(1, maxLen)
		if i%10 == 0 {
			n = rng.Pick(maxLen, maxLen-1, 64, 65, 128, 129, 256, 257)
		}
		cl := rng.Intn(6)
		amp := 1 << 20
		if cl == 3 {
			amp = 1 << 28
		}
		cases = append(cases, cs{fill(rng, n, amp, cl), rng.Bool(), fmt.Sprintf("dwt1d.len.le%d", (n+127)/128*128)})
	}
	ParallelFor(len(cases), c.Work, func(i int) {
		run1D(c, cases[i].x, cases[i].even, cases[i].dist, i == 7)
	})
	// all signals of length <= L over {-2..2}; the model is asked in batches of 125 signals
	L := c.N(6, 8)
	for n := 1; n <= L; n++ {
		total := 1
		for k := 0; k < n; k++ {
			total *= 5
		}
		nn := n
		const batch = 125
		ParallelFor((total+batch-1)/batch, c.Work, func(bi int) {
			var xs [][]int32
			for i := bi * batch; i < (bi+1)*batch && i < total; i++ {
				x := make([]int32, nn)
				v := i
				for k := 0; k < nn; k++ {
					x[k] = int32(v%5 - 2)
					v /= 5
				}
				xs = append(xs, x)
			}
			run1DBatch(c, xs, true, "dwt1d.exhaustive")
			run1DBatch(c, xs, false, "dwt1d.exhaustive")
		})
	}
}

// run1DBatch does what run1D does for several (non-empty) signals with one model request.
func run1DBatch(c *Ctx, xs [][]int32, even bool, dist string) {
	strs := make([]string, len(xs))
	for i, x := range xs {
		strs[i] = Ints32(x)
	}
	var rep []string
	if c.HasModel() {
		rep = strings.Split(c.M.Call("dwt_1d_batch", b01(even), strings.Join(strs, ";")), ";")
	}
	part := func(i, k int) string {
		if i >= len(rep) {
			return "!short-reply"
		}
		p := strings.Split(rep[i], "/")
		if k >= len(p) {
			return "!" + rep[i]
		}
		return p[k]
	}
	for i, x := range xs {
		sig := fmt.Sprintf("dwt:1d:even=%d:len=%d", i01(even), len(x))
		c.R.Case("1d:"+b01(even)+":"+strs[i], nonzero(x), dist, fmt.Sprintf("dwt1d.even.%d", i01(even)))
		in := map[string]interface{}{"even": even, "x": x}
		f := clone(x)
		if p, msg := Safely(func() { wavelet.Forward53_1DWithParity(f, even) }); p {
			c.R.Fail("oracle", "dwt_roundtrip_1d", sig+":fwd-panic", "Forward53_1DWithParity panics: "+msg, in)
			continue
		}
		c.CorrEq("dwt_fwd1d", sig+":fwd", part(i, 0), Ints32(f), in)
		g := clone(f)
		if p, msg := Safely(func() { wavelet.Inverse53_1DWithParity(g, even) }); p {
			c.R.Fail("oracle", "dwt_roundtrip_1d", sig+":inv-panic", "Inverse53_1DWithParity panics: "+msg, in)
			continue
		}
		// the model inverts its own forward image; that is the same input when the line above agreed
		c.CorrEq("dwt_inv1d", sig+":inv", part(i, 1), Ints32(g), map[string]interface{}{"even": even, "coeffs": f})
		c.R.Oracle("dwt_roundtrip_1d")
		if k := eq32(g, x); k >= 0 {
			c.R.Fail("oracle", "dwt_roundtrip_1d", sig, fmt.Sprintf("inverse of forward differs at index %d", k), in)
		}
		a := clone(x)
		if p, _ := Safely(func() { wavelet.Inverse53_1DWithParity(a, even) }); !p {
			c.CorrEq("dwt_inv1d_arbitrary", sig+":inv-arb", part(i, 2), Ints32(a), map[string]interface{}{"even": even, "coeffs": x})
		}
	}
}

// ---------------------------------------------------------------------------------------
// 2-D

type case2d struct {
	w, h, stride, pad int
	er, ec            bool
	data              []int32
	dist              string
}

func run2D(c *Ctx, k case2d, sample bool) {
	sig := fmt.Sprintf("dwt:2d:er=%d:ec=%d:w=%d:h=%d:stride=%d", i01(k.er), i01(k.ec), k.w, k.h, k.stride)
	c.R.Case(fmt.Sprintf("2d:%d:%d:%d:%d%d:%s", k.w, k.h, k.stride, i01(k.er), i01(k.ec), Ints32(k.data)),
		nonzero(k.data), k.dist, fmt.Sprintf("dwt2d.parity.%d%d", i01(k.er), i01(k.ec)))
	in := map[string]interface{}{"w": k.w, "h": k.h, "stride": k.stride, "evenRow": k.er, "evenCol": k.ec, "data": k.data}
	if sample {
		c.R.Sample(in)
	}
	args := func(d []int32) []string {
		return []string{fmt.Sprint(k.w), fmt.Sprint(k.h), fmt.Sprint(k.stride), b01(k.er), b01(k.ec), Ints32(d)}
	}
	f := clone(k.data)
	if p, msg := Safely(func() { wavelet.Forward53_2DWithParity(f, k.w, k.h, k.stride, k.er, k.ec) }); p {
		c.R.Fail("oracle", "dwt_roundtrip_2d", sig+":fwd-panic", "Forward53_2DWithParity panics: "+msg, in)
		return
	}
	c.CorrEq("dwt_fwd2d", sig+":fwd", c.M.Call("dwt_fwd2d", args(k.data)...), Ints32(f), in)
	g := clone(f)
	if p, msg := Safely(func() { wavelet.Inverse53_2DWithParity(g, k.w, k.h, k.stride, k.er, k.ec) }); p {
		c.R.Fail("oracle", "dwt_roundtrip_2d", sig+":inv-panic", "Inverse53_2DWithParity panics: "+msg, in)
		return
	}
	c.CorrEq("dwt_inv2d", sig+":inv", c.M.Call("dwt_inv2d", args(f)...), Ints32(g), in)
	c.R.Oracle("dwt_roundtrip_2d")
	if j := eq32(g, k.data); j >= 0 {
		c.R.Fail("oracle", "dwt_roundtrip_2d", sig, fmt.Sprintf("inverse of forward differs at buffer index %d", j), in)
	}
	a := clone(k.data)
	if p, _ := Safely(func() { wavelet.Inverse53_2DWithParity(a, k.w, k.h, k.stride, k.er, k.ec) }); !p {
		c.CorrEq("dwt_inv2d_arbitrary", sig+":inv-arb", c.M.Call("dwt_inv2d", args(k.data)...), Ints32(a), in)
	}
}

func dwt2D(c *Ctx) {
	rng := c.Rng.Fork()
	var cases []case2d
	mk := func(w, h, stride, pad int, er, ec bool, cl int, dist string) {
		amp := 1 << 20
		if cl%6 == 3 {
			amp = 1 << 26
		}
		cases = append(cases, case2d{w, h, stride, pad, er, ec, fill(rng, stride*h+pad, amp, cl), dist})
	}
	cl := 0
	for w := 1; w <= 12; w++ {
		for h := 1; h <= 12; h++ {
			for _, extra := range []int{0, 1, 3} {
				for p := 0; p < 4; p++ {
					pad := 0
					if extra == 1 {
						pad = 2
					}
					mk(w, h, w+extra, pad, p&1 == 0, p&2 == 0, cl, "dwt2d.size.1-12")
					cl++
				}
			}
		}
	}
	maxS := c.N(64, 257)
	for i := 0; i < c.N(120, 400); i++ {
		w, h := rng.Range(1, maxS), rng.Range(1, maxS)
		switch i % 8 {
		case 0:
			w = rng.Pick(1, 2, 3, maxS)
		case 1:
			h = rng.Pick(1, 2, 3, maxS)
		case 2:
			w, h = maxS, maxS
		}
		stride := w
		if rng.Intn(3) == 0 {
			stride = w + rng.Range(1, 9)
		}
		mk(w, h, stride, rng.Pick(0, 0, 5), rng.Bool(), rng.Bool(), rng.Intn(6), fmt.Sprintf("dwt2d.size.le%d", (max(w, h)+63)/64*64))
	}
	ParallelFor(len(cases), c.Work, func(i int) { run2D(c, cases[i], i == 500) })
}

// ---------------------------------------------------------------------------------------
// multilevel

type caseML struct {
	w, h, levels, x0, y0 int
	data                 []int32
	arb                  []int32 // arbitrary coefficients for the inverse alone (smaller amplitude)
	dist                 string
}

func runML(c *Ctx, k caseML, sample bool) {
	sig := fmt.Sprintf("dwt:ml:levels=%d:x0=%d:y0=%d:w=%d:h=%d", k.levels, k.x0, k.y0, k.w, k.h)
	c.R.Case(fmt.Sprintf("ml:%d:%d:%d:%d:%d:%s", k.w, k.h, k.levels, k.x0, k.y0, Ints32(k.data)),
		nonzero(k.data), k.dist, fmt.Sprintf("dwtml.levels.%d", k.levels), fmt.Sprintf("dwtml.origin.%d.%d", k.x0&1, k.y0&1))
	in := map[string]interface{}{"w": k.w, "h": k.h, "levels": k.levels, "x0": k.x0, "y0": k.y0, "data": k.data}
	if sample {
		c.R.Sample(in)
	}
	args := func(d []int32) []string {
		return []string{fmt.Sprint(k.w), fmt.Sprint(k.h), fmt.Sprint(k.levels), fmt.Sprint(k.x0), fmt.Sprint(k.y0), Ints32(d)}
	}
	f := clone(k.data)
	if p, msg := Safely(func() { wavelet.ForwardMultilevelWithParity(f, k.w, k.h, k.levels, k.x0, k.y0) }); p {
		c.R.Fail("oracle", "dwt_roundtrip_ml", sig+":fwd-panic", "ForwardMultilevelWithParity panics: "+msg, in)
		return
	}
	c.CorrEq("dwt_fwd_ml", sig+":fwd", c.M.Call("dwt_fwd_ml", args(k.data)...), Ints32(f), in)
	g := clone(f)
	if p, msg := Safely(func() { wavelet.InverseMultilevelWithParity(g, k.w, k.h, k.levels, k.x0, k.y0) }); p {
		c.R.Fail("oracle", "dwt_roundtrip_ml", sig+":inv-panic", "InverseMultilevelWithParity panics: "+msg, in)
		return
	}
	c.CorrEq("dwt_inv_ml", sig+":inv", c.M.Call("dwt_inv_ml", args(f)...), Ints32(g), in)
	c.R.Oracle("dwt_roundtrip_ml")
	if j := eq32(g, k.data); j >= 0 {
		c.R.Fail("oracle", "dwt_roundtrip_ml", sig, fmt.Sprintf("inverse of forward differs at buffer index %d", j), in)
	}
	if k.arb != nil {
		a := clone(k.arb)
		if p, _ := Safely(func() { wavelet.InverseMultilevelWithParity(a, k.w, k.h, k.levels, k.x0, k.y0) }); !p {
			in2 := map[string]interface{}{"w": k.w, "h": k.h, "levels": k.levels, "x0": k.x0, "y0": k.y0, "data": k.arb}
			c.CorrEq("dwt_inv_ml_arbitrary", sig+":inv-arb", c.M.Call("dwt_inv_ml", args(k.arb)...), Ints32(a), in2)
		}
	}
}

// Amplitudes for which no int32 intermediate can overflow: a forward level multiplies the
// low-pass band by at most 1.5^2 and any intermediate by at most 8, so 2^20 is safe up to 7
// levels; an inverse level on arbitrary coefficients multiplies by at most 2.5^2 < 2^3.
func ampForward(levels int) int {
	if levels >= 8 {
		return 1 << 18
	}
	return 1 << 20
}
func ampInverseArbitrary(levels int) int {
	e := 27 - 3*levels
	if e > 20 {
		e = 20
	}
	if e < 2 {
		e = 2
	}
	return 1 << e
}

func dwtML(c *Ctx) {
	rng := c.Rng.Fork()
	var cases []caseML
	mk := func(w, h, levels, x0, y0, cl int, dist string) {
		k := caseML{w: w, h: h, levels: levels, x0: x0, y0: y0, dist: dist}
		k.data = fill(rng, w*h, ampForward(levels), cl)
		k.arb = fill(rng, w*h, ampInverseArbitrary(levels), cl+1)
		cases = append(cases, k)
	}
	cl := 0
	if c.Thor {
		// all sizes 1..12 x 1..12, all levels 0..8, all origins 0..7 x 0..7
		for w := 1; w <= 12; w++ {
			for h := 1; h <= 12; h++ {
				for lv := 0; lv <= 8; lv++ {
					for o := 0; o < 64; o++ {
						mk(w, h, lv, o&7, o>>3, cl, "dwtml.size.1-12")
						cl++
					}
				}
			}
		}
	} else {
		// all sizes 1..12 x 1..12; the 9 x 64 (levels, origin) combinations are spread over the
		// sizes so that each occurs, plus random ones
		o := 0
		for w := 1; w <= 12; w++ {
			for h := 1; h <= 12; h++ {
				for r := 0; r < 4; r++ {
					mk(w, h, o%9, (o/9)&7, (o/72)&7, cl, "dwtml.size.1-12")
					o++
					cl++
				}
				for r := 0; r < 4; r++ {
					mk(w, h, rng.Range(0, 8), rng.Range(0, 7), rng.Range(0, 7), cl, "dwtml.size.1-12")
					cl++
				}
			}
		}
	}
	maxS := c.N(64, 257)
	for i := 0; i < c.N(120, 400); i++ {
		w, h := rng.Range(1, maxS), rng.Range(1, maxS)
		switch i % 8 {
		case 0:
			w = rng.Pick(1, 2, 3, maxS)
		case 1:
			h = rng.Pick(1, 2, 3, maxS)
		case 2:
			w, h = maxS, maxS
		}
		mk(w, h, rng.Range(0, 8), rng.Range(0, 7), rng.Range(0, 7), rng.Intn(6), fmt.Sprintf("dwtml.size.le%d", (max(w, h)+63)/64*64))
	}
	ParallelFor(len(cases), c.Work, func(i int) { runML(c, cases[i], i == 300) })
}

// ---------------------------------------------------------------------------------------
// panic classes (outside the property's domain; correspondence of the outcome class only)

func dwtPanicClass(c *Ctx) {
	cls := func(p bool, d []int32) string {
		if p {
			return "panic"
		}
		return Ints32(d)
	}
	// the empty signal: even=true returns, even=false indexes out of range
	for _, even := range []bool{true, false} {
		var e []int32
		p, _ := Safely(func() { wavelet.Forward53_1DWithParity(e, even) })
		c.CorrEq("dwt_class", fmt.Sprintf("dwt:1d:even=%d:len=0:fwd", i01(even)), c.M.Call("dwt_fwd1d", b01(even), "_"), cls(p, e), "empty")
		p, _ = Safely(func() { wavelet.Inverse53_1DWithParity(e, even) })
		c.CorrEq("dwt_class", fmt.Sprintf("dwt:1d:even=%d:len=0:inv", i01(even)), c.M.Call("dwt_inv1d", b01(even), "_"), cls(p, e), "empty")
	}
	// buffer one sample too short for the window
	for _, wh := range [][2]int{{2, 1}, {1, 2}, {3, 3}, {5, 2}} {
		w, h := wh[0], wh[1]
		stride := w + 1
		d := make([]int32, (h-1)*stride+w-1)
		a := []string{fmt.Sprint(w), fmt.Sprint(h), fmt.Sprint(stride), "1", "1", Ints32(d)}
		mf := c.M.Call("dwt_fwd2d", a...)
		mi := c.M.Call("dwt_inv2d", a...)
		p, _ := Safely(func() { wavelet.Forward53_2DWithParity(clone(d), w, h, stride, true, true) })
		c.CorrEq("dwt_class", fmt.Sprintf("dwt:2d:short:w=%d:h=%d:fwd", w, h), mf, cls(p, nil), a)
		p, _ = Safely(func() { wavelet.Inverse53_2DWithParity(clone(d), w, h, stride, true, true) })
		c.CorrEq("dwt_class", fmt.Sprintf("dwt:2d:short:w=%d:h=%d:inv", w, h), mi, cls(p, nil), a)
	}
}
