// Package contract: suites for C10 (codec contract over histories) and C18 (safe for
// concurrent use). workload.go: the 14 registered transfer syntaxes, their supported
// FrameInfo domain, frame generators and the Encode/Decode call wrappers. It is also used by
// cmd/vrace (the race-detector child process), so it depends on nothing but the codecs.
package contract

import (
	"crypto/sha256"
	"fmt"

	rcodec "github.com/cocosip/go-dicom-codecs/codec"
	"github.com/cocosip/go-dicom-codecs/jpeg/baseline"
	"github.com/cocosip/go-dicom-codecs/jpeg/extended"
	jlossless "github.com/cocosip/go-dicom-codecs/jpeg/lossless"
	"github.com/cocosip/go-dicom-codecs/jpeg/lossless14sv1"
	"github.com/cocosip/go-dicom-codecs/jpeg2000/htj2k"
	j2klossless "github.com/cocosip/go-dicom-codecs/jpeg2000/lossless"
	j2klossy "github.com/cocosip/go-dicom-codecs/jpeg2000/lossy"
	jlsl "github.com/cocosip/go-dicom-codecs/jpegls/lossless"
	jlsn "github.com/cocosip/go-dicom-codecs/jpegls/nearlossless"
	"github.com/cocosip/go-dicom-codecs/rle"
	"github.com/cocosip/go-dicom/pkg/dicom/transfer"
	"github.com/cocosip/go-dicom/pkg/imaging/codec"
	"github.com/cocosip/go-dicom/pkg/imaging/imagetypes"
)

// TS describes one registered transfer syntax and the FrameInfo domain the property quantifies
// over for it ("within the syntax's supported precision").
type TS struct {
	Short    string // ".50", "RLE", ...
	Syntax   *transfer.Syntax
	Lossless bool
	RLE      bool
	MinBits  int // BitsStored range supported by the codec
	MaxBits  int
	// Color16: 3 samples per pixel allowed with BitsAllocated 16 (jpeg/extended's 12-bit path
	// is single component)
	Color16 bool
	// Fresh builds a new codec object the way the package's init() does (for "history on the
	// registry object vs a fresh object").
	Fresh func() codec.Codec
}

// AllTS lists the 14 registered transfer syntaxes.
func AllTS() []TS {
	return []TS{
		{"RLE", transfer.RLELossless, true, true, 2, 16, true, func() codec.Codec { return rle.NewRLECodec() }},
		{".50", transfer.JPEGBaseline8Bit, false, false, 2, 8, true, func() codec.Codec { return baseline.NewBaselineCodec(90) }},
		{".51", transfer.JPEGProcess2_4, false, false, 2, 12, false, func() codec.Codec { return extended.NewExtendedCodec(12, 90) }},
		{".57", transfer.JPEGLossless, true, false, 2, 16, true, func() codec.Codec { return jlossless.NewLosslessCodec(0) }},
		{".70", transfer.JPEGLosslessSV1, true, false, 2, 16, true, func() codec.Codec { return lossless14sv1.NewLosslessSV1Codec() }},
		{".80", transfer.JPEGLSLossless, true, false, 2, 16, true, func() codec.Codec { return jlsl.NewJPEGLSLosslessCodec() }},
		{".81", transfer.JPEGLSNearLossless, false, false, 2, 16, true, func() codec.Codec { return jlsn.NewJPEGLSNearLosslessCodec(3) }},
		{".90", transfer.JPEG2000Lossless, true, false, 2, 16, true, func() codec.Codec { return j2klossless.NewCodec() }},
		{".91", transfer.JPEG2000Lossy, false, false, 2, 16, true, func() codec.Codec { return j2klossy.NewCodec() }},
		{".92", transfer.JPEG2000Part2MultiComponentLosslessOnly, true, false, 2, 16, true, func() codec.Codec { return j2klossless.NewPart2MultiComponentLosslessCodec() }},
		{".93", transfer.JPEG2000Part2MultiComponent, false, false, 2, 16, true, func() codec.Codec { return j2klossy.NewPart2MultiComponentCodec() }},
		{".201", transfer.HTJ2KLossless, true, false, 2, 16, true, func() codec.Codec { return htj2k.NewLosslessCodec() }},
		{".202", transfer.HTJ2KLosslessRPCL, true, false, 2, 16, true, func() codec.Codec { return htj2k.NewLosslessRPCLCodec() }},
		{".203", transfer.HTJ2K, false, false, 2, 16, true, func() codec.Codec { return htj2k.NewCodec(80) }},
	}
}

// Registry returns the codec instance registered in the global registry for ts.
func Registry(ts TS) (codec.Codec, error) {
	c, ok := codec.GetGlobalRegistry().GetCodec(ts.Syntax)
	if !ok {
		return nil, fmt.Errorf("no codec registered for %s", ts.Short)
	}
	return c, nil
}

// Geometry of one image sequence.
type Geo struct {
	W, H, SPP, BitsAllocated, BitsStored int
}

func (g Geo) String() string {
	return fmt.Sprintf("%dx%dx%d/%d:%d", g.W, g.H, g.SPP, g.BitsAllocated, g.BitsStored)
}

func (g Geo) FrameInfo() *imagetypes.FrameInfo {
	pi := "MONOCHROME2"
	if g.SPP == 3 {
		pi = "RGB"
	}
	return &imagetypes.FrameInfo{
		Width: uint16(g.W), Height: uint16(g.H),
		BitsAllocated: uint16(g.BitsAllocated), BitsStored: uint16(g.BitsStored), HighBit: uint16(g.BitsStored - 1),
		SamplesPerPixel: uint16(g.SPP), PixelRepresentation: 0, PlanarConfiguration: 0,
		PhotometricInterpretation: pi,
	}
}

// FrameBytes is Rows x Columns x SamplesPerPixel x ceil(BitsAllocated/8).
func (g Geo) FrameBytes() int { return g.W * g.H * g.SPP * ((g.BitsAllocated + 7) / 8) }

// DecodedBytes is the length the property requires of every decoded frame.
func (g Geo) DecodedBytes(ts TS) int {
	n := g.FrameBytes()
	if ts.RLE && n%2 == 1 {
		n++
	}
	return n
}

// Supported reports whether g is inside the property's quantifier for ts.
func (g Geo) Supported(ts TS) bool {
	if g.BitsStored < ts.MinBits || g.BitsStored > ts.MaxBits || g.BitsStored > g.BitsAllocated || g.BitsStored < 2 {
		return false
	}
	if g.BitsAllocated == 16 && g.SPP == 3 && !ts.Color16 {
		return false
	}
	if g.BitsAllocated == 8 && g.BitsStored > 8 {
		return false
	}
	return true
}

// U64 is the random source the generators need (vhlib.Rand satisfies it).
type U64 interface{ U64() uint64 }

func intn(r U64, n int) int {
	if n <= 1 {
		return 0
	}
	return int(r.U64() % uint64(n))
}

// GenFrame makes one frame of class cls: 0 noise, 1 smooth gradient, 2 constant, 3 all-max,
// 4 all-zero, 5 checkerboard of extremes. Sample values stay below 2^BitsStored.
func GenFrame(r U64, g Geo, cls int) []byte {
	maxv := (1 << g.BitsStored) - 1
	bps := (g.BitsAllocated + 7) / 8
	out := make([]byte, g.FrameBytes())
	k := intn(r, maxv+1)
	ox, oy := intn(r, 7), intn(r, 5)
	for y := 0; y < g.H; y++ {
		for x := 0; x < g.W; x++ {
			for c := 0; c < g.SPP; c++ {
				var v int
				switch cls {
				case 0:
					v = intn(r, maxv+1)
				case 1:
					v = ((x+ox)*(3+c) + (y+oy)*5 + c*17 + k) % (maxv + 1)
				case 2:
					v = k
				case 3:
					v = maxv
				case 4:
					v = 0
				default:
					if (x+y+c)%2 == 0 {
						v = maxv
					}
				}
				i := ((y*g.W+x)*g.SPP + c) * bps
				out[i] = byte(v)
				if bps == 2 {
					out[i+1] = byte(v >> 8)
				}
			}
		}
	}
	return out
}

// GenSkewedFrame fills the frame, in raster order, with a walk whose successive differences
// have Fibonacci-skewed size categories (category P and P-1 once, P-2 twice, ... category 0
// most often; P = BitsStored): the histogram that gives the rare large differences the longest
// entropy codes (JPEG lossless code lengths up to the 16-bit limit, long Golomb codes, deep
// bit-plane counts). The multiset is padded with zero differences up to the frame size and shuffled.
func GenSkewedFrame(r U64, g Geo) []byte {
	P := g.BitsStored
	maxv := (1 << P) - 1
	fib := make([]int, P+2)
	fib[0], fib[1] = 1, 1
	for i := 2; i < len(fib); i++ {
		fib[i] = fib[i-1] + fib[i-2]
	}
	var cats []int
	for c := 0; c <= P; c++ {
		for j := 0; j < fib[P-c]; j++ {
			cats = append(cats, c)
		}
	}
	n := g.W * g.H * g.SPP
	for len(cats) < n { // larger frames: pad with zero differences, keeping the ladder exact
		cats = append(cats, 0)
	}
	for i := len(cats) - 1; i > 0; i-- {
		j := intn(r, i+1)
		cats[i], cats[j] = cats[j], cats[i]
	}
	bps := (g.BitsAllocated + 7) / 8
	out := make([]byte, g.FrameBytes())
	vals := make([]int, n)
	for i := 0; i < n; i++ {
		// the sample this one is predicted from by a first-order (left neighbour) predictor:
		// left in the row, the sample above in the first column, mid-range at the origin
		pix, c := i/g.SPP, i%g.SPP
		row, col := pix/g.W, pix%g.W
		x := 1 << (P - 1)
		if col > 0 {
			x = vals[(pix-1)*g.SPP+c]
		} else if row > 0 {
			x = vals[(pix-g.W)*g.SPP+c]
		}
		cat := cats[i]
		d := 0
		if cat > 0 {
			lo := 1 << (cat - 1)
			d = lo + intn(r, lo)
			if cat == P {
				d = lo
			}
		}
		up := intn(r, 2) == 0
		switch {
		case up && x+d <= maxv:
			x += d
		case x-d >= 0:
			x -= d
		case x+d <= maxv:
			x += d
		default: // cannot step that far from here: go to the nearer end
			if x > maxv/2 {
				x = 0
			} else {
				x = maxv
			}
		}
		vals[i] = x
		o := i * bps
		out[o] = byte(x)
		if bps == 2 {
			out[o+1] = byte(x >> 8)
		}
	}
	return out
}

// PD builds a TestPixelData holding the given frames (the slices themselves, not copies:
// the input-unmodified check hashes them around the call).
func PD(g Geo, frames [][]byte) *rcodec.TestPixelData {
	pd := rcodec.NewTestPixelData(g.FrameInfo())
	for _, f := range frames {
		_ = pd.AddFrame(f)
	}
	return pd
}

// Frames reads all frames out of a pixel data object.
func Frames(pd *rcodec.TestPixelData) [][]byte {
	out := make([][]byte, pd.FrameCount())
	for i := range out {
		out[i], _ = pd.GetFrame(i)
	}
	return out
}

// Encode runs c.Encode on frames; panics are reported as errors.
func Encode(c codec.Codec, g Geo, frames [][]byte, p codec.Parameters) (out [][]byte, err error) {
	defer func() {
		if e := recover(); e != nil {
			err = fmt.Errorf("panic: %v", e)
		}
	}()
	dst := rcodec.NewTestPixelData(g.FrameInfo())
	if err := c.Encode(PD(g, frames), dst, p); err != nil {
		return Frames(dst), err
	}
	return Frames(dst), nil
}

// Decode runs c.Decode on encoded frames.
func Decode(c codec.Codec, g Geo, frames [][]byte, p codec.Parameters) (out [][]byte, err error) {
	defer func() {
		if e := recover(); e != nil {
			err = fmt.Errorf("panic: %v", e)
		}
	}()
	dst := rcodec.NewTestPixelData(g.FrameInfo())
	if err := c.Decode(PD(g, frames), dst, p); err != nil {
		return Frames(dst), err
	}
	return Frames(dst), nil
}

// Hash of a frame list (order sensitive).
func Hash(frames [][]byte) [32]byte {
	h := sha256.New()
	for _, f := range frames {
		var n [8]byte
		l := len(f)
		for i := 0; i < 8; i++ {
			n[i] = byte(l >> (8 * i))
		}
		h.Write(n[:])
		h.Write(f)
	}
	var out [32]byte
	copy(out[:], h.Sum(nil))
	return out
}

func EqualFrames(a, b [][]byte) bool {
	if len(a) != len(b) {
		return false
	}
	for i := range a {
		if string(a[i]) != string(b[i]) {
			return false
		}
	}
	return true
}

func CloneFrames(a [][]byte) [][]byte {
	out := make([][]byte, len(a))
	for i := range a {
		out[i] = append([]byte(nil), a[i]...)
	}
	return out
}
