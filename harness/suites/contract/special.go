package contract

// special.go: workloads for shared mutable state that is reached through a pointer and that no
// write-site fact sees.
//
//   (1) DefaultsCheck: parameter objects handed out by a codec's own GetDefaultParameters()
//       used as call arguments on frames whose stream-declared values differ; afterwards
//       Encode(nil), GetDefaultParameters() and earlier GetDefaultParameters() results must be
//       what a FRESH codec gives, and two results must not alias.
//   (2) SpecialGroups: "table-altering" streams (optional segments that make a decoder install
//       non-default state: JPEG-LS LSE preset parameters, other DQT/DHT, DRI, JPEG 2000
//       RGN/MCT/MCC/tiles/lossy quantisation, HT vs classic block coding) to be interleaved with
//       ordinary streams, sequentially (C10) and concurrently (C18, cmd/vrace). The decoded
//       content of an altering stream is irrelevant (garbage or an error is fine); only
//       "ordinary stream after/alongside X == ordinary stream alone" is checked.

import (
	"fmt"
	"reflect"

	"github.com/cocosip/go-dicom-codecs/jpeg/baseline"
	"github.com/cocosip/go-dicom-codecs/jpeg/extended"
	"github.com/cocosip/go-dicom-codecs/jpeg2000"
	"github.com/cocosip/go-dicom/pkg/imaging/codec"
)

// ---------- byte surgery on T.81 / T.87 streams ----------

type jseg struct {
	marker byte
	off    int // offset of 0xFF
	end    int // offset after the segment
}

// jpegHeaderSegments walks SOI .. SOS (SOS included, without the entropy-coded data).
func jpegHeaderSegments(b []byte) []jseg {
	var segs []jseg
	if len(b) < 4 || b[0] != 0xFF || b[1] != 0xD8 {
		return nil
	}
	i := 2
	for i+3 < len(b) && b[i] == 0xFF {
		m := b[i+1]
		l := int(b[i+2])<<8 | int(b[i+3])
		if l < 2 || i+2+l > len(b) {
			break
		}
		segs = append(segs, jseg{m, i, i + 2 + l})
		i += 2 + l
		if m == 0xDA {
			break
		}
	}
	return segs
}

func insertAt(b []byte, off int, seg []byte) []byte {
	out := make([]byte, 0, len(b)+len(seg))
	out = append(out, b[:off]...)
	out = append(out, seg...)
	return append(out, b[off:]...)
}

// InsertAfterMarker inserts seg after the first header segment with the given marker
// (after SOF55 = 0xF7 for LSE); before SOS when there is no such segment.
func InsertAfterMarker(b []byte, marker byte, seg []byte) []byte {
	segs := jpegHeaderSegments(b)
	for _, s := range segs {
		if s.marker == marker {
			return insertAt(b, s.end, seg)
		}
	}
	return InsertBeforeSOS(b, seg)
}

func InsertBeforeSOS(b []byte, seg []byte) []byte {
	for _, s := range jpegHeaderSegments(b) {
		if s.marker == 0xDA {
			return insertAt(b, s.off, seg)
		}
	}
	return append([]byte(nil), b...)
}

// LSE builds a JPEG-LS preset parameters segment (FF F8, ID 1).
func LSE(maxval, t1, t2, t3, reset int) []byte {
	w := func(v int) []byte { return []byte{byte(v >> 8), byte(v)} }
	out := []byte{0xFF, 0xF8, 0x00, 0x0D, 0x01}
	for _, v := range []int{maxval, t1, t2, t3, reset} {
		out = append(out, w(v)...)
	}
	return out
}

// DRI builds a restart interval definition.
func DRI(ri int) []byte { return []byte{0xFF, 0xDD, 0x00, 0x04, byte(ri >> 8), byte(ri)} }

// ---------- (2) table-altering streams ----------

// Special is one stream with the transfer syntax whose registry codec decodes it.
type Special struct {
	Name string
	Data []byte
}

// Group: ordinary streams and altering streams for the same decoder state (same codec, same
// sample precision).
type Group struct {
	TS       TS
	G        Geo
	Ordinary []Special
	Altering []Special
}

func encodeOne(c codec.Codec, g Geo, frame []byte, p codec.Parameters) []byte {
	out, err := Encode(c, g, [][]byte{append([]byte(nil), frame...)}, p)
	if err != nil || len(out) != 1 {
		return nil
	}
	return out[0]
}

func tsByShort(short string) TS {
	for _, ts := range AllTS() {
		if ts.Short == short {
			return ts
		}
	}
	panic("unknown transfer syntax " + short)
}

// SpecialGroups builds the groups. Every stream is made by a FRESH codec object (never the
// registry's), then altered by byte surgery where the encoders cannot produce the segment.
func SpecialGroups(rng U64) []Group {
	var groups []Group
	add := func(g Group) {
		var ord, alt []Special
		for _, s := range g.Ordinary {
			if len(s.Data) > 0 {
				ord = append(ord, s)
			}
		}
		for _, s := range g.Altering {
			if len(s.Data) > 0 {
				alt = append(alt, s)
			}
		}
		if len(ord) > 0 && len(alt) > 0 {
			g.Ordinary, g.Altering = ord, alt
			groups = append(groups, g)
		}
	}
	// default thresholds of T.87 C.2.4.1.1 for MAXVAL 255 / 4095: (3,7,21) / (18,67,276)
	type lsPrec struct {
		g          Geo
		maxval     int
		t1, t2, t3 int
	}
	lsPrecs := []lsPrec{
		{Geo{W: 11, H: 9, SPP: 1, BitsAllocated: 8, BitsStored: 8}, 255, 3, 7, 21},
		{Geo{W: 9, H: 8, SPP: 3, BitsAllocated: 8, BitsStored: 8}, 255, 3, 7, 21},
		{Geo{W: 10, H: 9, SPP: 1, BitsAllocated: 16, BitsStored: 12}, 4095, 18, 67, 276},
		{Geo{W: 8, H: 9, SPP: 1, BitsAllocated: 16, BitsStored: 16}, 65535, 18, 67, 276},
	}
	for _, short := range []string{".80", ".81"} {
		ts := tsByShort(short)
		for _, pr := range lsPrecs {
			c := ts.Fresh()
			o1 := encodeOne(c, pr.g, GenFrame(rng, pr.g, 1), nil)
			o2 := encodeOne(c, pr.g, GenFrame(rng, pr.g, 0), nil)
			if o1 == nil {
				continue
			}
			add(Group{TS: ts, G: pr.g,
				Ordinary: []Special{{"gradient", o1}, {"noise", o2}},
				Altering: []Special{
					{"lse-thresholds", InsertAfterMarker(o1, 0xF7, LSE(pr.maxval, pr.t1+1, pr.t2+2, pr.t3+4, 64))},
					{"lse-thresholds-big", InsertAfterMarker(o2, 0xF7, LSE(pr.maxval, pr.t1+2, pr.t2+9, pr.t3+30, 64))},
					{"lse-reset", InsertAfterMarker(o1, 0xF7, LSE(pr.maxval, pr.t1, pr.t2, pr.t3, 32))},
					{"lse-maxval", InsertAfterMarker(o1, 0xF7, LSE(pr.maxval/2, 0, 0, 0, 64))},
				}})
		}
	}
	// DCT JPEG: other quantisation / Huffman tables (another quality), restart interval
	{
		ts := tsByShort(".50")
		for _, g := range []Geo{{W: 17, H: 12, SPP: 1, BitsAllocated: 8, BitsStored: 8}, {W: 16, H: 9, SPP: 3, BitsAllocated: 8, BitsStored: 8}} {
			f1, f2 := GenFrame(rng, g, 1), GenFrame(rng, g, 0)
			o1 := encodeOne(ts.Fresh(), g, f1, nil)
			add(Group{TS: ts, G: g,
				Ordinary: []Special{{"q90-gradient", o1}, {"q90-noise", encodeOne(ts.Fresh(), g, f2, nil)}},
				Altering: []Special{
					{"q20-tables", encodeOne(baseline.NewBaselineCodec(20), g, f2, nil)},
					{"q100-tables", encodeOne(baseline.NewBaselineCodec(100), g, f1, nil)},
					{"dri", InsertBeforeSOS(o1, DRI(2))},
				}})
		}
	}
	{
		ts := tsByShort(".51")
		for _, g := range []Geo{{W: 17, H: 12, SPP: 1, BitsAllocated: 8, BitsStored: 8}, {W: 13, H: 10, SPP: 1, BitsAllocated: 16, BitsStored: 12}} {
			f1, f2 := GenFrame(rng, g, 1), GenFrame(rng, g, 0)
			o1 := encodeOne(ts.Fresh(), g, f1, nil)
			add(Group{TS: ts, G: g,
				Ordinary: []Special{{"q90-gradient", o1}, {"q90-noise", encodeOne(ts.Fresh(), g, f2, nil)}},
				Altering: []Special{
					{"q15-tables", encodeOne(extended.NewExtendedCodec(12, 15), g, f2, nil)},
					{"dri", InsertBeforeSOS(o1, DRI(3))},
				}})
		}
	}
	for _, short := range []string{".57", ".70"} {
		ts := tsByShort(short)
		for _, g := range []Geo{{W: 12, H: 9, SPP: 1, BitsAllocated: 8, BitsStored: 8}, {W: 9, H: 10, SPP: 1, BitsAllocated: 16, BitsStored: 12}} {
			f1, f2 := GenFrame(rng, g, 1), GenFrame(rng, g, 0)
			o1 := encodeOne(ts.Fresh(), g, f1, nil)
			g3 := Geo{W: g.W, H: g.H, SPP: 3, BitsAllocated: g.BitsAllocated, BitsStored: g.BitsStored}
			add(Group{TS: ts, G: g,
				Ordinary: []Special{{"gradient", o1}, {"noise", encodeOne(ts.Fresh(), g, f2, nil)}},
				Altering: []Special{
					{"dri", InsertBeforeSOS(o1, DRI(4))},
					{"three-components", encodeOne(ts.Fresh(), g3, GenFrame(rng, g3, 1), nil)},
					{"checkerboard", encodeOne(ts.Fresh(), g, GenFrame(rng, g, 5), nil)},
				}})
		}
	}
	// JPEG 2000 family: streams with RGN / MCT+MCC+MCO / tiles / irreversible quantisation /
	// HT block coding against plain ones, on the classic and on the HT codec objects
	{
		var alt []Special
		for _, cfg := range encoderConfigs() {
			p := cfg.mk()
			data, err := safeEncode(jpeg2000.NewEncoder(p), GenFrame(rng, geoOfParams(p), 1))
			if err == nil {
				alt = append(alt, Special{cfg.name, data})
			}
		}
		g := Geo{W: 14, H: 11, SPP: 1, BitsAllocated: 8, BitsStored: 8}
		for _, short := range []string{".90", ".91", ".201", ".203"} {
			ts := tsByShort(short)
			add(Group{TS: ts, G: g,
				Ordinary: []Special{{"codec-gradient", encodeOne(ts.Fresh(), g, GenFrame(rng, g, 1), nil)},
					{"codec-noise", encodeOne(ts.Fresh(), g, GenFrame(rng, g, 0), nil)}},
				Altering: alt})
		}
	}
	return groups
}

// DecodeSolo decodes one stream in a call of its own; the outcome is canonicalised to a string
// class plus the frames.
func DecodeSolo(c codec.Codec, g Geo, data []byte) (string, [][]byte) {
	out, err := Decode(c, g, [][]byte{append([]byte(nil), data...)}, nil)
	if err != nil {
		return "err", nil
	}
	return "ok", out
}

// ---------- (1) default parameter objects ----------

// Problem is one violated expectation of DefaultsCheck.
type Problem struct {
	Sig  string // signature suffix
	What string
}

var paramNames = []string{"near", "quality", "bitDepth", "predictor", "numLevels", "rate", "numLayers",
	"targetRatio", "blockWidth", "blockHeight", "irreversible", "allowMCT", "usePCRDOpt", "appendLosslessLayer"}

// altValue: another valid value of the same type.
func altValue(name string, v interface{}) (interface{}, bool) {
	switch x := v.(type) {
	case int:
		switch name {
		case "near":
			return 7 + x%2, true
		case "quality":
			return 35 + x%7, true
		case "bitDepth":
			if x == 8 {
				return 12, true
			}
			return 8, true
		case "predictor":
			return 1 + (x+1)%7, true
		case "numLevels":
			return 1 + (x+1)%3, true
		case "blockWidth", "blockHeight":
			if x == 32 {
				return 16, true
			}
			return 32, true
		default:
			return x + 3, true
		}
	case bool:
		return !x, true
	case float64:
		return x + 2.5, true
	case uint8:
		return x + 1, true
	}
	return nil, false
}

func snapshot(p codec.Parameters) map[string]interface{} {
	m := map[string]interface{}{}
	if p == nil {
		return m
	}
	for _, n := range paramNames {
		if v := p.GetParameter(n); v != nil {
			m[n] = v
		}
	}
	return m
}

// DefaultsCheck runs the default-parameters scenario on codec object c (normally the registry's)
// against a fresh codec object of the same kind.
func DefaultsCheck(ts TS, c, fresh codec.Codec, rng U64) []Problem {
	var probs []Problem
	g := Geo{W: 10, H: 9, SPP: 1, BitsAllocated: 8, BitsStored: 8}
	frames := [][]byte{GenFrame(rng, g, 1), GenFrame(rng, g, 0)}
	want, errW := Encode(fresh, g, CloneFrames(frames), nil)
	freshDefaults := snapshot(fresh.GetDefaultParameters())

	early := c.GetDefaultParameters() // obtained before anything else happens; must stay a default object
	// a stream whose declared values differ from the defaults: coded by the FRESH codec with
	// its own, altered parameter object
	q := fresh.GetDefaultParameters()
	if q != nil {
		for n, v := range snapshot(q) {
			if a, ok := altValue(n, v); ok && n != "bitDepth" && n != "irreversible" {
				q.SetParameter(n, a)
			}
		}
	}
	other, errO := Encode(fresh, g, CloneFrames(frames), q)
	// the codec's own default object as the argument of calls on such frames
	arg := c.GetDefaultParameters()
	// (the frame with the differing values last: a codec that writes stream values back into
	// the argument must not be given the chance to write the default back afterwards)
	_, _ = Encode(c, g, CloneFrames(frames), arg)
	if errW == nil {
		_, _ = Decode(c, g, CloneFrames(want), arg)
	}
	if errO == nil {
		_, _ = Decode(c, g, CloneFrames(other), arg)
	}

	// 1. Encode(nil) on the used codec == Encode(nil) on a fresh codec
	got, errG := Encode(c, g, CloneFrames(frames), nil)
	if (errG == nil) != (errW == nil) || !EqualFrames(got, want) {
		probs = append(probs, Problem{"defaults-changed-by-call:encode-nil",
			"after Decode/Encode with the codec's own GetDefaultParameters() object on frames coded with other parameter values, Encode(nil) differs from a fresh codec's Encode(nil)"})
	}
	// 2. what GetDefaultParameters() reports now, and what the object obtained earlier holds
	if now := snapshot(c.GetDefaultParameters()); !reflect.DeepEqual(now, freshDefaults) {
		probs = append(probs, Problem{"defaults-changed-by-call:get-default-parameters",
			fmt.Sprintf("GetDefaultParameters() now reports %v, a fresh codec %v", now, freshDefaults)})
	}
	if e := snapshot(early); !reflect.DeepEqual(e, freshDefaults) {
		probs = append(probs, Problem{"defaults-changed-by-call:earlier-object",
			fmt.Sprintf("a GetDefaultParameters() result obtained before the calls now holds %v, a fresh codec's %v", e, freshDefaults)})
	}
	// 3. two results must not alias: change one, read the other
	a, b := c.GetDefaultParameters(), c.GetDefaultParameters()
	if a != nil && b != nil {
		before := snapshot(b)
		orig := snapshot(a)
		for n, v := range orig {
			if alt, ok := altValue(n, v); ok {
				a.SetParameter(n, alt)
			}
		}
		a.SetParameter("verif-custom-key", 1)
		aliased := !reflect.DeepEqual(snapshot(b), before) || b.GetParameter("verif-custom-key") != nil
		third := c.GetDefaultParameters()
		leaked := !reflect.DeepEqual(snapshot(third), before) || (third != nil && third.GetParameter("verif-custom-key") != nil)
		if aliased || leaked {
			probs = append(probs, Problem{"default-parameters-aliased",
				"changing one GetDefaultParameters() result changes another result of the same codec (they share storage)"})
		}
	}
	if len(probs) > 0 {
		// put the default values back so that one defect does not cascade through the rest of the run
		if d := c.GetDefaultParameters(); d != nil {
			for n, v := range freshDefaults {
				d.SetParameter(n, v)
			}
		}
	}
	return probs
}
