package contract

import (
	"bytes"
	"fmt"
	"reflect"
	"strconv"

	"github.com/cocosip/go-dicom-codecs/jpeg2000"
	"github.com/cocosip/go-dicom-codecs/jpeg2000/codestream"
	"github.com/cocosip/go-dicom-codecs/jpeg2000/htj2k"
	"github.com/cocosip/go-dicom-codecs/jpeg2000/t2"
	"github.com/cocosip/go-dicom/pkg/imaging/codec"
	. "verif/harness/vhlib"
)

// Register adds the contract suites.
func Register(s Suites) {
	s.Add("C10", runC10)
	s.Add("C18", runC18)
}

func runC10(c *Ctx) {
	c.R.Rule = "C10: all 14 registered syntaxes x FrameInfo (BitsAllocated 8/16, 1<BitsStored<=BitsAllocated within the " +
		"syntax's precision, SamplesPerPixel 1/3, sizes 5..24 quick / ..64 thorough) x frame sequences of length 1..8 " +
		"(random, permutation, sub-sequence, one frame repeated, two very different frames alternating); " +
		"one jpeg2000.Encoder per parameter set over 3..6 unrelated images; one jpeg2000.Decoder over all ordered pairs " +
		"and random sequences of streams with/without RCT, ICT, custom MCT (MCT/MCC/MCO), MCT bindings, ROI (RGN+COM), HTJ2K; " +
		"non-trivial = the sequence has a frame that is not constant"
	c10Codecs(c)
	c10Encoder(c)
	c10Decoder(c)
	c10Defaults(c)
	c10Special(c) // last: a decoder that keeps what an altering stream installed spoils everything after it
}

// c10Defaults: the codec's own GetDefaultParameters() objects as call arguments (special.go).
func c10Defaults(c *Ctx) {
	rng := c.Rng.Fork()
	for _, ts := range AllTS() {
		reg, err := Registry(ts)
		if err != nil {
			continue
		}
		c.R.Case("c10:defaults:"+ts.Short, true, "c10.defaults")
		c.R.Oracle("c10_default_parameters")
		for _, p := range DefaultsCheck(ts, reg, ts.Fresh(), rng) {
			c.R.Fail("oracle", "c10_default_parameters", "c10:"+ts.Short+":"+p.Sig, p.What, map[string]interface{}{"ts": ts.Short})
		}
	}
}

// c10Special: ordinary streams decoded alone, then after (and in one call with) table-altering
// streams on the same registry codec: the ordinary results must not change.
func c10Special(c *Ctx) {
	rng := c.Rng.Fork()
	groups := SpecialGroups(rng)
	type solo struct {
		class string
		out   [][]byte
	}
	regs := make([]codecOf, len(groups))
	solos := make([][]solo, len(groups))
	// phase 1: every ordinary stream alone, before any altering stream has been seen by any decoder
	for gi, g := range groups {
		reg, err := Registry(g.TS)
		if err != nil {
			continue
		}
		regs[gi] = codecOf{reg}
		for _, o := range g.Ordinary {
			cl, out := DecodeSolo(reg, g.G, o.Data)
			solos[gi] = append(solos[gi], solo{cl, out})
		}
	}
	// phase 2
	for gi, g := range groups {
		if regs[gi].c == nil {
			continue
		}
		reg := regs[gi].c
		for _, x := range g.Altering {
			xc1, xo1 := DecodeSolo(reg, g.G, x.Data)
			for oi, o := range g.Ordinary {
				key := fmt.Sprintf("c10:special:%s:%s:%s:%s", g.TS.Short, g.G, x.Name, o.Name)
				c.R.Case(key, true, "c10.special."+g.TS.Short, "c10.special.kind."+x.Name)
				c.R.Oracle("c10_table_altering")
				info := map[string]interface{}{"ts": g.TS.Short, "geometry": g.G.String(), "altering": x.Name, "altering_stream": Hex(x.Data), "ordinary": o.Name, "ordinary_stream": Hex(o.Data)}
				cl, out := DecodeSolo(reg, g.G, o.Data)
				if cl != solos[gi][oi].class || !EqualFrames(out, solos[gi][oi].out) {
					c.R.Fail("oracle", "c10_table_altering", "c10:"+g.TS.Short+":history:table-altering:"+x.Name,
						fmt.Sprintf("ordinary stream %q decodes differently (%s) after the stream %q than alone (%s)", o.Name, cl, x.Name, solos[gi][oi].class), info)
				}
				// one call, three frames: ordinary, altering, ordinary
				multi, err := Decode(reg, g.G, [][]byte{append([]byte(nil), o.Data...), append([]byte(nil), x.Data...), append([]byte(nil), o.Data...)}, nil)
				if solos[gi][oi].class == "ok" {
					for _, k := range []int{0, 2} {
						if k < len(multi) && !bytes.Equal(multi[k], solos[gi][oi].out[0]) {
							c.R.Fail("oracle", "c10_table_altering", "c10:"+g.TS.Short+":frame-independence:table-altering:"+x.Name,
								fmt.Sprintf("frame %d (ordinary %q) of a 3-frame Decode with the stream %q in the middle differs from the frame decoded alone", k, o.Name, x.Name), info)
							break
						}
					}
					if err == nil && len(multi) != 3 {
						c.R.Fail("oracle", "c10_count_order", "c10:"+g.TS.Short+":decode-frame-count", "3 encoded frames, other number decoded", info)
					}
				}
			}
			// the altering stream itself is deterministic too
			xc2, xo2 := DecodeSolo(reg, g.G, x.Data)
			if xc1 != xc2 || !EqualFrames(xo1, xo2) {
				c.R.Fail("oracle", "c10_repeat", "c10:"+g.TS.Short+":nondeterministic:table-altering:"+x.Name, "the same stream decodes differently the second time",
					map[string]interface{}{"ts": g.TS.Short, "stream": Hex(x.Data)})
			}
		}
	}
}

type codecOf struct{ c codec.Codec }

// ---------------------------------------------------------------------------------------
// registry codecs: one output per input, in order, frame i from frame i only, inputs untouched,
// decoded length, lossless equality, repeated calls, registry object vs a fresh object.

type c10Case struct {
	ts  TS
	g   Geo
	rng *Rand
}

func c10Codecs(c *Ctx) {
	rng := c.Rng.Fork()
	maxEdge := c.N(24, 64)
	perTS := c.N(5, 24)
	var cases []c10Case
	for _, ts := range AllTS() {
		n := 0
		for try := 0; n < perTS && try < 400; try++ {
			g := Geo{W: rng.Range(5, maxEdge), H: rng.Range(5, maxEdge), SPP: rng.Pick(1, 3), BitsAllocated: rng.Pick(8, 16)}
			g.BitsStored = rng.Range(2, g.BitsAllocated)
			if rng.Intn(3) == 0 {
				g.BitsStored = g.BitsAllocated
			}
			switch n % 5 { // make sure every class of the quantifier occurs for every syntax
			case 0:
				g.SPP, g.BitsAllocated, g.BitsStored = 1, 8, rng.Pick(8, 8, rng.Range(2, 8))
			case 1:
				g.SPP, g.BitsAllocated, g.BitsStored = 3, 8, rng.Pick(8, 8, rng.Range(2, 8))
			case 2:
				g.SPP, g.BitsAllocated, g.BitsStored = 1, 16, rng.Pick(16, 12, rng.Range(9, 16))
			case 3:
				g.SPP, g.BitsAllocated, g.BitsStored = 3, 16, rng.Pick(16, 12, rng.Range(9, 16))
			case 4:
				g.BitsAllocated, g.BitsStored = 16, rng.Range(2, 8) // 16 allocated, at most 8 stored
			}
			if g.BitsStored > ts.MaxBits {
				g.BitsStored = ts.MaxBits
			}
			if !g.Supported(ts) {
				if !ts.Color16 || ts.MaxBits <= 8 {
					n++ // class does not exist for this syntax
				}
				continue
			}
			cases = append(cases, c10Case{ts, g, rng.Fork()})
			n++
		}
		// one larger deep-sample geometry per syntax (frames with Fibonacci-skewed difference
		// categories need a few thousand samples to contain every category)
		g := Geo{W: 100, H: 68, SPP: 1, BitsAllocated: 16, BitsStored: 16}
		if g.BitsStored > ts.MaxBits {
			g.BitsStored = ts.MaxBits
		}
		if g.BitsStored <= 8 {
			g.BitsAllocated = 8
		}
		if g.Supported(ts) {
			cases = append(cases, c10Case{ts, g, rng.Fork()})
		}
	}
	ParallelFor(len(cases), c.Work, func(i int) { c10OneGeometry(c, cases[i], i == 0) })
}

func seqKey(ts TS, g Geo, pool [][]byte, seq []int) string {
	var fs [][]byte
	for _, k := range seq {
		fs = append(fs, pool[k])
	}
	h := Hash(fs)
	return fmt.Sprintf("c10:%s:%s:%x", ts.Short, g, h[:8])
}

func c10OneGeometry(c *Ctx, k c10Case, sample bool) {
	ts, g, rng := k.ts, k.g, k.rng
	reg, err := Registry(ts)
	if err != nil {
		c.R.Fail("oracle", "c10_registry", "c10:"+ts.Short+":not-registered", err.Error(), nil)
		return
	}
	cls := ""
	if g.BitsAllocated == 16 && g.BitsStored <= 8 {
		cls = ":alloc16-stored<=8"
	}
	in := func(extra map[string]interface{}) map[string]interface{} {
		m := map[string]interface{}{"ts": ts.Short, "geometry": g.String()}
		for a, b := range extra {
			m[a] = b
		}
		return m
	}
	// pool of frames: noise, gradients, constant, all-max, all-zero, checkerboard
	classes := []int{0, 1, 0, 1, 2, 3, 4, 5}
	pool := make([][]byte, len(classes))
	for i, cl := range classes {
		pool[i] = GenFrame(rng, g, cl)
	}
	if g.BitsStored < g.BitsAllocated && g.BitsAllocated == 16 {
		// frames whose unused high bits are not zero (overlay planes / garbage above BitsStored):
		// only "the caller's buffer is left unmodified" is asserted for them
		f := GenFrame(rng, g, 0)
		hi := byte(0xff) << uint(maxInt(0, g.BitsStored-8))
		if g.BitsStored < 8 {
			hi = 0xff
		}
		for i := 1; i < len(f); i += 2 {
			f[i] |= byte(rng.Intn(256)) & hi
		}
		before := append([]byte(nil), f...)
		c.R.Oracle("c10_input_unmodified")
		_, _ = Encode(reg, g, [][]byte{f}, nil)
		if !bytes.Equal(before, f) {
			c.R.Fail("oracle", "c10_input_unmodified", "c10:"+ts.Short+":input-modified:high-bits", "Encode changed the caller's frame buffer (frame with non-zero bits above BitsStored)", in(map[string]interface{}{"frame": Hex(before)}))
		}
	}
	if g.W*g.H*g.SPP >= 2000 { // the dedicated large geometry: skewed difference categories
		pool[2], pool[3] = GenSkewedFrame(rng, g), GenSkewedFrame(rng, g)
	}
	// every frame alone: one call, one frame, fresh destination
	encAlone := make([][]byte, len(pool))
	decAlone := make([][]byte, len(pool))
	for i := range pool {
		out, err := Encode(reg, g, [][]byte{pool[i]}, nil)
		if err != nil || len(out) != 1 {
			// not a C10 matter by itself (C17/C0x own the per-frame function), but it must be stable
			_, err2 := Encode(reg, g, [][]byte{pool[i]}, nil)
			c.R.Case(seqKey(ts, g, pool, []int{i}), false, "c10.encode-error."+ts.Short)
			if (err == nil) != (err2 == nil) {
				c.R.Fail("oracle", "c10_repeat", "c10:"+ts.Short+":nondeterministic", "Encode of one frame fails on one call and succeeds on the next", in(map[string]interface{}{"frame": Hex(pool[i])}))
			}
			return
		}
		encAlone[i] = out[0]
		// (the codec only ever gets private copies of reference data: a codec that scribbles on
		// its input must fail the input-unmodified check and nothing else)
		d, err := Decode(reg, g, CloneFrames([][]byte{out[0]}), nil)
		if err != nil || len(d) != 1 {
			c.R.Case(seqKey(ts, g, pool, []int{i}), false, "c10.decode-error."+ts.Short)
			if ts.Lossless {
				c.R.Oracle("c10_lossless")
				c.R.Fail("oracle", "c10_lossless", "c10:"+ts.Short+":lossless-mismatch"+cls, fmt.Sprintf("decoder rejects the codec's own stream: %v", err), in(map[string]interface{}{"frame": Hex(pool[i])}))
			}
			return
		}
		decAlone[i] = d[0]
	}
	// correspondence: the size formula of the Coq model (CtrFrames.decoded_len / rle_decoded_len)
	// against the length the implementation produces
	{
		rle01 := "0"
		if ts.RLE {
			rle01 = "1"
		}
		var reply string
		if c.HasModel() {
			reply = c.M.Call("ctr_len", strconv.Itoa(g.H), strconv.Itoa(g.W), strconv.Itoa(g.SPP), strconv.Itoa(g.BitsAllocated), rle01)
		}
		c.CorrEq("c10_decoded_len", "c10:"+ts.Short+":decoded-length"+cls, reply, strconv.Itoa(len(decAlone[0])), in(nil))
	}
	// the sequences of the quantifier
	var seqs [][]int
	var kinds []string
	add := func(kind string, s []int) { seqs = append(seqs, s); kinds = append(kinds, kind) }
	nSeq := c.N(2, 6)
	for r := 0; r < nSeq; r++ {
		n := rng.Range(1, 8)
		perm := make([]int, len(pool))
		for i := range perm {
			perm[i] = i
		}
		for i := len(perm) - 1; i > 0; i-- {
			j := rng.Intn(i + 1)
			perm[i], perm[j] = perm[j], perm[i]
		}
		base := append([]int(nil), perm[:n]...)
		add("random", base)
		p2 := append([]int(nil), base...)
		for i := len(p2) - 1; i > 0; i-- {
			j := rng.Intn(i + 1)
			p2[i], p2[j] = p2[j], p2[i]
		}
		add("permutation", p2)
		var sub []int
		for _, x := range base {
			if rng.Bool() {
				sub = append(sub, x)
			}
		}
		if len(sub) == 0 {
			sub = base[:1]
		}
		add("subsequence", sub)
		rep := make([]int, rng.Range(2, 8))
		x := rng.Intn(len(pool))
		for i := range rep {
			rep[i] = x
		}
		add("repeated", rep)
		alt := make([]int, rng.Range(2, 8))
		a, b := rng.Pick(5, 6), rng.Pick(0, 7) // all-max/all-zero against noise/checkerboard
		if rng.Bool() {
			a, b = 5, 6
		}
		for i := range alt {
			if i%2 == 0 {
				alt[i] = a
			} else {
				alt[i] = b
			}
		}
		add("alternating", alt)
	}
	fresh := ts.Fresh()
	for si, seq := range seqs {
		kind := kinds[si]
		frames := make([][]byte, len(seq))
		nontrivial := false
		for i, x := range seq {
			frames[i] = pool[x]
			if classes[x] != 2 && classes[x] != 3 && classes[x] != 4 {
				nontrivial = true
			}
		}
		c.R.Case(seqKey(ts, g, pool, seq), nontrivial, "c10.ts."+ts.Short, "c10.seq."+kind, fmt.Sprintf("c10.len.%d", len(seq)),
			fmt.Sprintf("c10.bits.%d.spp.%d", g.BitsAllocated, g.SPP), fmt.Sprintf("c10.stored.%d", g.BitsStored))
		if sample && si == 0 {
			c.R.Sample(in(map[string]interface{}{"suite": "c10_codecs", "sequence": seq, "kind": kind}))
		}
		info := in(map[string]interface{}{"sequence": seq, "kind": kind, "pool_classes": classes, "seed_note": "frames regenerated from the run seed"})
		before := Hash(frames)
		given := CloneFrames(frames)
		out, err := Encode(reg, g, given, nil)
		c.R.Oracle("c10_count_order")
		if err != nil {
			c.R.Fail("oracle", "c10_count_order", "c10:"+ts.Short+":multi-frame-error", fmt.Sprintf("every frame encodes alone but the %d-frame call fails: %v", len(seq), err), info)
			continue
		}
		if len(out) != len(seq) {
			c.R.Fail("oracle", "c10_count_order", "c10:"+ts.Short+":frame-count", fmt.Sprintf("%d input frames, %d output frames", len(seq), len(out)), info)
			continue
		}
		c.R.Oracle("c10_input_unmodified")
		if Hash(given) != before {
			c.R.Fail("oracle", "c10_input_unmodified", "c10:"+ts.Short+":input-modified", "Encode changed the caller's frame buffers", info)
		}
		c.R.Oracle("c10_frame_independence")
		for i, x := range seq {
			if !bytes.Equal(out[i], encAlone[x]) {
				c.R.Fail("oracle", "c10_frame_independence", "c10:"+ts.Short+":frame-independence",
					fmt.Sprintf("output frame %d of the %d-frame call differs from the same frame encoded alone", i, len(seq)), info)
				break
			}
		}
		if kind == "random" || kind == "alternating" {
			c.R.Oracle("c10_repeat")
			out2, err2 := Encode(reg, g, CloneFrames(frames), nil)
			if err2 != nil || !EqualFrames(out, out2) {
				c.R.Fail("oracle", "c10_repeat", "c10:"+ts.Short+":nondeterministic", "two identical Encode calls give different outputs", info)
			}
			// the registry object has served every other case so far; a brand-new codec object must agree
			c.R.Oracle("c10_history")
			out3, err3 := Encode(fresh, g, CloneFrames(frames), nil)
			if err3 != nil || !EqualFrames(out, out3) {
				c.R.Fail("oracle", "c10_history", "c10:"+ts.Short+":history", "registry codec object and a fresh codec object give different outputs", info)
			}
			// equal parameter objects give equal outputs, and an already valid object is not changed
			p1, p2, p3 := reg.GetDefaultParameters(), reg.GetDefaultParameters(), reg.GetDefaultParameters()
			o1, e1 := Encode(reg, g, CloneFrames(frames), p1)
			o2, e2 := Encode(reg, g, CloneFrames(frames), p2)
			c.R.Oracle("c10_params")
			if (e1 == nil) != (e2 == nil) || !EqualFrames(o1, o2) {
				c.R.Fail("oracle", "c10_params", "c10:"+ts.Short+":nondeterministic", "two calls with equal default parameter objects give different outputs", info)
			}
			if !reflect.DeepEqual(p1, p3) {
				c.R.Fail("oracle", "c10_params", "c10:"+ts.Short+":parameters-modified", "Encode changed a default (already valid) parameters object", info)
			}
		}
		// decode the whole sequence
		encCopy := CloneFrames(out)
		dec, err := Decode(reg, g, encCopy, nil)
		c.R.Oracle("c10_decode_count_order")
		if err != nil || len(dec) != len(seq) {
			c.R.Fail("oracle", "c10_decode_count_order", "c10:"+ts.Short+":decode-frame-count", fmt.Sprintf("%d encoded frames, %d decoded frames, err=%v", len(seq), len(dec), err), info)
			continue
		}
		c.R.Oracle("c10_input_unmodified")
		if !EqualFrames(out, encCopy) {
			c.R.Fail("oracle", "c10_input_unmodified", "c10:"+ts.Short+":decode-input-modified", "Decode changed the caller's encoded buffers", info)
		}
		c.R.Oracle("c10_decoded_length")
		c.R.Oracle("c10_decode_frame_independence")
		for i, x := range seq {
			if len(dec[i]) != g.DecodedBytes(ts) {
				c.R.Fail("oracle", "c10_decoded_length", "c10:"+ts.Short+":decoded-length"+cls,
					fmt.Sprintf("decoded frame %d has %d bytes, want %d", i, len(dec[i]), g.DecodedBytes(ts)), info)
				break
			}
			if !bytes.Equal(dec[i], decAlone[x]) {
				c.R.Fail("oracle", "c10_decode_frame_independence", "c10:"+ts.Short+":decode-frame-independence",
					fmt.Sprintf("decoded frame %d differs from the same frame decoded alone", i), info)
				break
			}
		}
		if ts.Lossless {
			c.R.Oracle("c10_lossless")
			for i, x := range seq {
				n := g.FrameBytes()
				if len(dec[i]) < n || !bytes.Equal(dec[i][:n], pool[x]) {
					c.R.Fail("oracle", "c10_lossless", "c10:"+ts.Short+":lossless-mismatch"+cls,
						fmt.Sprintf("decoded frame %d differs from the source frame (class %d, %s)", i, classes[x], g), in(map[string]interface{}{"frame": Hex(pool[x]), "kind": kind}))
					break
				}
			}
		}
	}
}

// ---------------------------------------------------------------------------------------
// one jpeg2000.Encoder object over unrelated images vs a new encoder per image

type encCfg struct {
	name string
	mk   func() *jpeg2000.EncodeParams
}

func encoderConfigs() []encCfg {
	perm := [][]float64{{0, 1, 0}, {0, 0, 1}, {1, 0, 0}}
	inv := [][]float64{{0, 0, 1}, {1, 0, 0}, {0, 1, 0}}
	return []encCfg{
		{"gray8-lossless", func() *jpeg2000.EncodeParams { return jpeg2000.DefaultEncodeParams(20, 17, 1, 8, false) }},
		{"gray16-lossless", func() *jpeg2000.EncodeParams { return jpeg2000.DefaultEncodeParams(13, 22, 1, 16, false) }},
		{"gray12-signed", func() *jpeg2000.EncodeParams { return jpeg2000.DefaultEncodeParams(16, 16, 1, 12, true) }},
		{"rgb-rct", func() *jpeg2000.EncodeParams { return jpeg2000.DefaultEncodeParams(18, 15, 3, 8, false) }},
		{"rgb-no-mct", func() *jpeg2000.EncodeParams {
			p := jpeg2000.DefaultEncodeParams(18, 15, 3, 8, false)
			p.EnableMCT = false
			return p
		}},
		{"rgb-ict-lossy", func() *jpeg2000.EncodeParams {
			p := jpeg2000.DefaultEncodeParams(24, 24, 3, 8, false)
			p.Lossless = false
			p.Quality = 70
			return p
		}},
		{"gray-lossy-layers", func() *jpeg2000.EncodeParams {
			p := jpeg2000.DefaultEncodeParams(32, 32, 1, 8, false)
			p.Lossless = false
			p.NumLayers = 3
			p.TargetRatio = 4
			p.UsePCRDOpt = true
			return p
		}},
		{"rgb-custom-mct", func() *jpeg2000.EncodeParams {
			p := jpeg2000.DefaultEncodeParams(16, 16, 3, 8, false)
			p.NumLevels = 1
			p.MCTMatrix, p.InverseMCTMatrix, p.MCTReversible = perm, inv, true
			return p
		}},
		{"gray-roi", func() *jpeg2000.EncodeParams {
			p := jpeg2000.DefaultEncodeParams(16, 16, 1, 8, false)
			p.ROI = &jpeg2000.ROIParams{X0: 2, Y0: 3, Width: 8, Height: 7, Shift: 3}
			return p
		}},
		{"gray-tiled", func() *jpeg2000.EncodeParams {
			p := jpeg2000.DefaultEncodeParams(40, 24, 1, 8, false)
			p.TileWidth, p.TileHeight, p.NumLevels = 16, 16, 2
			return p
		}},
		{"htj2k-gray", func() *jpeg2000.EncodeParams {
			p := jpeg2000.DefaultEncodeParams(16, 16, 1, 8, false)
			p.NumLevels, p.HTJ2KMode, p.ProgressionOrder = 2, true, 2
			p.BlockEncoderFactory = func(w, h int) jpeg2000.BlockEncoder { return htj2k.NewHTEncoder(w, h) }
			return p
		}},
	}
}

func geoOfParams(p *jpeg2000.EncodeParams) Geo {
	ba := 8
	if p.BitDepth > 8 {
		ba = 16
	}
	return Geo{W: p.Width, H: p.Height, SPP: p.Components, BitsAllocated: ba, BitsStored: p.BitDepth}
}

func safeEncode(e *jpeg2000.Encoder, img []byte) (out []byte, err error) {
	defer func() {
		if r := recover(); r != nil {
			err = fmt.Errorf("panic: %v", r)
		}
	}()
	return e.Encode(img)
}

func c10Encoder(c *Ctx) {
	rng := c.Rng.Fork()
	c10EncoderParamsChanged(c, rng.Fork())
	cfgs := encoderConfigs()
	rounds := c.N(1, 6)
	for r := 0; r < rounds; r++ {
		for _, cfg := range cfgs {
			p := cfg.mk()
			g := geoOfParams(p)
			n := rng.Range(3, 6)
			imgs := make([][]byte, n)
			for i := range imgs {
				imgs[i] = GenFrame(rng, g, rng.Pick(0, 1, 1, 5, 2))
			}
			if r == 0 {
				imgs[0], imgs[1] = GenFrame(rng, g, 3), GenFrame(rng, g, 0) // very different neighbours
			}
			reused := jpeg2000.NewEncoder(p)
			for i, img := range imgs {
				h := Hash([][]byte{img})
				c.R.Case(fmt.Sprintf("c10:j2k-encoder:%s:%d:%x", cfg.name, i, h[:8]), true, "c10.encoder."+cfg.name)
				got, err := safeEncode(reused, img)
				pf := cfg.mk()
				want, err2 := safeEncode(jpeg2000.NewEncoder(pf), img)
				c.R.Oracle("c10_encoder_history")
				info := map[string]interface{}{"config": cfg.name, "call": i, "image": Hex(img)}
				if (err == nil) != (err2 == nil) || !bytes.Equal(got, want) {
					c.R.Fail("oracle", "c10_encoder_history", "c10:j2k-encoder:history:"+cfg.name,
						fmt.Sprintf("call %d on a reused Encoder differs from a new Encoder (errs %v / %v)", i, err, err2), info)
				}
				if Hash([][]byte{img}) != h {
					c.R.Fail("oracle", "c10_input_unmodified", "c10:j2k-encoder:input-modified", "Encoder.Encode changed the pixel buffer", info)
				}
				// the parameter object handed to NewEncoder is left as it was (compare without the func field)
				a, b := *p, *cfg.mk()
				a.BlockEncoderFactory, b.BlockEncoderFactory = nil, nil
				if !reflect.DeepEqual(a, b) {
					c.R.Fail("oracle", "c10_encoder_history", "c10:j2k-encoder:params-modified", "Encode changed the EncodeParams object", info)
				}
			}
		}
	}
}

// One Encoder object, images of different size / components / depth / mode in sequence: the only
// way to do that with the API is to change the EncodeParams the encoder was created with
// (NewEncoder keeps the caller's pointer). Each call is compared with a new encoder created
// with equal parameters.
func c10EncoderParamsChanged(c *Ctx, rng *Rand) {
	type change struct {
		name  string
		apply func(p *jpeg2000.EncodeParams)
	}
	changes := []change{
		{"size", func(p *jpeg2000.EncodeParams) { p.Width, p.Height = 24, 9 }},
		{"components", func(p *jpeg2000.EncodeParams) { p.Components = 3 }},
		{"bitdepth", func(p *jpeg2000.EncodeParams) { p.BitDepth = 12 }},
		{"levels", func(p *jpeg2000.EncodeParams) { p.NumLevels = 1 }},
		{"lossy", func(p *jpeg2000.EncodeParams) { p.Lossless, p.Quality = false, 60 }},
	}
	for _, ch := range changes {
		p := jpeg2000.DefaultEncodeParams(16, 16, 1, 8, false)
		p.NumLevels = 2
		e := jpeg2000.NewEncoder(p)
		first := GenFrame(rng, geoOfParams(p), 1)
		if _, err := safeEncode(e, first); err != nil {
			continue
		}
		ch.apply(p)
		g := geoOfParams(p)
		img := GenFrame(rng, g, 1)
		got, err := safeEncode(e, img)
		q := jpeg2000.DefaultEncodeParams(16, 16, 1, 8, false)
		q.NumLevels = 2
		ch.apply(q)
		want, err2 := safeEncode(jpeg2000.NewEncoder(q), img)
		c.R.Case("c10:j2k-encoder:params-changed:"+ch.name, true, "c10.encoder.params-changed")
		c.R.Oracle("c10_encoder_history")
		if (err == nil) != (err2 == nil) || !bytes.Equal(got, want) {
			c.R.Fail("oracle", "c10_encoder_history", "c10:j2k-encoder:history:params-changed:"+ch.name,
				fmt.Sprintf("Encode after an earlier Encode with other parameters (%s changed through the retained *EncodeParams) differs from a new Encoder with the same parameters (errs %v / %v, %d vs %d bytes)",
					ch.name, err, err2, len(got), len(want)),
				map[string]interface{}{"change": ch.name, "first_image": Hex(first), "image": Hex(img)})
		}
	}
}

// ---------------------------------------------------------------------------------------
// one jpeg2000.Decoder object over unrelated streams vs a new decoder per stream

type stream struct {
	class string
	data  []byte
	ht    bool
}

func decoderPool(c *Ctx, rng *Rand) []stream {
	var pool []stream
	for _, cfg := range encoderConfigs() {
		p := cfg.mk()
		g := geoOfParams(p)
		data, err := safeEncode(jpeg2000.NewEncoder(p), GenFrame(rng, g, 1))
		if err != nil {
			c.R.Note("c10 decoder pool: config %s does not encode: %v", cfg.name, err)
			continue
		}
		pool = append(pool, stream{cfg.name, data, p.HTJ2KMode})
	}
	// MCT bindings (MCT + MCC + MCO markers, per-binding matrices)
	{
		p := jpeg2000.DefaultEncodeParams(16, 16, 3, 8, false)
		p.NumLevels = 1
		p.MCTBindings = []jpeg2000.MCTBindingParams{{
			AssocType: 2, ComponentIDs: []uint16{0, 1, 2},
			Matrix:  [][]float64{{0, 1, 0}, {0, 0, 1}, {1, 0, 0}},
			Inverse: [][]float64{{0, 0, 1}, {1, 0, 0}, {0, 1, 0}},
			Offsets: []int32{3, 0, -2}, ElementType: 1,
		}}
		if data, err := safeEncode(jpeg2000.NewEncoder(p), GenFrame(rng, geoOfParams(p), 1)); err == nil {
			pool = append(pool, stream{"rgb-mct-bindings", data, false})
		} else {
			c.R.Note("c10 decoder pool: MCT bindings do not encode: %v", err)
		}
	}
	// ROIConfig (RGN + JP2ROI COM segment)
	{
		p := jpeg2000.DefaultEncodeParams(16, 16, 1, 8, false)
		for _, regionShift := range []int{4, 0} {
			p.ROIConfig = &jpeg2000.ROIConfig{DefaultShift: 4, ROIs: []jpeg2000.ROIRegion{{Shift: regionShift, Rect: &jpeg2000.ROIParams{X0: 4, Y0: 4, Width: 6, Height: 6, Shift: 4}}}}
			name := "gray-roiconfig"
			if regionShift == 0 {
				name = "gray-roiconfig-rectshift" // shift given on the rectangle only: the COM segment then carries shift 0
			}
			if data, err := safeEncode(jpeg2000.NewEncoder(p), GenFrame(rng, geoOfParams(p), 1)); err == nil {
				pool = append(pool, stream{name, data, false})
			} else {
				c.R.Note("c10 decoder pool: ROIConfig does not encode: %v", err)
			}
		}
	}
	return pool
}

type decResult struct {
	class string
	pix   []byte
	w, h  int
	comps int
}

func decodeOn(d *jpeg2000.Decoder, s stream) (res decResult) {
	defer func() {
		if r := recover(); r != nil {
			res = decResult{class: "panic"}
		}
	}()
	if err := d.Decode(append([]byte(nil), s.data...)); err != nil {
		return decResult{class: "err"}
	}
	return decResult{"ok", d.GetPixelData(), d.Width(), d.Height(), d.Components()}
}

func newDecoder() *jpeg2000.Decoder {
	d := jpeg2000.NewDecoder()
	// what the HTJ2K codec configures; harmless for Part-1 streams (only used when COD says HT)
	d.SetBlockDecoderFactory(func(w, h int, _ int) t2.BlockDecoder { return htj2k.NewHTDecoder(w, h) })
	return d
}

func sameResult(a, b decResult) bool {
	return a.class == b.class && a.w == b.w && a.h == b.h && a.comps == b.comps && bytes.Equal(a.pix, b.pix)
}

func markerSummary(data []byte) string {
	// private copy: the parser merges tile-parts in place (finding c10:j2k-decoder:input-modified)
	cs, err := codestream.NewParser(append([]byte(nil), data...)).Parse()
	if err != nil || cs == nil {
		return "unparsed"
	}
	return fmt.Sprintf("MCT=%d MCC=%d MCO=%d RGN=%d COM=%d", len(cs.MCT), len(cs.MCC), len(cs.MCO), len(cs.RGN), len(cs.COM))
}

func c10Decoder(c *Ctx) {
	rng := c.Rng.Fork()
	pool := decoderPool(c, rng)
	freshRes := make([]decResult, len(pool))
	for i, s := range pool {
		// Decoder.Decode must leave the caller's stream alone
		buf := append([]byte(nil), s.data...)
		func() {
			defer func() { _ = recover() }()
			_ = newDecoder().Decode(buf)
		}()
		c.R.Oracle("c10_input_unmodified")
		if !bytes.Equal(buf, s.data) {
			c.R.Fail("oracle", "c10_input_unmodified", "c10:j2k-decoder:input-modified:"+s.class, "Decoder.Decode changed the caller's codestream buffer",
				map[string]interface{}{"stream": Hex(s.data), "class": s.class})
		}
		freshRes[i] = decodeOn(newDecoder(), s)
		c.R.Note("c10 decoder pool: %s (%d bytes, %s) decodes on a fresh Decoder: %s", s.class, len(s.data), markerSummary(s.data), freshRes[i].class)
	}
	// every ordered pair: X then Y on one Decoder; Y's result against a fresh Decoder
	for i, x := range pool {
		for j, y := range pool {
			d := newDecoder()
			_ = decodeOn(d, x)
			got := decodeOn(d, y)
			c.R.Case(fmt.Sprintf("c10:j2k-decoder:pair:%s:%s", x.class, y.class), true, "c10.decoder.pairs")
			c.R.Oracle("c10_decoder_history")
			if !sameResult(got, freshRes[j]) {
				c.R.Fail("oracle", "c10_decoder_history", "c10:j2k-decoder:history:"+shortClass(x.class)+"-then-"+shortClass(y.class),
					fmt.Sprintf("Decode(%s) then Decode(%s) on one Decoder: second result (%s) differs from a fresh Decoder's (%s); first stream markers %s",
						x.class, y.class, got.class, freshRes[j].class, markerSummary(x.data)),
					map[string]interface{}{"first": Hex(x.data), "second": Hex(y.data), "first_class": x.class, "second_class": y.class})
			}
			_ = i
		}
	}
	// random longer histories
	n := c.N(40, 400)
	for r := 0; r < n; r++ {
		l := rng.Range(3, 7)
		d := newDecoder()
		var hist []string
		for k := 0; k < l; k++ {
			j := rng.Intn(len(pool))
			got := decodeOn(d, pool[j])
			hist = append(hist, pool[j].class)
			c.R.Case(fmt.Sprintf("c10:j2k-decoder:seq:%v", hist), true, "c10.decoder.sequences")
			c.R.Oracle("c10_decoder_history")
			if !sameResult(got, freshRes[j]) {
				prev := "none"
				if k > 0 {
					prev = hist[k-1]
				}
				c.R.Fail("oracle", "c10_decoder_history", "c10:j2k-decoder:history:"+shortClass(prev)+"-then-"+shortClass(pool[j].class),
					fmt.Sprintf("call %d of history %v differs from a fresh Decoder", k, hist), map[string]interface{}{"history": hist})
				break
			}
		}
	}
}

// shortClass maps pool classes to the coarse names used in finding signatures.
func shortClass(s string) string {
	switch s {
	case "rgb-custom-mct", "rgb-mct-bindings":
		return "mct"
	case "gray-roi", "gray-roiconfig", "gray-roiconfig-rectshift":
		return "roi"
	case "none":
		return "none"
	}
	return "plain"
}

func maxInt(a, b int) int {
	if a > b {
		return a
	}
	return b
}
