package contract

import (
	"bufio"
	"bytes"
	"fmt"
	"os"
	"os/exec"
	"path/filepath"
	"reflect"
	"regexp"
	"strconv"
	"strings"
	"time"

	"github.com/cocosip/go-dicom-codecs/jpeg2000/htj2k"
	. "verif/harness/vhlib"
)

const (
	harnessDir = "/verif/harness"
	vraceBin   = "/verif/.work/bin/vrace"
)

func runC18(c *Ctx) {
	c.R.Rule = "C18: 64 goroutines per pass on the 14 registry codec instances (encode and decode, own pixel data each), " +
		"GOMAXPROCS in {1,2,4,16} x parameters in {nil, per-call default, one shared GetDefaultParameters() object}, " +
		"randomised start offsets, built with -race; every result compared with the same call made alone; " +
		"non-trivial = every call (all images have gradient or noise content); plus in-process checks that default " +
		"parameter objects and the HTJ2K package tables are unchanged by a workload"
	c18Static(c)
	c18Race(c)
}

// c18Static: cheap dynamic cross-checks of the regenerated facts (CtrProofsFacts.v):
// an already valid parameters object is not changed by Encode/Decode, and the package-level
// tables that exported initialisers could rewrite are the same before and after a workload.
func c18Static(c *Ctx) {
	rng := c.Rng.Fork()
	tables := func() string {
		return fmt.Sprintf("%v|%v|%v|%v|%v|%v|%v", htj2k.VLCDecodeTbl0, htj2k.VLCDecodeTbl1, htj2k.VLCLookupTable0,
			htj2k.VLCLookupTable1, htj2k.UVLCTbl0, htj2k.UVLCTbl1, htj2k.UVLCBias)
	}
	before := tables()
	for _, ts := range AllTS() {
		reg, err := Registry(ts)
		if err != nil {
			c.R.Fail("oracle", "c18_registry", "c18:"+ts.Short+":not-registered", err.Error(), nil)
			continue
		}
		g := Geo{W: 9, H: 8, SPP: 1, BitsAllocated: 8, BitsStored: 8}
		frames := [][]byte{GenFrame(rng, g, 1)}
		p, ref := reg.GetDefaultParameters(), reg.GetDefaultParameters()
		enc, err := Encode(reg, g, frames, p)
		c.R.Case("c18:static:"+ts.Short, true, "c18.static")
		c.R.Oracle("c18_params_unchanged")
		if err == nil {
			_, _ = Decode(reg, g, enc, p)
		}
		if !reflect.DeepEqual(p, ref) {
			c.R.Fail("oracle", "c18_params_unchanged", "c18:"+ts.Short+":shared-parameters-modified",
				"Encode/Decode changed the value of a default parameters object", map[string]interface{}{"ts": ts.Short})
		}
	}
	// a shared parameters object passed to Decode of streams that were written with OTHER parameter values
	// (two callers of one Transcoder decoding different studies): Decode must leave the shared object alone,
	// otherwise concurrent decodes write it and later calls see another caller's value
	for _, ts := range AllTS() {
		reg, err := Registry(ts)
		if err != nil {
			continue
		}
		g := Geo{W: 9, H: 8, SPP: 1, BitsAllocated: 8, BitsStored: 8}
		frames := [][]byte{GenFrame(rng, g, 1)}
		q := reg.GetDefaultParameters()
		if q == nil {
			continue
		}
		q.SetParameter("near", 1)
		q.SetParameter("quality", 77)
		enc, err := Encode(reg, g, frames, q)
		if err != nil {
			continue
		}
		p, ref := reg.GetDefaultParameters(), reg.GetDefaultParameters()
		c.R.Case("c18:static-foreign:"+ts.Short, true, "c18.static")
		c.R.Oracle("c18_params_unchanged")
		_, _ = Decode(reg, g, enc, p)
		if !reflect.DeepEqual(p, ref) {
			c.R.Fail("oracle", "c18_params_unchanged", "c18:"+ts.Short+":shared-parameters-modified-by-foreign-stream",
				"Decode of a stream written with other parameter values changed the shared default parameters object",
				map[string]interface{}{"ts": ts.Short, "near": 1, "quality": 77})
		}
	}
	// the codec's own default parameter objects as call arguments (special.go)
	for _, ts := range AllTS() {
		reg, err := Registry(ts)
		if err != nil {
			continue
		}
		c.R.Case("c18:defaults:"+ts.Short, true, "c18.defaults")
		c.R.Oracle("c18_default_parameters")
		for _, p := range DefaultsCheck(ts, reg, ts.Fresh(), rng) {
			c.R.Fail("oracle", "c18_default_parameters", "c18:"+ts.Short+":"+p.Sig, p.What, map[string]interface{}{"ts": ts.Short})
		}
	}
	c.R.Oracle("c18_globals_unchanged")
	if tables() != before {
		c.R.Fail("oracle", "c18_globals_unchanged", "c18:global-written:htj2k-vlc-tables",
			"HTJ2K package-level tables differ before and after a workload", nil)
	}
}

// BuildVrace builds the race-instrumented stress program /verif/.work/bin/vrace. It is what
// bin/setup can run ahead of time (same as: cd /verif/harness && GOFLAGS=-mod=mod GOPROXY=off
// go build -race -o /verif/.work/bin/vrace ./cmd/vrace); the C18 suite calls it on every run,
// which costs nothing when the binary is up to date.
func BuildVrace() (string, error) {
	_ = os.MkdirAll(filepath.Dir(vraceBin), 0o755)
	// built in place: `go build` leaves an up-to-date binary alone (no relink), so only the
	// first check after a change of /repo or of the harness pays for the instrumented build
	cmd := exec.Command("go", "build", "-race", "-o", vraceBin, "./cmd/vrace")
	cmd.Dir = harnessDir
	cmd.Env = append(os.Environ(), "GOFLAGS=-mod=mod", "GOPROXY=off")
	out, err := cmd.CombinedOutput()
	if err != nil {
		return "", fmt.Errorf("go build -race ./cmd/vrace: %v\n%s", err, out)
	}
	return vraceBin, nil
}

var (
	reRound = regexp.MustCompile(`^ROUND procs=(\d+) mode=(\w+) calls=(\d+)`)
	reFrame = regexp.MustCompile(`^\s+github\.com/cocosip/go-dicom-codecs/([^\s]+)\(\)`)
	reFile  = regexp.MustCompile(`^\s+(/[^\s:]+):(\d+)`)
)

// raceSignature: "c18:race:<package dir>/<file>:<func>" from the first frame of a race report
// that lies in the module under test (wherever its sources are checked out).
func raceSignature(block string) (sig, where string) {
	lines := strings.Split(block, "\n")
	for i := 0; i+1 < len(lines); i++ {
		m := reFrame.FindStringSubmatch(lines[i])
		if m == nil {
			continue
		}
		f := reFile.FindStringSubmatch(lines[i+1])
		if f == nil {
			continue
		}
		fn := m[1] // e.g. jpeg2000/htj2k.(*Parameters).Validate
		dir, short := "", fn
		if k := strings.LastIndex(fn, "/"); k >= 0 {
			dir, short = fn[:k+1], fn[k+1:]
		}
		if k := strings.Index(short, "."); k >= 0 {
			dir, short = dir+short[:k], short[k+1:]
		}
		file := dir + "/" + filepath.Base(f[1])
		return "c18:race:" + file + ":" + short, file + ":" + f[2]
	}
	return "c18:race:outside-repo", ""
}

func c18Race(c *Ctx) {
	t0 := time.Now()
	bin, err := BuildVrace()
	if err != nil {
		c.R.Note("c18: %v", err)
		c.R.Fail("corr", "c18_vrace", "c18:vrace-build", "the race-detector stress program does not build", map[string]interface{}{"error": err.Error()})
		return
	}
	c.R.Note("c18: vrace built in %.1fs", time.Since(t0).Seconds())
	seconds := 12
	args := []string{"-seconds", strconv.Itoa(seconds), "-seed", strconv.FormatUint(c.R.Seed, 10)}
	if c.Thor {
		args = []string{"-seconds", "240", "-seed", strconv.FormatUint(c.R.Seed, 10), "-size", "16", "-frames", "2"}
	}
	cmd := exec.Command(bin, args...)
	var stdout, stderr bytes.Buffer
	cmd.Stdout, cmd.Stderr = &stdout, &stderr
	cmd.Env = append(os.Environ(), "GORACE=halt_on_error=0")
	t1 := time.Now()
	runErr := cmd.Run()
	c.R.Note("c18: vrace %v ran %.1fs, exit: %v", args, time.Since(t1).Seconds(), runErr)

	sc := bufio.NewScanner(&stdout)
	done := false
	for sc.Scan() {
		line := sc.Text()
		if m := reRound.FindStringSubmatch(line); m != nil {
			n, _ := strconv.Atoi(m[3])
			for i := 0; i < n; i++ {
				c.R.Case(fmt.Sprintf("c18:%s:%s:%d", m[1], m[2], i), true, "c18.procs."+m[1], "c18.mode."+m[2])
				c.R.Oracle("c18_result_equals_sequential")
			}
			continue
		}
		if strings.HasPrefix(line, "MISMATCH ") {
			f := strings.Fields(line)
			ts, op := "?", "?"
			if len(f) > 2 {
				ts, op = f[1], f[2]
			}
			c.R.Fail("oracle", "c18_result_equals_sequential", "c18:mismatch:"+ts+":"+op, line, map[string]interface{}{"args": args})
		}
		if strings.HasPrefix(line, "DONE ") {
			done = true
		}
	}
	// race reports
	blocks := strings.Split(stderr.String(), "==================")
	nRaces := 0
	for _, b := range blocks {
		if !strings.Contains(b, "WARNING: DATA RACE") {
			continue
		}
		nRaces++
		c.R.Oracle("c18_no_data_race")
		sig, where := raceSignature(b)
		what := strings.TrimSpace(b)
		if len(what) > 1800 {
			what = what[:1800] + " ..."
		}
		c.R.Fail("oracle", "c18_no_data_race", sig, "data race reported by the race detector at "+where+"\n"+what,
			map[string]interface{}{"args": args, "replay": "cd /verif/harness && go build -race -o /tmp/vrace ./cmd/vrace && /tmp/vrace " + strings.Join(args, " ")})
	}
	if nRaces == 0 {
		c.R.Oracle("c18_no_data_race")
	}
	c.R.Note("c18: %d race reports", nRaces)
	if !done {
		c.R.Fail("corr", "c18_vrace", "c18:vrace-crashed", "the stress program did not finish: "+fmt.Sprint(runErr),
			map[string]interface{}{"stderr_tail": tail(stderr.String(), 1500)})
	}
}

func tail(s string, n int) string {
	if len(s) > n {
		return s[len(s)-n:]
	}
	return s
}
