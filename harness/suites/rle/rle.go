// Package rle: suites for property C01 (RLE Lossless round trip, Annex G stream validity).
//
// Correspondence: rle.Codec.Encode / Decode (public API, codec.NewTestPixelData) against the
// extracted Coq model (ops rle_encode / rle_decode), byte for byte.
// Oracle (implementation alone): Decode(Encode(frame)) == frame (+ one zero byte when the
// native frame length is odd); the encoded frame is a valid Annex G stream and an
// independent PackBits reader recovers every byte plane from it. Both checks are evaluated
// twice: with a reader written here in Go from Annex G and with the extracted Coq
// specification (ops rle_valid / rle_packbits_n) when the model is available.
package rle

import (
	"bytes"
	"crypto/sha1"
	"encoding/binary"
	"encoding/hex"
	"fmt"
	"os"
	"strings"

	"github.com/cocosip/go-dicom-codecs/codec"
	rlecodec "github.com/cocosip/go-dicom-codecs/rle"
	"github.com/cocosip/go-dicom/pkg/imaging/imagetypes"
	. "verif/harness/vhlib"
)

// Register adds this area's suites.
func Register(s Suites) { s.Add("C01", runC01) }

type geo struct {
	rows, cols int
	bits       int // BitsAllocated
	spp        int
	planar     int
}

func (g geo) ba() int     { return (g.bits-1)/8 + 1 }
func (g geo) npix() int   { return g.rows * g.cols }
func (g geo) planes() int { return g.ba() * g.spp }
func (g geo) flen() int   { return g.planes() * g.npix() }
func (g geo) class() string {
	return fmt.Sprintf("ba=%d:spp=%d:planar=%d", g.ba(), g.spp, g.planar)
}
func (g geo) info() *imagetypes.FrameInfo {
	pi := "MONOCHROME2"
	if g.spp == 3 {
		pi = "RGB"
	}
	return &imagetypes.FrameInfo{Width: uint16(g.cols), Height: uint16(g.rows),
		BitsAllocated: uint16(g.bits), BitsStored: uint16(g.bits), HighBit: uint16(g.bits - 1),
		SamplesPerPixel: uint16(g.spp), PlanarConfiguration: uint16(g.planar), PhotometricInterpretation: pi}
}
func (g geo) margs() []string {
	return []string{fmt.Sprint(g.ba()), fmt.Sprint(g.spp), fmt.Sprint(g.planar), fmt.Sprint(g.npix())}
}
func (g geo) input(frame []byte) map[string]interface{} {
	return map[string]interface{}{"rows": g.rows, "cols": g.cols, "bitsAllocated": g.bits, "spp": g.spp,
		"planar": g.planar, "frame": clipHex(frame)}
}

func clipHex(b []byte) string {
	if len(b) > 4096 {
		return hex.EncodeToString(b[:4096]) + fmt.Sprintf("...(%d bytes, sha1 %x)", len(b), sha1.Sum(b))
	}
	return Hex(b)
}

// ---- implementation runners (public API only) ----

func implEncode(g geo, frame []byte) (string, []byte) {
	var out []byte
	var err error
	p, _ := Safely(func() {
		src := codec.NewTestPixelData(g.info())
		_ = src.AddFrame(frame)
		dst := codec.NewTestPixelData(g.info())
		err = rlecodec.NewRLECodec().Encode(src, dst, nil)
		if err == nil {
			out, _ = dst.GetFrame(0)
		}
	})
	if p {
		return "panic", nil
	}
	if err != nil {
		return "err", nil
	}
	return "ok", out
}

func implDecode(g geo, stream []byte) (string, []byte) {
	var out []byte
	var err error
	p, _ := Safely(func() {
		src := codec.NewTestPixelData(g.info())
		_ = src.AddFrame(stream)
		dst := codec.NewTestPixelData(g.info())
		err = rlecodec.NewRLECodec().Decode(src, dst, nil)
		if err == nil {
			out, _ = dst.GetFrame(0)
		}
	})
	if p {
		return "panic", nil
	}
	if err != nil {
		return "err", nil
	}
	return "ok", out
}

func outcomeStr(class string, b []byte) string {
	if class == "ok" {
		return "ok:" + Hex(b)
	}
	return class
}

// ---- independent (Annex G) helpers written in Go ----

// plane s of a native frame: sample = s / ba, byte k = s % ba with k = 0 the MOST significant
// byte of the little-endian sample (Annex G.2).
func planeOf(g geo, frame []byte, s int) []byte {
	ba, spp, n := g.ba(), g.spp, g.npix()
	c, k := s/ba, s%ba
	out := make([]byte, n)
	for p := 0; p < n; p++ {
		var base int
		if g.planar == 0 {
			base = (p*spp + c) * ba
		} else {
			base = (c*n + p) * ba
		}
		out[p] = frame[base+ba-1-k]
	}
	return out
}

func frameOfPlanes(g geo, planes [][]byte) []byte {
	ba, spp, n := g.ba(), g.spp, g.npix()
	out := make([]byte, g.flen())
	for s := range planes {
		c, k := s/ba, s%ba
		for p := 0; p < n; p++ {
			var base int
			if g.planar == 0 {
				base = (p*spp + c) * ba
			} else {
				base = (c*n + p) * ba
			}
			out[base+ba-1-k] = planes[s][p]
		}
	}
	return out
}

// Annex G.3.2 reader: stop when need bytes are out.
func goPackbitsN(seg []byte, need int) ([]byte, bool) {
	out := make([]byte, 0, need)
	i := 0
	for len(out) < need {
		if i >= len(seg) {
			return nil, false
		}
		n := int(int8(seg[i]))
		i++
		switch {
		case n >= 0:
			if i+n+1 > len(seg) || len(out)+n+1 > need {
				return nil, false
			}
			out = append(out, seg[i:i+n+1]...)
			i += n + 1
		case n >= -127:
			if i >= len(seg) || len(out)+(-n+1) > need {
				return nil, false
			}
			for j := 0; j < -n+1; j++ {
				out = append(out, seg[i])
			}
			i++
		}
	}
	return out, true
}

// Annex G.4/G.5 validity; returns "" or the violated clause, and the segments.
func goAnnexG(planes int, s []byte) (string, [][]byte) {
	if len(s)%2 != 0 {
		return "odd length", nil
	}
	if len(s) < 64 {
		return "shorter than header", nil
	}
	w := make([]int, 16)
	for i := range w {
		w[i] = int(binary.LittleEndian.Uint32(s[4*i:]))
	}
	if w[0] != planes {
		return fmt.Sprintf("segment count %d != planes %d", w[0], planes), nil
	}
	if w[1] != 64 {
		return "first offset != 64", nil
	}
	var segs [][]byte
	for i := 1; i <= 15; i++ {
		if i <= planes {
			if w[i]%2 != 0 {
				return fmt.Sprintf("offset %d odd", i), nil
			}
			if w[i] >= len(s) {
				return fmt.Sprintf("offset %d out of range", i), nil
			}
			if i > 1 && w[i] <= w[i-1] {
				return fmt.Sprintf("offset %d not ascending", i), nil
			}
		} else if w[i] != 0 {
			return fmt.Sprintf("unused offset %d nonzero", i), nil
		}
	}
	for i := 1; i <= planes; i++ {
		e := len(s)
		if i < planes {
			e = w[i+1]
		}
		segs = append(segs, s[w[i]:e])
	}
	return "", segs
}

// ---- generators ----

var runLens = []int{1, 1, 2, 2, 3, 3, 4, 5, 126, 127, 128, 129, 130, 131, 255, 256, 257, 258, 383, 384, 385, 512}
var litLens = []int{1, 2, 3, 5, 126, 127, 128, 129, 130, 131, 255, 256, 257, 258}

// run-length-biased byte string of exactly n bytes: runs and literal stretches with the
// lengths the property names.
func genRuns(r *Rand, n int) ([]byte, []string) {
	out := make([]byte, 0, n)
	seen := map[string]bool{}
	last := -1
	for len(out) < n {
		switch r.Intn(8) {
		case 0, 1, 2, 3: // run
			l := runLens[r.Intn(len(runLens))]
			if r.Intn(10) == 0 {
				l = r.Range(1, 600)
			}
			b := r.Intn(256)
			if r.Intn(3) == 0 {
				b = r.Pick(0, 0xFF, 0x80, 0x7F, 1)
			}
			if b == last && r.Intn(4) != 0 { // mostly keep runs separated so the length is exact
				b = (b + 1) & 255
			}
			for j := 0; j < l && len(out) < n; j++ {
				out = append(out, byte(b))
			}
			last = b
			seen[runBucket(l)] = true
		case 4, 5, 6: // literal stretch: no two neighbours equal
			l := litLens[r.Intn(len(litLens))]
			if r.Intn(10) == 0 {
				l = r.Range(1, 400)
			}
			for j := 0; j < l && len(out) < n; j++ {
				b := r.Intn(256)
				if b == last {
					b = (b + 1 + r.Intn(254)) & 255
				}
				out = append(out, byte(b))
				last = b
			}
			seen["lit."+runBucket(l)] = true
		default: // pairs: AABBCC... (2-byte runs inside literals)
			l := r.Range(1, 70)
			for j := 0; j < l && len(out) < n; j++ {
				b := r.Intn(256)
				if b == last {
					b = (b + 1) & 255
				}
				out = append(out, byte(b))
				if len(out) < n {
					out = append(out, byte(b))
				}
				last = b
			}
			seen["pairs"] = true
		}
	}
	var ks []string
	for k := range seen {
		ks = append(ks, "rle.run."+k)
	}
	return out, ks
}

func runBucket(l int) string {
	switch {
	case l <= 3:
		return fmt.Sprint(l)
	case l < 126:
		return "4-125"
	case l <= 131:
		return fmt.Sprint(l)
	case l < 255:
		return "132-254"
	case l <= 258:
		return fmt.Sprint(l)
	default:
		return "259+"
	}
}

var classes = func() []geo {
	var gs []geo
	for _, bits := range []int{8, 16, 32} {
		for _, spp := range []int{1, 3} {
			for _, pl := range []int{0, 1} {
				gs = append(gs, geo{bits: bits, spp: spp, planar: pl})
			}
		}
	}
	return gs
}()

type tcase struct {
	g     geo
	frame []byte
	dist  []string
	tag   string
}

func sizeBucket(n int) string {
	switch {
	case n <= 16:
		return "rle.size.<=16"
	case n <= 256:
		return "rle.size.<=256"
	case n <= 4096:
		return "rle.size.<=4K"
	case n <= 65536:
		return "rle.size.<=64K"
	case n <= 1<<20:
		return "rle.size.<=1M"
	default:
		return "rle.size.>1M"
	}
}

func dims(r *Rand, npix int) (int, int) {
	// factor npix as rows*cols with both <= 65535 (npix is chosen so that this is possible)
	if npix <= 65535 && r.Bool() {
		if r.Bool() {
			return 1, npix
		}
		return npix, 1
	}
	best := 1
	for d := 1; d*d <= npix; d++ {
		if npix%d == 0 && npix/d <= 65535 {
			best = d
			if r.Intn(4) == 0 && d > 1 {
				break
			}
		}
	}
	if r.Bool() {
		return best, npix / best
	}
	return npix / best, best
}

func structuredCase(r *Rand, cl geo, npix int, mode int) tcase {
	g := cl
	g.rows, g.cols = dims(r, npix)
	var dist []string
	var frame []byte
	switch mode {
	case 0: // every byte plane run-biased
		pl := make([][]byte, g.planes())
		for s := range pl {
			var ks []string
			pl[s], ks = genRuns(r, npix)
			dist = append(dist, ks...)
		}
		frame = frameOfPlanes(g, pl)
		dist = append(dist, "rle.content.planes")
	case 1: // whole native frame run-biased
		var ks []string
		frame, ks = genRuns(r, g.flen())
		dist = append(dist, ks...)
		dist = append(dist, "rle.content.frame")
	case 2: // uniform random
		frame = make([]byte, g.flen())
		for i := range frame {
			frame[i] = byte(r.Intn(256))
		}
		dist = append(dist, "rle.content.random")
	default: // constant / two-valued
		frame = make([]byte, g.flen())
		a, b := byte(r.Intn(256)), byte(r.Intn(256))
		per := r.Range(1, 300)
		for i := range frame {
			if (i/per)%2 == 0 {
				frame[i] = a
			} else {
				frame[i] = b
			}
		}
		dist = append(dist, "rle.content.stripes")
	}
	return tcase{g: g, frame: frame, dist: dist, tag: "structured"}
}

// one plane consisting of exactly one run of length l surrounded by other bytes
func boundaryCases() []tcase {
	var cs []tcase
	for _, l := range []int{1, 2, 3, 4, 126, 127, 128, 129, 130, 131, 254, 255, 256, 257, 258, 259, 384, 385, 386} {
		for _, pre := range []int{0, 1, 2, 127, 128, 129} {
			for _, post := range []int{0, 1, 2} {
				var f []byte
				for j := 0; j < pre; j++ {
					f = append(f, byte(10+j%2*7+j%3)) // 10,18,12,17,11,19,... no equal neighbours
				}
				for j := 0; j < l; j++ {
					f = append(f, 0xAA)
				}
				for j := 0; j < post; j++ {
					f = append(f, byte(0x30+j))
				}
				g := geo{rows: 1, cols: len(f), bits: 8, spp: 1, planar: 0}
				cs = append(cs, tcase{g: g, frame: f, tag: "boundary",
					dist: []string{"rle.boundary.run=" + runBucket(l), fmt.Sprintf("rle.boundary.pre=%d", pre)}})
			}
		}
	}
	// literal stretches of exactly l bytes followed by a run of 3
	for _, l := range []int{1, 2, 126, 127, 128, 129, 130, 131, 255, 256, 257, 258} {
		for _, tail := range []int{0, 2, 3} {
			var f []byte
			for j := 0; j < l; j++ {
				f = append(f, byte(j%251)+byte(j%2))
			}
			// make sure no equal neighbours
			for j := 1; j < len(f); j++ {
				if f[j] == f[j-1] {
					f[j] ^= 0x55
				}
			}
			for j := 0; j < tail; j++ {
				f = append(f, 0xEE)
			}
			g := geo{rows: len(f), cols: 1, bits: 8, spp: 1, planar: 0}
			cs = append(cs, tcase{g: g, frame: f, tag: "boundary", dist: []string{"rle.boundary.lit=" + runBucket(l)}})
		}
	}
	return cs
}

// ---- alternative legal encodings (other splits) for the decoder ----

func altStream(r *Rand, g geo, frame []byte) []byte {
	var body []byte
	offs := make([]uint32, 15)
	for s := 0; s < g.planes(); s++ {
		offs[s] = uint32(64 + len(body))
		p := planeOf(g, frame, s)
		i := 0
		for i < len(p) {
			if r.Intn(12) == 0 {
				body = append(body, 0x80) // no-op
			}
			run := 1
			for i+run < len(p) && p[i+run] == p[i] && run < 128 {
				run++
			}
			if run >= 2 && r.Intn(3) != 0 {
				c := r.Range(2, run)
				body = append(body, byte(257-c), p[i])
				i += c
			} else {
				c := r.Range(1, min(128, len(p)-i))
				if r.Intn(4) == 0 {
					c = min(128, len(p)-i)
				}
				body = append(body, byte(c-1))
				body = append(body, p[i:i+c]...)
				i += c
			}
		}
		if len(body)%2 == 1 {
			body = append(body, 0)
		}
	}
	hdr := make([]byte, 64)
	binary.LittleEndian.PutUint32(hdr, uint32(g.planes()))
	for i := 0; i < 15; i++ {
		binary.LittleEndian.PutUint32(hdr[4+4*i:], offs[i])
	}
	return append(hdr, body...)
}

func mutate(r *Rand, s []byte) ([]byte, string) {
	m := append([]byte(nil), s...)
	switch r.Intn(7) {
	case 0:
		if len(m) > 1 {
			return m[:r.Range(1, len(m)-1)], "truncate"
		}
		return m, "none"
	case 1:
		m[0] = byte(r.Intn(18))
		return m, "count"
	case 2:
		k := 4 + 4*r.Intn(15)
		binary.LittleEndian.PutUint32(m[k:], uint32(r.Intn(len(m)+70)))
		return m, "offset"
	case 3:
		k := 4 + 4*r.Intn(15)
		binary.LittleEndian.PutUint32(m[k:], uint32(r.U64()))
		return m, "offset32"
	case 4:
		if len(m) > 64 {
			for j := 0; j < 1+r.Intn(4); j++ {
				m[r.Range(64, len(m)-1)] = byte(r.Intn(256))
			}
		}
		return m, "body"
	case 5:
		ext := make([]byte, r.Range(1, 40))
		for i := range ext {
			ext[i] = byte(r.Intn(256))
		}
		return append(m, ext...), "extend"
	default:
		if len(m) > 64 {
			m[r.Range(64, len(m)-1)] = byte(r.Pick(0x80, 0x81, 0xFF, 0x7F, 0x00))
		}
		return m, "control"
	}
}

// ---- the check of one case ----

func checkCase(c *Ctx, t tcase, alt *Rand) {
	g, frame := t.g, t.frame
	cl := g.class()
	h := sha1.Sum(frame)
	key := fmt.Sprintf("rle:%s:%dx%d:%x", cl, g.rows, g.cols, h[:10])
	nontriv := len(frame) >= 2 && bytes.Count(frame, frame[:1]) != len(frame)
	dist := append([]string{"rle.class." + cl, sizeBucket(len(frame)), "rle.tag." + t.tag}, t.dist...)
	if len(frame)%2 == 1 {
		dist = append(dist, "rle.oddframe")
	}
	c.R.Case(key, nontriv, dist...)
	in := g.input(frame)

	// implementation
	ecl, enc := implEncode(g, frame)
	// correspondence: Encode
	if c.HasModel() {
		m := c.M.Call("rle_encode", append(g.margs(), Hex(frame))...)
		c.CorrEq("rle_encode", "rle:encode:"+cl, m, outcomeStr(ecl, enc), in)
	}
	// oracle: the codec accepts the frame
	c.R.Oracle("rle_roundtrip")
	if ecl != "ok" {
		c.R.Fail("oracle", "rle_roundtrip", "rle:encode-"+ecl+":"+cl, "Encode of an accepted frame description returned "+ecl, in)
		return
	}
	dcl, dec := implDecode(g, enc)
	if c.HasModel() {
		m := c.M.Call("rle_decode", append(g.margs(), Hex(enc))...)
		c.CorrEq("rle_decode", "rle:decode:"+cl, m, outcomeStr(dcl, dec), map[string]interface{}{"geometry": in, "stream": clipHex(enc)})
	}
	want := frame
	if len(frame)%2 == 1 {
		want = append(append([]byte(nil), frame...), 0)
	}
	if dcl != "ok" {
		c.R.Fail("oracle", "rle_roundtrip", "rle:decode-"+dcl+":"+cl, "Decode of the codec's own output returned "+dcl, in)
	} else if !bytes.Equal(dec, want) {
		c.R.Fail("oracle", "rle_roundtrip", "rle:roundtrip:"+cl, fmt.Sprintf("Decode(Encode(frame)) differs from frame (+pad): got %d bytes, want %d, first difference at %d", len(dec), len(want), firstDiff(dec, want)), in)
	}

	// oracle: Annex G validity + independent reader (Go-side reader)
	c.R.Oracle("rle_stream_valid")
	why, segs := goAnnexG(g.planes(), enc)
	if why != "" {
		c.R.Fail("oracle", "rle_stream_valid", "rle:valid:"+cl, "encoded frame is not a valid Annex G stream: "+why, in)
	} else {
		c.R.Oracle("rle_independent_reader")
		for s := range segs {
			got, ok := goPackbitsN(segs[s], g.npix())
			if !ok || !bytes.Equal(got, planeOf(g, frame, s)) {
				c.R.Fail("oracle", "rle_independent_reader", "rle:packbits:"+cl, fmt.Sprintf("independent PackBits reader does not recover plane %d", s), in)
				break
			}
		}
	}
	// the same two checks with the extracted Coq specification
	if c.HasModel() {
		c.R.Oracle("rle_stream_valid_spec")
		if v := c.M.Call("rle_valid", fmt.Sprint(g.planes()), Hex(enc)); v != "1" {
			c.R.Fail("oracle", "rle_stream_valid_spec", "rle:valid:"+cl, "annexG_valid (extracted spec) rejects the encoded frame: "+v, in)
		} else if why == "" {
			c.R.Oracle("rle_independent_reader_spec")
			for s := range segs {
				got := c.M.Call("rle_packbits_n", fmt.Sprint(g.npix()), Hex(segs[s]))
				if got != "ok:"+Hex(planeOf(g, frame, s)) {
					c.R.Fail("oracle", "rle_independent_reader_spec", "rle:packbits:"+cl, fmt.Sprintf("packbits_n (extracted spec) does not recover plane %d", s), in)
					break
				}
			}
		}
	}

	// decoder on other legal splits and on damaged streams
	if alt != nil {
		as := altStream(alt, g, frame)
		acl, adec := implDecode(g, as)
		ain := map[string]interface{}{"geometry": in, "stream": clipHex(as)}
		if c.HasModel() {
			m := c.M.Call("rle_decode", append(g.margs(), Hex(as))...)
			c.CorrEq("rle_decode_altsplit", "rle:decode-alt:"+cl, m, outcomeStr(acl, adec), ain)
		}
		c.R.Oracle("rle_decode_altsplit")
		if acl != "ok" || !bytes.Equal(adec, want) {
			c.R.Fail("oracle", "rle_decode_altsplit", "rle:decode-alt:"+cl, "Decode of a legal Annex G stream with another packet split: "+acl+" / pixels differ", ain)
		}
		if c.HasModel() {
			for k := 0; k < 2; k++ {
				base := enc
				if k == 1 {
					base = as
				}
				ms, what := mutate(alt, base)
				mcl, mdec := implDecode(g, ms)
				c.R.Case(fmt.Sprintf("%s:damaged%d", key, k), false, "rle.damaged."+what+"."+mcl)
				m := c.M.Call("rle_decode", append(g.margs(), Hex(ms))...)
				c.CorrEq("rle_decode_damaged", "rle:decode-damaged:"+what+":"+cl, m, outcomeStr(mcl, mdec),
					map[string]interface{}{"geometry": in, "stream": clipHex(ms), "mutation": what})
			}
		}
	}
}

func firstDiff(a, b []byte) int {
	for i := 0; i < len(a) && i < len(b); i++ {
		if a[i] != b[i] {
			return i
		}
	}
	return min(len(a), len(b))
}

func runC01(c *Ctx) {
	c.R.Rule = "RLE: frames for all 12 classes (BitsAllocated 8/16/32 x SamplesPerPixel 1/3 x planar 0/1); content: " +
		"exhaustive strings over {00,01,FF} up to length 7 (quick) / 10 (thorough) for ba=1 spp=1, single-run boundary " +
		"frames (run 1..4,126..131,254..259,384..386 after 0/1/2/127/128/129 literals), run-length-biased planes/frames " +
		"(runs 1,2,3,126..131,255..258,383..385,512, literals around 128/256), random and striped frames, odd frame " +
		"lengths, sizes to 64 KiB plus 65535x1 / 1x65535 (quick) / 1024x1024 (up to 3 planes), 512x512 (6 and 12 planes), 65535x1, 1x65535 for all classes (thorough); non-trivial = at least 2 bytes and " +
		"not constant; decoder also on harness-built legal streams with other packet splits and on damaged streams"

	var cases []tcase
	// (1) exhaustive short strings, ba=1 spp=1
	maxL := c.N(7, 10)
	alpha := []byte{0x00, 0x01, 0xFF}
	for l := 1; l <= maxL; l++ {
		total := 1
		for i := 0; i < l; i++ {
			total *= 3
		}
		for v := 0; v < total; v++ {
			f := make([]byte, l)
			x := v
			for i := 0; i < l; i++ {
				f[i] = alpha[x%3]
				x /= 3
			}
			g := geo{rows: 1, cols: l, bits: 8, spp: 1, planar: 0}
			if v%2 == 1 {
				g.rows, g.cols = l, 1
			}
			cases = append(cases, tcase{g: g, frame: f, tag: "exhaustive", dist: []string{fmt.Sprintf("rle.exh.len=%d", l)}})
		}
	}
	nExh := len(cases)
	// (2) boundary frames
	cases = append(cases, boundaryCases()...)
	// (3) structured frames, all classes
	rng := c.Rng.Fork()
	nStruct := c.N(25, 150) // per class
	for _, cl := range classes {
		ba := (cl.bits-1)/8 + 1
		for i := 0; i < nStruct; i++ {
			maxPix := 65536 / (ba * cl.spp)
			var npix int
			switch {
			case i < 6:
				npix = []int{1, 2, 3, 5, 7, 129}[i] // tiny and odd
			case i%5 == 0:
				npix = rng.Range(maxPix/2, maxPix)
			case i%5 == 1:
				npix = rng.Range(1, 40)
			default:
				npix = rng.Range(1, 3000)
			}
			if i%3 == 0 && npix%2 == 0 && npix > 1 {
				npix-- // odd pixel counts (odd frame length when ba*spp is odd)
			}
			cases = append(cases, structuredCase(rng, cl, npix, []int{0, 0, 0, 1, 1, 2, 3}[i%7]))
		}
	}
	// (4) extreme dimensions
	if c.Thor {
		for _, cl := range classes {
			for _, d := range [][2]int{{65535, 1}, {1, 65535}, {1024, 1024}} {
				if d[0] == 1024 && ((cl.bits-1)/8+1)*cl.spp > 3 {
					d = [2]int{512, 512} // more than 3 planes: 512x512 keeps the model's memory bounded
				}
				t := structuredCase(rng, cl, d[0]*d[1], rng.Intn(2))
				t.g.rows, t.g.cols = d[0], d[1]
				t.tag = "extreme"
				cases = append(cases, t)
			}
		}
	} else {
		for i, cl := range classes {
			if cl.bits == 32 && cl.spp == 3 {
				continue
			}
			d := [][2]int{{65535, 1}, {1, 65535}}[i%2]
			t := structuredCase(rng, cl, 65535, i%2)
			t.g.rows, t.g.cols = d[0], d[1]
			t.tag = "extreme"
			cases = append(cases, t)
		}
	}

	// samples
	for _, i := range []int{40, nExh + 3, nExh + 400, len(cases) - 1} {
		if i < len(cases) {
			c.R.Sample(map[string]interface{}{"suite": "rle", "tag": cases[i].tag, "case": cases[i].g.input(cases[i].frame)})
		}
	}
	// per-case PRNGs for the alternative splits (deterministic, independent of scheduling)
	alts := make([]*Rand, len(cases))
	ar := c.Rng.Fork()
	for i := range alts {
		if cases[i].tag != "exhaustive" || i%4 == 0 {
			alts[i] = ar.Fork()
		}
	}
	ParallelFor(len(cases), c.Work, func(i int) { checkCase(c, cases[i], alts[i]) })

	arbitraryFrameInfo(c)

	if os.Getenv("VERIF_RLE_GIANT") != "" {
		giant(c)
	}
	c.R.Note("rle: %d cases (%d exhaustive, %d boundary, %d structured/extreme)", len(cases), nExh, len(boundaryCases()), len(cases)-nExh-len(boundaryCases()))
}

// giant: a frame whose encoded size exceeds 4 GiB, so that the 12th segment would start
// beyond the 32-bit offset range (finding F26, fixed in /repo bc7f8bf). Expected now: Encode
// returns an error (model: rle_encode = Err, theorem C01_encode_err_iff; the 4.8 GB input
// cannot be piped through the extracted model). If Encode returns a stream it must round
// trip. Needs ~25 GB of memory; only run on request (VERIF_RLE_GIANT=1).
func giant(c *Ctx) {
	g := geo{rows: 20000, cols: 20000, bits: 32, spp: 3, planar: 0}
	frame := make([]byte, g.flen())
	x := uint64(88172645463325252)
	for i := 0; i+8 <= len(frame); i += 8 { // incompressible content
		x ^= x << 13
		x ^= x >> 7
		x ^= x << 17
		binary.LittleEndian.PutUint64(frame[i:], x)
	}
	in := map[string]interface{}{"rows": g.rows, "cols": g.cols, "bitsAllocated": g.bits, "spp": g.spp, "planar": g.planar,
		"frame": "xorshift64 stream, seed 88172645463325252, little-endian 8-byte words"}
	c.R.Case("rle:giant", true, "rle.giant")
	c.R.Oracle("rle_roundtrip_giant")
	ecl, enc := implEncode(g, frame)
	if ecl == "err" {
		c.R.Note("rle giant: Encode returned err (segment offset beyond 2^32 refused), as the model's rle_encode does")
		return
	}
	if ecl != "ok" {
		c.R.Fail("oracle", "rle_roundtrip_giant", "rle:encode-"+ecl+":"+g.class(), "Encode of a >4 GiB frame returned "+ecl, in)
		return
	}
	c.R.Note("rle giant: encoded length %d (2^32 = %d)", len(enc), uint64(1)<<32)
	var offs []string
	for i := 0; i < 16; i++ {
		offs = append(offs, fmt.Sprint(binary.LittleEndian.Uint32(enc[4*i:])))
	}
	c.R.Note("rle giant: header words %s", strings.Join(offs, ","))
	dcl, dec := implDecode(g, enc)
	if dcl != "ok" || !bytes.Equal(dec, frame) {
		c.R.Fail("oracle", "rle_roundtrip_giant", "rle:roundtrip-offset32:"+g.class(),
			fmt.Sprintf("encoded frame of %d bytes: segment offsets beyond 2^32 are stored modulo 2^32; Decode -> %s, first difference at %d", len(enc), dcl, firstDiff(dec, frame)), in)
	}
}

// arbitraryFrameInfo: correspondence of decodeFrame with the panic-explicit model
// rle_decode_frame (op rle_decode_fi) for FrameInfo values outside the accepted domain:
// BitsAllocated 0 (uint16 wrap: 8192 bytes per sample), odd bit counts, SamplesPerPixel 0..16,
// PlanarConfiguration 0..3, zero dimensions, and sizes beyond makeslice's limit (panic).
// Since the C08/C17 fixes decodeFrame checks the description and the stream's segment count
// before allocating, so none of these can panic or allocate much any more; the generator still
// avoids sizes between 64 MiB and 2^48 in case that regresses. Encode with the same description
// is compared too (op rle_encode_fi). Correspondence only.
func arbitraryFrameInfo(c *Ctx) {
	if !c.HasModel() {
		return
	}
	r := c.Rng.Fork()
	n := c.N(400, 4000)
	type fic struct {
		rows, cols, bits, spp, planar int
		stream                        []byte
		what                          string
	}
	var cs []fic
	bitsPool := []int{0, 1, 7, 8, 9, 12, 15, 16, 17, 24, 32, 33, 40, 64, 120, 121, 128, 255, 256, 65535}
	for i := 0; i < n; i++ {
		k := fic{rows: r.Range(0, 12), cols: r.Range(0, 12), bits: bitsPool[r.Intn(len(bitsPool))],
			spp: r.Pick(0, 1, 1, 2, 3, 3, 4, 5, 15, 16), planar: r.Pick(0, 0, 1, 1, 2, 3)}
		if r.Intn(12) == 0 { // beyond maxAlloc: makeslice panic
			k.rows, k.cols, k.bits, k.spp = 65535, 65535, 0, r.Pick(65535, 40000, 30000)
		}
		ba := int(uint16(uint16(k.bits-1)/8 + 1))
		fs := ba * k.spp * k.rows * k.cols
		if fs > 64<<20 && !(float64(ba)*float64(k.spp)*float64(k.rows)*float64(k.cols) > 3e14) {
			k.rows, k.cols = 1, 1
		}
		// a stream: valid for a nearby accepted geometry, or mutated, or junk
		g := geo{rows: min(max(k.rows, 1), 12), cols: min(max(k.cols, 1), 12), bits: []int{8, 16, 32}[r.Intn(3)], spp: r.Pick(1, 3), planar: k.planar & 1}
		if ba >= 1 && ba <= 4 && r.Intn(3) != 0 {
			g.bits = ba * 8
			if k.spp >= 1 && k.spp <= 3 {
				g.spp = k.spp
			}
		}
		fr, _ := genRuns(r, g.flen())
		_, enc := implEncode(g, fr)
		k.what = "own"
		switch r.Intn(4) {
		case 0:
			enc, k.what = mutate(r, enc)
		case 1:
			enc = append([]byte(nil), enc...)
			enc[0] = byte(ba * k.spp) // make the count agree with the FrameInfo when it fits a byte
			k.what = "count=planes"
		case 2:
			if r.Intn(4) == 0 {
				enc = enc[:r.Intn(64)]
				k.what = "short"
			}
		}
		k.stream = enc
		cs = append(cs, k)
	}
	ParallelFor(len(cs), c.Work, func(i int) {
		k := cs[i]
		fi := &imagetypes.FrameInfo{Width: uint16(k.cols), Height: uint16(k.rows), BitsAllocated: uint16(k.bits),
			BitsStored: uint16(k.bits), HighBit: uint16(k.bits - 1), SamplesPerPixel: uint16(k.spp),
			PlanarConfiguration: uint16(k.planar), PhotometricInterpretation: "MONOCHROME2"}
		var out []byte
		var err error
		class := "ok"
		p, _ := Safely(func() {
			src := codec.NewTestPixelData(fi)
			_ = src.AddFrame(k.stream)
			dst := codec.NewTestPixelData(fi)
			err = rlecodec.NewRLECodec().Decode(src, dst, nil)
			if err == nil {
				out, _ = dst.GetFrame(0)
			}
		})
		if p {
			class = "panic"
		} else if err != nil {
			class = "err"
		}
		c.R.Case(fmt.Sprintf("rle:fi:%d", i), false, "rle.fi."+class)
		m := c.M.Call("rle_decode_fi", fmt.Sprint(k.rows), fmt.Sprint(k.cols), fmt.Sprint(k.bits), fmt.Sprint(k.spp), fmt.Sprint(k.planar), Hex(k.stream))
		c.CorrEq("rle_decode_frameinfo", fmt.Sprintf("rle:decode-fi:bits=%d:spp=%d:planar=%d", k.bits, k.spp, k.planar), m, outcomeStr(class, out),
			map[string]interface{}{"rows": k.rows, "cols": k.cols, "bitsAllocated": k.bits, "spp": k.spp, "planar": k.planar, "stream": clipHex(k.stream), "stream_kind": k.what})
		// encodeFrame with the same description on a small source frame (the stream bytes serve as pixels)
		if int(uint16(uint16(k.bits-1)/8+1))*k.spp*k.rows*k.cols <= 1<<20 {
			srcb := k.stream
			if len(srcb) > 4096 {
				srcb = srcb[:4096]
			}
			var eout []byte
			var eerr error
			eclass := "ok"
			p2, _ := Safely(func() {
				src := codec.NewTestPixelData(fi)
				_ = src.AddFrame(srcb)
				dst := codec.NewTestPixelData(fi)
				eerr = rlecodec.NewRLECodec().Encode(src, dst, nil)
				if eerr == nil {
					eout, _ = dst.GetFrame(0)
				}
			})
			if p2 {
				eclass = "panic"
			} else if eerr != nil {
				eclass = "err"
			}
			c.R.Case(fmt.Sprintf("rle:fi-enc:%d", i), false, "rle.fi-enc."+eclass)
			em := c.M.Call("rle_encode_fi", fmt.Sprint(k.rows), fmt.Sprint(k.cols), fmt.Sprint(k.bits), fmt.Sprint(k.spp), fmt.Sprint(k.planar), Hex(srcb))
			c.CorrEq("rle_encode_frameinfo", fmt.Sprintf("rle:encode-fi:bits=%d:spp=%d:planar=%d", k.bits, k.spp, k.planar), em, outcomeStr(eclass, eout),
				map[string]interface{}{"rows": k.rows, "cols": k.cols, "bitsAllocated": k.bits, "spp": k.spp, "planar": k.planar, "frame": clipHex(srcb)})
		}
	})
}
