package dct

// Correspondence between the extracted Coq model (area JpegDCT) and the Go code.
// Compared observables are integers and bytes only.

import (
	"fmt"
	"strconv"
	"strings"

	"github.com/cocosip/go-dicom-codecs/jpeg/baseline"
	"github.com/cocosip/go-dicom-codecs/jpeg/extended"
	"github.com/cocosip/go-dicom-codecs/jpeg/standard"
	. "verif/harness/vhlib"
)

// ---------- a small sequential Huffman entropy decoder (harness side) ----------
// Reads the quantised coefficients back out of a stream: the tie for "DCT + quantiser"
// that needs no hook in /repo. Natural order, blocks in scan order per component.

type entTable struct {
	codes map[uint32]byte // (len<<16 | code) -> symbol
}

func buildEnt(bits []byte, vals []byte) *entTable {
	t := &entTable{codes: map[uint32]byte{}}
	code, k := uint32(0), 0
	for l := 1; l <= 16; l++ {
		for i := 0; i < int(bits[l-1]); i++ {
			if k < len(vals) {
				t.codes[uint32(l)<<16|code] = vals[k]
			}
			code++
			k++
		}
		code <<= 1
	}
	return t
}

type entReader struct {
	d    []byte
	p    int
	acc  uint32
	nacc int
	err  string
}

func (r *entReader) bit() uint32 {
	if r.nacc == 0 {
		if r.p >= len(r.d) {
			r.err = "scan data exhausted"
			return 0
		}
		b := r.d[r.p]
		r.p++
		if b == 0xFF {
			if r.p < len(r.d) && r.d[r.p] == 0 {
				r.p++
			} else {
				r.err = "marker inside scan"
				return 0
			}
		}
		r.acc, r.nacc = uint32(b), 8
	}
	r.nacc--
	return (r.acc >> uint(r.nacc)) & 1
}
func (r *entReader) sym(t *entTable) int {
	code := uint32(0)
	for l := 1; l <= 16; l++ {
		code = code<<1 | r.bit()
		if r.err != "" {
			return 0
		}
		if s, ok := t.codes[uint32(l)<<16|code]; ok {
			return int(s)
		}
	}
	r.err = "no code"
	return 0
}
func (r *entReader) extend(n int) int {
	if n == 0 {
		return 0
	}
	v := 0
	for i := 0; i < n; i++ {
		v = v<<1 | int(r.bit())
	}
	if v < 1<<uint(n-1) {
		v += -(1 << uint(n)) + 1
	}
	return v
}

// entropyDecode returns, per component, the coefficient blocks in scan order (1x1 sampling
// only, no restart intervals: what the encoders of /repo emit).
func entropyDecode(s []byte) (coefs [][][64]int, h *hdr, err string) {
	h = walk(s)
	if h.Err != "" {
		return nil, h, h.Err
	}
	var dc, ac [4]*entTable
	var selDC, selAC []int
	p := 2
	for {
		for s[p] == 0xFF && s[p+1] == 0xFF {
			p++
		}
		m := s[p+1]
		l := int(s[p+2])<<8 | int(s[p+3])
		d := s[p+4 : p+2+l]
		p += 2 + l
		if m == 0xC4 {
			o := 0
			for o+17 <= len(d) {
				tc, th := d[o]>>4, d[o]&15
				n := 0
				for i := 0; i < 16; i++ {
					n += int(d[o+1+i])
				}
				if th > 3 || o+17+n > len(d) {
					return nil, h, "bad DHT"
				}
				t := buildEnt(d[o+1:o+17], d[o+17:o+17+n])
				if tc == 0 {
					dc[th] = t
				} else {
					ac[th] = t
				}
				o += 17 + n
			}
		}
		if m == 0xDA {
			ns := int(d[0])
			for i := 0; i < ns; i++ {
				selDC = append(selDC, int(d[2+2*i]>>4))
				selAC = append(selAC, int(d[2+2*i]&15))
			}
			break
		}
	}
	for _, c := range h.Comps {
		if c.H != 1 || c.V != 1 {
			return nil, h, "sampling not 1x1"
		}
	}
	nb := ((h.W + 7) / 8) * ((h.H + 7) / 8)
	nc := len(h.Comps)
	coefs = make([][][64]int, nc)
	r := &entReader{d: s, p: p}
	pred := make([]int, nc)
	for b := 0; b < nb; b++ {
		for ci := 0; ci < nc; ci++ {
			if dc[selDC[ci]] == nil || ac[selAC[ci]] == nil {
				return nil, h, "missing table"
			}
			var k [64]int
			pred[ci] += r.extend(r.sym(dc[selDC[ci]]))
			k[0] = pred[ci]
			for z := 1; z < 64; {
				rs := r.sym(ac[selAC[ci]])
				if r.err != "" {
					return nil, h, r.err
				}
				run, sz := rs>>4, rs&15
				if sz == 0 {
					if run == 15 {
						z += 16
						continue
					}
					break
				}
				z += run
				if z > 63 {
					return nil, h, "run past block"
				}
				k[zz[z]] = r.extend(sz)
				z++
			}
			if r.err != "" {
				return nil, h, r.err
			}
			coefs[ci] = append(coefs[ci], k)
		}
	}
	return coefs, h, ""
}

// rawDQT returns the DQT segments (marker..end) of a stream in order.
func rawDQT(s []byte) [][]byte {
	var out [][]byte
	p := 2
	for p+4 <= len(s) && s[p] == 0xFF {
		m := s[p+1]
		l := int(s[p+2])<<8 | int(s[p+3])
		if m == 0xDB {
			out = append(out, s[p:p+2+l])
		}
		if m == 0xDA {
			break
		}
		p += 2 + l
	}
	return out
}

func blocksStr(bs [][64]int) string {
	parts := make([]string, len(bs))
	for i := range bs {
		parts[i] = Ints(bs[i][:])
	}
	return strings.Join(parts, ";")
}

// ---------- the correspondence run ----------

func runDctCorr(c *Ctx, prop string) {
	if !c.HasModel() {
		c.R.Note("dct: no model executable, correspondence skipped")
		return
	}
	rng := c.Rng.Fork()
	corrTables(c)
	corrKernels(c, rng.Fork())
	corrCoefs(c, rng.Fork())
	corrColour(c, rng.Fork())
	corrPipeline(c, rng.Fork())
	corrGeometry(c, rng.Fork())
	corrRestart(c, rng.Fork())
}

// (7) restart-interval bookkeeping: reference streams coded with restart interval `used`
// whose DRI segment declares `decl`. decl == used must decode; decl < used leaves the decoder
// short of intervals (ErrInvalidData). Compared by outcome class, and the model also reports
// how many intervals it split the scan into.
func corrRestart(c *Ctx, rng *Rand) {
	n := c.N(80, 800)
	type rc struct {
		w, h, used, decl int
		samp             string
		seed             uint64
	}
	cases := make([]rc, n)
	for i := range cases {
		k := rc{w: rng.Range(1, 48), h: rng.Range(1, 48), used: rng.Range(1, 6), samp: []string{"gray", "444", "420", "422"}[i%4], seed: rng.U64()}
		k.decl = k.used
		if i%3 == 0 {
			k.decl = rng.Range(1, k.used)
		}
		cases[i] = k
	}
	ParallelFor(n, c.Work, func(i int) {
		k := cases[i]
		comps := 3
		if k.samp == "gray" {
			comps = 1
		}
		o := defaultOpts(comps, 80)
		o.Sampling, o.Restart = k.samp, k.used
		px := gen8(NewRand(k.seed), "smooth", k.w, k.h, comps)
		var s []byte
		if comps == 1 {
			s = refEncode([][]byte{px}, k.w, k.h, o)
		} else {
			s = refEncode(rgbToPlanes(px, k.w, k.h), k.w, k.h, o)
		}
		_, mc, mr := refLayout(comps, k.w, k.h, o)
		nm := mc * mr
		// a smaller declared interval is only a bookkeeping question (what the model covers)
		// when it needs more intervals than the stream has; otherwise keep decl = used
		if k.decl < k.used && (nm+k.decl-1)/k.decl <= (nm+k.used-1)/k.used {
			k.decl = k.used
		}
		// patch the DRI payload and find the scan bytes
		p := 2
		scan := -1
		for p+4 <= len(s) {
			m, l := s[p+1], int(s[p+2])<<8|int(s[p+3])
			if m == 0xDD {
				s[p+4], s[p+5] = byte(k.decl>>8), byte(k.decl)
			}
			p += 2 + l
			if m == 0xDA {
				scan = p
				break
			}
		}
		if scan < 0 {
			return
		}
		var err error
		pan, _ := Safely(func() { _, _, _, _, err = baseline.Decode(s) })
		impl := "ok"
		if pan {
			impl = "panic"
		} else if err != nil {
			impl = "err"
		}
		got := c.M.Call("dct_rst", strconv.Itoa(k.decl), strconv.Itoa(nm), Hex(s[scan:]))
		if strings.HasPrefix(got, "ok:") {
			// the model's interval count must be what the reference encoder produced
			want := (nm + k.used - 1) / k.used
			if got != "ok:"+strconv.Itoa(want) {
				c.R.Fail("corr", "dct_rst", "dct:rst:intervals", fmt.Sprintf("model split the scan into %s intervals, encoder wrote %d", got, want), map[string]interface{}{"case": k})
			}
			got = "ok"
		}
		c.R.Case(fmt.Sprintf("rst:%d:%d:%d:%d:%s", k.w, k.h, k.used, k.decl, k.samp), true, "corr.restart")
		c.CorrEq("dct_rst", "dct:rst:"+k.samp, got, impl, map[string]interface{}{"w": k.w, "h": k.h, "used": k.used, "declared": k.decl, "sampling": k.samp, "mcus": nm, "stream": clipBytes(s)})
	})
}

// (1) ScaleQuantTable at every quality, against the exported function and against the DQT
// bytes the encoders actually write; zig-zag tables.
func corrTables(c *Ctx) {
	got := c.M.Call("dct_zigzag")
	want := Ints(standard.ZigZag[:]) + ";" + Ints(standard.Unzig[:])
	c.CorrEq("dct_zigzag", "dct:zigzag", got, want, nil)
	px1, px3 := []byte{77}, []byte{10, 200, 90}
	px12 := []byte{0x34, 0x02}
	ParallelFor(100, c.Work, func(i int) {
		q := i + 1
		for bi, base := range []string{"luma", "chroma"} {
			tab := standard.DefaultLuminanceQuantTable
			if bi == 1 {
				tab = standard.DefaultChrominanceQuantTable
			}
			st := standard.ScaleQuantTable(tab, q)
			v := make([]int, 64)
			for j := range v {
				v[j] = int(st[j])
			}
			c.CorrEq("dct_scaleq", "dct:scaleq:"+base, c.M.Call("dct_scaleq", base, strconv.Itoa(q)), Ints(v), map[string]interface{}{"quality": q, "base": base})
		}
		if s, err := baseline.Encode(px1, 1, 1, 1, q); err == nil {
			if d := rawDQT(s); len(d) == 1 {
				c.CorrEq("dct_dqt", "dct:dqt:baseline:grey", c.M.Call("dct_dqt", "0", "luma", strconv.Itoa(q)), Hex(d[0]), map[string]interface{}{"quality": q})
			} else {
				c.R.Fail("corr", "dct_dqt", "dct:dqt:baseline:grey", fmt.Sprintf("expected 1 DQT segment, found %d", len(d)), q)
			}
		}
		if s, err := baseline.Encode(px3, 1, 1, 3, q); err == nil {
			if d := rawDQT(s); len(d) == 2 {
				c.CorrEq("dct_dqt", "dct:dqt:baseline:rgb", c.M.Call("dct_dqt", "0", "luma", strconv.Itoa(q))+c.M.Call("dct_dqt", "1", "chroma", strconv.Itoa(q)), Hex(d[0])+Hex(d[1]), map[string]interface{}{"quality": q})
			} else {
				c.R.Fail("corr", "dct_dqt", "dct:dqt:baseline:rgb", fmt.Sprintf("expected 2 DQT segments, found %d", len(d)), q)
			}
		}
		if s, err := extended.Encode(px12, 1, 1, 1, 12, q); err == nil {
			if d := rawDQT(s); len(d) == 1 {
				c.CorrEq("dct_dqt", "dct:dqt:ext12", c.M.Call("dct_dqt", "0", "luma", strconv.Itoa(q)), Hex(d[0]), map[string]interface{}{"quality": q})
				// and the model's parser reads the same table back
				c.CorrEq("dct_parse_dqt", "dct:parse_dqt", c.M.Call("dct_parse_dqt", Hex(d[0][4:])), "ok:0:"+c.M.Call("dct_scaleq", "luma", strconv.Itoa(q)), map[string]interface{}{"quality": q})
			}
		}
	})
}

func randBlock8(rng *Rand, kind int) []byte {
	b := make([]byte, 64)
	for i := range b {
		x, y := i%8, i/8
		switch kind % 8 {
		case 0:
			b[i] = byte(rng.Intn(256))
		case 1:
			b[i] = byte(255 * ((x + y) & 1))
		case 2:
			b[i] = byte(255 * ((x + y + 1) & 1))
		case 3:
			b[i] = byte(255 * rng.Intn(2))
		case 4:
			b[i] = 255
		case 5:
			b[i] = 0
		case 6:
			b[i] = byte(255 * (x & 1))
		default:
			b[i] = byte(mini(255, x*36+rng.Intn(4)))
		}
	}
	return b
}

// (2) DCTISlow / IDCTISlow (exported) on random blocks incl. extremes, Nyquist
// checkerboards and int32-wrapping coefficient magnitudes.
func corrKernels(c *Ctx, rng *Rand) {
	n := c.N(1500, 20000)
	type kc struct {
		blk  []byte
		coef []int32
		qt   [64]int32
	}
	cases := make([]kc, n)
	for i := range cases {
		k := kc{blk: randBlock8(rng, i), coef: make([]int32, 64)}
		mag := []int{4, 64, 1024, 2047, 32767, 1 << 20, 1 << 30}[rng.Intn(7)]
		dens := rng.Range(1, 64)
		for j := 0; j < 64; j++ {
			if rng.Intn(64) < dens {
				k.coef[j] = int32(rng.Range(-mag, mag))
			}
			switch rng.Intn(4) {
			case 0:
				k.qt[j] = 1
			case 1:
				k.qt[j] = int32(rng.Range(1, 255))
			case 2:
				k.qt[j] = 255
			default:
				k.qt[j] = int32(rng.Range(1, 65535))
			}
		}
		cases[i] = k
	}
	ParallelFor(n, c.Work, func(i int) {
		k := cases[i]
		coef := make([]int32, 64)
		standard.DCTISlow(k.blk, 8, coef)
		in := make([]int, 64)
		for j := range in {
			in[j] = int(k.blk[j])
		}
		c.CorrEq("dct_fdct", "dct:fdct", c.M.Call("dct_fdct", Ints(in)), Ints32(coef), map[string]interface{}{"block": in})
		out := make([]byte, 64)
		standard.IDCTISlow(k.coef, k.qt, out, 8)
		o := make([]int, 64)
		for j := range o {
			o[j] = int(out[j])
		}
		c.CorrEq("dct_idct", "dct:idct", c.M.Call("dct_idct", Ints32(k.coef), Ints32(k.qt[:])), Ints(o), map[string]interface{}{"coef": k.coef, "qt": k.qt})
		// forward then inverse with the real quantiser tables of a random quality
		c.R.Case("kern:"+Ints(in), true, "corr.kernel")
	})
}

// (3) DCT + quantiser of both encoders: the coefficients read back from the emitted
// stream by the harness's entropy decoder = the model's quantised blocks (ties included).
func corrCoefs(c *Ctx, rng *Rand) {
	n := c.N(400, 5000)
	type cc struct {
		w, h, q int
		twelve  bool
		px      []byte
		class   string
	}
	cases := make([]cc, n)
	for i := range cases {
		k := cc{w: rng.Range(1, 20), h: rng.Range(1, 20), q: rng.Range(1, 100), twelve: i%3 == 2}
		if i%10 == 0 {
			k.q = []int{100, 1, 50, 99, 49}[rng.Intn(5)]
		}
		if k.twelve {
			k.class = contents12[rng.Intn(len(contents12))]
			k.px = gen12(rng, k.class, k.w, k.h)
		} else {
			k.class = contents8[rng.Intn(len(contents8))]
			k.px = gen8(rng, k.class, k.w, k.h, 1)
		}
		cases[i] = k
	}
	ParallelFor(n, c.Work, func(i int) {
		k := cases[i]
		var s []byte
		var err error
		if k.twelve {
			s, err = extended.Encode(k.px, k.w, k.h, 1, 12, k.q)
		} else {
			s, err = baseline.Encode(k.px, k.w, k.h, 1, k.q)
		}
		in := map[string]interface{}{"w": k.w, "h": k.h, "quality": k.q, "twelve": k.twelve, "pixels": Hex(k.px)}
		if err != nil {
			c.R.Fail("corr", "dct_coefs", "dct:coefs:encode", err.Error(), in)
			return
		}
		coefs, _, e := entropyDecode(s)
		if e != "" {
			c.R.Fail("corr", "dct_coefs", "dct:coefs:entropy", "harness entropy decoder: "+e, in)
			return
		}
		c.R.Case(fmt.Sprintf("coefs:%v:%d:%d:%d:%s", k.twelve, k.w, k.h, k.q, Hex(k.px)), true, "corr.coefs")
		if k.twelve {
			smp := make([]int, k.w*k.h)
			for j := range smp {
				smp[j] = int(k.px[2*j]) | int(k.px[2*j+1])<<8
			}
			c.CorrEq("dct_coefs12", "dct:coefs12", c.M.Call("dct_coefs12", strconv.Itoa(k.w), strconv.Itoa(k.h), strconv.Itoa(k.q), Ints(smp)), blocksStr(coefs[0]), in)
		} else {
			c.CorrEq("dct_coefs8", "dct:coefs8", c.M.Call("dct_coefs8", strconv.Itoa(k.w), strconv.Itoa(k.h), strconv.Itoa(k.q), Hex(k.px)), blocksStr(coefs[0]), in)
		}
	})
}

// (4) colour conversions (unexported in /repo), observed through the exported codecs:
// ycbcrToRGB via streams of DC-only blocks (one (Y,Cb,Cr) triple per 8x8 block, quality 100
// so every table entry is 1 and IDCTISlow reproduces the triple exactly) decoded by
// baseline.Decode; rgbToYCbCr via baseline.Encode of block-constant RGB images at quality
// 100, reading the DC coefficients back (DC = 8*(v-128), AC = 0).
func corrColour(c *Ctx, rng *Rand) {
	rounds := c.N(16, 400)
	const bw, bh = 16, 16 // 256 triples per image
	ext := []int{0, 1, 127, 128, 129, 254, 255, 16, 235, 240}
	seeds := make([]uint64, rounds)
	for i := range seeds {
		seeds[i] = rng.U64()
	}
	ParallelFor(rounds, c.Work, func(rd int) {
		r := NewRand(seeds[rd])
		trip := make([]int, 0, bw*bh*3)
		for i := 0; i < bw*bh; i++ {
			for ch := 0; ch < 3; ch++ {
				if r.Intn(3) == 0 {
					trip = append(trip, ext[r.Intn(len(ext))])
				} else {
					trip = append(trip, r.Intn(256))
				}
			}
		}
		// --- ycbcrToRGB ---
		o := defaultOpts(3, 100)
		comps, mc, mr := refLayout(3, bw*8, bh*8, o)
		for i := 0; i < bw*bh; i++ {
			for ch := 0; ch < 3; ch++ {
				comps[ch].coefs[i][0] = 8 * (trip[3*i+ch] - 128)
			}
		}
		s := refEmit(comps, mc, mr, bw*8, bh*8, o)
		px, w, h, nc, err := baseline.Decode(s)
		if err != nil || w != bw*8 || h != bh*8 || nc != 3 {
			c.R.Fail("corr", "dct_ycc2rgb", "dct:ycc2rgb:decode", fmt.Sprintf("baseline.Decode of DC-only stream: %v", err), nil)
			return
		}
		got := make([]int, 0, bw*bh*3)
		for by := 0; by < bh; by++ {
			for bx := 0; bx < bw; bx++ {
				// a pixel inside the block, and make sure the block is constant
				p := ((by*8+3)*w + bx*8 + 5) * 3
				got = append(got, int(px[p]), int(px[p+1]), int(px[p+2]))
			}
		}
		c.CorrEq("dct_ycc2rgb", "dct:ycc2rgb", c.M.Call("dct_ycc2rgb", Ints(trip)), Ints(got), map[string]interface{}{"ycc": trip})
		c.R.Case(fmt.Sprintf("ycc:%d:%d", rd, trip[0]), true, "corr.colour")

		// --- rgbToYCbCr ---
		rgb := make([]byte, bw*8*bh*8*3)
		for y := 0; y < bh*8; y++ {
			for x := 0; x < bw*8; x++ {
				i := (y/8)*bw + x/8
				for ch := 0; ch < 3; ch++ {
					rgb[(y*bw*8+x)*3+ch] = byte(trip[3*i+ch])
				}
			}
		}
		es, err := baseline.Encode(rgb, bw*8, bh*8, 3, 100)
		if err != nil {
			c.R.Fail("corr", "dct_rgb2ycc", "dct:rgb2ycc:encode", err.Error(), nil)
			return
		}
		coefs, _, e := entropyDecode(es)
		if e != "" || len(coefs) != 3 {
			c.R.Fail("corr", "dct_rgb2ycc", "dct:rgb2ycc:entropy", "harness entropy decoder: "+e, nil)
			return
		}
		ycc := make([]int, 0, bw*bh*3)
		for i := 0; i < bw*bh; i++ {
			for ch := 0; ch < 3; ch++ {
				k := coefs[ch][i]
				if k[0]%8 != 0 {
					c.R.Fail("corr", "dct_rgb2ycc", "dct:rgb2ycc:dc", fmt.Sprintf("DC %d of a constant block is not a multiple of 8", k[0]), nil)
					return
				}
				ycc = append(ycc, k[0]/8+128)
			}
		}
		c.CorrEq("dct_rgb2ycc", "dct:rgb2ycc", c.M.Call("dct_rgb2ycc", Ints(trip)), Ints(ycc), map[string]interface{}{"rgb": trip})
	})
}

// (5) whole lossy path on small images: model pipeline = baseline.Decode(baseline.Encode(x)).
func corrPipeline(c *Ctx, rng *Rand) {
	n := c.N(300, 4000)
	type pc struct {
		w, h, comps, q int
		px             []byte
	}
	cases := make([]pc, n)
	for i := range cases {
		k := pc{w: rng.Range(1, 18), h: rng.Range(1, 18), comps: 1 + 2*(i&1), q: rng.Range(1, 100)}
		if i%7 == 0 {
			k.q = 100
		}
		k.px = gen8(rng, contents8[rng.Intn(len(contents8))], k.w, k.h, k.comps)
		cases[i] = k
	}
	ParallelFor(n, c.Work, func(i int) {
		k := cases[i]
		in := map[string]interface{}{"w": k.w, "h": k.h, "comps": k.comps, "quality": k.q, "pixels": Hex(k.px)}
		s, err := baseline.Encode(k.px, k.w, k.h, k.comps, k.q)
		if err != nil {
			c.R.Fail("corr", "dct_pipe8", "dct:pipe8:encode", err.Error(), in)
			return
		}
		d, _, _, _, err := baseline.Decode(s)
		if err != nil {
			c.R.Fail("corr", "dct_pipe8", "dct:pipe8:decode", err.Error(), in)
			return
		}
		c.R.Case("pipe:"+Hex(k.px)+fmt.Sprint(k.w, k.h, k.comps, k.q), true, "corr.pipeline")
		c.CorrEq("dct_pipe8", fmt.Sprintf("dct:pipe8:comps=%d", k.comps), c.M.Call("dct_pipe8", strconv.Itoa(k.w), strconv.Itoa(k.h), strconv.Itoa(k.comps), strconv.Itoa(k.q), Hex(k.px)), Hex(d), in)
	})
}

// (6) decoder geometry incl. subsampling: streams whose every scan block is a distinct
// constant; the decoded picture must show, at every pixel, the block the model's index
// functions (parseSOF sizes, blockOffset, skip rule, convertToPixels scaling) say.
func corrGeometry(c *Ctx, rng *Rand) {
	n := c.N(160, 1600)
	samp := []string{"444", "422", "420", "440"}
	hv := map[string]string{"444": "1,1,1,1,1,1", "422": "2,1,1,1,1,1", "420": "2,2,1,1,1,1", "440": "1,2,1,1,1,1"}
	type gc struct {
		w, h int
		s    string
	}
	cases := make([]gc, n)
	for i := range cases {
		cases[i] = gc{rng.Range(1, 40), rng.Range(1, 40), samp[i%4]}
	}
	ParallelFor(n, c.Work, func(i int) {
		k := cases[i]
		o := defaultOpts(3, 100)
		o.Sampling = k.s
		comps, mc, mr := refLayout(3, k.w, k.h, o)
		val := make([]map[string]int, 3)
		for ci, cp := range comps {
			val[ci] = map[string]int{}
			nbx := cp.bw / 8
			for b := range cp.coefs {
				v := 1 + (b*37+ci*11)%255 // 1..255, 0 is reserved for "never written"
				cp.coefs[b][0] = 8 * (v - 128)
				val[ci][fmt.Sprintf("%d.%d", b%nbx, b/nbx)] = v
			}
		}
		s := refEmit(comps, mc, mr, k.w, k.h, o)
		in := map[string]interface{}{"w": k.w, "h": k.h, "sampling": k.s, "stream": clipBytes(s)}
		var px []byte
		var w, h, nc int
		var err error
		pan, msg := Safely(func() { px, w, h, nc, err = baseline.Decode(s) })
		if pan || err != nil {
			c.R.Fail("corr", "dct_geometry", "dct:geometry:decode:"+k.s, fmt.Sprintf("baseline.Decode: %v %s", err, msg), in)
			return
		}
		c.R.Case(fmt.Sprintf("geom:%d:%d:%s", k.w, k.h, k.s), true, "corr.geometry."+k.s)
		if w != k.w || h != k.h || nc != 3 || len(px) != k.w*k.h*3 {
			c.R.Fail("corr", "dct_geometry", "dct:geometry:outlen:"+k.s, fmt.Sprintf("decoded %dx%dx%d, %d samples", w, h, nc, len(px)), in)
			return
		}
		ycc := make([]int, k.w*k.h*3)
		for ci := 0; ci < 3; ci++ {
			own := strings.Split(c.M.Call("dct_owners", strconv.Itoa(k.w), strconv.Itoa(k.h), hv[k.s], strconv.Itoa(ci)), ",")
			if len(own) != k.w*k.h {
				c.R.Fail("corr", "dct_geometry", "dct:geometry:model", "model reply malformed", in)
				return
			}
			for p, o := range own {
				if o != "-" {
					ycc[3*p+ci] = val[ci][o]
				}
			}
		}
		want := c.M.Call("dct_ycc2rgb", Ints(ycc))
		got := make([]int, len(px))
		for j := range px {
			got[j] = int(px[j])
		}
		c.CorrEq("dct_geometry", "dct:geometry:"+k.s, want, Ints(got), in)
	})
}
