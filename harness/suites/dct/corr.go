package dct

import (
	. "verif/harness/vhlib"
)

func runDctCorr(c *Ctx, prop string) {
	_ = prop
}
