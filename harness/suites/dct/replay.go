package dct

import (
	"encoding/json"
	"os"
	"strings"

	. "verif/harness/vhlib"
)

// replayCases re-runs the failing inputs recorded in a replay file (written by bin/check
// from the "failures" of a result): each input carries the generating case, from which the
// image / stream is rebuilt deterministically. Returns false when there is nothing to replay.
func replayCases(c *Ctx) bool {
	if c.Replay == "" {
		return false
	}
	b, err := os.ReadFile(c.Replay)
	if err != nil {
		c.R.Note("dct: cannot read replay file: %v", err)
		return false
	}
	var doc struct {
		Failures []struct {
			Suite string                     `json:"suite"`
			Input map[string]json.RawMessage `json:"input"`
		} `json:"failures"`
	}
	if json.Unmarshal(b, &doc) != nil {
		c.R.Note("dct: replay file is not a failure list")
		return false
	}
	n := 0
	for _, f := range doc.Failures {
		raw, ok := f.Input["case"]
		if !ok {
			continue
		}
		switch {
		case strings.HasPrefix(f.Suite, "c11_"):
			var k c11Case
			if json.Unmarshal(raw, &k) == nil && k.W > 0 {
				c11One(c, k, true)
				n++
			}
		case strings.HasPrefix(f.Suite, "c15_dec_"):
			var k c15Case
			if json.Unmarshal(raw, &k) == nil && k.W > 0 {
				c15DecOne(c, k, true)
				n++
			}
		case strings.HasPrefix(f.Suite, "c15_"):
			var k c11Case
			if json.Unmarshal(raw, &k) == nil && k.W > 0 {
				c15EncOne(c, k, true)
				n++
			}
		}
	}
	c.R.Note("dct: replayed %d recorded cases", n)
	return n > 0
}
