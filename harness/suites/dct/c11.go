package dct

import (
	"fmt"
	"sort"
	"sync"

	"github.com/cocosip/go-dicom-codecs/jpeg/baseline"
	"github.com/cocosip/go-dicom-codecs/jpeg/extended"
	. "verif/harness/vhlib"
)

// c11Case is one image handed to one encoder.
type c11Case struct {
	Codec   string `json:"codec"` // baseline | ext8 | ext12
	W       int    `json:"w"`
	H       int    `json:"h"`
	Comps   int    `json:"comps"`
	Q       int    `json:"quality"`
	Content string `json:"content"`
	Seed    uint64 `json:"case_seed"` // content = gen(NewRand(Seed), Content, ...)
}

func (k c11Case) pixels() []byte {
	if k.Content == "fib" { // w, h, quality are those of fibImage()
		g, w, h, _ := fibImage(k.Codec == "ext12")
		switch {
		case k.Codec == "ext12":
			p := make([]byte, w*h*2)
			for i, v := range g {
				p[2*i], p[2*i+1] = byte(v), byte(v>>8)
			}
			return p
		case k.Comps == 3:
			p := make([]byte, w*h*3)
			for i, v := range g {
				p[3*i], p[3*i+1], p[3*i+2] = byte(v), byte(v), byte(v)
			}
			return p
		}
		p := make([]byte, w*h)
		for i, v := range g {
			p[i] = byte(v)
		}
		return p
	}
	rng := NewRand(k.Seed)
	if k.Content == "dcfib" {
		return dcFibMosaic(rng, k.W, k.H, k.Comps, k.Codec == "ext12")
	}
	if k.Codec == "ext12" {
		return gen12(rng, k.Content, k.W, k.H)
	}
	return gen8(rng, k.Content, k.W, k.H, k.Comps)
}

var c11Codecs = []struct {
	codec string
	comps int
}{{"baseline", 1}, {"baseline", 3}, {"ext8", 1}, {"ext8", 3}, {"ext12", 1}}

func c11Cases(c *Ctx) []c11Case {
	rng := c.Rng.Fork()
	var cases []c11Case
	add := func(ci, w, h, q int, content string) {
		cc := c11Codecs[ci%len(c11Codecs)]
		if content == "" {
			if cc.codec == "ext12" {
				content = contents12[rng.Intn(len(contents12))]
			} else {
				content = contents8[rng.Intn(len(contents8))]
			}
		}
		if cc.codec == "ext12" {
			ok := false
			for _, n := range contents12 {
				ok = ok || n == content
			}
			if !ok && content != "fib" && content != "dcfib" {
				content = "noise"
			}
		} else if content == "noise8" {
			content = "noise"
		}
		cases = append(cases, c11Case{cc.codec, w, h, cc.comps, q, content, rng.U64()})
	}
	// (1) every quality 1..100, every codec/component combination, rotating content and size
	rep := c.N(3, 10)
	for r := 0; r < rep; r++ {
		for q := 1; q <= 100; q++ {
			for ci := range c11Codecs {
				w, h := rng.Range(1, 40), rng.Range(1, 40)
				add(ci, w, h, q, "")
			}
		}
	}
	// (2) all sizes 1..33 x 1..33 (every partial 8x8 block shape); quick: a seeded third
	rot := 0
	for w := 1; w <= 33; w++ {
		for h := 1; h <= 33; h++ {
			if !c.Thor && rng.Intn(3) != 0 {
				continue
			}
			for ci := range c11Codecs {
				add(ci, w, h, rng.Range(1, 100), "")
			}
			if c.Thor {
				for ci := range c11Codecs {
					add(ci, w, h, []int{100, 1, 99, 50, 75}[(rot+ci)%5], "")
				}
			}
			rot++
		}
	}
	// (3) the named boundary contents at quality 100 / 1 / 50 for every codec
	for ci := range c11Codecs {
		for _, content := range []string{"noise", "checker", "black", "white", "extremes", "hramp", "const", "colchecker"} {
			for _, q := range []int{100, 1, 50, 75, 99} {
				add(ci, rng.Range(1, 48), rng.Range(1, 48), q, content)
			}
		}
	}
	// (3b) images whose AC statistics need Huffman trees deeper than 16 (length limiting in
	// BuildOptimalHuffmanTable): large uniform / graded noise at high quality, and the
	// synthetic Fibonacci-histogram picture
	deep := []struct {
		ci, w, h, q int
		content     string
	}{{0, 256, 256, 90, "noise"}, {1, 256, 256, 90, "noise"}, {0, 256, 256, 95, "gnoise"}, {1, 256, 256, 100, "gnoise"},
		{0, 256, 256, 50, "noise"}, {1, 384, 256, 90, "gnoise"}, {0, 256, 256, 100, "noise"}, {1, 256, 256, 95, "noise"},
		{2, 256, 256, 90, "noise"}, {3, 256, 256, 95, "gnoise"}, {3, 256, 256, 50, "gnoise"},
		{4, 256, 256, 90, "noise"}, {4, 256, 256, 100, "gnoise"}, {4, 384, 256, 95, "gnoise"}, {4, 256, 256, 50, "noise"}}
	for _, d := range deep {
		add(d.ci, d.w, d.h, d.q, d.content)
	}
	for ci := range c11Codecs {
		_, fw, fh, fq := fibImage(c11Codecs[ci].codec == "ext12")
		add(ci, fw, fh, fq, "fib")
	}
	// (3b') flat 8x8 tiles whose DC steps follow a Fibonacci profile (many tiny steps, a handful of
	// big ones, one full-range step): rare DC-difference categories get the longest codes of the
	// optimised DC table, so "code + magnitude bits" reaches its maximum total length
	for ci := range c11Codecs {
		n := c.N(6, 40)
		if c11Codecs[ci].codec == "ext12" {
			n = c.N(32, 120)
		}
		for rep := 0; rep < n; rep++ {
			add(ci, 256, 256, []int{100, 100, 98, 100, 96, 99}[rep%6], "dcfib")
		}
	}
	// (3c) sparse coefficient patterns: single DCT basis functions (all 63 AC positions in one
	// 64x64 image), pairs with row/column 7, row- and column-constant 8-periodic stripes; at
	// the qualities where the bound is tight; several seeds = several amplitudes / DC levels
	for ci := range c11Codecs {
		for _, content := range []string{"basis", "basis2", "rowstripes", "colstripes"} {
			for _, q := range []int{100, 95, 75} {
				for rep := 0; rep < c.N(3, 12); rep++ {
					add(ci, 64, 64, q, content)
				}
				add(ci, rng.Range(9, 80), rng.Range(9, 80), q, content)
			}
		}
	}
	// (4) larger images (up to 512); 65535-wide strips only in thorough
	big := [][2]int{{64, 64}, {100, 75}, {256, 256}, {255, 257}, {512, 3}, {3, 512}}
	if c.Thor {
		big = append(big, [2]int{512, 512}, [2]int{511, 509}, [2]int{65535, 1}, [2]int{1, 65535}, [2]int{4096, 9})
	}
	for i, s := range big {
		for ci := range c11Codecs {
			add(ci, s[0], s[1], []int{100, 90, 37, 5, 62, 1}[(i+ci)%6], "")
		}
	}
	return cases
}

// allowance actually consumed: max over all samples of |dec-src| - (table term of the bound),
// per codec class; reported as a note (evidence for the kernel-deviation hypotheses of
// C11_grey_bound_partial, not an oracle).
var c11Mu sync.Mutex
var c11Used = map[string]float64{}

func c11NoteUsed(class string, v float64) {
	c11Mu.Lock()
	if old, ok := c11Used[class]; !ok || v > old {
		c11Used[class] = v
	}
	c11Mu.Unlock()
}

func runC11(c *Ctx) {
	c.R.Rule = "C11: image = (codec in baseline/ext8/ext12, w, h, comps, quality, content class, seed); every quality 1..100 for every codec; " +
		"sizes 1..33 x 1..33 (quick: seeded third) plus up to 512; contents noise/Nyquist checkerboards/extremes/ramps/constant; " +
		"non-trivial = not a constant image or quality<100 (i.e. quantisation or AC content present)"
	if replayCases(c) {
		return
	}
	cases := c11Cases(c)
	c11Mu.Lock()
	c11Used = map[string]float64{}
	c11Mu.Unlock()
	ParallelFor(len(cases), c.Work, func(i int) { c11One(c, cases[i], i < 3) })
	var ks []string
	for k := range c11Used {
		ks = append(ks, k)
	}
	sort.Strings(ks)
	for _, k := range ks {
		c.R.Note("c11: allowance consumed (max of |dec-src| minus the table term) %s = %.3f", k, c11Used[k])
	}
	runOptHuff(c, "C11")
	runDctCorr(c, "C11")
}

func c11One(c *Ctx, k c11Case, sample bool) {
	px := k.pixels()
	nontriv := k.Content != "const" && k.Content != "black" && k.Content != "white" || k.Q < 100
	key := fmt.Sprintf("c11:%s:%d:%d:%d:%d:%s:%d", k.Codec, k.W, k.H, k.Comps, k.Q, k.Content, k.Seed)
	c.R.Case(key, nontriv, "c11.codec."+k.Codec+fmt.Sprintf(".comps%d", k.Comps), "c11."+qClass(k.Q), "c11."+sizeBucket(k.W, k.H),
		"c11.content."+k.Content, fmt.Sprintf("c11.partial.%dx%d", k.W%8, k.H%8))
	if sample {
		c.R.Sample(k)
	}
	cc := fmt.Sprintf("c11:%s", k.Codec)
	in := map[string]interface{}{"case": k}
	if len(px) <= 1024 {
		in["pixels"] = Hex(px)
	}

	// encode
	var stream []byte
	var err error
	pan, msg := Safely(func() {
		switch k.Codec {
		case "baseline":
			stream, err = baseline.Encode(px, k.W, k.H, k.Comps, k.Q)
		case "ext8":
			stream, err = extended.Encode(px, k.W, k.H, k.Comps, 8, k.Q)
		case "ext12":
			stream, err = extended.Encode(px, k.W, k.H, k.Comps, 12, k.Q)
		}
	})
	c.R.Oracle("c11_accept")
	if pan || err != nil {
		c.R.Fail("oracle", "c11_accept", cc+":encode", fmt.Sprintf("encoder failed on a valid image: panic=%v %s err=%v", pan, msg, err), in)
		return
	}
	in["stream"] = clipBytes(stream)
	if acMaxLen16(stream) {
		c.R.Case(key+":deep", false, "c11.ac_table_uses_16_bit_codes."+k.Codec)
	}

	// tables written in that stream
	hd := walk(stream)
	if hd.Err != "" || hd.SOF == 0 || len(hd.Comps) != k.Comps {
		c.R.Fail("oracle", "c11_accept", cc+":stream-structure", "emitted stream cannot be walked: "+hd.Err, in)
		return
	}
	var bq [3]float64
	for i, sc := range hd.Comps {
		if sc.Tq > 3 || !hd.HaveQT[sc.Tq] {
			c.R.Fail("oracle", "c11_accept", cc+":stream-structure", fmt.Sprintf("component %d refers to quantisation table %d which the stream does not define", i, sc.Tq), in)
			return
		}
		bq[i] = qBound(&hd.QT[sc.Tq])
	}

	// decode with the matching decoder
	var dec []byte
	var dw, dh, dcomps, dbits int
	pan, msg = Safely(func() {
		switch k.Codec {
		case "baseline":
			dec, dw, dh, dcomps, err = baseline.Decode(stream)
			dbits = 8
		default:
			dec, dw, dh, dcomps, dbits, err = extended.Decode(stream)
		}
	})
	if pan || err != nil {
		c.R.Fail("oracle", "c11_accept", cc+":accept", fmt.Sprintf("matching decoder rejects the encoder's stream (q=%d): panic=%v %s err=%v", k.Q, pan, msg, err), in)
		return
	}

	// identical geometry
	c.R.Oracle("c11_geometry")
	wantBits, bps := 8, 1
	if k.Codec == "ext12" {
		wantBits, bps = 12, 2
	}
	if dw != k.W || dh != k.H || dcomps != k.Comps || dbits != wantBits || len(dec) != k.W*k.H*k.Comps*bps {
		c.R.Fail("oracle", "c11_geometry", fmt.Sprintf("%s:comps=%d:geometry", cc, k.Comps),
			fmt.Sprintf("decoded geometry %dx%dx%d/%d bits, %d bytes; source %dx%dx%d/%d bits, %d bytes", dw, dh, dcomps, dbits, len(dec), k.W, k.H, k.Comps, wantBits, k.W*k.H*k.Comps*bps), in)
		return
	}

	// per-sample bound
	c.R.Oracle("c11_bound")
	var bound [3]float64
	if k.Comps == 1 {
		bound[0] = bq[0] + 2
	} else {
		rb := rgbBounds(bq[0], bq[1], bq[2])
		for i := range rb {
			bound[i] = rb[i] + 5
		}
	}
	worst, worstAt, worstC := 0, -1, 0
	allow, used := 2.0, -1e9
	if k.Comps == 3 {
		allow = 5
	}
	n := k.W * k.H
	for p := 0; p < n; p++ {
		for ch := 0; ch < k.Comps; ch++ {
			var s, d int
			if bps == 2 {
				s = int(px[2*p]) | int(px[2*p+1])<<8
				d = int(dec[2*p]) | int(dec[2*p+1])<<8
			} else {
				s, d = int(px[p*k.Comps+ch]), int(dec[p*k.Comps+ch])
			}
			e := absi(s - d)
			if ex := float64(e) - (bound[ch] - allow); ex > used {
				used = ex
			}
			if float64(e) > bound[ch]+1e-9 && (worstAt < 0 || float64(e)-bound[ch] > float64(worst)-bound[worstC]) {
				worst, worstAt, worstC = e, p, ch
			}
		}
	}
	c11NoteUsed(fmt.Sprintf("%s/comps=%d (of %.0f)", k.Codec, k.Comps, allow), used)
	if worstAt >= 0 {
		c.R.Fail("oracle", "c11_bound", fmt.Sprintf("%s:%s:comps=%d:bound", cc, qClass(k.Q), k.Comps),
			fmt.Sprintf("q=%d sample (x=%d,y=%d,ch=%d) differs by %d > bound %.3f (table bounds %.3f %.3f %.3f)", k.Q, worstAt%k.W, worstAt/k.W, worstC, worst, bound[worstC], bq[0], bq[1], bq[2]), in)
	}
	if k.Q == 100 && k.Comps == 1 {
		c.R.Oracle("c11_q100")
		mx := 0
		for p := 0; p < n; p++ {
			var s, d int
			if bps == 2 {
				s = int(px[2*p]) | int(px[2*p+1])<<8
				d = int(dec[2*p]) | int(dec[2*p+1])<<8
			} else {
				s, d = int(px[p]), int(dec[p])
			}
			mx = maxi(mx, absi(s-d))
		}
		if mx > 10 {
			c.R.Fail("oracle", "c11_q100", cc+":q100:grey10", fmt.Sprintf("quality 100 greyscale sample off by %d > 10", mx), in)
		}
	}
}

// dcFibMosaic: w x h image (multiples of 8) of flat 8x8 tiles; the tile-to-tile steps are 2^k grey
// levels with Fibonacci-like frequencies (k = top..0: 1, 2, 3, 5, 8, ... tiles), shuffled.
func dcFibMosaic(rng *Rand, w, h, comps int, twelve bool) []byte {
	bw, bh := w/8, h/8
	top, maxv := 7, 255
	if twelve {
		top, maxv = 11, 4095
	}
	var seq []int
	a, b := 1, 2
	for k := top; k >= 0; k-- {
		for i := 0; i < a; i++ {
			seq = append(seq, 1<<uint(k))
		}
		a, b = b, a+b
	}
	for len(seq) < bw*bh-1 {
		seq = append(seq, 0)
	}
	seq = seq[:bw*bh-1]
	for i := len(seq) - 1; i > 0; i-- {
		j := rng.Intn(i + 1)
		seq[i], seq[j] = seq[j], seq[i]
	}
	vals := make([]int, 0, bw*bh)
	v := (maxv + 1) / 2
	vals = append(vals, v)
	for _, m := range seq {
		if v+m <= maxv {
			v += m
		} else {
			v -= m
		}
		vals = append(vals, v)
	}
	bps := 1
	if twelve {
		bps = 2
	}
	out := make([]byte, w*h*comps*bps)
	for y := 0; y < h; y++ {
		for x := 0; x < w; x++ {
			val := vals[(y/8)*bw+x/8]
			for cpt := 0; cpt < comps; cpt++ {
				i := (y*w+x)*comps + cpt
				if twelve {
					out[2*i], out[2*i+1] = byte(val), byte(val>>8)
				} else {
					out[i] = byte(val)
				}
			}
		}
	}
	return out
}
