// Package dct: suites for C11 (JPEG DCT loss bound) and C15 (agreement with an independent
// JPEG implementation): generators, an own marker walker that reads the quantisation tables
// out of the emitted stream, a reference baseline encoder independent of /repo, oracles and
// the correspondence with the extracted Coq model (area JpegDCT).
package dct

import (
	"fmt"
	"math"

	. "verif/harness/vhlib"
)

// Register adds this area's suites.
func Register(s Suites) {
	s.Add("C11", runC11)
	s.Add("C15", runC15)
}

// ---------- own marker walker (independent of /repo/jpeg/standard) ----------

type sofComp struct{ ID, H, V, Tq int }

type hdr struct {
	SOF       int // marker low byte (0xC0, 0xC1, ...), 0 if none seen
	Precision int
	W, H      int
	Comps     []sofComp
	QT        [4][64]int // natural order
	QTPrec    [4]int     // 0 = 8-bit, 1 = 16-bit
	HaveQT    [4]bool
	DRI       int
	Segs      []int // marker low bytes in stream order up to and including SOS
	Err       string
}

// zigzag order -> natural order (T.81 Figure A.6); written out here so that the walker does
// not depend on the table under test.
var zz = [64]int{
	0, 1, 8, 16, 9, 2, 3, 10, 17, 24, 32, 25, 18, 11, 4, 5,
	12, 19, 26, 33, 40, 48, 41, 34, 27, 20, 13, 6, 7, 14, 21, 28,
	35, 42, 49, 56, 57, 50, 43, 36, 29, 22, 15, 23, 30, 37, 44, 51,
	58, 59, 52, 45, 38, 31, 39, 46, 53, 60, 61, 54, 47, 55, 62, 63,
}

// walk parses the marker segments up to the first SOS.
func walk(s []byte) *hdr {
	h := &hdr{}
	if len(s) < 4 || s[0] != 0xFF || s[1] != 0xD8 {
		h.Err = "no SOI"
		return h
	}
	p := 2
	for {
		if p+4 > len(s) {
			h.Err = "truncated before SOS"
			return h
		}
		if s[p] != 0xFF {
			h.Err = fmt.Sprintf("expected marker at %d", p)
			return h
		}
		for p < len(s) && s[p] == 0xFF {
			p++
		}
		if p >= len(s) {
			h.Err = "truncated"
			return h
		}
		m := int(s[p])
		p++
		h.Segs = append(h.Segs, m)
		if m == 0xD9 {
			h.Err = "EOI before SOS"
			return h
		}
		if p+2 > len(s) {
			h.Err = "truncated length"
			return h
		}
		l := int(s[p])<<8 | int(s[p+1])
		if l < 2 || p+l > len(s) {
			h.Err = "bad segment length"
			return h
		}
		d := s[p+2 : p+l]
		p += l
		switch {
		case m == 0xDB:
			o := 0
			for o < len(d) {
				pq, tq := int(d[o]>>4), int(d[o]&15)
				o++
				if tq > 3 || pq > 1 {
					h.Err = "bad DQT Pq/Tq"
					return h
				}
				n := 64 * (pq + 1)
				if o+n > len(d) {
					h.Err = "short DQT"
					return h
				}
				for i := 0; i < 64; i++ {
					if pq == 0 {
						h.QT[tq][zz[i]] = int(d[o+i])
					} else {
						h.QT[tq][zz[i]] = int(d[o+2*i])<<8 | int(d[o+2*i+1])
					}
				}
				h.QTPrec[tq] = pq
				h.HaveQT[tq] = true
				o += n
			}
		case m >= 0xC0 && m <= 0xCF && m != 0xC4 && m != 0xC8 && m != 0xCC:
			if len(d) < 6 {
				h.Err = "short SOF"
				return h
			}
			h.SOF = m
			h.Precision = int(d[0])
			h.H = int(d[1])<<8 | int(d[2])
			h.W = int(d[3])<<8 | int(d[4])
			n := int(d[5])
			if len(d) < 6+3*n {
				h.Err = "short SOF"
				return h
			}
			for i := 0; i < n; i++ {
				h.Comps = append(h.Comps, sofComp{int(d[6+3*i]), int(d[7+3*i] >> 4), int(d[7+3*i] & 15), int(d[8+3*i])})
			}
		case m == 0xDD:
			if len(d) == 2 {
				h.DRI = int(d[0])<<8 | int(d[1])
			}
		case m == 0xDA:
			return h
		}
	}
}

// ---------- the property's bound ----------

func cW(k int) float64 {
	if k == 0 {
		return 1 / math.Sqrt2
	}
	return 1
}

// qBound = (1/8) * sum_{u,v} C(u) C(v) Q[v*8+u]   (the property's worst-case effect of a table)
func qBound(q *[64]int) float64 {
	s := 0.0
	for v := 0; v < 8; v++ {
		for u := 0; u < 8; u++ {
			s += cW(u) * cW(v) * float64(q[v*8+u])
		}
	}
	return s / 8
}

// rgbBounds propagates the luma/chroma bounds through |inverse colour matrix| (JFIF).
func rgbBounds(by, bcb, bcr float64) [3]float64 {
	return [3]float64{
		by + 1.402*bcr,
		by + 0.344136*bcb + 0.714136*bcr,
		by + 1.772*bcb,
	}
}

// ---------- contents ----------

var contents8 = []string{"basis", "basis2", "rowstripes", "colstripes", "gnoise", "noise", "checker", "black", "white", "extremes", "hramp", "vramp", "const", "checker2", "smooth", "colchecker"}

// gen8 makes w*h*comps samples of the named content class.
func gen8(rng *Rand, class string, w, h, comps int) []byte {
	p := make([]byte, w*h*comps)
	cv := make([]byte, comps)
	for c := range cv {
		cv[c] = byte(rng.Intn(256))
	}
	ph := rng.Intn(2)
	sp := newSparse(rng, 255)
	for y := 0; y < h; y++ {
		for x := 0; x < w; x++ {
			for c := 0; c < comps; c++ {
				var v int
				switch class {
				case "basis", "basis2", "rowstripes", "colstripes":
					v = sp.at(class, x, y, c, w)
				case "noise":
					v = rng.Intn(256)
				case "gnoise": // graded noise: amplitude grows from 0 (top left) to full (bottom right)
					a := 1 + 255*(x+y)/maxi(w+h-2, 1)
					v = 128 - a/2 + rng.Intn(a)
					if v < 0 {
						v = 0
					}
					if v > 255 {
						v = 255
					}
				case "checker": // Nyquist checkerboard, all channels in phase
					v = 255 * ((x + y + ph) & 1)
				case "colchecker": // Nyquist checkerboard, channels in opposite phase
					v = 255 * ((x + y + c + ph) & 1)
				case "checker2":
					v = 255 * ((x/2 + y/2 + ph) & 1)
				case "black":
					v = 0
				case "white":
					v = 255
				case "extremes":
					v = 255 * rng.Intn(2)
				case "hramp":
					v = (x*255/maxi(w-1, 1) + 37*c) % 256
				case "vramp":
					v = (y*255/maxi(h-1, 1) + 91*c) % 256
				case "const":
					v = int(cv[c])
				case "smooth":
					v = int(127.5 + 127.5*math.Sin(float64(x)/7.0+float64(c))*math.Cos(float64(y)/5.0))
				}
				p[(y*w+x)*comps+c] = byte(v)
			}
		}
	}
	return p
}

var contents12 = []string{"basis", "basis2", "rowstripes", "colstripes", "gnoise", "noise", "checker", "black", "white", "extremes", "hramp", "vramp", "const", "smooth", "noise8"}

// gen12 makes w*h 12-bit samples (little endian, 2 bytes each).
func gen12(rng *Rand, class string, w, h int) []byte {
	p := make([]byte, w*h*2)
	cv := rng.Intn(4096)
	ph := rng.Intn(2)
	sp := newSparse(rng, 4095)
	for y := 0; y < h; y++ {
		for x := 0; x < w; x++ {
			var v int
			switch class {
			case "basis", "basis2", "rowstripes", "colstripes":
				v = sp.at(class, x, y, 0, w)
			case "noise":
				v = rng.Intn(4096)
			case "noise8":
				v = 2048 + rng.Intn(256) - 128
			case "gnoise":
				a := 1 + 4095*(x+y)/maxi(w+h-2, 1)
				v = 2048 - a/2 + rng.Intn(a)
				if v < 0 {
					v = 0
				}
				if v > 4095 {
					v = 4095
				}
			case "checker":
				v = 4095 * ((x + y + ph) & 1)
			case "black":
				v = 0
			case "white":
				v = 4095
			case "extremes":
				v = 4095 * rng.Intn(2)
			case "hramp":
				v = x * 4095 / maxi(w-1, 1)
			case "vramp":
				v = y * 4095 / maxi(h-1, 1)
			case "const":
				v = cv
			case "smooth":
				v = int(2047.5 + 2047.5*math.Sin(float64(x)/7.0)*math.Cos(float64(y)/5.0))
			}
			p[(y*w+x)*2] = byte(v)
			p[(y*w+x)*2+1] = byte(v >> 8)
		}
	}
	return p
}

func maxi(a, b int) int {
	if a > b {
		return a
	}
	return b
}
func mini(a, b int) int {
	if a < b {
		return a
	}
	return b
}
func absi(a int) int {
	if a < 0 {
		return -a
	}
	return a
}

func sizeBucket(w, h int) string {
	m := maxi(w, h)
	switch {
	case m <= 8:
		return "size.le8"
	case m <= 33:
		return "size.le33"
	case m <= 128:
		return "size.le128"
	default:
		return "size.gt128"
	}
}

func qClass(q int) string {
	switch {
	case q == 100:
		return "q100"
	case q >= 50:
		return "q50-99"
	default:
		return "q1-49"
	}
}

// clipBytes keeps replay inputs small in the result file.
func clipBytes(b []byte) string {
	if len(b) > 4096 {
		return Hex(b[:4096]) + fmt.Sprintf("...(%d bytes)", len(b))
	}
	return Hex(b)
}

// ---------- sparse-coefficient contents ----------
// "basis":      per 8x8 block, DC + amplitude * ONE DCT basis function (u,v); block b of the
//
//	image (row-major) gets natural index k = (b + shift) mod 64, so any 64
//	consecutive blocks (e.g. a 64x64 image) cover DC-only and all 63 AC positions,
//	among them the pure-row (0,v) and pure-column (u,0) ones and v or u = 7.
//	For RGB every channel has its own shift (so chroma carries patterns too).
//
// "basis2":     DC + one basis function by block index + a second one that is alternately
//
//	(0,7) "row 7 only", (7,0) "column 7 only", (0,1), (1,0): the pairs
//	rows {1,7}, columns {1,7}, rows {7} + anything, ...
//
// "rowstripes": every column identical, rows follow a random 8-periodic profile
//
//	(only the coefficients (0,v) are non-zero); "colstripes": the transpose.
//
// Amplitudes run from a few levels to clipping; chosen per image from the seed.
type sparse struct {
	max     int
	dc      [3]int
	amp     [3]float64
	shift   [3]int
	profile [3][8]int
}

func newSparse(rng *Rand, max int) *sparse {
	s := &sparse{max: max}
	amps := []float64{0.012, 0.047, 0.16, 0.35, 0.5, 0.7, 1.0} // of full scale; the last ones clip
	for c := 0; c < 3; c++ {
		s.dc[c] = max/4 + rng.Intn(max/2+1)
		if rng.Intn(3) == 0 {
			s.dc[c] = (max + 1) / 2
		}
		s.amp[c] = amps[rng.Intn(len(amps))] * float64(max)
		s.shift[c] = rng.Intn(64)
		for i := range s.profile[c] {
			s.profile[c][i] = rng.Intn(max + 1)
		}
	}
	return s
}

func (s *sparse) at(class string, x, y, c, w int) int {
	c %= 3
	switch class {
	case "rowstripes":
		return s.profile[c][y%8]
	case "colstripes":
		return s.profile[c][x%8]
	}
	b := (y/8)*((w+7)/8) + x/8
	k := (b + s.shift[c]) % 64
	u, v := k%8, k/8
	f := float64(s.dc[c])
	if k != 0 {
		f += s.amp[c] * refCos[u][x%8] * refCos[v][y%8]
	}
	if class == "basis2" {
		k2 := [4][2]int{{0, 7}, {7, 0}, {0, 1}, {1, 0}}[b%4]
		f += 0.6 * s.amp[c] * refCos[k2[0]][x%8] * refCos[k2[1]][y%8]
	}
	r := int(f + 0.5)
	if f < 0 {
		r = 0
	}
	if r > s.max {
		r = s.max
	}
	return r
}
