package dct

import (
	"bytes"
	"fmt"
	"image"
	"image/color"
	"image/jpeg"
	"math"
	"sort"
	"strings"
	"sync/atomic"

	"github.com/cocosip/go-dicom-codecs/jpeg/baseline"
	"github.com/cocosip/go-dicom-codecs/jpeg/extended"
	. "verif/harness/vhlib"
)

// ---------- the independent decoder's result in a comparable form ----------

// refImage is what image/jpeg reconstructed: grey samples, or per pixel the two admissible
// RGB renderings of its YCbCr output (exact JFIF formulas in float, rounded; and Go's own
// color.YCbCrToRGB). A library sample agrees when it is within tolerance of either — the
// property does not fix the conversion, so the oracle accepts both.
type refImage struct {
	W, H, Comps int
	Gray        []byte
	RGBa, RGBb  []byte
}

func jfifRGB(y, cb, cr byte) (byte, byte, byte) {
	cl := func(f float64) byte {
		v := int(math.Floor(f + 0.5))
		if v < 0 {
			v = 0
		}
		if v > 255 {
			v = 255
		}
		return byte(v)
	}
	Y, B, R := float64(y), float64(cb)-128, float64(cr)-128
	return cl(Y + 1.402*R), cl(Y - 0.344136*B - 0.714136*R), cl(Y + 1.772*B)
}

func independentDecode(stream []byte) (*refImage, error) {
	var img image.Image
	var err error
	pan, msg := Safely(func() { img, err = jpeg.Decode(bytes.NewReader(stream)) })
	if pan {
		return nil, fmt.Errorf("image/jpeg panicked: %s", msg)
	}
	if err != nil {
		return nil, err
	}
	b := img.Bounds()
	r := &refImage{W: b.Dx(), H: b.Dy()}
	switch t := img.(type) {
	case *image.Gray:
		r.Comps = 1
		r.Gray = make([]byte, r.W*r.H)
		for y := 0; y < r.H; y++ {
			for x := 0; x < r.W; x++ {
				r.Gray[y*r.W+x] = t.Pix[t.PixOffset(b.Min.X+x, b.Min.Y+y)]
			}
		}
	case *image.YCbCr:
		r.Comps = 3
		r.RGBa, r.RGBb = make([]byte, r.W*r.H*3), make([]byte, r.W*r.H*3)
		for y := 0; y < r.H; y++ {
			for x := 0; x < r.W; x++ {
				yi, ci := t.YOffset(b.Min.X+x, b.Min.Y+y), t.COffset(b.Min.X+x, b.Min.Y+y)
				o := (y*r.W + x) * 3
				r.RGBa[o], r.RGBa[o+1], r.RGBa[o+2] = jfifRGB(t.Y[yi], t.Cb[ci], t.Cr[ci])
				r.RGBb[o], r.RGBb[o+1], r.RGBb[o+2] = color.YCbCrToRGB(t.Y[yi], t.Cb[ci], t.Cr[ci])
			}
		}
	default:
		return nil, fmt.Errorf("image/jpeg returned %T", img)
	}
	return r, nil
}

// checkLibDecoder runs one library decoder on the stream and compares with the independent
// result. Returns the failing site ("" = agrees) and a description.
func checkLibDecoder(dec string, stream []byte, ref *refImage) (site, what string) {
	var px []byte
	var w, h, comps int
	var err error
	pan, msg := Safely(func() {
		if dec == "baseline" {
			px, w, h, comps, err = baseline.Decode(stream)
		} else {
			px, w, h, comps, _, err = extended.Decode(stream)
		}
	})
	if pan {
		return "panic", "decoder panicked: " + msg
	}
	if err != nil {
		return "reject", "decoder rejects a stream image/jpeg accepts: " + err.Error()
	}
	if w != ref.W || h != ref.H || comps != ref.Comps || len(px) != ref.W*ref.H*ref.Comps {
		return "geometry", fmt.Sprintf("returned %dx%dx%d with %d samples; expected %dx%dx%d = %d tightly packed samples", w, h, comps, len(px), ref.W, ref.H, ref.Comps, ref.W*ref.H*ref.Comps)
	}
	tol := 2
	if comps == 3 {
		tol = 6
	}
	worst, at := 0, -1
	for i := range px {
		var d int
		if comps == 1 {
			d = absi(int(px[i]) - int(ref.Gray[i]))
		} else {
			d = mini(absi(int(px[i])-int(ref.RGBa[i])), absi(int(px[i])-int(ref.RGBb[i])))
		}
		if d > worst {
			worst, at = d, i
		}
	}
	if worst > tol {
		p := at / comps
		return "agree", fmt.Sprintf("sample (x=%d,y=%d,ch=%d) differs from image/jpeg by %d > %d", p%w, p/w, at%comps, worst, tol)
	}
	return "", ""
}

// ---------- decoder-side cases ----------

type c15Case struct {
	Src     string  `json:"src"` // imagejpeg | ref
	W       int     `json:"w"`
	H       int     `json:"h"`
	Comps   int     `json:"comps"`
	Content string  `json:"content"`
	Seed    uint64  `json:"case_seed"`
	Opt     refOpts `json:"opts"`
}

func defaultOpts(comps, q int) refOpts {
	o := refOpts{Sampling: "444", Quality: q, IDs: [3]int{1, 2, 3}, Tq: [2]int{0, 1}, Th: [2]int{0, 1}}
	if comps == 1 {
		o.Sampling = "gray"
	}
	return o
}

func (k c15Case) stream() ([]byte, error) {
	px := gen8(NewRand(k.Seed), k.Content, k.W, k.H, k.Comps)
	if k.Src == "imagejpeg" {
		var buf bytes.Buffer
		var err error
		if k.Comps == 1 {
			g := image.NewGray(image.Rect(0, 0, k.W, k.H))
			copy(g.Pix, px)
			err = jpeg.Encode(&buf, g, &jpeg.Options{Quality: k.Opt.Quality})
		} else {
			m := image.NewRGBA(image.Rect(0, 0, k.W, k.H))
			for i := 0; i < k.W*k.H; i++ {
				m.Pix[4*i], m.Pix[4*i+1], m.Pix[4*i+2], m.Pix[4*i+3] = px[3*i], px[3*i+1], px[3*i+2], 255
			}
			err = jpeg.Encode(&buf, m, &jpeg.Options{Quality: k.Opt.Quality})
		}
		return buf.Bytes(), err
	}
	if k.Comps == 1 {
		return refEncode([][]byte{px}, k.W, k.H, k.Opt), nil
	}
	return refEncode(rgbToPlanes(px, k.W, k.H), k.W, k.H, k.Opt), nil
}

func optSig(o refOpts, comps int) string {
	d := defaultOpts(comps, o.Quality)
	var parts []string
	if o.OptHuff {
		parts = append(parts, "opthuff")
	}
	if o.JFIF {
		parts = append(parts, "jfif")
	}
	if o.Adobe {
		parts = append(parts, "adobe")
	}
	if o.COM {
		parts = append(parts, "com")
	}
	if o.Merge {
		parts = append(parts, "merge")
	}
	if o.IDs != d.IDs {
		parts = append(parts, fmt.Sprintf("ids=%d%d%d", o.IDs[0], o.IDs[1], o.IDs[2]))
	}
	if o.Tq != d.Tq {
		parts = append(parts, fmt.Sprintf("tq=%d%d", o.Tq[0], o.Tq[1]))
	}
	if o.Th != d.Th {
		parts = append(parts, fmt.Sprintf("th=%d%d", o.Th[0], o.Th[1]))
	}
	sort.Strings(parts)
	r := 0
	if o.Restart > 0 {
		r = 1
	}
	s := fmt.Sprintf("sampling=%s:restart=%d", o.Sampling, r)
	if len(parts) > 0 {
		s += ":" + strings.Join(parts, ":")
	}
	return s
}

// evalCase: stream -> independent result -> site for one library decoder.
// site "ref-rejects" means image/jpeg itself refused the stream.
func evalCase(k c15Case, dec string) (site, what string, stream []byte) {
	stream, err := k.stream()
	if err != nil {
		return "ref-encode", err.Error(), nil
	}
	ref, err := independentDecode(stream)
	if err != nil {
		return "ref-rejects", err.Error(), stream
	}
	if ref.W != k.W || ref.H != k.H || ref.Comps != k.Comps {
		return "ref-rejects", "image/jpeg geometry differs from what was encoded", stream
	}
	site, what = checkLibDecoder(dec, stream, ref)
	return site, what, stream
}

// minimise resets every option that is not needed for the same failure site, then shrinks
// the size; the result names the smallest parameter class that still fails.
func minimise(k c15Case, dec, site string, sizeToo bool) c15Case {
	// "reject" and "agree" are one class here: after a desynchronised entropy decoder the
	// garbage either trips an error or decodes to wrong samples, depending on content.
	cls := func(s string) string {
		if s == "reject" || s == "agree" {
			return "wrong"
		}
		return s
	}
	still := func(c c15Case) bool { s, _, _ := evalCase(c, dec); return s != "" && cls(s) == cls(site) }
	if k.Src == "ref" {
		d := defaultOpts(k.Comps, k.Opt.Quality)
		try := func(f func(o *refOpts)) {
			c := k
			f(&c.Opt)
			if c.Opt != k.Opt && still(c) {
				k = c
			}
		}
		try(func(o *refOpts) { o.Restart = 0 })
		try(func(o *refOpts) { o.Sampling = d.Sampling })
		try(func(o *refOpts) { o.OptHuff = false })
		try(func(o *refOpts) { o.JFIF = false })
		try(func(o *refOpts) { o.Adobe = false })
		try(func(o *refOpts) { o.COM = false })
		try(func(o *refOpts) { o.Merge = false })
		try(func(o *refOpts) { o.IDs = d.IDs })
		try(func(o *refOpts) { o.Tq = d.Tq })
		try(func(o *refOpts) { o.Th = d.Th })
		try(func(o *refOpts) { o.Quality = 75 })
		if k.Opt.Restart > 1 {
			try(func(o *refOpts) { o.Restart = 1 })
		}
	}
	if sizeToo {
		for _, content := range []string{"const", "hramp", "vramp"} {
			c := k
			c.Content = content
			if still(c) {
				k = c
				break
			}
		}
		for w := 1; w < k.W; w++ {
			c := k
			c.W = w
			if still(c) {
				k = c
				break
			}
		}
		for h := 1; h < k.H; h++ {
			c := k
			c.H = h
			if still(c) {
				k = c
				break
			}
		}
	}
	return k
}

func c15DecoderCases(c *Ctx) []c15Case {
	rng := c.Rng.Fork()
	var cases []c15Case
	samplings := []string{"444", "422", "420", "440"}
	randOpts := func(comps, w, h, q int) refOpts {
		o := defaultOpts(comps, q)
		if comps == 3 {
			o.Sampling = samplings[rng.Intn(4)]
		}
		o.OptHuff = rng.Bool()
		if rng.Intn(3) == 0 {
			switch rng.Intn(5) {
			case 0:
				o.Restart = 1
			case 1:
				o.Restart = rng.Range(2, 7)
			case 2: // one MCU row
				mw := 8
				if o.Sampling == "422" || o.Sampling == "420" {
					mw = 16
				}
				o.Restart = (w + mw - 1) / mw
			case 3:
				o.Restart = rng.Range(8, 40)
			default:
				o.Restart = 65535
			}
		}
		o.JFIF, o.Adobe, o.COM, o.Merge = rng.Intn(2) == 0, rng.Intn(5) == 0, rng.Intn(5) == 0, rng.Intn(3) == 0
		if rng.Intn(6) == 0 {
			o.IDs = [3]int{0, 1, 2}
		}
		if rng.Intn(5) == 0 {
			o.Tq = [][2]int{{2, 3}, {1, 0}, {3, 1}}[rng.Intn(3)]
		}
		if rng.Intn(6) == 0 {
			o.Th = [2]int{1, 0}
		}
		return o
	}
	add := func(src string, w, h, comps, q int, content string) {
		if content == "" {
			content = contents8[rng.Intn(len(contents8))]
		}
		k := c15Case{Src: src, W: w, H: h, Comps: comps, Content: content, Seed: rng.U64()}
		if src == "ref" {
			k.Opt = randOpts(comps, w, h, q)
		} else {
			k.Opt = defaultOpts(comps, q)
			if comps == 3 {
				k.Opt.Sampling = "420"
			}
		}
		cases = append(cases, k)
	}
	pickSrc := func(i int) string {
		if i%3 == 0 {
			return "imagejpeg"
		}
		return "ref"
	}
	// every quality 1..100 with both sources and both component counts
	n := 0
	for r := 0; r < c.N(2, 6); r++ {
		for q := 1; q <= 100; q++ {
			for _, comps := range []int{1, 3} {
				add("imagejpeg", rng.Range(1, 40), rng.Range(1, 40), comps, q, "")
				add("ref", rng.Range(1, 40), rng.Range(1, 40), comps, q, "")
			}
		}
	}
	// all sizes 1..33 x 1..33 (quick: a seeded third)
	for w := 1; w <= 33; w++ {
		for h := 1; h <= 33; h++ {
			if !c.Thor && rng.Intn(3) != 0 {
				continue
			}
			reps := c.N(3, 8)
			for r := 0; r < reps; r++ {
				add(pickSrc(n), w, h, []int{1, 3, 3}[n%3], rng.Range(1, 100), "")
				n++
			}
		}
	}
	// every sampling x restart class x table kind at a few sizes, so that no combination
	// depends on the random draw
	for _, s := range samplings {
		for _, rst := range []int{0, 1, 3} {
			for _, opt := range []bool{false, true} {
				for _, sz := range [][2]int{{16, 16}, {24, 24}, {17, 9}, {40, 33}} {
					k := c15Case{Src: "ref", W: sz[0], H: sz[1], Comps: 3, Content: "smooth", Seed: rng.U64(), Opt: defaultOpts(3, 85)}
					k.Opt.Sampling, k.Opt.Restart, k.Opt.OptHuff = s, rst, opt
					cases = append(cases, k)
				}
			}
		}
	}
	for _, rst := range []int{0, 1, 3} {
		for _, sz := range [][2]int{{16, 16}, {17, 9}, {40, 33}} {
			k := c15Case{Src: "ref", W: sz[0], H: sz[1], Comps: 1, Content: "smooth", Seed: rng.U64(), Opt: defaultOpts(1, 85)}
			k.Opt.Restart = rst
			cases = append(cases, k)
		}
	}
	// restart intervals that need the high byte of the DRI field (Ri >= 256), on images with
	// more MCUs than the interval: 200x168 grey = 525 MCUs, 4:4:4 colour the same, 4:2:0 = 143
	for _, rst := range []int{255, 256, 257, 300, 512} {
		for _, comps := range []int{1, 3} {
			k := c15Case{Src: "ref", W: 200, H: 168, Comps: comps, Content: "smooth", Seed: rng.U64(), Opt: defaultOpts(comps, 85)}
			k.Opt.Restart = rst
			if comps == 3 {
				k.Opt.Sampling = "444"
			}
			cases = append(cases, k)
		}
	}
	// sparse coefficient patterns (single basis functions at all 63 AC positions, pairs with
	// row/column 7, 8-periodic stripes) from both independent encoders
	for _, content := range []string{"basis", "basis2", "rowstripes", "colstripes"} {
		for _, q := range []int{100, 95, 75} {
			for _, comps := range []int{1, 3} {
				for rep := 0; rep < c.N(2, 8); rep++ {
					add("imagejpeg", 64, 64, comps, q, content)
					add("ref", 64, 64, comps, q, content)
				}
				add("ref", rng.Range(9, 80), rng.Range(9, 80), comps, q, content)
			}
		}
	}
	// larger
	big := [][2]int{{64, 64}, {100, 75}, {256, 256}, {255, 129}, {131, 256}}
	if c.Thor {
		big = append(big, [2]int{512, 512}, [2]int{1021, 3}, [2]int{5, 777})
	}
	for i, s := range big {
		for _, comps := range []int{1, 3} {
			add("imagejpeg", s[0], s[1], comps, []int{90, 50, 10, 100, 75}[i%5], "")
			add("ref", s[0], s[1], comps, []int{75, 100, 30, 95, 5}[i%5], "")
			add("ref", s[0], s[1], comps, []int{60, 20, 100, 85, 45}[i%5], "")
		}
	}
	// long entropy-coded segments with dense restart markers: scans of tens of KiB with an RSTn
	// every one or two MCUs, so that markers fall on every kind of internal buffer boundary of a
	// decoder (a marker split across two reads, a marker at the start or end of a read)
	for rep := 0; rep < c.N(40, 300); rep++ {
		w, h := 8*rng.Range(24, 40), 8*rng.Range(12, 20)
		comps := 1
		if rep%4 == 3 {
			comps = 3
		}
		k := c15Case{Src: "ref", W: w, H: h, Comps: comps, Content: []string{"noise", "gnoise"}[rep%2], Seed: rng.U64(), Opt: defaultOpts(comps, []int{95, 90, 98, 85}[rep%4])}
		k.Opt.Restart = 1 + rep%2
		if comps == 3 {
			k.Opt.Sampling = "444"
		}
		cases = append(cases, k)
	}
	return cases
}

var c15MinBudget int64

func runC15(c *Ctx) {
	c.R.Rule = "C15 encoder side: 8-bit images (baseline/ext8, 1/3 components, every quality, sizes 1..33^2 + larger) -> image/jpeg.Decode; " +
		"decoder side: streams from image/jpeg.Encode (grey; colour 4:2:0) and from the harness's reference baseline encoder " +
		"(grey/4:4:4/4:2:2/4:2:0/4:4:0, standard or optimised Huffman tables, restart intervals, JFIF/Adobe/COM, table ids) -> image/jpeg.Decode " +
		"as independent result vs baseline.Decode and extended.Decode; non-trivial = content not constant"
	atomic.StoreInt64(&c15MinBudget, 400)
	if replayCases(c) {
		return
	}
	// ---- (a) encoder side ----
	enc := c11Cases(c)
	var enc8 []c11Case
	for _, k := range enc {
		if k.Codec != "ext12" {
			enc8 = append(enc8, k)
		}
	}
	ParallelFor(len(enc8), c.Work, func(i int) { c15EncOne(c, enc8[i], i < 2) })
	// ---- (b) decoder side ----
	cases := c15DecoderCases(c)
	ParallelFor(len(cases), c.Work, func(i int) { c15DecOne(c, cases[i], i < 2 || i == len(cases)-1) })
	runOptHuff(c, "C15")
	runDctCorr(c, "C15")
}

func c15EncOne(c *Ctx, k c11Case, sample bool) {
	px := k.pixels()
	key := fmt.Sprintf("c15enc:%s:%d:%d:%d:%d:%s:%d", k.Codec, k.W, k.H, k.Comps, k.Q, k.Content, k.Seed)
	c.R.Case(key, k.Content != "const" && k.Content != "black" && k.Content != "white", "c15.enc."+k.Codec+fmt.Sprintf(".comps%d", k.Comps), "c15.enc."+qClass(k.Q), "c15.enc."+sizeBucket(k.W, k.H))
	if sample {
		c.R.Sample(k)
	}
	in := map[string]interface{}{"case": k}
	var stream []byte
	var err error
	pan, msg := Safely(func() {
		if k.Codec == "baseline" {
			stream, err = baseline.Encode(px, k.W, k.H, k.Comps, k.Q)
		} else {
			stream, err = extended.Encode(px, k.W, k.H, k.Comps, 8, k.Q)
		}
	})
	if pan || err != nil {
		// C11's accept oracle reports encoder failures; nothing to compare here
		c.R.Note("c15: encoder failed on %s %dx%dx%d q=%d: %v %s", k.Codec, k.W, k.H, k.Comps, k.Q, err, msg)
		return
	}
	in["stream"] = clipBytes(stream)
	if acMaxLen16(stream) {
		c.R.Case(key+":deep", false, "c15.enc.ac_table_uses_16_bit_codes")
	}
	c.R.Oracle("c15_imagejpeg_accepts")
	ref, err := independentDecode(stream)
	if err != nil {
		c.R.Fail("oracle", "c15_imagejpeg_accepts", fmt.Sprintf("c15:imagejpeg-rejects:%s:comps=%d", k.Codec, k.Comps), fmt.Sprintf("image/jpeg rejects the %s stream (q=%d): %v", k.Codec, k.Q, err), in)
		return
	}
	if ref.W != k.W || ref.H != k.H || ref.Comps != k.Comps {
		c.R.Fail("oracle", "c15_imagejpeg_accepts", fmt.Sprintf("c15:imagejpeg-geometry:%s:comps=%d", k.Codec, k.Comps), fmt.Sprintf("image/jpeg sees %dx%dx%d", ref.W, ref.H, ref.Comps), in)
		return
	}
	for _, dec := range []string{"baseline", "extended"} {
		c.R.Oracle("c15_enc_agree")
		if site, what := checkLibDecoder(dec, stream, ref); site != "" {
			c.R.Fail("oracle", "c15_enc_agree", fmt.Sprintf("c15:enc:%s:comps=%d:%s.Decode:%s", k.Codec, k.Comps, dec, site), fmt.Sprintf("q=%d %dx%d: %s", k.Q, k.W, k.H, what), in)
		}
	}
}

func c15DecOne(c *Ctx, k c15Case, sample bool) {
	key := fmt.Sprintf("c15dec:%s:%d:%d:%d:%s:%d:%s:%d", k.Src, k.W, k.H, k.Comps, k.Content, k.Seed, optSig(k.Opt, k.Comps), k.Opt.Quality)
	rcls := "0"
	switch {
	case k.Opt.Restart == 1:
		rcls = "1"
	case k.Opt.Restart > 1:
		rcls = "n"
	}
	c.R.Case(key, k.Content != "const" && k.Content != "black" && k.Content != "white", "c15.dec.src."+k.Src, "c15.dec.sampling."+k.Opt.Sampling,
		"c15.dec.restart."+rcls, "c15.dec."+qClass(k.Opt.Quality), "c15.dec."+sizeBucket(k.W, k.H), fmt.Sprintf("c15.dec.opthuff.%v", k.Opt.OptHuff), "c15.dec.content."+k.Content)
	if sample {
		c.R.Sample(k)
	}
	for _, dec := range []string{"baseline", "extended"} {
		site, what, stream := evalCase(k, dec)
		if site == "ref-encode" || site == "ref-rejects" {
			// the independent side refused: not a statement about the library. Recorded so
			// that a broken reference encoder cannot silently shrink the search.
			c.R.Note("c15: independent side failed (%s) on %s %dx%dx%d %s: %s", site, k.Src, k.W, k.H, k.Comps, optSig(k.Opt, k.Comps), what)
			c.R.Case(key+":refskip", false, "c15.dec.reference_refused")
			return
		}
		c.R.Oracle("c15_dec_" + dec)
		if site == "" {
			continue
		}
		min := k
		if atomic.AddInt64(&c15MinBudget, -1) >= 0 {
			min = minimise(k, dec, site, true)
		} else {
			min = minimise(k, dec, site, false)
		}
		ms, mw, mstream := evalCase(min, dec)
		if ms == "" || strings.HasPrefix(ms, "ref-") { // cannot happen (minimise keeps the failure class); fall back to the original
			min, ms, mw, mstream = k, site, what, stream
		}
		sig := fmt.Sprintf("c15:godec:%s.Decode:%s:%s", dec, optSig(min.Opt, min.Comps), ms)
		c.R.Fail("oracle", "c15_dec_"+dec, sig, fmt.Sprintf("[%s %dx%dx%d q=%d] %s (original case %dx%d %s: %s)", min.Src, min.W, min.H, min.Comps, min.Opt.Quality, mw, k.W, k.H, optSig(k.Opt, k.Comps), what),
			map[string]interface{}{"case": min, "stream": clipBytes(mstream), "original_case": k})
	}
}
