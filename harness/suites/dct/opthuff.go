package dct

// Component-level oracle (and correspondence, when the integrated model carries the op
// jll_opt_table of area JpegLL) on the exported standard.BuildOptimalHuffmanTable and
// standard.BuildHuffmanCodes, with frequency vectors that force Huffman trees deeper than
// 16 — the case in which the Annex K.2 length limiting has to work. Also the image-level
// cases of the quick tiers that reach such trees.

import (
	"fmt"
	"strings"

	"github.com/cocosip/go-dicom-codecs/jpeg/standard"
	. "verif/harness/vhlib"
)

type freqCase struct {
	Class string `json:"class"`
	Freq  []int  `json:"freq"` // 256 entries
}

func optHuffCases(c *Ctx) []freqCase {
	rng := c.Rng.Fork()
	var cases []freqCase
	add := func(class string, f [256]int) {
		cases = append(cases, freqCase{class, append([]int(nil), f[:]...)})
	}
	place := func(vals []int, shuffle bool) [256]int {
		var f [256]int
		pos := make([]int, 256)
		for i := range pos {
			pos[i] = i
		}
		if shuffle {
			for i := 255; i > 0; i-- {
				j := rng.Intn(i + 1)
				pos[i], pos[j] = pos[j], pos[i]
			}
		}
		for i, v := range vals {
			f[pos[i]] = v
		}
		return f
	}
	// Fibonacci-like counts over 17..40 symbols (tree depth = number of symbols)
	for n := 17; n <= 40; n++ {
		fib := make([]int, n)
		a, b := 1, 1
		for i := range fib {
			fib[i] = a
			a, b = b, a+b
		}
		add(fmt.Sprintf("fib%d", n), place(fib, false))
		add(fmt.Sprintf("fib%d", n), place(fib, true))
		// Fibonacci scaled and jittered
		j := make([]int, n)
		for i := range j {
			j[i] = fib[i]*3 + rng.Intn(2)
		}
		add(fmt.Sprintf("fibj%d", n), place(j, true))
	}
	// geometric counts (ratio 2 and 3)
	for _, n := range []int{17, 20, 25, 30, 40} {
		g2, g3 := make([]int, n), make([]int, n)
		for i := 0; i < n; i++ {
			g2[i] = 1 << uint(i)
			g3[i] = 1
			for k := 0; k < i && g3[i] < 1<<40; k++ {
				g3[i] *= 3
			}
		}
		add(fmt.Sprintf("geo2_%d", n), place(g2, true))
		add(fmt.Sprintf("geo3_%d", n), place(g3, true))
	}
	// one huge + many ones
	for _, n := range []int{2, 17, 40, 100, 255, 256} {
		v := make([]int, n)
		for i := range v {
			v[i] = 1
		}
		v[0] = 1 << 40
		add(fmt.Sprintf("huge+ones%d", n), place(v, true))
	}
	// all 256 symbols: equal, Fibonacci tail, random
	{
		v := make([]int, 256)
		for i := range v {
			v[i] = 7
		}
		add("all256eq", place(v, false))
		a, b := 1, 1
		for i := range v {
			v[i] = a
			if i < 60 {
				a, b = b, a+b
			}
		}
		add("all256fib", place(v, true))
		for i := range v {
			v[i] = 1 + rng.Intn(1<<uint(rng.Range(1, 30)))
		}
		add("all256rand", place(v, true))
	}
	// single symbol, two symbols, empty
	add("single", place([]int{5}, true))
	add("two", place([]int{5, 1}, true))
	add("empty", place(nil, false))
	// random sparse with heavy-tailed counts
	for i := 0; i < c.N(150, 3000); i++ {
		n := rng.Range(1, 256)
		if i%2 == 0 {
			n = rng.Range(17, 60)
		}
		v := make([]int, n)
		for k := range v {
			v[k] = 1 + rng.Intn(1<<uint(rng.Range(0, 34)))
		}
		add("sparse", place(v, true))
	}
	return cases
}

// checkOptTable: "" if the table is a valid covering prefix code for the frequencies.
func checkOptTable(freq []int, t *standard.HuffmanTable, codes []standard.HuffmanCode) string {
	sum, kraft := 0, 0
	for l := 0; l < 16; l++ {
		if t.Bits[l] < 0 {
			return fmt.Sprintf("Bits[%d] = %d is negative", l, t.Bits[l])
		}
		sum += t.Bits[l]
		kraft += t.Bits[l] << uint(15-l)
	}
	if sum != len(t.Values) {
		return fmt.Sprintf("sum(Bits) = %d but len(Values) = %d", sum, len(t.Values))
	}
	if kraft > 1<<16 {
		return fmt.Sprintf("Kraft sum %d/65536 > 1", kraft)
	}
	seen := map[byte]int{}
	for _, v := range t.Values {
		seen[v]++
	}
	for s, f := range freq {
		if f > 0 && seen[byte(s)] != 1 {
			return fmt.Sprintf("symbol %d has frequency %d and occurs %d times in Values", s, f, seen[byte(s)])
		}
	}
	for v, n := range seen {
		if n > 1 {
			return fmt.Sprintf("symbol %d listed %d times", v, n)
		}
	}
	// the codes the encoders will actually use
	type cl struct {
		code uint16
		n    int
	}
	var used []cl
	for s, f := range freq {
		if f == 0 {
			continue
		}
		cd := codes[s]
		if cd.Len < 1 || cd.Len > 16 {
			return fmt.Sprintf("symbol %d (frequency %d) has code length %d", s, f, cd.Len)
		}
		if int(cd.Code) >= 1<<uint(cd.Len) {
			return fmt.Sprintf("symbol %d: code %d does not fit %d bits", s, cd.Code, cd.Len)
		}
		used = append(used, cl{cd.Code, cd.Len})
	}
	for i := range used {
		for j := range used {
			if i == j || used[i].n > used[j].n {
				continue
			}
			if used[j].code>>uint(used[j].n-used[i].n) == used[i].code {
				return fmt.Sprintf("code %d/%d is a prefix of (or equal to) code %d/%d", used[i].code, used[i].n, used[j].code, used[j].n)
			}
		}
	}
	return ""
}

func runOptHuff(c *Ctx, prop string) {
	cases := optHuffCases(c)
	sig := strings.ToLower(prop) + ":opthuff:invalid-table"
	corrBudget := c.N(60, 600)
	ParallelFor(len(cases), c.Work, func(i int) {
		k := cases[i]
		var fr [256]uint64
		nz := 0
		for s, f := range k.Freq {
			fr[s] = uint64(f)
			if f > 0 {
				nz++
			}
		}
		c.R.Case(fmt.Sprintf("opthuff:%s:%d:%v", k.Class, i, k.Freq[:8]), nz > 1, "opthuff."+strings.TrimRight(k.Class, "0123456789_"))
		var t *standard.HuffmanTable
		var codes []standard.HuffmanCode
		pan, msg := Safely(func() {
			t = standard.BuildOptimalHuffmanTable(fr)
			codes = standard.BuildHuffmanCodes(t)
		})
		c.R.Oracle("opthuff_table")
		if pan {
			// kept apart from an invalid table: a panic is a different defect (seen on the
			// unchanged code for trees deeper than 32: the bits[] counter array has 33 entries)
			c.R.Fail("oracle", "opthuff_table", strings.ToLower(prop)+":opthuff:panic", fmt.Sprintf("[%s, %d symbols] BuildOptimalHuffmanTable/BuildHuffmanCodes panicked: %s", k.Class, nz, msg), k)
			return
		}
		if why := checkOptTable(k.Freq, t, codes); why != "" {
			c.R.Fail("oracle", "opthuff_table", sig, fmt.Sprintf("[%s, %d symbols] %s", k.Class, nz, why), k)
		}
		// correspondence with the model of the builder in area JpegLL (JllHuff.build_optimal),
		// when the model executable carries that op
		if c.HasModel() && i < corrBudget {
			rep := c.M.Call("jll_opt_table", Ints(k.Freq))
			if rep == "?" {
				c.R.Case("opthuff:noop", false, "opthuff.corr_skipped_op_absent")
				return
			}
			b := make([]byte, 0, 16+len(t.Values))
			for l := 0; l < 16; l++ {
				b = append(b, byte(t.Bits[l]))
			}
			b = append(b, t.Values...)
			c.CorrEq("opthuff_table", "dct:opthuff", rep, "ok:"+Hex(b), k)
		}
	})
}

// ---------- image-level cases that reach AC trees deeper than 16 ----------

// acMaxLen16 reports whether some AC table of the stream has a code of length 16.
func acMaxLen16(s []byte) bool {
	p := 2
	for p+4 <= len(s) && s[p] == 0xFF {
		m, l := s[p+1], int(s[p+2])<<8|int(s[p+3])
		if m == 0xC4 {
			d := s[p+4 : p+2+l]
			o := 0
			for o+17 <= len(d) {
				n := 0
				for i := 0; i < 16; i++ {
					n += int(d[o+1+i])
				}
				if d[o]>>4 == 1 && d[o+16] > 0 {
					return true
				}
				o += 17 + n
			}
		}
		if m == 0xDA {
			break
		}
		p += 2 + l
	}
	return false
}

// fibImage builds a greyscale picture whose 8x8 blocks each carry exactly one non-zero AC
// coefficient after quantisation, chosen so that the (run,size) symbols follow a Fibonacci
// histogram (a(k) = a(k-1)+a(k-2)+1) over 19 symbols (plus EOB in every block): the unrestricted Huffman tree of the
// AC table is about 20 deep, so BuildOptimalHuffmanTable has to limit lengths. The quality
// is chosen so that every table entry is >= 2 (8-bit: 90) or >= 5 (12-bit: 75): pixel
// rounding then never produces stray coefficients and the histogram is exactly the designed
// one. The seven rarest symbols are LARGE coefficients on basis functions with u,v >= 1
// (peak amplitude about 110 of 255, or 1500 of 4095): a block whose symbol is mis-coded is
// off by more than the property's bound at that quality.
// Returns samples (0..255 or 0..4095), width, height and the quality to encode with.
func fibImage(twelve bool) (smp []int, w, h, quality int) {
	quality, mid := 90, 128
	target := 500.0 // upper limit of v*Q of a rare coefficient; amplitude = v*Q/4
	if twelve {
		quality, mid, target = 75, 2048, 7000.0
	}
	q := refScaleQuant(0, quality)
	type sy struct{ zpos, val int }
	var syms []sy
	// all designed values sit in the middle of their size category (3*2^(s-2)), so that the
	// small deviations of pixel rounding and of the integer DCT cannot move them to another
	// category
	mid3 := func(limit float64, qk int) int { // largest 3*2^j with value*qk <= limit
		v := 3
		for float64(2*v*qk) <= limit {
			v *= 2
		}
		return v
	}
	for _, zp := range []int{4, 7, 8, 11, 12, 13, 16} { // natural 9,10,17,25,18,11,12: u,v >= 1
		syms = append(syms, sy{zp, mid3(target, q[zz[zp]])})
	}
	for _, zp := range []int{1, 2, 3, 5, 6, 9} {
		// two clearly representable amplitudes per position, two categories apart
		v1 := 3
		for v1*q[zz[zp]] < 16 {
			v1 *= 2
		}
		syms = append(syms, sy{zp, v1}, sy{zp, 4 * v1})
	}
	// counts a(k) = a(k-1) + a(k-2) + 1 (1,1,3,5,9,15,...): the sum of the two smallest
	// weights is always strictly between the next two leaves, so the Huffman tree is a chain
	// whatever the tie-breaking rule: depth = number of symbols
	var blocks []sy
	a, b := 1, 1
	for i := range syms {
		for k := 0; k < a; k++ {
			v := syms[i].val
			if k&1 == 1 {
				v = -v
			}
			blocks = append(blocks, sy{syms[i].zpos, v})
		}
		a, b = b, a+b+1
	}
	bw := 148
	bh := (len(blocks) + bw - 1) / bw
	w, h = bw*8, bh*8
	smp = make([]int, w*h)
	for i := range smp {
		smp[i] = mid
	}
	// interleave so that rare and frequent symbols are spread over the picture
	stride := 2659
	for gcd(stride, len(blocks)) != 1 {
		stride++
	}
	for bi, blk := range blocks {
		pos := (bi * stride) % len(blocks)
		bx, by := pos%bw, pos/bw
		k := zz[blk.zpos]
		u, v := k%8, k/8
		amp := float64(blk.val*q[k]) * cW(u) * cW(v) / 4
		for y := 0; y < 8; y++ {
			for x := 0; x < 8; x++ {
				f := float64(mid) + amp*refCos[u][x]*refCos[v][y]
				smp[(by*8+y)*w+bx*8+x] = int(f + 0.5)
			}
		}
	}
	return smp, w, h, quality
}

func gcd(a, b int) int {
	for b != 0 {
		a, b = b, a%b
	}
	return a
}
