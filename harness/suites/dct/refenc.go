package dct

// Reference baseline-sequential JPEG encoder (T.81 process 1), plain Go, independent of
// /repo: float64 forward DCT from the defining formula, Annex K tables scaled by quality,
// standard (K.3-K.6) or per-image optimised (Annex K.2) Huffman tables, sampling
// 4:4:4 / 4:2:2 / 4:2:0 / 4:4:0 or greyscale, optional DRI + RSTn, optional JFIF APP0,
// Adobe APP14 and COM segments. Its streams are only ever used together with
// image/jpeg.Decode as the independent reference result.

import (
	"math"
	"sort"
)

type refOpts struct {
	Sampling string `json:"sampling"` // gray | 444 | 422 | 420 | 440
	Quality  int    `json:"quality"`
	OptHuff  bool   `json:"opt_huffman"`
	Restart  int    `json:"restart_interval"` // MCUs per interval, 0 = none
	JFIF     bool   `json:"jfif"`
	Adobe    bool   `json:"adobe"`
	COM      bool   `json:"com"`
	IDs      [3]int `json:"component_ids"`
	Tq       [2]int `json:"tq"`              // quantisation table ids for luma / chroma
	Th       [2]int `json:"th"`              // Huffman table ids for luma / chroma (0..1 in baseline)
	Merge    bool   `json:"merged_segments"` // one DQT and one DHT segment carrying all tables
}

var refCos [8][8]float64

func init() {
	for u := 0; u < 8; u++ {
		for x := 0; x < 8; x++ {
			refCos[u][x] = math.Cos(float64(2*x+1) * float64(u) * math.Pi / 16)
		}
	}
}

func refFDCT(blk *[64]float64) [64]float64 {
	var out [64]float64
	for v := 0; v < 8; v++ {
		for u := 0; u < 8; u++ {
			s := 0.0
			for y := 0; y < 8; y++ {
				for x := 0; x < 8; x++ {
					s += blk[y*8+x] * refCos[u][x] * refCos[v][y]
				}
			}
			out[v*8+u] = s * cW(u) * cW(v) / 4
		}
	}
	return out
}

func refScaleQuant(idx, quality int) [64]int { // natural order
	scale := 200 - 2*quality
	if quality < 50 {
		scale = 5000 / quality
	}
	var q [64]int
	for i := 0; i < 64; i++ {
		x := (int(refUnscaledQuant[idx][i])*scale + 50) / 100
		if x < 1 {
			x = 1
		}
		if x > 255 {
			x = 255
		}
		q[zz[i]] = x
	}
	return q
}

type refCode struct {
	code uint32
	len  int
}

// Annex C: codes from BITS/HUFFVAL.
func refCodes(spec refHuffSpec) [256]refCode {
	var out [256]refCode
	code, k := uint32(0), 0
	for l := 1; l <= 16; l++ {
		for i := 0; i < int(spec.count[l-1]); i++ {
			out[spec.value[k]] = refCode{code, l}
			code++
			k++
		}
		code <<= 1
	}
	return out
}

// Annex K.2: optimal code lengths for the given frequencies, limited to 16 bits, with the
// all-ones code word reserved (pseudo-symbol 256 with frequency 1).
func refOptimal(freqIn *[256]int) refHuffSpec {
	var freq [257]int
	copy(freq[:], freqIn[:])
	freq[256] = 1
	var codesize [257]int
	var others [257]int
	for i := range others {
		others[i] = -1
	}
	for {
		// v1: least frequency > 0, largest symbol on ties; v2: next least
		v1, v2 := -1, -1
		for i := 0; i <= 256; i++ {
			if freq[i] > 0 && (v1 < 0 || freq[i] <= freq[v1]) {
				v1 = i
			}
		}
		for i := 0; i <= 256; i++ {
			if freq[i] > 0 && i != v1 && (v2 < 0 || freq[i] <= freq[v2]) {
				v2 = i
			}
		}
		if v2 < 0 {
			break
		}
		freq[v1] += freq[v2]
		freq[v2] = 0
		codesize[v1]++
		for others[v1] >= 0 {
			v1 = others[v1]
			codesize[v1]++
		}
		others[v1] = v2
		codesize[v2]++
		for others[v2] >= 0 {
			v2 = others[v2]
			codesize[v2]++
		}
	}
	var bits [300]int
	for i := 0; i <= 256; i++ {
		if codesize[i] > 0 {
			bits[codesize[i]]++
		}
	}
	// Adjust_BITS (Figure K.3)
	for i := len(bits) - 1; i > 16; i-- {
		for bits[i] > 0 {
			j := i - 2
			for bits[j] == 0 {
				j--
			}
			bits[i] -= 2
			bits[i-1]++
			bits[j+1] += 2
			bits[j]--
		}
	}
	i := 16
	for bits[i] == 0 {
		i--
	}
	bits[i]-- // remove the reserved code point
	var spec refHuffSpec
	for l := 1; l <= 16; l++ {
		spec.count[l-1] = byte(bits[l])
	}
	// Sort_input (Figure K.4): symbols by increasing code size
	type sv struct{ size, sym int }
	var svs []sv
	for s := 0; s < 256; s++ {
		if codesize[s] > 0 {
			svs = append(svs, sv{codesize[s], s})
		}
	}
	sort.SliceStable(svs, func(a, b int) bool { return svs[a].size < svs[b].size })
	for _, x := range svs {
		spec.value = append(spec.value, byte(x.sym))
	}
	return spec
}

type refBits struct {
	out  []byte
	acc  uint32
	nacc int
}

func (b *refBits) put(code uint32, n int) {
	for i := n - 1; i >= 0; i-- {
		b.acc = b.acc<<1 | (code>>uint(i))&1
		b.nacc++
		if b.nacc == 8 {
			b.out = append(b.out, byte(b.acc))
			if byte(b.acc) == 0xFF {
				b.out = append(b.out, 0)
			}
			b.acc, b.nacc = 0, 0
		}
	}
}
func (b *refBits) align() {
	for b.nacc != 0 {
		b.put(1, 1)
	}
}

func refCategory(v int) int {
	if v < 0 {
		v = -v
	}
	n := 0
	for v > 0 {
		n++
		v >>= 1
	}
	return n
}

type refComp struct {
	h, v   int
	bw, bh int   // plane size in samples (multiple of 8*h, 8*v per MCU grid)
	plane  []int // samples
	tq, th int   // indexes 0 = luma, 1 = chroma
	coefs  [][64]int
}

// refLayout sets sampling factors and the MCU grid for nc components.
func refLayout(nc, w, h int, o refOpts) (comps []*refComp, mcuCols, mcuRows int) {
	comps = make([]*refComp, nc)
	maxH, maxV := 1, 1
	for i := range comps {
		c := &refComp{h: 1, v: 1}
		if i > 0 {
			c.tq, c.th = 1, 1
		}
		comps[i] = c
	}
	if nc == 3 {
		switch o.Sampling {
		case "422":
			comps[0].h = 2
		case "420":
			comps[0].h, comps[0].v = 2, 2
		case "440":
			comps[0].v = 2
		}
		maxH, maxV = comps[0].h, comps[0].v
	}
	mcuCols = (w + 8*maxH - 1) / (8 * maxH)
	mcuRows = (h + 8*maxV - 1) / (8 * maxV)
	for _, c := range comps {
		c.bw, c.bh = mcuCols*c.h*8, mcuRows*c.v*8
		c.coefs = make([][64]int, (c.bw/8)*(c.bh/8))
	}
	return
}

// refEncode encodes planes (full resolution, one per component, w*h samples each).
func refEncode(planes [][]byte, w, h int, o refOpts) []byte {
	nc := len(planes)
	comps, mcuCols, mcuRows := refLayout(nc, w, h, o)
	maxH, maxV := comps[0].h, comps[0].v
	qt := [2][64]int{refScaleQuant(0, o.Quality), refScaleQuant(1, o.Quality)}

	// planes: subsample by box average of the edge-replicated source, pad to the MCU grid
	for i, c := range comps {
		sx, sy := maxH/c.h, maxV/c.v
		c.plane = make([]int, c.bw*c.bh)
		for y := 0; y < c.bh; y++ {
			for x := 0; x < c.bw; x++ {
				s := 0
				for dy := 0; dy < sy; dy++ {
					for dx := 0; dx < sx; dx++ {
						yy, xx := mini(y*sy+dy, h-1), mini(x*sx+dx, w-1)
						s += int(planes[i][yy*w+xx])
					}
				}
				c.plane[y*c.bw+x] = (s + sx*sy/2) / (sx * sy)
			}
		}
		// transform + quantise every block of the component's grid
		nbx, nby := c.bw/8, c.bh/8
		for by := 0; by < nby; by++ {
			for bx := 0; bx < nbx; bx++ {
				var blk [64]float64
				for y := 0; y < 8; y++ {
					for x := 0; x < 8; x++ {
						blk[y*8+x] = float64(c.plane[(by*8+y)*c.bw+bx*8+x]) - 128
					}
				}
				f := refFDCT(&blk)
				var k [64]int
				for j := 0; j < 64; j++ {
					r := f[j] / float64(qt[c.tq][j])
					if r < 0 {
						k[j] = -int(math.Floor(-r + 0.5))
					} else {
						k[j] = int(math.Floor(r + 0.5))
					}
				}
				c.coefs[by*nbx+bx] = k
			}
		}
	}
	return refEmit(comps, mcuCols, mcuRows, w, h, o)
}

// refEmit entropy-codes the quantised coefficient grids (c.coefs, row-major over the
// component's MCU-padded block grid) and writes the stream.
func refEmit(comps []*refComp, mcuCols, mcuRows, w, h int, o refOpts) []byte {
	nc := len(comps)
	qt := [2][64]int{refScaleQuant(0, o.Quality), refScaleQuant(1, o.Quality)}
	// scan order walk, shared by the statistics pass and the coding pass
	type sym struct {
		comp  int
		dc    bool
		s     int // huffman symbol
		extra uint32
		nbits int
		rst   int // >=0: restart marker number to emit before this symbol
	}
	var syms []sym
	pred := make([]int, nc)
	mcu := 0
	rstn := 0
	for my := 0; my < mcuRows; my++ {
		for mx := 0; mx < mcuCols; mx++ {
			pendingRst := -1
			if o.Restart > 0 && mcu > 0 && mcu%o.Restart == 0 {
				pendingRst = rstn
				rstn = (rstn + 1) & 7
				for i := range pred {
					pred[i] = 0
				}
			}
			for ci, c := range comps {
				nbx := c.bw / 8
				for v := 0; v < c.v; v++ {
					for hh := 0; hh < c.h; hh++ {
						k := &c.coefs[(my*c.v+v)*nbx+mx*c.h+hh]
						diff := k[0] - pred[ci]
						pred[ci] = k[0]
						cat := refCategory(diff)
						ex := diff
						if diff < 0 {
							ex = diff + (1 << uint(cat)) - 1
						}
						syms = append(syms, sym{ci, true, cat, uint32(ex), cat, pendingRst})
						pendingRst = -1
						run := 0
						for z := 1; z < 64; z++ {
							val := k[zz[z]]
							if val == 0 {
								run++
								continue
							}
							for run > 15 {
								syms = append(syms, sym{ci, false, 0xF0, 0, 0, -1})
								run -= 16
							}
							cat := refCategory(val)
							ex := val
							if val < 0 {
								ex = val + (1 << uint(cat)) - 1
							}
							syms = append(syms, sym{ci, false, run<<4 | cat, uint32(ex), cat, -1})
							run = 0
						}
						if run > 0 {
							syms = append(syms, sym{ci, false, 0, 0, 0, -1})
						}
					}
				}
			}
			mcu++
		}
	}

	// Huffman tables: index 0/1 = luma DC/AC, 2/3 = chroma DC/AC
	specs := refStdHuff
	if o.OptHuff {
		var fr [4][256]int
		for _, s := range syms {
			t := comps[s.comp].th * 2
			if !s.dc {
				t++
			}
			fr[t][s.s]++
		}
		for t := 0; t < 4; t++ {
			if nc == 1 && t >= 2 {
				continue
			}
			specs[t] = refOptimal(&fr[t])
		}
	}
	var codes [4][256]refCode
	for t := range codes {
		codes[t] = refCodes(specs[t])
	}

	// ---- emit ----
	var out []byte
	seg := func(m byte, d []byte) {
		out = append(out, 0xFF, m, byte((len(d)+2)>>8), byte(len(d)+2))
		out = append(out, d...)
	}
	out = append(out, 0xFF, 0xD8)
	if o.JFIF {
		seg(0xE0, []byte{'J', 'F', 'I', 'F', 0, 1, 2, 0, 0, 1, 0, 1, 0, 0})
	}
	if o.Adobe {
		tr := byte(0)
		if nc == 3 {
			tr = 1 // YCbCr
		}
		seg(0xEE, []byte{'A', 'd', 'o', 'b', 'e', 0, 100, 0, 0, 0, 0, tr})
	}
	if o.COM {
		seg(0xFE, []byte("reference encoder \xff\xd8 \xff\x00 comment"))
	}
	ntab := 1
	if nc == 3 {
		ntab = 2
	}
	var dqt []byte
	for t := 0; t < ntab; t++ {
		d := []byte{byte(o.Tq[t])}
		for i := 0; i < 64; i++ {
			d = append(d, byte(qt[t][zz[i]]))
		}
		if o.Merge {
			dqt = append(dqt, d...)
		} else {
			seg(0xDB, d)
		}
	}
	if o.Merge {
		seg(0xDB, dqt)
	}
	sof := []byte{8, byte(h >> 8), byte(h), byte(w >> 8), byte(w), byte(nc)}
	for i, c := range comps {
		sof = append(sof, byte(o.IDs[i]), byte(c.h<<4|c.v), byte(o.Tq[c.tq]))
	}
	seg(0xC0, sof)
	var dht []byte
	for t := 0; t < 2*ntab; t++ {
		d := []byte{byte((t&1)<<4 | o.Th[t/2])}
		d = append(d, specs[t].count[:]...)
		d = append(d, specs[t].value...)
		if o.Merge {
			dht = append(dht, d...)
		} else {
			seg(0xC4, d)
		}
	}
	if o.Merge {
		seg(0xC4, dht)
	}
	if o.Restart > 0 {
		seg(0xDD, []byte{byte(o.Restart >> 8), byte(o.Restart)})
	}
	sos := []byte{byte(nc)}
	for i, c := range comps {
		sos = append(sos, byte(o.IDs[i]), byte(o.Th[c.th]<<4|o.Th[c.th]))
	}
	sos = append(sos, 0, 63, 0)
	seg(0xDA, sos)
	bw := &refBits{}
	for _, s := range syms {
		if s.rst >= 0 {
			bw.align()
			bw.out = append(bw.out, 0xFF, byte(0xD0+s.rst))
		}
		t := comps[s.comp].th * 2
		if !s.dc {
			t++
		}
		cd := codes[t][s.s]
		bw.put(cd.code, cd.len)
		if s.nbits > 0 {
			bw.put(s.extra, s.nbits)
		}
	}
	bw.align()
	out = append(out, bw.out...)
	out = append(out, 0xFF, 0xD9)
	return out
}

// rgbToPlanes converts interleaved RGB to full-resolution Y, Cb, Cr planes (JFIF, float, rounded).
func rgbToPlanes(rgb []byte, w, h int) [][]byte {
	y, cb, cr := make([]byte, w*h), make([]byte, w*h), make([]byte, w*h)
	cl := func(f float64) byte {
		v := int(math.Floor(f + 0.5))
		if v < 0 {
			v = 0
		}
		if v > 255 {
			v = 255
		}
		return byte(v)
	}
	for i := 0; i < w*h; i++ {
		r, g, b := float64(rgb[3*i]), float64(rgb[3*i+1]), float64(rgb[3*i+2])
		y[i] = cl(0.299*r + 0.587*g + 0.114*b)
		cb[i] = cl(-0.168736*r - 0.331264*g + 0.5*b + 128)
		cr[i] = cl(0.5*r - 0.418688*g - 0.081312*b + 128)
	}
	return [][]byte{y, cb, cr}
}
