package ht

import (
	"fmt"
	"hash/fnv"
	"strconv"

	"github.com/cocosip/go-dicom-codecs/jpeg2000/htj2k"
	. "verif/harness/vhlib"
)

// Whole HT code-block (cleanup pass) correspondence: the extracted model of HtBlockEnc/HtBlockDec
// against htj2k.HTEncoder / htj2k.HTDecoder, byte-exact, through the exported API
// (NewHTEncoder + SetKMax + Encode; NewHTDecoder + SetCodingContext + Decode).

type blockCase struct {
	W, H, Kmax int
	Class      string
	Data       []int32
}

var blockClasses = []string{"zero", "single", "sparse", "dense", "maxmag", "altsign", "ones", "ramp", "overbudget", "lowbits"}

func genBlock(r *Rand, i int, thor bool) blockCase {
	var w, h int
	switch i % 6 {
	case 0:
		w, h = r.Range(1, 64), r.Range(1, 64)
	case 1:
		w, h = 1, r.Range(1, 64)
	case 2:
		w, h = r.Range(1, 64), 1
	case 3:
		w, h = r.Pick(2, 3, 4, 5, 7, 8, 9, 63, 64), r.Pick(2, 3, 4, 5, 7, 8, 9, 63, 64)
	case 4:
		w, h = r.Range(1, 12), r.Range(1, 12)
	default:
		w, h = 2*r.Range(1, 32)-r.Intn(2), 2*r.Range(1, 32)-r.Intn(2)
	}
	if !thor && w*h > 1600 && i%10 != 0 {
		w, h = w/2+1, h/2+1
	}
	kmax := r.Range(1, 30)
	switch r.Intn(4) {
	case 0:
		kmax = r.Range(8, 10)
	case 1:
		kmax = r.Range(16, 20)
	}
	cl := blockClasses[i%len(blockClasses)]
	lim := int64(1) << uint(kmax)
	d := make([]int32, w*h)
	sgn := func(v int64) int32 {
		if r.Bool() {
			return int32(-v)
		}
		return int32(v)
	}
	switch cl {
	case "zero":
	case "single":
		d[r.Intn(len(d))] = sgn(1 + int64(r.U64()%uint64(lim-1+boolInt(lim == 1))))
		if lim == 1 { // kmax = 1: only magnitude 1 fits
			for j := range d {
				if d[j] != 0 {
					d[j] = sgn(1)
				}
			}
		}
	case "sparse":
		for j := range d {
			if r.Intn(20) == 0 {
				d[j] = sgn(int64(r.U64() % uint64(lim)))
			}
		}
	case "dense":
		for j := range d {
			d[j] = sgn(int64(r.U64() % uint64(lim)))
		}
	case "maxmag":
		for j := range d {
			if r.Intn(3) > 0 {
				d[j] = sgn(lim - 1)
			}
		}
	case "altsign":
		m := int64(r.U64()%uint64(lim)) | 1
		if m >= lim {
			m = lim - 1
		}
		for j := range d {
			if (j%w+j/w)%2 == 0 {
				d[j] = int32(m)
			} else {
				d[j] = int32(-m)
			}
		}
	case "ones":
		for j := range d {
			d[j] = int32(r.Intn(3) - 1)
		}
	case "ramp":
		for j := range d {
			d[j] = sgn(int64(j) % lim)
		}
	case "overbudget": // magnitudes beyond 2^Kmax: the encoder does not check; model must wrap identically
		for j := range d {
			if r.Intn(4) == 0 {
				d[j] = int32(int64(int32(r.U64())) >> uint(r.Intn(20)))
			}
		}
	case "lowbits":
		b := uint(r.Range(1, kmax))
		for j := range d {
			if r.Intn(2) == 0 {
				d[j] = sgn(int64(r.U64() % (uint64(1) << b)))
			}
		}
	}
	return blockCase{w, h, kmax, cl, d}
}

func boolInt(b bool) int64 {
	if b {
		return 1
	}
	return 0
}

func goDecode(w, h, kmax, missing int, blk []byte) string {
	dec := htj2k.NewHTDecoder(w, h)
	dec.SetCodingContext(kmax, missing)
	var got []int32
	var err error
	if pn, msg := Safely(func() { got, err = dec.Decode(blk, 1) }); pn {
		return "panic:" + msg
	}
	if err != nil {
		return "err"
	}
	return "ok:" + Ints32(got)
}

func blockModelSuite(c *Ctx) {
	n := c.N(360, 8000)
	rng := c.Rng.Fork()
	cases := make([]blockCase, n)
	for i := range cases {
		cases[i] = genBlock(rng, i, c.Thor)
	}
	mrng := make([]*Rand, n)
	for i := range mrng {
		mrng[i] = rng.Fork()
	}
	ParallelFor(n, c.Work, func(i int) {
		k := cases[i]
		r := mrng[i]
		nz := false
		for _, v := range k.Data {
			nz = nz || v != 0
		}
		hh := fnv.New64a()
		_, _ = hh.Write([]byte(Ints32(k.Data)))
		c.R.Case(fmt.Sprintf("blockm:%d:%d:%d:%x", k.W, k.H, k.Kmax, hh.Sum64()), nz, "blockm.class."+k.Class,
			fmt.Sprintf("blockm.w%d", (k.W+15)/16*16), fmt.Sprintf("blockm.h%d", (k.H+15)/16*16))
		if i == 3 {
			c.R.Sample(map[string]interface{}{"suite": "ht_block_encode", "w": k.W, "h": k.H, "kmax": k.Kmax, "class": k.Class})
		}
		in := map[string]interface{}{"w": k.W, "h": k.H, "kmax": k.Kmax, "class": k.Class, "data": Ints32(k.Data)}
		enc := htj2k.NewHTEncoder(k.W, k.H)
		enc.SetKMax(k.Kmax)
		var blk []byte
		var err error
		impl := ""
		if pn, msg := Safely(func() { blk, err = enc.Encode(append([]int32(nil), k.Data...), 1, 0) }); pn {
			impl = "panic:" + msg
		} else if err != nil {
			impl = "err"
		} else {
			impl = "ok:" + Hex(blk)
		}
		ws, hs, ks := strconv.Itoa(k.W), strconv.Itoa(k.H), strconv.Itoa(k.Kmax)
		c.CorrEq("ht_block_encode", "ht_block_encode:"+k.Class, c.M.Call("ht_block_encode", ws, hs, ks, Ints32(k.Data)), impl, in)
		if err != nil || len(impl) < 3 || impl[:3] != "ok:" {
			return
		}
		// C06_ht_segments_wellformed on the Go bytes: no pair 0xFF,>0x8F, last byte != 0xFF, Scup in 2..min(Lcup,4079)
		if k.Class != "overbudget" && len(blk) > 0 {
			c.R.Oracle("ht_segment_wellformed")
			bad := segmentDefect(blk)
			if bad != "" {
				c.R.Fail("oracle", "ht_segment_wellformed", "htblock:segment-malformed", bad, in)
			}
		}
		// decoder on the encoder's block
		miss := strconv.Itoa(k.Kmax - 1)
		c.CorrEq("ht_block_decode", "ht_block_decode:"+k.Class, c.M.Call("ht_block_decode", ws, hs, ks, miss, Hex(blk)),
			goDecode(k.W, k.H, k.Kmax, k.Kmax-1, blk), in)
		// decoder on damaged blocks: byte flips, truncation, spliced garbage, other missing-MSB counts
		if len(blk) == 0 {
			return
		}
		for t := 0; t < 3; t++ {
			mb := append([]byte(nil), blk...)
			mm := k.Kmax - 1
			switch r.Intn(5) {
			case 0:
				for f := 0; f <= r.Intn(3); f++ {
					mb[r.Intn(len(mb))] ^= byte(1 << uint(r.Intn(8)))
				}
			case 1:
				mb[r.Intn(len(mb))] = byte(r.Pick(0, 0xFF, 0x7F, 0x8F, 0x90, r.Intn(256)))
			case 2:
				mb = mb[:r.Range(1, len(mb))]
			case 3:
				for j := range mb {
					if r.Intn(4) == 0 {
						mb[j] = byte(r.Intn(256))
					}
				}
				// keep a plausible locator so that the body of the decoder is reached
				if len(mb) >= 2 {
					sc := r.Range(2, len(mb))
					if sc > 4079 {
						sc = 4079
					}
					mb[len(mb)-1] = byte(sc >> 4)
					mb[len(mb)-2] = mb[len(mb)-2]&0xF0 | byte(sc&0xF)
				}
			default:
				mm = r.Range(0, 29)
			}
			kk := k.Kmax
			if r.Intn(8) == 0 {
				kk = r.Range(1, 31)
			}
			din := map[string]interface{}{"w": k.W, "h": k.H, "kmax": kk, "missing": mm, "block": Hex(mb)}
			g := goDecode(k.W, k.H, kk, mm, mb)
			c.R.Oracle("ht_decode_no_panic")
			if len(g) > 6 && g[:6] == "panic:" {
				c.R.Fail("oracle", "ht_decode_no_panic", "htblock:decode-panic", g, din)
			}
			c.CorrEq("ht_block_decode_damaged", "ht_block_decode_damaged", c.M.Call("ht_block_decode", ws, hs, strconv.Itoa(kk), strconv.Itoa(mm), Hex(mb)), g, din)
		}
	})
}
