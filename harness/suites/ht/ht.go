// Package ht: component-level correspondence and oracles for HTJ2K (property C06): MEL bytes,
// U-VLC / CxtVLC codewords and run-time tables, level clamp, reversible QCD exponents / Kmax,
// Scup locator and a block-level round trip of the HT cleanup coder.
// The end-to-end oracles of C06 live in suites/j2ke2e (not duplicated here).
package ht

import (
	"bytes"
	"errors"
	"fmt"
	"hash/fnv"
	"strconv"
	"strings"
	"sync"
	"time"

	repocodec "github.com/cocosip/go-dicom-codecs/codec"
	"github.com/cocosip/go-dicom-codecs/jpeg2000"
	"github.com/cocosip/go-dicom-codecs/jpeg2000/htj2k"
	"github.com/cocosip/go-dicom-codecs/jpeg2000/t2"
	"github.com/cocosip/go-dicom/pkg/imaging/imagetypes"
	. "verif/harness/vhlib"
)

// Register adds this area's suites.
func Register(s Suites) { s.Add("C06", runC06); s.Add("C06FUSE", fusionSearch) }

func runC06(c *Ctx) {
	c.R.Rule = "HT components: MEL event sequences length 0..5000 with P(1) in {0,1/1000,1/64,1/8,1/2,7/8,1} and run-structured; " +
		"random byte strings for the MEL decoder; U-VLC u=0..200 and all 12-bit strings; whole run-time tables; CxtVLC whole (table,cq,rho,uoff,emb) domain; " +
		"level clamp over widths/heights 1..100; QCD for P 1..16 x levels 0..6 x 1/3 components; HT blocks 1x1..64x64 with Kmax 1..30; " +
		"non-trivial = at least one 1-event / non-zero coefficient / non-constant image"
	for _, st := range []struct {
		name string
		f    func(*Ctx)
	}{{"mel", melSuite}, {"uvlc", uvlcSuite}, {"vlc", vlcSuite}, {"levels", levelsSuite}, {"qcd", qcdSuite}, {"block", blockSuite}, {"blockmodel", blockModelSuite}, {"fusion", fusionCorpusSuite}, {"fusionframes", fusionFramesSuite}, {"bigblock", bigBlockSuite}} {
		t0 := time.Now()
		st.f(c)
		c.R.Note("ht.%s: %.1fs", st.name, time.Since(t0).Seconds())
	}
}

func evString(ev []bool) string {
	if len(ev) == 0 {
		return "_"
	}
	b := make([]byte, len(ev))
	for i, e := range ev {
		if e {
			b[i] = '1'
		} else {
			b[i] = '0'
		}
	}
	return string(b)
}

// ---------- MEL ----------

func melSuite(c *Ctx) {
	n := c.N(200, 5000)
	rng := c.Rng.Fork()
	type cs struct {
		ev   []bool
		bias string
	}
	cases := make([]cs, n)
	num := []int{0, 1, 1, 1, 1, 7, 1}
	den := []int{1, 1000, 64, 8, 2, 8, 1}
	for i := range cases {
		l := rng.Range(0, 5000)
		if i < 40 {
			l = i // every short length incl. 0
		} else if i%5 == 0 {
			l = rng.Range(0, 64)
		}
		ev := make([]bool, l)
		b := rng.Intn(len(num) + 1)
		name := "runs"
		if b < len(num) {
			name = fmt.Sprintf("%d/%d", num[b], den[b])
			for j := range ev {
				ev[j] = rng.Intn(den[b]) < num[b]
			}
		} else { // run-structured: long zero runs around the thresholds 1,2,4,8,16,32 separated by ones
			j := 0
			for j < l {
				run := rng.Pick(0, 1, 2, 3, 4, 7, 8, 9, 15, 16, 17, 31, 32, 33, 63, 64, 65, 200)
				for k := 0; k < run && j < l; k++ {
					ev[j] = false
					j++
				}
				if j < l {
					ev[j] = true
					j++
				}
			}
		}
		cases[i] = cs{ev, name}
	}
	ParallelFor(n, c.Work, func(i int) {
		k := cases[i]
		es := evString(k.ev)
		nz := false
		for _, e := range k.ev {
			nz = nz || e
		}
		c.R.Case("mel:"+es, nz, "mel.bias."+k.bias, fmt.Sprintf("mel.len.%d", (len(k.ev)+999)/1000*1000))
		if i == 45 {
			c.R.Sample(map[string]interface{}{"suite": "mel_bytes", "events": es})
		}
		enc := htj2k.NewMELEncoder()
		for _, e := range k.ev {
			if e {
				enc.EncodeBit(1)
			} else {
				enc.EncodeBit(0)
			}
		}
		out := append([]byte(nil), enc.Flush()...)
		in := map[string]interface{}{"events": es}
		c.CorrEq("mel_bytes", "mel_bytes", c.M.Call("ht_mel_enc", es), Hex(out), in)
		// decoder on the encoder's bytes: correspondence + round-trip oracle
		dec := htj2k.NewMELDecoder(out)
		got := make([]bool, 0, len(k.ev))
		okAll := true
		for range k.ev {
			b, ok := dec.DecodeBit()
			if !ok {
				okAll = false
				break
			}
			got = append(got, b == 1)
		}
		impl := "err"
		if okAll {
			impl = "ok:" + evString(got)
		}
		c.CorrEq("mel_decode", "mel_decode", c.M.Call("ht_mel_dec", strconv.Itoa(len(k.ev)), Hex(out)), impl, in)
		c.R.Oracle("mel_roundtrip")
		if !okAll || evString(got) != es {
			c.R.Fail("oracle", "mel_roundtrip", "mel:roundtrip", "MELDecoder does not return the events MELEncoder coded", in)
		}
	})
	// arbitrary byte strings through the decoder (incl. 0xFF runs): model vs Go
	m := c.N(200, 3000)
	rng2 := c.Rng.Fork()
	type bc struct {
		data []byte
		n    int
	}
	bcs := make([]bc, m)
	for i := range bcs {
		l := rng2.Range(0, 40)
		d := make([]byte, l)
		for j := range d {
			switch rng2.Intn(4) {
			case 0:
				d[j] = 0xFF
			case 1:
				d[j] = byte(rng2.Pick(0, 0x7F, 0x80, 0xFE))
			default:
				d[j] = byte(rng2.Intn(256))
			}
		}
		bcs[i] = bc{d, rng2.Range(0, 400)}
	}
	ParallelFor(m, c.Work, func(i int) {
		k := bcs[i]
		c.R.Case("melraw:"+Hex(k.data)+"/"+strconv.Itoa(k.n), len(k.data) > 0, "melraw")
		dec := htj2k.NewMELDecoder(k.data)
		got := make([]bool, 0, k.n)
		impl := ""
		for j := 0; j < k.n; j++ {
			b, ok := dec.DecodeBit()
			if !ok {
				impl = "err"
				break
			}
			got = append(got, b == 1)
		}
		if impl == "" {
			impl = "ok:" + evString(got)
		}
		c.CorrEq("mel_decode_raw", "mel_decode_raw", c.M.Call("ht_mel_dec", strconv.Itoa(k.n), Hex(k.data)), impl,
			map[string]interface{}{"data": Hex(k.data), "n": k.n})
	})
}

// ---------- U-VLC ----------

type recWriter struct{ bits []byte }

func (w *recWriter) WriteBits(v uint32, n int) error {
	for i := 0; i < n; i++ {
		w.bits = append(w.bits, byte('0'+(v>>uint(i))&1))
	}
	return nil
}

type bitSrc struct {
	bits []byte
	pos  int
}

func (b *bitSrc) ReadBit() (uint8, error) {
	if b.pos >= len(b.bits) {
		return 0, errors.New("eof")
	}
	v := b.bits[b.pos] - '0'
	b.pos++
	return v, nil
}
func (b *bitSrc) ReadBitsLE(n int) (uint32, error) {
	var v uint32
	for i := 0; i < n; i++ {
		x, err := b.ReadBit()
		if err != nil {
			return 0, err
		}
		v |= uint32(x) << uint(i)
	}
	return v, nil
}

func uvlcSuite(c *Ctx) {
	// run-time tables built by init(): whole index range against the transliterated generator
	var parts [3][]string
	for i := range htj2k.UVLCTbl0 {
		parts[0] = append(parts[0], strconv.Itoa(int(htj2k.UVLCTbl0[i])))
		parts[2] = append(parts[2], strconv.Itoa(int(htj2k.UVLCBias[i])))
	}
	for i := range htj2k.UVLCTbl1 {
		parts[1] = append(parts[1], strconv.Itoa(int(htj2k.UVLCTbl1[i])))
	}
	impl := strings.Join(parts[0], ",") + ";" + strings.Join(parts[1], ",") + ";" + strings.Join(parts[2], ",")
	c.R.Case("uvlc_tables", true, "uvlc.tables")
	c.CorrEq("uvlc_tables", "uvlc_tables", c.M.Call("ht_uvlc_tables"), impl, "UVLCTbl0/UVLCTbl1/UVLCBias")
	// EncodeUVLC on 0..200 (the format covers 1..96; beyond that the fields wrap, compared as coded)
	for u := 0; u <= 200; u++ {
		cw := htj2k.EncodeUVLC(uint32(u))
		w := &recWriter{}
		_ = cw.EncodeToStream(w)
		bits := string(w.bits)
		if bits == "" {
			bits = "_"
		}
		impl := fmt.Sprintf("%d,%d,%d,%d,%d,%d;%s", cw.Prefix, cw.Suffix, cw.Extension, cw.PrefixLen, cw.SuffixLen, cw.ExtLen, bits)
		c.R.Case("uvlc_enc:"+strconv.Itoa(u), u > 0, "uvlc.enc")
		c.CorrEq("uvlc_encode", "uvlc_encode", c.M.Call("ht_uvlc_enc", strconv.Itoa(u)), impl, u)
		if u >= 1 && u <= 96 {
			c.R.Oracle("uvlc_roundtrip")
			d := htj2k.NewUVLCDecoder(&bitSrc{bits: w.bits})
			v, err := d.DecodeUnsignedResidual()
			if err != nil || int(v) != u {
				c.R.Fail("oracle", "uvlc_roundtrip", "uvlc:roundtrip", fmt.Sprintf("DecodeUnsignedResidual(EncodeUVLC(%d)) = %d, %v", u, v, err), u)
			}
		}
	}
	// decoder on every 12-bit string (the longest codeword has 12 bits) and on all shorter ones
	type dc struct{ bits string }
	var dcs []dc
	for l := 0; l <= 12; l++ {
		if l < 12 && !c.Thor && l > 6 {
			continue
		}
		for v := 0; v < 1<<uint(l); v++ {
			b := make([]byte, l)
			for i := 0; i < l; i++ {
				b[i] = byte('0' + (v>>uint(i))&1)
			}
			dcs = append(dcs, dc{string(b)})
		}
	}
	ParallelFor(len(dcs), c.Work, func(i int) {
		s := dcs[i].bits
		arg := s
		if arg == "" {
			arg = "_"
		}
		c.R.Case("uvlc_dec:"+arg, strings.Contains(s, "1"), "uvlc.dec")
		src := &bitSrc{bits: []byte(s)}
		v, err := htj2k.NewUVLCDecoder(src).DecodeUnsignedResidual()
		impl := "err"
		if err == nil {
			impl = fmt.Sprintf("ok:%d,%d", v, len(s)-src.pos)
		}
		c.CorrEq("uvlc_decode", "uvlc_decode", c.M.Call("ht_uvlc_dec", arg), impl, s)
	})
}

// ---------- CxtVLC ----------

var vlcEncPool = sync.Pool{New: func() interface{} { return htj2k.NewVLCEncoder() }}

func getVLCEnc() *htj2k.VLCEncoder {
	e := vlcEncPool.Get().(*htj2k.VLCEncoder)
	e.Reset()
	return e
}

func vlcSuite(c *Ctx) {
	for t := 0; t < 2; t++ {
		tbl := &htj2k.VLCLookupTable0
		dtbl := &htj2k.VLCDecodeTbl0
		if t == 1 {
			tbl, dtbl = &htj2k.VLCLookupTable1, &htj2k.VLCDecodeTbl1
		}
		var p []string
		same := true
		for i := range tbl {
			p = append(p, strconv.Itoa(int(tbl[i])))
			e, d := tbl[i], dtbl[i]
			if e.CwdLen() != d.CwdLen || e.Rho() != d.Rho || e.UOff() != d.UOff || e.EK() != d.EK || e.E1() != d.E1 {
				same = false
			}
		}
		first := strconv.Itoa(1 - t)
		c.R.Case("vlc_tables:"+first, true, "vlc.tables")
		c.CorrEq("vlc_tables", "vlc_tables", c.M.Call("ht_vlc_lookup", first), strings.Join(p, ","), "VLCLookupTable"+strconv.Itoa(t))
		// the second generated table (GenerateVLCTables) must carry the same content
		c.R.Oracle("vlc_decode_tables_agree")
		if !same {
			c.R.Fail("oracle", "vlc_decode_tables_agree", "vlc:tables-differ", "VLCDecodeTbl differs from VLCLookupTable", t)
		}
	}
	// EncodeQuadVLCByEMB + Flush on the whole domain; by HtProofsTables.vlc_emb_tie_free this is also the
	// content of the unexported live encoder table, compared as tuple below.
	type vc struct{ first, cq, rho, uoff, emb int }
	var vcs []vc
	for first := 0; first < 2; first++ {
		for cq := 0; cq < 8; cq++ {
			for rho := 0; rho < 16; rho++ {
				for uoff := 0; uoff < 2; uoff++ {
					for emb := 0; emb < 16; emb++ {
						vcs = append(vcs, vc{first, cq, rho, uoff, emb})
					}
				}
			}
		}
	}
	ParallelFor(len(vcs), c.Work, func(i int) {
		k := vcs[i]
		key := fmt.Sprintf("%d %d %d %d %d", k.first, k.cq, k.rho, k.uoff, k.emb)
		c.R.Case("vlc_emb:"+key, k.rho != 0, "vlc.emb")
		enc := getVLCEnc()
		defer vlcEncPool.Put(enc)
		l, ek, err := enc.EncodeQuadVLCByEMB(uint8(k.cq), uint8(k.rho), uint8(k.uoff), uint8(k.emb), k.first == 1)
		impl := "none"
		if err == nil {
			impl = fmt.Sprintf("%d,%d;%s", l, ek, Hex(enc.Flush()))
		}
		a := strings.Split(key, " ")
		c.CorrEq("vlc_encode_emb", "vlc_encode_emb", c.M.Call("ht_vlc_emb", a...), impl, k)
		// live encoder tuple (cwd<<8 | len<<4 | e_k) for the indices the live encoder forms
		if k.uoff == 1 == (k.emb != 0) && k.emb&k.rho == k.emb && !(k.rho == 0 && k.cq == 0) {
			tup := c.M.Call("ht_ojph_tuple", a[0], a[1], a[2], a[4])
			tv, _ := strconv.Atoi(tup)
			ml := fmt.Sprintf("%d,%d", (tv>>4)&7, tv&15)
			il := "none"
			if err == nil {
				il = fmt.Sprintf("%d,%d", l, ek)
			}
			c.CorrEq("vlc_live_tuple", "vlc_live_tuple", ml, il, k)
			// and the codeword itself: emit tuple's (cwd,len) through the model packer
			if err == nil {
				c.CorrEq("vlc_live_codeword", "vlc_live_codeword",
					c.M.Call("ht_vlc_emit", fmt.Sprintf("%d,%d", tv>>8, (tv>>4)&7)), flushOnce(k.first, k.cq, k.rho, k.uoff, k.emb), k)
			}
		}
	})
	// EncodeCxtVLCWithLen: every (table, cq, rho, uoff) with sampled (ek, e1) (all 256 pairs when thorough)
	rng := c.Rng.Fork()
	type cc struct{ first, cq, rho, uoff, ek, e1 int }
	var ccs []cc
	for first := 0; first < 2; first++ {
		for cq := 0; cq < 8; cq++ {
			for rho := 0; rho < 16; rho++ {
				for uoff := 0; uoff < 2; uoff++ {
					if c.Thor {
						for x := 0; x < 256; x++ {
							ccs = append(ccs, cc{first, cq, rho, uoff, x >> 4, x & 15})
						}
					} else {
						for j := 0; j < 3; j++ {
							ek := rng.Intn(16)
							ccs = append(ccs, cc{first, cq, rho, uoff, ek, ek & rng.Intn(16)})
						}
					}
				}
			}
		}
	}
	ParallelFor(len(ccs), c.Work, func(i int) {
		k := ccs[i]
		key := fmt.Sprintf("%d %d %d %d %d %d", k.first, k.cq, k.rho, k.uoff, k.ek, k.e1)
		c.R.Case("vlc_cxt:"+key, k.rho != 0, "vlc.cxt")
		enc := getVLCEnc()
		defer vlcEncPool.Put(enc)
		l, err := enc.EncodeCxtVLCWithLen(uint8(k.cq), uint8(k.rho), uint8(k.uoff), uint8(k.ek), uint8(k.e1), k.first == 1)
		impl := "none"
		if err == nil {
			impl = fmt.Sprintf("%d;%s", l, Hex(enc.Flush()))
		}
		c.CorrEq("vlc_encode_cxt", "vlc_encode_cxt", c.M.Call("ht_vlc_cxt", strings.Split(key, " ")...), impl, k)
	})
	// the bit packer with its stuffing rule: random WriteBits sequences, biased towards ones
	m := c.N(300, 4000)
	type ec struct{ calls [][2]int }
	ecs := make([]ec, m)
	for i := range ecs {
		l := rng.Range(0, 60)
		for j := 0; j < l; j++ {
			nb := rng.Range(0, 12)
			v := rng.Intn(1 << uint(nb))
			if rng.Intn(3) > 0 {
				v = (1 << uint(nb)) - 1 - (rng.Intn(4) & rng.Intn(4))
				if v < 0 {
					v = 0
				}
			}
			ecs[i].calls = append(ecs[i].calls, [2]int{v, nb})
		}
	}
	ParallelFor(m, c.Work, func(i int) {
		k := ecs[i]
		var p []string
		enc := htj2k.NewVLCEncoder()
		for _, cl := range k.calls {
			p = append(p, fmt.Sprintf("%d,%d", cl[0], cl[1]))
			_ = enc.WriteBits(uint32(cl[0]), cl[1])
		}
		arg := strings.Join(p, ";")
		if arg == "" {
			arg = "_"
		}
		c.R.Case("vlc_emit:"+arg, len(k.calls) > 0, "vlc.emit")
		c.CorrEq("vlc_emit_bits", "vlc_emit_bits", c.M.Call("ht_vlc_emit", arg), Hex(enc.Flush()), arg)
	})
}

// flushOnce re-encodes the quad on a fresh encoder and returns its flushed bytes (Flush appends to
// the encoder's buffer, so it must not be called twice on the same object).
func flushOnce(first, cq, rho, uoff, emb int) string {
	enc := getVLCEnc()
	defer vlcEncPool.Put(enc)
	_, _, _ = enc.EncodeQuadVLCByEMB(uint8(cq), uint8(rho), uint8(uoff), uint8(emb), first == 1)
	return Hex(enc.Flush())
}

// ---------- codestream helpers ----------

// marker returns the body (after the 2-byte length) of the first main-header segment with the given marker.
func marker(cs []byte, want int) []byte {
	i := 2
	for i+4 <= len(cs) {
		if cs[i] != 0xFF {
			return nil
		}
		m := int(cs[i])<<8 | int(cs[i+1])
		if m == 0xFF90 || m == 0xFF93 || m == 0xFFD9 {
			return nil
		}
		l := int(cs[i+2])<<8 | int(cs[i+3])
		if l < 2 || i+2+l > len(cs) {
			return nil
		}
		if m == want {
			return cs[i+4 : i+2+l]
		}
		i += 2 + l
	}
	return nil
}

func pack(samples []int, P int) []byte {
	if P <= 8 {
		b := make([]byte, len(samples))
		for i, v := range samples {
			b[i] = byte(v)
		}
		return b
	}
	b := make([]byte, 2*len(samples))
	for i, v := range samples {
		b[2*i], b[2*i+1] = byte(v), byte(v>>8)
	}
	return b
}

// ---------- level clamp (calculateMaxLevels is unexported: read the COD the codec writes) ----------

func levelsSuite(c *Ctx) {
	dims := []int{1, 2, 3, 4, 5, 7, 8, 9, 15, 16, 17, 31, 32, 33, 63, 64, 65, 100}
	type lc struct{ w, h, req int }
	var lcs []lc
	rng := c.Rng.Fork()
	for _, w := range dims {
		for _, h := range dims {
			if c.Thor {
				for r := 0; r <= 6; r++ {
					lcs = append(lcs, lc{w, h, r})
				}
			} else {
				lcs = append(lcs, lc{w, h, 6}, lc{w, h, rng.Range(0, 5)})
			}
		}
	}
	cd := htj2k.NewLosslessCodec()
	ParallelFor(len(lcs), c.Work, func(i int) {
		k := lcs[i]
		c.R.Case(fmt.Sprintf("levels:%d:%d:%d", k.w, k.h, k.req), k.w > 1 || k.h > 1, fmt.Sprintf("levels.req.%d", k.req))
		fi := &imagetypes.FrameInfo{Width: uint16(k.w), Height: uint16(k.h), BitsAllocated: 8, BitsStored: 8, HighBit: 7,
			SamplesPerPixel: 1, PhotometricInterpretation: "MONOCHROME2"}
		px := make([]byte, k.w*k.h)
		r := NewRand(uint64(i) + 77)
		for j := range px {
			px[j] = byte(r.Intn(256))
		}
		in := repocodec.NewTestPixelData(fi)
		_ = in.AddFrame(px)
		out := repocodec.NewTestPixelData(fi)
		p := htj2k.NewHTJ2KLosslessParameters()
		p.NumLevels = k.req
		var err error
		if pn, msg := Safely(func() { err = cd.Encode(in, out, p) }); pn || err != nil {
			c.R.Fail("oracle", "levels_encode", "levels:encode-failed", fmt.Sprintf("%v %v", msg, err), k)
			return
		}
		cs, _ := out.GetFrame(0)
		cod := marker(cs, 0xFF52)
		impl := "?"
		if len(cod) >= 6 {
			impl = strconv.Itoa(int(cod[5]))
		}
		rep := c.M.Call("ht_levels", strconv.Itoa(k.req), strconv.Itoa(k.w), strconv.Itoa(k.h))
		if j := strings.IndexByte(rep, ','); j >= 0 {
			rep = rep[j+1:]
		}
		c.CorrEq("levels_clamp", "levels_clamp", rep, impl, k)
	})
}

// ---------- reversible QCD / Kmax ----------

func qcdSuite(c *Ctx) {
	type qc struct{ P, L, comps int }
	var qcs []qc
	for P := 1; P <= 16; P++ {
		for L := 0; L <= 6; L++ {
			for _, comps := range []int{1, 3} {
				qcs = append(qcs, qc{P, L, comps})
			}
		}
	}
	ParallelFor(len(qcs), c.Work, func(i int) {
		k := qcs[i]
		c.R.Case(fmt.Sprintf("qcd:%d:%d:%d", k.P, k.L, k.comps), true, fmt.Sprintf("qcd.levels.%d", k.L), fmt.Sprintf("qcd.comps.%d", k.comps))
		// exported parameter function (no RCT bit)
		if k.comps == 1 {
			q := jpeg2000.CalculateOpenJPHQuantizationParams(k.L, k.P, true)
			var p []string
			for _, s := range q.EncodedSteps {
				p = append(p, strconv.Itoa(int(s)))
			}
			c.CorrEq("qcd_steps", "qcd_steps", c.M.Call("ht_steps", strconv.Itoa(k.L), strconv.Itoa(k.P), "0"), strings.Join(p, ","), k)
		}
		// the bytes the encoder actually writes; image with extreme samples (worst-case growth)
		w, h := 40, 36
		r := NewRand(uint64(i)*31 + 5)
		samples := make([]int, w*h*k.comps)
		for j := range samples {
			switch r.Intn(3) {
			case 0:
				samples[j] = 0
			case 1:
				samples[j] = (1 << uint(k.P)) - 1
			default:
				samples[j] = r.Intn(1 << uint(k.P))
			}
		}
		if i%4 == 0 { // pixel checkerboard of the two extremes
			for j := range samples {
				px := j / k.comps
				if ((px%w)+(px/w)+(j%k.comps))%2 == 0 {
					samples[j] = 0
				} else {
					samples[j] = (1 << uint(k.P)) - 1
				}
			}
		}
		px := pack(samples, k.P)
		ep := jpeg2000.DefaultEncodeParams(w, h, k.comps, k.P, false)
		ep.NumLevels = k.L
		ep.HTJ2KMode = true
		ep.Lossless = true
		ep.ProgressionOrder = 2
		ep.BlockEncoderFactory = func(bw, bh int) jpeg2000.BlockEncoder { return htj2k.NewHTEncoder(bw, bh) }
		var cs []byte
		var err error
		if pn, msg := Safely(func() { cs, err = jpeg2000.NewEncoder(ep).Encode(px) }); pn || err != nil {
			c.R.Fail("oracle", "qcd_encode", "qcd:encode-failed", fmt.Sprintf("%v %v", msg, err), k)
			return
		}
		body := marker(cs, 0xFF5C)
		rct := "0"
		if k.comps == 3 {
			rct = "1"
		}
		rep := c.M.Call("ht_qcd", strconv.Itoa(k.L), strconv.Itoa(k.P), rct)
		if j := strings.IndexByte(rep, ';'); j >= 0 {
			rep = rep[:j]
		}
		c.CorrEq("qcd_bytes", "qcd_bytes", rep, Hex(body), k)
		// Kmax sufficiency on real data: the extreme-valued image must survive (property domain: P = 8, 16;
		// other precisions are outside the property text and only noted)
		d := jpeg2000.NewDecoder()
		d.SetBlockDecoderFactory(func(bw, bh int, _ int) t2.BlockDecoder { return htj2k.NewHTDecoder(bw, bh) })
		var got []byte
		pn, msg := Safely(func() {
			if err = d.Decode(cs); err == nil {
				got = d.GetPixelData()
			}
		})
		okrt := !pn && err == nil && bytes.Equal(got, px)
		if k.P == 8 || k.P == 16 {
			c.R.Oracle("kmax_extremes_roundtrip")
			if !okrt {
				c.R.Fail("oracle", "kmax_extremes_roundtrip", fmt.Sprintf("kmax:P%d:L%d", k.P, k.L),
					fmt.Sprintf("extreme-valued %dx%d image does not round-trip (panic=%v %s err=%v)", w, h, pn, msg, err), k)
			}
		} else if !okrt {
			c.R.Note("outside property domain: P=%d L=%d comps=%d extreme image does not round-trip (panic=%v err=%v)", k.P, k.L, k.comps, pn, err)
			c.R.Count("qcd.nonproperty_precision_roundtrip_failed")
		} else {
			c.R.Count("qcd.nonproperty_precision_roundtrip_ok")
		}
	})
}

// ---------- HT code-blocks: Scup locator and cleanup coder round trip ----------

func blockSuite(c *Ctx) {
	n := c.N(160, 6000)
	rng := c.Rng.Fork()
	type bc struct {
		W, H, Kmax int
		Data       []int32
	}
	cases := make([]bc, n)
	for i := range cases {
		w, h := rng.Range(1, 64), rng.Range(1, 64)
		if i%7 == 0 {
			w, h = rng.Pick(1, 2, 3, 4, 64), rng.Pick(1, 2, 3, 4, 64)
		}
		kmax := rng.Range(1, 30)
		if i%3 == 0 {
			kmax = rng.Range(8, 20)
		}
		d := make([]int32, w*h)
		lim := int64(1) << uint(kmax)
		dens := rng.Pick(1, 2, 5, 20, 100)
		for j := range d {
			if rng.Intn(100) < dens*1 || dens == 100 {
				var v int64
				switch rng.Intn(4) {
				case 0:
					v = lim - 1
				case 1:
					v = 1
				default:
					v = int64(rng.U64() % uint64(lim))
				}
				if rng.Bool() {
					v = -v
				}
				d[j] = int32(v)
			}
		}
		cases[i] = bc{w, h, kmax, d}
	}
	ParallelFor(n, c.Work, func(i int) {
		k := cases[i]
		nz := false
		for _, v := range k.Data {
			nz = nz || v != 0
		}
		hh := fnv.New64a()
		_, _ = hh.Write([]byte(Ints32(k.Data)))
		c.R.Case(fmt.Sprintf("block:%d:%d:%d:%x", k.W, k.H, k.Kmax, hh.Sum64()), nz, fmt.Sprintf("block.kmax.%d", (k.Kmax+9)/10*10))
		enc := htj2k.NewHTEncoder(k.W, k.H)
		enc.SetKMax(k.Kmax)
		var blk []byte
		var err error
		if pn, msg := Safely(func() { blk, err = enc.Encode(append([]int32(nil), k.Data...), 1, 0) }); pn || err != nil {
			c.R.Fail("oracle", "ht_block_roundtrip", "block:encode-failed", fmt.Sprintf("%v %v", msg, err), k)
			return
		}
		if len(blk) > 0 {
			// locator: the model's parse accepts what the encoder wrote, and re-writing the parsed Scup changes nothing
			rep := c.M.Call("ht_scup_parse", Hex(blk))
			scup := int(blk[len(blk)-1])<<4 | int(blk[len(blk)-2]&0x0F)
			c.CorrEq("scup_parse", "scup_parse", rep, fmt.Sprintf("ok:%d,%d", len(blk)-scup, scup), map[string]interface{}{"block": Hex(blk)})
			c.CorrEq("scup_write", "scup_write", c.M.Call("ht_scup_write", Hex(blk), strconv.Itoa(scup)), Hex(blk), map[string]interface{}{"block": Hex(blk)})
		} else {
			c.R.Count("block.empty")
		}
		c.R.Oracle("ht_block_roundtrip")
		dec := htj2k.NewHTDecoder(k.W, k.H)
		dec.SetCodingContext(k.Kmax, k.Kmax-1)
		var got []int32
		if pn, msg := Safely(func() { got, err = dec.Decode(blk, 1) }); pn || err != nil {
			c.R.Fail("oracle", "ht_block_roundtrip", "block:decode-failed", fmt.Sprintf("%v %v", msg, err), k)
			return
		}
		for j := range k.Data {
			if j >= len(got) || got[j] != k.Data[j] {
				c.R.Fail("oracle", "ht_block_roundtrip", "block:mismatch", fmt.Sprintf("coefficient %d differs", j), k)
				break
			}
		}
	})
}

// ---------- code-blocks above 64x64 through the registry codec (the e2e generator stops at 64) ----------
// htj2k.Parameters.Validate accepts block sizes up to 1024; the Scup locator is 12 bits (<= 4079),
// so a block whose MEL+VLC suffix is longer cannot be represented (HtProofsLevels.scup_roundtrip has
// that guard, writeScupLocator has none).
func bigBlockSuite(c *Ctx) {
	type bb struct{ BW, BH, W, H, BA, Levels int }
	cases := []bb{{128, 128, 300, 300, 8, 1}, {256, 256, 400, 400, 8, 1}, {256, 256, 400, 400, 16, 1}, {128, 64, 300, 200, 16, 2}}
	if c.Thor {
		cases = append(cases, bb{1024, 1024, 600, 600, 8, 1}, bb{512, 128, 600, 300, 16, 0}, bb{256, 256, 260, 260, 8, 0}, bb{128, 128, 400, 400, 16, 3})
	}
	cd := htj2k.NewLosslessCodec()
	ParallelFor(len(cases), c.Work, func(i int) {
		k := cases[i]
		c.R.Case(fmt.Sprintf("bigblock:%v", k), true, fmt.Sprintf("bigblock.%dx%d", k.BW, k.BH))
		fi := &imagetypes.FrameInfo{Width: uint16(k.W), Height: uint16(k.H), BitsAllocated: uint16(k.BA), BitsStored: uint16(k.BA),
			HighBit: uint16(k.BA - 1), SamplesPerPixel: 1, PhotometricInterpretation: "MONOCHROME2"}
		r := NewRand(uint64(k.BW + k.BA))
		px := make([]byte, k.W*k.H*k.BA/8)
		for j := range px {
			px[j] = byte(r.Intn(256))
		}
		in := repocodec.NewTestPixelData(fi)
		_ = in.AddFrame(px)
		mid := repocodec.NewTestPixelData(fi)
		p := htj2k.NewHTJ2KLosslessParameters()
		p.BlockWidth, p.BlockHeight, p.NumLevels = k.BW, k.BH, k.Levels
		c.R.Oracle("htj2k_big_codeblocks")
		site, what := "", ""
		var err error
		if pn, msg := Safely(func() { err = cd.Encode(in, mid, p) }); pn {
			site, what = "encode-panic", msg
		} else if err != nil {
			// a clean rejection of an unrepresentable block size is not a round-trip failure
			c.R.Count("bigblock.rejected")
			return
		}
		if site == "" {
			out := repocodec.NewTestPixelData(fi)
			if pn, msg := Safely(func() { err = cd.Decode(mid, out, nil) }); pn {
				site, what = "decode-panic", msg
			} else if err != nil {
				site, what = "decode-error", err.Error()
			} else if got, _ := out.GetFrame(0); !bytes.Equal(got, px) {
				site, what = "mismatch", "decoded frame differs from source"
			}
		}
		if site != "" {
			c.R.Fail("oracle", "htj2k_big_codeblocks", fmt.Sprintf("c06:bigblock:%dx%d:%s", k.BW, k.BH, site), what, k)
		}
	})
}
