package ht

import (
	"bytes"
	"errors"
	"fmt"
	"os"
	"sort"
	"strconv"
	"strings"
	"sync"
	"sync/atomic"

	repocodec "github.com/cocosip/go-dicom-codecs/codec"
	"github.com/cocosip/go-dicom-codecs/jpeg2000/htj2k"
	"github.com/cocosip/go-dicom/pkg/dicom/transfer"
	"github.com/cocosip/go-dicom/pkg/imaging/codec"
	"github.com/cocosip/go-dicom/pkg/imaging/imagetypes"
	. "verif/harness/vhlib"
)

// MEL/VLC fusion corpus.
//
// terminateOJPHMELVLC lets the last MEL byte and the open VLC byte share one byte when their used
// bits do not collide, EXCEPT when the shared byte would be 0xFF (theorem C06_ht_segments_wellformed,
// junction "fused byte != FF": an 0xFF followed by the next VLC byte > 0x8F is a marker code inside
// the code-block).  The excepted case needs: the open MEL byte all ones in its used bits, the open
// VLC byte all ones in its used bits, the two covering the byte, and at least one closed VLC byte —
// about 1 in 10^4..10^5 random sparse blocks and never a dense one, so random generation does not
// reach it.  fusionCorpus (fusion_corpus.go) holds blocks found by fusionSearch with the model op
// ht_block_tail, which exposes the state terminateOJPHMELVLC sees; they run in every tier:
//   - the model still says fuse = 0xFF, compatible (guards the corpus against table changes),
//   - ht_block_encode byte-exact against the Go encoder,
//   - ht_segment_wellformed on the Go bytes,
//   - decode of the Go bytes by the Go decoder and by the model.
// FusionCorpusFrames() wraps blocks as whole frames (NumLevels 0: the one code-block of the frame is
// the level-shifted image) for the codestream-level marker scan of C16.

type sparseBlock struct {
	W, H, Kmax int
	NZ         []int32 // index, value, index, value ...
	Rem, VU    int     // MEL remaining bits / VLC used bits at termination
	Marker     bool    // the VLC byte after the fused byte is > 0x8F
}

func (b sparseBlock) data() []int32 {
	d := make([]int32, b.W*b.H)
	for i := 0; i+1 < len(b.NZ); i += 2 {
		d[b.NZ[i]] = b.NZ[i+1]
	}
	return d
}

type tailState struct {
	MelTmp, Rem, VlcTmp, VU int
	More, Compat            bool
	Fuse, LastVLC           int
	Zero, Valid             bool
}

func parseTail(s string) tailState {
	if s == "zero" {
		return tailState{Zero: true, Valid: true}
	}
	f := strings.Split(s, ",")
	if len(f) != 8 {
		return tailState{}
	}
	v := make([]int, 8)
	for i := range f {
		n, err := strconv.Atoi(f[i])
		if err != nil {
			return tailState{}
		}
		v[i] = n
	}
	return tailState{MelTmp: v[0], Rem: v[1], VlcTmp: v[2], VU: v[3], More: v[4] == 1, Compat: v[5] == 1, Fuse: v[6], LastVLC: v[7], Valid: true}
}

func (t tailState) hit() bool { return t.Valid && !t.Zero && t.Compat && t.More && t.Fuse == 0xFF }

// fusionSearch (vh-ht -prop C06FUSE [-tier thorough]): random sparse blocks through ht_block_tail;
// the hits are written as Go literals to $HT_FUSION_OUT (default /verif/.work/ht/fusion_hits.txt).
func fusionSearch(c *Ctx) {
	c.R.Rule = "offline search for blocks whose MEL and VLC tails fuse to 0xFF (model op ht_block_tail)"
	if !c.HasModel() {
		c.R.Note("fusion search needs the model")
		return
	}
	n := c.N(300000, 3000000)
	rng := c.Rng.Fork()
	const chunk = 1000
	var mu sync.Mutex
	type key struct {
		rem, vu int
		marker  bool
	}
	found := map[key][]sparseBlock{}
	total := 0
	rs := make([]*Rand, (n+chunk-1)/chunk)
	for i := range rs {
		rs[i] = rng.Fork()
	}
	ParallelFor(len(rs), c.Work, func(ci int) {
		r := rs[ci]
		for t := 0; t < chunk; t++ {
			var b sparseBlock
			if r.Bool() {
				b.W, b.H = r.Pick(8, 16, 32), r.Pick(8, 16, 32)
			} else {
				b.W, b.H = r.Range(8, 32), r.Range(8, 32)
			}
			b.Kmax = 8
			lim := 127
			if r.Intn(3) == 0 {
				b.Kmax, lim = 16, 32767
			}
			nnz := r.Range(1, 6)
			seen := map[int]bool{}
			for j := 0; j < nnz; j++ {
				idx := r.Intn(b.W * b.H)
				if seen[idx] {
					continue
				}
				seen[idx] = true
				m := 1 + r.Intn(3)
				switch r.Intn(4) {
				case 0:
					m = 1 + r.Intn(lim)
				case 1:
					m = 1 + r.Intn(15)
				}
				if r.Bool() {
					m = -m
				}
				b.NZ = append(b.NZ, int32(idx), int32(m))
			}
			ts := parseTail(c.M.Call("ht_block_tail", strconv.Itoa(b.W), strconv.Itoa(b.H), strconv.Itoa(b.Kmax), Ints32(b.data())))
			if !ts.hit() {
				continue
			}
			b.Rem, b.VU, b.Marker = ts.Rem, ts.VU, ts.LastVLC > 0x8F
			k := key{b.Rem, b.VU, b.Marker}
			mu.Lock()
			total++
			if len(found[k]) < 6 {
				found[k] = append(found[k], b)
			}
			mu.Unlock()
		}
	})
	var keys []key
	for k := range found {
		keys = append(keys, k)
	}
	sort.Slice(keys, func(i, j int) bool {
		a, b := keys[i], keys[j]
		if a.marker != b.marker {
			return a.marker
		}
		if a.rem != b.rem {
			return a.rem < b.rem
		}
		return a.vu < b.vu
	})
	var sb strings.Builder
	for _, k := range keys {
		for _, b := range found[k] {
			fmt.Fprintf(&sb, "\t{%d, %d, %d, []int32{%s}, %d, %d, %v},\n", b.W, b.H, b.Kmax, strings.ReplaceAll(Ints32(b.NZ), ",", ", "), b.Rem, b.VU, b.Marker)
		}
	}
	out := os.Getenv("HT_FUSION_OUT")
	if out == "" {
		out = "/verif/.work/ht/fusion_hits.txt"
	}
	_ = os.WriteFile(out, []byte(sb.String()), 0o644)
	c.R.Note("fusion search: %d blocks, %d hits (1 in %d), %d (rem,vu,marker) classes -> %s", len(rs)*chunk, total, (len(rs)*chunk)/maxI(total, 1), len(keys), out)
	fmt.Printf("fusion search: %d blocks, %d hits, %d classes -> %s\n", len(rs)*chunk, total, len(keys), out)
}

func maxI(a, b int) int {
	if a > b {
		return a
	}
	return b
}

// segmentDefect checks what C06_ht_segments_wellformed states, on Go bytes.
func segmentDefect(blk []byte) string {
	if len(blk) < 2 {
		return "block shorter than 2 bytes"
	}
	for j := 0; j+1 < len(blk); j++ {
		if blk[j] == 0xFF && blk[j+1] > 0x8F {
			return fmt.Sprintf("marker FF%02X at %d", blk[j+1], j)
		}
	}
	if blk[len(blk)-1] == 0xFF {
		return "last byte 0xFF"
	}
	if sc := int(blk[len(blk)-1])<<4 | int(blk[len(blk)-2]&0xF); sc < 2 || sc > len(blk) || sc > 4079 {
		return fmt.Sprintf("Scup %d outside 2..min(%d,4079)", sc, len(blk))
	}
	return ""
}

// fusionCorpusSuite runs in every tier of C06.
func fusionCorpusSuite(c *Ctx) {
	var nMis, nBad int64
	defer func() {
		c.R.Note("ht.fusion: %d corpus blocks, %d differ from the model, %d malformed segments", len(fusionCorpus), atomic.LoadInt64(&nMis), atomic.LoadInt64(&nBad))
	}()
	ParallelFor(len(fusionCorpus), c.Work, func(i int) {
		b := fusionCorpus[i]
		d := b.data()
		ws, hs, ks := strconv.Itoa(b.W), strconv.Itoa(b.H), strconv.Itoa(b.Kmax)
		in := map[string]interface{}{"corpus": i, "w": b.W, "h": b.H, "kmax": b.Kmax, "nz": Ints32(b.NZ), "rem": b.Rem, "vu": b.VU}
		c.R.Case(fmt.Sprintf("fusion:%d", i), true, "fusion.corpus", fmt.Sprintf("fusion.rem%d.vu%d", b.Rem, b.VU), fmt.Sprintf("fusion.marker.%v", b.Marker))
		if c.HasModel() {
			// the corpus entry still reaches the case (tables and coder unchanged since the search)
			c.R.Oracle("ht_fusion_corpus_hits")
			if rep := c.M.Call("ht_block_tail", ws, hs, ks, Ints32(d)); rep == "?" {
				if i == 0 {
					c.R.Note("ht.fusion: model.exe has no op ht_block_tail (rebuild with bin/mlbuild); corpus staleness not checked")
				}
			} else if ts := parseTail(rep); !ts.hit() {
				c.R.Fail("oracle", "ht_fusion_corpus_hits", "htfusion:corpus-stale", fmt.Sprintf("model tail state %+v is no longer the fuse=0xFF case: re-run vh-ht -prop C06FUSE", ts), in)
			}
		}
		enc := htj2k.NewHTEncoder(b.W, b.H)
		enc.SetKMax(b.Kmax)
		var blk []byte
		var err error
		impl := ""
		if pn, msg := Safely(func() { blk, err = enc.Encode(append([]int32(nil), d...), 1, 0) }); pn {
			impl = "panic:" + msg
		} else if err != nil {
			impl = "err"
		} else {
			impl = "ok:" + Hex(blk)
		}
		if !c.CorrEq("ht_block_encode_fusion", "ht_block_encode:fusion", c.M.Call("ht_block_encode", ws, hs, ks, Ints32(d)), impl, in) {
			atomic.AddInt64(&nMis, 1)
		}
		if !strings.HasPrefix(impl, "ok:") {
			c.R.Oracle("ht_segment_wellformed")
			c.R.Fail("oracle", "ht_segment_wellformed", "htfusion:encode-failed", impl, in)
			return
		}
		c.R.Oracle("ht_segment_wellformed")
		if bad := segmentDefect(blk); bad != "" {
			atomic.AddInt64(&nBad, 1)
			c.R.Fail("oracle", "ht_segment_wellformed", "htblock:segment-malformed", bad+" | "+Hex(blk), in)
		}
		g := goDecode(b.W, b.H, b.Kmax, b.Kmax-1, blk)
		c.R.Oracle("ht_block_roundtrip")
		if g != "ok:"+Ints32(d) {
			c.R.Fail("oracle", "ht_block_roundtrip", "htfusion:roundtrip", "decode(encode(block)) != block: "+g, in)
		}
		c.CorrEq("ht_block_decode_fusion", "ht_block_decode:fusion", c.M.Call("ht_block_decode", ws, hs, ks, strconv.Itoa(b.Kmax-1), Hex(blk)), g, in)
	})
}

// ---------- whole frames for the codestream-level marker scan (C16) ----------

// FusionFrame is one small single-component frame whose only code-block is a fusionCorpus block:
// with NumLevels = 0 there is no wavelet transform, the LL band is the image minus 2^(BitsStored-1)
// (unsigned) or the image itself (signed), and with a code-block size >= the image the band is one
// code-block.  Encode through the .201 / .202 registry codecs with Params().
type FusionFrame struct {
	Name                                                       string
	Rows, Cols, BitsAllocated, BitsStored, PixelRepresentation int
	Pixels                                                     []byte // little endian, BitsAllocated container
	BlockWidth, BlockHeight, NumLevels                         int
	Corpus                                                     int // index into the block corpus
}

func (f FusionFrame) Info() *imagetypes.FrameInfo {
	return &imagetypes.FrameInfo{Width: uint16(f.Cols), Height: uint16(f.Rows), BitsAllocated: uint16(f.BitsAllocated), BitsStored: uint16(f.BitsStored),
		HighBit: uint16(f.BitsStored - 1), SamplesPerPixel: 1, PixelRepresentation: uint16(f.PixelRepresentation), PlanarConfiguration: 0, PhotometricInterpretation: "MONOCHROME2"}
}

// Params returns the htj2k parameters that make the frame's code-block the corpus block.
func (f FusionFrame) Params() codec.Parameters {
	p := htj2k.NewHTJ2KLosslessParameters()
	p.BlockWidth, p.BlockHeight, p.NumLevels = f.BlockWidth, f.BlockHeight, f.NumLevels
	return p
}

// FusionCorpusFrames returns the frames: every marker-producing corpus block whose values fit, as
// 8-bit unsigned, 8-bit signed (|v| <= 127) and 16-bit unsigned / signed frames (BitsStored = BitsAllocated:
// the HTJ2K codec codes BitsAllocated-bit precision, its level shift is 2^(BitsAllocated-1)).
func FusionCorpusFrames() []FusionFrame {
	var fs []FusionFrame
	for i, b := range fusionCorpus {
		if !b.Marker {
			continue
		}
		maxAbs := int32(0)
		for j := 1; j < len(b.NZ); j += 2 {
			v := b.NZ[j]
			if v < 0 {
				v = -v
			}
			if v > maxAbs {
				maxAbs = v
			}
		}
		d := b.data()
		bs := 64
		mk := func(ba, bst, pr int) {
			off := int32(0)
			if pr == 0 {
				off = 1 << uint(bst-1)
			}
			px := make([]byte, 0, len(d)*ba/8)
			for _, v := range d {
				u := uint32(v+off) & (1<<uint(bst) - 1)
				px = append(px, byte(u))
				if ba == 16 {
					px = append(px, byte(u>>8))
				}
			}
			fs = append(fs, FusionFrame{Name: fmt.Sprintf("fusion%02d-%dx%d-%dbit-pr%d", i, b.W, b.H, bst, pr), Rows: b.H, Cols: b.W,
				BitsAllocated: ba, BitsStored: bst, PixelRepresentation: pr, Pixels: px, BlockWidth: bs, BlockHeight: bs, NumLevels: 0, Corpus: i})
		}
		if maxAbs <= 127 {
			mk(8, 8, 0)
			if i%2 == 0 {
				mk(8, 8, 1)
			}
		}
		if i%2 == 1 || maxAbs > 127 {
			mk(16, 16, 0)
		}
		if i%3 == 0 {
			mk(16, 16, 1)
		}
	}
	return fs
}

// Codestream encodes the frame through the registry codec of transfer syntax ts ("201" HTJ2K
// lossless, "202" HTJ2K lossless RPCL) and returns the J2K codestream of the one frame.
func (f FusionFrame) Codestream(ts string) ([]byte, error) {
	var syn *transfer.Syntax
	switch ts {
	case "201":
		syn = transfer.HTJ2KLossless
	case "202":
		syn = transfer.HTJ2KLosslessRPCL
	default:
		return nil, errors.New("FusionFrame.Codestream: transfer syntax must be 201 or 202")
	}
	cd, ok := codec.GetGlobalRegistry().GetCodec(syn)
	if !ok {
		return nil, errors.New("codec not registered: " + ts)
	}
	in := repocodec.NewTestPixelData(f.Info())
	if err := in.AddFrame(append([]byte(nil), f.Pixels...)); err != nil {
		return nil, err
	}
	mid := repocodec.NewTestPixelData(f.Info())
	var err error
	if pn, msg := Safely(func() { err = cd.Encode(in, mid, f.Params()) }); pn {
		return nil, errors.New("encode panic: " + msg)
	}
	if err != nil {
		return nil, err
	}
	if mid.FrameCount() != 1 {
		return nil, fmt.Errorf("encode produced %d frames", mid.FrameCount())
	}
	return mid.GetFrame(0)
}

// Decode decodes a codestream of the frame through the same codec.
func (f FusionFrame) Decode(ts string, cs []byte) ([]byte, error) {
	syn := transfer.HTJ2KLossless
	if ts == "202" {
		syn = transfer.HTJ2KLosslessRPCL
	}
	cd, ok := codec.GetGlobalRegistry().GetCodec(syn)
	if !ok {
		return nil, errors.New("codec not registered: " + ts)
	}
	mid := repocodec.NewTestPixelData(f.Info())
	if err := mid.AddFrame(cs); err != nil {
		return nil, err
	}
	out := repocodec.NewTestPixelData(f.Info())
	var err error
	if pn, msg := Safely(func() { err = cd.Decode(mid, out, nil) }); pn {
		return nil, errors.New("decode panic: " + msg)
	}
	if err != nil {
		return nil, err
	}
	return out.GetFrame(0)
}

// tileDataMarkers walks the codestream (main header, tile-part headers) and returns the marker
// codes FF90..FFFF found INSIDE tile-part data (after SOD up to the end of the tile-part); SOP
// (FF91) and EPH (FF92) are not expected either, the HTJ2K codecs do not emit them.
func tileDataMarkers(cs []byte) (found []string, err error) {
	if len(cs) < 4 || cs[0] != 0xFF || cs[1] != 0x4F {
		return nil, errors.New("no SOC")
	}
	pos := 2
	for pos+4 <= len(cs) {
		if cs[pos] != 0xFF {
			return found, fmt.Errorf("marker expected at %d", pos)
		}
		m := cs[pos+1]
		if m == 0xD9 {
			return found, nil
		}
		if m != 0x90 { // main-header segment
			pos += 2 + (int(cs[pos+2])<<8 | int(cs[pos+3]))
			continue
		}
		// SOT
		if pos+12 > len(cs) {
			return found, errors.New("short SOT")
		}
		psot := int(cs[pos+6])<<24 | int(cs[pos+7])<<16 | int(cs[pos+8])<<8 | int(cs[pos+9])
		end := pos + psot
		if psot == 0 {
			end = len(cs) - 2
		}
		if end > len(cs) {
			return found, errors.New("Psot beyond the codestream")
		}
		q := pos + 12
		for q+2 <= end && !(cs[q] == 0xFF && cs[q+1] == 0x93) {
			if cs[q] != 0xFF || q+4 > end {
				return found, fmt.Errorf("marker expected at %d in tile-part header", q)
			}
			q += 2 + (int(cs[q+2])<<8 | int(cs[q+3]))
		}
		q += 2
		for ; q+1 < end; q++ {
			if cs[q] == 0xFF && cs[q+1] > 0x8F {
				found = append(found, fmt.Sprintf("FF%02X at %d", cs[q+1], q))
			}
		}
		pos = end
	}
	return found, nil
}

// fusionFramesSuite: every frame through .201 and .202: round trip, the corpus block is the
// frame's code-block (its bytes appear in the codestream), no marker code in tile-part data.
func fusionFramesSuite(c *Ctx) {
	fs := FusionCorpusFrames()
	var nMark int64
	defer func() {
		c.R.Note("ht.fusionframes: %d frames x 2 transfer syntaxes, %d codestreams with a marker code in tile-part data", len(fs), atomic.LoadInt64(&nMark))
	}()
	ParallelFor(len(fs), c.Work, func(i int) {
		f := fs[i]
		b := fusionCorpus[f.Corpus]
		enc := htj2k.NewHTEncoder(b.W, b.H)
		enc.SetKMax(b.Kmax)
		blk, _ := enc.Encode(b.data(), 1, 0)
		for _, ts := range []string{"201", "202"} {
			in := map[string]interface{}{"frame": f.Name, "ts": ts, "corpus": f.Corpus}
			c.R.Case("fusionframe:"+f.Name+":"+ts, true, "fusion.frame."+ts, fmt.Sprintf("fusion.frame.%dbit.pr%d", f.BitsStored, f.PixelRepresentation))
			c.R.Oracle("ht_fusion_frame")
			cs, err := f.Codestream(ts)
			if err != nil {
				c.R.Fail("oracle", "ht_fusion_frame", "htfusion:frame-encode", err.Error(), in)
				continue
			}
			got, err := f.Decode(ts, cs)
			if err != nil || !bytes.Equal(got, f.Pixels) {
				c.R.Fail("oracle", "ht_fusion_frame", "htfusion:frame-roundtrip", fmt.Sprintf("decode(encode(frame)) != frame (%v)", err), in)
			}
			// the MagSgn+MEL+VLC bytes up to the Scup-carrying last two (Kmax of the frame's band may differ from the corpus Kmax: same streams)
			if len(blk) > 2 && !bytes.Contains(cs, blk[:len(blk)-2]) {
				c.R.Fail("oracle", "ht_fusion_frame", "htfusion:frame-block", "the corpus block is not the frame's code-block", in)
			}
			ms, werr := tileDataMarkers(cs)
			if werr != nil {
				c.R.Fail("oracle", "ht_fusion_frame", "htfusion:frame-walk", werr.Error(), in)
			}
			if len(ms) > 0 {
				atomic.AddInt64(&nMark, 1)
				c.R.Fail("oracle", "ht_fusion_frame", "htfusion:frame-marker", "marker code inside tile-part data: "+strings.Join(ms, ", "), in)
			}
		}
	})
}
