//go:build verif

// Package t2s: suites of the t2 area (JPEG 2000 tier-2: packet-header bit I/O, tag trees,
// codes, packet headers, packets of a tile). Correspondence against coq/T2/*.v through the
// ops of ocaml/ops_t2.ml, oracles on the Go code alone.
package t2s

import (
	"encoding/json"
	"fmt"
	"os"
	"strings"
	"time"

	"github.com/cocosip/go-dicom-codecs/jpeg2000/t2"
	. "verif/harness/vhlib"
)

// Register adds this area's suites.
func Register(s Suites) {
	s.Add("C04", runC04)
	s.Add("C08", runC08)
}

func runC04(c *Ctx) {
	c.R.Rule = "t2: bit I/O (value lists with n 0..32, FF runs, FF at the end), tag trees (packet discipline and arbitrary schedules, 1x1..9x9 and up to 40), " +
		"numpasses / comma / Lblock codes over their whole domain, packet headers over layers (1..3 bands, empty bands, late inclusion, zero-length contributions, TERMALL), " +
		"whole tiles through PacketEncoder/PacketDecoder (all progressions, default and scaled precincts); non-trivial = at least 2 values (bio), 2 leaves and 2 ops (tagtree), " +
		"np >= 2 or a length >= 8 (codes), at least 2 blocks and 2 layers (header, packets)"
	for _, s := range []struct {
		name string
		f    func(*Ctx)
	}{{"bio", suiteBio}, {"tagtree", suiteTagTree}, {"codes", suiteCodes}, {"header", suiteHeader}, {"packets", suitePackets}} {
		runTimed(c, s.name, s.f)
	}
}

func runC08(c *Ctx) {
	c.R.Rule = "t2 parse: packet-header parser and DecodePackets on garbage (random bytes, all FF, valid headers with flipped bits / truncated at every offset), random band grids incl. " +
		"out-of-grid positions and empty grids, fresh / carried-over / preset garbage state, layers 0..70000, termAll both, strict/resilient; non-trivial = at least one non-empty band and 2 data bytes"
	runTimed(c, "parse", suiteParse)
	runTimed(c, "parsepk", suiteParsePackets)
}

// runTimed runs one sub-suite (all of them unless VERIF_T2_ONLY names a comma-separated
// subset: development aid) and records its wall time as a note.
func runTimed(c *Ctx, name string, f func(*Ctx)) {
	if only := os.Getenv("VERIF_T2_ONLY"); only != "" && !strings.Contains(","+only+",", ","+name+",") {
		c.Rng.Fork() // keep the PRNG stream of the other suites unchanged
		return
	}
	t0 := time.Now()
	f(c)
	c.R.Note("t2:%s wall time %.1fs (%s tier)", name, time.Since(t0).Seconds(), c.Tier)
}

func b01(b bool) string {
	if b {
		return "1"
	}
	return "0"
}

func joinOr(parts []string, sep, empty string) string {
	if len(parts) == 0 {
		return empty
	}
	return strings.Join(parts, sep)
}

func bitsStr(bits []int) string {
	if len(bits) == 0 {
		return "_"
	}
	b := make([]byte, len(bits))
	for i, v := range bits {
		if v != 0 {
			b[i] = '1'
		} else {
			b[i] = '0'
		}
	}
	return string(b)
}

func bools01(bs []bool) string {
	if len(bs) == 0 {
		return "_"
	}
	parts := make([]string, len(bs))
	for i, b := range bs {
		parts[i] = b01(b)
	}
	return strings.Join(parts, ",")
}

// noise: n bytes with many 0xFF / 0x00 / 0x7F values.
func noise(r *Rand, n int) []byte {
	d := make([]byte, n)
	mode := r.Intn(4)
	for i := range d {
		switch {
		case mode == 0 && r.Intn(3) == 0, mode == 1 && r.Intn(8) == 0:
			d[i] = 0xFF
		case mode == 2 && r.Intn(4) == 0:
			d[i] = byte(r.Pick(0xFF, 0x7F, 0x80, 0x00, 0xFE))
		default:
			d[i] = byte(r.Intn(256))
		}
	}
	return d
}

// bitSink / bitSource: BitWriter / BitReader over a plain bit list.
type bitSink struct{ bits []int }

func (s *bitSink) WriteBit(b int) error { s.bits = append(s.bits, b&1); return nil }

type bitSource struct {
	bits      []int
	pos       int
	exhausted bool
	zeroPad   bool // after the list: zero bits for ever (pos keeps counting)
}

func (s *bitSource) ReadBit() (int, error) {
	if s.pos >= len(s.bits) {
		s.exhausted = true
		if s.zeroPad {
			s.pos++
			return 0, nil
		}
		return 0, fmt.Errorf("bit list exhausted")
	}
	b := s.bits[s.pos]
	s.pos++
	return b, nil
}

var _ t2.BitWriter = (*bitSink)(nil)
var _ t2.BitReader = (*bitSource)(nil)

// genRef identifies a generated case: it is regenerated from (gseed, i). Every failure input
// carries one, so a result file can be passed back with -replay.
type genRef struct {
	GSeed uint64 `json:"gseed"`
	I     int    `json:"i"`
}

// caseRefs returns the case list of a suite: n fresh (seed, index) pairs, or - when
// replaying - the recorded ones of the given failure suites (plus the corpus entries first).
func caseRefs(c *Ctx, rng *Rand, n int, suites ...string) []genRef {
	var out []genRef
	add := func(raws []json.RawMessage) {
		for _, raw := range raws {
			var g struct {
				genRef
				Input *genRef `json:"input"`
				Enc   *genRef `json:"enc"`
			}
			if json.Unmarshal(raw, &g) != nil {
				continue
			}
			switch {
			case g.Input != nil && g.Input.GSeed != 0:
				out = append(out, *g.Input)
			case g.Enc != nil && g.Enc.GSeed != 0:
				out = append(out, *g.Enc)
			case g.GSeed != 0:
				out = append(out, g.genRef)
			}
		}
	}
	replaying := false
	for _, s := range suites {
		add(c.CorpusInputs(s))
		if r := c.ReplayInputs(s); r != nil {
			replaying = true
			add(r)
		}
	}
	if replaying {
		return out
	}
	for i := 0; i < n; i++ {
		out = append(out, genRef{rng.U64() | 1, i})
	}
	return out
}

// mcall is c.M.Call with an optional trace of slow model calls (VERIF_T2_TRACE=<seconds>).
func mcall(c *Ctx, op string, args ...string) string {
	tr := os.Getenv("VERIF_T2_TRACE")
	if tr == "" {
		return c.M.Call(op, args...)
	}
	var lim float64
	fmt.Sscanf(tr, "%g", &lim)
	t0 := time.Now()
	rep := c.M.Call(op, args...)
	if d := time.Since(t0).Seconds(); d >= lim {
		n := 0
		for _, a := range args {
			n += len(a)
		}
		fmt.Fprintf(os.Stderr, "slow model call %s: %.2fs, %d argument bytes, %d reply bytes\n", op, d, n, len(rep))
	}
	return rep
}
