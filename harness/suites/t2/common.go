//go:build verif

// Package t2s: suites of the t2 area (JPEG 2000 tier-2: packet-header bit I/O, tag trees,
// codes, packet headers, packets of a tile). Correspondence against coq/T2/*.v through the
// ops of ocaml/ops_t2.ml, oracles on the Go code alone.
package t2s

import (
	"fmt"
	"strings"

	"github.com/cocosip/go-dicom-codecs/jpeg2000/t2"
	. "verif/harness/vhlib"
)

// Register adds this area's suites.
func Register(s Suites) {
	s.Add("C04", runC04)
	s.Add("C08", runC08)
}

func runC04(c *Ctx) {
	c.R.Rule = "t2: bit I/O (value lists with n 0..32, FF runs, FF at the end), tag trees (packet discipline and arbitrary schedules, 1x1..9x9 and up to 40), " +
		"numpasses / comma / Lblock codes over their whole domain, packet headers over layers (1..3 bands, empty bands, late inclusion, zero-length contributions, TERMALL), " +
		"whole tiles through PacketEncoder/PacketDecoder (all progressions, default and scaled precincts); non-trivial = at least 2 values (bio), 2 leaves and 2 ops (tagtree), " +
		"np >= 2 or a length >= 8 (codes), at least 2 blocks and 2 layers (header, packets)"
	suiteBio(c)
	suiteTagTree(c)
	suiteCodes(c)
	suiteHeader(c)
	suitePackets(c)
}

func runC08(c *Ctx) {
	c.R.Rule = "t2 parse: packet-header parser and DecodePackets on garbage (random bytes, all FF, valid headers with flipped bits / truncated at every offset), random band grids incl. " +
		"out-of-grid positions and empty grids, fresh / carried-over / preset garbage state, layers 0..70000, termAll both, strict/resilient; non-trivial = at least one non-empty band and 2 data bytes"
	suiteParse(c)
	suiteParsePackets(c)
}

func b01(b bool) string {
	if b {
		return "1"
	}
	return "0"
}

func joinOr(parts []string, sep, empty string) string {
	if len(parts) == 0 {
		return empty
	}
	return strings.Join(parts, sep)
}

func bitsStr(bits []int) string {
	if len(bits) == 0 {
		return "_"
	}
	b := make([]byte, len(bits))
	for i, v := range bits {
		if v != 0 {
			b[i] = '1'
		} else {
			b[i] = '0'
		}
	}
	return string(b)
}

func bools01(bs []bool) string {
	if len(bs) == 0 {
		return "_"
	}
	parts := make([]string, len(bs))
	for i, b := range bs {
		parts[i] = b01(b)
	}
	return strings.Join(parts, ",")
}

// noise: n bytes with many 0xFF / 0x00 / 0x7F values.
func noise(r *Rand, n int) []byte {
	d := make([]byte, n)
	mode := r.Intn(4)
	for i := range d {
		switch {
		case mode == 0 && r.Intn(3) == 0, mode == 1 && r.Intn(8) == 0:
			d[i] = 0xFF
		case mode == 2 && r.Intn(4) == 0:
			d[i] = byte(r.Pick(0xFF, 0x7F, 0x80, 0x00, 0xFE))
		default:
			d[i] = byte(r.Intn(256))
		}
	}
	return d
}

// bitSink / bitSource: BitWriter / BitReader over a plain bit list.
type bitSink struct{ bits []int }

func (s *bitSink) WriteBit(b int) error { s.bits = append(s.bits, b&1); return nil }

type bitSource struct {
	bits      []int
	pos       int
	exhausted bool
}

func (s *bitSource) ReadBit() (int, error) {
	if s.pos >= len(s.bits) {
		s.exhausted = true
		return 0, fmt.Errorf("bit list exhausted")
	}
	b := s.bits[s.pos]
	s.pos++
	return b, nil
}

var _ t2.BitWriter = (*bitSink)(nil)
var _ t2.BitReader = (*bitSource)(nil)
